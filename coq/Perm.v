(* Perm.v — C08: every loop of evy that ranges over a Go map, modelled as a
   function that takes the iteration order as an explicit argument: the list
   [pi] of the map's entries in the order in which the runtime happens to
   deliver them (any permutation of the entries; theorems quantify over all of
   them).  Model only, no proofs (PermProofs.v).

   The sites are the ones listed in Gen/MapSites.v, which the translator
   regenerates from /repo with go/types.  *)
From Coq Require Import ZArith NArith List String Bool.
From EvyV Require Import Base.
Import ListNotations.
Open Scope Z_scope.

(* ------------------------------------------------------------------ *)
(* Go maps with string keys, as finite functions                        *)
Definition fmap (V : Type) := str -> option V.
Definition fempty {V} : fmap V := fun _ => None.
Definition fupd {V} (m : fmap V) (k : str) (v : V) : fmap V :=
  fun k' => if str_eqb k' k then Some v else m k'.

(* ------------------------------------------------------------------ *)
(* The loop shapes that occur                                           *)

(* for k, v := range src { dst[key k v] = f k v }   (copy / transform loops) *)
Definition build_loop {A B} (key : str -> A -> str) (f : str -> A -> B) (pi : list (str * A)) (dst : fmap B) : fmap B :=
  fold_left (fun m kv => fupd m (key (fst kv) (snd kv)) (f (fst kv) (snd kv))) pi dst.

(* for _, x := range m { if !ok(x) { return false } }; return true — with a
   body that can also panic (unchecked type assertion inside Equals) *)
Inductive tri := TT | FF | PP.
Fixpoint all_loop {A} (body : A -> tri) (pi : list A) : tri :=
  match pi with
  | [] => TT
  | x :: r => match body x with TT => all_loop body r | o => o end
  end.

(* for _, x := range m { if err := check(x); err != nil { return err } } *)
Fixpoint first_err {A E} (body : A -> option E) (pi : list A) : option E :=
  match pi with
  | [] => None
  | x :: r => match body x with Some e => Some e | None => first_err body r end
  end.

(* for _, x := range m { if p(x) { out = append(out, g(x)) } } *)
Definition collect_loop {A B} (p : A -> bool) (g : A -> B) (pi : list A) : list B :=
  map g (filter p pi).

(* all permutations of a list (used by the executable entry point only) *)
Fixpoint insert_all {A} (x : A) (l : list A) : list (list A) :=
  match l with
  | [] => [[x]]
  | y :: t => (x :: y :: t) :: map (cons y) (insert_all x t)
  end.
Fixpoint perms {A} (l : list A) : list (list A) :=
  match l with
  | [] => [[]]
  | x :: t => flat_map (insert_all x) (perms t)
  end.

(* ------------------------------------------------------------------ *)
(* pkg/parser/parser.go: func (p *parser) validateScope()              *)
Record var := { v_name : str; v_line : N; v_col : N; v_used : bool }.
Definition perr := (N * N * str)%type. (* line, column, variable named in `"x" declared but not used` *)

Definition unused_err (kv : str * var) : perr := (v_line (snd kv), v_col (snd kv), v_name (snd kv)).

(* the errors appended to p.errors, in order *)
Definition validateScope (pi : list (str * var)) : list perr :=
  collect_loop (fun kv => negb (v_used (snd kv))) unused_err pi.

(* the code since /repo af9ee3d: collect, sort by token position, then append *)
Definition pos_leb (a b : perr) : bool :=
  let '(l1, c1, _) := a in let '(l2, c2, _) := b in
  (l1 <? l2)%N || ((l1 =? l2)%N && (c1 <=? c2)%N).
Fixpoint insert_by {A} (leb : A -> A -> bool) (x : A) (l : list A) : list A :=
  match l with
  | [] => [x]
  | h :: t => if leb x h then x :: h :: t else h :: insert_by leb x t
  end.
Definition isort {A} (leb : A -> A -> bool) (l : list A) : list A := fold_right (insert_by leb) [] l.
Definition validateScope_fixed (pi : list (str * var)) : list perr := isort pos_leb (validateScope pi).

(* ------------------------------------------------------------------ *)
(* pkg/parser/type.go: Type, Type.Equals, combineTypes AS IT WAS up to /repo
   e6ebb6a.  0e214ac rewrote combineTypes (mergeFixed, accepts); since e6ebb6a
   parseMapLiteral calls it in source order, so it is no concern of C08 any
   more: this model is kept for the regression theorems only and is no longer
   compared with the implementation (the current function is C04's subject). *)
Inductive base := BNum | BStr | BBool | BAny | BNone.
Inductive ty :=
| TBase (b : base)                         (* NUM_TYPE … NONE_TYPE singletons *)
| TComp (arr : bool) (fixed : bool) (sub : ty) (* &Type{Name: ARRAY|MAP, Sub: sub, Fixed: fixed} *)
| TEmpty (arr : bool).                     (* EMPTY_ARRAY / EMPTY_MAP, compared by pointer in the code *)
Definition TAny := TBase BAny.

Definition base_code (b : base) : N := match b with BNum => 1 | BStr => 2 | BBool => 3 | BAny => 4 | BNone => 5 end.
Definition comp_code (arr : bool) : N := if arr then 6%N else 7%N.
(* the chain of Names that Equals walks down; EMPTY_ARRAY = &Type{ARRAY, Sub: NONE_TYPE} *)
Fixpoint chain (t : ty) : list N :=
  match t with
  | TBase b => [base_code b]
  | TComp a _ s => comp_code a :: chain s
  | TEmpty a => [comp_code a; base_code BNone]
  end.
(* Type.Equals: same Names all the way down; Fixed is ignored *)
Definition teq (a b : ty) : bool := str_eqb (chain a) (chain b).
Definition is_fixed (t : ty) : bool := match t with TComp _ f _ => f | _ => false end.

(* one iteration of combineTypes' loop. [sw = false]: a is combinedT and b is
   t; [sw = true]: a is t and b is combinedT (the recursive call
   combineTypes([t.Sub, combinedT.Sub]) swaps the roles).
   None = `return ANY_TYPE`; Some c = continue with combinedT = c. *)
Fixpoint ct_step (sw : bool) (a b : ty) : option ty :=
  let c := if sw then b else a in
  let t := if sw then a else b in
  if teq c t then Some c
  else if is_fixed t || is_fixed c then None
  else match a, b with
       | TComp ka _ sa, TComp kb _ sb =>
           if Bool.eqb ka kb
           then Some (TComp ka false (match ct_step (negb sw) sa sb with Some s => s | None => TAny end))
           else None
       | TComp ka _ _, TEmpty kb => if Bool.eqb ka kb then Some a else None
       | TEmpty ka, TComp kb _ _ => if Bool.eqb ka kb then Some b else None
       | _, _ => None
       end.

Fixpoint ct_loop (c : ty) (ts : list ty) : ty :=
  match ts with
  | [] => c
  | t :: r => match ct_step false c t with Some c' => ct_loop c' r | None => TAny end
  end.

(* combineTypes(types); types[0] of an empty slice would be an index panic —
   parseMapLiteral/parseArrayLiteral only call it with len > 0 *)
Definition combineTypes (ts : list ty) : ty :=
  match ts with [] => TAny | c :: r => ct_loop c r end.

(* pkg/parser/expression.go: parseMapLiteral, first loop + combineTypes:
   types = [n.Type() for _, n := range mapLit.Pairs]; sub := combineTypes(types) *)
Definition parseMapLiteral_sub (pi : list (str * ty)) : ty := combineTypes (map snd pi).
(* the code since /repo e6ebb6a: iterate mapLit.Order *)
Definition parseMapLiteral_sub_fixed (order : list (str * ty)) : ty := combineTypes (map snd order).

(* ------------------------------------------------------------------ *)
(* pkg/parser/expression.go parseMapLiteral second loop and
   pkg/parser/ast.go wrapAny (MapLiteral case):
     for key, val := range mapLit.Pairs { mapLit.Pairs[key] = wrapAny(val, sub) }
   wrapAny rewrites only the subtree of val, or panics ("internal error"). *)
Inductive wrap_result (V : Type) := WrapOk (m : fmap V) | WrapPanic (at_key : str).
Arguments WrapOk {V}. Arguments WrapPanic {V}.
Fixpoint wrap_loop {V} (w : V -> option V) (pi : list (str * V)) (m : fmap V) : wrap_result V :=
  match pi with
  | [] => WrapOk m
  | (k, v) :: r => match w v with Some v' => wrap_loop w r (fupd m k v') | None => WrapPanic k end
  end.
Definition wrap_panics {V} (r : wrap_result V) : bool := match r with WrapPanic _ => true | _ => false end.

(* pkg/parser/ast.go MapLiteral.infer: for _, val := range m.Pairs { val.infer() } —
   in-place rewrite of each value's own subtree *)
Definition infer_loop {V} (inf : V -> V) (pi : list (str * V)) (m : fmap V) : fmap V :=
  build_loop (fun k _ => k) (fun _ v => inf v) pi m.

(* ------------------------------------------------------------------ *)
(* pkg/evaluator/evaluator.go: evalMapLiteral, as it was before /repo 7307e12
   (kept: the theorem for the present loop is stated relative to it)
     for key, node := range m.Pairs { val, err := e.eval(node); if err != nil { return nil, err }; pairs[key] = copyOrRef(val) }
   S is the whole evaluator state including the platform trace. *)
Section EvalMapLiteral.
  Context {S Nd Vl E : Type}.
  Variable ev : Nd -> S -> S * (E + Vl).
  Fixpoint evalMapLiteral_loop (pi : list (str * Nd)) (s : S) (pairs : fmap Vl) : S * (E + fmap Vl) :=
    match pi with
    | [] => (s, inr pairs)
    | (k, n) :: r =>
        match ev n s with
        | (s', inl e) => (s', inl e)
        | (s', inr v) => evalMapLiteral_loop r s' (fupd pairs k v)
        end
    end.
  Definition evalMapLiteral (pi : list (str * Nd)) (s : S) := evalMapLiteral_loop pi s fempty.
  (* the code since /repo 7307e12: for _, key := range m.Order { node := m.Pairs[key] … } *)
  Definition evalMapLiteral_fixed (order : list (str * Nd)) (s : S) := evalMapLiteral_loop order s fempty.
End EvalMapLiteral.

(* a concrete instance: values of a map literal that print (a call of
   `func f:num n:num / print n / return n`), are constants, or panic *)
Inductive mnode := MPrint (z : Z) | MPure (z : Z) | MPanic.
Definition mev (n : mnode) (trace : list Z) : list Z * (unit + Z) :=
  match n with
  | MPrint z => (trace ++ [z], inr z)
  | MPure z => (trace, inr z)
  | MPanic => (trace, inl tt)
  end.

(* ------------------------------------------------------------------ *)
(* pkg/evaluator/value.go: Equals on values; (m *mapVal) Equals        *)
Inductive val := VNum (z : Z) | VStr (s : str) | VBool (b : bool) | VArr (l : list val).
(* numVal/stringVal/boolVal/arrayVal.Equals: panic("internal error: X.Equals called with non-X value")
   when the other operand has another dynamic kind *)
Fixpoint veq (a b : val) : tri :=
  match a, b with
  | VNum x, VNum y => if Z.eqb x y then TT else FF
  | VStr x, VStr y => if str_eqb x y then TT else FF
  | VBool x, VBool y => if Bool.eqb x y then TT else FF
  | VArr l, VArr l2 =>
      if negb (Nat.eqb (List.length l) (List.length l2)) then FF
      else (fix go (l l2 : list val) : tri :=
              match l, l2 with
              | x :: r, y :: r2 => match veq x y with TT => go r r2 | o => o end
              | _, _ => TT
              end) l l2
  | _, _ => PP
  end.

Section MapEquals.
  Context {V : Type}.
  Variable eqv : V -> V -> tri.
  (* val2 := m2.Pairs[key]; if val2 == nil || !val.Equals(val2) { return false } *)
  Definition equals_body (m2 : fmap V) (kv : str * V) : tri :=
    match m2 (fst kv) with None => FF | Some v2 => eqv (snd kv) v2 end.
  (* len(m.Pairs) != len(m2.Pairs) is checked first *)
  Definition mapVal_Equals (pi : list (str * V)) (len2 : nat) (m2 : fmap V) : tri :=
    if negb (Nat.eqb (List.length pi) len2) then FF else all_loop (equals_body m2) pi.
End MapEquals.

(* pkg/evaluator/builtin.go: sameMap — `same` never panics (every type
   assertion in it is of the comma-ok form) *)
Section SameMap.
  Context {V : Type}.
  Variable same : V -> option V -> bool. (* same(v, got.Pairs[key]); a missing key gives nil *)
  Definition sameMap (pi : list (str * V)) (len2 : nat) (got : fmap V) : bool :=
    if negb (Nat.eqb (List.length pi) len2) then false
    else forallb (fun kv => same (snd kv) (got (fst kv))) pi.
End SameMap.

(* ------------------------------------------------------------------ *)
(* pkg/evaluator/builtin.go: parseFontProps                            *)
Inductive fval := FStr (s : str) | FNum (positive_ : bool) | FOther. (* dynamic kind of the any value; for numbers only n > 0 matters *)
Inductive ferr := EUnknown (k : str) | EType (k : str) | EEnum (k : str) | EPositive (k : str).
Definition prop_is_string (k : str) : option bool :=
  if str_eqb k (s_ "family") then Some true else
  if str_eqb k (s_ "size") then Some false else
  if str_eqb k (s_ "weight") then Some false else
  if str_eqb k (s_ "style") then Some true else
  if str_eqb k (s_ "baseline") then Some true else
  if str_eqb k (s_ "align") then Some true else
  if str_eqb k (s_ "letterspacing") then Some false else None.
Definition font_body (kv : str * fval) : option ferr :=
  let k := fst kv in
  match prop_is_string k with
  | None => Some (EUnknown k)
  | Some isstr =>
      match snd kv with
      | FStr s =>
          if negb isstr then Some (EType k)
          else if (str_eqb k (s_ "align") && negb (str_eqb s (s_ "left") || str_eqb s (s_ "center") || str_eqb s (s_ "right")))
                  || (str_eqb k (s_ "baseline") && negb (str_eqb s (s_ "top") || str_eqb s (s_ "middle") || str_eqb s (s_ "bottom") || str_eqb s (s_ "alphabetic")))
               then Some (EEnum k) else None
      | FNum pos =>
          if isstr then Some (EType k)
          else if (str_eqb k (s_ "size") || str_eqb k (s_ "weight")) && negb pos then Some (EPositive k) else None
      | FOther => Some (EType k)
      end
  end.
(* error, or the props map handed to Platform.Font *)
Definition parseFontProps (pi : list (str * fval)) : ferr + fmap fval :=
  match first_err font_body pi with
  | Some e => inl e
  | None => inr (build_loop (fun k _ => k) (fun _ v => v) pi fempty)
  end.
(* the code since /repo 62da4a1: iterate arg.Order *)
Definition parseFontProps_fixed (order : list (str * fval)) : ferr + fmap fval := parseFontProps order.

(* ------------------------------------------------------------------ *)
(* copy loops: parser.newParser (builtins.Funcs → p.funcs),
   parser.parseProgram (builtins.Globals → scope, isUsed = true; keyed by
   global.Name, not by the map key!), evaluator.builtinsDeclsFromBuiltins
   (Funcs, Globals), evaluator.NewEvaluator (Globals → scope, keyed by
   global.parserVar.Name) *)
Definition newParser_copy {F} (pi : list (str * F)) : fmap F := build_loop (fun k _ => k) (fun _ f => f) pi fempty.
Definition parseProgram_globals (pi : list (str * var)) : fmap var :=
  build_loop (fun _ v => v_name v)
             (fun _ v => {| v_name := v_name v; v_line := v_line v; v_col := v_col v; v_used := true |}) pi fempty.
Definition builtinsDecls_copy {B D} (decl : B -> D) (pi : list (str * B)) : fmap D :=
  build_loop (fun k _ => k) (fun _ b => decl b) pi fempty.
Definition newEvaluator_globals {G Vl} (name : G -> str) (gval : G -> Vl) (pi : list (str * G)) : fmap Vl :=
  build_loop (fun _ g => name g) (fun _ g => gval g) pi fempty.

(* ------------------------------------------------------------------ *)
(* name lists: parser.calledBuiltinFuncs → Program.CalledBuiltinFuncs,
   Evaluator.evalProgram → Evaluator.EventHandlerNames *)
Definition calledBuiltinFuncs (is_builtin : str -> bool) (pi : list (str * bool (* isCalled *))) : list str :=
  collect_loop (fun kv => is_builtin (fst kv) && snd kv) fst pi.
Definition eventHandlerNames {H} (pi : list (str * H)) : list str := collect_loop (fun _ => true) fst pi.

(* ================================================================== *)
(* executable entry point: one case → the outcomes over ALL iteration orders *)
Definition sx_str_of (x : sx) : str := match x with Str s => s | Sym s => s | _ => [] end.
Definition sx_N_of (x : sx) : N := match x with Int z => Z.to_N z | _ => 0%N end.
Definition sx_Z_of (x : sx) : Z := match x with Int z => z | _ => 0 end.

Fixpoint dec_ty (fuel : nat) (x : sx) : ty :=
  match fuel with
  | O => TAny
  | Datatypes.S f =>
      match x with
      | Sym s =>
          if str_eqb s (s_ "num") then TBase BNum else if str_eqb s (s_ "str") then TBase BStr
          else if str_eqb s (s_ "bool") then TBase BBool else if str_eqb s (s_ "any") then TBase BAny
          else if str_eqb s (s_ "none") then TBase BNone
          else if str_eqb s (s_ "earr") then TEmpty true else if str_eqb s (s_ "emap") then TEmpty false else TAny
      | Lst [Sym k; Int fx; sub] => TComp (str_eqb k (s_ "arr")) (negb (Z.eqb fx 0)) (dec_ty f sub)
      | _ => TAny
      end
  end.
Fixpoint enc_ty (t : ty) : sx :=
  match t with
  | TBase BNum => Sym (s_ "num") | TBase BStr => Sym (s_ "str") | TBase BBool => Sym (s_ "bool")
  | TBase BAny => Sym (s_ "any") | TBase BNone => Sym (s_ "none")
  | TEmpty true => Sym (s_ "earr") | TEmpty false => Sym (s_ "emap")
  | TComp a f s => Lst [Sym (s_ (if a then "arr" else "map")); Int (if f then 1 else 0); enc_ty s]
  end.

Definition dec_var (x : sx) : str * var :=
  match x with
  | Lst [n; l; c; u] => (sx_str_of n, {| v_name := sx_str_of n; v_line := sx_N_of l; v_col := sx_N_of c; v_used := sym_is u "true" |})
  | _ => ([], {| v_name := []; v_line := 0; v_col := 0; v_used := true |})
  end.
Definition enc_perr (e : perr) : sx := let '(l, c, n) := e in Lst [Int (Z.of_N l); Int (Z.of_N c); Str n].

Definition dec_mnode (x : sx) : str * mnode :=
  match x with
  | Lst [k; kind; z] => (sx_str_of k, if sym_is kind "print" then MPrint (sx_Z_of z) else if sym_is kind "pure" then MPure (sx_Z_of z) else MPanic)
  | _ => ([], MPanic)
  end.
Definition enc_mres (r : list Z * (unit + fmap Z)) : sx :=
  Lst (Sym (s_ (match snd r with inl _ => "err" | inr _ => "ok" end)) :: map Int (fst r)).

Definition dec_fval (x : sx) : str * fval :=
  match x with
  | Lst [k; Sym t; a] =>
      (sx_str_of k, if str_eqb t (s_ "s") then FStr (sx_str_of a) else if str_eqb t (s_ "n") then FNum (0 <? sx_Z_of a) else FOther)
  | _ => ([], FOther)
  end.
Definition enc_fres (r : ferr + fmap fval) : sx :=
  match r with
  | inr _ => Lst [Sym (s_ "ok")]
  | inl (EUnknown k) => Lst [Sym (s_ "unknown"); Str k]
  | inl (EType k) => Lst [Sym (s_ "type"); Str k]
  | inl (EEnum k) => Lst [Sym (s_ "enum"); Str k]
  | inl (EPositive k) => Lst [Sym (s_ "positive"); Str k]
  end.

Fixpoint dec_val (fuel : nat) (x : sx) : val :=
  match fuel with
  | O => VNum 0
  | Datatypes.S f =>
      match x with
      | Int z => VNum z
      | Str s => VStr s
      | Sym s => VBool (str_eqb s (s_ "true"))
      | Lst l => VArr (map (dec_val f) l)
      end
  end.
Definition enc_tri (t : tri) : sx := Sym (s_ (match t with TT => "true" | FF => "false" | PP => "panic" end)).
(* (key v1 v2): entry of m with value v1, m2 has v2 under the same key *)
Definition dec_eqpair (x : sx) : str * (val * val) :=
  match x with
  | Lst [k; a; b] => (sx_str_of k, (dec_val 8 a, dec_val 8 b))
  | _ => ([], (VNum 0, VNum 0))
  end.

(* ------------------------------------------------------------------ *)
(* THE MODEL IN FORCE.  Each definition mirrors /repo as it is today (all five
   fixes merged: 7307e12 af9ee3d 62da4a1 e6ebb6a abeb6de); the loop each one
   replaced is named in the comment and kept above as the regression model.  [pi] is the runtime's
   iteration order, [order] the source/insertion order. *)
Definition validateScope_cur (pi order : list (str * var)) : list perr :=
  validateScope_fixed pi.                  (* since /repo af9ee3d (collect, sort by token offset); before: validateScope pi *)
Definition evalMapLiteral_cur (pi order : list (str * mnode)) (s : list Z) :=
  evalMapLiteral_fixed mev order s.        (* since /repo 7307e12 (ranges over m.Order); before: evalMapLiteral mev pi s *)
Definition parseFontProps_cur (pi order : list (str * fval)) : ferr + fmap fval :=
  parseFontProps_fixed order.              (* since /repo 62da4a1 (ranges over *arg.Order); before: parseFontProps pi *)
Definition parseMapLiteral_sub_cur (pi order : list (str * ty)) : ty :=
  parseMapLiteral_sub_fixed order.         (* since /repo e6ebb6a (ranges over mapLit.Order); before: parseMapLiteral_sub pi *)
Definition mapVal_Equals_cur (pi order : list (str * val)) (len2 : nat) (m2 : fmap val) : tri :=
  mapVal_Equals veq order len2 m2.         (* since /repo abeb6de (ranges over *m.Order); before: mapVal_Equals veq pi len2 m2 *)

(* wrapAny over Pairs (parseMapLiteral's remaining map range and wrapAny's map
   case): a value is either rewritten or makes wrapAny panic *)
Definition wrap_w (ok : bool) : option bool := if ok then Some ok else None.
Definition wrap_cur (pi order : list (str * bool)) : wrap_result bool :=
  wrap_loop wrap_w pi fempty.              (* fixed: wrap_loop wrap_w order fempty *)
Definition dec_wrap (x : sx) : str * bool :=
  match x with Lst [k; v] => (sx_str_of k, sym_is v "ok") | _ => ([], true) end.
Definition enc_wrap (r : wrap_result bool) : sx :=
  match r with WrapOk _ => Lst [Sym (s_ "ok")] | WrapPanic k => Lst [Sym (s_ "panic"); Str k] end.

Definition perm_case (x : sx) : sx :=
  match x with
  | Lst (Sym site :: args) =>
      if str_eqb site (s_ "validateScope") then
        let order := map dec_var args in
        Lst (map (fun pi => Lst (map enc_perr (validateScope_cur pi order))) (perms order))
      else if str_eqb site (s_ "validateScope-fixed") then
        Lst (map (fun pi => Lst (map enc_perr (validateScope_fixed pi))) (perms (map dec_var args)))
      else if str_eqb site (s_ "evalMapLiteral") then
        let order := map dec_mnode args in
        Lst (map (fun pi => enc_mres (evalMapLiteral_cur pi order [])) (perms order))
      else if str_eqb site (s_ "fontProps") then
        let order := map dec_fval args in
        Lst (map (fun pi => enc_fres (parseFontProps_cur pi order)) (perms order))
      else if str_eqb site (s_ "combine") then (* exactly this order *)
        enc_ty (combineTypes (map (dec_ty 12) args))
      else if str_eqb site (s_ "combine-all") then
        let order := map (fun t => (@nil N, dec_ty 12 t)) args in
        Lst (map (fun pi => enc_ty (parseMapLiteral_sub_cur pi order)) (perms order))
      else if str_eqb site (s_ "equals") then
        let es := map dec_eqpair args in
        let m2 : fmap val := fun k => match find (fun e => str_eqb (fst e) k) es with Some e => Some (snd (snd e)) | None => None end in
        let order := map (fun e => (fst e, fst (snd e))) es in
        Lst (map (fun pi => enc_tri (mapVal_Equals_cur pi order (List.length es) m2)) (perms order))
      else if str_eqb site (s_ "wrap") then
        let order := map dec_wrap args in
        Lst (map (fun pi => enc_wrap (wrap_cur pi order)) (perms order))
      else if str_eqb site (s_ "names") then
        Lst (map (fun pi => Lst (map Str (eventHandlerNames pi))) (perms (map (fun a => (sx_str_of a, tt)) args)))
      else Sym (s_ "unknown-site")
  | _ => Sym (s_ "decode-error")
  end.
