(* SemOrder.v — C01, evaluation-order part: short-circuit and/or, left-to-right
   evaluation (unfolding equations + trace concatenation), the binary-operator
   table, and the laws of deep equality (value.Equals).
   All statements are about the executable model Sem.v. *)
From Coq Require Import ZArith NArith List String Bool Floats FMapPositive Permutation Lia.
From EvyV Require Import Base Num Ast Omap Sem SemPure.
Import ListNotations.
Open Scope Z_scope.

(* ====================================================================== *)
(* 0. Monad laws (pointwise)                                              *)
(* ====================================================================== *)
Lemma bindM_ok {A B} (m : M A) (f : A -> M B) s a s1 :
  m s = (Ok a, s1) -> bindM m f s = f a s1.
Proof. intro H; unfold bindM; rewrite H; reflexivity. Qed.

Lemma bindM_er {A B} (m : M A) (f : A -> M B) s e s1 :
  m s = (Er e, s1) -> bindM m f s = (Er e, s1).
Proof. intro H; unfold bindM; rewrite H; reflexivity. Qed.

Lemma bindM_ret_r {A} (m : M A) s : bindM m ret s = m s.
Proof. unfold bindM, ret; destruct (m s) as [[a|er] s1]; reflexivity. Qed.

Lemma bindM_assoc {A B C} (m : M A) (f : A -> M B) (g : B -> M C) s :
  bindM (bindM m f) g s = bindM m (fun a => bindM (f a) g) s.
Proof. unfold bindM; destruct (m s) as [[a|er] s1]; reflexivity. Qed.

Lemma bindM_ext {A B} (m : M A) (f g : A -> M B) s :
  (forall a s1, f a s1 = g a s1) -> bindM m f s = bindM m g s.
Proof. intro H; unfold bindM; destruct (m s) as [[a|er] s1]; [apply H | reflexivity]. Qed.

(* ====================================================================== *)
(* B1. short-circuit and / or                                             *)
(* ====================================================================== *)
(* [l] is evaluated with the fuel the EBin node passes down; the state after
   the node's own yield is [s1], after the left operand [s2]. *)

Lemma load_hget l s v : hget (st_heap s) l = Some v -> load l s = (Ok v, s).
Proof. intro H; unfold load; rewrite H; reflexivity. Qed.

(* and: left operand false => the right operand is never evaluated; the
   result is a new cell holding false, allocated in the state reached by the
   left operand *)
Lemma short_circuit_and : forall n P e t l r s s1 la s2,
  tick s = (Ok tt, s1) ->
  eval_expr n P e l s1 = (Ok la, s2) ->
  hget (st_heap s2) la = Some (HBool false) ->
  eval_expr (S n) P e (EBin BAnd t l r) s = alloc (HBool false) s2.
Proof.
  intros n P e t l r s s1 la s2 Ht Hl Hv. cbn [eval_expr].
  rewrite (bindM_ok _ _ _ _ _ Ht), (bindM_ok _ _ _ _ _ Hl), (bindM_ok _ _ _ _ _ (load_hget _ _ _ Hv)).
  unfold bindM at 1, ret at 1. rewrite (bindM_ok _ _ _ _ _ (load_hget _ _ _ Hv)).
  unfold load_bool. rewrite bindM_assoc.
  rewrite (bindM_ok _ _ _ _ _ (load_hget _ _ _ Hv)). reflexivity.
Qed.

Lemma short_circuit_or : forall n P e t l r s s1 la s2,
  tick s = (Ok tt, s1) ->
  eval_expr n P e l s1 = (Ok la, s2) ->
  hget (st_heap s2) la = Some (HBool true) ->
  eval_expr (S n) P e (EBin BOr t l r) s = alloc (HBool true) s2.
Proof.
  intros n P e t l r s s1 la s2 Ht Hl Hv. cbn [eval_expr].
  rewrite (bindM_ok _ _ _ _ _ Ht), (bindM_ok _ _ _ _ _ Hl), (bindM_ok _ _ _ _ _ (load_hget _ _ _ Hv)).
  unfold bindM at 1, ret at 1. rewrite (bindM_ok _ _ _ _ _ (load_hget _ _ _ Hv)).
  unfold load_bool. rewrite bindM_assoc.
  rewrite (bindM_ok _ _ _ _ _ (load_hget _ _ _ Hv)). reflexivity.
Qed.

(* explicit final state: tick, left operand, one allocation; trace untouched *)
Lemma short_circuit_and_state : forall n P e t l r s s1 la s2,
  tick s = (Ok tt, s1) ->
  eval_expr n P e l s1 = (Ok la, s2) ->
  hget (st_heap s2) la = Some (HBool false) ->
  eval_expr (S n) P e (EBin BAnd t l r) s =
    (Ok (hnext (st_heap s2)), upd_heap (snd (halloc (st_heap s2) (HBool false))) s2)
  /\ st_trace (snd (eval_expr (S n) P e (EBin BAnd t l r) s)) = st_trace s2.
Proof.
  intros. rewrite (short_circuit_and _ _ _ _ _ _ _ _ _ _ H H0 H1). split; reflexivity.
Qed.

Lemma short_circuit_or_state : forall n P e t l r s s1 la s2,
  tick s = (Ok tt, s1) ->
  eval_expr n P e l s1 = (Ok la, s2) ->
  hget (st_heap s2) la = Some (HBool true) ->
  eval_expr (S n) P e (EBin BOr t l r) s =
    (Ok (hnext (st_heap s2)), upd_heap (snd (halloc (st_heap s2) (HBool true))) s2)
  /\ st_trace (snd (eval_expr (S n) P e (EBin BOr t l r) s)) = st_trace s2.
Proof.
  intros. rewrite (short_circuit_or _ _ _ _ _ _ _ _ _ _ H H0 H1). split; reflexivity.
Qed.

(* what an EBin node does once both operand cells are known (op not == / !=):
   it reads the LEFT cell now — after the right operand ran — and dispatches *)
Definition bin_dispatch (op : binop) (la lb : loc) : M loc :=
  let* va := load la in
  match va with
  | HNum y => let* z := load_num lb in bin_num op y z
  | HStr y => let* z := load_str lb in bin_str op y z
  | HBool y => let* z := load_bool lb in bin_bool op y z
  | HArr xs => bin_arr op xs lb
  | _ => internal "unknown operation (binary)"
  end.

(* and: left operand true => the right operand IS evaluated next, from the
   state the left operand reached; then the operator is applied *)
Lemma no_short_circuit_and : forall n P e t l r s s1 la s2,
  tick s = (Ok tt, s1) ->
  eval_expr n P e l s1 = (Ok la, s2) ->
  hget (st_heap s2) la = Some (HBool true) ->
  eval_expr (S n) P e (EBin BAnd t l r) s =
    (let* lb := eval_expr n P e r in bin_dispatch BAnd la lb) s2.
Proof.
  intros n P e t l r s s1 la s2 Ht Hl Hv. cbn [eval_expr].
  rewrite (bindM_ok _ _ _ _ _ Ht), (bindM_ok _ _ _ _ _ Hl), (bindM_ok _ _ _ _ _ (load_hget _ _ _ Hv)).
  reflexivity.
Qed.

Lemma no_short_circuit_or : forall n P e t l r s s1 la s2,
  tick s = (Ok tt, s1) ->
  eval_expr n P e l s1 = (Ok la, s2) ->
  hget (st_heap s2) la = Some (HBool false) ->
  eval_expr (S n) P e (EBin BOr t l r) s =
    (let* lb := eval_expr n P e r in bin_dispatch BOr la lb) s2.
Proof.
  intros n P e t l r s s1 la s2 Ht Hl Hv. cbn [eval_expr].
  rewrite (bindM_ok _ _ _ _ _ Ht), (bindM_ok _ _ _ _ _ Hl), (bindM_ok _ _ _ _ _ (load_hget _ _ _ Hv)).
  reflexivity.
Qed.

(* fully explicit version of the non-short-circuit case: x is the content of
   the left cell AFTER the right operand ran (the same true/false unless the
   right operand updated that very cell in place), y the right value *)
Lemma no_short_circuit_and_full : forall n P e t l r s s1 la s2 lb s3 x y,
  tick s = (Ok tt, s1) ->
  eval_expr n P e l s1 = (Ok la, s2) ->
  hget (st_heap s2) la = Some (HBool true) ->
  eval_expr n P e r s2 = (Ok lb, s3) ->
  hget (st_heap s3) la = Some (HBool x) ->
  hget (st_heap s3) lb = Some (HBool y) ->
  eval_expr (S n) P e (EBin BAnd t l r) s = alloc (HBool (x && y)) s3.
Proof.
  intros n P e t l r s s1 la s2 lb s3 x y Ht Hl Hv Hr Hx Hy.
  rewrite (no_short_circuit_and _ _ _ _ _ _ _ _ _ _ Ht Hl Hv).
  rewrite (bindM_ok _ _ _ _ _ Hr). unfold bin_dispatch.
  rewrite (bindM_ok _ _ _ _ _ (load_hget _ _ _ Hx)). unfold load_bool. rewrite bindM_assoc.
  rewrite (bindM_ok _ _ _ _ _ (load_hget _ _ _ Hy)). reflexivity.
Qed.

Lemma no_short_circuit_or_full : forall n P e t l r s s1 la s2 lb s3 x y,
  tick s = (Ok tt, s1) ->
  eval_expr n P e l s1 = (Ok la, s2) ->
  hget (st_heap s2) la = Some (HBool false) ->
  eval_expr n P e r s2 = (Ok lb, s3) ->
  hget (st_heap s3) la = Some (HBool x) ->
  hget (st_heap s3) lb = Some (HBool y) ->
  eval_expr (S n) P e (EBin BOr t l r) s = alloc (HBool (x || y)) s3.
Proof.
  intros n P e t l r s s1 la s2 lb s3 x y Ht Hl Hv Hr Hx Hy.
  rewrite (no_short_circuit_or _ _ _ _ _ _ _ _ _ _ Ht Hl Hv).
  rewrite (bindM_ok _ _ _ _ _ Hr). unfold bin_dispatch.
  rewrite (bindM_ok _ _ _ _ _ (load_hget _ _ _ Hx)). unfold load_bool. rewrite bindM_assoc.
  rewrite (bindM_ok _ _ _ _ _ (load_hget _ _ _ Hy)). reflexivity.
Qed.

(* an error (or stop) in the left operand is the result: nothing else runs *)
Lemma ebin_left_error : forall n P e op t l r s s1 er s2,
  tick s = (Ok tt, s1) ->
  eval_expr n P e l s1 = (Er er, s2) ->
  eval_expr (S n) P e (EBin op t l r) s = (Er er, s2).
Proof.
  intros n P e op t l r s s1 er s2 Ht Hl. cbn [eval_expr].
  rewrite (bindM_ok _ _ _ _ _ Ht), (bindM_er _ _ _ _ _ Hl). reflexivity.
Qed.

(* ====================================================================== *)
(* B2. left-to-right evaluation: unfolding equations                      *)
(* ====================================================================== *)
Lemma eval_exprs_nil : forall n P e, eval_exprs (S n) P e [] = ret [].
Proof. reflexivity. Qed.

(* evalExprList: head, then copyOrRef of its value, then the tail *)
Lemma eval_exprs_cons : forall n P e x t,
  eval_exprs (S n) P e (x :: t) =
    (let* v := eval_expr n P e x in
     let* d := depth_fuel in
     let* c := copy_or_ref d v in
     let* r := eval_exprs n P e t in
     ret (c :: r)).
Proof. reflexivity. Qed.

(* binary expression: yield, left operand, short-circuit test on the left
   value, right operand, then the operator (bin_dispatch re-reads the left cell) *)
Lemma eval_bin_order : forall n P e op t a b,
  eval_expr (S n) P e (EBin op t a b) =
    (let* _ := tick in
     let* la := eval_expr n P e a in
     let* va0 := load la in
     let short := match op, va0 with
                  | BAnd, HBool false => true
                  | BOr, HBool true => true
                  | _, _ => false
                  end in
     let* lb := if short then ret la else eval_expr n P e b in
     match op with
     | BEq => let* d := depth_fuel in let* r := equals d la lb in alloc (HBool r)
     | BNotEq => let* d := depth_fuel in let* r := equals d la lb in alloc (HBool (negb r))
     | _ => bin_dispatch op la lb
     end).
Proof. reflexivity. Qed.

(* index expression: the indexed value before the index *)
Lemma eval_index_order : forall n P e t a i,
  eval_expr (S n) P e (EIndex t a i) =
    (let* _ := tick in
     let* la := eval_expr n P e a in
     let* li := eval_expr n P e i in
     let* va := load la in
     match va with
     | HArr els =>
         let* fi := load_num li in
         let* k := lift (normalize_index fi (List.length els) false) in
         match nth_error els k with Some l => ret l | None => crash "index out of range" end
     | HStr s =>
         let* fi := load_num li in
         let* k := lift (normalize_index fi (List.length s) false) in
         match nth_error s k with Some c => alloc (HStr [c]) | None => crash "index out of range" end
     | HMap om =>
         let* vi := load li in
         match vi with
         | HStr k => match oget k om with Some l => ret l | None => fail (EPanic PkMapKey) end
         | _ => internal "expected string for map index"
         end
     | _ => internal "expected array, string or map with index"
     end).
Proof. reflexivity. Qed.

(* slice expression: sliced value, low bound, high bound *)
Lemma eval_slice_order : forall n P e t a lo hi,
  eval_expr (S n) P e (ESlice t a lo hi) =
    (let* _ := tick in
     let* la := eval_expr n P e a in
     let* llo := match lo with Some y => let* l := eval_expr n P e y in ret (Some l) | None => ret None end in
     let* lhi := match hi with Some y => let* l := eval_expr n P e y in ret (Some l) | None => ret None end in
     let* va := load la in
     match va with
     | HArr els =>
         let* (s0, e0) := slice_bounds llo lhi (List.length els) in
         let* d := depth_fuel in
         let* els' := mapM (copy_or_ref d) (firstn (e0 - s0) (skipn s0 els)) in
         alloc (HArr els')
     | HStr s =>
         let* (s0, e0) := slice_bounds llo lhi (List.length s) in
         alloc (HStr (firstn (e0 - s0) (skipn s0 s)))
     | _ => internal "expected string or array before ["
     end).
Proof. reflexivity. Qed.

(* array literal: its elements through evalExprList *)
Lemma eval_arr_order : forall n P e t es,
  eval_expr (S n) P e (EArr t es) =
    (let* _ := tick in let* els := eval_exprs n P e es in alloc (HArr els)).
Proof. reflexivity. Qed.

(* map literal: values in key-list order; as a standalone recursive function *)
Section MapPairs.
  Variables (n : nat) (P : program) (e : env) (d : nat).
  Fixpoint eval_map_pairs (ps : list (str * expr)) : M (list (str * loc)) :=
    match ps with
    | [] => ret []
    | (k, a) :: t =>
        let* l := eval_expr n P e a in
        let* c := copy_or_ref d l in
        let* r := eval_map_pairs t in
        ret ((k, c) :: r)
    end.
End MapPairs.

Lemma eval_map_order : forall n P e t ps,
  eval_expr (S n) P e (EMap t ps) =
    (let* _ := tick in
     let* d := depth_fuel in
     let* vals := eval_map_pairs n P e d ps in
     alloc (HMap {| pairs := vals; order := map fst ps |})).
Proof. reflexivity. Qed.

(* assignment: the right-hand side (then copyOrRef) before the sub-expressions
   of the target; within an indexed target the container before the index *)
Lemma exec_assign_order : forall n P e target x,
  exec_stmt (S n) P e (SAssign target x) =
    (let* _ := tick in
     let* v0 := eval_expr n P e x in
     let* d := depth_fuel in
     let* v := copy_or_ref d v0 in
     match target with
     | EVar name _ => let* e' := update_var name v e in ret (SigNone, e')
     | EIndex _ a i =>
         let* la := eval_expr n P e a in
         let* li := eval_expr n P e i in
         let* va := load la in
         match va with
         | HArr els =>
             let* fi := load_num li in
             let* k := lift (normalize_index fi (List.length els) false) in
             let* _ := store la (HArr (list_set els k v)) in
             ret (SigNone, e)
         | HMap _ =>
             let* k := load_str li in
             let* _ := map_set_key la k v in
             ret (SigNone, e)
         | _ => internal "expected array or map assignment target with index"
         end
     | EDot _ a key =>
         let* la := eval_expr n P e a in
         let* va := load la in
         match va with
         | HMap _ => let* _ := map_set_key la key v in ret (SigNone, e)
         | _ => internal "expected map before ."
         end
     | _ => internal "bad assignment target"
     end).
Proof. reflexivity. Qed.

(* declaration: value, copyOrRef, binding *)
Lemma exec_decl_order : forall n P e name t x,
  exec_stmt (S n) P e (SDecl name t x) =
    (let* _ := tick in
     let* v := eval_expr n P e x in
     let* d := depth_fuel in
     let* c := copy_or_ref d v in
     let* e' := set_var name c e in
     ret (SigNone, e')).
Proof. reflexivity. Qed.

(* call: all arguments (left to right, through evalExprList) before the callee *)
Lemma eval_call_order : forall n P e name args,
  eval_call (S n) P e name args =
    (let* vals := eval_exprs n P e args in
     if str_eqb name n_test then let* _ := run_test vals in ret None
     else
     match builtin name e vals with
     | Some m => m
     | None =>
         if existsb (str_eqb name) unmodelled_builtins then fail (EUnsupported name)
         else
         match find_func name (p_funcs P) with
         | None => crash "nil FuncDef"
         | Some fd =>
             let* (fr, rest) := bind_params (fn_params fd) vals [] in
             let* fr' := match fn_variadic fd with
                         | Some (vn, _) => let* a := alloc (HArr vals) in
                                           ret (if str_eqb vn underscore then fr else frame_set vn a fr)
                         | None => ret fr
                         end in
             let* (sig, _) := exec_block n P [fr'] (fn_body fd) in
             match sig with
             | SigReturn v => ret v
             | _ => let* l := alloc HNone in ret (Some l)
             end
         end
     end).
Proof. reflexivity. Qed.

Lemma eval_callexpr_order : forall n P e name t args,
  eval_expr (S n) P e (ECall name t args) =
    (let* _ := tick in
     let* r := eval_call n P e name args in
     match r with Some l => ret l | None => alloc HNone end).
Proof. reflexivity. Qed.

(* statements run in order; a control signal ends the list *)
Lemma exec_stmts_cons : forall n P e s t,
  exec_stmts (S n) P e (s :: t) =
    (let* (sig, e1) := exec_stmt n P e s in
     if is_ctl sig then ret (sig, e1) else exec_stmts n P e1 t).
Proof. reflexivity. Qed.

(* ---- eval_exprs on a concatenation, with the exact fuel ------------------
   eval_exprs spends one unit of fuel per list element (the element at
   position i is evaluated with fuel  n - 1 - i), and one more unit for the
   final [] — so a list xs can be evaluated completely only with fuel
   > length xs, and the part ys of xs ++ ys starts with fuel n - length xs. *)
Lemma eval_exprs_app : forall P e xs ys k s,
  eval_exprs (List.length xs + S k) P e (xs ++ ys) s =
    (let* vs := eval_exprs (List.length xs + S k) P e xs in
     let* ws := eval_exprs (S k) P e ys in
     ret (vs ++ ws)) s.
Proof.
  intros P e xs; induction xs as [|x xs IH]; intros ys k s.
  - change (List.length (@nil expr) + S k)%nat with (S k). change ([] ++ ys) with ys.
    rewrite eval_exprs_nil. unfold bindM at 1, ret at 1. cbn [app].
    symmetry. apply bindM_ret_r.
  - change (List.length (x :: xs) + S k)%nat with (S (List.length xs + S k)).
    change ((x :: xs) ++ ys) with (x :: (xs ++ ys)).
    rewrite !eval_exprs_cons.
    rewrite bindM_assoc. apply bindM_ext; intros v s1.
    rewrite bindM_assoc. apply bindM_ext; intros d s2.
    rewrite bindM_assoc. apply bindM_ext; intros c s3.
    rewrite bindM_assoc.
    transitivity (bindM (fun s => eval_exprs (List.length xs + S k) P e (xs ++ ys) s)
                        (fun r => ret (c :: r)) s3); [reflexivity|].
    unfold bindM at 1. rewrite IH.
    unfold bindM, ret.
    destruct (eval_exprs (List.length xs + S k) P e xs s3) as [[vs|er] s4]; [|reflexivity].
    destruct (eval_exprs (S k) P e ys s4) as [[ws|er] s5]; reflexivity.
Qed.

Corollary eval_exprs_app_ok : forall P e xs ys k s vs s1 ws s2,
  eval_exprs (List.length xs + S k) P e xs s = (Ok vs, s1) ->
  eval_exprs (S k) P e ys s1 = (Ok ws, s2) ->
  eval_exprs (List.length xs + S k) P e (xs ++ ys) s = (Ok (vs ++ ws), s2).
Proof.
  intros. rewrite eval_exprs_app. rewrite (bindM_ok _ _ _ _ _ H), (bindM_ok _ _ _ _ _ H0). reflexivity.
Qed.

(* an error among the first part stops everything: ys is never evaluated *)
Corollary eval_exprs_app_err : forall P e xs ys k s er s1,
  eval_exprs (List.length xs + S k) P e xs s = (Er er, s1) ->
  eval_exprs (List.length xs + S k) P e (xs ++ ys) s = (Er er, s1).
Proof. intros. rewrite eval_exprs_app. rewrite (bindM_er _ _ _ _ _ H). reflexivity. Qed.

(* ====================================================================== *)
(* B3a. the operator table of docs/spec.md                                 *)
(* ====================================================================== *)
(*  | `+` `-` `*` `/` `%` | num           | num    | arithmetic    |
    | `+`                 | string        | string | concatenation |
    | `+`                 | array         | array  | concatenation |
    | `*`                 | array * num   | array  | repetition    |
    | `and` `or`          | bool          | bool   | logical       |
    | `<` `<=` `>` `>=`   | num           | bool   | comparison    |
    | `<` `<=` `>` `>=`   | string        | bool   | comparison    |
    | `==` `!=`           | all types     | bool   | comparison    |
   The last row is not dispatched on the operand kind: eval_expr's EBin case
   sends BEq / BNotEq to [equals] before looking at the left operand (see
   eval_bin_order, and ebin_eq / ebin_noteq below). *)
Inductive okind := KNum | KStr | KBool | KArr.

Definition op_table : list (okind * binop) :=
  [ (KNum, BPlus); (KNum, BMinus); (KNum, BAsterisk); (KNum, BSlash); (KNum, BPercent);
    (KStr, BPlus);
    (KArr, BPlus);
    (KArr, BAsterisk);
    (KBool, BAnd); (KBool, BOr);
    (KNum, BLt); (KNum, BLtEq); (KNum, BGt); (KNum, BGtEq);
    (KStr, BLt); (KStr, BLtEq); (KStr, BGt); (KStr, BGtEq) ].

Definition okind_eqb (a b : okind) : bool :=
  match a, b with KNum, KNum | KStr, KStr | KBool, KBool | KArr, KArr => true | _, _ => false end.
Definition binop_eqb (a b : binop) : bool :=
  match a, b with
  | BPlus, BPlus | BMinus, BMinus | BSlash, BSlash | BAsterisk, BAsterisk | BPercent, BPercent
  | BOr, BOr | BAnd, BAnd | BEq, BEq | BNotEq, BNotEq | BLt, BLt | BGt, BGt | BLtEq, BLtEq | BGtEq, BGtEq => true
  | _, _ => false
  end.
Definition in_table (k : okind) (op : binop) : bool :=
  existsb (fun p => okind_eqb (fst p) k && binop_eqb (snd p) op) op_table.

Lemma in_table_In k op : in_table k op = true <-> In (k, op) op_table.
Proof. destruct k, op; vm_compute; split; intro H; try reflexivity; try discriminate;
       repeat (destruct H as [H|H]; [discriminate H|]); try contradiction; tauto. Qed.

(* the documented meaning, stated independently of bin_* *)
Definition num_meaning (op : binop) (x y : float) : option hval :=
  match op with
  | BPlus => Some (HNum (x + y)%float)           (* IEEE-754 binary64 addition *)
  | BMinus => Some (HNum (x - y)%float)
  | BAsterisk => Some (HNum (x * y)%float)
  | BSlash => Some (HNum (x / y)%float)
  | BPercent => Some (HNum (fmod x y))           (* Go math.Mod *)
  | BLt => Some (HBool (x <? y)%float)
  | BLtEq => Some (HBool (x <=? y)%float)
  | BGt => Some (HBool (y <? x)%float)
  | BGtEq => Some (HBool (y <=? x)%float)
  | BAnd | BOr | BEq | BNotEq => None
  end.

Definition str_meaning (op : binop) (x y : str) : option hval :=
  match op with
  | BPlus => Some (HStr (x ++ y))
  | BLt => Some (HBool (str_ltb x y))
  | BLtEq => Some (HBool (negb (str_ltb y x)))
  | BGt => Some (HBool (str_ltb y x))
  | BGtEq => Some (HBool (negb (str_ltb x y)))
  | _ => None
  end.

Definition bool_meaning (op : binop) (x y : bool) : option hval :=
  match op with
  | BAnd => Some (HBool (x && y))
  | BOr => Some (HBool (x || y))
  | _ => None
  end.

(* what "returns a new cell holding v" means *)
Definition allocates (v : hval) (s : state) (r : res loc * state) : Prop :=
  r = (Ok (hnext (st_heap s)), upd_heap (snd (halloc (st_heap s) v)) s) /\
  hget (st_heap (snd r)) (hnext (st_heap s)) = Some v /\
  (forall l, l <> hnext (st_heap s) -> hget (st_heap (snd r)) l = hget (st_heap s) l) /\
  st_trace (snd r) = st_trace s.

Lemma alloc_allocates v s : allocates v s (alloc v s).
Proof.
  unfold allocates, alloc, halloc, hget; cbn. repeat split.
  - apply PositiveMap.gss.
  - intros l Hl. apply PositiveMap.gso. exact Hl.
Qed.

Lemma bin_num_table : forall op x y s,
  match num_meaning op x y with
  | Some v => in_table KNum op = true /\ allocates v s (bin_num op x y s)
  | None => in_table KNum op = false /\ exists why, bin_num op x y s = (Er (EInternal why), s)
  end.
Proof.
  intros op x y s; destruct op; cbn [num_meaning bin_num];
    (split; [reflexivity|]); try apply alloc_allocates; eexists; reflexivity.
Qed.

Lemma bin_str_table : forall op x y s,
  match str_meaning op x y with
  | Some v => in_table KStr op = true /\ allocates v s (bin_str op x y s)
  | None => in_table KStr op = false /\ exists why, bin_str op x y s = (Er (EInternal why), s)
  end.
Proof.
  intros op x y s; destruct op; cbn [str_meaning bin_str];
    (split; [reflexivity|]); try apply alloc_allocates; eexists; reflexivity.
Qed.

Lemma bin_bool_table : forall op x y s,
  match bool_meaning op x y with
  | Some v => in_table KBool op = true /\ allocates v s (bin_bool op x y s)
  | None => in_table KBool op = false /\ exists why, bin_bool op x y s = (Er (EInternal why), s)
  end.
Proof.
  intros op x y s; destruct op; cbn [bool_meaning bin_bool];
    (split; [reflexivity|]); try apply alloc_allocates; eexists; reflexivity.
Qed.

(* arrays: + is concatenation of the copyOrRef'd elements of both operands
   (left elements first), * is repetition of deep copies; every other
   operator is an internal error, whatever the right operand is *)
Lemma bin_arr_table_unlisted : forall op xs r s,
  in_table KArr op = false -> exists why, bin_arr op xs r s = (Er (EInternal why), s).
Proof. intros op xs r s H; destruct op; try discriminate H; eexists; reflexivity. Qed.

Lemma bin_arr_concat : forall xs r ys s,
  hget (st_heap s) r = Some (HArr ys) ->
  in_table KArr BPlus = true /\
  bin_arr BPlus xs r s =
    (let* d := depth_fuel in
     let* xs' := mapM (copy_or_ref d) xs in
     let* ys' := mapM (copy_or_ref d) ys in
     alloc (HArr (xs' ++ ys'))) s.
Proof.
  intros. split; [reflexivity|]. unfold bin_arr. rewrite (bindM_ok _ _ _ _ _ (load_hget _ _ _ H)). reflexivity.
Qed.

Lemma bin_arr_repeat : forall xs r f n s,
  hget (st_heap s) r = Some (HNum f) ->
  go_int_exact f = Some n -> 0 <= n -> Z.of_nat (List.length xs) * n <= max_alloc ->
  in_table KArr BAsterisk = true /\
  bin_arr BAsterisk xs r s =
    (let* d := depth_fuel in
     let* parts := mapM (fun _ => mapM (deep_copy d) xs) (repeat tt (Z.to_nat n)) in
     alloc (HArr (List.concat parts))) s.
Proof.
  intros xs r f n s H Hi Hn Hm. split; [reflexivity|]. unfold bin_arr, load_num.
  rewrite bindM_assoc, (bindM_ok _ _ _ _ _ (load_hget _ _ _ H)). unfold bindM at 1, ret at 1.
  rewrite Hi. destruct (n <? 0) eqn:E1; [apply Z.ltb_lt in E1; lia|].
  destruct (max_alloc <? Z.of_nat (List.length xs) * n) eqn:E2; [apply Z.ltb_lt in E2; lia|].
  reflexivity.
Qed.

Lemma bin_arr_repeat_bad : forall xs r f s,
  hget (st_heap s) r = Some (HNum f) ->
  (go_int_exact f = None \/ exists n, go_int_exact f = Some n /\ n < 0) ->
  bin_arr BAsterisk xs r s = (Er (EPanic PkBadRepetition), s).
Proof.
  intros xs r f s H Hi. unfold bin_arr, load_num.
  rewrite bindM_assoc, (bindM_ok _ _ _ _ _ (load_hget _ _ _ H)). unfold bindM at 1, ret at 1.
  destruct Hi as [Hi | [n [Hi Hn]]]; rewrite Hi; [reflexivity|].
  apply Z.ltb_lt in Hn. rewrite Hn. reflexivity.
Qed.

(* the dispatch in eval_expr: which bin_* function an EBin node reaches.
   The left cell is read twice: when the left operand returns (state s2, for
   the short-circuit test) and again after the right operand (state s3); the
   operator is applied to the value read at s3. *)
Definition not_eq_op (op : binop) : Prop := op <> BEq /\ op <> BNotEq.

Definition short_of (op : binop) (v : hval) : bool :=
  match op, v with
  | BAnd, HBool false => true
  | BOr, HBool true => true
  | _, _ => false
  end.

Lemma ebin_general : forall n P e op t l r s s1 la s2 v0 lb s3,
  not_eq_op op ->
  tick s = (Ok tt, s1) ->
  eval_expr n P e l s1 = (Ok la, s2) -> hget (st_heap s2) la = Some v0 -> short_of op v0 = false ->
  eval_expr n P e r s2 = (Ok lb, s3) ->
  eval_expr (S n) P e (EBin op t l r) s = bin_dispatch op la lb s3.
Proof.
  intros n P e op t l r s s1 la s2 v0 lb s3 [N1 N2] Ht Hl Hx Hs Hr. rewrite eval_bin_order.
  rewrite (bindM_ok _ _ _ _ _ Ht), (bindM_ok _ _ _ _ _ Hl), (bindM_ok _ _ _ _ _ (load_hget _ _ _ Hx)).
  cbv zeta. change (match op with BAnd => match v0 with HBool false => true | _ => false end
                             | BOr => match v0 with HBool true => true | _ => false end
                             | _ => false end) with (short_of op v0).
  rewrite Hs. rewrite (bindM_ok _ _ _ _ _ Hr).
  destruct op; try congruence; reflexivity.
Qed.

Lemma ebin_num : forall n P e op t l r s s1 la s2 x0 lb s3 x y,
  not_eq_op op ->
  tick s = (Ok tt, s1) ->
  eval_expr n P e l s1 = (Ok la, s2) -> hget (st_heap s2) la = Some (HNum x0) ->
  eval_expr n P e r s2 = (Ok lb, s3) ->
  hget (st_heap s3) la = Some (HNum x) -> hget (st_heap s3) lb = Some (HNum y) ->
  eval_expr (S n) P e (EBin op t l r) s = bin_num op x y s3.
Proof.
  intros n P e op t l r s s1 la s2 x0 lb s3 x y N Ht Hl Hx0 Hr Hx Hy.
  rewrite (ebin_general _ _ _ _ _ _ _ _ _ _ _ _ _ _ N Ht Hl Hx0 ltac:(destruct op; reflexivity) Hr).
  unfold bin_dispatch. rewrite (bindM_ok _ _ _ _ _ (load_hget _ _ _ Hx)).
  unfold load_num; rewrite bindM_assoc, (bindM_ok _ _ _ _ _ (load_hget _ _ _ Hy)); reflexivity.
Qed.

Lemma ebin_str : forall n P e op t l r s s1 la s2 x0 lb s3 x y,
  not_eq_op op ->
  tick s = (Ok tt, s1) ->
  eval_expr n P e l s1 = (Ok la, s2) -> hget (st_heap s2) la = Some (HStr x0) ->
  eval_expr n P e r s2 = (Ok lb, s3) ->
  hget (st_heap s3) la = Some (HStr x) -> hget (st_heap s3) lb = Some (HStr y) ->
  eval_expr (S n) P e (EBin op t l r) s = bin_str op x y s3.
Proof.
  intros n P e op t l r s s1 la s2 x0 lb s3 x y N Ht Hl Hx0 Hr Hx Hy.
  rewrite (ebin_general _ _ _ _ _ _ _ _ _ _ _ _ _ _ N Ht Hl Hx0 ltac:(destruct op; reflexivity) Hr).
  unfold bin_dispatch. rewrite (bindM_ok _ _ _ _ _ (load_hget _ _ _ Hx)).
  unfold load_str; rewrite bindM_assoc, (bindM_ok _ _ _ _ _ (load_hget _ _ _ Hy)); reflexivity.
Qed.

Lemma ebin_arr : forall n P e op t l r s s1 la s2 xs0 lb s3 xs,
  not_eq_op op ->
  tick s = (Ok tt, s1) ->
  eval_expr n P e l s1 = (Ok la, s2) -> hget (st_heap s2) la = Some (HArr xs0) ->
  eval_expr n P e r s2 = (Ok lb, s3) ->
  hget (st_heap s3) la = Some (HArr xs) ->
  eval_expr (S n) P e (EBin op t l r) s = bin_arr op xs lb s3.
Proof.
  intros n P e op t l r s s1 la s2 xs0 lb s3 xs N Ht Hl Hx0 Hr Hx.
  rewrite (ebin_general _ _ _ _ _ _ _ _ _ _ _ _ _ _ N Ht Hl Hx0 ltac:(destruct op; reflexivity) Hr).
  unfold bin_dispatch. rewrite (bindM_ok _ _ _ _ _ (load_hget _ _ _ Hx)). reflexivity.
Qed.

(* == and != go to [equals] for every operand kind *)
Lemma ebin_eq : forall n P e t l r s s1 la s2 lb s3,
  tick s = (Ok tt, s1) ->
  eval_expr n P e l s1 = (Ok la, s2) -> (exists v, hget (st_heap s2) la = Some v) ->
  eval_expr n P e r s2 = (Ok lb, s3) ->
  eval_expr (S n) P e (EBin BEq t l r) s =
    (let* b := equals value_depth la lb in alloc (HBool b)) s3 /\
  eval_expr (S n) P e (EBin BNotEq t l r) s =
    (let* b := equals value_depth la lb in alloc (HBool (negb b))) s3.
Proof.
  intros n P e t l r s s1 la s2 lb s3 Ht Hl [v Hx] Hr. rewrite !eval_bin_order.
  rewrite !(bindM_ok _ _ _ _ _ Ht), !(bindM_ok _ _ _ _ _ Hl), !(bindM_ok _ _ _ _ _ (load_hget _ _ _ Hx)).
  cbv zeta. rewrite !(bindM_ok _ _ _ _ _ Hr). split; reflexivity.
Qed.

(* ====================================================================== *)
(* B3b. deep equality (value.Equals)                                       *)
(* ====================================================================== *)
(* [equals] never changes the state; it is the following function of the heap. *)
Definition nil_value : err := EHostCrash (s_ "nil value").

Fixpoint all2 (p : loc -> loc -> res bool) (xs ys : list loc) : res bool :=
  match xs, ys with
  | x :: xt, y :: yt =>
      match p x y with Ok true => all2 p xt yt | Ok false => Ok false | Er e => Er e end
  | _, _ => Ok true
  end.

Fixpoint allp (p : loc -> loc -> res bool) (m2 : list (str * loc)) (ps : list (str * loc)) : res bool :=
  match ps with
  | [] => Ok true
  | (k, i) :: t =>
      match plookup k m2 with
      | None => Ok false
      | Some j => match p i j with Ok true => allp p m2 t | Ok false => Ok false | Er e => Er e end
      end
  end.

Definition eqv (p : loc -> loc -> res bool) (va vb : hval) : res bool :=
  match va, vb with
  | HNum x, HNum y => Ok (PrimFloat.eqb x y)
  | HStr x, HStr y => Ok (str_eqb x y)
  | HBool x, HBool y => Ok (Bool.eqb x y)
  | HAny t i, HAny u j => if ty_eqb (ty_shape t) (ty_shape u) then p i j else Ok false
  | HArr xs, HArr ys =>
      if negb (Nat.eqb (List.length xs) (List.length ys)) then Ok false else all2 p xs ys
  | HMap m1, HMap m2 =>
      if negb (Nat.eqb (List.length (pairs m1)) (List.length (pairs m2))) then Ok false
      else allp p (pairs m2) (pairs m1)
  | HNone, _ => Ok false
  | _, _ => Er (EHostCrash (s_ "Equals called with mismatched value kinds"))
  end.

Fixpoint eqh (h : heap) (fuel : nat) (a b : loc) : res bool :=
  match fuel with
  | O => Er (EHostCrash (s_ "stack overflow in Equals"))
  | S f =>
      match hget h a with
      | None => Er nil_value
      | Some va =>
          match hget h b with
          | None => Er nil_value
          | Some vb => eqv (eqh h f) va vb
          end
      end
  end.

Lemma equals_eqh : forall fuel a b s, equals fuel a b s = (eqh (st_heap s) fuel a b, s).
Proof.
  induction fuel as [|f IH]; intros a b s; [reflexivity|].
  cbn [equals eqh]. unfold bindM at 1, load at 1.
  destruct (hget (st_heap s) a) as [va|]; [|reflexivity].
  unfold bindM at 1, load at 1.
  destruct (hget (st_heap s) b) as [vb|]; [|reflexivity].
  destruct va, vb; try reflexivity; cbn [eqv].
  - destruct (ty_eqb (ty_shape t) (ty_shape t0)); [apply IH | reflexivity].
  - destruct (negb (Nat.eqb (List.length els) (List.length els0))); [reflexivity|].
    generalize els0. induction els as [|x xt IHx]; intros [|y yt]; try reflexivity.
    cbn [all2]. unfold bindM. rewrite IH. destruct (eqh (st_heap s) f x y) as [[|]|]; try reflexivity.
    apply IHx.
  - destruct (negb (Nat.eqb (List.length (pairs m)) (List.length (pairs m0)))); [reflexivity|].
    induction (pairs m) as [|[k i] t IHp]; [reflexivity|].
    cbn [allp]. destruct (plookup k (pairs m0)) as [j|]; [|reflexivity].
    unfold bindM. rewrite IH. destruct (eqh (st_heap s) f i j) as [[|]|]; try reflexivity.
    apply IHp.
Qed.

Lemma equals_pure : forall fuel a b s r s', equals fuel a b s = (r, s') -> s' = s.
Proof. intros fuel a b s r s' H. rewrite equals_eqh in H. congruence. Qed.

(* ---------- characterisations of "true" ---------- *)
Lemma all2_true p : forall xs ys, List.length xs = List.length ys ->
  (all2 p xs ys = Ok true <-> Forall2 (fun x y => p x y = Ok true) xs ys).
Proof.
  induction xs as [|x xt IH]; intros [|y yt] L; try discriminate L; cbn [all2].
  - split; [constructor | reflexivity].
  - injection L as L. specialize (IH yt L). split.
    + destruct (p x y) as [[|]|] eqn:E; try discriminate. intro H. constructor; [exact E | apply IH; exact H].
    + intro H; inversion H; subst. rewrite H3. apply IH; assumption.
Qed.

Lemma allp_true p m2 : forall ps,
  allp p m2 ps = Ok true <->
  (forall k i, In (k, i) ps -> exists j, plookup k m2 = Some j /\ p i j = Ok true).
Proof.
  induction ps as [|[k i] t IH]; cbn [allp].
  - split; [intros _ k i [] | reflexivity].
  - split.
    + destruct (plookup k m2) as [j|] eqn:E; [|discriminate].
      destruct (p i j) as [[|]|] eqn:F; try discriminate. intros H k' i' [Hin|Hin].
      * inversion Hin; subst. exists j; split; assumption.
      * apply IH; assumption.
    + intro H. destruct (H k i (or_introl eq_refl)) as [j [E F]]. rewrite E, F.
      apply IH. intros k' i' Hin. apply H. right; exact Hin.
Qed.

Lemma plookup_In {V} k (m : list (str * V)) v : plookup k m = Some v -> In (k, v) m.
Proof.
  induction m as [|[k' v'] t IH]; [discriminate|]. cbn [plookup].
  destruct (str_eqb k' k) eqn:E.
  - intro H; inversion H; subst. apply str_eqb_eq in E; subst. left; reflexivity.
  - intro H; right; apply IH; exact H.
Qed.

Lemma plookup_nodup {V} k (m : list (str * V)) v :
  NoDup (map fst m) -> In (k, v) m -> plookup k m = Some v.
Proof.
  induction m as [|[k' v'] t IH]; [intros _ []|]. cbn [map fst plookup]. intros N [H|H].
  - inversion H; subst. rewrite str_eqb_refl. reflexivity.
  - inversion N; subst. destruct (str_eqb k' k) eqn:E.
    + apply str_eqb_eq in E; subst. exfalso. apply H2. apply (in_map fst) in H. exact H.
    + apply IH; assumption.
Qed.

Lemma plookup_none {V} k (m : list (str * V)) : plookup k m = None <-> ~ In k (map fst m).
Proof.
  induction m as [|[k' v'] t IH]; cbn [plookup map fst]; [split; [intros _ [] | reflexivity]|].
  destruct (str_eqb k' k) eqn:E.
  - apply str_eqb_eq in E; subst. split; [discriminate | intro H; exfalso; apply H; left; reflexivity].
  - apply str_eqb_neq in E. rewrite IH. split; intro H; [intros [F|F]; [contradiction | apply H; exact F] | intro F; apply H; right; exact F].
Qed.

Lemma ty_eqb_refl t : ty_eqb t t = true.
Proof. induction t; cbn; auto. Qed.

Lemma ty_eqb_sym : forall t u, ty_eqb t u = ty_eqb u t.
Proof. induction t; destruct u; cbn; auto. Qed.

(* ---------- reflexivity on NaN-free, acyclic, duplicate-free values ---------- *)
(* [good h fuel l]: the value tree under l is well-founded within the fuel
   (hence acyclic and without dangling or HNone cells), contains no NaN, and
   every map has a duplicate-free key list in Pairs. *)
Fixpoint good (h : heap) (fuel : nat) (l : loc) : Prop :=
  match fuel with
  | O => False
  | S f =>
      match hget h l with
      | Some (HNum x) => PrimFloat.eqb x x = true
      | Some (HStr _) | Some (HBool _) => True
      | Some (HAny _ i) => good h f i
      | Some (HArr els) => Forall (good h f) els
      | Some (HMap m) => NoDup (map fst (pairs m)) /\ Forall (fun kv => good h f (snd kv)) (pairs m)
      | Some HNone | None => False
      end
  end.

Lemma eqh_refl : forall h fuel l, good h fuel l -> eqh h fuel l l = Ok true.
Proof.
  intros h; induction fuel as [|f IH]; intros l G; [destruct G|].
  cbn [good eqh] in *. destruct (hget h l) as [[x|x|x|t i|els|m|]|]; try contradiction; cbn [eqv].
  - rewrite G; reflexivity.
  - rewrite str_eqb_refl; reflexivity.
  - destruct x; reflexivity.
  - rewrite ty_eqb_refl. apply IH; exact G.
  - rewrite Nat.eqb_refl. cbn [negb]. apply all2_true; [reflexivity|].
    induction G; constructor; [apply IH; assumption | assumption].
  - rewrite Nat.eqb_refl. cbn [negb]. destruct G as [N G]. apply allp_true.
    intros k i Hin. exists i. split; [apply plookup_nodup; assumption|].
    apply IH. rewrite Forall_forall in G. apply (G (k, i)); exact Hin.
Qed.

Theorem equals_refl : forall fuel l s,
  good (st_heap s) fuel l -> equals fuel l l s = (Ok true, s).
Proof. intros. rewrite equals_eqh, eqh_refl; [reflexivity | assumption]. Qed.

(* NaN is the reason for the side condition: NaN == NaN is false *)
Lemma equals_refl_needs_nanfree :
  exists s l, hget (st_heap s) l = Some (HNum nan) /\ equals 1 l l s = (Ok false, s).
Proof.
  exists (snd (alloc (HNum nan) (init_state None [] false false))), 4%positive.
  split; vm_compute; reflexivity.
Qed.

(* ---------- symmetry ---------- *)
(* IEEE equality of primitive floats is symmetric (through the standard
   library's specification of PrimFloat.eqb: eqb_spec of Coq.Floats) *)
Lemma SFcompare_eq_sym x y :
  SpecFloat.SFcompare x y = Some Eq -> SpecFloat.SFcompare y x = Some Eq.
Proof.
  destruct x as [sx|sx| |sx mx ex], y as [sy|sy| |sy my ey]; cbn; try discriminate; try reflexivity;
    try (destruct sx; discriminate); try (destruct sy; discriminate);
    destruct sx, sy; try discriminate; try reflexivity;
    (destruct (ex ?= ey)%Z eqn:E; try discriminate; apply Z.compare_eq in E; subst;
     destruct (Pos.compare_cont Eq mx my) eqn:F; try discriminate;
     apply Pos.compare_eq in F; subst; rewrite Z.compare_refl, Pos.compare_cont_refl; reflexivity).
Qed.

Lemma feqb_sym : forall x y, PrimFloat.eqb x y = PrimFloat.eqb y x.
Proof.
  intros x y.
  rewrite !(eqb_spec : forall a b : float, PrimFloat.eqb a b = SpecFloat.SFeqb (Prim2SF a) (Prim2SF b)).
  unfold SpecFloat.SFeqb.
  destruct (SpecFloat.SFcompare (Prim2SF x) (Prim2SF y)) as [[| |]|] eqn:E.
  - rewrite (SFcompare_eq_sym _ _ E). reflexivity.
  - destruct (SpecFloat.SFcompare (Prim2SF y) (Prim2SF x)) as [[| |]|] eqn:F; try reflexivity.
    apply SFcompare_eq_sym in F. congruence.
  - destruct (SpecFloat.SFcompare (Prim2SF y) (Prim2SF x)) as [[| |]|] eqn:F; try reflexivity.
    apply SFcompare_eq_sym in F. congruence.
  - destruct (SpecFloat.SFcompare (Prim2SF y) (Prim2SF x)) as [[| |]|] eqn:F; try reflexivity.
    apply SFcompare_eq_sym in F. congruence.
Qed.

Lemma str_eqb_sym a b : str_eqb a b = str_eqb b a.
Proof.
  destruct (str_eqb a b) eqn:E.
  - apply str_eqb_eq in E; subst. symmetry; apply str_eqb_refl.
  - destruct (str_eqb b a) eqn:F; [|reflexivity]. apply str_eqb_eq in F; subst.
    rewrite str_eqb_refl in E; discriminate.
Qed.

Lemma bool_eqb_sym a b : Bool.eqb a b = Bool.eqb b a.
Proof. destruct a, b; reflexivity. Qed.

(* every map cell of the heap has a duplicate-free key list (Go: Pairs is a hash map) *)
Definition maps_nodup (h : heap) : Prop :=
  forall l m, hget h l = Some (HMap m) -> NoDup (map fst (pairs m)).

Lemma Forall2_flip_impl {A B} (R : A -> B -> Prop) (Q : B -> A -> Prop) xs ys :
  (forall x y, R x y -> Q y x) -> Forall2 R xs ys -> Forall2 Q ys xs.
Proof. intro HI; induction 1; constructor; auto. Qed.

Section SymGen.
  Variable feq_sym : forall x y, PrimFloat.eqb x y = PrimFloat.eqb y x.

  Lemma eqh_sym_true_gen : forall h, maps_nodup h ->
    forall fuel a b, eqh h fuel a b = Ok true -> eqh h fuel b a = Ok true.
  Proof.
    intros h ND; induction fuel as [|f IH]; intros a b H; [discriminate H|].
    cbn [eqh] in *.
    destruct (hget h a) as [va|] eqn:Ea; [|discriminate].
    destruct (hget h b) as [vb|] eqn:Eb; [|discriminate].
    destruct va, vb; cbn [eqv] in *; try discriminate.
    - rewrite feq_sym; exact H.
    - rewrite str_eqb_sym; exact H.
    - rewrite bool_eqb_sym; exact H.
    - rewrite ty_eqb_sym. destruct (ty_eqb (ty_shape t) (ty_shape t0)); [apply IH; exact H | discriminate].
    - rewrite Nat.eqb_sym.
      destruct (Nat.eqb (List.length els) (List.length els0)) eqn:L; cbn [negb] in *; [|discriminate].
      apply Nat.eqb_eq in L. apply all2_true; [symmetry; exact L|].
      apply (all2_true _ _ _ L) in H.
      eapply Forall2_flip_impl; [|exact H]. intros x y Hxy. apply IH; exact Hxy.
    - rewrite Nat.eqb_sym.
      destruct (Nat.eqb (List.length (pairs m)) (List.length (pairs m0))) eqn:L; cbn [negb] in *; [|discriminate].
      apply Nat.eqb_eq in L. rewrite allp_true in H. apply allp_true.
      pose proof (ND _ _ Ea) as N1. pose proof (ND _ _ Eb) as N2.
      (* keys of m ⊆ keys of m0, same length, no duplicates => keys of m0 ⊆ keys of m *)
      assert (I1 : incl (map fst (pairs m)) (map fst (pairs m0))).
      { intros k Hk. apply in_map_iff in Hk as [[k' i] [E Hin]]. cbn in E; subst k'.
        destruct (H k i Hin) as [j [Hj _]]. apply plookup_In in Hj. apply (in_map fst) in Hj. exact Hj. }
      assert (I2 : incl (map fst (pairs m0)) (map fst (pairs m))).
      { apply NoDup_length_incl; [exact N1 | rewrite !map_length; rewrite L; apply le_n | exact I1]. }
      intros k j Hin.
      assert (Hk : In k (map fst (pairs m))) by (apply I2; apply (in_map fst) in Hin; exact Hin).
      destruct (plookup k (pairs m)) as [i|] eqn:Ei; [|apply plookup_none in Ei; contradiction].
      exists i; split; [reflexivity|].
      destruct (H k i (plookup_In _ _ _ Ei)) as [j' [Hj' E]].
      rewrite (plookup_nodup _ _ _ N2 Hin) in Hj'. inversion Hj'; subst j'.
      apply IH; exact E.
  Qed.
End SymGen.

Lemma eqh_sym_true : forall h, maps_nodup h ->
  forall fuel a b, eqh h fuel a b = Ok true -> eqh h fuel b a = Ok true.
Proof. exact (eqh_sym_true_gen feqb_sym). Qed.

(* symmetry of the verdict "equal" *)
Theorem equals_sym_true : forall fuel a b s,
  maps_nodup (st_heap s) ->
  equals fuel a b s = (Ok true, s) -> equals fuel b a s = (Ok true, s).
Proof.
  intros fuel a b s ND H. rewrite equals_eqh in *. inversion H as [H1].
  rewrite H1. rewrite (eqh_sym_true _ ND _ _ _ H1). reflexivity.
Qed.

(* whenever both directions deliver a verdict, it is the same verdict *)
Theorem equals_sym_agree : forall fuel a b s r r' s1 s2,
  maps_nodup (st_heap s) ->
  equals fuel a b s = (Ok r, s1) -> equals fuel b a s = (Ok r', s2) -> r = r'.
Proof.
  intros fuel a b s r r' s1 s2 ND H1 H2. rewrite equals_eqh in *.
  inversion H1 as [[E1 S1]]; inversion H2 as [[E2 S2]].
  destruct r, r'; try reflexivity.
  - apply (eqh_sym_true _ ND) in E1. congruence.
  - apply (eqh_sym_true _ ND) in E2. congruence.
Qed.

(* unrestricted symmetry is FALSE of the model, in three corners *)
Definition st_of (vs : list hval) : state :=
  fold_left (fun s v => snd (alloc v s)) vs (init_state None [] false false).
(* cells of [st_of vs] are numbered from 4 (1..3 are err, errmsg, pi) *)

(* (1) a none value on the left compares false, on the right it is a host crash *)
Lemma equals_symmetric_refuted_none :
  exists fuel a b s e,
    equals fuel a b s = (Ok false, s) /\ equals fuel b a s = (Er (EHostCrash e), s).
Proof.
  exists 1%nat, 4%positive, 5%positive, (st_of [HNone; HNum 1%float]). eexists.
  split; vm_compute; reflexivity.
Qed.

(* (2) maps with a duplicated key in Pairs (impossible for a Go hash map):
   {a:1 a:2} == {a:1 b:2} is true, the converse is false *)
Lemma equals_symmetric_refuted_dupkeys :
  exists fuel a b s,
    equals fuel a b s = (Ok true, s) /\ equals fuel b a s = (Ok false, s).
Proof.
  exists 2%nat, 6%positive, 7%positive,
    (st_of [HNum 1%float; HNum 1%float;
            HMap {| pairs := [(s_ "a", 4%positive); (s_ "a", 5%positive)]; order := [] |};
            HMap {| pairs := [(s_ "a", 4%positive); (s_ "b", 5%positive)]; order := [] |}]).
  split; vm_compute; reflexivity.
Qed.

(* (3) ill-typed maps (values of different kinds under one key): the verdict
   "different" in one direction can be a host crash in the other, because the
   traversal follows the LEFT map's Pairs *)
Lemma equals_symmetric_refuted_illtyped :
  exists fuel a b s e,
    maps_nodup (st_heap s) /\
    equals fuel a b s = (Ok false, s) /\ equals fuel b a s = (Er (EHostCrash e), s).
Proof.
  exists 2%nat, 8%positive, 9%positive,
    (st_of [HNum 1%float; HStr (s_ "x"); HNum 2%float; HNum 3%float;
            HMap {| pairs := [(s_ "a", 4%positive); (s_ "b", 5%positive)]; order := [] |};
            HMap {| pairs := [(s_ "b", 7%positive); (s_ "a", 6%positive)]; order := [] |}]).
  eexists. split; [|split; vm_compute; reflexivity].
  intros l m H. unfold hget in H. apply PositiveMap.elements_correct in H.
  vm_compute in H.
  repeat (destruct H as [H|H];
          [inversion H; subst; cbn;
           repeat (apply NoDup_cons; [cbn; intuition discriminate|]); apply NoDup_nil|]).
  contradiction.
Qed.

(* ---------- equality ignores map order ---------- *)
Lemma all2_ext p q xs : forall ys, (forall a b, p a b = q a b) -> all2 p xs ys = all2 q xs ys.
Proof.
  induction xs as [|x xt IH]; intros [|y yt] E; try reflexivity. cbn [all2]. rewrite E.
  destruct (q x y) as [[|]|]; try reflexivity. apply IH; exact E.
Qed.

Lemma allp_ext p q m2 ps : (forall a b, p a b = q a b) -> allp p m2 ps = allp q m2 ps.
Proof.
  intro E. induction ps as [|[k i] t IH]; [reflexivity|]. cbn [allp].
  destruct (plookup k m2) as [j|]; [|reflexivity]. rewrite E.
  destruct (q i j) as [[|]|]; try reflexivity. exact IH.
Qed.

Lemma eqv_ext p q va vb : (forall a b, p a b = q a b) -> eqv p va vb = eqv q va vb.
Proof.
  intro E. destruct va, vb; cbn [eqv]; try reflexivity.
  - rewrite E; reflexivity.
  - rewrite (all2_ext p q _ _ E); reflexivity.
  - rewrite (allp_ext p q _ _ E); reflexivity.
Qed.

(* (a) the [order] field (the Order slice of mapVal) is never consulted: two
   heaps that differ only in the order fields of their map cells give the same
   result — verdict or error — for every pair of cells *)
Definition strip_order (v : hval) : hval :=
  match v with HMap m => HMap {| pairs := pairs m; order := [] |} | _ => v end.

Definition same_upto_order (h h' : heap) : Prop :=
  forall l, option_map strip_order (hget h l) = option_map strip_order (hget h' l).

Lemma eqv_strip p va vb : eqv p va vb = eqv p (strip_order va) (strip_order vb).
Proof. destruct va, vb; reflexivity. Qed.

Lemma eqh_order_insensitive : forall h h', same_upto_order h h' ->
  forall fuel a b, eqh h fuel a b = eqh h' fuel a b.
Proof.
  intros h h' R; induction fuel as [|f IH]; intros a b; [reflexivity|]. cbn [eqh].
  pose proof (R a) as Ra. pose proof (R b) as Rb.
  destruct (hget h a) as [va|], (hget h' a) as [va'|]; try discriminate Ra; [|reflexivity].
  destruct (hget h b) as [vb|], (hget h' b) as [vb'|]; try discriminate Rb; [|reflexivity].
  cbn in Ra, Rb. inversion Ra as [Ea]; inversion Rb as [Eb].
  rewrite (eqv_strip _ va vb), (eqv_strip _ va' vb'), Ea, Eb. apply eqv_ext. exact IH.
Qed.

Theorem equals_order_insensitive : forall fuel a b s s',
  same_upto_order (st_heap s) (st_heap s') ->
  fst (equals fuel a b s) = fst (equals fuel a b s').
Proof. intros. rewrite !equals_eqh. cbn. apply eqh_order_insensitive; assumption. Qed.

(* (b) the position of the entries in Pairs (the model's association list for
   Go's hash map) does not matter either: if the map cells of two heaps hold
   permutations of the same duplicate-free entries, "equal" in one heap is
   "equal" in the other, and verdicts never disagree. *)
Inductive perm_val : hval -> hval -> Prop :=
| pv_map m m' : Permutation (pairs m) (pairs m') -> NoDup (map fst (pairs m)) -> perm_val (HMap m) (HMap m')
| pv_same v : perm_val v v.

Definition perm_heap (h h' : heap) : Prop :=
  forall l, match hget h l, hget h' l with
            | Some v, Some v' => perm_val v v'
            | None, None => True
            | _, _ => False
            end.

Lemma plookup_perm {V} k (m m' : list (str * V)) :
  Permutation m m' -> NoDup (map fst m) -> plookup k m = plookup k m'.
Proof.
  intros Pm N.
  assert (N' : NoDup (map fst m')) by (eapply Permutation_NoDup; [apply Permutation_map; exact Pm | exact N]).
  destruct (plookup k m) as [v|] eqn:E.
  - symmetry. apply plookup_nodup; [exact N'|]. eapply Permutation_in; [exact Pm|]. apply plookup_In; exact E.
  - symmetry. apply plookup_none. apply plookup_none in E. intro H. apply E.
    eapply Permutation_in; [apply Permutation_sym; apply Permutation_map; exact Pm | exact H].
Qed.

Lemma perm_val_sym v v' : perm_val v v' -> perm_val v' v.
Proof.
  destruct 1 as [m m' Pm N|v]; [|constructor 2]. constructor.
  - apply Permutation_sym; exact Pm.
  - eapply Permutation_NoDup; [apply Permutation_map; exact Pm | exact N].
Qed.

Lemma perm_heap_sym h h' : perm_heap h h' -> perm_heap h' h.
Proof.
  intros R l. specialize (R l). destruct (hget h l), (hget h' l); try contradiction; auto.
  apply perm_val_sym; exact R.
Qed.

Lemma eqv_perm_true p q va va' vb vb' :
  (forall a b, p a b = Ok true -> q a b = Ok true) ->
  perm_val va va' -> perm_val vb vb' ->
  eqv p va vb = Ok true -> eqv q va' vb' = Ok true.
Proof.
  intros PQ Ra Rb H.
  assert (G : forall m1 m1' m2 m2',
             Permutation (pairs m1) (pairs m1') ->
             (forall k, plookup k (pairs m2) = plookup k (pairs m2')) ->
             List.length (pairs m2) = List.length (pairs m2') ->
             eqv p (HMap m1) (HMap m2) = Ok true -> eqv q (HMap m1') (HMap m2') = Ok true).
  { intros m1 m1' m2 m2' P1 L2 Len H0. cbn [eqv] in *.
    rewrite <- (Permutation_length P1), <- Len.
    destruct (negb (Nat.eqb (List.length (pairs m1)) (List.length (pairs m2)))); [discriminate|].
    rewrite allp_true in H0. apply allp_true. intros k i Hin.
    destruct (H0 k i) as [j [Hj E]]; [eapply Permutation_in; [apply Permutation_sym; exact P1 | exact Hin]|].
    exists j. rewrite <- L2. split; [exact Hj | apply PQ; exact E]. }
  assert (Base : forall va vb, eqv p va vb = Ok true -> eqv q va vb = Ok true).
  { intros [x|x|x|t i|xs|m1|] [y|y|y|u j|ys|m2|] H0; cbn [eqv] in *; try discriminate; try exact H0.
    - destruct (ty_eqb (ty_shape t) (ty_shape u)); [apply PQ; exact H0 | discriminate].
    - destruct (Nat.eqb (List.length xs) (List.length ys)) eqn:L; cbn [negb] in *; [|discriminate].
      apply Nat.eqb_eq in L. apply (all2_true _ _ _ L) in H0. apply (all2_true _ _ _ L).
      clear L. induction H0; constructor; auto.
    - change (eqv q (HMap m1) (HMap m2) = Ok true). apply (G m1 m1 m2 m2); [apply Permutation_refl | reflexivity | reflexivity | exact H0]. }
  destruct Ra as [m1 m1' P1 N1|va]; destruct Rb as [m2 m2' P2 N2|vb].
  - apply (G m1 m1' m2 m2'); [exact P1 | intro k; apply plookup_perm; assumption | apply Permutation_length; exact P2 | exact H].
  - destruct vb as [y|y|y|u j|ys|m2|]; try discriminate H.
    apply (G m1 m1' m2 m2); [exact P1 | reflexivity | reflexivity | exact H].
  - destruct va as [x|x|x|t i|xs|m1|]; try discriminate H.
    apply (G m1 m1 m2 m2'); [apply Permutation_refl | intro k; apply plookup_perm; assumption | apply Permutation_length; exact P2 | exact H].
  - apply Base; exact H.
Qed.

Lemma eqh_perm_true : forall h h', perm_heap h h' ->
  forall fuel a b, eqh h fuel a b = Ok true -> eqh h' fuel a b = Ok true.
Proof.
  intros h h' R; induction fuel as [|f IH]; intros a b H; [discriminate H|]. cbn [eqh] in *.
  pose proof (R a) as Ra. pose proof (R b) as Rb.
  destruct (hget h a) as [va|]; [|discriminate H]. destruct (hget h' a) as [va'|]; [|contradiction].
  destruct (hget h b) as [vb|]; [|discriminate H]. destruct (hget h' b) as [vb'|]; [|contradiction].
  eapply eqv_perm_true; [exact IH | exact Ra | exact Rb | exact H].
Qed.

Theorem equals_pairs_permutation : forall fuel a b s s',
  perm_heap (st_heap s) (st_heap s') ->
  (fst (equals fuel a b s) = Ok true <-> fst (equals fuel a b s') = Ok true) /\
  (forall r r', fst (equals fuel a b s) = Ok r -> fst (equals fuel a b s') = Ok r' -> r = r').
Proof.
  intros fuel a b s s' R. rewrite !equals_eqh. cbn [fst].
  assert (T : eqh (st_heap s) fuel a b = Ok true <-> eqh (st_heap s') fuel a b = Ok true).
  { split; apply eqh_perm_true; [exact R | apply perm_heap_sym; exact R]. }
  split; [exact T|]. intros r r' H1 H2. destruct r, r'; try reflexivity.
  - apply T in H1. congruence.
  - apply T in H2. congruence.
Qed.

(* ====================================================================== *)
(* B2b. every evaluator function only EXTENDS the trace                   *)
(* ====================================================================== *)
(* Generic form: any preorder on states that all the elementary state updates
   respect is respected by every computation of the evaluator. *)
Section Resp.
  Variable I : state -> state -> Prop.
  Hypothesis I_refl : forall s, I s s.
  Hypothesis I_trans : forall a b c, I a b -> I b c -> I a c.
  Hypothesis I_heap : forall h s, I s (upd_heap h s).
  Hypothesis I_globals : forall g s, I s (upd_globals g s).
  (* the one update of the yield counter / stop flag that [tick] performs *)
  Hypothesis I_yield : forall s, st_stopped s = false ->
    I s (upd_yield (S (st_yields s))
                   (match st_stop_at s with Some k => Nat.eqb k (st_yields s) | None => false end) s).
  Hypothesis I_input : forall i s, I s (upd_input i s).
  Hypothesis I_tests : forall t f s, I s (upd_tests t f s).
  Hypothesis I_emit : forall ev s, I s (upd_trace (ev :: st_trace s) s).

  Definition resp {A} (m : M A) : Prop := forall s r s', m s = (r, s') -> I s s'.

  Lemma resp_ret {A} (a : A) : resp (ret a).
  Proof. intros s r s' H; inversion H; apply I_refl. Qed.
  Lemma resp_fail {A} e : resp (@fail A e).
  Proof. intros s r s' H; inversion H; apply I_refl. Qed.
  Lemma resp_lift {A} (x : res A) : resp (lift x).
  Proof. intros s r s' H; inversion H; apply I_refl. Qed.
  Lemma resp_bind {A B} (m : M A) (f : A -> M B) :
    resp m -> (forall a, resp (f a)) -> resp (bindM m f).
  Proof.
    intros Hm Hf s r s' H. unfold bindM in H. destruct (m s) as [[a|er] s1] eqn:E.
    - eapply I_trans; [eapply Hm; exact E | eapply Hf; exact H].
    - inversion H; subst. eapply Hm; exact E.
  Qed.

  Ltac Iauto := first [apply I_refl | apply I_heap | apply I_globals | apply I_yield
                      | apply I_input | apply I_tests | apply I_emit].
  Ltac raw :=
    let s := fresh "s" in let r := fresh "r" in let s' := fresh "s'" in let H := fresh "H" in
    intros s r s' H; cbv zeta in H;
    repeat match type of H with context [match ?x with _ => _ end] => destruct x end;
    inversion H; subst; Iauto.

  Lemma resp_tick : resp tick.
  Proof.
    intros s r s' H. unfold tick in H. destruct (st_stopped s) eqn:S; [inversion H; apply I_refl|].
    cbv zeta in H. destruct (_ && _); inversion H; subst; apply I_yield; exact S.
  Qed.
  Lemma resp_alloc v : resp (alloc v).
  Proof. unfold alloc, halloc. raw. Qed.
  Lemma resp_load l : resp (load l).
  Proof. unfold load. raw. Qed.
  Lemma resp_store l v : resp (store l v).
  Proof. unfold store. raw. Qed.
  Lemma resp_emitE ev : resp (emitE ev).
  Proof. unfold emitE. raw. Qed.
  Lemma resp_lookup n e : resp (lookup n e).
  Proof. unfold lookup. raw. Qed.
  Lemma resp_set_var n l e : resp (set_var n l e).
  Proof. unfold set_var. raw. Qed.
  Lemma resp_update_var n l e : resp (update_var n l e).
  Proof. unfold update_var. raw. Qed.
  Lemma resp_depth_fuel : resp depth_fuel.
  Proof. unfold depth_fuel. raw. Qed.

  Lemma resp_mapM {A B} (f : A -> M B) l : (forall x, resp (f x)) -> resp (mapM f l).
  Proof.
    intro Hf. induction l as [|x t IH]; cbn [mapM]; [apply resp_ret|].
    apply resp_bind; [apply Hf | intro y]. apply resp_bind; [exact IH | intro r; apply resp_ret].
  Qed.

  Ltac rsp_prim :=
    first [ apply resp_ret | apply resp_fail | apply resp_lift | apply resp_tick | apply resp_alloc
          | apply resp_load | apply resp_store | apply resp_emitE | apply resp_lookup
          | apply resp_set_var | apply resp_update_var | apply resp_depth_fuel ].

  Ltac rsp_step tac :=
    match goal with
    | |- resp (bindM _ _) => apply resp_bind; [|intros]
    | |- resp (mapM _ _) => apply resp_mapM; intros
    | |- resp (crash _) => apply resp_fail
    | |- resp (internal _) => apply resp_fail
    | |- resp _ => rsp_prim
    | |- resp _ => tac
    | H : context [resp _] |- resp _ => apply H
    | |- resp ?m => match m with match ?x with _ => _ end => is_var x; destruct x end
    | |- resp ?m => match m with match ?x with _ => _ end => destruct x end
    end.
  Ltac rsp0 := repeat (rsp_step ltac:(fail)).

  Lemma resp_copy_or_ref fuel : forall l, resp (copy_or_ref fuel l).
  Proof. induction fuel as [|f IH]; intro l; cbn [copy_or_ref]; rsp0. Qed.

  Lemma resp_deep_copy fuel : forall l, resp (deep_copy fuel l).
  Proof. induction fuel as [|f IH]; intro l; cbn [deep_copy]; rsp0. Qed.

  Lemma resp_show fuel repr : forall l, resp (show fuel repr l).
  Proof. induction fuel as [|f IH]; intro l; cbn [show]; rsp0. Qed.

  Lemma resp_equals fuel a b : resp (equals fuel a b).
  Proof. intros s r s' H. apply equals_pure in H. subst. apply I_refl. Qed.

  Lemma resp_same fuel : forall w g, resp (same fuel w g).
  Proof.
    induction fuel as [|f IH]; intros w g; cbn [same]; rsp0.
    - revert els. induction els0 as [|x xt IHx]; intros [|y yt]; cbn beta iota fix; rsp0.
    - induction (pairs m0) as [|[k i] t IHp]; cbn beta iota fix; rsp0.
  Qed.

  Ltac rsp_lib :=
    first [ apply resp_copy_or_ref | apply resp_deep_copy | apply resp_show | apply resp_equals
          | apply resp_same ].
  Ltac rsp1 := repeat (rsp_step ltac:(rsp_lib)).

  Lemma resp_show_str l : resp (show_str l).
  Proof. unfold show_str. rsp1. Qed.
  Lemma resp_join_args args sep : resp (join_args args sep).
  Proof. unfold join_args. rsp1. Qed.
  Lemma resp_load_num l : resp (load_num l).
  Proof. unfold load_num. rsp1. Qed.
  Lemma resp_load_str l : resp (load_str l).
  Proof. unfold load_str. rsp1. Qed.
  Lemma resp_load_bool l : resp (load_bool l).
  Proof. unfold load_bool. rsp1. Qed.
  Lemma resp_unwrap_any l : resp (unwrap_any l).
  Proof. unfold unwrap_any. rsp1. Qed.
  Lemma resp_none_val : resp none_val.
  Proof. unfold none_val. rsp1. Qed.
  Lemma resp_zero_val t : resp (zero_val t).
  Proof. unfold zero_val. rsp1. Qed.
  Lemma resp_map_set_key m k v : resp (map_set_key m k v).
  Proof. unfold map_set_key. rsp1. Qed.
  Lemma resp_global_err e b msg : resp (global_err e b msg).
  Proof. unfold global_err. rsp1. Qed.

  Ltac rsp_lib2 :=
    first [ rsp_lib | apply resp_show_str | apply resp_join_args | apply resp_load_num | apply resp_load_str
          | apply resp_load_bool | apply resp_unwrap_any | apply resp_none_val | apply resp_zero_val
          | apply resp_map_set_key | apply resp_global_err ].
  Ltac rsp2 := repeat (rsp_step ltac:(rsp_lib2)).

  Lemma resp_slice_bounds lo hi len : resp (slice_bounds lo hi len).
  Proof. unfold slice_bounds. rsp2. Qed.
  Lemma resp_bin_num op x y : resp (bin_num op x y).
  Proof. unfold bin_num. rsp2. Qed.
  Lemma resp_bin_str op x y : resp (bin_str op x y).
  Proof. unfold bin_str. rsp2. Qed.
  Lemma resp_bin_bool op x y : resp (bin_bool op x y).
  Proof. unfold bin_bool. rsp2. Qed.
  Lemma resp_bin_arr op xs r : resp (bin_arr op xs r).
  Proof. unfold bin_arr. rsp2. Qed.
  Lemma resp_bind_params ps : forall args fr, resp (bind_params ps args fr).
  Proof. induction ps as [|[n t] ps IH]; intros args fr; cbn [bind_params]; rsp2. Qed.

  Lemma resp_run_test args : resp (run_test args).
  Proof.
    unfold run_test. apply resp_bind; [apply resp_depth_fuel | intro d].
    intros s0 r s' H. cbv zeta in H.
    match type of H with (match ?v s0 with _ => _ end) = _ =>
      assert (V : resp v) by rsp2; destruct (v s0) as [[u|er] s1] eqn:E1 end.
    - match type of H with (match ?v s1 with _ => _ end) = _ =>
        assert (W : resp v) by rsp2; destruct (v s1) as [[[|]|er] s2] eqn:E2 end.
      + inversion H; subst. eapply I_trans; [eapply V; exact E1|]. eapply I_trans; [eapply W; exact E2|]. apply I_tests.
      + assert (I s0 (upd_tests (S (st_total s2)) (S (st_fails s2)) s2))
          by (eapply I_trans; [eapply V; exact E1|]; eapply I_trans; [eapply W; exact E2|]; apply I_tests).
        destruct (st_failfast _) in H; inversion H; subst; assumption.
      + inversion H; subst. eapply I_trans; [eapply V; exact E1|]. eapply I_trans; [eapply W; exact E2|]. apply I_tests.
    - inversion H; subst. eapply I_trans; [eapply V; exact E1|]. apply I_tests.
  Qed.

  (* ONE lemma for all built-ins, by a uniform tactic over the [if name_is …] chain *)
  Ltac rsp_raw_read :=
    let s := fresh "s" in let r := fresh "r" in let s' := fresh "s'" in let H := fresh "H" in
    let x := fresh "x" in let t := fresh "t" in
    intros s r s' H; destruct (st_input s) as [|x t];
    [ eapply I_trans; [apply (I_emit EvRead)|]
    | eapply I_trans; [apply (I_emit EvRead)|]; eapply I_trans; [apply (I_input t)|] ];
    revert H; match goal with |- ?m ?s0 = _ -> _ => assert (R : resp m) by rsp2; apply R end.

  (* a computation that factors through the heap (SemPure: every pure built-in) *)
  Lemma resp_heap_only {A} (m : M A) : heap_only m -> resp m.
  Proof.
    intros HO s r s' H. destruct (heap_only_run m s r s' HO H) as (E & _ & _). rewrite E. apply I_heap.
  Qed.

  Lemma resp_builtin name e args m : builtin name e args = Some m -> resp m.
  Proof.
    unfold builtin. intro H.
    repeat match type of H with
           | (if ?c then _ else _) = _ =>
               destruct c; [inversion H; subst; clear H; first [solve [rsp2] | solve [rsp_raw_read]] |]
           end.
    eapply resp_heap_only, pure_builtin_spec; exact H.
  Qed.

  Ltac rsp_lib3 :=
    first [ rsp_lib2 | apply resp_slice_bounds | apply resp_bin_num | apply resp_bin_str | apply resp_bin_bool
          | apply resp_bin_arr | apply resp_bind_params | apply resp_run_test ].
  Ltac rsp_builtin_step :=
    match goal with
    | |- resp ?m => match m with match builtin ?a ?b ?c with _ => _ end =>
        let E := fresh "E" in destruct (builtin a b c) eqn:E; [exact (resp_builtin _ _ _ _ E)|] end
    end.
  Ltac rsp3 := repeat first [rsp_builtin_step | rsp_step ltac:(rsp_lib3)].

  Lemma eval_resp : forall n,
    (forall P e x, resp (eval_expr n P e x)) /\
    (forall P e l, resp (eval_exprs n P e l)) /\
    (forall P e name args, resp (eval_call n P e name args)) /\
    (forall P e s, resp (exec_stmt n P e s)) /\
    (forall P e l, resp (exec_stmts n P e l)) /\
    (forall P e l, resp (exec_block n P e l)) /\
    (forall P e c b, resp (exec_cond n P e c b)) /\
    (forall P e c b, resp (exec_while n P e c b)) /\
    (forall P e v rg b, resp (exec_for n P e v rg b)).
  Proof.
    induction n as [|n IH].
    - repeat split; intros; apply resp_fail.
    - destruct IH as (IH1 & IH2 & IH3 & IH4 & IH5 & IH6 & IH7 & IH8 & IH9).
      repeat split; intros.
      + cbn [eval_expr].
        destruct x as [v|v|v|name t|a t|t es|t ps|name t args|op a|op t a b|t a i|t a lo hi|t a key|a|t a]; rsp3.
        induction ps as [|[kk aa] ps IHps]; cbn beta iota fix; rsp3.
      + cbn [eval_exprs]. rsp3.
      + cbn [eval_call]. rsp3.
      + cbn [exec_stmt]. destruct s as [name t x|target x|name args|[x|]| |conds els|c body|var vt r body|]; rsp3.
        revert e. induction conds as [|[c body] conds IHc]; intro e; cbn beta iota fix; rsp3.
      + cbn [exec_stmts]. rsp3.
      + cbn [exec_block]. rsp3.
      + cbn [exec_cond]. rsp3.
      + cbn [exec_while]. rsp3.
      + cbn [exec_for]. rsp3.
        induction todo as [|k todo IHt]; cbn beta iota fix; rsp3.
  Qed.
End Resp.

(* ---------- instance: the trace only grows ---------- *)
Definition extends (s s' : state) : Prop := exists evs, st_trace s' = evs ++ st_trace s.

Lemma extends_refl s : extends s s.
Proof. exists []; reflexivity. Qed.
Lemma extends_trans a b c : extends a b -> extends b c -> extends a c.
Proof. intros [x Hx] [y Hy]. exists (y ++ x). rewrite Hy, Hx, app_assoc. reflexivity. Qed.

Definition eval_extends := eval_resp extends extends_refl extends_trans
  (fun h s => extends_refl s) (fun g s => extends_refl s) (fun s _ => extends_refl _)
  (fun i s => extends_refl s) (fun t f s => extends_refl s)
  (fun ev s => ex_intro _ [ev] eq_refl).

Theorem trace_extends : forall n,
  (forall P e x s r s', eval_expr n P e x s = (r, s') -> extends s s') /\
  (forall P e l s r s', eval_exprs n P e l s = (r, s') -> extends s s') /\
  (forall P e name args s r s', eval_call n P e name args s = (r, s') -> extends s s') /\
  (forall P e st s r s', exec_stmt n P e st s = (r, s') -> extends s s') /\
  (forall P e l s r s', exec_stmts n P e l s = (r, s') -> extends s s') /\
  (forall P e l s r s', exec_block n P e l s = (r, s') -> extends s s') /\
  (forall P e c b s r s', exec_cond n P e c b s = (r, s') -> extends s s') /\
  (forall P e c b s r s', exec_while n P e c b s = (r, s') -> extends s s') /\
  (forall P e v rg b s r s', exec_for n P e v rg b s = (r, s') -> extends s s').
Proof.
  intro n. destruct (eval_extends n) as (H1 & H2 & H3 & H4 & H5 & H6 & H7 & H8 & H9).
  repeat split; intros.
  - eapply H1; eassumption.
  - eapply H2; eassumption.
  - eapply H3; eassumption.
  - eapply H4; eassumption.
  - eapply H5; eassumption.
  - eapply H6; eassumption.
  - eapply H7; eassumption.
  - eapply H8; eassumption.
  - eapply H9; eassumption.
Qed.

(* the events emitted between s and s' (newest first, like st_trace) *)
Definition emitted (s s' : state) : list event :=
  firstn (List.length (st_trace s') - List.length (st_trace s)) (st_trace s').

Lemma emitted_spec s s' : extends s s' -> st_trace s' = emitted s s' ++ st_trace s.
Proof.
  intros [evs H]. unfold emitted. rewrite H at 2. rewrite H at 1. f_equal.
  rewrite H, app_length, Nat.add_sub. rewrite firstn_app, Nat.sub_diag, firstn_all. cbn. rewrite app_nil_r. reflexivity.
Qed.

Lemma emitted_concat s s1 s2 :
  extends s s1 -> extends s1 s2 -> emitted s s2 = emitted s1 s2 ++ emitted s s1.
Proof.
  intros E1 E2. pose proof (emitted_spec _ _ E1) as H1. pose proof (emitted_spec _ _ E2) as H2.
  pose proof (emitted_spec _ _ (extends_trans _ _ _ E1 E2)) as H3.
  rewrite H2, H1, app_assoc in H3. apply app_inv_tail in H3. symmetry; exact H3.
Qed.

(* trace_concat: evaluating xs ++ ys is evaluating xs, then ys from the state
   xs left, and the events are those of xs followed (in time) by those of ys.
   Fuel: eval_exprs spends one unit per element, so ys starts with the fuel
   that is left after xs (see eval_exprs_app). *)
Theorem trace_concat : forall P e xs ys k s vs s1 ws s2,
  eval_exprs (List.length xs + S k) P e xs s = (Ok vs, s1) ->
  eval_exprs (S k) P e ys s1 = (Ok ws, s2) ->
  eval_exprs (List.length xs + S k) P e (xs ++ ys) s = (Ok (vs ++ ws), s2) /\
  emitted s s2 = emitted s1 s2 ++ emitted s s1 /\
  rev (emitted s s2) = rev (emitted s s1) ++ rev (emitted s1 s2).
Proof.
  intros P e xs ys k s vs s1 ws s2 H1 H2.
  split; [eapply eval_exprs_app_ok; eassumption|].
  assert (E : emitted s s2 = emitted s1 s2 ++ emitted s s1).
  { apply emitted_concat.
    - eapply (proj1 (proj2 (trace_extends _))); exact H1.
    - eapply (proj1 (proj2 (trace_extends _))); exact H2. }
  split; [exact E | rewrite E, rev_app_distr; reflexivity].
Qed.

(* the same for any two consecutive evaluator runs, e.g. the two operands of
   a binary expression: the left operand's events precede the right operand's *)
Theorem trace_concat_exprs : forall n m P e l r s la s1 rb s2,
  eval_expr n P e l s = (Ok la, s1) ->
  eval_expr m P e r s1 = (rb, s2) ->
  rev (emitted s s2) = rev (emitted s s1) ++ rev (emitted s1 s2).
Proof.
  intros n m P e l r s la s1 rb s2 H1 H2.
  rewrite (emitted_concat s s1 s2), rev_app_distr; [reflexivity| |].
  - eapply (proj1 (trace_extends _)); exact H1.
  - eapply (proj1 (trace_extends _)); exact H2.
Qed.

(* ====================================================================== *)
(* B2c. fuel monotonicity                                                  *)
(* ====================================================================== *)
(* A run that ends in anything but "out of fuel" is reproduced, result and
   state, by every larger fuel. *)
Definition mono {A} (m m' : M A) : Prop :=
  forall s r s', m s = (r, s') -> r <> Er EOutOfFuel -> m' s = (r, s').

Lemma mono_refl {A} (m : M A) : mono m m.
Proof. intros s r s' H _; exact H. Qed.

Lemma mono_oof {A} (m' : M A) : mono (fail EOutOfFuel) m'.
Proof. intros s r s' H N. inversion H; subst. contradiction N; reflexivity. Qed.

Lemma mono_bind {A B} (m m' : M A) (f f' : A -> M B) :
  mono m m' -> (forall a, mono (f a) (f' a)) -> mono (bindM m f) (bindM m' f').
Proof.
  intros Hm Hf s r s' H N. unfold bindM in H. destruct (m s) as [[a|er] s1] eqn:E.
  - rewrite (bindM_ok _ _ _ _ _ (Hm _ _ _ E ltac:(discriminate))). apply Hf; assumption.
  - inversion H; subst.
    assert (N' : @Er A er <> Er EOutOfFuel) by (intro X; apply N; inversion X; reflexivity).
    rewrite (bindM_er _ _ _ _ _ (Hm _ _ _ E N')). reflexivity.
Qed.

Ltac mn_step :=
  match goal with
  | |- mono ?x ?x => apply mono_refl
  | |- mono (bindM _ _) (bindM _ _) => apply mono_bind; [|intros]
  | H : context [mono _ _] |- mono _ _ => apply H
  | |- mono ?m _ => match m with match ?x with _ => _ end => is_var x; destruct x end
  | |- mono ?m _ => match m with match ?x with _ => _ end => destruct x end
  end.
Ltac mn := repeat mn_step.

Lemma eval_mono : forall n m, (n <= m)%nat ->
  (forall P e x, mono (eval_expr n P e x) (eval_expr m P e x)) /\
  (forall P e l, mono (eval_exprs n P e l) (eval_exprs m P e l)) /\
  (forall P e name args, mono (eval_call n P e name args) (eval_call m P e name args)) /\
  (forall P e s, mono (exec_stmt n P e s) (exec_stmt m P e s)) /\
  (forall P e l, mono (exec_stmts n P e l) (exec_stmts m P e l)) /\
  (forall P e l, mono (exec_block n P e l) (exec_block m P e l)) /\
  (forall P e c b, mono (exec_cond n P e c b) (exec_cond m P e c b)) /\
  (forall P e c b, mono (exec_while n P e c b) (exec_while m P e c b)) /\
  (forall P e v rg b, mono (exec_for n P e v rg b) (exec_for m P e v rg b)).
Proof.
  induction n as [|n IH]; intros m Hle.
  - repeat split; intros; apply mono_oof.
  - destruct m as [|m]; [lia|]. assert (Hle' : (n <= m)%nat) by lia.
    destruct (IH m Hle') as (IH1 & IH2 & IH3 & IH4 & IH5 & IH6 & IH7 & IH8 & IH9). clear IH.
    repeat split; intros.
    + cbn [eval_expr].
      destruct x as [v|v|v|name t|a t|t es|t ps|name t args|op a|op t a b|t a i|t a lo hi|t a key|a|t a]; mn.
      induction ps as [|[kk aa] ps IHps]; cbn beta iota fix; mn.
    + cbn [eval_exprs]. mn.
    + cbn [eval_call]. mn.
    + cbn [exec_stmt]. destruct s as [name t x|target x|name args|[x|]| |conds els|c body|var vt r body|]; mn.
      revert e. induction conds as [|[c body] conds IHc]; intro e; cbn beta iota fix; mn.
    + cbn [exec_stmts]. mn.
    + cbn [exec_block]. mn.
    + cbn [exec_cond]. mn.
    + cbn [exec_while]. mn.
    + cbn [exec_for]. mn.
Qed.

Theorem fuel_mono : forall n m, (n <= m)%nat ->
  (forall P e x s r s', eval_expr n P e x s = (r, s') -> r <> Er EOutOfFuel -> eval_expr m P e x s = (r, s')) /\
  (forall P e l s r s', eval_exprs n P e l s = (r, s') -> r <> Er EOutOfFuel -> eval_exprs m P e l s = (r, s')) /\
  (forall P e name args s r s', eval_call n P e name args s = (r, s') -> r <> Er EOutOfFuel ->
                                eval_call m P e name args s = (r, s')) /\
  (forall P e st s r s', exec_stmt n P e st s = (r, s') -> r <> Er EOutOfFuel -> exec_stmt m P e st s = (r, s')) /\
  (forall P e l s r s', exec_stmts n P e l s = (r, s') -> r <> Er EOutOfFuel -> exec_stmts m P e l s = (r, s')) /\
  (forall P e l s r s', exec_block n P e l s = (r, s') -> r <> Er EOutOfFuel -> exec_block m P e l s = (r, s')) /\
  (forall P e c b s r s', exec_cond n P e c b s = (r, s') -> r <> Er EOutOfFuel -> exec_cond m P e c b s = (r, s')) /\
  (forall P e c b s r s', exec_while n P e c b s = (r, s') -> r <> Er EOutOfFuel -> exec_while m P e c b s = (r, s')) /\
  (forall P e v rg b s r s', exec_for n P e v rg b s = (r, s') -> r <> Er EOutOfFuel ->
                             exec_for m P e v rg b s = (r, s')).
Proof.
  intros n m Hle. destruct (eval_mono n m Hle) as (H1 & H2 & H3 & H4 & H5 & H6 & H7 & H8 & H9).
  repeat split; intros.
  - eapply H1; eassumption.
  - eapply H2; eassumption.
  - eapply H3; eassumption.
  - eapply H4; eassumption.
  - eapply H5; eassumption.
  - eapply H6; eassumption.
  - eapply H7; eassumption.
  - eapply H8; eassumption.
  - eapply H9; eassumption.
Qed.

(* trace_concat for arbitrary fuels: whatever fuels made xs and ys succeed,
   xs ++ ys succeeds with (and above) length xs + 1 + max n m, delivers the
   concatenated values, the same final state, and the events of xs followed
   by the events of ys. *)
Theorem trace_concat_general : forall n m P e xs ys s vs s1 ws s2,
  eval_exprs n P e xs s = (Ok vs, s1) ->
  eval_exprs m P e ys s1 = (Ok ws, s2) ->
  forall k, (List.length xs + S (Nat.max n m) <= k)%nat ->
  eval_exprs k P e (xs ++ ys) s = (Ok (vs ++ ws), s2) /\
  rev (emitted s s2) = rev (emitted s s1) ++ rev (emitted s1 s2).
Proof.
  intros n m P e xs ys s vs s1 ws s2 H1 H2 k Hk.
  pose proof (Nat.le_max_l n m) as L1. pose proof (Nat.le_max_r n m) as L2.
  remember (Nat.max n m) as j eqn:Ej. clear Ej.
  assert (A1 : (n <= List.length xs + S j)%nat) by lia.
  assert (A2 : (m <= S j)%nat) by lia.
  assert (G1 : eval_exprs (List.length xs + S j) P e xs s = (Ok vs, s1)).
  { eapply (proj1 (proj2 (fuel_mono _ _ A1))); [exact H1 | discriminate]. }
  assert (G2 : eval_exprs (S j) P e ys s1 = (Ok ws, s2)).
  { eapply (proj1 (proj2 (fuel_mono _ _ A2))); [exact H2 | discriminate]. }
  destruct (trace_concat _ _ _ _ _ _ _ _ _ _ G1 G2) as (T1 & _ & T3).
  split; [|exact T3].
  eapply (proj1 (proj2 (fuel_mono _ _ Hk))); [exact T1 | discriminate].
Qed.

(* ====================================================================== *)
(* B2d. the events of a binary expression are its operands' events, in order *)
(* ====================================================================== *)
Definition same_trace (s s' : state) : Prop := st_trace s' = st_trace s.
Lemma st_refl : forall s, same_trace s s. Proof. reflexivity. Qed.
Lemma st_trans : forall a b c, same_trace a b -> same_trace b c -> same_trace a c.
Proof. unfold same_trace; congruence. Qed.
Lemma st_heap_upd : forall h s, same_trace s (upd_heap h s). Proof. reflexivity. Qed.

Ltac stp :=
  repeat first
    [ exact st_refl | exact st_trans | exact st_heap_upd
    | apply resp_ret | apply resp_fail | apply resp_alloc | apply resp_load | apply resp_load_num
    | apply resp_load_str | apply resp_load_bool | apply resp_bin_num | apply resp_bin_str
    | apply resp_bin_bool | apply resp_bin_arr | apply resp_equals | apply resp_depth_fuel
    | apply resp_bind
    | match goal with
      | |- forall _, _ => intro
      | |- resp _ ?m => match m with match ?x with _ => _ end => destruct x end
      end ].

(* the operator itself (everything after the operands) emits nothing *)
Lemma bin_tail_silent : forall op la lb,
  resp same_trace
    (match op with
     | BEq => let* d := depth_fuel in let* r := equals d la lb in alloc (HBool r)
     | BNotEq => let* d := depth_fuel in let* r := equals d la lb in alloc (HBool (negb r))
     | _ => bin_dispatch op la lb
     end).
Proof. intros op la lb. destruct op; unfold bin_dispatch, internal; stp. Qed.

(* after the yield and a successful left operand (state s2): either the right
   operand is not evaluated and the final trace is that of s2 (short-circuit),
   or it is evaluated from s2 and the final trace is the one it leaves *)
Theorem ebin_trace : forall n P e op t l r s s1 la s2 res s4,
  tick s = (Ok tt, s1) ->
  eval_expr n P e l s1 = (Ok la, s2) ->
  eval_expr (S n) P e (EBin op t l r) s = (res, s4) ->
  st_trace s4 = st_trace s2 \/
  exists rb s3, eval_expr n P e r s2 = (rb, s3) /\ st_trace s4 = st_trace s3 /\
                rev (emitted s1 s4) = rev (emitted s1 s2) ++ rev (emitted s2 s3).
Proof.
  intros n P e op t l r s s1 la s2 res s4 Ht Hl H. rewrite eval_bin_order in H.
  rewrite (bindM_ok _ _ _ _ _ Ht), (bindM_ok _ _ _ _ _ Hl) in H.
  unfold bindM at 1 in H. unfold load at 1 in H.
  destruct (hget (st_heap s2) la) as [v0|]; [|inversion H; subst; left; reflexivity].
  cbv zeta in H.
  destruct (match op with BAnd => match v0 with HBool false => true | _ => false end
                        | BOr => match v0 with HBool true => true | _ => false end
                        | _ => false end).
  - left. unfold bindM at 1, ret at 1 in H. exact (bin_tail_silent op la la _ _ _ H).
  - right. unfold bindM at 1 in H.
    destruct (eval_expr n P e r s2) as [[lb|er] s3] eqn:Hr.
    + exists (Ok lb), s3. split; [reflexivity|].
      pose proof (bin_tail_silent op la lb _ _ _ H) as T. split; [exact T|].
      assert (E12 : extends s1 s2) by (eapply (proj1 (trace_extends _)); exact Hl).
      assert (E23 : extends s2 s3) by (eapply (proj1 (trace_extends _)); exact Hr).
      rewrite <- rev_app_distr, <- (emitted_concat s1 s2 s3 E12 E23).
      unfold emitted. rewrite T. reflexivity.
    + inversion H; subst. exists (Er er), s4. split; [reflexivity|]. split; [reflexivity|].
      assert (E12 : extends s1 s2) by (eapply (proj1 (trace_extends _)); exact Hl).
      assert (E23 : extends s2 s4) by (eapply (proj1 (trace_extends _)); exact Hr).
      rewrite <- rev_app_distr, <- (emitted_concat s1 s2 s4 E12 E23). reflexivity.
Qed.

(* ====================================================================== *)
(* B3c. full symmetry of equals on values of the same shape                *)
(* ====================================================================== *)
(* [compat h fuel a b]: within the fuel, wherever equals (in either
   direction) descends into a pair of cells, both hold values of the same
   kind (what the type checker guarantees for == on well-typed operands).
   On such operands equals never crashes, and is symmetric for BOTH verdicts. *)
Fixpoint compat (h : heap) (fuel : nat) (a b : loc) : Prop :=
  match fuel with
  | O => False
  | S f =>
      match hget h a, hget h b with
      | Some (HNum _), Some (HNum _) => True
      | Some (HStr _), Some (HStr _) => True
      | Some (HBool _), Some (HBool _) => True
      | Some (HAny t i), Some (HAny u j) =>
          ty_eqb (ty_shape t) (ty_shape u) = true -> compat h f i j /\ compat h f j i
      | Some (HArr xs), Some (HArr ys) =>
          List.length xs = List.length ys -> Forall2 (fun x y => compat h f x y /\ compat h f y x) xs ys
      | Some (HMap m1), Some (HMap m2) =>
          (forall k i j, In (k, i) (pairs m1) -> plookup k (pairs m2) = Some j -> compat h f i j) /\
          (forall k i j, In (k, j) (pairs m2) -> plookup k (pairs m1) = Some i -> compat h f j i)
      | _, _ => False
      end
  end.

Lemma compat_sym : forall h fuel a b, compat h fuel a b -> compat h fuel b a.
Proof.
  intros h [|f] a b C; [exact C|]. cbn [compat] in *.
  destruct (hget h a) as [[x|x|x|t i|xs|m1|]|], (hget h b) as [[y|y|y|u j|ys|m2|]|]; try exact C; try contradiction.
  - intro E. rewrite ty_eqb_sym in E. destruct (C E); split; assumption.
  - intro L. symmetry in L. specialize (C L).
    eapply Forall2_flip_impl; [|exact C]. cbn. intros x y [H1 H2]; split; assumption.
  - destruct C as [C1 C2]; split; intros k i j H1 H2; [apply (C2 k j i) | apply (C1 k j i)]; assumption.
Qed.

Lemma all2_total p : forall xs ys,
  Forall2 (fun x y => exists r, p x y = Ok r) xs ys -> exists r, all2 p xs ys = Ok r.
Proof.
  induction 1 as [|x y xs ys [r Hr] _ IH]; cbn [all2]; [eexists; reflexivity|].
  rewrite Hr. destruct r; [exact IH | eexists; reflexivity].
Qed.

Lemma allp_total p m2 : forall ps,
  (forall k i j, In (k, i) ps -> plookup k m2 = Some j -> exists r, p i j = Ok r) ->
  exists r, allp p m2 ps = Ok r.
Proof.
  induction ps as [|[k i] t IH]; intro H; cbn [allp]; [eexists; reflexivity|].
  destruct (plookup k m2) as [j|] eqn:E; [|eexists; reflexivity].
  destruct (H k i j (or_introl eq_refl) E) as [r Hr]. rewrite Hr.
  destruct r; [|eexists; reflexivity]. apply IH. intros k' i' j' Hin. apply H. right; exact Hin.
Qed.

Lemma eqh_total : forall h fuel a b, compat h fuel a b -> exists r, eqh h fuel a b = Ok r.
Proof.
  intros h; induction fuel as [|f IH]; intros a b C; [destruct C|]. cbn [compat eqh] in *.
  destruct (hget h a) as [[x|x|x|t i|xs|m1|]|], (hget h b) as [[y|y|y|u j|ys|m2|]|]; try contradiction;
    cbn [eqv]; try (eexists; reflexivity).
  - destruct (ty_eqb (ty_shape t) (ty_shape u)); [|eexists; reflexivity]. apply IH. apply C; reflexivity.
  - destruct (Nat.eqb (List.length xs) (List.length ys)) eqn:L; cbn [negb]; [|eexists; reflexivity].
    apply Nat.eqb_eq in L. apply all2_total. specialize (C L).
    clear L. induction C as [|x y xs ys [H1 _] _ IHC]; constructor; [apply IH; exact H1 | exact IHC].
  - destruct (negb (Nat.eqb (List.length (pairs m1)) (List.length (pairs m2)))); [eexists; reflexivity|].
    apply allp_total. intros k i j Hin Hj. apply IH. eapply (proj1 C); eassumption.
Qed.

(* never a crash, and the same verdict in both directions *)
Theorem equals_sym_full : forall fuel a b s,
  maps_nodup (st_heap s) -> compat (st_heap s) fuel a b ->
  exists r, equals fuel a b s = (Ok r, s) /\ equals fuel b a s = (Ok r, s).
Proof.
  intros fuel a b s ND C. rewrite !equals_eqh.
  destruct (eqh_total _ _ _ _ C) as [r Hr]. destruct (eqh_total _ _ _ _ (compat_sym _ _ _ _ C)) as [r' Hr'].
  exists r. rewrite Hr, Hr'. split; [reflexivity|].
  assert (r = r'); [|subst; reflexivity].
  destruct r, r'; try reflexivity.
  - apply (eqh_sym_true _ ND) in Hr. congruence.
  - apply (eqh_sym_true _ ND) in Hr'. congruence.
Qed.
