(* FmtCheckProofs.v — what `evy fmt --check` (Format.fmt_check) can accept, on the BYTES of the text:
   an accepted text is the formatter's output, hence has the shape of C07; in particular no white
   space of any kind (blank, tab, CR of a CRLF line ending, FF, VT, NBSP ...) directly before a newline. *)
From Coq Require Import ZArith NArith List Bool.
From EvyV Require Import Base FmtAst Format FormatShapeProofs.
Import ListNotations.
Open Scope N_scope.

Lemma check_accepted_is_shaped (parse : str -> option fprog) (fx : fixes) (t : str) :
  (forall p, parse t = Some p -> wf_prog p = true) ->
  fmt_check parse fx t = true -> shape_lines t = true.
Proof.
  intros Hwf H. apply fmt_check_iff in H. destruct H as (p & Hp & Ht).
  rewrite Ht. apply format_shape. apply Hwf. exact Hp.
Qed.

Lemma shape_scan_space_nl (w : N) (a : str) : is_space w = true -> w <> 10 ->
  forall st b, shape_scan st (a ++ w :: 10 :: b) = false.
Proof.
  intros Hw Hn. apply N.eqb_neq in Hn.
  induction a as [|c a IH]; intros st b.
  - cbn [app shape_scan]. rewrite Hn. destruct (at_bol st).
    + destruct (w =? 32).
      * cbn. reflexivity.
      * rewrite Hw. reflexivity.
    + cbn. rewrite Hw. reflexivity.
  - cbn [app shape_scan].
    destruct (c =? 10), (at_bol st), (c =? 32); rewrite ?IH, ?andb_false_r; reflexivity.
Qed.

Lemma check_rejects_space_before_newline (parse : str -> option fprog) (fx : fixes) (a b : str) (w : N) :
  (forall p, parse (a ++ w :: 10 :: b) = Some p -> wf_prog p = true) ->
  is_space w = true -> w <> 10 ->
  fmt_check parse fx (a ++ w :: 10 :: b) = false.
Proof.
  intros Hwf Hw Hn. destruct (fmt_check parse fx (a ++ w :: 10 :: b)) eqn:E; [|reflexivity].
  apply check_accepted_is_shaped in E; [|exact Hwf].
  unfold shape_lines in E. rewrite (shape_scan_space_nl w a Hw Hn) in E. discriminate.
Qed.

Lemma check_rejects_crlf (parse : str -> option fprog) (fx : fixes) (a b : str) :
  (forall p, parse (a ++ 13 :: 10 :: b) = Some p -> wf_prog p = true) ->
  fmt_check parse fx (a ++ 13 :: 10 :: b) = false.
Proof. intro Hwf. apply check_rejects_space_before_newline; [exact Hwf | reflexivity | discriminate]. Qed.
