(* RunModel.v — the control flow of "parse before evaluate":
     pkg/evaluator/evaluator.go  (e *Evaluator) Run(input)
     main.go                     (c *runCmd) Run / handleEvyErr
   What is modelled: the order of the calls and what each branch hands on.
   What is NOT modelled (section variables): the parser and the evaluator
   themselves, the text of messages, SVG writing.  The model is deliberately
   tiny; its purpose is to state precisely which part of C05 "nothing of a
   rejected program runs" is a property of these two functions. *)
From Coq Require Import List ZArith.
Import ListNotations.

(* outcome of Evaluator.Eval: nil / ExitError n / any other error *)
Inductive eval_err := EvOk | EvExit (n : Z) | EvOther.
(* what Evaluator.Run returns *)
Inductive run_err (PErr : Type) := RParse (errs : list PErr) | REval (e : eval_err).
Arguments RParse {PErr} errs.
Arguments REval {PErr} e.

Record cli_obs (Eff : Type) := { platform_calls : list Eff; stderr_message : bool; exit_status : Z }.
Arguments platform_calls {Eff} c.
Arguments stderr_message {Eff} c.
Arguments exit_status {Eff} c.

Section Run.
  Variables Src Prog PErr Eff : Type.

  (* parser.Parse(input, builtins): (prog, nil) or (nil, errors) *)
  Variable parse : Src -> Prog + list PErr.

  (* Evaluator.Eval(prog): the Platform calls it makes (in order) and the error it returns *)
  Variable eval : Prog -> list Eff * eval_err.

  (* func (e *Evaluator) Run(input string) error {
       prog, err := parser.Parse(input, builtins); if err != nil { return err }; return e.Eval(prog) } *)
  Definition evaluator_run (s : Src) : list Eff * run_err PErr :=
    match parse s with
    | inr errs => ([], RParse errs)
    | inl p => let (effs, e) := eval p in (effs, REval e)
    end.

  (* main.go runCmd.Run + handleEvyErr, reduced to: what reached the platform
     (stdout and drawing are Platform calls), whether stderr got a message,
     the exit status.  evyErr == nil -> status 0, nothing on stderr;
     ExitError n -> os.Exit(n) without message; anything else (parser.Errors
     included) -> message on stderr, os.Exit(1).  (A writeSVG failure is not modelled.) *)
  Definition cli_run (s : Src) : cli_obs Eff :=
    let (effs, err) := evaluator_run s in
    match err with
    | REval EvOk => {| platform_calls := effs; stderr_message := false; exit_status := 0 |}
    | REval (EvExit n) => {| platform_calls := effs; stderr_message := false; exit_status := n |}
    | REval EvOther => {| platform_calls := effs; stderr_message := true; exit_status := 1 |}
    | RParse _ => {| platform_calls := effs; stderr_message := true; exit_status := 1 |}
    end.
End Run.

Arguments evaluator_run {Src Prog PErr Eff} parse eval s.
Arguments cli_run {Src Prog PErr Eff} parse eval s.
