(* FormatShapeProofs.v — C07, part 1: the shape of the formatter's output.
   An abstract automaton over output pieces (beginning of line with b empty
   lines before it / after an indentation / after a token / after a space) is
   proved sound for the character-level scanner [shape_scan]; the formatter
   functions are then shown to drive the abstract automaton without ever
   getting stuck. *)
From Coq Require Import ZArith NArith List Bool Lia Arith.
From EvyV Require Import Base FmtAst Format FormatProofs FormatNlProofs.
Import ListNotations.
Open Scope N_scope.

Definition st_bol (c b : nat) (lb : bool) : shape_st :=
  {| at_bol := true; col_spaces := c; last_blank := lb; blanks := b |}.
Definition st_mid (lb : bool) : shape_st :=
  {| at_bol := false; col_spaces := 0; last_blank := lb; blanks := 0 |}.

Inductive pst := PB (b : nat) | PI (n b : nat) | PM | PS.

Definition conc (a : pst) : shape_st :=
  match a with
  | PB b => st_bol 0 b false
  | PI n b => st_bol (4 * S n) b true
  | PM => st_mid false
  | PS => st_mid true
  end.

(* a token text: non-empty, no newline, no white space at either end *)
Definition tok_shape (s : str) : bool :=
  match s with
  | c :: _ => negb (is_space c) && no_nl s && match rev s with x :: _ => negb (is_space x) | [] => false end
  | [] => false
  end.

Definition pstep (a : pst) (p : piece) : option pst :=
  match p with
  | T s | Q s | Cm s => if tok_shape s then Some PM else None
  | Sp => match a with PM | PS => Some PS | _ => None end
  | NL => match a with
          | PM => Some (PB 0)
          | PB 0 => Some (PB 1)
          | _ => None
          end
  | Ind 0 => Some a
  | Ind (S n) => match a with PB b => Some (PI n b) | _ => None end
  end.

Fixpoint prun (a : pst) (ps : list piece) : option pst :=
  match ps with
  | [] => Some a
  | p :: r => match pstep a p with Some a' => prun a' r | None => None end
  end.

Lemma prun_app a ps qs : prun a (ps ++ qs) = match prun a ps with Some a' => prun a' qs | None => None end.
Proof. revert a. induction ps as [|p ps IH]; intro a; simpl; auto. destruct (pstep a p); auto. Qed.

(* ---------- soundness for the character scanner ---------- *)
Definition last_blank_of (s : str) (lb : bool) : bool :=
  match rev s with x :: _ => is_space x | [] => lb end.

Lemma last_blank_of_cons c s lb : last_blank_of (c :: s) lb = last_blank_of s (is_space c).
Proof.
  unfold last_blank_of. simpl. destruct (rev s) as [|x r] eqn:E; reflexivity.
Qed.

Lemma scan_mid s : forall lb rest, no_nl s = true ->
  shape_scan (st_mid lb) (s ++ rest) = shape_scan (st_mid (last_blank_of s lb)) rest.
Proof.
  induction s as [|c s IH]; intros lb rest H; [reflexivity|].
  simpl in H. apply andb_true_iff in H as [Hc Hs]. apply negb_true_iff in Hc.
  rewrite last_blank_of_cons. rewrite <- IH by exact Hs.
  simpl. rewrite Hc. reflexivity.
Qed.

Lemma tok_shape_spec s : tok_shape s = true ->
  exists c s', s = c :: s' /\ is_space c = false /\ no_nl s' = true /\ last_blank_of s' false = false
               /\ no_nl s = true /\ forall lb, last_blank_of s lb = false.
Proof.
  unfold tok_shape. destruct s as [|c s']; [discriminate|]. intro H.
  apply andb_true_iff in H as [H H3]. apply andb_true_iff in H as [H1 H2]. apply negb_true_iff in H1.
  exists c, s'. split; [reflexivity|]. split; [exact H1|].
  assert (Hn : no_nl s' = true). { simpl in H2. apply andb_true_iff in H2. tauto. }
  split; [exact Hn|].
  assert (Hl : forall lb, last_blank_of (c :: s') lb = false).
  { intro lb. unfold last_blank_of. destruct (rev (c :: s')) as [|x r]; [discriminate|]. apply negb_true_iff in H3. exact H3. }
  split; [|split; [exact H2 | exact Hl]].
  specialize (Hl true). rewrite last_blank_of_cons in Hl. rewrite H1 in Hl. exact Hl.
Qed.

Lemma space_not_nl c : is_space c = false -> (c =? 10) = false /\ (c =? 32) = false.
Proof.
  intro H. split; [destruct (N.eqb_spec c 10) | destruct (N.eqb_spec c 32)]; auto; subst; discriminate.
Qed.

Lemma mod4 n : (4 * n mod 4 =? 0)%nat = true.
Proof. rewrite Nat.mul_comm, Nat.mod_mul by discriminate. reflexivity. Qed.

Lemma scan_bol_tokchar c col b lb r : is_space c = false -> (col mod 4 =? 0)%nat = true ->
  shape_scan (st_bol col b lb) (c :: r) = shape_scan (st_mid false) r.
Proof.
  intros Hc Hm. destruct (space_not_nl c Hc) as [H10 H32]. unfold st_bol, st_mid.
  cbn [shape_scan at_bol col_spaces]. rewrite H10, H32, Hc, Hm. reflexivity.
Qed.

Lemma scan_tok s a rest : tok_shape s = true ->
  shape_scan (conc a) (s ++ rest) = shape_scan (conc PM) rest.
Proof.
  intro H. destruct (tok_shape_spec s H) as (c & s' & -> & Hc & Hn' & Hl' & Hn & Hl).
  destruct a as [b|n b| |].
  - cbn [conc app]. rewrite scan_bol_tokchar by (auto; reflexivity).
    rewrite scan_mid by exact Hn'. rewrite Hl'. reflexivity.
  - cbn [conc app]. rewrite scan_bol_tokchar by (auto; apply mod4).
    rewrite scan_mid by exact Hn'. rewrite Hl'. reflexivity.
  - cbn [conc]. rewrite scan_mid by exact Hn. rewrite Hl. reflexivity.
  - cbn [conc]. rewrite scan_mid by exact Hn. rewrite Hl. reflexivity.
Qed.

Lemma scan_spaces k : forall c lb b rest, (0 < k)%nat ->
  shape_scan (st_bol c b lb) (spaces k ++ rest) = shape_scan (st_bol (c + k) b true) rest.
Proof.
  induction k as [|k IH]; intros c lb b rest Hk; [lia|].
  change (spaces (S k) ++ rest) with (32 :: (spaces k ++ rest)).
  cbn [shape_scan st_bol at_bol col_spaces blanks]. change (32 =? 10) with false. change (32 =? 32) with true. cbn iota.
  destruct k as [|k'].
  - simpl. replace (c + 1)%nat with (S c) by lia. reflexivity.
  - change {| at_bol := true; col_spaces := S c; last_blank := true; blanks := b |} with (st_bol (S c) b true).
    rewrite IH by lia. replace (S c + S k')%nat with (c + S (S k'))%nat by lia. reflexivity.
Qed.

Lemma pstep_sound a p a' rest : pstep a p = Some a' ->
  shape_scan (conc a) (render1 p ++ rest) = shape_scan (conc a') rest.
Proof.
  destruct p as [s|s|s| | |n]; cbn [pstep render1].
  - destruct (tok_shape s) eqn:E; [|discriminate]. intro H; injection H as <-. apply scan_tok, E.
  - destruct (tok_shape s) eqn:E; [|discriminate]. intro H; injection H as <-. apply scan_tok, E.
  - destruct (tok_shape s) eqn:E; [|discriminate]. intro H; injection H as <-. apply scan_tok, E.
  - destruct a; try discriminate; intro H; injection H as <-; reflexivity.
  - destruct a as [[|[|b]]|n b| |]; try discriminate; intro H; injection H as <-; reflexivity.
  - destruct n as [|n].
    + intro H; injection H as <-. reflexivity.
    + destruct a as [b|? ?| |]; try discriminate. intro H; injection H as <-.
      cbn [conc]. rewrite scan_spaces by lia. reflexivity.
Qed.

Lemma prun_sound ps : forall a a' rest, prun a ps = Some a' ->
  shape_scan (conc a) (render ps ++ rest) = shape_scan (conc a') rest.
Proof.
  induction ps as [|p ps IH]; intros a a' rest H.
  - injection H as <-. reflexivity.
  - cbn [prun] in H. destruct (pstep a p) as [a1|] eqn:E; [|discriminate].
    rewrite render_cons, <- app_assoc. rewrite (pstep_sound a p a1 _ E). apply IH, H.
Qed.

Lemma prun_shape ps a' : prun (PB 0) ps = Some a' -> shape_lines (render ps) = true.
Proof.
  intro H. unfold shape_lines.
  change {| at_bol := true; col_spaces := 0; last_blank := false; blanks := 0 |} with (conc (PB 0)).
  rewrite <- (app_nil_r (render ps)). rewrite (prun_sound ps (PB 0) a' [] H). reflexivity.
Qed.

(* ---------- token texts of well-formed trees have the token shape ---------- *)
Lemma forallb_rev {A} (f : A -> bool) l : forallb f (rev l) = forallb f l.
Proof.
  induction l as [|x l IH]; simpl; auto. rewrite forallb_app, IH. simpl. rewrite andb_true_r. apply andb_comm.
Qed.

Lemma plain_char_not_space c : plain_char c = true -> is_space c = false.
Proof. unfold plain_char. intro H. apply andb_true_iff in H as [H _]. apply andb_true_iff in H as [H _]. apply negb_true_iff in H. exact H. Qed.

Lemma is_space_10 : is_space 10 = true. Proof. reflexivity. Qed.

Lemma plain_tok_shape s : plain s = true -> tok_shape s = true.
Proof.
  unfold plain, tok_shape. intro H. apply andb_true_iff in H as [Hne Hall].
  destruct s as [|c s']; [discriminate|].
  assert (Hc : is_space c = false).
  { simpl in Hall. apply andb_true_iff in Hall as [Hc _]. apply plain_char_not_space, Hc. }
  rewrite Hc. cbn [negb andb].
  assert (Hn : no_nl (c :: s') = true).
  { unfold no_nl. apply forallb_forall. intros x Hx.
    assert (Hp := proj1 (forallb_forall _ _) Hall x Hx). apply plain_char_not_space in Hp.
    destruct (N.eqb_spec x 10); [subst; discriminate | reflexivity]. }
  rewrite Hn. cbn [andb].
  rewrite <- forallb_rev in Hall. destruct (rev (c :: s')) as [|x r] eqn:E.
  - apply (f_equal (@List.length N)) in E. rewrite rev_length in E. discriminate.
  - simpl in Hall. apply andb_true_iff in Hall as [Hx _]. apply plain_char_not_space in Hx. rewrite Hx. reflexivity.
Qed.

Lemma scan_str_spec r : forall esc, scan_str esc r = true ->
  no_nl r = true /\ exists r', r = r' ++ [34].
Proof.
  induction r as [|c r IH]; intros esc H; [discriminate|].
  cbn [scan_str] in H. destruct (c =? 10) eqn:E10; [discriminate|].
  assert (Hrec : forall e, scan_str e r = true -> no_nl (c :: r) = true /\ exists r', c :: r = r' ++ [34]).
  { intros e He. destruct (IH e He) as (Hn & r' & ->). split; [simpl; rewrite E10; exact Hn|]. exists (c :: r'). reflexivity. }
  destruct esc; [eapply Hrec; eauto|].
  destruct (c =? 92); [eapply Hrec; eauto|].
  destruct (c =? 34) eqn:E34; [|eapply Hrec; eauto].
  destruct r; [|discriminate]. apply N.eqb_eq in E34. subst. split; [reflexivity|]. exists []. reflexivity.
Qed.

Lemma quoted_tok_shape q : quoted_ok q = true -> tok_shape q = true.
Proof.
  unfold quoted_ok, tok_shape. destruct q as [|c r]; [discriminate|]. intro H.
  apply andb_true_iff in H as [Hc Hr]. apply N.eqb_eq in Hc. subst c.
  destruct (scan_str_spec r false Hr) as (Hn & r' & ->).
  change (is_space 34) with false. cbn [negb andb].
  assert (Hn2 : no_nl (34 :: r' ++ [34]) = true) by (simpl; exact Hn). rewrite Hn2. cbn [andb].
  change (34 :: r' ++ [34]) with ((34 :: r') ++ [34]). rewrite rev_app_distr. reflexivity.
Qed.

Lemma comment_tok_shape c : comment_text_ok c = true -> tok_shape c = true.
Proof.
  intro H. destruct (comment_text_ok_spec c H) as (r & -> & _).
  unfold comment_text_ok in H. apply andb_true_iff in H as [H H3]. apply andb_true_iff in H as [_ H2].
  unfold tok_shape. change (is_space 47) with false. cbn [negb andb]. rewrite H2. cbn [andb]. exact H3.
Qed.

(* ---------- running the automaton over formatter output ---------- *)
Definition flows (ps : list piece) : Prop := forall a, prun a ps = Some PM.
Definition run_M (ps : list piece) : Prop := prun PM ps = Some PM.

Lemma flows_runM ps : flows ps -> run_M ps.
Proof. intro H. apply H. Qed.

Lemma runM_nil : run_M [].
Proof. reflexivity. Qed.

Lemma runM_app a b : run_M a -> run_M b -> run_M (a ++ b).
Proof. unfold run_M. intros Ha Hb. rewrite prun_app, Ha. exact Hb. Qed.

Lemma flows_app a b : flows a -> run_M b -> flows (a ++ b).
Proof. intros Ha Hb s. rewrite prun_app, Ha. exact Hb. Qed.

Lemma flows_T s : tok_shape s = true -> flows [T s].
Proof. intros H a. simpl. rewrite H. reflexivity. Qed.
Lemma flows_Q s : tok_shape s = true -> flows [Q s].
Proof. intros H a. simpl. rewrite H. reflexivity. Qed.
Lemma flows_Cm s : tok_shape s = true -> flows [Cm s].
Proof. intros H a. simpl. rewrite H. reflexivity. Qed.

Lemma flows_cons_T s ps : tok_shape s = true -> run_M ps -> flows (T s :: ps).
Proof. intros. change (T s :: ps) with ([T s] ++ ps). apply flows_app; auto using flows_T. Qed.

Lemma runM_T s ps : tok_shape s = true -> run_M ps -> run_M (T s :: ps).
Proof. intros. apply flows_runM, flows_cons_T; auto. Qed.

Lemma runM_Sp ps : flows ps -> run_M (Sp :: ps).
Proof. intro H. unfold run_M. simpl. apply H. Qed.

Lemma runM_flows ps qs : flows ps -> run_M qs -> run_M (ps ++ qs).
Proof. intros. apply runM_app; auto using flows_runM. Qed.

Lemma kw_shape : forall s, In s [k_lbr; k_rbr; k_lcu; k_rcu; k_lpa; k_rpa; k_colon; k_dot; k_dot3; k_declare; k_assign;
                                 k_true; k_false; k_if; k_else; k_end; k_while; k_for; k_range; k_return; k_break; k_func; k_on]
  -> tok_shape s = true.
Proof. intros s H. simpl in H. repeat (destruct H as [<-|H]; [reflexivity|]). contradiction. Qed.

Lemma op_shape o : tok_shape (op_str o) = true.
Proof. destruct o; reflexivity. Qed.

(* formatMultiline: from a counter >= 2 on the behaviour does not depend on the counter *)
Lemma fm_sat items : forall n, (2 <= n)%nat -> format_multiline_loop n items = format_multiline_loop 2 items.
Proof.
  induction items as [|m items IH]; intros n Hn; [reflexivity|].
  cbn [format_multiline_loop]. destruct (item_is_nl m).
  - assert (E1 : (S n <=? 2)%nat = false) by (apply Nat.leb_gt; lia).
    rewrite E1. change (3 <=? 2)%nat with false. cbn iota. rewrite (IH (S n)), (IH 3%nat) by lia. reflexivity.
  - reflexivity.
Qed.

(* the squeezed list never shows more than two newline "units" in a row *)
Fixpoint sq (n : nat) (items : list str) : bool :=
  match items with
  | [] => true
  | m :: r =>
      let n' := if item_is_nl m then S n else if item_is_comment m then 1%nat else 0%nat in
      (n' <=? 2)%nat && sq n' r
  end.

Lemma sq_fm items : forall n, (n <= 2)%nat -> sq n (format_multiline_loop n items) = true.
Proof.
  induction items as [|m items IH]; intros n Hn; [reflexivity|].
  cbn [format_multiline_loop].
  destruct (item_is_nl m) eqn:Enl.
  - destruct (S n <=? 2)%nat eqn:E.
    + cbn [sq]. rewrite Enl, E. cbn [andb]. apply IH. apply Nat.leb_le in E. exact E.
    + apply Nat.leb_gt in E. assert (n = 2)%nat by lia. subst n. rewrite (fm_sat items 3) by lia. apply IH. lia.
  - destruct (item_is_comment m) eqn:Ec.
    + change (1 <=? 2)%nat with true. cbn iota. cbn [sq]. rewrite Enl, Ec. change (1 <=? 2)%nat with true. cbn [andb]. apply IH. lia.
    + change (0 <=? 2)%nat with true. cbn iota. cbn [sq]. rewrite Enl, Ec. change (0 <=? 2)%nat with true. cbn [andb]. apply IH. lia.
Qed.

Lemma ws_ok_not_el m : item_ws_ok m = true -> item_is_nl m = false -> item_is_comment m = true.
Proof.
  unfold item_ws_ok. intros H Hn. rewrite Hn in H. simpl in H. apply andb_true_iff in H as [_ Hc].
  apply comment_text_ok_spec in Hc as (r & Hr & _).
  destruct m as [|a [|b [|c t]]]; try discriminate Hr.
  change (removelast (a :: b :: c :: t)) with (a :: b :: removelast (c :: t)) in Hr.
  injection Hr as -> -> _. reflexivity.
Qed.

Section Loops.
  Variable lvl : nat.   (* the literal's own level; items are written at S lvl *)

  (* state of the automaton in terms of formatMultiline's counter *)
  Definition inv (n : nat) (a : pst) (multi : list str) : Prop :=
    match n with
    | 0%nat => a = PM \/ (a = PS /\ next_not_nl multi = true)
    | S k => a = if next_not_nl multi then PI lvl k else PB k
    end.

  Definition ends_bol (a : pst) (multi : list str) : Prop :=
    match rev multi with
    | m :: _ => item_is_nl m = true \/ item_ws_ok m = true -> exists b, a = PB b
    | [] => True
    end.

  Lemma raw_item_run m n a rest :
    item_ws_ok m = true -> inv n a (m :: rest) ->
    (let n' := if item_is_nl m then S n else 1%nat in (n' <=? 2)%nat = true) ->
    exists b, prun a (raw_item m) = Some (PB b) /\
              (if item_is_nl m then S n else 1%nat) = S b.
  Proof.
    intros Hws Hinv Hn. unfold raw_item. destruct (item_is_nl m) eqn:Enl.
    - cbn zeta in Hn. apply Nat.leb_le in Hn.
      assert (Hnn : next_not_nl (m :: rest) = false) by (cbn [next_not_nl]; rewrite Enl; reflexivity).
      destruct n as [|k]; cbn [inv] in Hinv.
      + destruct Hinv as [->|[_ Hx]]; [|congruence]. exists 0%nat. split; reflexivity.
      + rewrite Hnn in Hinv. subst a. assert (k = 0)%nat by lia. subst k. exists 1%nat. split; reflexivity.
    - unfold item_ws_ok in Hws. rewrite Enl in Hws. simpl in Hws. apply andb_true_iff in Hws as [He Hc].
      rewrite He. exists 0%nat. split; [|reflexivity].
      cbn [prun pstep]. rewrite (comment_tok_shape _ Hc). reflexivity.
  Qed.

  Lemma arr_loop_run multi : forall els n a,
    sq n multi = true ->
    Forall (fun m => item_is_el m = true \/ item_ws_ok m = true) multi ->
    (List.length (filter item_is_el multi) <= List.length els)%nat ->
    Forall flows els ->
    inv n a multi ->
    exists a', prun a (arr_loop (S lvl) multi els) = Some a' /\ (multi <> [] -> ends_bol a' multi).
  Proof.
    induction multi as [|m rest IH]; intros els n a Hsq Hit Hlen Hels Hinv.
    - exists a. split; [reflexivity|]. intro H. contradiction.
    - inversion Hit as [|? ? Hm Hit']; subst. cbn [arr_loop].
      cbn [sq] in Hsq. apply andb_true_iff in Hsq as [Hn' Hsq'].
      destruct (item_is_el m) eqn:Eel.
      + (* an element *)
        assert (Enl : item_is_nl m = false).
        { destruct (item_is_nl m) eqn:E; auto. rewrite (item_nl_not_el m E) in Eel. discriminate. }
        assert (Ec : item_is_comment m = false).
        { unfold item_is_el in Eel. apply str_eqb_eq in Eel. subst m. reflexivity. }
        rewrite Enl, Ec in Hsq'.
        cbn [filter] in Hlen. rewrite Eel in Hlen. destruct els as [|e els']; [simpl in Hlen; lia|].
        inversion Hels as [|? ? He Hels']; subst.
        set (a1 := if next_not_nl rest then PS else PM).
        assert (H1 : prun a (e ++ (if next_not_nl rest then [Sp] else [])) = Some a1).
        { rewrite prun_app, He. unfold a1. destruct (next_not_nl rest); reflexivity. }
        destruct (IH els' 0%nat a1 Hsq' Hit') as (a' & Hrun & Hend).
        { simpl in Hlen. lia. } { exact Hels'. }
        { cbn [inv]. unfold a1. destruct (next_not_nl rest) eqn:E; [right; split; auto | left; reflexivity]. }
        exists a'. split.
        * rewrite app_assoc, prun_app, H1. exact Hrun.
        * intros _. unfold ends_bol. cbn [rev]. destruct rest as [|m2 rest'].
          -- cbn [rev app]. intros [Hx|Hx]; [congruence|]. apply ws_ok_not_key in Hx.
             unfold item_is_key in Hx. rewrite Enl, Ec in Hx. discriminate.
          -- assert (Hne : m2 :: rest' <> []) by discriminate. specialize (Hend Hne). unfold ends_bol in Hend.
             destruct (rev (m2 :: rest')) as [|x r] eqn:E.
             ++ apply (f_equal (@List.length str)) in E. rewrite rev_length in E. discriminate.
             ++ exact Hend.
      + (* a newline or a comment *)
        destruct Hm as [Hm|Hm]; [congruence|].
        assert (Hc : item_is_nl m = false -> item_is_comment m = true) by (apply ws_ok_not_el; exact Hm).
        set (n' := if item_is_nl m then S n else 1%nat).
        assert (En' : (if item_is_nl m then S n else if item_is_comment m then 1%nat else 0%nat) = n').
        { unfold n'. destruct (item_is_nl m); [reflexivity|]. rewrite Hc by reflexivity. reflexivity. }
        rewrite En' in Hn', Hsq'.
        destruct (raw_item_run m n a rest Hm Hinv Hn') as (b & Hraw & Hb). fold n' in Hb.
        set (a1 := if next_not_nl rest then PI lvl b else PB b).
        assert (H1 : prun a (raw_item m ++ (if next_not_nl rest then [Ind (S lvl)] else [])) = Some a1).
        { rewrite prun_app, Hraw. unfold a1. destruct (next_not_nl rest); reflexivity. }
        destruct (IH els n' a1 Hsq' Hit') as (a' & Hrun & Hend).
        { cbn [filter] in Hlen. rewrite Eel in Hlen. exact Hlen. } { exact Hels. }
        { rewrite Hb. cbn [inv]. reflexivity. }
        exists a'. split.
        * rewrite app_assoc, prun_app, H1. exact Hrun.
        * intros _. unfold ends_bol. cbn [rev]. destruct rest as [|m2 rest'].
          -- cbn [rev app]. intros _. cbn [arr_loop] in Hrun. unfold a1 in Hrun. cbn [next_not_nl] in Hrun.
             injection Hrun as <-. exists b. reflexivity.
          -- assert (Hne : m2 :: rest' <> []) by discriminate. specialize (Hend Hne). unfold ends_bol in Hend.
             destruct (rev (m2 :: rest')) as [|x r] eqn:E.
             ++ apply (f_equal (@List.length str)) in E. rewrite rev_length in E. discriminate.
             ++ exact Hend.
  Qed.
End Loops.

Lemma lookup_flows k kvs : In k (map fst kvs) -> Forall flows (map snd kvs) -> flows (lookup_pieces k kvs).
Proof.
  induction kvs as [|[k' v] t IH]; simpl; intros Hin Hall; [contradiction|].
  inversion Hall; subst. destruct (str_eqb k' k) eqn:E; auto.
  apply IH; auto. destruct Hin as [->|]; auto. rewrite str_eqb_refl in E. discriminate.
Qed.

Section Loops2.
  Variable lvl : nat.

  Lemma map_loop_run kvs multi : forall n a,
    sq n multi = true ->
    Forall (fun m => (item_is_key m = true /\ plain m = true /\ In m (map fst kvs)) \/ item_ws_ok m = true) multi ->
    Forall flows (map snd kvs) ->
    inv lvl n a multi ->
    exists a', prun a (map_loop (S lvl) multi kvs) = Some a' /\ (multi <> [] -> ends_bol a' multi).
  Proof.
    induction multi as [|m rest IH]; intros n a Hsq Hit Hkv Hinv.
    - exists a. split; [reflexivity|]. intro H. contradiction.
    - inversion Hit as [|? ? Hm Hit']; subst. cbn [map_loop].
      cbn [sq] in Hsq. apply andb_true_iff in Hsq as [Hn' Hsq'].
      destruct (item_is_key m) eqn:Ek.
      + destruct Hm as [(_ & Hp & Hin)|Hws]; [|apply ws_ok_not_key in Hws; congruence].
        assert (Ek' := Ek). unfold item_is_key in Ek'. apply andb_true_iff in Ek' as [Enl Ec].
        apply negb_true_iff in Enl, Ec. rewrite Enl, Ec in Hsq'.
        set (a1 := if next_not_nl rest then PS else PM).
        assert (H1 : prun a (([T m; T k_colon] ++ lookup_pieces m kvs) ++ (if next_not_nl rest then [Sp] else [])) = Some a1).
        { rewrite prun_app.
          assert (Hf : flows ([T m; T k_colon] ++ lookup_pieces m kvs)).
          { apply flows_app; [|apply flows_runM, lookup_flows; auto].
            intro s. simpl. rewrite (plain_tok_shape m Hp). reflexivity. }
          rewrite Hf. unfold a1. destruct (next_not_nl rest); reflexivity. }
        destruct (IH 0%nat a1 Hsq' Hit' Hkv) as (a' & Hrun & Hend).
        { cbn [inv]. unfold a1. destruct (next_not_nl rest) eqn:E; [right; split; auto | left; reflexivity]. }
        exists a'. split.
        * replace ([T m; T k_colon] ++ lookup_pieces m kvs ++ (if next_not_nl rest then [Sp] else []) ++ map_loop (S lvl) rest kvs)
            with ((([T m; T k_colon] ++ lookup_pieces m kvs) ++ (if next_not_nl rest then [Sp] else [])) ++ map_loop (S lvl) rest kvs)
            by (rewrite <- !app_assoc; reflexivity).
          rewrite prun_app, H1. exact Hrun.
        * intros _. unfold ends_bol. cbn [rev]. destruct rest as [|m2 rest'].
          -- cbn [rev app]. intros [Hx|Hx]; [congruence|]. apply ws_ok_not_key in Hx. congruence.
          -- assert (Hne : m2 :: rest' <> []) by discriminate. specialize (Hend Hne). unfold ends_bol in Hend.
             destruct (rev (m2 :: rest')) as [|x r] eqn:E.
             ++ apply (f_equal (@List.length str)) in E. rewrite rev_length in E. discriminate.
             ++ exact Hend.
      + destruct Hm as [(Hk' & _)|Hm]; [congruence|].
        assert (Hc : item_is_nl m = false -> item_is_comment m = true) by (apply ws_ok_not_el; exact Hm).
        set (n' := if item_is_nl m then S n else 1%nat).
        assert (En' : (if item_is_nl m then S n else if item_is_comment m then 1%nat else 0%nat) = n').
        { unfold n'. destruct (item_is_nl m); [reflexivity|]. rewrite Hc by reflexivity. reflexivity. }
        rewrite En' in Hn', Hsq'.
        destruct (raw_item_run lvl m n a rest Hm Hinv Hn') as (b & Hraw & Hb). fold n' in Hb.
        set (a1 := if next_not_nl rest then PI lvl b else PB b).
        assert (H1 : prun a (raw_item m ++ (if next_not_nl rest then [Ind (S lvl)] else [])) = Some a1).
        { rewrite prun_app, Hraw. unfold a1. destruct (next_not_nl rest); reflexivity. }
        destruct (IH n' a1 Hsq' Hit' Hkv) as (a' & Hrun & Hend).
        { rewrite Hb. cbn [inv]. reflexivity. }
        exists a'. split.
        * rewrite app_assoc, prun_app, H1. exact Hrun.
        * intros _. unfold ends_bol. cbn [rev]. destruct rest as [|m2 rest'].
          -- cbn [rev app]. intros _. cbn [map_loop] in Hrun. unfold a1 in Hrun. cbn [next_not_nl] in Hrun.
             injection Hrun as <-. exists b. reflexivity.
          -- assert (Hne : m2 :: rest' <> []) by discriminate. specialize (Hend Hne). unfold ends_bol in Hend.
             destruct (rev (m2 :: rest')) as [|x r] eqn:E.
             ++ apply (f_equal (@List.length str)) in E. rewrite rev_length in E. discriminate.
             ++ exact Hend.
  Qed.
End Loops2.

(* ---------- literals ---------- *)
Lemma comment_item_not_nl m : item_is_comment m = true -> item_is_nl m = false.
Proof. intro H. destruct (item_is_nl m) eqn:E; auto. rewrite (item_nl_not_comment m E) in H. discriminate. Qed.

Lemma el_not_comment m : item_is_el m = true -> item_is_comment m = false.
Proof. unfold item_is_el. intro H. apply str_eqb_eq in H. subst. reflexivity. Qed.

Lemma close_bracket_run lvl (cond : bool) a' close :
  tok_shape close = true ->
  (cond = true -> exists b, a' = PB b) ->
  prun a' ((if cond then [Ind lvl] else []) ++ [T close]) = Some PM.
Proof.
  intros Hc Hb. destruct cond.
  - destruct (Hb eq_refl) as (b & ->). destruct lvl; simpl; rewrite Hc; reflexivity.
  - simpl. rewrite Hc. reflexivity.
Qed.

Lemma last_cond_bol (fx : bool) a' multi (P : str -> Prop) :
  multi <> [] -> ends_bol a' multi ->
  Forall (fun m => P m \/ item_ws_ok m = true) multi ->
  (forall m, P m -> item_is_nl m = false /\ item_is_comment m = false) ->
  (if fx then last_is_nl_or_comment multi else last_is_nl multi) = true -> exists b, a' = PB b.
Proof.
  intros Hne Hend Hall HP Hcond. unfold ends_bol in Hend.
  unfold last_is_nl_or_comment, last_is_nl in Hcond.
  destruct (rev multi) as [|m r] eqn:E.
  - destruct fx; discriminate.
  - apply Hend.
    assert (Hin : In m multi). { apply in_rev. rewrite E. left. reflexivity. }
    pose proof (proj1 (Forall_forall _ _) Hall m Hin) as Hm.
    destruct Hm as [Hp|Hws]; [|right; exact Hws].
    destruct (HP m Hp) as [H1 H2]. destruct fx; rewrite ?H1, ?H2 in Hcond; discriminate.
Qed.

Lemma fmt_array_flows fx lvl items els :
  Forall (fun m => item_is_el m = true \/ item_ws_ok m = true) items ->
  (List.length (filter item_is_el items) <= List.length els)%nat ->
  Forall flows els ->
  flows (fmt_array fx lvl (format_multiline items) els).
Proof.
  intros Hit Hlen Hels a. unfold fmt_array.
  assert (Hit' : Forall (fun m => item_is_el m = true \/ item_ws_ok m = true) (format_multiline items))
    by (apply fm_loop_Forall; exact Hit).
  assert (Hlen' : (List.length (filter item_is_el (format_multiline items)) <= List.length els)%nat).
  { unfold format_multiline. rewrite fm_loop_filter by apply item_nl_not_el. exact Hlen. }
  assert (Hsq : sq 0 (format_multiline items) = true) by (apply sq_fm; lia).
  destruct (format_multiline items) as [|m0 multi'] eqn:E.
  - reflexivity.
  - set (multi := m0 :: multi') in *.
    set (a1 := if first_is_comment multi then PS else PM).
    assert (H1 : prun a ([T k_lbr] ++ (if first_is_comment multi then [Sp] else [])) = Some a1).
    { unfold a1, multi. cbn [first_is_comment]. destruct (item_is_comment m0); reflexivity. }
    destruct (arr_loop_run lvl multi els 0%nat a1 Hsq Hit' Hlen' Hels) as (a' & Hrun & Hend).
    { cbn [inv]. unfold a1, multi. cbn [first_is_comment next_not_nl].
      destruct (item_is_comment m0) eqn:Ec; [right; split; auto; rewrite (comment_item_not_nl m0 Ec); reflexivity | left; reflexivity]. }
    rewrite <- ?app_assoc. rewrite app_assoc. rewrite prun_app, H1. rewrite prun_app, Hrun.
    apply close_bracket_run; [apply kw_shape; simpl; tauto |].
    intro Hc. eapply (last_cond_bol fx a' multi (fun m => item_is_el m = true)); eauto.
    + discriminate.
    + apply Hend. discriminate.
    + intros m Hm. split; [destruct (item_is_nl m) eqn:En; auto; rewrite (item_nl_not_el m En) in Hm; discriminate | apply el_not_comment, Hm].
Qed.

Lemma fmt_map_flows fx lvl items kvs :
  Forall (fun m => (item_is_key m = true /\ plain m = true /\ In m (map fst kvs)) \/ item_ws_ok m = true) items ->
  Forall flows (map snd kvs) ->
  flows (fmt_map fx lvl (format_multiline items) kvs).
Proof.
  intros Hit Hkv a. unfold fmt_map.
  assert (Hit' : Forall (fun m => (item_is_key m = true /\ plain m = true /\ In m (map fst kvs)) \/ item_ws_ok m = true) (format_multiline items))
    by (apply fm_loop_Forall; exact Hit).
  assert (Hsq : sq 0 (format_multiline items) = true) by (apply sq_fm; lia).
  destruct (format_multiline items) as [|m0 multi'] eqn:E.
  - reflexivity.
  - set (multi := m0 :: multi') in *.
    set (a1 := if first_is_comment multi then PS else PM).
    assert (H1 : prun a ([T k_lcu] ++ (if first_is_comment multi then [Sp] else [])) = Some a1).
    { unfold a1, multi. cbn [first_is_comment]. destruct (item_is_comment m0); reflexivity. }
    destruct (map_loop_run lvl kvs multi 0%nat a1 Hsq Hit' Hkv) as (a' & Hrun & Hend).
    { cbn [inv]. unfold a1, multi. cbn [first_is_comment next_not_nl].
      destruct (item_is_comment m0) eqn:Ec; [right; split; auto; rewrite (comment_item_not_nl m0 Ec); reflexivity | left; reflexivity]. }
    rewrite <- ?app_assoc. rewrite app_assoc. rewrite prun_app, H1. rewrite prun_app, Hrun.
    apply close_bracket_run; [apply kw_shape; simpl; tauto |].
    intro Hc. eapply (last_cond_bol fx a' multi (fun m => item_is_key m = true /\ plain m = true /\ In m (map fst kvs))); eauto.
    + discriminate.
    + apply Hend. discriminate.
    + intros m (Hm & _). unfold item_is_key in Hm. apply andb_true_iff in Hm as [Hx Hy]. apply negb_true_iff in Hx, Hy. auto.
Qed.

(* ---------- expressions ---------- *)
Lemma Forall_map_flows {A} (f : A -> list piece) (wf : A -> bool) l :
  Forall (fun x => wf x = true -> flows (f x)) l -> forallb wf l = true -> Forall flows (map f l).
Proof.
  induction l as [|x l IH]; simpl; intros H Hw; [constructor|].
  inversion H; subst. apply andb_true_iff in Hw as [Hw1 Hw2]. constructor; auto.
Qed.

Lemma runM_args (f : fexpr -> list piece) args :
  Forall (fun a => flows (f a)) args -> run_M (flat_map (fun a => Sp :: f a) args).
Proof.
  induction args as [|x l IH]; simpl; intro H; [apply runM_nil|]. inversion H; subst.
  change (Sp :: f x ++ flat_map (fun a => Sp :: f a) l) with ((Sp :: f x) ++ flat_map (fun a => Sp :: f a) l).
  apply runM_app; auto. apply runM_Sp; auto.
Qed.

Lemma tyname_runM n ps : run_M ps -> run_M (tyname_pieces n ++ ps).
Proof. intro H. destruct n; simpl; repeat (apply runM_T; [reflexivity|]); exact H. Qed.

Fixpoint fmt_type_runM (t : fty) ps : run_M ps -> run_M (fmt_type t ++ ps).
Proof.
  intro H. destruct t as [n sub]. cbn [fmt_type]. rewrite <- app_assoc. apply tyname_runM.
  destruct sub as [s|]; [apply fmt_type_runM, H | exact H].
Qed.

Lemma write_decl_runM n t ps : plain n = true -> run_M ps -> run_M (write_decl n t ++ ps).
Proof.
  intros Hn H. unfold write_decl. rewrite <- app_assoc. cbn [app].
  apply runM_T; [apply plain_tok_shape, Hn|]. apply runM_T; [reflexivity|]. apply fmt_type_runM, H.
Qed.

Lemma write_wss_runM w ps : flows ps -> run_M (write_wss w ++ ps).
Proof. intro H. destruct w; cbn [write_wss app]; [apply flows_runM, H | apply runM_Sp, H]. Qed.

Section Exprs.
  Variable fx : fixes.

  Lemma flows_expr e : forall lvl, wf_expr e = true -> flows (fmt_expr fx lvl e).
  Proof.
    induction e as [n|b t|v q|b|e IH|items els IH|items keys vals IH|n args IH|op r IH|op w l r IHl IHr|l i IHl IHi|l s e IHl IHs IHe|l k IHl|l t IHl|e IH] using fexpr_ind';
      intros lvl Hwf; cbn [fmt_expr]; cbn [wf_expr] in Hwf.
    - apply flows_T, plain_tok_shape, Hwf.
    - apply flows_T, plain_tok_shape, Hwf.
    - apply flows_Q, quoted_tok_shape, Hwf.
    - destruct b; apply flows_T; reflexivity.
    - auto.
    - apply andb_true_iff in Hwf as [Hwf Hels]. apply andb_true_iff in Hwf as [Hit Hlen].
      apply Nat.eqb_eq in Hlen. apply fmt_array_flows.
      + apply forallb_Forall in Hit. eapply Forall_impl; [|exact Hit]. intros m Hm. simpl in Hm. apply orb_true_iff in Hm. exact Hm.
      + rewrite map_length. lia.
      + apply (Forall_map_flows (fmt_expr fx (S lvl)) wf_expr); auto.
        eapply Forall_impl; [|exact IH]. intros a Ha. apply Ha.
    - repeat (apply andb_true_iff in Hwf as [Hwf ?]).
      match goal with Hl : (_ =? _)%nat = true |- _ => apply Nat.eqb_eq in Hl; rename Hl into Hlen end.
      destruct (list_eq_dec str_eq_dec (filter item_is_key items) keys) as [Hk|]; [|discriminate].
      assert (Hl2 : List.length keys = List.length (map (fmt_expr fx (S lvl)) vals)) by (rewrite map_length; exact Hlen).
      apply fmt_map_flows.
      + rewrite map_fst_combine by exact Hl2. apply Forall_forall. intros m Hin.
        assert (Hm := proj1 (forallb_forall _ _) Hwf m Hin). simpl in Hm.
        apply orb_true_iff in Hm as [Hm|Hm]; [left|right; exact Hm].
        apply andb_true_iff in Hm as [Hk1 Hp]. repeat split; auto.
        rewrite <- Hk. apply filter_In. split; auto.
      + rewrite map_snd_combine by exact Hl2.
        apply (Forall_map_flows (fmt_expr fx (S lvl)) wf_expr); auto.
        eapply Forall_impl; [|exact IH]. intros a Ha. apply Ha.
    - apply andb_true_iff in Hwf as [Hn Hargs]. apply flows_cons_T; [apply plain_tok_shape, Hn|].
      apply runM_args. apply Forall_forall. intros a Hin.
      apply (proj1 (Forall_forall _ _) IH a Hin). apply (proj1 (forallb_forall _ _) Hargs a Hin).
    - apply andb_true_iff in Hwf as [_ Hr]. apply flows_cons_T; [apply op_shape | apply flows_runM; auto].
    - apply andb_true_iff in Hwf as [Hl Hr]. apply flows_app; auto.
      destruct w; cbn [write_wss app].
      + apply runM_T; [apply op_shape | apply flows_runM; auto].
      + apply runM_Sp. apply flows_cons_T; [apply op_shape|]. apply runM_Sp; auto.
    - apply andb_true_iff in Hwf as [Hl Hr]. apply flows_app; auto.
      apply runM_T; [reflexivity|]. apply runM_flows; auto. apply runM_T; [reflexivity | apply runM_nil].
    - apply andb_true_iff in Hwf as [Hwf He]. apply andb_true_iff in Hwf as [Hl Hs].
      apply flows_app; auto. apply runM_T; [reflexivity|].
      apply runM_app; [destruct s as [x|]; [apply flows_runM, (IHs x eq_refl); auto | apply runM_nil]|].
      apply runM_T; [reflexivity|].
      apply runM_app; [destruct e as [x|]; [apply flows_runM, (IHe x eq_refl); auto | apply runM_nil]|].
      apply runM_T; [reflexivity | apply runM_nil].
    - apply andb_true_iff in Hwf as [Hl Hk]. apply flows_app; auto.
      apply runM_T; [reflexivity|]. apply runM_T; [apply plain_tok_shape, Hk | apply runM_nil].
    - apply flows_app; auto. apply runM_T; [reflexivity|]. apply runM_T; [reflexivity|].
      apply fmt_type_runM. apply runM_T; [reflexivity | apply runM_nil].
    - apply flows_cons_T; [reflexivity|]. apply runM_flows; auto. apply runM_T; [reflexivity | apply runM_nil].
  Qed.
End Exprs.

(* ---------- statements ---------- *)
Definition after_bol (ps : list piece) : Prop := forall b, prun (PB b) ps = Some PM.

Lemma after_bol_Ind lvl ps : flows ps -> after_bol (Ind lvl :: ps).
Proof. intros H b. destruct lvl; simpl; apply H. Qed.

Lemma comment_ok_shape c : comment_ok c = true -> is_empty c = false -> tok_shape (trim c) = true.
Proof. intros H E. apply comment_tok_shape, comment_ok_nonempty; auto. Qed.

Lemma wc_runM c ps : comment_ok c = true -> run_M ps -> run_M (write_comment c ++ ps).
Proof.
  intros H Hp. unfold write_comment. destruct (is_empty c) eqn:E; cbn [app]; [exact Hp|].
  apply runM_Sp. intro a. simpl. rewrite (comment_ok_shape c H E). exact Hp.
Qed.

Lemma flows_decl n t ps : plain n = true -> run_M ps -> flows (write_decl n t ++ ps).
Proof.
  intros Hn H. unfold write_decl. rewrite <- app_assoc. cbn [app].
  apply flows_cons_T; [apply plain_tok_shape, Hn|]. apply runM_T; [reflexivity|]. apply fmt_type_runM, H.
Qed.

Lemma params_runM ps rest : wf_params ps = true -> run_M rest -> run_M (fmt_params ps ++ rest).
Proof.
  intros H Hr. apply runM_app; auto. unfold fmt_params.
  induction ps as [|p ps IH]; [apply runM_nil|]. cbn [flat_map]. cbn [wf_params forallb] in H.
  apply andb_true_iff in H as [H1 H2].
  change (Sp :: write_decl (fst p) (snd p) ++ flat_map (fun p0 => Sp :: write_decl (fst p0) (snd p0)) ps)
    with ((Sp :: write_decl (fst p) (snd p)) ++ flat_map (fun p0 => Sp :: write_decl (fst p0) (snd p0)) ps).
  apply runM_app; [|apply IH, H2]. apply runM_Sp.
  rewrite <- (app_nil_r (write_decl _ _)). apply flows_decl; [exact H1 | apply runM_nil].
Qed.

Section Stmts.
  Variable fx : fixes.

  Lemma args_runM lvl args ps : forallb wf_expr args = true -> run_M ps ->
    run_M (flat_map (fun a => Sp :: fmt_expr fx lvl a) args ++ ps).
  Proof.
    intros H Hp. apply runM_app; auto. apply runM_args. apply Forall_forall. intros a Hin.
    apply flows_expr. apply (proj1 (forallb_forall _ _) H a Hin).
  Qed.

  Lemma range_flows lvl r ps : wf_range r = true -> run_M ps -> flows (fmt_range fx lvl r ++ ps).
  Proof.
    intros H Hp. destruct r as [a b c|e]; cbn [fmt_range wf_range] in *.
    - apply andb_true_iff in H as [H Hc]. apply andb_true_iff in H as [Ha Hb].
      assert (Htail : run_M (match c with Some x => Sp :: fmt_expr fx lvl x | None => [] end ++ ps)).
      { destruct c; cbn [app]; [apply runM_Sp, flows_app; [apply flows_expr, Hc | exact Hp] | exact Hp]. }
      destruct a as [x|]; rewrite <- ?app_assoc; cbn [app].
      + apply flows_app; [apply flows_expr, Ha|]. apply runM_Sp. apply flows_app; [apply flows_expr, Hb | exact Htail].
      + apply flows_app; [apply flows_expr, Hb | exact Htail].
    - apply flows_app; [apply flows_expr, H | exact Hp].
  Qed.

  Definition stmt_flowsP (s : fstmt) : Prop :=
    forall lvl, wf_stmt s = true -> is_blank s = false -> flows (fmt_stmt fx lvl s).

  (* writeStmts followed by something that starts a line *)
  Lemma body_run lvl lvl'' body k : Forall stmt_flowsP body -> forallb wf_stmt body = true -> after_bol k ->
    forall e b, (e = false -> b = 0%nat) ->
    prun (PB b) (stmts_loop (S lvl) e (map (fun x => (is_blank x, fmt_stmt fx lvl'' x)) body) ++ k) = Some PM.
  Proof.
    intros HF Hwf Hk. induction body as [|s body IH]; intros e b Heb; cbn [map stmts_loop app]; [apply Hk|].
    inversion HF as [|? ? Hs HF']; subst. cbn [forallb] in Hwf. apply andb_true_iff in Hwf as [Hw1 Hw2].
    destruct (is_blank s) eqn:Eb.
    - destruct e; cbn [app].
      + apply IH; auto; try (intro; discriminate).
      + rewrite (Heb eq_refl). cbn [prun pstep]. apply IH; auto; try (intro; discriminate).
    - cbn [app]. rewrite <- app_assoc. cbn [prun pstep]. rewrite prun_app, (Hs lvl'' Hw1 Eb). cbn [app prun pstep].
      apply IH; auto.
  Qed.

  Lemma K3 lvl body k : Forall stmt_flowsP body -> forallb wf_stmt body = true -> after_bol k ->
    run_M (NL :: stmts_loop (S lvl) false (map (fun x => (is_blank x, fmt_stmt fx (S lvl) x)) body) ++ k).
  Proof. intros. unfold run_M. cbn [prun pstep]. apply body_run; auto. Qed.

  Ltac shp := first [reflexivity | apply plain_tok_shape; assumption].

  Ltac fl1 :=
    lazymatch goal with
    | |- flows (T _ :: _) => apply flows_cons_T; [shp|]
    | |- flows (fmt_expr _ _ _ ++ _) => apply flows_app; [apply flows_expr; assumption|]
    | |- flows (write_decl _ _ ++ _) => apply flows_decl; [assumption|]
    | |- flows (fmt_range _ _ _ ++ _) => apply range_flows; [assumption|]
    | |- run_M [] => apply runM_nil
    | |- run_M (T _ :: _) => apply runM_T; [shp|]
    | |- run_M (Sp :: _) => apply runM_Sp
    | |- run_M (fmt_expr _ _ _ ++ _) => apply runM_flows; [apply flows_expr; assumption|]
    | |- run_M (write_comment _ ++ _) => apply wc_runM; [assumption|]
    | |- run_M (NL :: stmts_loop _ _ _ ++ _) => apply K3; [assumption | assumption |]
    | |- run_M (fmt_type _ ++ _) => apply fmt_type_runM
    | |- run_M (fmt_params _ ++ _) => apply params_runM; [assumption|]
    | |- run_M (flat_map (fun a => Sp :: fmt_expr _ _ a) _ ++ _) => apply args_runM; [assumption|]
    | |- after_bol (Ind _ :: _) => apply after_bol_Ind
    end.
  Ltac fl := repeat fl1.

  Ltac split_wf :=
    repeat match goal with
           | H : _ && _ = true |- _ => apply andb_true_iff in H; destruct H
           end.
  Ltac norm := repeat (progress (rewrite <- ?app_assoc; cbn [app])).

  Lemma flows_stmt s : stmt_flowsP s.
  Proof.
    induction s as [c|n t c|n v c|t v c|n a c|v c|c|ifb elifs els cend IHif IHelifs IHels
                   |cond ch body ce IHb|lv r ch body ce IHb|n rt ps v ch body ce IHb|n ps ch body ce IHb]
      using fstmt_ind'; intros lvl Hwf Hnb; cbn [fmt_stmt]; unfold fmt_call; cbn [wf_stmt] in Hwf.
    - cbn [is_blank] in Hnb. unfold write_comment_empty. rewrite Hnb. apply flows_Cm, comment_ok_shape; auto.
    - split_wf. rewrite <- (app_nil_r (write_comment c)). norm. fl.
    - split_wf. rewrite <- (app_nil_r (write_comment c)). norm. fl.
    - split_wf. rewrite <- (app_nil_r (write_comment c)). norm. fl.
    - split_wf. rewrite <- (app_nil_r (write_comment c)). norm. fl.
    - split_wf. rewrite <- (app_nil_r (write_comment c)). destruct v; norm; fl.
    - rewrite <- (app_nil_r (write_comment c)). norm. fl.
    - (* if *)
      destruct ifb as [cond c body]. split_wf. cbn [Pblock] in IHif.
      rewrite <- (app_nil_r (write_comment cend)). norm. fl.
      match goal with |- after_bol (flat_map ?f elifs ++ ?r) =>
        assert (Hel : forall k, after_bol k -> after_bol (flat_map f elifs ++ k)) end.
      { match goal with H : forallb _ elifs = true |- _ => rename H into Helifs end.
        clear - IHelifs Helifs.
        induction elifs as [|cb elifs IHl]; intros k Hk; cbn [flat_map app]; [exact Hk|].
        inversion IHelifs as [|? ? Hcb Hrest]; subst. cbn [forallb] in Helifs.
        apply andb_true_iff in Helifs as [Hw1 Hw2].
        destruct cb as [cond0 c0 body0]. cbn [Pblock] in Hcb. split_wf.
        norm. fl. apply IHl; auto. }
      apply Hel.
      destruct els as [[c0 body0]|].
      + specialize (IHels c0 body0 eq_refl). split_wf. norm. fl.
      + cbn [app]. fl.
    - split_wf. rewrite <- (app_nil_r (write_comment ce)). norm. fl.
    - split_wf. rewrite <- (app_nil_r (write_comment ce)). destruct lv; norm; fl.
    - split_wf. rewrite <- (app_nil_r (write_comment ce)). destruct rt, v; norm; fl.
    - split_wf. rewrite <- (app_nil_r (write_comment ce)). norm. fl.
  Qed.
End Stmts.

(* ---------- the program ---------- *)
Lemma is_blank_kind s : is_blank s = true <-> stmt_kind s = KEmpty.
Proof.
  destruct s; simpl; split; intro H; try discriminate; try reflexivity.
  - rewrite H. reflexivity.
  - destruct (is_empty c); [reflexivity | discriminate].
Qed.

Section Prog.
  Variable fx : fixes.

  Lemma prog_loop_run nl l : forall i e b,
    forallb wf_stmt l = true ->
    (b <= 1)%nat ->
    (b = 1%nat -> e = true \/ match l with s :: _ => is_blank s = false | [] => True end) ->
    (forall j s', mem_nat (i + j) nl = true -> nth_error l (S j) = Some s' -> is_blank s' = false) ->
    exists b', prun (PB b) (prog_loop fx nl i e l) = Some (PB b').
  Proof.
    induction l as [|s l IH]; intros i e b Hwf Hb1 Hb Hnl; cbn [prog_loop]; [exists b; reflexivity|].
    cbn [forallb] in Hwf. apply andb_true_iff in Hwf as [Hw1 Hw2].
    assert (Hnl' : forall j s', mem_nat (S i + j) nl = true -> nth_error l (S j) = Some s' -> is_blank s' = false).
    { intros j s' Hm Hn. apply (Hnl (S j) s'); [replace (i + S j)%nat with (S i + j)%nat by lia; exact Hm | exact Hn]. }
    destruct (is_blank s) eqn:Eb.
    - destruct e; cbn [app].
      + apply (IH (S i) true b); auto.
      + assert (b = 0)%nat.
        { destruct b as [|[|b]]; [reflexivity | | lia]. destruct (Hb eq_refl) as [Hx|Hx]; congruence. }
        subst b. cbn [prun pstep]. apply (IH (S i) true 1%nat); auto.
    - cbn [app]. cbn [prun pstep]. rewrite prun_app.
      rewrite (flows_stmt fx s 0%nat Hw1 Eb (PB b)). cbn [app prun pstep].
      destruct (mem_nat i nl) eqn:Em; cbn [app prun pstep].
      + apply (IH (S i) false 1%nat); auto. intros _. right.
        destruct l as [|s2 l']; [exact I|]. apply (Hnl 0%nat s2); [rewrite Nat.add_0_r; exact Em | reflexivity].
      + apply (IH (S i) false 0%nat); auto; try lia; try (intro; discriminate).
  Qed.

  Lemma fmt_prog_run p : wf_prog p = true -> exists a', prun (PB 0) (fmt_prog fx p) = Some a'.
  Proof.
    intro Hwf. unfold fmt_prog. destruct p as [|s p]; [exists (PB 1); reflexivity|].
    destruct (prog_loop_run (nl_after (fix_nl fx) (map stmt_kind (s :: p))) (s :: p) 0%nat false 0%nat Hwf) as (b' & Hb'); try lia.
    - intros j s' Hm Hn. cbn [Nat.add] in Hm.
      destruct (nl_after_next_nonblank (fix_nl fx) (map stmt_kind (s :: p)) j Hm) as (k & Hk & Hne).
      rewrite nth_error_map, Hn in Hk. simpl in Hk. injection Hk as <-.
      destruct (is_blank s') eqn:E; [|reflexivity]. apply is_blank_kind in E. congruence.
    - exists (PB b'). exact Hb'.
  Qed.

  (* C07: shape of the output, for every well-formed tree *)
  Theorem format_shape p : wf_prog p = true -> shape_lines (format fx p) = true.
  Proof.
    intro Hwf. destruct (fmt_prog_run p Hwf) as (a' & Ha'). unfold format. eapply prun_shape, Ha'.
  Qed.
End Prog.

(* ---------- the final newline ---------- *)
Definition inv_txt (a : pst) (s : str) : Prop :=
  match a with
  | PM => exists s' c, s = s' ++ [c] /\ (c =? 10) = false
  | PB 0 => s = [] \/ exists s' c, s = s' ++ [c; 10] /\ (c =? 10) = false
  | _ => True
  end.

Lemma tok_shape_last s : tok_shape s = true -> exists s' c, s = s' ++ [c] /\ (c =? 10) = false.
Proof.
  unfold tok_shape. destruct s as [|c0 s0]; [discriminate|]. intro H.
  apply andb_true_iff in H as [_ H]. destruct (rev (c0 :: s0)) as [|x r] eqn:E; [discriminate|].
  apply negb_true_iff in H. exists (rev r), x. split.
  - rewrite <- (rev_involutive (c0 :: s0)), E. reflexivity.
  - apply (space_not_nl x H).
Qed.

Lemma pstep_inv_txt a p a' s : inv_txt a s -> pstep a p = Some a' -> inv_txt a' (s ++ render1 p).
Proof.
  intros Hi Hp. destruct p as [t|t|t| | |n]; cbn [pstep render1] in *.
  1-3: destruct (tok_shape t) eqn:E; [|discriminate]; injection Hp as <-;
       destruct (tok_shape_last t E) as (s' & c & -> & Hc); exists (s ++ s'), c; rewrite app_assoc; auto.
  - destruct a; try discriminate; injection Hp as <-; exact I.
  - destruct a as [[|[|b]]|? ?| |]; try discriminate; injection Hp as <-; try exact I.
    cbn [inv_txt] in Hi |- *. destruct Hi as (s' & c & -> & Hc). right. exists s', c. rewrite <- app_assoc. auto.
  - destruct n as [|n].
    + injection Hp as <-. cbn [spaces Nat.mul repeat]. rewrite app_nil_r. exact Hi.
    + destruct a; try discriminate. injection Hp as <-. exact I.
Qed.

Lemma prun_inv_txt ps : forall a a' s, inv_txt a s -> prun a ps = Some a' -> inv_txt a' (s ++ render ps).
Proof.
  induction ps as [|p ps IH]; intros a a' s Hi Hr.
  - injection Hr as <-. unfold render; simpl. rewrite app_nil_r. exact Hi.
  - cbn [prun] in Hr. destruct (pstep a p) as [a1|] eqn:E; [|discriminate].
    rewrite render_cons, app_assoc. apply (IH a1 a'); auto. apply (pstep_inv_txt a p a1 s Hi E).
Qed.

Lemma ends_one_nl_snoc s c : (c =? 10) = false -> ends_one_nl (s ++ [c; 10]) = true.
Proof. intro H. unfold ends_one_nl. rewrite rev_app_distr. simpl. rewrite H. reflexivity. Qed.

Section Final.
  Variable fx : fixes.

  Lemma prog_loop_final nl l : forall i e b,
    forallb wf_stmt l = true ->
    l <> [] -> is_blank (last l (SEmpty [])) = false ->
    (b <= 1)%nat ->
    (b = 1%nat -> e = true \/ match l with s :: _ => is_blank s = false | [] => True end) ->
    (forall j s', mem_nat (i + j) nl = true -> nth_error l (S j) = Some s' -> is_blank s' = false) ->
    (forall j, mem_nat (i + j) nl = true -> (S j < List.length l)%nat) ->
    prun (PB b) (prog_loop fx nl i e l) = Some (PB 0).
  Proof.
    induction l as [|s l IH]; intros i e b Hwf Hne Hlast Hb1 Hb Hnl Hsucc; [contradiction|].
    cbn [prog_loop]. cbn [forallb] in Hwf. apply andb_true_iff in Hwf as [Hw1 Hw2].
    assert (Hnl' : forall j s', mem_nat (S i + j) nl = true -> nth_error l (S j) = Some s' -> is_blank s' = false).
    { intros j s' Hm Hn. apply (Hnl (S j) s'); [replace (i + S j)%nat with (S i + j)%nat by lia; exact Hm | exact Hn]. }
    assert (Hsucc' : forall j, mem_nat (S i + j) nl = true -> (S j < List.length l)%nat).
    { intros j Hm. assert (H := Hsucc (S j)). replace (i + S j)%nat with (S i + j)%nat in H by lia. specialize (H Hm). simpl in H. lia. }
    destruct l as [|s2 l'].
    - (* the last statement *)
      cbn [last] in Hlast. rewrite Hlast. cbn [app prog_loop]. cbn [prun pstep]. rewrite prun_app.
      rewrite (flows_stmt fx s 0%nat Hw1 Hlast (PB b)). cbn [app prun pstep].
      destruct (mem_nat i nl) eqn:Em.
      + exfalso. assert (H := Hsucc 0%nat). rewrite Nat.add_0_r in H. specialize (H Em). simpl in H. lia.
      + reflexivity.
    - assert (Hlast' : is_blank (last (s2 :: l') (SEmpty [])) = false) by exact Hlast.
      assert (Hne' : s2 :: l' <> []) by discriminate.
      destruct (is_blank s) eqn:Eb.
      + destruct e; cbn [app].
        * apply (IH (S i) true b); auto.
        * assert (b = 0)%nat.
          { destruct b as [|[|b]]; [reflexivity | | lia]. destruct (Hb eq_refl) as [Hx|Hx]; congruence. }
          subst b. cbn [prun pstep]. apply (IH (S i) true 1%nat); auto.
      + cbn [app]. cbn [prun pstep]. rewrite prun_app.
        rewrite (flows_stmt fx s 0%nat Hw1 Eb (PB b)). cbn [app prun pstep].
        destruct (mem_nat i nl) eqn:Em; cbn [app prun pstep].
        * apply (IH (S i) false 1%nat); auto. intros _. right.
          apply (Hnl 0%nat s2); [rewrite Nat.add_0_r; exact Em | reflexivity].
        * apply (IH (S i) false 0%nat); auto; try lia; try (intro; discriminate).
  Qed.

  (* exactly one final newline when the last statement is not a blank line *)
  Theorem format_single_final_newline p : wf_prog p = true -> p <> [] ->
    is_blank (last p (SEmpty [])) = false -> ends_one_nl (format fx p) = true.
  Proof.
    intros Hwf Hne Hlast. unfold format, fmt_prog. destruct p as [|s p]; [contradiction|].
    set (nl := nl_after (fix_nl fx) (map stmt_kind (s :: p))).
    assert (Hrun : prun (PB 0) (prog_loop fx nl 0 false (s :: p)) = Some (PB 0)).
    { apply prog_loop_final; auto; try lia.
      - intros j s' Hm Hn. cbn [Nat.add] in Hm.
        destruct (nl_after_next_nonblank (fix_nl fx) (map stmt_kind (s :: p)) j Hm) as (k & Hk & Hne').
        rewrite nth_error_map, Hn in Hk. simpl in Hk. injection Hk as <-.
        destruct (is_blank s') eqn:E; [|reflexivity]. apply is_blank_kind in E. congruence.
      - intros j Hm. cbn [Nat.add] in Hm.
        destruct (nl_after_next_nonblank (fix_nl fx) (map stmt_kind (s :: p)) j Hm) as (k & Hk & _).
        assert (Hx : nth_error (map stmt_kind (s :: p)) (S j) <> None) by congruence.
        apply nth_error_Some in Hx. rewrite map_length in Hx. exact Hx. }
    pose proof (prun_inv_txt _ (PB 0) (PB 0) [] (or_introl eq_refl) Hrun) as Hi.
    cbn [app inv_txt] in Hi. destruct Hi as [Hi|(s' & c & -> & Hc)].
    - (* the text is not empty *)
      exfalso. cbn [prog_loop] in Hi. destruct (is_blank s).
      + cbn [app] in Hi. rewrite render_cons in Hi. cbn [render1 app] in Hi. discriminate Hi.
      + cbn [app] in Hi. rewrite render_cons, render_app in Hi. cbn [render1 spaces Nat.mul repeat app] in Hi.
        rewrite render_cons in Hi. cbn [render1 app] in Hi.
        destruct (render (fmt_stmt fx 0 s)); discriminate Hi.
    - apply ends_one_nl_snoc, Hc.
  Qed.
End Final.

(* ---------- `evy fmt --check` ---------- *)
Lemma fmt_check_iff parse fx t :
  fmt_check parse fx t = true <-> exists p, parse t = Some p /\ t = format fx p.
Proof.
  unfold fmt_check. destruct (parse t) as [p|].
  - destruct (str_eq_dec t (format fx p)) as [E|E]; split.
    + intros _. exists p. auto.
    + reflexivity.
    + discriminate.
    + intros (p' & Hp & Ht). injection Hp as <-. contradiction.
  - split; [discriminate | intros (p & Hp & _); discriminate].
Qed.

(* the check accepts the formatter's output iff formatting is idempotent on it *)
Lemma check_accepts_own_output parse fx p p' :
  parse (format fx p) = Some p' ->
  (fmt_check parse fx (format fx p) = true <-> format fx p' = format fx p).
Proof.
  intro Hp. rewrite fmt_check_iff. split.
  - intros (q & Hq & Ht). rewrite Hp in Hq. injection Hq as <-. symmetry. exact Ht.
  - intro H. exists p'. split; [exact Hp | symmetry; exact H].
Qed.
