(* LocalInitProofs.v — linit_check is sound: on a well-formed program it
   accepts, the VM model never executes an OpGetLocal on a slot that no
   executed OpSetLocal has written. *)
From Coq Require Import ZArith NArith List Bool Lia FMapPositive.
From EvyV Require Import Base Bytecode BytecodeProofs Vm VmProofs LocalInit.
Require Import EvyV.Gen.Opcodes.
Import ListNotations.
Open Scope N_scope.

(* ---------- the declarative judgment ---------- *)
Definition LINIT (bc : bcinfo) : Prop :=
  exists (instrs : list (N * instr)) (c : N -> option (list N)),
    decode_all (bcode bc) = Some instrs /\
    (instrs <> [] -> c 0 = Some []) /\
    forall pc i w, In (pc, i) instrs -> c pc = Some w ->
      (opc_of_N (iop i) = Some GetLocal -> In (arg0 i) w) /\
      forall t, In t (lsuccs pc i) ->
        t = codelen bc \/ exists w', c t = Some w' /\ incl w' (lout i w).

Lemma lmem_in a l : lmem a l = true <-> In a l.
Proof.
  unfold lmem. rewrite existsb_exists. split.
  - intros (x & HI & E). apply N.eqb_eq in E. subst. exact HI.
  - intro HI. exists a. split; [exact HI|apply N.eqb_refl].
Qed.

Lemma lsubset_incl x y : lsubset x y = true -> incl x y.
Proof. unfold lsubset. rewrite forallb_forall. intros H a HI. apply lmem_in. apply H. exact HI. Qed.

Theorem linit_check_sound : forall bc, linit_check bc = true -> LINIT bc.
Proof.
  intros bc H. unfold linit_check in H. destruct (decode_all (bcode bc)) as [instrs|] eqn:ED; [|discriminate].
  set (m := linit_sets bc instrs) in *. unfold linit_verify in H. apply andb_true_iff in H. destruct H as [H0 H1].
  exists instrs, (fun pc => cfind pc m). split; [exact ED|]. split.
  - intro NE. destruct instrs as [|x t]; [congruence|]. destruct (cfind 0 m) as [[|a l]|]; try discriminate. reflexivity.
  - intros pc i w HI Hc. rewrite forallb_forall in H1. specialize (H1 _ HI). unfold lcheck_instr in H1. rewrite Hc in H1.
    apply andb_true_iff in H1. destruct H1 as [G S]. split.
    + intro HO. rewrite HO in G. apply lmem_in. exact G.
    + intros t Ht. rewrite forallb_forall in S. specialize (S _ Ht). apply orb_true_iff in S. destruct S as [S|S].
      * left. apply N.eqb_eq in S. exact S.
      * right. destruct (cfind t m) as [w'|]; [|discriminate]. exists w'. split; [reflexivity|apply lsubset_incl; exact S].
Qed.

(* ---------- the run, with the set of slots written so far ---------- *)
Definition fetch (p : program) (s : vmstate) : option instr :=
  option_map fst (decode1 (skipn (N.to_nat (ip s)) (pcode p))).

Definition wstep (p : program) (s : vmstate) (w : list N) : list N :=
  match fetch p s with Some i => lout i w | None => w end.

Inductive reach_w (p : program) : vmstate -> list N -> Prop :=
| rw_init : reach_w p (vm_init p) []
| rw_step s w s' : reach_w p s w -> vm_step p s = Running s' -> reach_w p s' (wstep p s w)
(* as in reachable_h: the contents of arrays and maps may change behind the model's back *)
| rw_heap s w s' : reach_w p s w -> perturbed s s' -> reach_w p s' w.

Lemma reach_w_reachable_h p s w : reach_w p s w -> reachable_h p s.
Proof. induction 1; [constructor|eapply rh_step; eauto|eapply rh_heap; eauto]. Qed.

(* where one step of the machine can go *)
Lemma with_stack_ip s next stk s' : with_stack s next stk = Running s' -> ip s' = next.
Proof. unfold with_stack. destruct (_ <? _); [discriminate|]. intro H. inversion H. reflexivity. Qed.

Lemma exec_ip p s o arg next s' : exec p s o arg next = Running s' ->
  (o <> Jump /\ ip s' = next) \/ ((o = Jump \/ o = JumpOnFalse) /\ ip s' = arg).
Proof.
  intro H. unfold exec in H.
  destruct o;
    try (destruct (simple_effect _ arg) as [[pn q]|]; [|discriminate]);
    repeat (match type of H with
            | context [match ?x with _ => _ end] => destruct x; try discriminate
            | context [if ?c then _ else _] => destruct c; try discriminate
            end);
    try (left; split; [discriminate|apply (with_stack_ip _ _ _ _ H)]);
    try (inversion H; subst; cbn [ip]; first [left; split; [discriminate|reflexivity]
                                            |right; split; [left; reflexivity|reflexivity]
                                            |right; split; [right; reflexivity|reflexivity]]).
Qed.

(* one step of the machine from a state satisfying the safety invariant goes to a
   static successor of the instruction at ip *)
Lemma step_succ p instrs h s s' :
  decode_all (pcode p) = Some instrs ->
  (forall pc a, h pc = Some a ->
     exists i succs, In (pc, i) instrs /\ xfer (plcount p) pc i a = Some succs /\
       forall t a', In (t, a') succs ->
         (t = codelen (info_of p) /\ a' = AH (plcount p)) \/ (t < codelen (info_of p) /\ h t = Some a')) ->
  vinv p h s -> vm_step p s = Running s' ->
  exists i, In (ip s, i) instrs /\ fetch p s = Some i /\ In (ip s') (lsuccs (ip s) i).
Proof.
  intros HD HF [Hfr [[Hip Hst]|[Hip (a & Ha & Hm)]]] Hstep.
  - exfalso. unfold vm_step in Hstep. unfold codelen in Hip. simpl in Hip. rewrite Hip, Nat2N.id, skipn_all in Hstep. discriminate.
  - destruct (HF _ _ Ha) as (i & succs & HI & Hx & _).
    destruct (decode_all_fetch _ _ _ _ HD HI) as (rest & HD1 & Hend).
    exists i. split; [exact HI|]. split; [unfold fetch; rewrite HD1; reflexivity|].
    unfold xfer in Hx. destruct (opc_of_N (iop i)) as [o|] eqn:Ho; [|discriminate].
    pose proof (decode1_opc _ _ _ _ HD1 Ho) as [Hlen Hshape].
    unfold vm_step in Hstep. unfold lsuccs. rewrite Ho.
    destruct (has_operand o) eqn:EH.
    + destruct Hshape as (hi & lo & E & Hargs). rewrite E, Ho, has_operand_vm, EH in Hstep.
      apply exec_ip in Hstep. rewrite Hlen. unfold arg0. rewrite Hargs. cbn [nth].
      destruct Hstep as [[NJ E1]|[[E1|E1] E2]]; [|subst o; left; exact (eq_sym E2)|subst o; right; left; exact (eq_sym E2)].
      rewrite E1. destruct o; try congruence; cbn; auto.
    + destruct Hshape as (E & Hargs). rewrite E, Ho, has_operand_vm, EH in Hstep.
      apply exec_ip in Hstep. rewrite Hlen.
      destruct Hstep as [[NJ E1]|[[E1|E1] E2]]; [|subst o; discriminate EH|subst o; discriminate EH].
      rewrite E1. destruct o; try congruence; try discriminate EH; cbn; auto.
Qed.

(* The theorem: on a well-formed program that linit_check accepts, whenever
   the machine is about to execute OpGetLocal a, slot a has been written by an
   OpSetLocal executed before (w collects exactly those operands). *)
Theorem linit_safe : forall (p : program), WF (info_of p) -> linit_check (info_of p) = true ->
  forall s w, reach_w p s w ->
  forall i, fetch p s = Some i -> ip s < N.of_nat (List.length (pcode p)) ->
            opc_of_N (iop i) = Some GetLocal -> In (arg0 i) w.
Proof.
  intros p HW HL s w HR.
  destruct HW as (instrs & h & HD & HS & HE & HF).
  apply linit_check_sound in HL. destruct HL as (instrs' & c & HD' & HC0 & HC).
  simpl in HD, HD'. rewrite HD in HD'. inversion HD'; subst instrs'. clear HD'.
  assert (HS' : forall pc i, In (pc, i) instrs -> operand_ok (info_of p) i = true)
    by (intros pc i HI; apply (HS pc i HI)).
  (* the safety invariant and the written-set invariant together *)
  assert (INV : vinv p h s /\ (ip s = codelen (info_of p) \/ exists w0, c (ip s) = Some w0 /\ incl w0 w)).
  { induction HR as [|s w s' HR IH Hstep|s w s' HR IH HP].
    - split.
      + split; [split; simpl; rewrite repeat_length; lia|].
        destruct (pcode p) as [|b t] eqn:EC.
        * left. split; [unfold codelen; simpl; rewrite EC; reflexivity|reflexivity].
        * right. split; [unfold codelen; simpl; rewrite EC; simpl; lia|].
          exists (AH (plcount p)). split; [|simpl; lia].
          apply HE. eapply decode_all_nonempty; eauto. discriminate.
      + destruct (pcode p) as [|b t] eqn:EC.
        * left. unfold codelen. simpl. rewrite EC. reflexivity.
        * right. exists []. split; [|intros x []]. apply HC0. eapply decode_all_nonempty; eauto. discriminate.
    - destruct IH as [IV IW]. split.
      + pose proof (step_good p instrs h HD HS' HF s IV) as G. rewrite Hstep in G. exact G.
      + destruct (step_succ p instrs h s s' HD HF IV Hstep) as (i & HI & Hf & Hsucc).
        destruct IW as [IW|(w0 & Hc & Hincl)].
        * exfalso. unfold vm_step in Hstep. unfold codelen in IW. simpl in IW. rewrite IW, Nat2N.id, skipn_all in Hstep. discriminate.
        * destruct (HC _ _ _ HI Hc) as [_ HSu]. destruct (HSu _ Hsucc) as [E|(w' & Hc' & Hi')]; [left; exact E|].
          right. exists w'. split; [exact Hc'|]. unfold wstep. rewrite Hf.
          intros x Hx. apply Hi' in Hx. unfold lout in *. destruct (opc_of_N (iop i)) as [[]|]; auto.
          destruct Hx as [Hx|Hx]; [left; exact Hx|right; apply Hincl; exact Hx].
    - destruct IH as [IV IW]. split; [apply (vinv_perturbed p h s s' IV HP)|].
      destruct HP as (Hip & _). rewrite Hip. exact IW. }
  destruct INV as [IV [IW|(w0 & Hc & Hincl)]]; intros i Hf Hlt HO.
  - unfold codelen in IW. simpl in IW. lia.
  - destruct IV as [_ [[Hip _]|[_ (a & Ha & _)]]]; [unfold codelen in Hip; simpl in Hip; lia|].
    destruct (HF _ _ Ha) as (i' & succs & HI & _).
    destruct (decode_all_fetch _ _ _ _ HD HI) as (rest & HD1 & _).
    unfold fetch in Hf. rewrite HD1 in Hf. simpl in Hf. inversion Hf; subst i'.
    destruct (HC _ _ _ HI Hc) as [HG _]. apply Hincl. apply HG. exact HO.
Qed.
