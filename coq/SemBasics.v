(* SemBasics.v — first facts about the evaluator model, proved directly from
   the definitions (one unfolding step each, for arbitrary fuel/program/state).
   Deeper theorems live in SemStop.v, SemScope.v, SemStore.v, SemSound.v. *)
From Coq Require Import ZArith NArith List Bool Floats FMapPositive Lia.
From EvyV Require Import Base Num Ast Omap Sem.
Import ListNotations.

(* ---------- C14: once the stop flag is set nothing is evaluated ---------- *)
Lemma tick_stopped s : st_stopped s = true -> tick s = (Er EStopped, s).
Proof. intro H. unfold tick. rewrite H. reflexivity. Qed.

Lemma eval_expr_stopped n P e x s :
  st_stopped s = true -> eval_expr (S n) P e x s = (Er EStopped, s).
Proof. intro H. cbn [eval_expr]. unfold bindM. rewrite (tick_stopped s H). reflexivity. Qed.

Lemma exec_stmt_stopped n P e x s :
  st_stopped s = true -> exec_stmt (S n) P e x s = (Er EStopped, s).
Proof. intro H. cbn [exec_stmt]. unfold bindM. rewrite (tick_stopped s H). reflexivity. Qed.

Lemma exec_block_stopped n P e l s :
  st_stopped s = true -> exec_block (S n) P e l s = (Er EStopped, s).
Proof. intro H. cbn [exec_block]. unfold bindM. rewrite (tick_stopped s H). reflexivity. Qed.

(* a stopped state is never left: every entry point reports "stopped" and appends no effect
   other than the test summary *)
Lemma run_program_stopped n P s :
  st_stopped s = true ->
  run_program n P s = (OErr EStopped, test_report s).
Proof. intro H. unfold run_program, bindM. rewrite (tick_stopped s H). reflexivity. Qed.

(* the yield at which the flag is raised is the last one (corrected order) *)
Lemma tick_raise s k :
  st_stopped s = false -> st_stop_at s = Some k -> st_yields s = k -> st_check_after_yield s = true ->
  exists s', tick s = (Er EStopped, s') /\ st_stopped s' = true /\ st_trace s' = st_trace s /\ st_yields s' = S k.
Proof.
  intros H1 H2 H3 H4. unfold tick. rewrite H1, H2. cbv zeta. rewrite H3, Nat.eqb_refl, H4. simpl.
  eexists; split; [reflexivity|]. simpl. auto.
Qed.

(* every successful tick is one more yield *)
Lemma tick_ok_yields s s' : tick s = (Ok tt, s') -> st_yields s' = S (st_yields s) /\ st_trace s' = st_trace s.
Proof.
  unfold tick. destruct (st_stopped s); [discriminate|].
  destruct (match st_stop_at s with Some k => Nat.eqb k (st_yields s) | None => false end && st_check_after_yield s);
    intro H; inversion H; subst; simpl; auto.
Qed.

(* ---------- C01: short circuit and operand order ---------- *)
Definition after {A} (m : M A) (s : state) : state := snd (m s).

(* evalExprList: head first, copy, then the rest, in source order *)
Lemma eval_exprs_cons n P e x t :
  eval_exprs (S n) P e (x :: t) =
  (let* v := eval_expr n P e x in let* d := depth_fuel in let* c := copy_or_ref d v in
   let* r := eval_exprs n P e t in ret (c :: r)).
Proof. reflexivity. Qed.

(* ---------- C10: statement lists stop at the first control signal ---------- *)
Lemma exec_stmts_cons n P e x t s :
  exec_stmts (S n) P e (x :: t) s =
  match exec_stmt n P e x s with
  | (Ok (sig, e1), s1) => if is_ctl sig then (Ok (sig, e1), s1) else exec_stmts n P e1 t s1
  | (Er er, s1) => (Er er, s1)
  end.
Proof.
  cbn [exec_stmts]. unfold bindM. destruct (exec_stmt n P e x s) as [[[sig e1]|er] s1]; [|reflexivity].
  destruct (is_ctl sig); reflexivity.
Qed.

Lemma break_ends_statement_list n P e t s :
  st_stopped s = false ->
  forall s1, tick s = (Ok tt, s1) ->
  exec_stmts (S (S n)) P e (SBreak :: t) s = (Ok (SigBreak, e), s1).
Proof.
  intros _ s1 Ht. rewrite exec_stmts_cons. cbn [exec_stmt]. unfold bindM. rewrite Ht. reflexivity.
Qed.

(* while: the condition is evaluated (in a fresh frame) before every iteration *)
Lemma exec_while_unfold n P e c body :
  exec_while (S n) P e c body =
  (let* (r, e1) := exec_cond n P e c body in
   match r with
   | None => ret (SigNone, e1)
   | Some SigBreak => ret (SigNone, e1)
   | Some (SigReturn v) => ret (SigReturn v, e1)
   | Some SigNone => exec_while n P e1 c body
   end).
Proof. reflexivity. Qed.

(* ---------- C09: copyOrRef ---------- *)
Lemma copy_or_ref_basic n l s v :
  hget (st_heap s) l = Some v ->
  (match v with HNum _ | HStr _ | HBool _ => True | _ => False end) ->
  copy_or_ref (S n) l s = (Ok (hnext (st_heap s)), upd_heap (snd (halloc (st_heap s) v)) s).
Proof.
  intros Hg Hb. cbn [copy_or_ref]. unfold bindM, load. rewrite Hg.
  destruct v; try contradiction; reflexivity.
Qed.

Lemma copy_or_ref_composite n l s v :
  hget (st_heap s) l = Some v ->
  (match v with HArr _ | HMap _ => True | _ => False end) ->
  copy_or_ref (S n) l s = (Ok l, s).
Proof.
  intros Hg Hb. cbn [copy_or_ref]. unfold bindM, load. rewrite Hg.
  destruct v; try contradiction; reflexivity.
Qed.

(* the copy does not disturb any existing cell, and is a new address *)
Lemma halloc_fresh h v l : hget h l <> None -> (forall k, hget h k <> None -> Pos.lt k (hnext h)) ->
  l <> fst (halloc h v) /\ hget (snd (halloc h v)) l = hget h l.
Proof.
  intros Hl Hinv. specialize (Hinv l Hl). unfold halloc, hget in *. simpl. split; [lia|].
  rewrite PositiveMap.gso by lia. reflexivity.
Qed.

(* ---------- C15: an event is its handler's body run in a fresh frame over the same state ---------- *)
Lemma handle_event_unfold n P name args s h :
  find_handler name (p_handlers P) = Some h ->
  handle_event n P name args s =
  match (let* fr := bind_payload (h_params h) args [] in
         let* _ := exec_block n P [fr] (h_body h) in ret tt) s with
  | (Er e, s1) => (OErr e, s1)
  | (Ok _, s1) => (ODone, s1)
  end.
Proof. intro H. unfold handle_event. rewrite H. reflexivity. Qed.

(* ---------- C02: the operator table is total on its rows ---------- *)
Lemma bin_num_no_internal op x y s :
  In op [BPlus; BMinus; BAsterisk; BSlash; BPercent; BGt; BLt; BGtEq; BLtEq] ->
  exists l s', bin_num op x y s = (Ok l, s').
Proof.
  intro H. simpl in H.
  repeat (destruct H as [<-|H]; [unfold bin_num, alloc; destruct (halloc _ _); eauto|]). contradiction.
Qed.
