(* SemScopeEx.v — concrete programs (built directly as Ast terms) used by the
   Examples of Props/C10.v.  Definitions only. *)
From Coq Require Import ZArith NArith List String Bool Floats.
From EvyV Require Import Base Num Ast Omap Sem SemScope.
Import ListNotations.

Definition nx := s_ "x". Definition nn := s_ "n". Definition ni := s_ "i". Definition nf := s_ "f".
Definition nr := s_ "r". Definition nk := s_ "k". Definition nm := s_ "m". Definition na := s_ "a".
Definition nv := s_ "v". Definition ns := s_ "s". Definition nc := s_ "c".
Definition nprint := s_ "print". Definition nsum := s_ "sum". Definition ndel := s_ "del".
Definition vx := EVar nx TNum. Definition vi := EVar ni TNum. Definition vn := EVar nn TNum.

(* func f:num n:num
     x := 100
     while true
       x := 1                      // shadows the function-level x
       for i := range 10
         if i == 2
           x := 7                  // shadows again, two blocks deeper
           break                   // leaves the for loop only
         end
         if i == n
           return i                // leaves the call from if-in-for-in-while
         end
         print i
       end
       print x                     // 1: the while-block x
       break                       // leaves the while loop
     end
     return x                      // 100: the function-level x
   end *)
Definition inner_for : stmt :=
  SFor (Some ni) TNum (RStep None (ENum 10) None)
    [ SIf [ (EBin BEq TBool vi (ENum 2), [SDecl nx TNum (ENum 7); SBreak]) ] None;
      SIf [ (EBin BEq TBool vi vn, [SReturn (Some vi)]) ] None;
      SCallStmt nprint [vi] ].

Definition the_while : stmt :=
  SWhile (EBool true)
    [ SDecl nx TNum (ENum 1);
      inner_for;
      SCallStmt nprint [vx];
      SBreak ].

Definition f_def : funcdef :=
  {| fn_name := nf; fn_params := [(nn, TNum)]; fn_variadic := None; fn_ret := TNum;
     fn_body := [ SDecl nx TNum (ENum 100); the_while; SReturn (Some vx) ] |}.

(* func sum:num n:num
     if n == 0
       return 0
     end
     x := n                        // one x per activation
     r := sum n-1
     return x + r
   end *)
Definition sum_def : funcdef :=
  {| fn_name := nsum; fn_params := [(nn, TNum)]; fn_variadic := None; fn_ret := TNum;
     fn_body := [ SIf [ (EBin BEq TBool vn (ENum 0), [SReturn (Some (ENum 0))]) ] None;
                  SDecl nx TNum vn;
                  SDecl nr TNum (ECall nsum TNum [EBin BMinus TNum vn (ENum 1)]);
                  SReturn (Some (EBin BPlus TNum vx (EVar nr TNum))) ] |}.

(* x := 5
   print (f 9)      // 0 1 | 1 | 100
   print (f 1)      // 0 | 1
   print (sum 4)    // 10
   print x          // 5: the global is untouched by all the local x *)
Definition prog : program :=
  {| p_funcs := [f_def; sum_def]; p_handlers := [];
     p_stmts := [ SDecl nx TNum (ENum 5);
                  SCallStmt nprint [ECall nf TNum [ENum 9]];
                  SCallStmt nprint [ECall nf TNum [ENum 1]];
                  SCallStmt nprint [ECall nsum TNum [ENum 4]];
                  SCallStmt nprint [vx] ] |}.

Definition st0 : state := init_state None [] false false.

Definition printed (s : state) : list (option str) :=
  rev (flat_map (fun ev => match ev with EvPrint p => [pieces_str p] | _ => [] end) (st_trace s)).

Definition lines (l : list string) : list (option str) := map (fun x => Some (s_ x ++ [10%N])) l.

(* a caller environment with x and n in the innermost frame *)
Definition st_in : state := snd (alloc (HNum 100) (snd (alloc (HNum 9) st0))).
Definition e_in : env := [[(nx, 5%positive); (nn, 4%positive)]; [(ni, 1%positive)]].

(* ranges *)
Definition range_prog (start : option expr) (stop : expr) (step : option expr) : program :=
  {| p_funcs := []; p_handlers := [];
     p_stmts := [ SFor (Some ni) TNum (RStep start stop step) [SCallStmt nprint [vi]] ] |}.

Definition quarter : float := Eval vm_compute in (1 / 4)%float.

(* a := [1 2 3]
   for v := range a
     print v
     a[2] = 30                     // the live array is re-read: third value is 30
   end
   s := "héy"
   for c := range s
     print c
     s = "zzz"                     // the string at loop entry is iterated
   end
   m := {a:1 b:2 c:3}
   for k := range m
     print k
     del m "b"                     // deleted before reached: skipped
     m["z"] = 9                    // inserted during the loop: not visited
   end *)
Definition va := EVar na (TArr TNum). Definition vm := EVar nm (TMap TNum). Definition vs := EVar ns TStr.
Definition coll_prog : program :=
  {| p_funcs := []; p_handlers := [];
     p_stmts :=
       [ SDecl na (TArr TNum) (EArr (TArr TNum) [ENum 1; ENum 2; ENum 3]);
         SFor (Some nv) TNum (RExpr va)
           [ SCallStmt nprint [EVar nv TNum];
             SAssign (EIndex TNum va (ENum 2)) (ENum 30) ];
         SDecl ns TStr (EStr [104%N; 233%N; 121%N]);
         SFor (Some nc) TStr (RExpr vs)
           [ SCallStmt nprint [EVar nc TStr];
             SAssign vs (EStr (s_ "zzz")) ];
         SDecl nm (TMap TNum) (EMap (TMap TNum) [(s_ "a", ENum 1); (s_ "b", ENum 2); (s_ "c", ENum 3)]);
         SFor (Some nk) TStr (RExpr vm)
           [ SCallStmt nprint [EVar nk TStr];
             SCallStmt ndel [vm; EStr (s_ "b")];
             SAssign (EIndex TNum vm (EStr (s_ "z"))) (ENum 9) ] ] |}.

(* x := 0
   while x < 3
     print x
     x = x + 1
   end
   while false
     print 99
   end *)
Definition while_prog : program :=
  {| p_funcs := []; p_handlers := [];
     p_stmts :=
       [ SDecl nx TNum (ENum 0);
         SWhile (EBin BLt TBool vx (ENum 3))
           [ SCallStmt nprint [vx]; SAssign vx (EBin BPlus TNum vx (ENum 1)) ];
         SWhile (EBool false) [ SCallStmt nprint [ENum 99] ] ] |}.

Definition outcome_of (r : outcome * state) : outcome := fst r.
Definition printed_of (r : outcome * state) : list (option str) := printed (snd r).

Definition shape_of (r : res (signal * env) * state) : option (list (list str)) :=
  match fst r with Ok (_, e) => Some (shape e) | Er _ => None end.
Definition signal_of (r : res (signal * env) * state) : option signal :=
  match fst r with Ok (sig, _) => Some sig | Er _ => None end.
Definition bindings_of (x : str) (r : res (signal * env) * state) : option (list (option loc)) :=
  match fst r with Ok (_, e) => Some (bindings x e) | Er _ => None end.
Definition is_ok {A} (r : res A * state) : bool := match fst r with Ok _ => true | Er _ => false end.

Definition num_list (l : list float) : list (option hval) := map (fun x => Some (HNum x)) l.

Definition range_up : program := range_prog None (ENum 4) None.
Definition range_down_frac : program := range_prog (Some (ENum 1)) (ENum 0) (Some (EUn UMinus (ENum quarter))).
Definition range_empty : program := range_prog (Some (ENum 3)) (ENum 1) None.
Definition range_zero_step : program := range_prog (Some (ENum 3)) (ENum 1) (Some (ENum 0)).
Definition steps_up : list float := steps 20 0 4 1.
Definition steps_down_frac : list float := steps 20 1 0 (- quarter).
Definition steps_empty : list float := steps 20 3 1 1.
Definition expect_up : list float := [0; 1; 2; 3]%float.
Definition expect_down_frac : list float := [1; 0.75; 0.5; 0.25]%float.

Definition blk_shadow : list stmt := [SDecl nx TNum (ENum 7); SBreak].
Definition blk_assign : list stmt := [SAssign vx (ENum 3)].
Definition blk_decl_assign : list stmt := [SDecl nx TNum (ENum 3); SAssign vx (ENum 4)].
Definition call_f9 : list expr := [ENum 9].

(* x := 1
   for i := range 2
     print x+1 i                  // the global x in every iteration: "2 0", "2 1"
     x := "a"                     // declared in the iteration's own scope, gone at its end
   end
   print x                        // 1
   (with one scope for all iterations the second iteration would read the string x) *)
Definition forscope_prog : program :=
  {| p_funcs := []; p_handlers := [];
     p_stmts :=
       [ SDecl nx TNum (ENum 1);
         SFor (Some ni) TNum (RStep None (ENum 2) None)
           [ SCallStmt nprint [EBin BPlus TNum vx (ENum 1); vi];
             SDecl nx TStr (EStr (s_ "a")) ];
         SCallStmt nprint [vx] ] |}.
