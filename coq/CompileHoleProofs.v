(* CompileHoleProofs.v — instruction lists with HOLES (jumps whose operand is
   still the placeholder and will be patched later), the compositional
   judgment BOK on them, and the lemmas the compiler proof needs: sequencing,
   straight-line pieces, filling holes. *)
From Coq Require Import ZArith NArith List Bool Lia ZifyBool ZifyNat ZifyN Floats.
From EvyV Require Import Base Bytecode BytecodeProofs SymTab SymTabProofs Vm VmProofs Compile CompileSem CompileProofs CompileWfProofs CompileJumpProofs.
Require Import EvyV.Gen.Opcodes.
Import ListNotations.
Open Scope N_scope.

(* (true, x): a hole — a jump emitted with the placeholder operand *)
Definition hop := (bool * sop)%type.
Definition strip (ops : list hop) : list sop := map snd ops.

Definition is_jump (o : opc) : bool := match o with Jump | JumpOnFalse => true | _ => false end.

(* target obligations of the non-hole jumps; holes owe nothing yet *)
Fixpoint htgt (nc gc : N) (A : list (N * ast)) (E : N) (aend : ast) (ops : list hop) (a : ast) : Prop :=
  match ops with
  | [] => True
  | (h, x) :: t =>
      (if h then True else
         match jop_req x a with
         | Some (T, ra) => (T = E /\ ra = aend) \/ In (T, ra) A
         | None => True
         end) /\
      match jop_step nc gc x a with
      | Some a' => htgt nc gc A E aend t a'
      | None => True
      end
  end.

(* the holes: position and the state their jump will require at its target *)
Fixpoint holes (nc gc : N) (ops : list hop) (pc : N) (a : ast) : list (N * ast) :=
  match ops with
  | [] => []
  | (h, x) :: t =>
      (if h then match jop_req x a with Some (_, ra) => [(pc, ra)] | None => [] end else []) ++
      match jop_step nc gc x a with
      | Some a' => holes nc gc t (pc + ilen_of x) a'
      | None => []
      end
  end.

Definition BOK (nc gc : N) (ops : list hop) (pc0 : N) (a0 aend : ast) : Prop :=
  jruns nc gc (strip ops) a0 = Some aend /\
  htgt nc gc (jannot nc gc (strip ops) pc0 a0) (pc0 + total_len (strip ops)) aend ops a0.

(* ---------- basic facts ---------- *)
Lemma total_len_app a b : total_len (a ++ b) = total_len a + total_len b.
Proof. unfold total_len. induction a as [|x t IH]; simpl; [reflexivity|]. rewrite IH. lia. Qed.

Lemma jannot_app nc gc a : forall b pc s s1, jruns nc gc a s = Some s1 ->
  jannot nc gc (a ++ b) pc s = jannot nc gc a pc s ++ jannot nc gc b (pc + total_len a) s1.
Proof.
  induction a as [|x t IH]; simpl; intros b pc s s1 H.
  - inversion H; subst. unfold total_len. simpl. rewrite N.add_0_r. reflexivity.
  - destruct (jop_step nc gc x s) as [s'|]; [|discriminate].
    rewrite (IH b _ _ _ H). unfold total_len. simpl. f_equal. f_equal. f_equal. lia.
Qed.

Lemma strip_app a b : strip (a ++ b) = strip a ++ strip b.
Proof. apply map_app. Qed.

Lemma htgt_weaken nc gc A E aend A' E' aend' ops : forall a,
  htgt nc gc A E aend ops a ->
  (forall T ra, (T = E /\ ra = aend) \/ In (T, ra) A -> (T = E' /\ ra = aend') \/ In (T, ra) A') ->
  htgt nc gc A' E' aend' ops a.
Proof.
  induction ops as [|[h x] t IH]; simpl; intros a H HW; [exact I|].
  destruct H as [H0 H1]. split.
  - destruct h; [exact I|]. destruct (jop_req x a) as [[T ra]|]; [apply HW; exact H0|exact I].
  - destruct (jop_step nc gc x a); [apply IH; auto|exact I].
Qed.

Lemma htgt_app nc gc A E aend a : forall b s s1, jruns nc gc (strip a) s = Some s1 ->
  htgt nc gc A E aend (a ++ b) s <-> htgt nc gc A E aend a s /\ htgt nc gc A E aend b s1.
Proof.
  induction a as [|[h x] t IH]; simpl; intros b s s1 H.
  - inversion H; subst. tauto.
  - destruct (jop_step nc gc x s) as [s'|]; [|discriminate]. rewrite (IH b s' s1 H). tauto.
Qed.

Lemma holes_app nc gc a : forall b pc s s1, jruns nc gc (strip a) s = Some s1 ->
  holes nc gc (a ++ b) pc s = holes nc gc a pc s ++ holes nc gc b (pc + total_len (strip a)) s1.
Proof.
  induction a as [|[h x] t IH]; simpl; intros b pc s s1 H.
  - inversion H; subst. unfold total_len. simpl. rewrite N.add_0_r. reflexivity.
  - destruct (jop_step nc gc x s) as [s'|]; [|discriminate].
    rewrite (IH b _ _ _ H), <- app_assoc. unfold total_len. simpl. do 3 f_equal. lia.
Qed.

(* the first instruction of a non-empty run is annotated with the start state *)
Lemma jannot_head nc gc ops pc a : ops <> [] -> In (pc, a) (jannot nc gc ops pc a).
Proof. destruct ops; [congruence|]. intros _. simpl. left. reflexivity. Qed.

(* ---------- sequencing ---------- *)
Lemma bok_app nc gc a b pc0 s0 s1 s2 :
  BOK nc gc a pc0 s0 s1 -> BOK nc gc b (pc0 + total_len (strip a)) s1 s2 ->
  BOK nc gc (a ++ b) pc0 s0 s2.
Proof.
  intros [Ra Ta] [Rb Tb]. unfold BOK. rewrite strip_app, total_len_app.
  split; [eapply jruns_app; eauto|].
  rewrite (jannot_app nc gc (strip a) (strip b) pc0 s0 s1 Ra).
  apply (htgt_app nc gc _ _ _ a b s0 s1 Ra). split.
  - eapply htgt_weaken; [exact Ta|]. intros T ra [[E1 E2]|HI].
    + destruct (strip b) as [|y t] eqn:EB.
      * simpl in Rb. inversion Rb; subst s2. left. split; [rewrite E1; unfold total_len; simpl; lia|exact E2].
      * right. apply in_or_app. right. subst T ra. apply jannot_head. discriminate.
    + right. apply in_or_app. left. exact HI.
  - eapply htgt_weaken; [exact Tb|]. intros T ra [[E1 E2]|HI].
    + left. split; [lia|exact E2].
    + right. apply in_or_app. right. exact HI.
Qed.

(* ---------- straight-line pieces ---------- *)
Definition solid (ops : list sop) : list hop := map (fun x => (false, x)) ops.

Lemma strip_solid ops : strip (solid ops) = ops.
Proof. unfold strip, solid. rewrite map_map. simpl. apply map_id. Qed.

Lemma sop_ok_jop nc gc x k k' : sop_ok nc gc x k = Some k' ->
  jop_step nc gc x (AH k) = Some (AH k') /\ jop_req x (AH k) = None.
Proof.
  intro H. pose proof H as H0. unfold sop_ok in H0. destruct x as [o arg].
  destruct (is_sl o) eqn:SL; [|discriminate]. cbn [negb] in H0.
  destruct (arg <? 65536) eqn:EA; [|discriminate].
  unfold jop_step, jop_req. cbn [fst snd]. rewrite EA. cbn [negb].
  destruct o; try discriminate SL; rewrite H; split; reflexivity.
Qed.

Lemma runs_bok nc gc ops : forall pc0 k k', runs nc gc ops k = Some k' ->
  BOK nc gc (solid ops) pc0 (AH k) (AH k') /\ holes nc gc (solid ops) pc0 (AH k) = [].
Proof.
  unfold BOK. intros pc0 k k' H. rewrite strip_solid.
  generalize (jannot nc gc ops pc0 (AH k)) as A. generalize (pc0 + total_len ops) as E.
  revert pc0 k H. induction ops as [|x t IH]; simpl; intros pc0 k H E A.
  - inversion H; subst. repeat split.
  - destruct (sop_ok nc gc x k) as [k1|] eqn:ES; [|discriminate].
    destruct (sop_ok_jop _ _ _ _ _ ES) as [J1 J2]. rewrite J1, J2.
    destruct (IH (pc0 + ilen_of x) k1 H E A) as [[R T] HH]. repeat split; auto.
Qed.

(* ---------- a single jump ---------- *)
Lemma jump_step nc gc o T a : is_jump o = true -> T < 65536 ->
  forall a', jop_step nc gc (o, 0) a = Some a' -> jop_step nc gc (o, T) a = Some a'.
Proof.
  intros HJ HT a'. unfold jop_step. cbn [fst snd]. change (0 <? 65536) with true.
  destruct (T <? 65536) eqn:E; [|apply N.ltb_ge in E; lia]. cbn [negb].
  destruct o; try discriminate HJ; auto.
Qed.

(* ---------- filling holes ---------- *)
Fixpoint fill (sel : list N) (T : N) (ops : list hop) (pc : N) : list hop :=
  match ops with
  | [] => []
  | (h, x) :: t =>
      (if h && is_jump (fst x) && existsb (N.eqb pc) sel then (false, (fst x, T)) else (h, x))
        :: fill sel T t (pc + ilen_of x)
  end.

Lemma jop_step_retarget nc gc o arg T a : is_jump o = true -> arg < 65536 -> T < 65536 ->
  jop_step nc gc (o, T) a = jop_step nc gc (o, arg) a.
Proof.
  intros HJ HA HT. unfold jop_step. cbn [fst snd].
  destruct (arg <? 65536) eqn:E1; [|apply N.ltb_ge in E1; lia].
  destruct (T <? 65536) eqn:E2; [|apply N.ltb_ge in E2; lia]. cbn [negb].
  destruct o; try discriminate HJ; reflexivity.
Qed.

Lemma fill_frame nc gc sel T : T < 65536 -> forall ops pc a aend,
  jruns nc gc (strip ops) a = Some aend ->
  jruns nc gc (strip (fill sel T ops pc)) a = Some aend /\
  (forall pc0, jannot nc gc (strip (fill sel T ops pc)) pc0 a = jannot nc gc (strip ops) pc0 a) /\
  total_len (strip (fill sel T ops pc)) = total_len (strip ops).
Proof.
  intros HT. induction ops as [|[h x] t IH]; intros pc a aend H; [simpl; auto|].
  cbn [strip map snd jruns] in H. destruct (jop_step nc gc x a) as [a1|] eqn:ES; [|discriminate].
  destruct (IH (pc + ilen_of x) a1 aend H) as (R & An & TL).
  cbn [fill]. destruct (h && is_jump (fst x) && existsb (N.eqb pc) sel) eqn:EC.
  - apply andb_true_iff in EC. destruct EC as [EC _]. apply andb_true_iff in EC. destruct EC as [_ HJ].
    destruct x as [o arg]. cbn [fst snd] in *. cbn [strip map snd jruns jannot].
    rewrite (jop_step_retarget nc gc o arg T a HJ (jop_step_arg _ _ _ _ _ ES) HT), ES.
    split; [exact R|]. split.
    + intro pc0. fold (strip (fill sel T t (pc + ilen_of (o, arg)))). change (ilen_of (o, T)) with (ilen_of (o, arg)). rewrite An. reflexivity.
    + unfold total_len in *. cbn [fold_right]. change (ilen_of (o, T)) with (ilen_of (o, arg)). f_equal. exact TL.
  - cbn [strip map snd jruns jannot]. rewrite ES. split; [exact R|]. split.
    + intro pc0. fold (strip (fill sel T t (pc + ilen_of x))). rewrite An. reflexivity.
    + unfold total_len in *. cbn [fold_right]. f_equal. exact TL.
Qed.

Lemma jop_req_retarget o arg T a : is_jump o = true ->
  jop_req (o, T) a = option_map (fun tr => (T, snd tr)) (jop_req (o, arg) a).
Proof. intro HJ. unfold jop_req. cbn [fst snd]. destruct o; try discriminate HJ; destruct a; reflexivity. Qed.

(* filling: every hole selected must find its required state at T *)
Lemma htgt_fill nc gc A E aend sel T : T < 65536 -> forall ops pc a aend',
  jruns nc gc (strip ops) a = Some aend' ->
  htgt nc gc A E aend ops a ->
  (forall p ra, In (p, ra) (holes nc gc ops pc a) -> In p sel -> (T = E /\ ra = aend) \/ In (T, ra) A) ->
  htgt nc gc A E aend (fill sel T ops pc) a.
Proof.
  intros HT. induction ops as [|[h x] t IH]; simpl; intros pc a aend' HR H HH; [exact I|].
  destruct H as [H0 H1].
  destruct (jop_step nc gc x a) as [a1|] eqn:ES1; [|discriminate].
  destruct (h && is_jump (fst x) && existsb (N.eqb pc) sel) eqn:EC.
  - apply andb_true_iff in EC. destruct EC as [EC ES]. apply andb_true_iff in EC. destruct EC as [Eh HJ]. subst h.
    destruct x as [o arg]. cbn [fst snd] in *.
    assert (Hin : In pc sel).
    { apply existsb_exists in ES. destruct ES as (q & Hq & Eq). apply N.eqb_eq in Eq. subst q. exact Hq. }
    assert (HA : arg < 65536) by (apply (jop_step_arg _ _ _ _ _ ES1)).
    rewrite (jop_step_retarget nc gc o arg T a HJ HA HT), ES1. split.
    + rewrite (jop_req_retarget o arg T a HJ). destruct (jop_req (o, arg) a) as [[T0 ra]|] eqn:EQ; [|exact I].
      simpl. apply (HH pc ra); [left; reflexivity|exact Hin].
    + eapply IH; [exact HR|exact H1|]. intros p ra Hp. apply HH. apply in_or_app. right. exact Hp.
  - rewrite ES1. split; [exact H0|].
    eapply IH; [exact HR|exact H1|]. intros p ra Hp. apply HH. apply in_or_app. right. exact Hp.
Qed.

(* the holes that remain after filling *)
Lemma holes_fill nc gc sel T : T < 65536 -> forall ops pc a aend',
  jruns nc gc (strip ops) a = Some aend' ->
  forall p ra, In (p, ra) (holes nc gc (fill sel T ops pc) pc a) ->
               In (p, ra) (holes nc gc ops pc a) /\ ~ In p sel.
Proof.
  intros HT. induction ops as [|[h x] t IH]; simpl; intros pc a aend' HR p ra Hin; [destruct Hin|].
  destruct (jop_step nc gc x a) as [a1|] eqn:ES1; [|discriminate].
  destruct (h && is_jump (fst x) && existsb (N.eqb pc) sel) eqn:EC.
  - apply andb_true_iff in EC. destruct EC as [EC ES]. apply andb_true_iff in EC. destruct EC as [Eh HJ]. subst h.
    destruct x as [o arg]. cbn [fst snd] in *.
    assert (HA : arg < 65536) by (apply (jop_step_arg _ _ _ _ _ ES1)).
    rewrite (jop_step_retarget nc gc o arg T a HJ HA HT), ES1 in Hin. simpl in Hin.
    destruct (IH _ _ _ HR _ _ Hin) as [I1 I2]. split; [apply in_or_app; right; exact I1|exact I2].
  - cbn [fst snd] in Hin. rewrite ES1 in Hin. apply in_app_or in Hin. destruct Hin as [Hin|Hin].
    + split; [apply in_or_app; left; exact Hin|].
      destruct h; [|destruct Hin]. destruct (jop_req x a) as [[T0 ra0]|] eqn:EQ; [|destruct Hin].
      destruct Hin as [Eq|[]]. inversion Eq; subst p ra0. intro HS.
      assert (HJ : is_jump (fst x) = true).
      { unfold jop_req in EQ. destruct (fst x); try discriminate EQ; reflexivity. }
      simpl in EC. rewrite HJ in EC. simpl in EC.
      assert (existsb (N.eqb pc) sel = true) by (apply existsb_exists; exists pc; split; [exact HS|apply N.eqb_refl]).
      congruence.
    + destruct (IH _ _ _ HR _ _ Hin) as [I1 I2]. split; [apply in_or_app; right; exact I1|exact I2].
Qed.

Lemma bok_fill nc gc sel T ops pc0 a0 aend :
  T < 65536 -> BOK nc gc ops pc0 a0 aend ->
  (forall p ra, In (p, ra) (holes nc gc ops pc0 a0) -> In p sel ->
                (T = pc0 + total_len (strip ops) /\ ra = aend) \/ In (T, ra) (jannot nc gc (strip ops) pc0 a0)) ->
  BOK nc gc (fill sel T ops pc0) pc0 a0 aend.
Proof.
  intros HT [R Tg] HH. destruct (fill_frame nc gc sel T HT ops pc0 a0 aend R) as (R' & An & TL).
  unfold BOK. rewrite An, TL. split; [exact R'|]. eapply htgt_fill; eauto.
Qed.

(* ---------- closed code: no holes left ---------- *)
Lemma htgt_closed nc gc A E aend : forall ops pc a,
  holes nc gc ops pc a = [] -> htgt nc gc A E aend ops a -> jtargets nc gc A E aend (strip ops) a.
Proof.
  induction ops as [|[h x] t IH]; simpl; intros pc a HH H; [exact I|].
  destruct H as [H0 H1]. apply app_eq_nil in HH. destruct HH as [HH0 HH1]. split.
  - destruct h; [|exact H0]. destruct (jop_req x a) as [[T ra]|]; [discriminate|exact I].
  - destruct (jop_step nc gc x a); [eapply IH; eauto|exact I].
Qed.

Theorem bok_WF : forall nc gc lc ops,
  BOK nc gc ops 0 (AH 0) (AH 0) -> holes nc gc ops 0 (AH 0) = [] -> Forall (lopk lc) (strip ops) ->
  WF {| bcode := encode (strip ops); nconsts := nc; gcount := gc; lcount := lc |}.
Proof.
  intros nc gc lc ops [R T] HH HL. apply ops_WF; [exact R| |exact HL].
  rewrite N.add_0_l in T. eapply htgt_closed; eauto.
Qed.

(* the local accesses of a list with holes; filling holes does not touch them *)
Definition LOK (lc : N) (ops : list hop) : Prop := Forall (lopk lc) (strip ops).

Lemma lok_nil lc : LOK lc [].
Proof. constructor. Qed.
Lemma lok_app lc a b : LOK lc a -> LOK lc b -> LOK lc (a ++ b).
Proof. unfold LOK. rewrite strip_app. intros. apply Forall_app. auto. Qed.
Lemma lok_solid lc ops : Forall (lopk lc) ops -> LOK lc (solid ops).
Proof. unfold LOK. rewrite strip_solid. auto. Qed.
Lemma lok_one lc h o a : is_local o = false -> LOK lc [(h, (o, a))].
Proof. intro H. constructor; [apply lopk_nonlocal; exact H|constructor]. Qed.
Lemma lok_cons lc h o a t : is_local o = false -> LOK lc t -> LOK lc ((h, (o, a)) :: t).
Proof. intros H HT. constructor; [apply lopk_nonlocal; exact H|exact HT]. Qed.
Lemma lok_mono lc lc' ops : lc <= lc' -> LOK lc ops -> LOK lc' ops.
Proof. intros HL H. unfold LOK in *. eapply Forall_impl; [|exact H]. intros x Hx Hl. specialize (Hx Hl). lia. Qed.

(* ---------- filling is the byte-level operand change of changeOperand ---------- *)
Lemma set_nth_patch (pre : list N) : forall a h l hi lo rest,
  set_nth (List.length pre + 2) lo (set_nth (List.length pre + 1) hi (pre ++ a :: h :: l :: rest)) =
  pre ++ a :: hi :: lo :: rest.
Proof.
  induction pre as [|y t IH]; intros; simpl; [reflexivity|]. f_equal. apply IH.
Qed.

(* p is the position of a hole (a flagged jump) of ops laid out from pc *)
Fixpoint hole_at (ops : list hop) (pc p : N) : Prop :=
  match ops with
  | [] => False
  | (h, x) :: t => (pc = p /\ h = true /\ is_jump (fst x) = true) \/ (pc < p /\ hole_at t (pc + ilen_of x) p)
  end.

Lemma fill_above sel T : forall ops pc, (forall q, In q sel -> q < pc) -> fill sel T ops pc = ops.
Proof.
  induction ops as [|[h x] t IH]; intros pc HS; [reflexivity|]. cbn [fill].
  assert (existsb (N.eqb pc) sel = false).
  { destruct (existsb (N.eqb pc) sel) eqn:E; [|reflexivity]. apply existsb_exists in E.
    destruct E as (q & Hq & Eq). apply N.eqb_eq in Eq. subst q. specialize (HS _ Hq). lia. }
  rewrite H, andb_false_r. f_equal. apply IH. intros q Hq. specialize (HS _ Hq). pose proof (ilen_pos x). lia.
Qed.

Lemma enc1_jump o arg : is_jump o = true -> arg < 65536 ->
  exists hi lo, enc1 (o, arg) = [N_of_opc o; hi; lo].
Proof.
  intros HJ HA. assert (HO : has_operand o = true) by (destruct o; try discriminate HJ; reflexivity).
  destruct (make_arg_bytes o (Z.of_N arg) HO) as (hi & lo & HM & _); [lia|].
  exists hi, lo. unfold enc1. cbn [fst snd]. rewrite HO, HM. reflexivity.
Qed.

Lemma enc1_len nc gc x a a' : jop_step nc gc x a = Some a' -> N.of_nat (List.length (enc1 x)) = ilen_of x.
Proof. intro H. apply (decode1_enc1' x [] (jop_step_arg _ _ _ _ _ H)). Qed.

Lemma encode_fill_one nc gc T p : T < 65536 -> forall ops pc a aend prefix,
  jruns nc gc (strip ops) a = Some aend -> hole_at ops pc p -> N.of_nat (List.length prefix) = pc ->
  change_operand_before_fix p (Z.of_N T) (prefix ++ encode (strip ops)) =
  prefix ++ encode (strip (fill [p] T ops pc)).
Proof.
  intros HT. induction ops as [|[h x] t IH]; intros pc a aend prefix HR HH HP; [destruct HH|].
  cbn [strip map snd jruns] in HR. destruct (jop_step nc gc x a) as [a1|] eqn:ES; [|discriminate].
  cbn [hole_at] in HH. destruct HH as [(E1 & E2 & HJ)|(HLt & HH)].
  - subst p h. cbn [fill]. rewrite HJ. cbn [existsb]. rewrite N.eqb_refl. cbn [andb orb].
    rewrite (fill_above [pc] T t (pc + ilen_of x)) by (intros q [<-|[]]; pose proof (ilen_pos x); lia).
    destruct x as [o arg]. cbn [fst snd] in *.
    destruct (enc1_jump o arg HJ (jop_step_arg _ _ _ _ _ ES)) as (h0 & l0 & E0).
    destruct (enc1_jump o T HJ HT) as (hi & lo & ET).
    cbn [strip map snd]. unfold encode. cbn [flat_map]. rewrite E0, ET.
    unfold change_operand_before_fix.
    assert (HO : has_operand o = true) by (destruct o; try discriminate HJ; reflexivity).
    destruct (make_arg_bytes o (Z.of_N T) HO) as (hi' & lo' & HM & _); [lia|].
    unfold enc1 in ET. cbn [fst snd] in ET. rewrite HO, HM in ET. inversion ET; subst hi' lo'.
    unfold make in HM. rewrite lookup_def_opc, HO in HM. cbn [make_operands option_map] in HM.
    change (2 =? 2) with true in HM. assert (HF : fits16 (Z.of_N T) = true) by (unfold fits16; lia).
    rewrite HF in HM. cbn [andb negb] in HM. cbv iota in HM.
    destruct (put16 (Z.of_N T)) as [|b1 [|b2 [|b3 r]]] eqn:EP; try (unfold put16 in EP; discriminate).
    cbn [app] in HM. inversion HM; subst b1 b2.
    replace (N.to_nat pc) with (List.length prefix) by lia.
    cbn [app]. apply set_nth_patch.
  - cbn [fill]. assert (EX : existsb (N.eqb pc) [p] = false).
    { cbn [existsb]. destruct (pc =? p) eqn:E; [apply N.eqb_eq in E; lia|reflexivity]. }
    rewrite EX, andb_false_r. cbn [strip map snd]. unfold encode. cbn [flat_map]. fold (encode (strip t)).
    fold (encode (strip (fill [p] T t (pc + ilen_of x)))).
    rewrite !app_assoc. apply (IH (pc + ilen_of x) a1 aend (prefix ++ enc1 x) HR HH).
    rewrite app_length, Nat2N.inj_add, (enc1_len _ _ _ _ _ ES). lia.
Qed.

Lemma fill_cons p sel T : forall ops pc, fill (p :: sel) T ops pc = fill [p] T (fill sel T ops pc) pc.
Proof.
  induction ops as [|[h x] t IH]; intros pc; [reflexivity|]. cbn [fill existsb].
  destruct (h && is_jump (fst x)) eqn:EJ.
  - destruct (existsb (N.eqb pc) sel) eqn:ES.
    + rewrite orb_true_r. cbn [andb fst snd]. f_equal. apply IH.
    + rewrite orb_false_r. cbn [andb]. rewrite EJ. cbn [andb]. destruct (pc =? p); cbn [orb]; f_equal; apply IH.
  - cbn [andb]. rewrite EJ. cbn [andb]. f_equal. apply IH.
Qed.

Lemma hole_at_fill q T : forall ops pc p, p <> q -> hole_at ops pc p -> hole_at (fill [q] T ops pc) pc p.
Proof.
  induction ops as [|[h x] t IH]; intros pc p NE HH; [destruct HH|]. cbn [fill hole_at] in *.
  destruct HH as [(E1 & E2 & HJ)|(HLt & HH)].
  - subst pc h. cbn [existsb]. destruct (p =? q) eqn:E; [apply N.eqb_eq in E; congruence|].
    cbn [orb]. rewrite andb_false_r. left. auto.
  - destruct (h && is_jump (fst x) && existsb (N.eqb pc) [q]); cbn [fst snd]; right; split; auto;
      destruct x; apply IH; auto.
Qed.

Lemma lok_fill lc sel T : forall ops pc, LOK lc ops -> LOK lc (fill sel T ops pc).
Proof.
  unfold LOK. induction ops as [|[h x] t IH]; intros pc H; [constructor|]. cbn [fill].
  cbn [strip map snd] in H. inversion H; subst.
  destruct (h && is_jump (fst x) && existsb (N.eqb pc) sel) eqn:EC.
  - apply andb_true_iff in EC. destruct EC as [EC _]. apply andb_true_iff in EC. destruct EC as [_ HJ].
    cbn [strip map snd]. constructor; [|apply IH; assumption].
    apply lopk_nonlocal. destruct (fst x); try discriminate HJ; reflexivity.
  - cbn [strip map snd]. constructor; [assumption|apply IH; assumption].
Qed.
