(* SemStore.v — proofs about the store discipline of Sem.v (property C09):
   which operations allocate, which share, and which mutate in place.

   A1  copy_or_ref: fresh cell for basic values, same cell for arrays/maps,
       fresh box (and, recursively, content) for any.
   A2  globalErr is the only in-place mutation of a basic cell (nine-way
       induction on fuel).
   A3  privacy of the err/errmsg cells (see the section for what is proved).
   A4  indexing shares, slicing / + give fresh containers with copy_or_ref'd
       elements, * deep-copies.
   Sem.v is not modified; reformulations are proved equal to its terms. *)
From Coq Require Import ZArith NArith PArith List String Bool Floats FMapPositive Lia.
From EvyV Require Import Base Num Ast Omap Sem SemPure.
Import ListNotations.
Local Open Scope positive_scope.

(* ====================================================================== *)
(* 1. Vocabulary                                                           *)
(* ====================================================================== *)
Definition is_basic (v : hval) : bool :=
  match v with HNum _ | HStr _ | HBool _ => true | _ => false end.
Definition is_composite (v : hval) : bool :=
  match v with HArr _ | HMap _ => true | _ => false end.

(* same constructor; any-boxes are immutable (same type tag and content) *)
Definition same_kind (v v' : hval) : Prop :=
  match v, v' with
  | HNum _, HNum _ | HStr _, HStr _ | HBool _, HBool _
  | HArr _, HArr _ | HMap _, HMap _ | HNone, HNone => True
  | HAny t i, HAny t' i' => t = t' /\ i = i'
  | _, _ => False
  end.

Lemma same_kind_refl v : same_kind v v.
Proof. destruct v; simpl; auto. Qed.
Lemma same_kind_trans a b c : same_kind a b -> same_kind b c -> same_kind a c.
Proof. destruct a, b; simpl; try tauto; destruct c; simpl; try tauto. intros [-> ->] [-> ->]; auto. Qed.
Lemma same_kind_basic a b : same_kind a b -> is_basic a = is_basic b.
Proof. destruct a, b; simpl; tauto. Qed.
Lemma same_kind_composite a b : same_kind a b -> is_composite a = is_composite b.
Proof. destruct a, b; simpl; tauto. Qed.

(* the heap never holds anything at or above hnext *)
Definition fresh_ok (h : heap) : Prop := forall l, hnext h <= l -> hget h l = None.
Definition wf (s : state) : Prop := fresh_ok (st_heap s).

Lemma wf_alloc_lt s l v : wf s -> hget (st_heap s) l = Some v -> l < hnext (st_heap s).
Proof.
  intros W H. destruct (Pos.ltb_spec l (hnext (st_heap s))); auto.
  rewrite (W l) in H by assumption. discriminate.
Qed.

(* the cells bound to err / errmsg in the global frame *)
Definition err_loc (g : frame) (l : loc) : Prop :=
  frame_get n_err g = Some l \/ frame_get n_errmsg g = Some l.

(* every existing cell keeps its exact content *)
Definition heap_extends (h h' : heap) : Prop :=
  hnext h <= hnext h' /\ forall l v, hget h l = Some v -> hget h' l = Some v.

Lemma heap_extends_refl h : heap_extends h h.
Proof. split; [lia | auto]. Qed.
Lemma heap_extends_trans a b c : heap_extends a b -> heap_extends b c -> heap_extends a c.
Proof. intros [A1 A2] [B1 B2]; split; [lia | auto]. Qed.

(* basic_cells_stable: the statement of A2 *)
Definition basic_cells_stable (s s' : state) : Prop :=
  forall l v, hget (st_heap s) l = Some v -> is_basic v = true ->
              ~ err_loc (st_globals s) l -> hget (st_heap s') l = Some v.

(* the relation carried through the evaluator (a preorder) *)
Record R (s s' : state) : Prop := {
  r_next : hnext (st_heap s) <= hnext (st_heap s');
  r_kind : forall l v, hget (st_heap s) l = Some v ->
                       exists v', hget (st_heap s') l = Some v' /\ same_kind v v';
  r_stable : basic_cells_stable s s';
  r_err : forall l v, err_loc (st_globals s') l -> hget (st_heap s) l = Some v ->
                      is_basic v = true -> err_loc (st_globals s) l }.

Lemma R_refl s : R s s.
Proof.
  constructor; [lia | | red; auto | auto].
  intros l v H; exists v; split; [auto | apply same_kind_refl].
Qed.

Lemma R_trans a b c : R a b -> R b c -> R a c.
Proof.
  intros [A1 A2 A3 A4] [B1 B2 B3 B4]. constructor.
  - lia.
  - intros l v H. destruct (A2 _ _ H) as (v' & H' & K). destruct (B2 _ _ H') as (v'' & H'' & K').
    exists v''; split; [auto | eapply same_kind_trans; eauto].
  - intros l v H Hb Hn. apply B3; auto. intro E. apply Hn. eapply A4; eauto.
  - intros l v E H Hb. destruct (A2 _ _ H) as (v' & H' & K).
    eapply A4; eauto. eapply B4; eauto. rewrite <- (same_kind_basic _ _ K); auto.
Qed.

Definition Inv (s s' : state) : Prop := wf s -> wf s' /\ R s s'.

Lemma Inv_refl s : Inv s s.
Proof. intro W; split; [auto | apply R_refl]. Qed.
Lemma Inv_trans a b c : Inv a b -> Inv b c -> Inv a c.
Proof. intros H1 H2 W. destruct (H1 W) as [W1 R1]. destruct (H2 W1) as [W2 R2]. split; [auto | eapply R_trans; eauto]. Qed.

(* ---------- ways of building Inv ---------- *)
Lemma Inv_heap_same s s' :
  st_heap s' = st_heap s ->
  (forall l v, err_loc (st_globals s') l -> hget (st_heap s) l = Some v -> is_basic v = true ->
               err_loc (st_globals s) l) ->
  Inv s s'.
Proof.
  intros Hh He W. split; [red; rewrite Hh; exact W|].
  constructor; rewrite ?Hh.
  - lia.
  - intros l v H; exists v; split; [auto | apply same_kind_refl].
  - red; rewrite Hh; auto.
  - exact He.
Qed.

Lemma Inv_same s s' : st_heap s' = st_heap s -> st_globals s' = st_globals s -> Inv s s'.
Proof. intros Hh Hg. apply Inv_heap_same; auto. rewrite Hg; auto. Qed.

Lemma hget_halloc_old h v l x : fresh_ok h -> hget h l = Some x -> hget (snd (halloc h v)) l = Some x.
Proof.
  intros W H. unfold halloc, hget; simpl. rewrite PositiveMap.gso; auto.
  intro E; subst. rewrite (W (hnext h)) in H by lia. discriminate.
Qed.
Lemma hget_halloc_new h v : hget (snd (halloc h v)) (hnext h) = Some v.
Proof. unfold halloc, hget; simpl. apply PositiveMap.gss. Qed.
Lemma fresh_ok_halloc h v : fresh_ok h -> fresh_ok (snd (halloc h v)).
Proof.
  intros W l Hl. unfold halloc, hget in *; simpl in *. rewrite PositiveMap.gso by lia. apply W; lia.
Qed.
Lemma heap_extends_halloc h v : fresh_ok h -> heap_extends h (snd (halloc h v)).
Proof. intro W; split; [simpl; lia | intros; apply hget_halloc_old; auto]. Qed.

Lemma Inv_extends s s' :
  heap_extends (st_heap s) (st_heap s') -> fresh_ok (st_heap s') -> st_globals s' = st_globals s -> Inv s s'.
Proof.
  intros [E1 E2] W' Hg W. split; [exact W'|]. constructor.
  - exact E1.
  - intros l v H; exists v; split; [auto | apply same_kind_refl].
  - red; auto.
  - rewrite Hg; auto.
Qed.

Lemma Inv_alloc s v : Inv s (upd_heap (snd (halloc (st_heap s) v)) s).
Proof.
  intro W. apply Inv_extends; simpl; auto.
  - apply heap_extends_halloc; exact W.
  - apply fresh_ok_halloc; exact W.
Qed.

Lemma hget_hset_same h l v : hget (hset h l v) l = Some v.
Proof. unfold hset, hget; simpl. apply PositiveMap.gss. Qed.
Lemma hget_hset_other h l v l' : l' <> l -> hget (hset h l v) l' = hget h l'.
Proof. intro N. unfold hset, hget; simpl. apply PositiveMap.gso; auto. Qed.

Lemma fresh_ok_hset h l v v0 : fresh_ok h -> hget h l = Some v0 -> fresh_ok (hset h l v).
Proof.
  intros W H l' Hl. rewrite hget_hset_other; [apply W; exact Hl|].
  intro E; subst. simpl in Hl. rewrite (W l) in H by exact Hl. discriminate.
Qed.

(* overwriting a non-basic cell by a value of the same kind (element store, SetKey, del) *)
Lemma Inv_store_composite s l v0 v :
  hget (st_heap s) l = Some v0 -> is_basic v0 = false -> same_kind v0 v ->
  Inv s (upd_heap (hset (st_heap s) l v) s).
Proof.
  intros H Hb K W. split; [eapply fresh_ok_hset; eauto|]. constructor; simpl.
  - lia.
  - intros l' x Hx. destruct (Pos.eq_dec l' l) as [->|N].
    + rewrite hget_hset_same. exists v; split; auto. congruence.
    + rewrite hget_hset_other by auto. exists x; split; [auto | apply same_kind_refl].
  - intros l' x Hx Hbx _. simpl. destruct (Pos.eq_dec l' l) as [->|N].
    + congruence.
    + rewrite hget_hset_other; auto.
  - auto.
Qed.

(* overwriting a cell bound to err / errmsg by a value of the same kind (globalErr) *)
Lemma Inv_store_err s l v0 v :
  hget (st_heap s) l = Some v0 -> same_kind v0 v -> err_loc (st_globals s) l ->
  Inv s (upd_heap (hset (st_heap s) l v) s).
Proof.
  intros H K E W. split; [eapply fresh_ok_hset; eauto|]. constructor; simpl.
  - lia.
  - intros l' x Hx. destruct (Pos.eq_dec l' l) as [->|N].
    + rewrite hget_hset_same. exists v; split; auto. congruence.
    + rewrite hget_hset_other by auto. exists x; split; [auto | apply same_kind_refl].
  - intros l' x Hx Hbx Hn. simpl. destruct (Pos.eq_dec l' l) as [->|N].
    + contradiction.
    + rewrite hget_hset_other; auto.
  - auto.
Qed.

(* ====================================================================== *)
(* 2. Inversion lemmas for the monad and the primitives                    *)
(* ====================================================================== *)
Lemma bind_inv {A B} (m : M A) (f : A -> M B) s r s' :
  bindM m f s = (r, s') ->
  (exists a s1, m s = (Ok a, s1) /\ f a s1 = (r, s')) \/ (exists e, m s = (Er e, s') /\ r = Er e).
Proof.
  unfold bindM. destruct (m s) as [[a|e] s1]; intro H.
  - left; eauto.
  - right; exists e. inversion H; subst; auto.
Qed.

Lemma ret_inv {A} (a : A) s r s' : ret a s = (r, s') -> r = Ok a /\ s' = s.
Proof. unfold ret; intro H; inversion H; auto. Qed.
Lemma fail_inv {A} e s (r : res A) s' : fail e s = (r, s') -> r = Er e /\ s' = s.
Proof. unfold fail; intro H; inversion H; auto. Qed.
Lemma crash_inv {A} w s (r : res A) s' : crash w s = (r, s') -> r = Er (EHostCrash (s_ w)) /\ s' = s.
Proof. unfold crash; apply fail_inv. Qed.
Lemma internal_inv {A} w s (r : res A) s' : internal w s = (r, s') -> r = Er (EInternal (s_ w)) /\ s' = s.
Proof. unfold internal; apply fail_inv. Qed.
Lemma lift_inv {A} (x : res A) s r s' : lift x s = (r, s') -> r = x /\ s' = s.
Proof. unfold lift; intro H; inversion H; auto. Qed.
Lemma depth_fuel_inv s r s' : depth_fuel s = (r, s') -> r = Ok value_depth /\ s' = s.
Proof. unfold depth_fuel; intro H; inversion H; auto. Qed.

Lemma load_inv l s r s' :
  load l s = (r, s') ->
  s' = s /\ ((exists v, r = Ok v /\ hget (st_heap s) l = Some v) \/
             (r = Er (EHostCrash (s_ "nil value")) /\ hget (st_heap s) l = None)).
Proof.
  unfold load. destruct (hget (st_heap s) l) eqn:E; intro H; inversion H; subst; split; eauto.
Qed.

Lemma alloc_inv v s r s' :
  alloc v s = (r, s') -> r = Ok (hnext (st_heap s)) /\ s' = upd_heap (snd (halloc (st_heap s) v)) s.
Proof. unfold alloc; simpl. intro H; inversion H; auto. Qed.

Lemma store_inv l v s r s' :
  store l v s = (r, s') -> r = Ok tt /\ s' = upd_heap (hset (st_heap s) l v) s.
Proof. unfold store; intro H; inversion H; auto. Qed.

Lemma emitE_inv ev s r s' : emitE ev s = (r, s') -> r = Ok tt /\ s' = upd_trace (ev :: st_trace s) s.
Proof. unfold emitE; intro H; inversion H; auto. Qed.

Lemma tick_inv s r s' : tick s = (r, s') -> st_heap s' = st_heap s /\ st_globals s' = st_globals s.
Proof.
  unfold tick. destruct (st_stopped s); [intro H; inversion H; auto|].
  destruct (_ && _); intro H; inversion H; auto.
Qed.

Lemma lookup_inv n e s r s' :
  lookup n e s = (r, s') ->
  s' = s /\ exists o, r = Ok o /\
    (o = None \/ o = env_get n e \/ (env_get n e = None /\ o = frame_get n (st_globals s))).
Proof.
  unfold lookup. destruct (str_eqb n underscore); [intro H; inversion H; eauto|].
  destruct (env_get n e) eqn:E; intro H; inversion H; subst; split; eauto 6.
Qed.

(* load_num / load_str / load_bool *)
Lemma load_num_inv l s r s' :
  load_num l s = (r, s') -> s' = s /\ forall f, r = Ok f -> hget (st_heap s) l = Some (HNum f).
Proof.
  unfold load_num. intro H. apply bind_inv in H. destruct H as [(a & s1 & H1 & H) | (e & H1 & ->)];
    apply load_inv in H1; destruct H1 as [-> H1].
  - destruct H1 as [(v & Hv & Hg) | [Hv _]]; [|discriminate]. inversion Hv; subst.
    destruct v; try (apply crash_inv in H; destruct H as [-> ->]; split; [auto | discriminate]).
    apply ret_inv in H; destruct H as [-> ->]. split; auto. intros f0 E; inversion E; subst; auto.
  - split; [auto | discriminate].
Qed.
Lemma load_str_inv l s r s' :
  load_str l s = (r, s') -> s' = s /\ forall f, r = Ok f -> hget (st_heap s) l = Some (HStr f).
Proof.
  unfold load_str. intro H. apply bind_inv in H. destruct H as [(a & s1 & H1 & H) | (e & H1 & ->)];
    apply load_inv in H1; destruct H1 as [-> H1].
  - destruct H1 as [(v & Hv & Hg) | [Hv _]]; [|discriminate]. inversion Hv; subst.
    destruct v; try (apply crash_inv in H; destruct H as [-> ->]; split; [auto | discriminate]).
    apply ret_inv in H; destruct H as [-> ->]. split; auto. intros f0 E; inversion E; subst; auto.
  - split; [auto | discriminate].
Qed.
Lemma load_bool_inv l s r s' :
  load_bool l s = (r, s') -> s' = s /\ forall f, r = Ok f -> hget (st_heap s) l = Some (HBool f).
Proof.
  unfold load_bool. intro H. apply bind_inv in H. destruct H as [(a & s1 & H1 & H) | (e & H1 & ->)];
    apply load_inv in H1; destruct H1 as [-> H1].
  - destruct H1 as [(v & Hv & Hg) | [Hv _]]; [|discriminate]. inversion Hv; subst.
    destruct v; try (apply crash_inv in H; destruct H as [-> ->]; split; [auto | discriminate]).
    apply ret_inv in H; destruct H as [-> ->]. split; auto. intros f0 E; inversion E; subst; auto.
  - split; [auto | discriminate].
Qed.

(* ---------- read-only computations ---------- *)
Definition readonly {A} (m : M A) : Prop := forall s r s', m s = (r, s') -> s' = s.

Lemma ro_ret {A} (a : A) : readonly (ret a).
Proof. intros s r s' H; apply ret_inv in H; tauto. Qed.
Lemma ro_fail {A} e : readonly (@fail A e).
Proof. intros s r s' H; apply fail_inv in H; tauto. Qed.
Lemma ro_crash {A} w : readonly (@crash A w).
Proof. apply ro_fail. Qed.
Lemma ro_load l : readonly (load l).
Proof. intros s r s' H; apply load_inv in H; tauto. Qed.
Lemma ro_depth : readonly depth_fuel.
Proof. intros s r s' H; apply depth_fuel_inv in H; tauto. Qed.
Lemma ro_lift {A} (x : res A) : readonly (lift x).
Proof. intros s r s' H; apply lift_inv in H; tauto. Qed.
Lemma ro_bind {A B} (m : M A) (f : A -> M B) : readonly m -> (forall a, readonly (f a)) -> readonly (bindM m f).
Proof.
  intros Hm Hf s r s' H. apply bind_inv in H. destruct H as [(a & s1 & H1 & H) | (e & H1 & ->)].
  - apply Hm in H1; subst. eapply Hf; eauto.
  - eapply Hm; eauto.
Qed.
Lemma ro_mapM {A B} (f : A -> M B) l : (forall a, readonly (f a)) -> readonly (mapM f l).
Proof.
  intro Hf. induction l as [|x t IH]; simpl; [apply ro_ret|].
  apply ro_bind; auto. intro. apply ro_bind; auto. intro; apply ro_ret.
Qed.
Lemma ro_load_num l : readonly (load_num l).
Proof. intros s r s' H; apply load_num_inv in H; tauto. Qed.
Lemma ro_load_str l : readonly (load_str l).
Proof. intros s r s' H; apply load_str_inv in H; tauto. Qed.
Lemma ro_load_bool l : readonly (load_bool l).
Proof. intros s r s' H; apply load_bool_inv in H; tauto. Qed.
Lemma ro_lookup n e : readonly (lookup n e).
Proof. intros s r s' H; apply lookup_inv in H; tauto. Qed.

Ltac ro :=
  repeat first
    [ apply ro_ret | apply ro_fail | apply ro_crash | apply ro_load | apply ro_depth | apply ro_lift
    | apply ro_load_num | apply ro_load_str | apply ro_load_bool | apply ro_lookup
    | apply ro_bind; [|intro]
    | apply ro_mapM; intro
    | match goal with |- readonly (match ?x with _ => _ end) => destruct x end
    | match goal with |- readonly (if ?x then _ else _) => destruct x end
    | assumption ].

Lemma ro_show fuel : forall repr l, readonly (show fuel repr l).
Proof.
  induction fuel as [|f IH]; intros repr l; simpl; [apply ro_crash|].
  ro; try apply IH.
Qed.

Lemma ro_equals fuel : forall a b, readonly (equals fuel a b).
Proof.
  induction fuel as [|f IH]; intros a b; simpl; [apply ro_crash|].
  apply ro_bind; [apply ro_load | intro va]. apply ro_bind; [apply ro_load | intro vb].
  destruct va, vb; ro; try apply IH.
  - revert els0. induction els as [|x xt IHx]; intros [|y yt]; ro.
    + apply IH.
    + apply IHx.
  - induction (pairs m) as [|[k i] t IHt]; ro. apply IH.
Qed.

Lemma ro_same fuel : forall a b, readonly (same fuel a b).
Proof.
  induction fuel as [|f IH]; intros a b; simpl; [apply ro_crash|].
  apply ro_bind; [apply ro_load | intro g]. apply ro_bind; [apply ro_load | intro w].
  destruct g; ro; try apply IH.
  - revert els. induction els0 as [|x xt IHx]; intros [|y yt]; ro.
    + apply IH.
    + apply IHx.
  - induction (pairs m0) as [|[k i] t IHt]; ro. apply IH.
Qed.

Lemma ro_show_str l : readonly (show_str l).
Proof. unfold show_str. ro. apply ro_show. Qed.
Lemma ro_join_args args sep : readonly (join_args args sep).
Proof. unfold join_args. ro. apply ro_show. Qed.
Lemma ro_unwrap_any l : readonly (unwrap_any l).
Proof. unfold unwrap_any. ro. Qed.
Lemma ro_slice_bounds lo hi len : readonly (slice_bounds lo hi len).
Proof. unfold slice_bounds. ro. Qed.

(* ====================================================================== *)
(* 3. Computations that respect Inv, compositionally                       *)
(* ====================================================================== *)
Definition SpecI {A} (m : M A) : Prop := forall s r s', m s = (r, s') -> Inv s s'.

Lemma SpecI_ro {A} (m : M A) : readonly m -> SpecI m.
Proof. intros H s r s' E. apply H in E; subst. apply Inv_refl. Qed.
Lemma SpecI_bind {A B} (m : M A) (f : A -> M B) : SpecI m -> (forall a, SpecI (f a)) -> SpecI (bindM m f).
Proof.
  intros Hm Hf s r s' H. apply bind_inv in H. destruct H as [(a & s1 & H1 & H) | (e & H1 & ->)].
  - eapply Inv_trans; [eapply Hm | eapply Hf]; eauto.
  - eapply Hm; eauto.
Qed.
Lemma SpecI_alloc v : SpecI (alloc v).
Proof. intros s r s' H. apply alloc_inv in H. destruct H as [_ ->]. apply Inv_alloc. Qed.
Lemma SpecI_emitE ev : SpecI (emitE ev).
Proof. intros s r s' H. apply emitE_inv in H. destruct H as [_ ->]. apply Inv_same; reflexivity. Qed.
Lemma SpecI_tick : SpecI tick.
Proof. intros s r s' H. apply tick_inv in H. destruct H. apply Inv_same; auto. Qed.
Lemma SpecI_mapM {A B} (f : A -> M B) l : (forall a, SpecI (f a)) -> SpecI (mapM f l).
Proof.
  intro Hf. induction l as [|x t IH]; simpl; [apply SpecI_ro, ro_ret|].
  apply SpecI_bind; auto. intro. apply SpecI_bind; auto. intro; apply SpecI_ro, ro_ret.
Qed.
Lemma SpecI_none_val : SpecI none_val.
Proof. unfold none_val. apply SpecI_bind; [apply SpecI_alloc | intro; apply SpecI_ro, ro_ret]. Qed.

Ltac spi :=
  repeat first
    [ apply SpecI_alloc | apply SpecI_emitE | apply SpecI_tick | apply SpecI_none_val
    | assumption
    | apply SpecI_ro; solve [ro | apply ro_show_str | apply ro_join_args | apply ro_unwrap_any
                             | apply ro_equals | apply ro_same | apply ro_slice_bounds | apply ro_show ]
    | apply SpecI_bind; [|intro]
    | apply SpecI_mapM; intro
    | match goal with |- SpecI (match ?x with _ => _ end) => destruct x end
    | match goal with |- SpecI (if ?x then _ else _) => destruct x end ].

Lemma SpecI_copy_or_ref fuel : forall l, SpecI (copy_or_ref fuel l).
Proof. induction fuel as [|f IH]; intro l; simpl; spi. apply IH. Qed.

Lemma SpecI_deep_copy fuel : forall l, SpecI (deep_copy fuel l).
Proof. induction fuel as [|f IH]; intro l; simpl; spi; apply IH. Qed.

Lemma SpecI_zero_val t : SpecI (zero_val t).
Proof. destruct t; simpl; spi. Qed.
Lemma SpecI_bin_num op x y : SpecI (bin_num op x y).
Proof. destruct op; simpl; spi. Qed.
Lemma SpecI_bin_str op x y : SpecI (bin_str op x y).
Proof. destruct op; simpl; spi. Qed.
Lemma SpecI_bin_bool op x y : SpecI (bin_bool op x y).
Proof. destruct op; simpl; spi. Qed.
Lemma SpecI_bin_arr op xs r : SpecI (bin_arr op xs r).
Proof.
  destruct op; simpl; spi; try apply SpecI_copy_or_ref; try apply SpecI_deep_copy.
Qed.

(* ---------- forward execution of a monadic equation ---------- *)
Ltac fwd1 :=
  match goal with
  | H : bindM _ _ _ = (_, _) |- _ =>
      apply bind_inv in H; destruct H as [(? & ? & ? & H) | (? & ? & ?)]
  | H : ?r = Er _ |- _ => is_var r; subst r
  | H : ?r = Ok _ |- _ => is_var r; subst r
  | H : ret _ _ = (_, _) |- _ => apply ret_inv in H; destruct H as [? ?]; subst
  | H : fail _ _ = (_, _) |- _ => apply fail_inv in H; destruct H as [? ?]; subst
  | H : crash _ _ = (_, _) |- _ => apply crash_inv in H; destruct H as [? ?]; subst
  | H : internal _ _ = (_, _) |- _ => apply internal_inv in H; destruct H as [? ?]; subst
  | H : lift _ _ = (_, _) |- _ => apply lift_inv in H; destruct H as [? ?]; subst
  | H : depth_fuel _ = (_, _) |- _ => apply depth_fuel_inv in H; destruct H as [? ?]; subst
  | H : load _ _ = (_, _) |- _ => apply load_inv in H; destruct H as [? [(? & ? & ?) | [? ?]]]; subst
  | H : load_num _ _ = (_, _) |- _ => apply load_num_inv in H; destruct H as [? ?]; subst
  | H : load_str _ _ = (_, _) |- _ => apply load_str_inv in H; destruct H as [? ?]; subst
  | H : load_bool _ _ = (_, _) |- _ => apply load_bool_inv in H; destruct H as [? ?]; subst
  | H : Ok _ = Ok _ |- _ => inversion H; subst; clear H
  | H : Ok _ = Er _ |- _ => discriminate H
  | H : Er _ = Ok _ |- _ => discriminate H
  | H : Some _ = Some _ |- _ => inversion H; subst; clear H
  | H : (_, _) = (_, _) |- _ => inversion H; subst; clear H
  | H : (match ?x with _ => _ end) _ = (_, _) |- _ => destruct x eqn:?
  | H : (if ?x then _ else _) _ = (_, _) |- _ => destruct x eqn:?
  | H : (let '(_, _) := ?x in _) _ = (_, _) |- _ => destruct x eqn:?
  end.
Ltac fwd := repeat fwd1.

Ltac inv_chain :=
  repeat match goal with
         | |- Inv ?s ?s => apply Inv_refl
         | H : Inv ?a ?b |- Inv ?a ?c => apply (Inv_trans a b c H); clear H
         end.

(* turn state-changing primitive equations into Inv facts *)
Ltac prim1 :=
  match goal with
  | H : alloc _ ?s = (_, ?s') |- _ =>
      let K := fresh "K" in pose proof (SpecI_alloc _ _ _ _ H) as K;
      apply alloc_inv in H; destruct H as [? _]
  | H : tick ?s = (_, ?s') |- _ => apply SpecI_tick in H
  | H : emitE _ ?s = (_, ?s') |- _ => apply SpecI_emitE in H
  | H : none_val ?s = (_, ?s') |- _ => apply SpecI_none_val in H
  | H : copy_or_ref _ _ ?s = (_, ?s') |- _ => apply SpecI_copy_or_ref in H
  | H : deep_copy _ _ ?s = (_, ?s') |- _ => apply SpecI_deep_copy in H
  | H : zero_val _ ?s = (_, ?s') |- _ => apply SpecI_zero_val in H
  | H : bin_num _ _ _ ?s = (_, ?s') |- _ => apply SpecI_bin_num in H
  | H : bin_str _ _ _ ?s = (_, ?s') |- _ => apply SpecI_bin_str in H
  | H : bin_bool _ _ _ ?s = (_, ?s') |- _ => apply SpecI_bin_bool in H
  | H : bin_arr _ _ _ ?s = (_, ?s') |- _ => apply SpecI_bin_arr in H
  | H : equals _ _ _ ?s = (_, ?s') |- _ => apply ro_equals in H; subst
  | H : same _ _ _ ?s = (_, ?s') |- _ => apply ro_same in H; subst
  | H : show _ _ _ ?s = (_, ?s') |- _ => apply ro_show in H; subst
  | H : show_str _ ?s = (_, ?s') |- _ => apply ro_show_str in H; subst
  | H : join_args _ _ ?s = (_, ?s') |- _ => apply ro_join_args in H; subst
  | H : unwrap_any _ ?s = (_, ?s') |- _ => apply ro_unwrap_any in H; subst
  | H : slice_bounds _ _ _ ?s = (_, ?s') |- _ => apply ro_slice_bounds in H; subst
  | H : mapM (copy_or_ref _) _ ?s = (_, ?s') |- _ =>
      apply (SpecI_mapM _ _ (fun a => SpecI_copy_or_ref _ a)) in H
  end.

(* ---------- names ---------- *)
Lemma n_err_not_underscore : str_eqb n_err underscore = false. Proof. reflexivity. Qed.
Lemma n_errmsg_not_underscore : str_eqb n_errmsg underscore = false. Proof. reflexivity. Qed.

(* no local frame binds err / errmsg: globalErr then reaches the global cells *)
Definition good_env (e : env) : Prop := env_get n_err e = None /\ env_get n_errmsg e = None.

Lemma lookup_err_good e s r s' :
  good_env e -> lookup n_err e s = (r, s') -> s' = s /\ r = Ok (frame_get n_err (st_globals s)).
Proof.
  intros [G _]. unfold lookup. rewrite n_err_not_underscore, G. intro H; inversion H; auto.
Qed.
Lemma lookup_errmsg_good e s r s' :
  good_env e -> lookup n_errmsg e s = (r, s') -> s' = s /\ r = Ok (frame_get n_errmsg (st_globals s)).
Proof.
  intros [_ G]. unfold lookup. rewrite n_errmsg_not_underscore, G. intro H; inversion H; auto.
Qed.

(* globalErr: the only in-place mutation of basic cells, and only of the err cells *)
Lemma store_err_fwd l v s r s' v0 :
  store l v s = (r, s') -> hget (st_heap s) l = Some v0 -> same_kind v0 v -> err_loc (st_globals s) l ->
  Inv s s' /\ st_globals s' = st_globals s.
Proof.
  intros H Hg K E. apply store_inv in H. destruct H as [_ ->]. split; [|reflexivity].
  eapply Inv_store_err; eauto.
Qed.

Lemma SpecI_global_err e is_err msg : good_env e -> SpecI (global_err e is_err msg).
Proof.
  intros G s r s' H. unfold global_err in H.
  apply bind_inv in H. destruct H as [(a & s1 & H1 & H) | (x & H1 & ->)];
    apply (lookup_err_good _ _ _ _ G) in H1; destruct H1 as [-> H1]; [|discriminate].
  inversion H1; subst; clear H1.
  destruct (frame_get n_err (st_globals s)) as [l|] eqn:El; [|fwd; apply Inv_refl].
  apply bind_inv in H. destruct H as [(v & s1 & H1 & H) | (x & H1 & ->)];
    apply load_inv in H1; destruct H1 as [-> H1]; [|apply Inv_refl].
  destruct H1 as [(v' & Hv & Hg) | [? _]]; [|discriminate]. inversion Hv; subst v'; clear Hv.
  destruct v; try (fwd; apply Inv_refl).
  apply bind_inv in H. destruct H as [(u & s1 & H1 & H) | (x & H1 & ->)];
    (eapply store_err_fwd in H1; [|eassumption|exact I|left; exact El]); destruct H1 as [I1 G1];
    [|exact I1].
  eapply Inv_trans; [exact I1|]. clear I1.
  apply bind_inv in H. destruct H as [(a & s2 & H1 & H) | (x & H1 & ->)];
    apply (lookup_errmsg_good _ _ _ _ G) in H1; destruct H1 as [-> H1]; [|discriminate].
  inversion H1; subst; clear H1. rewrite G1 in H.
  destruct (frame_get n_errmsg (st_globals s)) as [l2|] eqn:El2; [|fwd; apply Inv_refl].
  apply bind_inv in H. destruct H as [(v & s2 & H1 & H) | (x & H1 & ->)];
    apply load_inv in H1; destruct H1 as [-> H1]; [|apply Inv_refl].
  destruct H1 as [(v' & Hv & Hg') | [? _]]; [|discriminate]. inversion Hv; subst v'; clear Hv.
  destruct v; try (fwd; apply Inv_refl).
  destruct (pieces_str msg); [|fwd; apply Inv_refl].
  eapply store_err_fwd in H; [|eassumption|exact I|right; rewrite G1; exact El2]. tauto.
Qed.

(* ---------- frames ---------- *)
Lemma frame_get_replace_other n n' l f : n' <> n -> frame_get n' (frame_replace n l f) = frame_get n' f.
Proof.
  intro N. induction f as [|[k x] t IH]; simpl; auto.
  destruct (str_eqb k n) eqn:E; simpl.
  - apply str_eqb_eq in E; subst. destruct (str_eqb n n') eqn:E2; auto.
    apply str_eqb_eq in E2; congruence.
  - destruct (str_eqb k n'); auto.
Qed.
Lemma frame_get_replace_same n l f x : frame_get n f = Some x -> frame_get n (frame_replace n l f) = Some l.
Proof.
  induction f as [|[k y] t IH]; simpl; [discriminate|].
  destruct (str_eqb k n) eqn:E; simpl; rewrite E; auto.
Qed.
Lemma frame_get_set_other n n' l f : n' <> n -> frame_get n' (frame_set n l f) = frame_get n' f.
Proof.
  intro N. unfold frame_set. destruct (frame_get n f); [apply frame_get_replace_other; auto|].
  simpl. destruct (str_eqb n n') eqn:E; auto. apply str_eqb_eq in E; congruence.
Qed.
Lemma frame_get_set_same n l f : frame_get n (frame_set n l f) = Some l.
Proof.
  unfold frame_set. destruct (frame_get n f) eqn:E; [eapply frame_get_replace_same; eauto|].
  simpl. rewrite str_eqb_refl; auto.
Qed.

Definition name_ok (n : str) : bool := negb (str_eqb n n_err) && negb (str_eqb n n_errmsg).
Lemma name_ok_neq n : name_ok n = true -> n <> n_err /\ n <> n_errmsg.
Proof.
  unfold name_ok. rewrite andb_true_iff, !negb_true_iff, !str_eqb_neq. auto.
Qed.
Lemma name_ok_underscore : name_ok underscore = true. Proof. reflexivity. Qed.

Definition frame_ok (f : frame) : Prop := frame_get n_err f = None /\ frame_get n_errmsg f = None.

Lemma good_env_nil : good_env []. Proof. split; reflexivity. Qed.
Lemma good_env_cons f e : good_env (f :: e) <-> frame_ok f /\ good_env e.
Proof.
  unfold good_env, frame_ok; simpl.
  destruct (frame_get n_err f), (frame_get n_errmsg f); split; intros [[? ?] [? ?]] || intros [? ?];
    repeat split; auto; discriminate.
Qed.
Lemma good_env_push e : good_env e -> good_env ([] :: e).
Proof. intro G. apply good_env_cons; split; [split; reflexivity | exact G]. Qed.
Lemma good_env_tl e : good_env e -> good_env (tl e).
Proof. destruct e; simpl; auto. intro G; apply good_env_cons in G; tauto. Qed.
Lemma good_env_single f : frame_ok f -> good_env [f].
Proof. intro F. apply good_env_cons; split; [exact F | apply good_env_nil]. Qed.
Lemma frame_ok_set n l f : name_ok n = true -> frame_ok f -> frame_ok (frame_set n l f).
Proof.
  intros N [F1 F2]. apply name_ok_neq in N. destruct N as [N1 N2].
  split; rewrite frame_get_set_other by congruence; auto.
Qed.
Lemma frame_ok_nil : frame_ok []. Proof. split; reflexivity. Qed.
#[export] Hint Resolve good_env_nil good_env_push good_env_tl good_env_single frame_ok_set frame_ok_nil : genv.

Lemma env_update_none n l e : env_get n e = None -> env_update n l e = None.
Proof.
  induction e as [|f t IH]; simpl; auto. destruct (frame_get n f); [discriminate|].
  intro H; rewrite IH; auto.
Qed.
Lemma env_get_update_other n n' l e e' : n' <> n -> env_update n l e = Some e' -> env_get n' e' = env_get n' e.
Proof.
  intro N. revert e'. induction e as [|f t IH]; simpl; [discriminate|]. intro e'.
  destruct (frame_get n f).
  - intro H; inversion H; subst; simpl. rewrite frame_get_replace_other; auto.
  - destruct (env_update n l t) as [e0|]; simpl; [|discriminate]. intro H; inversion H; subst; simpl.
    rewrite (IH e0); auto.
Qed.

Lemma err_loc_set_other n l g x : name_ok n = true -> err_loc (frame_set n l g) x <-> err_loc g x.
Proof.
  intro N. apply name_ok_neq in N. destruct N. unfold err_loc. rewrite !frame_get_set_other by congruence; tauto.
Qed.
Lemma err_loc_replace_other n l g x : name_ok n = true -> err_loc (frame_replace n l g) x <-> err_loc g x.
Proof.
  intro N. apply name_ok_neq in N. destruct N. unfold err_loc. rewrite !frame_get_replace_other by congruence; tauto.
Qed.

(* scope.set for a name other than err / errmsg *)
Lemma set_var_fwd n l e s r s' :
  set_var n l e s = (r, s') -> name_ok n = true -> good_env e ->
  Inv s s' /\ forall e', r = Ok e' -> good_env e'.
Proof.
  unfold set_var. intros H N G. destruct (str_eqb n underscore).
  { inversion H; subst. split; [apply Inv_refl | intros ? E; inversion E; subst; auto]. }
  destruct e as [|f t]; inversion H; subst; clear H.
  - split; [|intros ? E; inversion E; subst; auto].
    apply Inv_heap_same; simpl; auto. intros x v E _ _. apply err_loc_set_other in E; auto.
  - split; [apply Inv_refl | intros ? E; inversion E; subst].
    apply good_env_cons in G. apply good_env_cons. split; [apply frame_ok_set|]; tauto.
Qed.

(* scope.update for a name other than err / errmsg (loop variables) *)
Lemma update_var_fwd n l e s r s' :
  update_var n l e s = (r, s') -> name_ok n = true -> good_env e ->
  Inv s s' /\ forall e', r = Ok e' -> good_env e'.
Proof.
  unfold update_var. intros H N G. destruct (str_eqb n underscore).
  { inversion H; subst. split; [apply Inv_refl | intros ? E; inversion E; subst; auto]. }
  destruct (env_update n l e) as [e1|] eqn:U.
  { inversion H; subst; clear H. split; [apply Inv_refl | intros ? E; inversion E; subst].
    pose proof (name_ok_neq _ N) as [N1 N2]. destruct G as [G1 G2]. split.
    - rewrite (env_get_update_other n n_err l e); auto.
    - rewrite (env_get_update_other n n_errmsg l e); auto. }
  destruct (frame_get n (st_globals s)); inversion H; subst; clear H.
  - split; [|intros ? E; inversion E; subst; auto].
    apply Inv_heap_same; simpl; auto. intros x v E _ _. apply err_loc_replace_other in E; auto.
  - split; [apply Inv_refl | discriminate].
Qed.

(* ====================================================================== *)
(* 4. A1 — copy_or_ref                                                     *)
(* ====================================================================== *)
(* only the heap changes, and only by extension *)
Definition only_extends (s s' : state) : Prop :=
  heap_extends (st_heap s) (st_heap s') /\ wf s' /\ s' = upd_heap (st_heap s') s.

Lemma only_extends_refl s : wf s -> only_extends s s.
Proof. intro W. split; [apply heap_extends_refl|split; [auto|destruct s; reflexivity]]. Qed.
Lemma only_extends_trans a b c : only_extends a b -> only_extends b c -> only_extends a c.
Proof.
  intros (A1 & A2 & A3) (B1 & B2 & B3). split; [eapply heap_extends_trans; eauto|split; auto].
  rewrite B3 at 1. rewrite A3. reflexivity.
Qed.
Lemma only_extends_alloc s v : wf s -> only_extends s (upd_heap (snd (halloc (st_heap s) v)) s).
Proof.
  intro W. split; [apply heap_extends_halloc; auto|split; [apply fresh_ok_halloc; auto|reflexivity]].
Qed.

(* how the result c of copy_or_ref relates to its argument l: [N] is hnext of the heap
   before the call (cells >= N did not exist), [h'] the heap after it (which extends the
   heap before: every old cell is unchanged) *)
Inductive copy_rel (N : positive) (h' : heap) : loc -> loc -> Prop :=
| cr_basic l c v : hget h' l = Some v -> is_basic v = true ->
                   N <= c -> hget h' c = Some v -> copy_rel N h' l c
| cr_comp l v : hget h' l = Some v -> is_composite v = true -> copy_rel N h' l l
| cr_any l c t i i' : hget h' l = Some (HAny t i) ->
                      N <= c -> hget h' c = Some (HAny t i') -> c <> i' ->
                      copy_rel N h' i i' -> copy_rel N h' l c.

Lemma copy_rel_mono N N' h1 h2 l c :
  N' <= N -> heap_extends h1 h2 -> copy_rel N h1 l c -> copy_rel N' h2 l c.
Proof.
  intros LN [_ E] C. induction C.
  - eapply cr_basic; eauto. lia.
  - eapply cr_comp; eauto.
  - eapply cr_any; eauto. lia.
Qed.

Lemma copy_or_ref_spec fuel : forall l s r s',
  copy_or_ref fuel l s = (r, s') -> wf s ->
  only_extends s s' /\
  forall c, r = Ok c -> copy_rel (hnext (st_heap s)) (st_heap s') l c /\ c < hnext (st_heap s').
Proof.
  induction fuel as [|f IH]; intros l s r s' H W; simpl in H.
  { apply fail_inv in H; destruct H as [-> ->]. split; [apply only_extends_refl; auto | discriminate]. }
  apply bind_inv in H. destruct H as [(v & s1 & H1 & H) | (e & H1 & ->)];
    apply load_inv in H1; destruct H1 as [-> H1]; [|split; [apply only_extends_refl; auto | discriminate]].
  destruct H1 as [(v' & Hv & Hg) | [? _]]; [|discriminate]. inversion Hv; subst v'; clear Hv.
  destruct v.
  1-3: apply alloc_inv in H; destruct H as [-> ->]; split; [apply only_extends_alloc; auto|];
       intros c E; inversion E; subst; clear E; split;
       [eapply cr_basic; [apply hget_halloc_old; eauto | reflexivity | lia | apply hget_halloc_new]
       | simpl; lia].
  - apply bind_inv in H. destruct H as [(i' & s1 & H1 & H) | (e & H1 & ->)];
      destruct (IH _ _ _ _ H1 W) as [X1 X2]; [|split; [auto|discriminate]].
    destruct (X2 _ eq_refl) as [C L]. destruct X1 as (E1 & W1 & E3).
    apply alloc_inv in H; destruct H as [-> ->]. split.
    + eapply only_extends_trans; [split; [exact E1|split; [exact W1|exact E3]]|apply only_extends_alloc; auto].
    + intros c E; inversion E; subst; clear E. split; [|simpl; lia].
      eapply cr_any.
      * apply hget_halloc_old; [exact W1|]. apply E1. exact Hg.
      * destruct E1; lia.
      * apply hget_halloc_new.
      * lia.
      * eapply copy_rel_mono; [|apply heap_extends_halloc; exact W1 | exact C]. lia.
  - apply ret_inv in H; destruct H as [-> ->]. split; [apply only_extends_refl; auto|].
    intros c E; inversion E; subst. split; [eapply cr_comp; eauto | eapply wf_alloc_lt; eauto].
  - apply ret_inv in H; destruct H as [-> ->]. split; [apply only_extends_refl; auto|].
    intros c E; inversion E; subst. split; [eapply cr_comp; eauto | eapply wf_alloc_lt; eauto].
  - apply crash_inv in H; destruct H as [-> ->]. split; [apply only_extends_refl; auto | discriminate].
Qed.

(* the result is either a cell that did not exist, or the (non-basic) argument itself *)
Lemma copy_rel_fresh_or_same h h' l c :
  fresh_ok h -> copy_rel (hnext h) h' l c ->
  hget h c = None \/ (c = l /\ exists v, hget h' l = Some v /\ is_composite v = true).
Proof. intros W C. destruct C; [left; apply W; auto | right; eauto | left; apply W; auto]. Qed.

(* val = copyOrRef(val); scope.update(name, val) — for EVERY name, err and errmsg included:
   the copy is what keeps the new err cell from being an old basic cell *)
Lemma assign_var_fwd d l n e s1 v s2 r s3 :
  copy_or_ref d l s1 = (Ok v, s2) -> update_var n v e s2 = (r, s3) -> good_env e ->
  Inv s1 s3 /\ forall e', r = Ok e' -> good_env e'.
Proof.
  intros C U G.
  destruct (name_ok n) eqn:N.
  { destruct (update_var_fwd _ _ _ _ _ _ U N G) as [I2 GE]. split; auto.
    eapply Inv_trans; [eapply SpecI_copy_or_ref; eauto | exact I2]. }
  pose proof (SpecI_copy_or_ref _ _ _ _ _ C) as I1.
  unfold update_var in U. destruct (str_eqb n underscore).
  { inversion U; subst. split; [auto | intros ? E; inversion E; subst; auto]. }
  assert (En : env_update n v e = None).
  { apply env_update_none. unfold name_ok in N. destruct G as [G1 G2].
    destruct (str_eqb n n_err) eqn:E1; [apply str_eqb_eq in E1; subst; auto|].
    destruct (str_eqb n n_errmsg) eqn:E2; [apply str_eqb_eq in E2; subst; auto|]. discriminate. }
  rewrite En in U.
  destruct (frame_get n (st_globals s2)) eqn:Fg; inversion U; subst; clear U;
    [|split; [auto | discriminate]].
  split; [|intros ? E; inversion E; subst; auto].
  intro W. destruct (I1 W) as [W2 R12]. split; [exact W2|].
  destruct (copy_or_ref_spec _ _ _ _ _ C W) as [OE X]. destruct (X _ eq_refl) as [CR _].
  apply copy_rel_fresh_or_same in CR; [|exact W].
  destruct R12 as [A1 A2 A3 A4]. constructor; simpl; auto.
  intros x w E Hx Hb.
  assert (x <> v).
  { intro; subst x. destruct CR as [CR | [-> (w' & Hw & Hc)]]; [congruence|].
    destruct OE as ((_ & OE) & _). apply OE in Hx.
    rewrite Hw in Hx; inversion Hx; subst w'. destruct w; simpl in Hb, Hc; discriminate. }
  assert (Hxv : x <> v) by assumption.
  apply (A4 x w); auto.
  unfold name_ok in N. unfold err_loc in *.
  destruct (str_eqb n n_err) eqn:E1.
  - apply str_eqb_eq in E1; subst n.
    rewrite (frame_get_replace_same _ _ _ _ Fg) in E.
    rewrite frame_get_replace_other in E by (intro Q; discriminate Q).
    destruct E as [E|E]; [inversion E; congruence | right; auto].
  - destruct (str_eqb n n_errmsg) eqn:E2; [|discriminate].
    apply str_eqb_eq in E2; subst n.
    rewrite (frame_get_replace_same _ _ _ _ Fg) in E.
    rewrite frame_get_replace_other in E by (intro Q; discriminate Q).
    destruct E as [E|E]; [left; auto | inversion E; congruence].
Qed.

(* ====================================================================== *)
(* 5. Built-ins: ONE lemma, uniform over the [if name_is …] chain          *)
(* ====================================================================== *)
(* the body of `del` *)
Lemma SpecI_del_body m k :
  SpecI (let* mv := load m in let* ks := load_str k in
         match mv with
         | HMap om => let* _ := store m (HMap (odel ks om)) in none_val
         | _ => crash "del: not a *mapVal"
         end).
Proof.
  intros s r s' H.
  apply bind_inv in H. destruct H as [(v & s1 & H1 & H) | (e & H1 & ->)];
    apply load_inv in H1; destruct H1 as [-> H1]; [|apply Inv_refl].
  destruct H1 as [(v' & Hv & Hg) | [? _]]; [|discriminate]. inversion Hv; subst v'; clear Hv.
  apply bind_inv in H. destruct H as [(ks & s1 & H1 & H) | (e & H1 & ->)];
    apply ro_load_str in H1; subst; [|apply Inv_refl].
  destruct v; try (apply crash_inv in H; destruct H as [-> ->]; apply Inv_refl).
  apply bind_inv in H. destruct H as [(u & s1 & H1 & H) | (e & H1 & ->)];
    apply store_inv in H1; destruct H1 as [_ ->].
  - eapply Inv_trans; [|eapply SpecI_none_val; eauto].
    eapply (Inv_store_composite _ _ _ _ Hg); [reflexivity | exact I].
  - eapply (Inv_store_composite _ _ _ _ Hg); [reflexivity | exact I].
Qed.

Lemma SpecI_alloc_some v : SpecI (let* l := alloc v in ret (Some l)).
Proof. spi. Qed.

Lemma SpecI_read_body :
  SpecI (fun s => match st_input s with
             | [] => (let* l := alloc (HStr []) in ret (Some l)) (upd_trace (EvRead :: st_trace s) s)
             | x :: t => (let* l := alloc (HStr x) in ret (Some l)) (upd_input t (upd_trace (EvRead :: st_trace s) s))
             end).
Proof.
  intros s r s' H. destruct (st_input s);
    (eapply Inv_trans; [|eapply SpecI_alloc_some; exact H]); apply Inv_same; reflexivity.
Qed.

Ltac spi_b G :=
  repeat first
    [ apply SpecI_alloc | apply SpecI_emitE | apply SpecI_tick | apply SpecI_none_val
    | apply SpecI_del_body | apply SpecI_read_body
    | apply SpecI_global_err; exact G
    | assumption
    | apply SpecI_ro; solve [ro | apply ro_show_str | apply ro_join_args | apply ro_unwrap_any
                             | apply ro_equals | apply ro_same | apply ro_slice_bounds | apply ro_show ]
    | apply SpecI_bind; [|intro]
    | apply SpecI_mapM; intro
    | match goal with |- SpecI (match ?x with _ => _ end) => destruct x end
    | match goal with |- SpecI (if ?x then _ else _) => destruct x end ].

(* a computation that factors through the heap and only extends it (SemPure: every pure
   built-in) changes no existing cell at all *)
Lemma SpecI_heap_only {A} (m : M A) : heap_only m -> SpecI m.
Proof.
  intros HO s r s' H W. destruct (heap_only_run m s r s' HO H) as (E & X & _).
  destruct (X W) as [W' [X1 X2]]. apply (Inv_extends s s'); auto.
  - split; assumption.
  - rewrite E. reflexivity.
Qed.

Lemma SpecI_builtin name e args m :
  good_env e -> builtin name e args = Some m -> SpecI m.
Proof.
  intros G H. unfold builtin in H.
  repeat match type of H with
         | (if ?c then _ else _) = Some _ => destruct c; [inversion H; subst m; clear H; spi_b G|]
         end.
  eapply SpecI_heap_only, pure_builtin_spec; exact H.
Qed.

(* the test builtin only reads the heap and bumps counters *)
Lemma run_test_heap args s r s' :
  run_test args s = (r, s') -> st_heap s' = st_heap s /\ st_globals s' = st_globals s.
Proof.
  unfold run_test. intro H.
  apply bind_inv in H. destruct H as [(d & s1 & H1 & H) | (e & H1 & ->)];
    apply depth_fuel_inv in H1; destruct H1 as [? ->]; [|auto].
  match type of H with (match ?v s with _ => _ end) = _ => destruct (v s) as [[u|er] s1] eqn:V end;
    assert (s1 = s) by
      (revert V; match goal with |- ?v s = _ -> _ => assert (RO : readonly v) end;
       [destruct args as [|a [|b [|c t]]]; ro; apply ro_unwrap_any | intro V; apply RO in V; auto]);
    subst s1.
  2: { inversion H; subst; auto. }
  match type of H with (match ?v s with _ => _ end) = _ => destruct (v s) as [[[|]|er] s1] eqn:V2 end;
    assert (s1 = s) by
      (revert V2; match goal with |- ?v s = _ -> _ => assert (RO : readonly v) end;
       [destruct args as [|a [|b t]]; ro; try apply ro_unwrap_any; apply ro_same
       | intro V2; apply RO in V2; auto]);
    subst s1.
  - inversion H; subst; auto.
  - destruct (st_failfast _); inversion H; subst; auto.
  - inversion H; subst; auto.
Qed.

Lemma bind_params_spec ps : forall args fr s r s',
  bind_params ps args fr s = (r, s') ->
  s' = s /\ forall fr' rest, r = Ok (fr', rest) ->
    forallb (fun p => name_ok (fst p)) ps = true -> frame_ok fr -> frame_ok fr'.
Proof.
  induction ps as [|[n t] ps IH]; intros args fr s r s' H; simpl in H.
  - apply ret_inv in H; destruct H as [-> ->]. split; auto. intros ? ? E; inversion E; subst; auto.
  - destruct args as [|a rest]; [apply crash_inv in H; destruct H as [-> ->]; split; [auto|discriminate]|].
    apply IH in H. destruct H as [-> H]. split; auto.
    intros fr' rest' E Hn F. simpl in Hn. apply andb_true_iff in Hn. destruct Hn as [Hn1 Hn2].
    eapply H; eauto. destruct (str_eqb n underscore); auto. apply frame_ok_set; auto.
Qed.
