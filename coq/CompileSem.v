(* CompileSem.v — the specification side of compile_correct (C16): the
   fragment predicates (Coq booleans) and a direct big-step semantics of the
   fragment, with a fuel index for loops.  No proofs here (CompileSemProofs.v);
   the entry point exec_case lets the harness run this semantics next to the
   evaluator and its model coq/Sem.v. *)
From Coq Require Import ZArith NArith List Bool Floats String.
From EvyV Require Import Base Bytecode SymTab Vm Compile.
Import ListNotations.
Open Scope string_scope.
Open Scope N_scope.

(* ---------- the expression fragment ---------- *)
Fixpoint pairs_len (l : eplist) : Z := match l with PNil => 0 | PCons _ _ t => 1 + pairs_len t end.

Fixpoint efrag (e : expr) : bool :=
  match e with
  | ENum _ | EBool _ | EStr _ | EVar _ => true
  | EGroup e1 => efrag e1
  | EUn UMinus e1 | EUn UBang e1 => efrag e1
  | EBin _ _ _ l r | EIndex l r => efrag l && efrag r
  | EArr l => efrag_list l
  | EMap kvs np => Z.eqb np (pairs_len kvs) && efrag_pairs kvs   (* len(Pairs) = len(Order): no key twice *)
  | ESlice l a b => efrag l && efrag_o a && efrag_o b
  | _ => false
  end
with efrag_list (l : elist) : bool :=
  match l with ENil => true | ECons e t => efrag e && efrag_list t end
with efrag_pairs (l : eplist) : bool :=
  match l with PNil => true | PCons _ e t => efrag e && efrag_pairs t end
with efrag_o (o : oexpr) : bool :=
  match o with ONoneE => true | OSome e => efrag e end.


Definition ofrag (o : oexpr) : bool := match o with ONoneE => true | OSome e => efrag e end.


(* ---------- environments ---------- *)
Definition upd (env : genv) (n : str) (v : value) : genv :=
  fun m => if str_eqb m n then Some v else env m.


(* ---------- semantics ---------- *)
(* [None]: out of fuel, or an expression whose evaluation is undefined
   (eval_expr), or a statement outside the fragment; the boolean of a result
   says that a `break` is under way (the innermost enclosing loop ends it) *)
(* the element of an iterable at position i: OpIterRange *)
Definition iter_elem (iter : value) (i : nat) : option value :=
  match iter with
  | VArr l => nth_error l i
  | VMap m => option_map (fun kv => VStr (fst kv)) (nth_error m i)
  | VStr s => let runes := utf8_decode s in
              if (i <? List.length runes)%nat then Some (VStr (utf8_encode (firstn 1 (skipn i runes)))) else None
  | _ => None
  end.
(* None: the counter is not a non-negative integer (cannot happen from 0 by +1
   below 2^53); Some None: the iteration is over *)
Definition iter_next (iter : value) (idx : float) : option (option value) :=
  match float_to_Z idx with
  | Some z => if (z <? 0)%Z then None else Some (iter_elem iter (Z.to_nat z))
  | None => None
  end.

(* OpStepRange's `stillGoing` *)
Definition going (idx stp stop : float) : bool :=
  (PrimFloat.ltb 0 stp && PrimFloat.ltb idx stop) || (PrimFloat.ltb stp 0 && PrimFloat.ltb stop idx).

Fixpoint exec_s (fuel : nat) (s : stmt) (env : genv) {struct fuel} : option (genv * bool) :=
  match fuel with
  | O => None
  | S f =>
      match s with
      | SDecl n e => option_map (fun v => (upd env n v, false)) (eval_expr env e)
      | SAssign (EVar n) e => option_map (fun v => (upd env n v, false)) (eval_expr env e)
      | SEmpty => Some (env, false)
      | SBreak => Some (env, true)
      | SIf c b elifs els => exec_c f (CCons c b elifs) els env
      | SForStep None start stop step b =>
          match eval_expr env stop, eval_expr env (match step with OSome e => e | ONoneE => ENum 1 end),
                eval_expr env (match start with OSome e => e | ONoneE => ENum 0 end) with
          | Some (VNum vstop), Some (VNum vstep), Some (VNum vstart) =>
              if PrimFloat.eqb vstep 0 then None          (* ErrRangeValue *)
              else exec_r f vstart vstep vstop b env
          | _, _, _ => None
          end
      | SForStep (Some n) start stop step b =>
          (* the loop variable: at top level a global, set to none first *)
          match eval_expr env stop, eval_expr env (match step with OSome e => e | ONoneE => ENum 1 end),
                eval_expr env (match start with OSome e => e | ONoneE => ENum 0 end) with
          | Some (VNum vstop), Some (VNum vstep), Some (VNum vstart) =>
              if PrimFloat.eqb vstep 0 then None
              else exec_rv f n vstart vstep vstop b (upd env n VNone)
          | _, _, _ => None
          end
      | SForIter None t e b =>
          match t with
          | TStr | TArr | TMap =>
              match eval_expr env e with
              | Some iter => exec_i f 0%float iter b env
              | None => None
              end
          | _ => None
          end
      | SForIter (Some n) t e b =>
          (* over the elements of an array / the characters of a string / the keys of a map *)
          match t with
          | TStr | TArr | TMap =>
              match eval_expr env e with
              | Some iter => exec_iv f n 0%float iter b (upd env n VNone)
              | None => None
              end
          | _ => None
          end
      | SWhile c b =>
          match eval_expr env c with
          | Some (VBool true) =>
              match exec_l f b env with
              | Some (env1, false) => exec_s f (SWhile c b) env1
              | Some (env1, true) => Some (env1, false)          (* break leaves the loop *)
              | None => None
              end
          | Some (VBool false) => Some (env, false)
          | _ => None
          end
      | _ => None
      end
  end
with exec_l (fuel : nat) (l : slist) (env : genv) {struct fuel} : option (genv * bool) :=
  match fuel with
  | O => None
  | S f =>
      match l with
      | SNil => Some (env, false)
      | SCons s1 t =>
          match exec_s f s1 env with
          | Some (env1, false) => exec_l f t env1
          | Some (env1, true) => Some (env1, true)               (* the rest of the block is skipped *)
          | None => None
          end
      end
  end
(* `for range start stop step` without loop variable, from index idx on *)
with exec_r (fuel : nat) (idx stp stop : float) (b : slist) (env : genv) {struct fuel} : option (genv * bool) :=
  match fuel with
  | O => None
  | S f =>
      if going idx stp stop then
        match exec_l f b env with
        | Some (env1, false) => exec_r f (idx + stp)%float stp stop b env1
        | Some (env1, true) => Some (env1, false)              (* break leaves the loop *)
        | None => None
        end
      else Some (env, false)
  end
(* `for n := range start stop step`, from index idx on *)
with exec_rv (fuel : nat) (n : str) (idx stp stop : float) (b : slist) (env : genv) {struct fuel} : option (genv * bool) :=
  match fuel with
  | O => None
  | S f =>
      if going idx stp stop then
        match exec_l f b (upd env n (VNum idx)) with
        | Some (env1, false) => exec_rv f n (idx + stp)%float stp stop b env1
        | Some (env1, true) => Some (env1, false)
        | None => None
        end
      else Some (env, false)
  end
(* `for range iter` (no loop variable), from (float) index idx on *)
with exec_i (fuel : nat) (idx : float) (iter : value) (b : slist) (env : genv) {struct fuel} : option (genv * bool) :=
  match fuel with
  | O => None
  | S f =>
      match iter_next iter idx with
      | Some (Some _) =>
          match exec_l f b env with
          | Some (env1, false) => exec_i f (idx + 1)%float iter b env1
          | Some (env1, true) => Some (env1, false)
          | None => None
          end
      | Some None => Some (env, false)
      | None => None
      end
  end
(* `for n := range iter`, from (float) index idx on *)
with exec_iv (fuel : nat) (n : str) (idx : float) (iter : value) (b : slist) (env : genv) {struct fuel} : option (genv * bool) :=
  match fuel with
  | O => None
  | S f =>
      match iter_next iter idx with
      | Some (Some v) =>
          match exec_l f b (upd env n v) with
          | Some (env1, false) => exec_iv f n (idx + 1)%float iter b env1
          | Some (env1, true) => Some (env1, false)
          | None => None
          end
      | Some None => Some (env, false)
      | None => None
      end
  end
(* the condition chain of an if statement: the first true condition runs its block *)
with exec_c (fuel : nat) (l : clist) (els : oslist) (env : genv) {struct fuel} : option (genv * bool) :=
  match fuel with
  | O => None
  | S f =>
      match l with
      | CNil => match els with NoElse => Some (env, false) | Else eb => exec_l f eb env end
      | CCons c b t =>
          match eval_expr env c with
          | Some (VBool true) => exec_l f b env
          | Some (VBool false) => exec_c f t els env
          | _ => None
          end
      end
  end.

(* the deepest expression of a statement *)
Fixpoint sdepth (s : stmt) : N :=
  match s with
  | SDecl _ e | SAssign _ e => edepth e
  | SIf c b elifs els => N.max (edepth c) (N.max (ldepth b) (N.max (cdepth elifs) (match els with NoElse => 0 | Else eb => ldepth eb end)))
  | SWhile c b => N.max (edepth c) (ldepth b)
  | SForStep _ start stop step b =>
      (* the operands are evaluated on top of each other; the loop keeps 3 slots and pushes a flag *)
      N.max (edepth stop)
        (N.max (1 + edepth (match step with OSome e => e | ONoneE => ENum 1 end))
           (N.max (2 + edepth (match start with OSome e => e | ONoneE => ENum 0 end))
              (N.max 5 (3 + ldepth b))))
  | SForIter _ _ e b => N.max (edepth e) (N.max 4 (2 + ldepth b))
  | _ => 0
  end
with ldepth (l : slist) : N :=
  match l with SNil => 0 | SCons s t => N.max (sdepth s) (ldepth t) end
with cdepth (l : clist) : N :=
  match l with CNil => 0 | CCons c b t => N.max (edepth c) (N.max (ldepth b) (cdepth t)) end.


(* ---------- the statement fragment ---------- *)
Fixpoint wfrag_stmt (s : stmt) : bool :=
  match s with
  | SAssign (EVar _) e => efrag e
  | SEmpty => true
  | SBreak => true
  | SIf c b elifs els =>
      efrag c && wfrag_slist b && wfrag_clist elifs && match els with NoElse => true | Else eb => wfrag_slist eb end
  | SWhile c b => efrag c && wfrag_slist b
  | SForStep None start stop step b => ofrag start && efrag stop && ofrag step && wfrag_slist b
  | SForIter None t e b => match t with TStr | TArr | TMap => efrag e && wfrag_slist b | _ => false end
  | _ => false
  end
with wfrag_slist (l : slist) : bool :=
  match l with SNil => true | SCons s t => wfrag_stmt s && wfrag_slist t end
with wfrag_clist (l : clist) : bool :=
  match l with CNil => true | CCons c b t => efrag c && wfrag_slist b && wfrag_clist t end.


(* no break outside a loop *)
Fixpoint nb_stmt (s : stmt) : bool :=
  match s with
  | SBreak => false
  | SIf c b elifs els => nb_slist b && nb_clist elifs && match els with NoElse => true | Else eb => nb_slist eb end
  | _ => true
  end
with nb_slist (l : slist) : bool :=
  match l with SNil => true | SCons s t => nb_stmt s && nb_slist t end
with nb_clist (l : clist) : bool :=
  match l with CNil => true | CCons c b t => nb_slist b && nb_clist t end.


Definition psfrag_stmt (s : stmt) : bool :=
  match s with
  | SDecl _ e => efrag e
  | SForStep (Some _) start stop step b => ofrag start && efrag stop && ofrag step && wfrag_slist b
  | SForIter (Some _) t e b => match t with TStr | TArr | TMap => efrag e && wfrag_slist b | _ => false end
  | _ => wfrag_stmt s && nb_stmt s
  end.
Fixpoint psfrag (p : slist) : bool := match p with SNil => true | SCons s t => psfrag_stmt s && psfrag t end.


(* ====================================================================== *)
(* the semantics with block scopes: declarations and loop variables anywhere *)
(* ====================================================================== *)
(* an environment is a list of frames, innermost first; the last one holds the
   globals.  A block pushes an empty frame and pops it at its end (also when a
   break leaves it). *)
Definition frame := list (str * value).
Definition senv := list frame.

Fixpoint alook (n : str) (f : frame) : option value :=
  match f with [] => None | (k, v) :: t => if str_eqb k n then Some v else alook n t end.
Fixpoint slook (n : str) (env : senv) : option value :=
  match env with
  | [] => None
  | f :: r => match alook n f with Some v => Some v | None => slook n r end
  end.
(* x := e: a (new) binding in the innermost frame *)
Definition sdecl (n : str) (v : value) (env : senv) : senv :=
  match env with [] => [[(n, v)]] | f :: r => ((n, v) :: f) :: r end.
(* x = e: the innermost frame that has x gets the new value *)
Fixpoint sassign (n : str) (v : value) (env : senv) : option senv :=
  match env with
  | [] => None
  | f :: r => match alook n f with
              | Some _ => Some (((n, v) :: f) :: r)
              | None => option_map (cons f) (sassign n v r)
              end
  end.

Definition lv_decl (lv : option str) (env : senv) : senv :=
  match lv with Some n => sdecl n VNone env | None => env end.
Definition lv_set (lv : option str) (v : value) (env : senv) : option senv :=
  match lv with Some n => sassign n v env | None => Some env end.
(* leaving a block *)
Definition leave (r : option (senv * bool)) : option (senv * bool) :=
  match r with Some (env1, br) => Some (tl env1, br) | None => None end.

Fixpoint lx_s (fuel : nat) (s : stmt) (env : senv) {struct fuel} : option (senv * bool) :=
  match fuel with
  | O => None
  | S f =>
      match s with
      | SDecl n e => option_map (fun v => (sdecl n v env, false)) (eval_expr (fun x => slook x env) e)
      | SAssign (EVar n) e =>
          match eval_expr (fun x => slook x env) e with
          | Some v => option_map (fun env' => (env', false)) (sassign n v env)
          | None => None
          end
      | SEmpty => Some (env, false)
      | SBreak => Some (env, true)
      | SIf c b elifs els => lx_c f (CCons c b elifs) els env
      | SWhile c b =>
          match eval_expr (fun x => slook x env) c with
          | Some (VBool true) =>
              match leave (lx_l f b ([] :: env)) with
              | Some (env1, false) => lx_s f (SWhile c b) env1
              | Some (env1, true) => Some (env1, false)
              | None => None
              end
          | Some (VBool false) => Some (env, false)
          | _ => None
          end
      | SForStep lv start stop step b =>
          match eval_expr (fun x => slook x env) stop,
                eval_expr (fun x => slook x env) (match step with OSome e => e | ONoneE => ENum 1 end),
                eval_expr (fun x => slook x env) (match start with OSome e => e | ONoneE => ENum 0 end) with
          | Some (VNum vstop), Some (VNum vstep), Some (VNum vstart) =>
              if PrimFloat.eqb vstep 0 then None
              else lx_r f lv vstart vstep vstop b (lv_decl lv env)
          | _, _, _ => None
          end
      | SForIter lv t e b =>
          match t with
          | TStr | TArr | TMap =>
              match eval_expr (fun x => slook x env) e with
              | Some iter => lx_i f lv 0%float iter b (lv_decl lv env)
              | None => None
              end
          | _ => None
          end
      | _ => None
      end
  end
with lx_l (fuel : nat) (l : slist) (env : senv) {struct fuel} : option (senv * bool) :=
  match fuel with
  | O => None
  | S f =>
      match l with
      | SNil => Some (env, false)
      | SCons s1 t =>
          match lx_s f s1 env with
          | Some (env1, false) => lx_l f t env1
          | Some (env1, true) => Some (env1, true)
          | None => None
          end
      end
  end
with lx_r (fuel : nat) (lv : option str) (idx stp stop : float) (b : slist) (env : senv) {struct fuel} : option (senv * bool) :=
  match fuel with
  | O => None
  | S f =>
      if going idx stp stop then
        match lv_set lv (VNum idx) env with
        | Some env0 =>
            match leave (lx_l f b ([] :: env0)) with
            | Some (env1, false) => lx_r f lv (idx + stp)%float stp stop b env1
            | Some (env1, true) => Some (env1, false)
            | None => None
            end
        | None => None
        end
      else Some (env, false)
  end
with lx_i (fuel : nat) (lv : option str) (idx : float) (iter : value) (b : slist) (env : senv) {struct fuel} : option (senv * bool) :=
  match fuel with
  | O => None
  | S f =>
      match iter_next iter idx with
      | Some (Some v) =>
          match lv_set lv v env with
          | Some env0 =>
              match leave (lx_l f b ([] :: env0)) with
              | Some (env1, false) => lx_i f lv (idx + 1)%float iter b env1
              | Some (env1, true) => Some (env1, false)
              | None => None
              end
          | None => None
          end
      | Some None => Some (env, false)
      | None => None
      end
  end
with lx_c (fuel : nat) (l : clist) (els : oslist) (env : senv) {struct fuel} : option (senv * bool) :=
  match fuel with
  | O => None
  | S f =>
      match l with
      | CNil => match els with NoElse => Some (env, false) | Else eb => leave (lx_l f eb ([] :: env)) end
      | CCons c b t =>
          match eval_expr (fun x => slook x env) c with
          | Some (VBool true) => leave (lx_l f b ([] :: env))
          | Some (VBool false) => lx_c f t els env
          | _ => None
          end
      end
  end.

(* the fragment with locals: declarations and for loops with a loop variable anywhere *)
Fixpoint lfrag_stmt (s : stmt) : bool :=
  match s with
  | SDecl _ e => efrag e
  | SAssign (EVar _) e => efrag e
  | SEmpty | SBreak => true
  | SIf c b elifs els =>
      efrag c && lfrag_slist b && lfrag_clist elifs && match els with NoElse => true | Else eb => lfrag_slist eb end
  | SWhile c b => efrag c && lfrag_slist b
  | SForStep _ start stop step b => ofrag start && efrag stop && ofrag step && lfrag_slist b
  | SForIter _ t e b => match t with TStr | TArr | TMap => efrag e && lfrag_slist b | _ => false end
  | _ => false
  end
with lfrag_slist (l : slist) : bool :=
  match l with SNil => true | SCons s t => lfrag_stmt s && lfrag_slist t end
with lfrag_clist (l : clist) : bool :=
  match l with CNil => true | CCons c b t => efrag c && lfrag_slist b && lfrag_clist t end.

(* ---------- what the fragment leaves out of the compiler's input ---------- *)
(* [plain]: no element store `a[i] = e`, and two things the parser never
   produces: a map literal whose len(Pairs) differs from len(Order) (a key
   twice: "duplicated map key" is a parse error) and a block as a statement
   of its own (BlockStatement only occurs as a body).  Every program the
   compiler accepts and that is plain lies in lfrag (CompileLocProofs.v). *)
Fixpoint mapok (e : expr) : bool :=
  match e with
  | EArr l => mapok_list l
  | EMap kvs np => Z.eqb np (pairs_len kvs) && mapok_pairs kvs
  | EUn _ e1 | EGroup e1 => mapok e1
  | EBin _ _ _ l r | EIndex l r => mapok l && mapok r
  | ESlice l a b => mapok l && mapok_o a && mapok_o b
  | _ => true
  end
with mapok_list (l : elist) : bool :=
  match l with ENil => true | ECons e t => mapok e && mapok_list t end
with mapok_pairs (l : eplist) : bool :=
  match l with PNil => true | PCons _ e t => mapok e && mapok_pairs t end
with mapok_o (o : oexpr) : bool :=
  match o with ONoneE => true | OSome e => mapok e end.

Fixpoint plain_stmt (s : stmt) : bool :=
  match s with
  | SDecl _ e => mapok e
  | SAssign target e => match target with EIndex _ _ => false | _ => true end && mapok e
  | SIf c b elifs els =>
      mapok c && plain_slist b && plain_clist elifs && match els with NoElse => true | Else eb => plain_slist eb end
  | SWhile c b => mapok c && plain_slist b
  | SForStep _ start stop step b => mapok_o start && mapok stop && mapok_o step && plain_slist b
  | SForIter _ _ e b => mapok e && plain_slist b
  | SBlock _ => false
  | _ => true
  end
with plain_slist (l : slist) : bool :=
  match l with SNil => true | SCons s t => plain_stmt s && plain_slist t end
with plain_clist (l : clist) : bool :=
  match l with CNil => true | CCons c b t => mapok c && plain_slist b && plain_clist t end.

(* [wplain]: plain without the restriction on element stores — only the two
   shapes the parser never produces are excluded.  Every program the compiler
   accepts and that is wplain lies in the fragment of compile_wf (C17). *)
Fixpoint wplain_stmt (s : stmt) : bool :=
  match s with
  | SDecl _ e => mapok e
  | SAssign target e => mapok target && mapok e
  | SIf c b elifs els =>
      mapok c && wplain_slist b && wplain_clist elifs && match els with NoElse => true | Else eb => wplain_slist eb end
  | SWhile c b => mapok c && wplain_slist b
  | SForStep _ start stop step b => mapok_o start && mapok stop && mapok_o step && wplain_slist b
  | SForIter _ _ e b => mapok e && wplain_slist b
  | SBlock _ => false
  | _ => true
  end
with wplain_slist (l : slist) : bool :=
  match l with SNil => true | SCons s t => wplain_stmt s && wplain_slist t end
with wplain_clist (l : clist) : bool :=
  match l with CNil => true | CCons c b t => mapok c && wplain_slist b && wplain_clist t end.

(* a whole program: the fragment, and no break outside a loop *)
Definition lpfrag (p : slist) : bool := lfrag_slist p && nb_slist p.

(* ---------- wire: the semantics as an executable, next to the evaluator ---------- *)
(* the names a program can assign (declarations, assignments, loop variables) *)
Fixpoint names_stmt (s : stmt) : list str :=
  match s with
  | SDecl n _ => [n]
  | SAssign (EVar n) _ => [n]
  | SIf _ b elifs els => names_slist b ++ names_clist elifs ++ match els with NoElse => [] | Else eb => names_slist eb end
  | SWhile _ b => names_slist b
  | SForStep lv _ _ _ b => (match lv with Some n => [n] | None => [] end) ++ names_slist b
  | SForIter lv _ _ b => (match lv with Some n => [n] | None => [] end) ++ names_slist b
  | _ => []
  end
with names_slist (l : slist) : list str :=
  match l with SNil => [] | SCons s t => names_stmt s ++ names_slist t end
with names_clist (l : clist) : list str :=
  match l with CNil => [] | CCons _ b t => names_slist b ++ names_clist t end.

Fixpoint dedup (l : list str) (seen : list str) : list str :=
  match l with
  | [] => []
  | n :: t => if existsb (str_eqb n) seen then dedup t seen else n :: dedup t (n :: seen)
  end.

(* (exec fuel (stmt…)) ↦ (outside) — not in psfrag
                        | (undefined) — out of fuel or a run-time error (eval_expr / a zero step undefined)
                        | (globals ("name" value)…) — the final environment
   (lexec fuel (stmt…)): the same for the scoped semantics lx_l on lpfrag, from
   the environment [[]]; the names are looked up in the final environment
   (its only frame left is the globals: a result with another number of
   frames is reported as (frames n))
   (shape (stmt…)) ↦ (shape wplain nb plain lfrag) *)
Definition exec_case (x : sx) : sx :=
  match x with
  | Lst [Sym t; Int fuel; Lst stmts] =>
      if str_eqb t (s_ "exec") then
        match dec_program 400 stmts with
        | None => Sym (s_ "decode-error")
        | Some p =>
            if negb (psfrag p) then Lst [Sym (s_ "outside")]
            else match exec_l (Z.to_nat fuel) p (fun _ => None) with
                 | Some (env, false) =>
                     Lst (Sym (s_ "globals") ::
                          flat_map (fun n => match env n with
                                             | Some v => [Lst [Str n; enc_value 50 v]]
                                             | None => []
                                             end) (dedup (names_slist p) []))
                 | _ => Lst [Sym (s_ "undefined")]
                 end
        end
      else if str_eqb t (s_ "lexec") then
        match dec_program 400 stmts with
        | None => Sym (s_ "decode-error")
        | Some p =>
            if negb (lpfrag p) then Lst [Sym (s_ "outside")]
            else match lx_l (Z.to_nat fuel) p [[]] with
                 | Some ([g], false) =>
                     Lst (Sym (s_ "globals") ::
                          flat_map (fun n => match alook n g with
                                             | Some v => [Lst [Str n; enc_value 50 v]]
                                             | None => []
                                             end) (dedup (names_slist p) []))
                 | Some (env, false) => Lst [Sym (s_ "frames"); Int (Z.of_nat (List.length env))]
                 | _ => Lst [Sym (s_ "undefined")]
                 end
        end
      else Sym (s_ "decode-error")
  | Lst [Sym t; Lst stmts] =>
      (* (shape (stmt…)) ↦ (shape wplain nb plain lfrag): the side conditions of the whole-program theorems *)
      if str_eqb t (s_ "shape") then
        match dec_program 400 stmts with
        | None => Sym (s_ "decode-error")
        | Some p =>
            let b (x : bool) := Sym (if x then s_ "t" else s_ "f") in
            Lst [Sym (s_ "shape"); b (wplain_slist p); b (nb_slist p); b (plain_slist p); b (lfrag_slist p)]
        end
      else Sym (s_ "decode-error")
  | _ => Sym (s_ "decode-error")
  end.
