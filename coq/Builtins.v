(* Builtins.v — executable model of evy's non-graphics built-in functions
   (pkg/evaluator/builtin.go), value rendering (value.go: String, Repr,
   keyRepr; lexer.IsIdent), test bookkeeping (testinfo.go, evaluator.go:
   evalFunccall / Eval) and the exit status of `evy run` (main.go:
   handleEvyErr).  No proofs here (see BuiltinsProofs.v).

   API for other models (e.g. the evaluator model): everything in the sections
   "strings", "values", "numbers" is a pure function over [str] (= list of code
   points), Coq primitive floats and lists; everything that the Go code
   delegates to strconv / unicode / libm / math/rand is a field of the record
   [oracles] which is passed explicitly (never an axiom).  [call_builtin] is the
   dispatcher: name + argument values + state  ->  outcome + state. *)
From Coq Require Import ZArith NArith List Bool String Floats DecimalString.
From EvyV Require Import Base BuiltinTy.
From EvyV.Gen Require Import BuiltinSigs.
Import ListNotations.
Open Scope Z_scope.

(* ====================================================================== *)
(** * strings *)

(* lenFunc on a string: len(arg.runes()) *)
Definition len_str (s : str) : nat := List.length s.

(* strings.HasPrefix(s, p) *)
Fixpoint prefixb (p s : str) : bool :=
  match p, s with
  | [], _ => true
  | x :: p', y :: s' => N.eqb x y && prefixb p' s'
  | _ :: _, [] => false
  end.

(* startswithFunc *)
Definition startswith (s p : str) : bool := prefixb p s.

(* endswithFunc: strings.HasSuffix = len(s) >= len(suffix) && s[len(s)-len(suffix):] == suffix *)
Definition endswith (s suf : str) : bool :=
  Nat.leb (List.length suf) (List.length s)
  && str_eqb (skipn (List.length s - List.length suf) s) suf.

(* strings.Index in code points: position of the first occurrence *)
Fixpoint index_from (i : nat) (s sub : str) : option nat :=
  if prefixb sub s then Some i
  else match s with
       | [] => None
       | _ :: t => index_from (S i) t sub
       end.
Definition index_cp (s sub : str) : option nat := index_from 0 s sub.

(* number of bytes of the UTF-8 encoding of a code point *)
Definition utf8_width (c : N) : nat :=
  if (c <? 128)%N then 1%nat else if (c <? 2048)%N then 2%nat else if (c <? 65536)%N then 3%nat else 4%nat.
Definition utf8_len (s : str) : nat := fold_right (fun c n => (utf8_width c + n)%nat) 0%nat s.

(* indexFunc (since 79c1bbb):
     idx := strings.Index(s, substr); if idx > 0 { idx = utf8.RuneCountInString(s[:idx]) }
   strings.Index finds the first occurrence (UTF-8 is self-synchronising, so the
   first byte-level match is the first code-point-level match); the byte offset
   is then converted to the number of characters before it — which, at the level
   of code points, is the position of the first occurrence itself. *)
Definition index_chars (s sub : str) : Z :=
  match index_cp s sub with
  | None => -1
  | Some i => Z.of_nat i
  end.
(* before 79c1bbb: float64(strings.Index(s, substr)), a BYTE offset (the encoded
   length of the prefix). Kept for the regression lemma only. *)
Definition index_bytes_before_fix (s sub : str) : Z :=
  match index_cp s sub with
  | None => -1
  | Some i => Z.of_nat (utf8_len (firstn i s))
  end.

(* strings.Join *)
Fixpoint join (l : list str) (sep : str) : str :=
  match l with
  | [] => []
  | [x] => x
  | x :: t => x ++ sep ++ join t sep
  end.

(* strings.Split(s, "") = explode(s, -1): one string per code point *)
Definition explode (s : str) : list str := map (fun c => [c]) s.

(* strings.genSplit(s, sep, 0, -1) for sep != "": the loop
     m := Index(s, sep); if m < 0 break; a[i] = s[:m]; s = s[m+len(sep):]
   [fuel] stands for n = Count(s, sep)+1 (at most len(s)+1 iterations) *)
Fixpoint split_ne (fuel : nat) (s sep : str) : list str :=
  match fuel with
  | O => [s]
  | S f =>
      match index_cp s sep with
      | None => [s]
      | Some m => firstn m s :: split_ne f (skipn (m + List.length sep) s) sep
      end
  end.

(* splitFunc *)
Definition split (s sep : str) : list str :=
  match sep with
  | [] => explode s
  | _ => split_ne (S (List.length s)) s sep
  end.

(* strings.Replace(s, old, new, -1) for old != "" : the loop
     j := start + Index(s[start:], old); write s[start:j], new; start = j+len(old) *)
Fixpoint replace_ne (fuel : nat) (s old new : str) : str :=
  match fuel with
  | O => s
  | S f =>
      match index_cp s old with
      | None => s
      | Some m => firstn m s ++ new ++ replace_ne f (skipn (m + List.length old) s) old new
      end
  end.

(* strings.Replace with old == "": new before every code point and at the end *)
Fixpoint replace_empty (s new : str) : str :=
  match s with
  | [] => new
  | c :: t => new ++ c :: replace_empty t new
  end.

(* replaceFunc: strings.ReplaceAll *)
Definition replace (s old new : str) : str :=
  if str_eqb old new then s
  else match old with
       | [] => replace_empty s new
       | _ => replace_ne (S (List.length s)) s old new
       end.

Fixpoint memN (c : N) (l : str) : bool :=
  match l with [] => false | x :: t => N.eqb x c || memN c t end.

(* strings.TrimLeft / TrimRight / Trim (cutset semantics) *)
Fixpoint trim_left (s cut : str) : str :=
  match s with
  | [] => []
  | c :: t => if memN c cut then trim_left t cut else s
  end.
Definition trim_right (s cut : str) : str := rev (trim_left (rev s) cut).
(* trimFunc: if s == "" || cutset == "" return s; right first, then left *)
Definition trim (s cut : str) : str :=
  match s, cut with
  | [], _ => s
  | _, [] => s
  | _, _ => trim_left (trim_right s cut) cut
  end.

(* ---------- small text helpers ---------- *)
Definition n_str (n : N) : str := s_ (NilZero.string_of_uint (N.to_uint n)).
Definition nat_str (n : nat) : str := n_str (N.of_nat n).
Definition z_str (z : Z) : str :=
  match z with
  | Z0 => s_ "0"
  | Zpos p => n_str (Npos p)
  | Zneg p => s_ "-" ++ n_str (Npos p)
  end.

Definition hex_digit (n : N) : N := if (n <? 10)%N then (48 + n)%N else (87 + n)%N. (* lower case *)
Fixpoint hex_fixed (digits : nat) (n : N) : str :=
  match digits with
  | O => []
  | S d => hex_fixed d (N.div n 16) ++ [hex_digit (N.modulo n 16)]
  end.

(* ====================================================================== *)
(** * oracles: what the Go code delegates to strconv / unicode / libm / rand *)

(* fmt's state for one verb (fmt.fmtFlags + wid + prec), as parsed by doPrintf *)
Record fmtspec := {
  f_sharp : bool; f_zero : bool; f_plus : bool; f_minus : bool; f_space : bool;
  f_wid : option N; f_prec : option N; f_verb : N }.

(* strconv.ParseFloat: value, or syntax error (value 0), or range error (value ±Inf) *)
Inductive parse_res := PFOk (f : float) | PFSyntax | PFRange (f : float).

Record oracles := {
  o_num_str : float -> str;              (* strconv.FormatFloat(f, 'f', -1, 64) *)
  o_fmt_float : fmtspec -> float -> str; (* what fmt prints for a float64 operand under one verb (any verb) *)
  o_upper : N -> N;                      (* unicode.ToUpper *)
  o_lower : N -> N;                      (* unicode.ToLower *)
  o_is_letter : N -> bool;               (* unicode.IsLetter *)
  o_is_print : N -> bool;                (* strconv.IsPrint *)
  o_parse_float : str -> parse_res;      (* strconv.ParseFloat(s, 64) *)
  o_math : str -> list float -> float;   (* math.Pow Log Sin Cos Atan2 *)
  o_rand : Z -> Z;                       (* RandSource.Int31n; contract 0 <= r < n *)
  o_rand1 : float                        (* RandSource.Float64 *)
}.

(* ====================================================================== *)
(** * numbers *)

Definition is_neg_inf (f : float) : bool := PrimFloat.eqb f neg_infinity.
Definition is_pos_inf (f : float) : bool := PrimFloat.eqb f infinity.
Definition signbit (f : float) : bool :=
  match Prim2SF f with
  | SpecFloat.S754_zero s | SpecFloat.S754_infinity s | SpecFloat.S754_finite s _ _ => s
  | SpecFloat.S754_nan => false
  end.

(* math.Min *)
Definition go_min (x y : float) : float :=
  if is_neg_inf x || is_neg_inf y then neg_infinity
  else if is_nan x || is_nan y then nan
  else if PrimFloat.eqb x 0 && PrimFloat.eqb x y then (if signbit x then x else y)
  else if PrimFloat.ltb x y then x else y.

(* math.Max *)
Definition go_max (x y : float) : float :=
  if is_pos_inf x || is_pos_inf y then infinity
  else if is_nan x || is_nan y then nan
  else if PrimFloat.eqb x 0 && PrimFloat.eqb x y then (if signbit x then y else x)
  else if PrimFloat.ltb y x then x else y.

Definition signed_zero (s : bool) : float := if s then neg_zero else zero.
Definition float_of_signed (s : bool) (z : Z) : float :=
  if z =? 0 then signed_zero s else if s then PrimFloat.opp (float_of_Z z) else float_of_Z z.

(* math.Floor: x for 0, NaN, ±Inf and integers; else the integer below.
   Decoded from the SpecFloat form (m·2^e, e<0 => fractional bits present). *)
Definition go_floor (f : float) : float :=
  match Prim2SF f with
  | SpecFloat.S754_finite s m e =>
      if 0 <=? e then f
      else let d := 2 ^ (- e) in
           let q := Z.pos m / d in
           let r := Z.pos m mod d in
           if s then float_of_signed true (if r =? 0 then q else q + 1)
           else float_of_signed false q
  | _ => f
  end.

(* math.Ceil(x) = -Floor(-x) *)
Definition go_ceil (f : float) : float := PrimFloat.opp (go_floor (PrimFloat.opp f)).

(* math.Round: nearest integer, halves away from zero, sign of zero kept *)
Definition go_round (f : float) : float :=
  match Prim2SF f with
  | SpecFloat.S754_finite s m e =>
      if 0 <=? e then f
      else let d := 2 ^ (- e) in
           let q := Z.pos m / d in
           let r := Z.pos m mod d in
           float_of_signed s (if d <=? 2 * r then q + 1 else q)
  | _ => f
  end.

(* truncation toward zero of a finite float *)
Definition float_trunc (f : float) : option Z :=
  match Prim2SF f with
  | SpecFloat.S754_zero _ => Some 0
  | SpecFloat.S754_finite s m e =>
      let a := if 0 <=? e then Z.pos m * 2 ^ e else Z.pos m / 2 ^ (- e) in
      Some (if s then - a else a)
  | _ => None
  end.

(* Go's int(f) (int64) on amd64: CVTTSD2SQ gives -2^63 for NaN, ±Inf and
   everything outside [-2^63, 2^63) *)
Definition go_int64 (f : float) : Z :=
  match float_trunc f with
  | Some z => if (- 2 ^ 63 <=? z) && (z <? 2 ^ 63) then z else - 2 ^ 63
  | None => - 2 ^ 63
  end.
(* Go's int32(f) on amd64: CVTTSD2SL gives -2^31 outside the range *)
Definition go_int32 (f : float) : Z :=
  match float_trunc f with
  | Some z => if (- 2 ^ 31 <=? z) && (z <? 2 ^ 31) then z else - 2 ^ 31
  | None => - 2 ^ 31
  end.

(* ====================================================================== *)
(** * values *)

Inductive val : Type :=
| VNum (f : float)
| VStr (s : str)
| VBool (b : bool)
| VAny (t : ty) (v : val)                 (* anyVal{V, T} *)
| VArr (t : ty) (l : list val)            (* arrayVal; t = element type *)
| VMap (t : ty) (l : list (str * val))    (* mapVal, pairs in Order; t = value type *)
| VNone.

Definition type_of (v : val) : ty :=
  match v with
  | VNum _ => TNum | VStr _ => TStr | VBool _ => TBool | VAny _ _ => TAny
  | VArr t _ => TArr t | VMap t _ => TMap t | VNone => TNone
  end.

(* parser.Type.String *)
Fixpoint ty_str (t : ty) : str :=
  match t with
  | TNum => s_ "num" | TStr => s_ "string" | TBool => s_ "bool" | TAny => s_ "any" | TNone => s_ "none"
  | TArr TNone => s_ "[]" | TMap TNone => s_ "{}"
  | TArr t' => s_ "[]" ++ ty_str t'
  | TMap t' => s_ "{}" ++ ty_str t'
  | TGenArr => s_ "[]" | TGenMap => s_ "{}"
  end.

Definition bool_str (b : bool) : str := s_ (if b then "true" else "false").

Section WithOracles.
Variable o : oracles.

(* upperFunc / lowerFunc: strings.ToUpper / ToLower map every code point *)
Definition upper (s : str) : str := map (o_upper o) s.
Definition lower (s : str) : str := map (o_lower o) s.

(* ---------- strconv.Quote ---------- *)
Definition esc_char (ascii_only : bool) (c : N) : str :=
  if N.eqb c 34 || N.eqb c 92 then [92%N; c]
  else if o_is_print o c && (negb ascii_only || (c <? 128)%N) then [c]
  else if N.eqb c 7 then s_ "\a" else if N.eqb c 8 then s_ "\b" else if N.eqb c 12 then s_ "\f"
  else if N.eqb c 10 then s_ "\n" else if N.eqb c 13 then s_ "\r" else if N.eqb c 9 then s_ "\t"
  else if N.eqb c 11 then s_ "\v"
  else if (c <? 32)%N || N.eqb c 127 then s_ "\x" ++ hex_fixed 2 c
  else if (1114111 <? c)%N || ((55296 <=? c)%N && (c <=? 57343)%N) then s_ "\ufffd"
  else if (c <? 65536)%N then s_ "\u" ++ hex_fixed 4 c
  else s_ "\U" ++ hex_fixed 8 c.

Definition quote_with (ascii_only : bool) (s : str) : str :=
  [34%N] ++ flat_map (esc_char ascii_only) s ++ [34%N].
Definition quote (s : str) : str := quote_with false s.

(* ---------- lexer.IsIdent (since 09cb4c8) ----------
     if s == "" { return false }
     for i, r := range s { if !isLetter(r) && (i == 0 || !isDigit(r)) { return false } }
     return true *)
Definition is_letter_ (c : N) : bool := o_is_letter o c || N.eqb c 95.
Definition is_digit_ (c : N) : bool := (48 <=? c)%N && (c <=? 57)%N.
Fixpoint is_ident_loop (first : bool) (s : str) : bool :=
  match s with
  | [] => true
  | c :: t => if negb (is_letter_ c) && (first || negb (is_digit_ c)) then false
              else is_ident_loop false t
  end.
Definition is_ident (s : str) : bool :=
  match s with [] => false | _ => is_ident_loop true s end.

(* before 09cb4c8: `!isLetter(r) && (i > 0 && !isDigit(r))` — the first character
   was never rejected. Kept for the regression lemma only. *)
Fixpoint is_ident_loop_before_fix (first : bool) (s : str) : bool :=
  match s with
  | [] => true
  | c :: t => if negb (is_letter_ c) && (negb first && negb (is_digit_ c)) then false
              else is_ident_loop_before_fix false t
  end.
Definition is_ident_before_fix (s : str) : bool :=
  match s with [] => false | _ => is_ident_loop_before_fix true s end.

(* value.go: keyRepr *)
Definition key_repr (k : str) : str := if is_ident k then k else quote k.
Definition key_repr_before_fix (k : str) : str := if is_ident_before_fix k then k else quote k.

(* ---------- value.String() ---------- *)
Fixpoint vstring (v : val) : str :=
  match v with
  | VNum f => o_num_str o f
  | VStr s => s
  | VBool b => bool_str b
  | VAny _ v' => vstring v'
  | VArr _ l => s_ "[" ++ join (map vstring l) (s_ " ") ++ s_ "]"
  | VMap _ l => s_ "{" ++ join (map (fun kv => let '(k, x) := kv in k ++ s_ ":" ++ vstring x) l) (s_ " ") ++ s_ "}"
  | VNone => []
  end.

(* ---------- value.Repr() (parameterised by the key rendering) ---------- *)
Section Repr.
Variable kr : str -> str.
Fixpoint vrepr_with (v : val) : str :=
  match v with
  | VNum f => o_num_str o f
  | VStr s => quote s
  | VBool b => bool_str b
  | VAny _ v' => vrepr_with v'
  | VArr _ l => s_ "[" ++ join (map vrepr_with l) (s_ " ") ++ s_ "]"
  | VMap _ l => s_ "{" ++ join (map (fun kv => let '(k, x) := kv in kr k ++ s_ ":" ++ vrepr_with x) l) (s_ " ") ++ s_ "}"
  | VNone => []
  end.
End Repr.
Definition vrepr : val -> str := vrepr_with key_repr.

(* builtin.go: join(args, sep) used by print / sprint / joinFunc *)
Definition join_vals (l : list val) (sep : str) : str := join (map vstring l) sep.
(* reprFunc *)
Definition repr_vals (l : list val) : str := join (map vrepr l) (s_ " ").

(* ---------- sprintf: fmt.Sprintf(format, unwrapped args...) ---------- *)
(* unwrapBasicvalue: float64 / string / bool; composites by their String() *)
Inductive farg := FNum (f : float) | FStr (s : str) | FBool (b : bool).
Fixpoint unwrap_basic (v : val) : farg :=
  match v with
  | VNum f => FNum f
  | VStr s => FStr s
  | VBool b => FBool b
  | VAny _ v' => unwrap_basic v'
  | _ => FStr (vstring v)
  end.

Definition farg_type (a : farg) : str :=
  match a with FNum _ => s_ "float64" | FStr _ => s_ "string" | FBool _ => s_ "bool" end.

Definition spec0 (verb : N) : fmtspec :=
  {| f_sharp := false; f_zero := false; f_plus := false; f_minus := false; f_space := false;
     f_wid := None; f_prec := None; f_verb := verb |}.

(* fmt.padString: width counts code points; '-' pads right with blanks,
   otherwise left with blanks or (flag 0) zeros *)
Definition pad_string (sp : fmtspec) (s : str) : str :=
  match f_wid sp with
  | None => s
  | Some w =>
      let n := (N.to_nat w - List.length s)%nat in
      if f_minus sp then s ++ repeat 32%N n
      else repeat (if f_zero sp then 48%N else 32%N) n ++ s
  end.

(* fmt.truncateString: precision limits the number of code points *)
Definition truncate_string (sp : fmtspec) (s : str) : str :=
  match f_prec sp with None => s | Some p => firstn (N.to_nat p) s end.

Definition fmt_s (sp : fmtspec) (s : str) : str := pad_string sp (truncate_string sp s).
(* fmt.fmtQ without '#': '+' selects QuoteToASCII *)
Definition fmt_q (sp : fmtspec) (s : str) : str :=
  pad_string sp (quote_with (f_plus sp) (truncate_string sp s)).

(* doPrintf for verb 'v': sharp -> sharpV, plus -> plusV (both cleared) *)
Definition clear_sharp_plus (sp : fmtspec) : fmtspec :=
  {| f_sharp := false; f_zero := f_zero sp; f_plus := false; f_minus := f_minus sp; f_space := f_space sp;
     f_wid := f_wid sp; f_prec := f_prec sp; f_verb := f_verb sp |}.

Definition verb_is (sp : fmtspec) (c : string) : bool := str_eqb [f_verb sp] (s_ c).

(* pp.printArg(arg, verb) for the three operand types; None = outside the model
   (%x/%X of strings, %T, %#q) *)
Definition bad_verb (sp : fmtspec) (a : farg) (inner : str) : str :=
  s_ "%!" ++ [f_verb sp] ++ s_ "(" ++ farg_type a ++ s_ "=" ++ inner ++ s_ ")".

Definition print_arg (sp : fmtspec) (a : farg) : option str :=
  if verb_is sp "T" then None else
  match a with
  | FNum f => Some (o_fmt_float o sp f)
  | FBool b =>
      if verb_is sp "t" || verb_is sp "v" then Some (pad_string sp (bool_str b))
      else Some (bad_verb sp a (pad_string sp (bool_str b)))
  | FStr s =>
      if verb_is sp "v" then Some (if f_sharp sp then fmt_q (clear_sharp_plus sp) s else fmt_s sp s)
      else if verb_is sp "s" then Some (fmt_s sp s)
      else if verb_is sp "q" then (if f_sharp sp then None else Some (fmt_q sp s))
      else if verb_is sp "x" || verb_is sp "X" then None
      else Some (bad_verb sp a (fmt_s sp s))
  end.

(* flags loop of doPrintf *)
Fixpoint take_flags (sp : fmtspec) (s : str) : fmtspec * str :=
  match s with
  | c :: t =>
      if N.eqb c 35 then take_flags {| f_sharp := true; f_zero := f_zero sp; f_plus := f_plus sp; f_minus := f_minus sp; f_space := f_space sp; f_wid := None; f_prec := None; f_verb := 0 |} t
      else if N.eqb c 48 then take_flags {| f_sharp := f_sharp sp; f_zero := negb (f_minus sp); f_plus := f_plus sp; f_minus := f_minus sp; f_space := f_space sp; f_wid := None; f_prec := None; f_verb := 0 |} t
      else if N.eqb c 43 then take_flags {| f_sharp := f_sharp sp; f_zero := f_zero sp; f_plus := true; f_minus := f_minus sp; f_space := f_space sp; f_wid := None; f_prec := None; f_verb := 0 |} t
      else if N.eqb c 45 then take_flags {| f_sharp := f_sharp sp; f_zero := false; f_plus := f_plus sp; f_minus := true; f_space := f_space sp; f_wid := None; f_prec := None; f_verb := 0 |} t
      else if N.eqb c 32 then take_flags {| f_sharp := f_sharp sp; f_zero := f_zero sp; f_plus := f_plus sp; f_minus := f_minus sp; f_space := true; f_wid := None; f_prec := None; f_verb := 0 |} t
      else (sp, s)
  | [] => (sp, [])
  end.

(* fmt.parsenum: decimal digits; a number above 10^6 makes it give up and skip
   to the end of the format: (0, false, end) *)
Fixpoint parsenum (acc : N) (seen : bool) (s : str) : option N * str :=
  match s with
  | c :: t =>
      if is_digit_ c then
        if (1000000 <? acc)%N then (None, [])
        else parsenum (acc * 10 + (c - 48))%N true t
      else ((if seen then Some acc else None), s)
  | [] => ((if seen then Some acc else None), [])
  end.

(* "%!(EXTRA type=value, ...)" *)
Definition extra_args (args : list farg) : option str :=
  match args with
  | [] => Some []
  | _ =>
      let items := map (fun a => match print_arg (spec0 118) a with
                                 | Some r => Some (farg_type a ++ s_ "=" ++ r)
                                 | None => None end) args in
      if forallb (fun x => match x with Some _ => true | None => false end) items
      then Some (s_ "%!(EXTRA " ++ join (flat_map (fun x => match x with Some r => [r] | None => [] end) items) (s_ ", ") ++ s_ ")")
      else None
  end.

Definition with_wid_prec_verb (sp : fmtspec) (w p : option N) (verb : N) : fmtspec :=
  {| f_sharp := f_sharp sp; f_zero := f_zero sp; f_plus := f_plus sp; f_minus := f_minus sp;
     f_space := f_space sp; f_wid := w; f_prec := p; f_verb := verb |}.

Definition opt_app (a : str) (b : option str) : option str := option_map (fun r => a ++ r) b.

(* fmt.doPrintf; None = the format uses something outside the model
   ('*' width/precision, '[n]' argument indexes, %T, %x of strings, %#q) *)
Fixpoint sprintf_loop (fuel : nat) (fmt : str) (args : list farg) : option str :=
  match fuel with
  | O => None
  | S fuel' =>
      match fmt with
      | [] => extra_args args
      | c :: t =>
          if negb (N.eqb c 37) then option_map (cons c) (sprintf_loop fuel' t args)
          else
            let '(sp, r1) := take_flags (spec0 0) t in
            match r1 with
            | c1 :: _ => if N.eqb c1 91 || N.eqb c1 42 then None else
              let '(w, r2) := parsenum 0 false r1 in
              let '(p, r3, bad) :=
                  (* precision only if something follows the '.': if i+1 < end && format[i] == '.' *)
                  match r2 with
                  | c2 :: t2 =>
                      if N.eqb c2 46 then
                        match t2 with
                        | c3 :: _ => if N.eqb c3 91 || N.eqb c3 42 then (None, t2, true)
                                     else let '(p, r) := parsenum 0 false t2 in
                                          ((match p with Some x => Some x | None => Some 0%N end), r, false)
                        | [] => (None, r2, false)
                        end
                      else (None, r2, false)
                  | [] => (None, [], false)
                  end in
              if bad then None else
              match r3 with
              | [] => opt_app (s_ "%!(NOVERB)") (extra_args args)
              | verb :: r4 =>
                  if N.eqb verb 91 || N.eqb verb 42 then None
                  else if N.eqb verb 37 then option_map (cons 37%N) (sprintf_loop fuel' r4 args)
                  else
                    match args with
                    | [] => opt_app (s_ "%!" ++ [verb] ++ s_ "(MISSING)") (sprintf_loop fuel' r4 [])
                    | a :: args' =>
                        let sp' := with_wid_prec_verb sp w p verb in
                        match print_arg sp' a with
                        | Some out => opt_app out (sprintf_loop fuel' r4 args')
                        | None => None
                        end
                    end
              end
            | [] => opt_app (s_ "%!(NOVERB)") (extra_args args)
            end
      end
  end.

Definition sprintf (fmt : str) (args : list val) : option str :=
  sprintf_loop (S (List.length fmt)) fmt (map unwrap_basic args).

(* ====================================================================== *)
(** * recoverable-error protocol: setGlobalErr / resetGlobalErr *)

Record errst := { e_err : bool; e_msg : str }.
Definition err_init : errst := {| e_err := false; e_msg := [] |}.
(* globalErr(scope, isErr, msg) *)
Definition global_err (isErr : bool) (msg : str) (st : errst) : errst := {| e_err := isErr; e_msg := msg |}.
Definition reset_global_err (st : errst) : errst := global_err false [] st.
Definition set_global_err (msg : str) (st : errst) : errst := global_err true msg st.

(* strconv.ParseBool *)
Definition true_literals : list str := [s_ "1"; s_ "t"; s_ "T"; s_ "TRUE"; s_ "true"; s_ "True"].
Definition false_literals : list str := [s_ "0"; s_ "f"; s_ "F"; s_ "FALSE"; s_ "false"; s_ "False"].
Definition parse_bool (s : str) : option bool :=
  if mem_str s true_literals then Some true
  else if mem_str s false_literals then Some false
  else None.

(* str2numFunc (since e40074a): on any error err is set and n = 0 *)
Definition str2num (s : str) (st : errst) : float * errst :=
  let st1 := reset_global_err st in
  match o_parse_float o s with
  | PFOk f => (f, st1)
  | PFSyntax => (zero, set_global_err (s_ "str2num: cannot parse " ++ quote s) st1)
  | PFRange _ => (zero, set_global_err (s_ "str2num: cannot parse " ++ quote s) st1)
  end.
(* before e40074a: ParseFloat's value (±Inf for a range error) was returned
   unchanged. Kept for the regression lemma only. *)
Definition str2num_before_fix (s : str) (st : errst) : float * errst :=
  let st1 := reset_global_err st in
  match o_parse_float o s with
  | PFOk f => (f, st1)
  | PFSyntax => (zero, set_global_err (s_ "str2num: cannot parse " ++ quote s) st1)
  | PFRange f => (f, set_global_err (s_ "str2num: cannot parse " ++ quote s) st1)
  end.

(* str2boolFunc *)
Definition str2bool (s : str) (st : errst) : bool * errst :=
  let st1 := reset_global_err st in
  match parse_bool s with
  | Some b => (b, st1)
  | None => (false, set_global_err (s_ "str2bool: cannot parse " ++ quote s) st1)
  end.

(* ====================================================================== *)
(** * outcomes and the dispatcher *)

Inductive panic_kind := BadArguments | PanicUser (msg : str).

Inductive outcome :=
| ORet (v : val)
| OPanic (k : panic_kind)
| OExit (f : float)             (* ExitError(int(f)) *)
| OTestFail (msg : str)         (* error wrapping ErrTest *)
| OHostCrash                    (* a Go panic in the host: must be unreachable *)
| OIllTyped                     (* the parser rejects the call (signature table) *)
| OUnsupported.                 (* outside this model *)

(* effects on the platform *)
Inductive effect := EPrint (s : str) | ECls | ESleep (ns : Z) | ERead | EClear (color : str).

(* randFunc (since 30a294b):
     if !(upper >= 1 && upper <= 2147483647) -> panic "bad arguments"   (also NaN)
     Int31n(int32(upper)) — Int31n panics in the host for n <= 0: OHostCrash,
   which BuiltinsProofs.rand_no_host_crash shows unreachable. *)
Definition rand_model (upper : float) : outcome :=
  if negb (PrimFloat.leb 1 upper && PrimFloat.leb upper 2147483647) then OPanic BadArguments
  else let n := go_int32 upper in
       if n <=? 0 then OHostCrash else ORet (VNum (float_of_Z (o_rand o n))).
(* before 30a294b: `upper < 1 || upper > 2147483647`, false for NaN, so
   Int31n(int32(NaN)) crashed the host. Kept for the regression lemma only. *)
Definition rand_model_before_fix (upper : float) : outcome :=
  if PrimFloat.ltb upper 1 || PrimFloat.ltb 2147483647 upper then OPanic BadArguments
  else let n := go_int32 upper in
       if n <=? 0 then OHostCrash else ORet (VNum (float_of_Z (o_rand o n))).

(* ---------- hslFunc ---------- *)
(* fmt's %v of a float64 is strconv.FormatFloat(f, 'g', -1, 64): the shortest
   digits that round-trip, in exponent form when exp < -4 || exp >= 6 ("if
   shortest { eprec = 6 }"), e.g. 100000 but 1e+06. Computed here for the subset
   that matters to hsl — non-negative integers below 10^6 are their plain
   decimal digits; everything else (fractions, -0, big values, NaN, ±Inf) goes
   to the oracle. *)
Definition fmt_v_num (f : float) : str :=
  match float_to_Z f with
  | Some z => if negb (signbit f) && (z <? 1000000) then z_str z
              else o_fmt_float o (spec0 118) f
  | None => o_fmt_float o (spec0 118) f
  end.

(* the range test as the code wrote it before 1433667: `x < 0 || x > hi` is the
   error case (false for NaN: NaN passed) *)
Definition hsl_out_of_range (x hi : float) : bool := PrimFloat.ltb x 0 || PrimFloat.ltb hi x.
(* the documented range, and the code's test since 1433667: "must be between 0 and hi" *)
Definition hsl_in_range (x hi : float) : bool := PrimFloat.leb 0 x && PrimFloat.leb x hi.

Definition hsl_text (h sa l a : float) : str :=
  s_ "hsl(" ++ fmt_v_num h ++ s_ "deg " ++ fmt_v_num sa ++ s_ "% " ++ fmt_v_num l ++ s_ "% / " ++ fmt_v_num a ++ s_ "%)".

Section Hsl.
Variable bad : float -> float -> bool.   (* which values are rejected: the test in force, or the one before the fix *)
(* hslFunc: 1 to 4 numbers; hue in [0,360]; saturation, lightness, alpha in
   [0,100] with defaults 100, 50, 100; result "hsl(<h>deg <s>% <l>% / <a>%)" *)
Definition hsl_with (nums : list float) : outcome :=
  match nums with
  | [] => OPanic BadArguments
  | _ :: _ :: _ :: _ :: _ :: _ => OPanic BadArguments
  | h :: rest =>
      if bad h 360 then OPanic BadArguments else
      let sa := match rest with x :: _ => x | [] => 100%float end in
      if (match rest with _ :: _ => bad sa 100 | [] => false end) then OPanic BadArguments else
      let l := match rest with _ :: x :: _ => x | _ => 50%float end in
      if (match rest with _ :: _ :: _ => bad l 100 | _ => false end) then OPanic BadArguments else
      let a := match rest with _ :: _ :: x :: _ => x | _ => 100%float end in
      if (match rest with _ :: _ :: _ :: _ => bad a 100 | _ => false end) then OPanic BadArguments else
      ORet (VStr (hsl_text h sa l a))
  end.
End Hsl.
(* the code (since 1433667): `!(x >= 0 && x <= max)` is the error case, so NaN is rejected too *)
Definition hsl_model : list float -> outcome := hsl_with (fun x hi => negb (hsl_in_range x hi)).
(* before 1433667: `x < 0 || x > max`, false for NaN. Kept for the regression lemma only. *)
Definition hsl_before_fix : list float -> outcome := hsl_with hsl_out_of_range.

Fixpoint nums_of (args : list val) : option (list float) :=
  match args with
  | [] => Some []
  | VNum x :: t => option_map (cons x) (nums_of t)
  | _ => None
  end.

(* ---------- same (testFunc) ---------- *)
Fixpoint find_pair (k : str) (l : list (str * val)) : option val :=
  match l with [] => None | (k', v) :: t => if str_eqb k' k then Some v else find_pair k t end.

Fixpoint same (want got : val) {struct got} : bool :=
  match got with
  | VArr _ gl =>
      match want with
      | VArr _ wl =>
          (fix go (g : list val) (w : list val) {struct g} : bool :=
             match g, w with
             | [], [] => true
             | y :: g', x :: w' => same x y && go g' w'
             | _, _ => false
             end) gl wl
      | _ => false
      end
  | VMap _ gl =>
      match want with
      | VMap _ wl =>
          Nat.eqb (List.length wl) (List.length gl) &&
          (fix go (g : list (str * val)) : bool :=
             match g with
             | [] => true
             | (k, y) :: g' => match find_pair k wl with
                               | Some x => same x y
                               | None => false
                               end && go g'
             end) gl
      | _ => false
      end
  | VAny _ g' =>
      match want with
      | VAny _ w' => same w' g'
      | _ => same want g'
      end
  | VNum g => match want with VNum w => PrimFloat.eqb w g | _ => false end
  | VStr g => match want with VStr w => str_eqb w g | _ => false end
  | VBool g => match want with VBool w => Bool.eqb w g | _ => false end
  | VNone => false
  end.

(* mapVal.Delete: the pair and its key in Order disappear (keys are unique) *)
Fixpoint remove_pair (k : str) (l : list (str * val)) : list (str * val) :=
  match l with
  | [] => []
  | (k', v) :: t => if str_eqb k' k then t else (k', v) :: remove_pair k t
  end.

Definition any_inner (v : val) : val := match v with VAny _ x => x | _ => v end.

(* testMessage *)
Definition test_message (args : list val) : option str :=
  match args with
  | _ :: _ :: m :: rest =>
      match any_inner m with
      | VStr msg =>
          match rest with
          | [] => Some (s_ " (" ++ msg ++ s_ ")")
          | _ => option_map (fun r => s_ " (" ++ r ++ s_ ")") (sprintf msg rest)
          end
      | _ => None
      end
  | _ => Some []
  end.

(* validateTestArgs + testFunc (args already wrapped in any) *)
Definition test_func (args : list val) : outcome :=
  match args with
  | [] => OPanic BadArguments
  | [c] => match any_inner c with
           | VBool true => ORet VNone
           | VBool false => OTestFail (s_ "not true")
           | _ => OPanic BadArguments
           end
  | want :: got :: rest =>
      let third_ok := match rest with
                      | [] => true
                      | m :: _ => match any_inner m with VStr _ => true | _ => false end
                      end in
      if negb third_ok then OPanic BadArguments
      else if same want got then ORet VNone
      else match test_message args with
           | Some m => OTestFail (s_ "want != got: " ++ vrepr want ++ s_ " != " ++ vrepr got ++ m)
           | None => OUnsupported
           end
  end.

(* ---------- signature check (what parser.Parse does with BuiltinDecls) ---------- *)
Definition param_accepts (p a : ty) : bool :=
  match p with
  | TAny => true
  | TGenArr => match a with TArr _ => true | _ => false end
  | TGenMap => match a with TMap _ => true | _ => false end
  | _ => ty_eqb p a
  end.

Fixpoint args_accepted (ps : list ty) (vari : option ty) (args : list ty) : bool :=
  match ps, args with
  | [], [] => true
  | [], a :: rest => match vari with
                     | Some t => param_accepts t a && args_accepted [] vari rest
                     | None => false
                     end
  | p :: ps', a :: rest => param_accepts p a && args_accepted ps' vari rest
  | _ :: _, [] => false
  end.

(* wrap an argument for a parameter of type any (parser: wrapAny) *)
Definition wrap_any (v : val) : val := match v with VAny _ _ => v | _ => VAny (type_of v) v end.
Fixpoint wrap_args (ps : list ty) (vari : option ty) (args : list val) : list val :=
  match ps, args with
  | p :: ps', a :: rest => (match p with TAny => wrap_any a | _ => a end) :: wrap_args ps' vari rest
  | [], a :: rest => (match vari with Some TAny => wrap_any a | _ => a end) :: wrap_args [] vari rest
  | _, [] => []
  end.

(* ---------- state threaded through a sequence of calls ---------- *)
Record bstate := { b_err : errst; b_inputs : list str }.

Definition name_is (name : str) (lit : string) : bool := str_eqb name (s_ lit).

Definition num1 (args : list val) (f : float -> float) : outcome :=
  match args with [VNum x] => ORet (VNum (f x)) | _ => OHostCrash end.
Definition num2 (args : list val) (f : float -> float -> float) : outcome :=
  match args with [VNum x; VNum y] => ORet (VNum (f x y)) | _ => OHostCrash end.
Definition str2_ (args : list val) (f : str -> str -> val) : outcome :=
  match args with [VStr a; VStr b] => ORet (f a b) | _ => OHostCrash end.

Definition float_of_nat (n : nat) : float := float_of_Z (Z.of_nat n).

(* newBuiltins: the table of functions, after the signature check.  A shape
   mismatch after a successful signature check would be an unchecked type
   assertion in Go: OHostCrash. *)
Definition call_builtin (name : str) (args0 : list val) (st : bstate) : outcome * list effect * bstate :=
  let pure (r : outcome) := (r, @nil effect, st) in
  match find (fun s => str_eqb (s_ (b_name s)) name) builtin_sigs with
  | None => pure OIllTyped
  | Some sg =>
    if negb (args_accepted (b_params sg) (b_variadic sg) (map type_of args0)) then pure OIllTyped else
    let args := wrap_args (b_params sg) (b_variadic sg) args0 in
    (* --- output --- *)
    if name_is name "print" then (ORet VNone, [EPrint (join_vals args (s_ " ") ++ [10%N])], st)
    else if name_is name "printf" then
      match args with
      | [] => pure (OPanic BadArguments)
      | f :: rest => match any_inner f with
                     | VStr fs => match sprintf fs rest with
                                  | Some r => (ORet VNone, [EPrint r], st)
                                  | None => pure OUnsupported
                                  end
                     | _ => pure (OPanic BadArguments)
                     end
      end
    else if name_is name "read" then
      match b_inputs st with
      | l :: rest => (ORet (VStr l), [ERead], {| b_err := b_err st; b_inputs := rest |})
      | [] => (ORet (VStr []), [ERead], st)
      end
    else if name_is name "cls" then (ORet VNone, [ECls], st)
    (* --- strings --- *)
    else if name_is name "sprint" then pure (ORet (VStr (join_vals args (s_ " "))))
    else if name_is name "sprintf" then
      match args with
      | [] => pure (OPanic BadArguments)
      | f :: rest => match any_inner f with
                     | VStr fs => match sprintf fs rest with
                                  | Some r => pure (ORet (VStr r))
                                  | None => pure OUnsupported
                                  end
                     | _ => pure (OPanic BadArguments)
                     end
      end
    else if name_is name "join" then
      match args with
      | [VArr _ l; VStr sep] => pure (ORet (VStr (join_vals l sep)))
      | _ => pure OHostCrash
      end
    else if name_is name "split" then pure (str2_ args (fun a b => VArr TStr (map VStr (split a b))))
    else if name_is name "upper" then pure (match args with [VStr a] => ORet (VStr (upper a)) | _ => OHostCrash end)
    else if name_is name "lower" then pure (match args with [VStr a] => ORet (VStr (lower a)) | _ => OHostCrash end)
    else if name_is name "index" then pure (str2_ args (fun a b => VNum (float_of_Z (index_chars a b))))
    else if name_is name "startswith" then pure (str2_ args (fun a b => VBool (startswith a b)))
    else if name_is name "endswith" then pure (str2_ args (fun a b => VBool (endswith a b)))
    else if name_is name "trim" then pure (str2_ args (fun a b => VStr (trim a b)))
    else if name_is name "replace" then
      pure (match args with [VStr a; VStr b; VStr c] => ORet (VStr (replace a b c)) | _ => OHostCrash end)
    else if name_is name "repr" then pure (ORet (VStr (repr_vals args)))
    (* --- conversion --- *)
    else if name_is name "str2num" then
      match args with
      | [VStr a] => let '(f, e) := str2num a (b_err st) in (ORet (VNum f), [], {| b_err := e; b_inputs := b_inputs st |})
      | _ => pure OHostCrash
      end
    else if name_is name "str2bool" then
      match args with
      | [VStr a] => let '(b, e) := str2bool a (b_err st) in (ORet (VBool b), [], {| b_err := e; b_inputs := b_inputs st |})
      | _ => pure OHostCrash
      end
    (* --- types, maps --- *)
    else if name_is name "typeof" then
      pure (match args with [VAny t _] => ORet (VStr (ty_str t)) | _ => OHostCrash end)
    else if name_is name "len" then
      pure (match args with
            | [VAny _ (VMap _ l)] => ORet (VNum (float_of_nat (List.length l)))
            | [VAny _ (VArr _ l)] => ORet (VNum (float_of_nat (List.length l)))
            | [VAny _ (VStr s)] => ORet (VNum (float_of_nat (len_str s)))
            | [VAny _ _] => OPanic BadArguments
            | _ => OHostCrash
            end)
    else if name_is name "has" then
      pure (match args with
            | [VMap _ l; VStr k] => ORet (VBool (match find_pair k l with Some _ => true | None => false end))
            | _ => OHostCrash
            end)
    (* delFunc mutates the map in place; the model returns the map afterwards
       (the harness reads the same variable after the call) *)
    else if name_is name "del" then
      pure (match args with
            | [VMap t l; VStr k] => ORet (VMap t (remove_pair k l))
            | _ => OHostCrash
            end)
    (* --- colour text, canvas clearing (the only graphics built-ins with argument checks of their own
           that are reachable without a canvas) --- *)
    else if name_is name "hsl" then
      pure (match nums_of args with Some nums => hsl_model nums | None => OHostCrash end)
    else if name_is name "clear" then
      match args with
      | [] => (ORet VNone, [EClear []], st)
      | [VStr c] => (ORet VNone, [EClear c], st)
      | _ => pure (OPanic BadArguments)
      end
    (* --- program control --- *)
    else if name_is name "sleep" then
      match args with
      | [VNum x] => (ORet VNone, [ESleep (go_int64 (PrimFloat.mul x 1000000000))], st)
      | _ => pure OHostCrash
      end
    else if name_is name "exit" then pure (match args with [VNum x] => OExit x | _ => OHostCrash end)
    else if name_is name "panic" then pure (match args with [VStr m] => OPanic (PanicUser m) | _ => OHostCrash end)
    else if name_is name "test" then pure (test_func args)
    (* --- random --- *)
    else if name_is name "rand" then pure (match args with [VNum x] => rand_model x | _ => OHostCrash end)
    else if name_is name "rand1" then pure (ORet (VNum (o_rand1 o)))
    (* --- math --- *)
    else if name_is name "min" then pure (num2 args go_min)
    else if name_is name "max" then pure (num2 args go_max)
    else if name_is name "abs" then pure (num1 args PrimFloat.abs)
    else if name_is name "floor" then pure (num1 args go_floor)
    else if name_is name "ceil" then pure (num1 args go_ceil)
    else if name_is name "round" then pure (num1 args go_round)
    else if name_is name "sqrt" then pure (num1 args PrimFloat.sqrt)
    else if name_is name "pow" then pure (num2 args (fun x y => o_math o (s_ "pow") [x; y]))
    else if name_is name "atan2" then pure (num2 args (fun x y => o_math o (s_ "atan2") [x; y]))
    else if name_is name "log" then pure (num1 args (fun x => o_math o (s_ "log") [x]))
    else if name_is name "sin" then pure (num1 args (fun x => o_math o (s_ "sin") [x]))
    else if name_is name "cos" then pure (num1 args (fun x => o_math o (s_ "cos") [x]))
    else pure OUnsupported
  end.

End WithOracles.

(* ====================================================================== *)
(** * test bookkeeping (testinfo.go), evalFunccall, Eval, handleEvyErr *)

(* TestInfo: total and the list of recorded failures (messages) *)
Record testinfo := { t_total : nat; t_errors : list str }.
Definition ti_init : testinfo := {| t_total := 0; t_errors := [] |}.
Definition fail_count (t : testinfo) : nat := List.length (t_errors t).
Definition success_count (t : testinfo) : nat := (t_total t - fail_count t)%nat.

(* testinfo.go: suffix *)
Definition plural_suffix (n : nat) : str := if Nat.eqb n 1 then [] else s_ "s".

Definition cross_mark : str := [10060%N; 32%N].            (* "❌ " U+274C *)
Definition check_mark : str := [10004%N; 65039%N; 32%N].   (* "✔️ " U+2714 U+FE0F *)
Definition green_mark : str := [9989%N; 32%N].             (* "✅ " U+2705 *)

(* TestInfo.Report: what is printed (None = nothing) *)
Definition report (no_summary : bool) (t : testinfo) : option str :=
  if no_summary || Nat.eqb (t_total t) 0 then None
  else
    let succs := success_count t in
    let fails := fail_count t in
    if Nat.ltb 0 fails then
      Some (cross_mark ++ nat_str fails ++ s_ " failed test" ++ plural_suffix fails ++ [10%N]
            ++ check_mark ++ nat_str succs ++ s_ " passed test" ++ plural_suffix succs ++ [10%N])
    else Some (green_mark ++ nat_str succs ++ s_ " passed test" ++ plural_suffix succs ++ [10%N]).

(* does an outcome end the run (err != nil in evalFunccall)? *)
Definition stops (r : outcome) : bool := match r with ORet _ => false | _ => true end.

(* evalFunccall for a built-in: the special treatment of "test" *)
Definition account_test (failfast : bool) (is_test : bool) (r : outcome) (t : testinfo) : outcome * testinfo :=
  if negb is_test then (r, t)
  else
    let t1 := {| t_total := S (t_total t); t_errors := t_errors t |} in
    match r with
    | OTestFail msg =>
        let t2 := {| t_total := t_total t1; t_errors := t_errors t1 ++ [msg] |} in
        if failfast then (r, t2) else (ORet VNone, t2)
    | _ => (r, t1)
    end.

Record callres := { c_out : outcome; c_err : errst }.

Section Run.
Variable o : oracles.
Variable failfast : bool.

(* the statements of a program that is a sequence of built-in calls *)
Fixpoint run_calls (calls : list (str * list val)) (st : bstate) (t : testinfo)
  : list callres * list effect * testinfo * option outcome :=
  match calls with
  | [] => ([], [], t, None)
  | (name, args) :: rest =>
      let '(r0, effs, st') := call_builtin o name args st in
      let '(r, t') := account_test failfast (str_eqb name (s_ "test")) r0 t in
      let cr := {| c_out := r; c_err := b_err st' |} in
      if stops r then ([cr], effs, t', Some r)
      else let '(crs, effs', t'', stop) := run_calls rest st' t' in
           (cr :: crs, effs ++ effs', t'', stop)
  end.
End Run.

(* Go's int(f) then the status the operating system reports: the low 8 bits *)
Definition exit_status (f : float) : Z := (go_int64 f) mod 256.

(* classification of Eval's result and the status of `evy run` (handleEvyErr) *)
Inductive run_class := RcOk | RcPanic | RcExit (f : float) | RcTest | RcHostCrash | RcUnsupported | RcParseError.

Definition classify (stop : option outcome) (t : testinfo) : run_class :=
  match stop with
  | Some (OPanic _) => RcPanic
  | Some (OExit f) => RcExit f
  | Some (OTestFail _) => RcTest
  | Some OHostCrash => RcHostCrash
  | Some OIllTyped => RcParseError
  | Some OUnsupported => RcUnsupported
  | Some (ORet _) | None => if Nat.ltb 0 (fail_count t) then RcTest else RcOk
  end.

(* main.go: handleEvyErr — nil: 0; ExitError n: os.Exit(n); anything else: 1.
   (a host crash is Go's exit status 2; a parse error is also 1) *)
Definition cli_status (c : run_class) : Z :=
  match c with
  | RcOk => 0
  | RcExit f => exit_status f
  | RcHostCrash => 2
  | _ => 1
  end.

Definition all_well_typed (calls : list (str * list val)) : bool :=
  forallb (fun c => let '(name, args) := c in
             match find (fun s => str_eqb (s_ (b_name s)) name) builtin_sigs with
             | Some sg => args_accepted (b_params sg) (b_variadic sg) (map type_of args)
             | None => false
             end) calls.

(* Evaluator.Run on a program that is a sequence of built-in calls *)
Definition run_program (o : oracles) (failfast no_summary : bool) (inputs : list str)
           (calls : list (str * list val)) : list callres * list effect * testinfo * run_class :=
  if negb (all_well_typed calls) then ([], [], ti_init, RcParseError)
  else
    let '(crs, effs, t, stop) := run_calls o failfast calls {| b_err := err_init; b_inputs := inputs |} ti_init in
    let cls := classify stop t in
    let effs' := match cls, report no_summary t with
                 | RcHostCrash, _ => effs
                 | _, Some s => effs ++ [EPrint s]
                 | _, None => effs
                 end in
    (crs, effs', t, cls).

(* ====================================================================== *)
(** * wire format and the oracle instance used by the extracted model *)

(* number rendering is an oracle: the extracted model leaves a MARKER in the
   text (private-use code points U+F0000..U+F0003 around the bit pattern and the
   verb specification) which the harness replaces by what Go's strconv / fmt
   print for that number. *)
Definition mark_num (f : float) : str :=
  [983040%N] ++ z_str (bits_of_float f) ++ [983041%N].

Definition spec_text (sp : fmtspec) : str :=
  [37%N] ++ (if f_sharp sp then [35%N] else []) ++ (if f_plus sp then [43%N] else [])
  ++ (if f_minus sp then [45%N] else []) ++ (if f_space sp then [32%N] else [])
  ++ (if f_zero sp then [48%N] else [])
  ++ (match f_wid sp with Some w => n_str w | None => [] end)
  ++ (match f_prec sp with Some p => [46%N] ++ n_str p | None => [] end)
  ++ [f_verb sp].

Definition mark_fmt (sp : fmtspec) (f : float) : str :=
  [983042%N] ++ spec_text sp ++ [983043%N] ++ z_str (bits_of_float f) ++ [983041%N].

Record uni_row := { u_cp : N; u_up : N; u_lo : N; u_letter : bool; u_print : bool }.

Fixpoint uni_find (c : N) (l : list uni_row) : option uni_row :=
  match l with [] => None | r :: t => if N.eqb (u_cp r) c then Some r else uni_find c t end.

Fixpoint pf_find (s : str) (l : list (str * parse_res)) : parse_res :=
  match l with [] => PFSyntax | (k, r) :: t => if str_eqb k s then r else pf_find s t end.

Fixpoint zs_eqb (a b : list Z) : bool :=
  match a, b with [], [] => true | x :: a', y :: b' => Z.eqb x y && zs_eqb a' b' | _, _ => false end.

Fixpoint math_find (name : str) (args : list Z) (l : list (str * list Z * float)) : float :=
  match l with
  | [] => nan
  | (n, a, r) :: t => if str_eqb n name && zs_eqb a args then r else math_find name args t
  end.

Definition table_oracles (uni : list uni_row) (pf : list (str * parse_res))
           (mth : list (str * list Z * float)) (r1 : float) : oracles :=
  {| o_num_str := mark_num;
     o_fmt_float := mark_fmt;
     o_upper := fun c => match uni_find c uni with Some r => u_up r | None => c end;
     o_lower := fun c => match uni_find c uni with Some r => u_lo r | None => c end;
     o_is_letter := fun c => match uni_find c uni with Some r => u_letter r | None => false end;
     o_is_print := fun c => match uni_find c uni with Some r => u_print r | None => (32 <=? c)%N && (c <? 127)%N end;
     o_parse_float := fun s => pf_find s pf;
     o_math := fun n a => math_find n (map bits_of_float a) mth;
     o_rand := fun _ => 0;
     o_rand1 := r1 |}.

(* ---------- decoding ---------- *)
Fixpoint dec_ty (x : sx) : option ty :=
  match x with
  | Sym s =>
      if str_eqb s (s_ "num") then Some TNum else if str_eqb s (s_ "string") then Some TStr
      else if str_eqb s (s_ "bool") then Some TBool else if str_eqb s (s_ "any") then Some TAny
      else if str_eqb s (s_ "none") then Some TNone else None
  | Lst [Sym k; y] =>
      if str_eqb k (s_ "arr") then option_map TArr (dec_ty y)
      else if str_eqb k (s_ "map") then option_map TMap (dec_ty y) else None
  | _ => None
  end.

Definition dec_bool (x : sx) : option bool :=
  match x with
  | Sym s => if str_eqb s (s_ "true") then Some true else if str_eqb s (s_ "false") then Some false else None
  | _ => None
  end.

Fixpoint dec_val (x : sx) : option val :=
  match x with
  | Lst (Sym k :: rest) =>
      if str_eqb k (s_ "num") then
        match rest with [Int b] => Some (VNum (float_of_bits b)) | _ => None end
      else if str_eqb k (s_ "str") then
        match rest with [Str s] => Some (VStr s) | _ => None end
      else if str_eqb k (s_ "bool") then
        match rest with [b] => option_map VBool (dec_bool b) | _ => None end
      else if str_eqb k (s_ "any") then
        match rest with
        | [t; y] => match dec_ty t, dec_val y with Some t', Some v => Some (VAny t' v) | _, _ => None end
        | _ => None
        end
      else if str_eqb k (s_ "arr") then
        match rest with
        | t :: elems =>
            match dec_ty t with
            | Some t' =>
                option_map (VArr t')
                  ((fix go (l : list sx) : option (list val) :=
                      match l with
                      | [] => Some []
                      | y :: r => match dec_val y, go r with Some v, Some vs => Some (v :: vs) | _, _ => None end
                      end) elems)
            | None => None
            end
        | [] => None
        end
      else if str_eqb k (s_ "map") then
        match rest with
        | t :: elems =>
            match dec_ty t with
            | Some t' =>
                option_map (VMap t')
                  ((fix go (l : list sx) : option (list (str * val)) :=
                      match l with
                      | [] => Some []
                      | Lst [Str key; y] :: r =>
                          match dec_val y, go r with Some v, Some vs => Some ((key, v) :: vs) | _, _ => None end
                      | _ => None
                      end) elems)
            | None => None
            end
        | [] => None
        end
      else None
  | _ => None
  end.

Fixpoint dec_list {A} (f : sx -> option A) (l : list sx) : option (list A) :=
  match l with
  | [] => Some []
  | y :: r => match f y, dec_list f r with Some v, Some vs => Some (v :: vs) | _, _ => None end
  end.

Definition dec_call (x : sx) : option (str * list val) :=
  match x with
  | Lst (Sym name :: args) => option_map (fun a => (name, a)) (dec_list dec_val args)
  | _ => None
  end.

Definition dec_uni (x : sx) : option uni_row :=
  match x with
  | Lst [Int c; Int u; Int l; le; pr] =>
      match dec_bool le, dec_bool pr with
      | Some le', Some pr' => Some {| u_cp := Z.to_N c; u_up := Z.to_N u; u_lo := Z.to_N l; u_letter := le'; u_print := pr' |}
      | _, _ => None
      end
  | _ => None
  end.

Definition dec_pf (x : sx) : option (str * parse_res) :=
  match x with
  | Lst [Str s; Sym k; Int b] =>
      if str_eqb k (s_ "ok") then Some (s, PFOk (float_of_bits b))
      else if str_eqb k (s_ "range") then Some (s, PFRange (float_of_bits b))
      else if str_eqb k (s_ "syntax") then Some (s, PFSyntax) else None
  | _ => None
  end.

Definition dec_int (x : sx) : option Z := match x with Int z => Some z | _ => None end.
Definition dec_str (x : sx) : option str := match x with Str s => Some s | _ => None end.

Definition dec_math (x : sx) : option (str * list Z * float) :=
  match x with
  | Lst [Str n; Lst a; Int r] => option_map (fun a' => (n, a', float_of_bits r)) (dec_list dec_int a)
  | _ => None
  end.

(* ---------- encoding ---------- *)
Fixpoint enc_ty (t : ty) : sx :=
  match t with
  | TNum => Sym (s_ "num") | TStr => Sym (s_ "string") | TBool => Sym (s_ "bool") | TAny => Sym (s_ "any")
  | TNone => Sym (s_ "none") | TGenArr => Sym (s_ "genarr") | TGenMap => Sym (s_ "genmap")
  | TArr t' => Lst [Sym (s_ "arr"); enc_ty t']
  | TMap t' => Lst [Sym (s_ "map"); enc_ty t']
  end.

Fixpoint enc_val (v : val) : sx :=
  match v with
  | VNum f => Lst [Sym (s_ "num"); sx_float f]
  | VStr s => Lst [Sym (s_ "str"); Str s]
  | VBool b => Lst [Sym (s_ "bool"); sx_bool b]
  | VAny t v' => Lst [Sym (s_ "any"); enc_ty t; enc_val v']
  | VArr t l => Lst (Sym (s_ "arr") :: enc_ty t :: map enc_val l)
  | VMap t l => Lst (Sym (s_ "map") :: enc_ty t :: map (fun kv => let '(k, x) := kv in Lst [Str k; enc_val x]) l)
  | VNone => Lst [Sym (s_ "none")]
  end.

Definition enc_outcome (r : outcome) : sx :=
  match r with
  | ORet v => Lst [Sym (s_ "ret"); enc_val v]
  | OPanic BadArguments => Lst [Sym (s_ "panic"); Sym (s_ "BadArguments")]
  | OPanic (PanicUser m) => Lst [Sym (s_ "panic"); Sym (s_ "user"); Str m]
  | OExit f => Lst [Sym (s_ "exit"); sx_float f]
  | OTestFail m => Lst [Sym (s_ "testfail"); Str m]
  | OHostCrash => Lst [Sym (s_ "hostcrash")]
  | OIllTyped => Lst [Sym (s_ "illtyped")]
  | OUnsupported => Lst [Sym (s_ "unsupported")]
  end.

Definition enc_effect (e : effect) : sx :=
  match e with
  | EPrint s => Lst [Sym (s_ "print"); Str s]
  | ECls => Lst [Sym (s_ "cls")]
  | ESleep ns => Lst [Sym (s_ "sleep"); Int ns]
  | ERead => Lst [Sym (s_ "read")]
  | EClear c => Lst [Sym (s_ "clear"); Str c]
  end.

Definition enc_class (c : run_class) : sx :=
  Sym (s_ match c with
          | RcOk => "ok" | RcPanic => "panic" | RcExit _ => "exit" | RcTest => "test"
          | RcHostCrash => "hostcrash" | RcUnsupported => "unsupported" | RcParseError => "parse-error"
          end).

(* entry point:
   (run <failfast> <nosummary> (input…) (uni…) (pf…) (math…) <rand1 bits> (call…))
   ↦ (result class status total (failure-message…) (callres…) (effect…)) *)
Definition builtins_case (x : sx) : sx :=
  match x with
  | Lst [Sym tag; ff; ns; Lst inputs; Lst uni; Lst pf; Lst mth; Int r1; Lst calls] =>
      match dec_bool ff, dec_bool ns, dec_list dec_str inputs, dec_list dec_uni uni,
            dec_list dec_pf pf, dec_list dec_math mth, dec_list dec_call calls with
      | Some ff', Some ns', Some inputs', Some uni', Some pf', Some mth', Some calls' =>
          let o := table_oracles uni' pf' mth' (float_of_bits r1) in
          let '(crs, effs, t, cls) := run_program o ff' ns' inputs' calls' in
          Lst [Sym (s_ "result"); enc_class cls; Int (cli_status cls);
               sx_nat (t_total t); Lst (map Str (t_errors t));
               Lst (map (fun c => Lst [enc_outcome (c_out c); sx_bool (e_err (c_err c)); Str (e_msg (c_err c))]) crs);
               Lst (map enc_effect effs)]
      | _, _, _, _, _, _, _ => Sym (s_ "decode-error")
      end
  | _ => Sym (s_ "decode-error")
  end.

(* ====================================================================== *)
(** * which built-ins of the declaration table the dispatcher models *)

(* the 17 drawing commands only forward their arguments to the canvas (Platform):
   they belong to the SVG model of C19, not to this file *)
Definition canvas_builtins : list string :=
  ["circle"; "color"; "colour"; "dash"; "ellipse"; "fill"; "font"; "grid"; "gridn"; "line"; "linecap";
   "move"; "poly"; "rect"; "stroke"; "text"; "width"]%string.

(* one well-typed argument per fixed parameter *)
Definition default_arg (t : ty) : val :=
  match t with
  | TNum => VNum 1 | TStr => VStr (s_ "a") | TBool | TAny | TNone => VBool true
  | TArr t' => VArr t' [] | TMap t' => VMap t' []
  | TGenArr => VArr TNum [] | TGenMap => VMap TNum []
  end.

(* does the dispatcher have a branch for this declaration (anything but OUnsupported
   on a well-typed call)? *)
Definition dispatched (sg : bsig) : bool :=
  match fst (fst (call_builtin (table_oracles [] [] [] zero) (s_ (b_name sg)) (map default_arg (b_params sg))
                               {| b_err := err_init; b_inputs := [] |})) with
  | OUnsupported | OIllTyped => false
  | _ => true
  end.
