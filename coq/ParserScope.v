(* ParserScope.v — C05, rules (e) (f) (g) (h) and typing at program level.

   Part 1: the variables an expression reads.  The expression parser logs every successful
   lookupVar (pstate.used); on a run without error the log is exactly the list of variable
   occurrences of the returned tree, left to right, and each of them was visible.
   Part 2: lift of the expression rules to programs (static tables: function table fixed by the
   signature pre-pass, typing oracle).
   Part 3: a declarative scope checker on the tree (declared before use, no redeclaration in one
   scope, every declared variable / parameter / loop variable used) and the simulation between it
   and the parser's scope chain. *)
From Coq Require Import List NArith ZArith Bool Arith Lia String.
From EvyV Require Import Base Pratt Parser ParserProofs ParserRules.
From EvyV.Gen Require Import Prec.
Import ListNotations.
Local Open Scope nat_scope.
Local Set Warnings "-unused-intro-pattern".

(* ================================================================ *)
(** * Variable occurrences of a tree, left to right                  *)

Fixpoint tvars (t : tree) : list str :=
  match t with
  | TVar n => [n]
  | TNum _ | TStr _ | TBool _ => []
  | TArr l => (fix go (l : list tree) : list str := match l with [] => [] | x :: r => tvars x ++ go r end) l
  | TMap l => (fix go (l : list (str * tree)) : list str := match l with [] => [] | x :: r => tvars (snd x) ++ go r end) l
  | TUn _ r => tvars r
  | TBin _ l r => tvars l ++ tvars r
  | TGroup e => tvars e
  | TIndex l i => tvars l ++ tvars i
  | TSlice l s e => tvars l ++ match s with Some x => tvars x | None => [] end ++ match e with Some x => tvars x | None => [] end
  | TDot l _ => tvars l
  | TAssert l _ => tvars l
  | TCall _ args => (fix go (l : list tree) : list str := match l with [] => [] | x :: r => tvars x ++ go r end) args
  end.
Definition lvars (l : list tree) : list str := flat_map tvars l.
Definition pvars (l : list (str * tree)) : list str := flat_map (fun kv => tvars (snd kv)) l.
Lemma lvars_fix l : (fix go (l : list tree) : list str := match l with [] => [] | x :: r => tvars x ++ go r end) l = lvars l.
Proof. induction l as [|x l IH]; simpl; [reflexivity|]. rewrite IH. reflexivity. Qed.
Lemma pvars_fix l : (fix go (l : list (str * tree)) : list str := match l with [] => [] | x :: r => tvars (snd x) ++ go r end) l = pvars l.
Proof. induction l as [|x l IH]; simpl; [reflexivity|]. rewrite IH. reflexivity. Qed.
Lemma lvars_app a b : lvars (a ++ b) = lvars a ++ lvars b.
Proof. apply flat_map_app. Qed.
Lemma pvars_app a b : pvars (a ++ b) = pvars a ++ pvars b.
Proof. apply flat_map_app. Qed.

(* the log of reads *)
Lemma used_advance_wss c : used (advance_wss c) = used c. Proof. reflexivity. Qed.
Lemma used_advance_if_ws c : used (advance_if_ws c) = used c.
Proof. unfold advance_if_ws. destruct (is_ws (cur c)); reflexivity. Qed.
Lemma used_advance c : used (advance c) = used c.
Proof.
  unfold advance. destruct (is_wss (advance_wss c)); [reflexivity|].
  destruct (is_ws (peek (advance_if_ws (advance_wss c)))); simpl; rewrite used_advance_if_ws; reflexivity.
Qed.
Lemma used_push_wss b c : used (push_wss b c) = used c. Proof. reflexivity. Qed.
Lemma used_pop_wss c : used (pop_wss c) = used c.
Proof. unfold pop_wss. destruct (_ && _); [rewrite used_advance|]; reflexivity. Qed.
Lemma used_mark_used n c : used (mark_used n c) = n :: used c. Proof. reflexivity. Qed.
Lemma used_slice_close E c : used (slice_close E c) = used c.
Proof. unfold slice_close. destruct (e_fix_slice E); [reflexivity|apply used_advance]. Qed.
Lemma used_add_err_at e n c : used (add_err_at e n c) = used c. Proof. reflexivity. Qed.
Lemma used_add_err e c : used (add_err e c) = used c. Proof. reflexivity. Qed.
#[local] Hint Rewrite used_advance_wss used_advance_if_ws used_advance used_push_wss used_pop_wss used_mark_used
  used_slice_close used_add_err_at used_add_err : used.
#[local] Hint Rewrite errs_advance_wss errs_advance_if_ws errs_advance errs_push_wss errs_pop_wss errs_mark_used
  errs_slice_close errs_add_err_at errs_add_err : errs.

Lemma multiline_ws_used : forall fuel c c', parse_multiline_ws fuel c = Some c' -> errs c' = [] -> used c' = used c.
Proof.
  induction fuel as [|f IH]; intros c c' H Q; [discriminate|]. cbn [parse_multiline_ws] in H.
  destruct (cur_t c); try (injection H as <-; reflexivity).
  - pose proof (multiline_ws_ne _ _ _ H Q) as Q1. autorewrite with errs in Q1.
    rewrite (IH _ _ H Q). autorewrite with used. rewrite (snd_assert_token_ne _ _ Q1). reflexivity.
  - rewrite (IH _ _ H Q). reflexivity.
  - rewrite (IH _ _ H Q). reflexivity.
Qed.

Lemma parse_type_used : forall fuel c a c', parse_type fuel c = Some (a, c') -> used c' = used c.
Proof.
  induction fuel as [|f IH]; intros c a c' H; [discriminate|]. cbn [parse_type] in H. unfold ret in H.
  destruct (cur_t c); try (injection H as ? ?; subst; autorewrite with used; reflexivity).
  - destruct (cur_t (advance c)); try (injection H as ? ?; subst; autorewrite with used; reflexivity).
    destruct (parse_type f (advance (advance c))) as [[sub c2]|] eqn:P; [|discriminate H].
    injection H as ? ?; subst. rewrite (IH _ _ _ P). autorewrite with used. reflexivity.
  - destruct (cur_t (advance c)); try (injection H as ? ?; subst; autorewrite with used; reflexivity).
    destruct (parse_type f (advance (advance c))) as [[sub c2]|] eqn:P; [|discriminate H].
    injection H as ? ?; subst. rewrite (IH _ _ _ P). autorewrite with used. reflexivity.
Qed.

(* a variable occurrence that lookupVar accepted *)
Definition vis (E : env) (n : str) : Prop := mem_str n (e_vars E) = true /\ str_eqb n (s_ "_"%string) = false.
(* the reads of tree t: logged, in order, and all visible *)
Definition reads (E : env) (c c' : pstate) (vs : list str) : Prop :=
  used c' = rev vs ++ used c /\ Forall (vis E) vs.

Lemma reads_nil E c c' : used c' = used c -> reads E c c' [].
Proof. intro H. split; [exact H|constructor]. Qed.
Lemma reads_app E a b c v1 v2 : reads E a b v1 -> reads E b c v2 -> reads E a c (v1 ++ v2).
Proof.
  intros [U1 F1] [U2 F2]. split; [|apply Forall_app; auto].
  rewrite U2, U1, rev_app_distr, app_assoc. reflexivity.
Qed.
Lemma reads_shift E a a' b b' vs : used a' = used a -> used b' = used b -> reads E a b vs -> reads E a' b' vs.
Proof. intros H1 H2 [U F]. split; [rewrite H2, H1; exact U|exact F]. Qed.

(* ================================================================ *)
(** * "nil for previous error": a nil result comes with a recorded error *)

Ltac sub_ne0 P := first [ apply multiline_ws_ne in P | apply parse_type_ne in P ].
(* like chew2 of ParserRules, parameterised by the conversion of sub-calls *)
Ltac chewk conv H :=
  unfold ret in H;
  repeat (first
    [ discriminate H
    | match type of H with
      | Some (_, _) = Some (_, _) => fail 1
      | (match ?m with _ => _ end) = Some _ =>
          lazymatch m with
          | context[match _ with _ => _ end] => fail
          | _ => let P := fresh "P" in let PE := fresh "PE" in
                 first [ destruct m as [[? ?]|] eqn:P | destruct m eqn:P ]; try (pose proof P as PE; conv P)
          end
      | (if ?b then _ else _) = Some _ => let P := fresh "B" in destruct b eqn:P
      | (let '(_, _) := ?m in _) = Some _ => let P := fresh "A" in destruct m eqn:P
      end ]).

Section ExprNil.
Variable E : env.
Variable pe : nat -> pstate -> res (option tree).
Hypothesis HNE : forall p c a c', pe p c = Some (a, c') -> NE c c'.
Hypothesis HNIL : forall p c c', pe p c = Some (None, c') -> errs c' <> [].

Ltac conv P := first [ apply multiline_ws_ne in P | apply parse_type_ne in P | apply HNE in P
                     | apply (expr_wss_ne pe HNE) in P | apply (expr_list_ne pe HNE) in P
                     | apply (func_call_ne E pe HNE) in P | apply (toplevel_ne E pe HNE) in P
                     | apply (slice_ne E pe HNE) in P | apply (array_elems_ne E pe HNE) in P | apply (map_pairs_ne E pe HNE) in P ].
(* a leaf  Some (None, st) = Some (None, c')  with  Q : errs c' = [] *)
Ltac nil_leaf H Q :=
  injection H as ?; subst; autorewrite with errs in Q; try discriminate Q; back;
  try (exfalso; eauto; fail).

Lemma expr_wss_nil c c' : parse_expr_wss pe c = Some (None, c') -> errs c' <> [].
Proof.
  unfold parse_expr_wss. intros H Q. chewk conv H. injection H as ? ?; subst. autorewrite with errs in Q.
  eapply HNIL; eassumption.
Qed.

Lemma expr_list_nil : forall fuel acc c c', parse_expr_list pe fuel acc c = Some (None, c') -> errs c' <> [].
Proof.
  induction fuel as [|f IH]; intros acc c c' H Q; [discriminate|]. cbn [parse_expr_list] in H.
  assert (D : (if is_at_eol c then ret (Some (rev acc)) c else
            (do (n, st1) <- parse_expr_wss pe c;
             match n with None => ret None st1 | Some t => parse_expr_list pe f (t :: acc) (advance_if_ws st1) end)) = Some (None, c') -> False).
  { intro H1. destruct (is_at_eol c); [discriminate H1|].
    destruct (parse_expr_wss pe c) as [[n st1]|] eqn:P; [|discriminate H1].
    destruct n as [t|]; [exact (IH _ _ _ H1 Q)|].
    unfold ret in H1. injection H1 as ?; subst. exact (expr_wss_nil _ _ P Q). }
  destruct (cur_t c); try exact (D H); discriminate H.
Qed.

Lemma toplevel_nil fuel c c' : parse_toplevel E pe fuel c = Some (None, c') -> errs c' <> [].
Proof.
  unfold parse_toplevel. intros H.
  destruct (cur_t c); try (eapply HNIL; eassumption).
  destruct (func_of E (tlit (cur c))) as [[|]|]; try (eapply HNIL; eassumption).
  unfold parse_func_call in H. destruct (true || negb false); [|discriminate H].
  destruct (parse_expr_list pe fuel [] (advance c)) as [[a s]|]; discriminate H.
Qed.

Lemma lookup_var_nil c c' : lookup_var E c = Some (None, c') -> errs c' <> [].
Proof. unfold lookup_var. intros H Q. chewk conv H; injection H as ?; subst; autorewrite with errs in Q; discriminate Q. Qed.

Lemma ident_expr_nil fuel c c' : parse_ident_expr E pe fuel c = Some (None, c') -> errs c' <> [].
Proof.
  unfold parse_ident_expr. intro H.
  destruct (func_of E _) as [[|]|]; try (eapply lookup_var_nil; eassumption).
  unfold parse_func_call in H. destruct (false || negb true); [destruct (parse_expr_list _ _ _ _) as [[a s]|]|]; discriminate H.
Qed.

Lemma array_elems_nil : forall fuel acc c c', parse_array_elems E pe fuel acc c = Some (None, c') -> errs c' <> [].
Proof.
  induction fuel as [|f IH]; intros acc c c' H Q; [discriminate|]. cbn [parse_array_elems] in H. unfold tyerr in H.
  destruct (cur_t c); try discriminate H;
    (destruct (parse_expr_wss pe c) as [[n st1]|] eqn:P; [|discriminate H];
     destruct n as [t|]; [|unfold ret in H; injection H as ?; subst; exact (expr_wss_nil _ _ P Q)];
     destruct (e_tyerr E _ _ _); [unfold ret in H; injection H as ?; subst; autorewrite with errs in Q; discriminate Q|];
     destruct (parse_multiline_ws (S f) st1) as [st2|]; [|discriminate H];
     exact (IH _ _ _ H Q)).
Qed.

Lemma array_literal_nil fuel c c' : parse_array_literal E pe fuel c = Some (None, c') -> errs c' <> [].
Proof.
  unfold parse_array_literal. intros H Q.
  destruct (parse_multiline_ws fuel (advance c)) as [c2|]; [|discriminate H].
  destruct (parse_array_elems E pe fuel [] c2) as [[els c3]|] eqn:P; [|discriminate H].
  destruct els as [l|]; [|unfold ret in H; injection H as ?; subst; exact (array_elems_nil _ _ _ _ P Q)].
  destruct (assert_token T_RBRACKET c3) as [ok c4] eqn:A. destruct ok; [discriminate H|].
  unfold ret in H. injection H as ?; subst. destruct (assert_token_ne _ _ _ _ A Q) as [X _]. discriminate X.
Qed.

Lemma map_pairs_nil : forall fuel acc c c', parse_map_pairs E pe fuel acc c = Some (None, c') -> errs c' <> [].
Proof.
  induction fuel as [|f IH]; intros acc c c' H Q; [discriminate|]. cbn [parse_map_pairs] in H. unfold tyerr in H.
  destruct (cur_t c); try discriminate H;
    (set (st0 := match ttype (as_ident (cur c)) with T_IDENT => c | _ => add_err E_map_key c end) in H;
     destruct (has_key _ _); [unfold ret in H; injection H as ?; subst; autorewrite with errs in Q; discriminate Q|];
     set (st3 := advance (snd (assert_token T_COLON (advance st0)))) in H;
     destruct (parse_expr_wss pe st3) as [[n st4]|] eqn:P; [|discriminate H];
     destruct n as [t|]; [|unfold ret in H; injection H as ?; subst; exact (expr_wss_nil _ _ P Q)];
     destruct (e_tyerr E _ _ _); [unfold ret in H; injection H as ?; subst; autorewrite with errs in Q; discriminate Q|];
     destruct (parse_multiline_ws (S f) st4) as [st5|]; [|discriminate H];
     exact (IH _ _ _ H Q)).
Qed.

Lemma map_literal_nil fuel c c' : parse_map_literal E pe fuel c = Some (None, c') -> errs c' <> [].
Proof.
  unfold parse_map_literal. intros H Q.
  destruct (parse_multiline_ws fuel (advance (push_wss false c))) as [c2|]; [|discriminate H].
  destruct (parse_map_pairs E pe fuel [] c2) as [[ps c3]|] eqn:P; [|discriminate H].
  destruct ps as [l|]; [|unfold ret in H; injection H as ?; subst; autorewrite with errs in Q; exact (map_pairs_nil _ _ _ _ P Q)].
  destruct (assert_token T_RCURLY c3) as [ok c4] eqn:A. destruct ok; [discriminate H|].
  unfold ret in H. injection H as ?; subst. autorewrite with errs in Q. destruct (assert_token_ne _ _ _ _ A Q) as [X _]. discriminate X.
Qed.

Lemma unary_nil c c' : parse_unary E pe c = Some (None, c') -> errs c' <> [].
Proof.
  unfold parse_unary, tyerr. intros H Q.
  destruct (pe unary_operand_prec _) as [[r st3]|] eqn:P; [|discriminate H].
  destruct r as [x|]; [|unfold ret in H; injection H as ?; subst; exact (HNIL _ _ _ P Q)].
  destruct (e_tyerr E TS_unary _ _); unfold ret in H; [|discriminate H].
  injection H as ?; subst. autorewrite with errs in Q. discriminate Q.
Qed.

Lemma binary_nil left c c' : parse_binary E pe left c = Some (None, c') -> errs c' <> [].
Proof.
  unfold parse_binary, tyerr. intros H Q.
  destruct (pe _ (advance c)) as [[r st2]|] eqn:P; [|discriminate H].
  destruct r as [x|]; [|unfold ret in H; injection H as ?; subst; exact (HNIL _ _ _ P Q)].
  destruct (e_tyerr E TS_binary _ _); unfold ret in H; [|discriminate H].
  injection H as ?; subst. autorewrite with errs in Q. discriminate Q.
Qed.

Lemma grouped_nil fuel c c' : parse_grouped E pe fuel c = Some (None, c') -> errs c' <> [].
Proof.
  unfold parse_grouped. intros H Q.
  destruct (parse_toplevel E pe fuel (advance (push_wss false c))) as [[e st2]|] eqn:P; [|discriminate H].
  destruct (assert_token T_RPAREN st2) as [ok st3] eqn:A.
  destruct ok, e as [x|]; unfold ret in H; try discriminate H; injection H as ?; subst; autorewrite with errs in Q.
  - destruct (assert_token_ne _ _ _ _ A Q) as [_ ->]. exact (toplevel_nil _ _ _ P Q).
  - destruct (assert_token_ne _ _ _ _ A Q) as [X _]. discriminate X.
  - destruct (assert_token_ne _ _ _ _ A Q) as [X _]. discriminate X.
Qed.

Lemma slice_nil fuel tok left start c c' : parse_slice E pe fuel tok left start c = Some (None, c') -> errs c' <> [].
Proof.
  unfold parse_slice, tyerr. intros H Q.
  destruct (e_tyerr E TS_not_sliceable left tok); [unfold ret in H; injection H as ?; subst; autorewrite with errs in Q; discriminate Q|].
  assert (D : (do (e, st1) <- parse_toplevel E pe fuel c;
     match e with
     | None => ret None st1
     | Some x =>
       let '(ok, st2) := assert_token T_RBRACKET st1 in
       if ok then
         let st3 := slice_close E st2 in
         let t := TSlice left start (Some x) in
         if e_tyerr E TS_slice_bounds t tok then ret None (add_err_at (E_type TS_slice_bounds) tok st3) else ret (Some t) st3
       else ret None st2
     end) = Some (None, c') -> False).
  { intro H1. destruct (parse_toplevel E pe fuel c) as [[e st1]|] eqn:P; [|discriminate H1].
    destruct e as [x|]; [|unfold ret in H1; injection H1 as ?; subst; exact (toplevel_nil _ _ _ P Q)].
    destruct (assert_token T_RBRACKET st1) as [ok st2] eqn:A. destruct ok.
    - cbv zeta in H1. destruct (e_tyerr E TS_slice_bounds _ _); unfold ret in H1; [|discriminate H1].
      injection H1 as ?; subst. autorewrite with errs in Q. discriminate Q.
    - unfold ret in H1. injection H1 as ?; subst. destruct (assert_token_ne _ _ _ _ A Q) as [X _]. discriminate X. }
  destruct (cur_t c); try exact (D H).
  cbv zeta in H. destruct (e_tyerr E TS_slice_bounds _ _); unfold ret in H; [|discriminate H].
  injection H as ?; subst. autorewrite with errs in Q. discriminate Q.
Qed.

Lemma index_or_slice_nil fuel allow left c c' : parse_index_or_slice E pe fuel allow left c = Some (None, c') -> errs c' <> [].
Proof.
  unfold parse_index_or_slice, tyerr. intros H Q.
  destruct (is_ws (prev (push_wss false c))); [unfold ret in H; injection H as ?; subst; autorewrite with errs in Q; discriminate Q|].
  destruct (e_tyerr E TS_not_indexable left (here c)); [unfold ret in H; injection H as ?; subst; autorewrite with errs in Q; discriminate Q|].
  destruct (allow && _).
  - destruct (parse_slice E pe fuel (here c) left None _) as [[x s]|] eqn:P; [|discriminate H].
    unfold ret in H. injection H as ? ?; subst. autorewrite with errs in Q. exact (slice_nil _ _ _ _ _ _ P Q).
  - destruct (parse_toplevel E pe fuel _) as [[ix st2]|] eqn:P; [|discriminate H].
    destruct ix as [i|]; [|unfold ret in H; injection H as ?; subst; autorewrite with errs in Q; exact (toplevel_nil _ _ _ P Q)].
    destruct (allow && _).
    + destruct (parse_slice E pe fuel (here c) left (Some i) _) as [[x s]|] eqn:P2; [|discriminate H].
      unfold ret in H. injection H as ? ?; subst. autorewrite with errs in Q. exact (slice_nil _ _ _ _ _ _ P2 Q).
    + destruct (assert_token T_RBRACKET st2) as [ok st3] eqn:A. destruct ok.
      * destruct (e_tyerr E TS_index_type _ _); unfold ret in H; [|discriminate H].
        injection H as ?; subst. autorewrite with errs in Q. discriminate Q.
      * unfold ret in H. injection H as ?; subst. autorewrite with errs in Q. destruct (assert_token_ne _ _ _ _ A Q) as [X _]. discriminate X.
Qed.

Lemma dot_nil left c c' : parse_dot E left c = Some (None, c') -> errs c' <> [].
Proof.
  unfold parse_dot, tyerr. intros H Q.
  destruct (is_ws (prev c)); [unfold ret in H; injection H as ?; subst; autorewrite with errs in Q; discriminate Q|].
  destruct (is_ws (look1 (rest c))); [unfold ret in H; injection H as ?; subst; autorewrite with errs in Q; discriminate Q|].
  destruct (e_tyerr E TS_dot_not_map left (here c)); [unfold ret in H; injection H as ?; subst; autorewrite with errs in Q; discriminate Q|].
  destruct (ttype (as_ident (cur (advance c)))); unfold ret in H; try discriminate H;
    injection H as ?; subst; autorewrite with errs in Q; discriminate Q.
Qed.

Lemma type_assertion_nil fuel left c c' : parse_type_assertion E fuel left c = Some (None, c') -> errs c' <> [].
Proof.
  unfold parse_type_assertion, tyerr. intros H Q.
  destruct (is_ws (prev c)); [unfold ret in H; injection H as ?; subst; autorewrite with errs in Q; discriminate Q|].
  destruct (is_ws (look1 (rest c))); [unfold ret in H; injection H as ?; subst; autorewrite with errs in Q; discriminate Q|].
  destruct (parse_type fuel _) as [[ty c2]|] eqn:P; [|discriminate H].
  destruct ty as [ty|]; [destruct (assert_token T_RPAREN _); discriminate H|].
  destruct (assert_token T_RPAREN (add_err_at E_bad_type (here c) c2)) as [ok c4] eqn:A.
  unfold ret in H. injection H as ?; subst. autorewrite with errs in Q.
  assert (Q4 : errs c4 = []).
  { destruct (e_tyerr E _ _ _); autorewrite with errs in Q; [discriminate Q|]. destruct ok; autorewrite with errs in Q; exact Q. }
  destruct (assert_token_ne _ _ _ _ A Q4) as [_ X]. subst c4. autorewrite with errs in Q4. discriminate Q4.
Qed.

Lemma prefix_nil fuel c c' : parse_prefix E pe fuel c = Some (None, c') -> errs c' <> [].
Proof.
  unfold parse_prefix. intros H Q.
  destruct (cur_t c) eqn:T; unfold ret in H.
  all: try solve [injection H as ?; subst; exact (errs_unexpected_left _ Q)].
  all: try solve [exact (ident_expr_nil _ _ _ H Q)].
  all: try solve [exact (unary_nil _ _ H Q)].
  all: try solve [exact (grouped_nil _ _ _ H Q)].
  all: unfold parse_literal in H; unfold cur_t in T; rewrite T in H; unfold ret in H.
  all: try discriminate H.
  all: try solve [exact (array_literal_nil _ _ _ H Q)].
  all: try solve [exact (map_literal_nil _ _ _ H Q)].
  destruct (num_lit_ok _); [discriminate H|]. injection H as ?; subst. autorewrite with errs in Q. discriminate Q.
Qed.

Lemma infix_nil fuel left c r c' : parse_infix E pe fuel left c = Some r -> r = Some (None, c') -> errs c' <> [].
Proof.
  unfold parse_infix. intros H R.
  destruct (is_binary_op (cur_t c)).
  - injection H as <-. eapply binary_nil; eassumption.
  - destruct (cur_t c); try discriminate H.
    + injection H as <-. eapply index_or_slice_nil; eassumption.
    + destruct (ttype (peek c)); injection H as <-; first [eapply type_assertion_nil; eassumption | eapply dot_nil; eassumption].
Qed.

End ExprNil.

Theorem expr_nil E : forall fuel,
  (forall p c c', parse_expr E fuel p c = Some (None, c') -> errs c' <> []) /\
  (forall p l c c', expr_loop E fuel p l c = Some (None, c') -> errs c' <> []).
Proof.
  induction fuel as [|f [IHe IHl]]; [split; intros; discriminate|].
  pose proof (proj1 (expr_ne E f)) as NEe.
  split.
  - intros p c c' H. rewrite parse_expr_unfold in H.
    destruct (parse_prefix E (parse_expr E f) f c) as [[l c1]|] eqn:P; [|discriminate H].
    destruct l as [lf|]; [eapply IHl; exact H|].
    unfold ret in H. injection H as ?; subst. eapply prefix_nil; try exact P; eauto.
  - intros p l c c' H. rewrite expr_loop_unfold in H. unfold ret in H.
    destruct (is_at_expr_end c); [discriminate H|].
    destruct (loop_continues p (precedences (cur_t c))); [|discriminate H].
    destruct (parse_infix E (parse_expr E f) f l c) as [r|] eqn:PI; [|discriminate H].
    destruct r as [[l1 c1]|] eqn:R; [|discriminate H].
    destruct l1 as [lf|]; [eapply IHl; exact H|].
    injection H as ?; subst. eapply infix_nil; try exact PI; try reflexivity; eauto.
Qed.

(* ================================================================ *)
(** * The reads of an expression are its variable occurrences        *)

Section ExprReads.
Variable E : env.
Variable pe : nat -> pstate -> res (option tree).
Hypothesis HNE : forall p c a c', pe p c = Some (a, c') -> NE c c'.
Hypothesis HNIL : forall p c c', pe p c = Some (None, c') -> errs c' <> [].
Hypothesis HRD : forall p c t c', pe p c = Some (Some t, c') -> errs c' = [] -> reads E c c' (tvars t).

Lemma expr_wss_rd c t c' : parse_expr_wss pe c = Some (Some t, c') -> errs c' = [] -> reads E c c' (tvars t).
Proof.
  unfold parse_expr_wss. intros H Q.
  destruct (pe lowestPrec (push_wss true c)) as [[r st1]|] eqn:P; [|discriminate H].
  unfold ret in H. injection H as ? ?; subst. autorewrite with errs in Q.
  eapply reads_shift; [| |exact (HRD _ _ _ _ P Q)]; autorewrite with used; reflexivity.
Qed.

Lemma expr_list_rd : forall fuel acc c l c', parse_expr_list pe fuel acc c = Some (Some l, c') -> errs c' = [] ->
  exists new, l = rev acc ++ new /\ reads E c c' (lvars new).
Proof.
  induction fuel as [|f IH]; intros acc c l c' H Q; [discriminate|]. cbn [parse_expr_list] in H.
  assert (D1 : ret (Some (rev acc)) c = Some (Some l, c') -> exists new, l = rev acc ++ new /\ reads E c c' (lvars new)).
  { unfold ret. intro H1. injection H1 as ? ?; subst. exists []. rewrite app_nil_r. split; [reflexivity|apply reads_nil; reflexivity]. }
  assert (D : (if is_at_eol c then ret (Some (rev acc)) c else
            (do (n, st1) <- parse_expr_wss pe c;
             match n with None => ret None st1 | Some t => parse_expr_list pe f (t :: acc) (advance_if_ws st1) end)) = Some (Some l, c') ->
            exists new, l = rev acc ++ new /\ reads E c c' (lvars new)).
  { intro H1. destruct (is_at_eol c); [exact (D1 H1)|].
    destruct (parse_expr_wss pe c) as [[n st1]|] eqn:P; [|discriminate H1].
    destruct n as [t|]; [|discriminate H1].
    pose proof (expr_list_ne pe HNE _ _ _ _ _ H1 Q) as Q1. autorewrite with errs in Q1.
    destruct (IH _ _ _ _ H1 Q) as (new & El & Rd).
    exists (t :: new). split; [rewrite El; simpl; rewrite <- app_assoc; reflexivity|].
    simpl. eapply reads_app; [exact (expr_wss_rd _ _ _ P Q1)|].
    eapply reads_shift; [| |exact Rd]; autorewrite with used; reflexivity. }
  destruct (cur_t c); try exact (D H); exact (D1 H).
Qed.

Lemma func_call_rd fuel top nil c t c' :
  parse_func_call E pe fuel top nil c = Some (Some t, c') -> errs c' = [] -> reads E c c' (tvars t).
Proof.
  unfold parse_func_call, tyerr. intros H Q.
  destruct (top || negb nil).
  - destruct (parse_expr_list pe fuel [] (advance c)) as [[args st2]|] eqn:P; [|discriminate H].
    unfold ret in H. injection H as ? ?; subst.
    destruct (arity_wrong E _ _); [autorewrite with errs in Q; discriminate Q|].
    destruct (e_tyerr E TS_call_args _ _); [autorewrite with errs in Q; discriminate Q|].
    destruct args as [l|]; [|exfalso; exact (expr_list_nil pe HNE HNIL _ _ _ _ P Q)].
    destruct (expr_list_rd _ _ _ _ _ P Q) as (new & El & Rd). simpl in El. subst l.
    simpl. rewrite lvars_fix. eapply reads_shift; [| |exact Rd]; autorewrite with used; reflexivity.
  - unfold ret in H. injection H as ? ?; subst. simpl. apply reads_nil. autorewrite with used. reflexivity.
Qed.

Lemma toplevel_rd fuel c t c' : parse_toplevel E pe fuel c = Some (Some t, c') -> errs c' = [] -> reads E c c' (tvars t).
Proof.
  unfold parse_toplevel. intros H Q.
  destruct (cur_t c); try (eapply HRD; eassumption).
  destruct (func_of E (tlit (cur c))) as [[|]|]; try (eapply HRD; eassumption).
  eapply func_call_rd; eassumption.
Qed.

Lemma lookup_var_rd c t c' : lookup_var E c = Some (Some t, c') -> errs c' = [] -> reads E c c' (tvars t).
Proof.
  unfold lookup_var. intros H Q. unfold ret in H.
  destruct (str_eqb _ _) eqn:U; [discriminate H|]. destruct (mem_str _ _) eqn:M; [|destruct (func_of E _); discriminate H].
  injection H as ? ?; subst. simpl. split; [autorewrite with used; reflexivity|]. constructor; [split; assumption|constructor].
Qed.

Lemma ident_expr_rd fuel c t c' : parse_ident_expr E pe fuel c = Some (Some t, c') -> errs c' = [] -> reads E c c' (tvars t).
Proof.
  unfold parse_ident_expr. intros H Q.
  destruct (func_of E _) as [[|]|]; try (eapply lookup_var_rd; eassumption).
  eapply func_call_rd; eassumption.
Qed.

Lemma array_elems_rd : forall fuel acc c l c', parse_array_elems E pe fuel acc c = Some (Some l, c') -> errs c' = [] ->
  exists new, l = rev acc ++ new /\ reads E c c' (lvars new).
Proof.
  induction fuel as [|f IH]; intros acc c l c' H Q; [discriminate|]. cbn [parse_array_elems] in H. unfold tyerr in H.
  assert (D1 : ret (Some (rev acc)) c = Some (Some l, c') -> exists new, l = rev acc ++ new /\ reads E c c' (lvars new)).
  { unfold ret. intro H1. injection H1 as ? ?; subst. exists []. rewrite app_nil_r. split; [reflexivity|apply reads_nil; reflexivity]. }
  destruct (cur_t c); try exact (D1 H);
    (destruct (parse_expr_wss pe c) as [[n st1]|] eqn:P; [|discriminate H];
     destruct n as [t|]; [|discriminate H];
     destruct (e_tyerr E _ _ _); [discriminate H|];
     destruct (parse_multiline_ws (S f) st1) as [st2|] eqn:W; [|discriminate H];
     pose proof (array_elems_ne E pe HNE _ _ _ _ _ H Q) as Q2;
     pose proof (multiline_ws_ne _ _ _ W Q2) as Q1;
     destruct (IH _ _ _ _ H Q) as (new & El & Rd);
     exists (t :: new); (split; [rewrite El; simpl; rewrite <- app_assoc; reflexivity|]);
     simpl; eapply reads_app; [exact (expr_wss_rd _ _ _ P Q1)|];
     eapply reads_shift; [| |exact Rd]; [symmetry; exact (multiline_ws_used _ _ _ W Q2)|reflexivity]).
Qed.

Lemma array_literal_rd fuel c t c' : parse_array_literal E pe fuel c = Some (Some t, c') -> errs c' = [] -> reads E c c' (tvars t).
Proof.
  unfold parse_array_literal. intros H Q.
  destruct (parse_multiline_ws fuel (advance c)) as [c2|] eqn:W; [|discriminate H].
  destruct (parse_array_elems E pe fuel [] c2) as [[els c3]|] eqn:P; [|discriminate H].
  destruct els as [l|]; [|discriminate H].
  destruct (assert_token T_RBRACKET c3) as [ok c4] eqn:A. destruct ok; [|discriminate H].
  unfold ret in H. injection H as ? ?; subst. autorewrite with errs in Q.
  destruct (assert_token_ne _ _ _ _ A Q) as [_ ->].
  destruct (array_elems_rd _ _ _ _ _ P Q) as (new & El & Rd). simpl in El. subst l.
  pose proof (array_elems_ne E pe HNE _ _ _ _ _ P Q) as Q2.
  simpl. rewrite lvars_fix. eapply reads_shift; [| |exact Rd]; autorewrite with used; [|reflexivity].
  rewrite (multiline_ws_used _ _ _ W Q2). autorewrite with used. reflexivity.
Qed.

Lemma map_pairs_rd : forall fuel acc c l c', parse_map_pairs E pe fuel acc c = Some (Some l, c') -> errs c' = [] ->
  exists new, l = rev acc ++ new /\ reads E c c' (pvars new).
Proof.
  induction fuel as [|f IH]; intros acc c l c' H Q; [discriminate|]. cbn [parse_map_pairs] in H. unfold tyerr in H.
  assert (D1 : ret (Some (rev acc)) c = Some (Some l, c') -> exists new, l = rev acc ++ new /\ reads E c c' (pvars new)).
  { unfold ret. intro H1. injection H1 as ? ?; subst. exists []. rewrite app_nil_r. split; [reflexivity|apply reads_nil; reflexivity]. }
  destruct (cur_t c); try exact (D1 H);
    (set (st0 := match ttype (as_ident (cur c)) with T_IDENT => c | _ => add_err E_map_key c end) in H;
     assert (U0 : used st0 = used c) by (unfold st0; destruct (ttype (as_ident (cur c))); reflexivity);
     destruct (has_key _ _); [discriminate H|];
     set (st3 := advance (snd (assert_token T_COLON (advance st0)))) in H;
     assert (U3 : used st3 = used c)
       by (unfold st3; autorewrite with used; unfold assert_token; destruct (toktype_beq _ _); simpl; autorewrite with used; exact U0);
     destruct (parse_expr_wss pe st3) as [[n st4]|] eqn:P; [|discriminate H];
     destruct n as [t|]; [|discriminate H];
     destruct (e_tyerr E _ _ _); [discriminate H|];
     destruct (parse_multiline_ws (S f) st4) as [st5|] eqn:W; [|discriminate H];
     pose proof (map_pairs_ne E pe HNE _ _ _ _ _ H Q) as Q5;
     pose proof (multiline_ws_ne _ _ _ W Q5) as Q4;
     destruct (IH _ _ _ _ H Q) as (new & El & Rd);
     exists ((tlit (as_ident (cur c)), t) :: new); (split; [rewrite El; simpl; rewrite <- app_assoc; reflexivity|]);
     simpl; eapply reads_app;
       [eapply reads_shift; [symmetry; exact U3|reflexivity|exact (expr_wss_rd _ _ _ P Q4)]|];
     eapply reads_shift; [| |exact Rd]; [symmetry; exact (multiline_ws_used _ _ _ W Q5)|reflexivity]).
Qed.

Lemma map_literal_rd fuel c t c' : parse_map_literal E pe fuel c = Some (Some t, c') -> errs c' = [] -> reads E c c' (tvars t).
Proof.
  unfold parse_map_literal. intros H Q.
  destruct (parse_multiline_ws fuel (advance (push_wss false c))) as [c2|] eqn:W; [|discriminate H].
  destruct (parse_map_pairs E pe fuel [] c2) as [[ps c3]|] eqn:P; [|discriminate H].
  destruct ps as [l|]; [|discriminate H].
  destruct (assert_token T_RCURLY c3) as [ok c4] eqn:A. destruct ok; [|discriminate H].
  unfold ret in H. injection H as ? ?; subst. autorewrite with errs in Q.
  destruct (assert_token_ne _ _ _ _ A Q) as [_ ->].
  destruct (map_pairs_rd _ _ _ _ _ P Q) as (new & El & Rd). simpl in El. subst l.
  pose proof (map_pairs_ne E pe HNE _ _ _ _ _ P Q) as Q2.
  simpl. rewrite pvars_fix. eapply reads_shift; [| |exact Rd]; autorewrite with used; [|reflexivity].
  rewrite (multiline_ws_used _ _ _ W Q2). autorewrite with used. reflexivity.
Qed.

Lemma literal_rd fuel c t c' : parse_literal E pe fuel c = Some (Some t, c') -> errs c' = [] -> reads E c c' (tvars t).
Proof.
  unfold parse_literal. intros H Q.
  destruct (ttype (cur c)); unfold ret in H; try discriminate H;
    try (injection H as ? ?; subst; apply reads_nil; autorewrite with used; reflexivity).
  - destruct (num_lit_ok _); [injection H as ? ?; subst; apply reads_nil; autorewrite with used; reflexivity|discriminate H].
  - eapply array_literal_rd; eassumption.
  - eapply map_literal_rd; eassumption.
Qed.

Lemma unary_rd c t c' : parse_unary E pe c = Some (Some t, c') -> errs c' = [] -> reads E c c' (tvars t).
Proof.
  unfold parse_unary, tyerr. intros H Q.
  set (st2 := if is_ws (prev (advance c)) then add_err_at E_ws_after_unary (here c) (advance c) else advance c) in H.
  assert (U2 : used st2 = used c) by (unfold st2; destruct (is_ws _); autorewrite with used; reflexivity).
  destruct (pe unary_operand_prec st2) as [[r st3]|] eqn:P; [|discriminate H].
  destruct r as [x|]; [|discriminate H].
  destruct (e_tyerr E TS_unary _ _); [discriminate H|].
  unfold ret in H. injection H as ? ?; subst. simpl. eapply reads_shift; [symmetry; exact U2|reflexivity|exact (HRD _ _ _ _ P Q)].
Qed.

Lemma binary_rd left c t c' c0 : parse_binary E pe left c = Some (Some t, c') -> errs c' = [] ->
  reads E c0 c (tvars left) -> reads E c0 c' (tvars t).
Proof.
  unfold parse_binary, tyerr. intros H Q Hl.
  destruct (pe _ (advance c)) as [[r st2]|] eqn:P; [|discriminate H].
  destruct r as [x|]; [|discriminate H].
  destruct (e_tyerr E TS_binary _ _); [discriminate H|].
  unfold ret in H. injection H as ? ?; subst. simpl. eapply reads_app; [exact Hl|].
  eapply reads_shift; [| |exact (HRD _ _ _ _ P Q)]; autorewrite with used; reflexivity.
Qed.

Lemma grouped_rd fuel c t c' : parse_grouped E pe fuel c = Some (Some t, c') -> errs c' = [] -> reads E c c' (tvars t).
Proof.
  unfold parse_grouped. intros H Q.
  destruct (parse_toplevel E pe fuel (advance (push_wss false c))) as [[e st2]|] eqn:P; [|discriminate H].
  destruct (assert_token T_RPAREN st2) as [ok st3] eqn:A.
  destruct ok, e as [x|]; unfold ret in H; try discriminate H.
  injection H as ? ?; subst. autorewrite with errs in Q. destruct (assert_token_ne _ _ _ _ A Q) as [_ ->].
  simpl. eapply reads_shift; [| |exact (toplevel_rd _ _ _ _ P Q)]; autorewrite with used; reflexivity.
Qed.

Definition otv (o : option tree) : list str := match o with Some x => tvars x | None => [] end.

Lemma slice_rd fuel tok left start c t c' c0 :
  parse_slice E pe fuel tok left start c = Some (Some t, c') -> errs c' = [] ->
  reads E c0 c (tvars left ++ otv start) -> reads E c0 c' (tvars t).
Proof.
  unfold parse_slice, tyerr. intros H Q Hl.
  destruct (e_tyerr E TS_not_sliceable left tok); [discriminate H|].
  assert (D : (do (e, st1) <- parse_toplevel E pe fuel c;
     match e with
     | None => ret None st1
     | Some x =>
       let '(ok, st2) := assert_token T_RBRACKET st1 in
       if ok then
         let st3 := slice_close E st2 in
         let t := TSlice left start (Some x) in
         if e_tyerr E TS_slice_bounds t tok then ret None (add_err_at (E_type TS_slice_bounds) tok st3) else ret (Some t) st3
       else ret None st2
     end) = Some (Some t, c') -> reads E c0 c' (tvars t)).
  { intro H1. destruct (parse_toplevel E pe fuel c) as [[e st1]|] eqn:P; [|discriminate H1].
    destruct e as [x|]; [|discriminate H1].
    destruct (assert_token T_RBRACKET st1) as [ok st2] eqn:A. destruct ok; [|discriminate H1].
    cbv zeta in H1. destruct (e_tyerr E TS_slice_bounds _ _); [discriminate H1|].
    unfold ret in H1. injection H1 as ? ?; subst. autorewrite with errs in Q. destruct (assert_token_ne _ _ _ _ A Q) as [_ ->].
    simpl. unfold otv in Hl. rewrite app_assoc. eapply reads_app; [exact Hl|].
    eapply reads_shift; [| |exact (toplevel_rd _ _ _ _ P Q)]; autorewrite with used; reflexivity. }
  destruct (cur_t c); try exact (D H).
  cbv zeta in H. destruct (e_tyerr E TS_slice_bounds _ _); [discriminate H|].
  unfold ret in H. injection H as ? ?; subst. simpl. rewrite app_nil_r. unfold otv in Hl.
  eapply reads_shift; [| |exact Hl]; autorewrite with used; reflexivity.
Qed.

Lemma index_or_slice_rd fuel allow left c t c' c0 :
  parse_index_or_slice E pe fuel allow left c = Some (Some t, c') -> errs c' = [] ->
  reads E c0 c (tvars left) -> reads E c0 c' (tvars t).
Proof.
  unfold parse_index_or_slice, tyerr. intros H Q Hl.
  destruct (is_ws (prev (push_wss false c))); [discriminate H|].
  destruct (e_tyerr E TS_not_indexable left (here c)); [discriminate H|].
  destruct (allow && _).
  - destruct (parse_slice E pe fuel (here c) left None _) as [[x s]|] eqn:P; [|discriminate H].
    unfold ret in H. injection H as ? ?; subst. autorewrite with errs in Q.
    eapply reads_shift; [reflexivity| |eapply (slice_rd _ _ _ _ _ _ _ c0 P Q)]; [autorewrite with used; reflexivity|].
    simpl. rewrite app_nil_r. eapply reads_shift; [reflexivity| |exact Hl]. autorewrite with used. reflexivity.
  - destruct (parse_toplevel E pe fuel _) as [[ix st2]|] eqn:P; [|discriminate H].
    destruct ix as [i|]; [|discriminate H].
    destruct (allow && _).
    + destruct (parse_slice E pe fuel (here c) left (Some i) (advance st2)) as [[x s]|] eqn:P2; [|discriminate H].
      unfold ret in H. injection H as ? ?; subst. autorewrite with errs in Q.
      pose proof (slice_ne E pe HNE _ _ _ _ _ _ _ P2 Q) as Q2. autorewrite with errs in Q2.
      eapply reads_shift; [reflexivity| |eapply (slice_rd _ _ _ _ _ _ _ c0 P2 Q)]; [autorewrite with used; reflexivity|].
      simpl. eapply reads_app; [exact Hl|].
      eapply reads_shift; [| |exact (toplevel_rd _ _ _ _ P Q2)]; autorewrite with used; reflexivity.
    + destruct (assert_token T_RBRACKET st2) as [ok st3] eqn:A. destruct ok; [|discriminate H].
      destruct (e_tyerr E TS_index_type _ _); [discriminate H|].
      unfold ret in H. injection H as ? ?; subst. autorewrite with errs in Q. destruct (assert_token_ne _ _ _ _ A Q) as [_ ->].
      simpl. eapply reads_app; [exact Hl|].
      eapply reads_shift; [| |exact (toplevel_rd _ _ _ _ P Q)]; autorewrite with used; reflexivity.
Qed.

Lemma dot_rd left c t c' c0 : parse_dot E left c = Some (Some t, c') -> errs c' = [] ->
  reads E c0 c (tvars left) -> reads E c0 c' (tvars t).
Proof.
  unfold parse_dot, tyerr. intros H Q Hl.
  destruct (is_ws (prev c)); [discriminate H|]. destruct (is_ws (look1 (rest c))); [discriminate H|].
  destruct (e_tyerr E TS_dot_not_map left (here c)); [discriminate H|].
  destruct (ttype (as_ident (cur (advance c)))); unfold ret in H; try discriminate H.
  injection H as ? ?; subst. simpl. eapply reads_shift; [reflexivity| |exact Hl]. autorewrite with used. reflexivity.
Qed.

Lemma type_assertion_rd fuel left c t c' c0 : parse_type_assertion E fuel left c = Some (Some t, c') -> errs c' = [] ->
  reads E c0 c (tvars left) -> reads E c0 c' (tvars t).
Proof.
  unfold parse_type_assertion, tyerr. intros H Q Hl.
  destruct (is_ws (prev c)); [discriminate H|]. destruct (is_ws (look1 (rest c))); [discriminate H|].
  destruct (parse_type fuel _) as [[ty c2]|] eqn:P; [|discriminate H].
  destruct (assert_token T_RPAREN _) as [ok c4] eqn:A.
  destruct ty as [ty|]; [|discriminate H].
  unfold ret in H. injection H as ? ?; subst. simpl.
  eapply reads_shift; [reflexivity| |exact Hl].
  autorewrite with used. destruct (e_tyerr E _ _ _); autorewrite with used;
    (assert (U4 : used c4 = used c2) by (unfold assert_token in A; destruct (toktype_beq _ _); injection A as ? ?; subst; destruct ty; autorewrite with used; reflexivity));
    (destruct ok; autorewrite with used; rewrite U4, (parse_type_used _ _ _ _ P); autorewrite with used; reflexivity).
Qed.

Lemma prefix_rd fuel c t c' : parse_prefix E pe fuel c = Some (Some t, c') -> errs c' = [] -> reads E c c' (tvars t).
Proof.
  unfold parse_prefix. intros H Q.
  destruct (cur_t c); unfold ret in H; try discriminate H;
    first [ eapply ident_expr_rd; eassumption | eapply literal_rd; eassumption | eapply unary_rd; eassumption | eapply grouped_rd; eassumption ].
Qed.

Lemma infix_rd fuel left c r t c' c0 :
  parse_infix E pe fuel left c = Some r -> r = Some (Some t, c') -> errs c' = [] ->
  reads E c0 c (tvars left) -> reads E c0 c' (tvars t).
Proof.
  unfold parse_infix. intros H R Q Hl.
  destruct (is_binary_op (cur_t c)).
  - injection H as <-. eapply binary_rd; eassumption.
  - destruct (cur_t c); try discriminate H.
    + injection H as <-. eapply index_or_slice_rd; eassumption.
    + destruct (ttype (peek c)); injection H as <-; first [eapply type_assertion_rd; eassumption | eapply dot_rd; eassumption].
Qed.

End ExprReads.

Theorem expr_reads E : forall fuel,
  (forall p c t c', parse_expr E fuel p c = Some (Some t, c') -> errs c' = [] -> reads E c c' (tvars t)) /\
  (forall p l c t c' c0, expr_loop E fuel p l c = Some (Some t, c') -> errs c' = [] ->
     reads E c0 c (tvars l) -> reads E c0 c' (tvars t)).
Proof.
  induction fuel as [|f [IHe IHl]]; [split; intros; discriminate|].
  pose proof (proj1 (expr_ne E f)) as NEe. pose proof (proj2 (expr_ne E f)) as NEl.
  pose proof (proj1 (expr_nil E f)) as NILe.
  split.
  - intros p c t c' H Q. rewrite parse_expr_unfold in H.
    destruct (parse_prefix E (parse_expr E f) f c) as [[l c1]|] eqn:P; [|discriminate H].
    destruct l as [lf|]; [|discriminate H].
    pose proof (NEl _ _ _ _ _ H Q) as Q1.
    eapply IHl; [exact H|exact Q|]. eapply prefix_rd; try exact P; eauto.
  - intros p l c t c' c0 H Q Hl. rewrite expr_loop_unfold in H. unfold ret in H.
    destruct (is_at_expr_end c); [injection H as ? ?; subst; exact Hl|].
    destruct (loop_continues p (precedences (cur_t c))); [|injection H as ? ?; subst; exact Hl].
    destruct (parse_infix E (parse_expr E f) f l c) as [r|] eqn:PI; [|injection H as ? ?; subst; exact Hl].
    destruct r as [[l1 c1]|] eqn:R; [|discriminate H].
    destruct l1 as [lf|]; [|discriminate H].
    pose proof (NEl _ _ _ _ _ H Q) as Q1.
    eapply IHl; [exact H|exact Q|].
    eapply infix_rd; try exact PI; try reflexivity; eauto.
Qed.
