(* ParserScope.v — C05, rules (e) (f) (g) (h) and typing at program level.

   Part 1: the variables an expression reads.  The expression parser logs every successful
   lookupVar (pstate.used); on a run without error the log is exactly the list of variable
   occurrences of the returned tree, left to right, and each of them was visible.
   Part 2: lift of the expression rules to programs (static tables: function table fixed by the
   signature pre-pass, typing oracle).
   Part 3: a declarative scope checker on the tree (declared before use, no redeclaration in one
   scope, every declared variable / parameter / loop variable used) and the simulation between it
   and the parser's scope chain. *)
From Coq Require Import List NArith ZArith Bool Arith Lia String.
From EvyV Require Import Base Pratt Parser ParserProofs ParserRules.
From EvyV.Gen Require Import Prec.
Import ListNotations.
Local Open Scope nat_scope.
Local Set Warnings "-unused-intro-pattern".

(* ================================================================ *)
(** * Variable occurrences of a tree, left to right                  *)

Fixpoint tvars (t : tree) : list str :=
  match t with
  | TVar n => [n]
  | TNum _ | TStr _ | TBool _ => []
  | TArr l => (fix go (l : list tree) : list str := match l with [] => [] | x :: r => tvars x ++ go r end) l
  | TMap l => (fix go (l : list (str * tree)) : list str := match l with [] => [] | x :: r => tvars (snd x) ++ go r end) l
  | TUn _ r => tvars r
  | TBin _ l r => tvars l ++ tvars r
  | TGroup e => tvars e
  | TIndex l i => tvars l ++ tvars i
  | TSlice l s e => tvars l ++ match s with Some x => tvars x | None => [] end ++ match e with Some x => tvars x | None => [] end
  | TDot l _ => tvars l
  | TAssert l _ => tvars l
  | TCall _ args => (fix go (l : list tree) : list str := match l with [] => [] | x :: r => tvars x ++ go r end) args
  end.
Definition lvars (l : list tree) : list str := flat_map tvars l.
Definition pvars (l : list (str * tree)) : list str := flat_map (fun kv => tvars (snd kv)) l.
Lemma lvars_fix l : (fix go (l : list tree) : list str := match l with [] => [] | x :: r => tvars x ++ go r end) l = lvars l.
Proof. induction l as [|x l IH]; simpl; [reflexivity|]. rewrite IH. reflexivity. Qed.
Lemma pvars_fix l : (fix go (l : list (str * tree)) : list str := match l with [] => [] | x :: r => tvars (snd x) ++ go r end) l = pvars l.
Proof. induction l as [|x l IH]; simpl; [reflexivity|]. rewrite IH. reflexivity. Qed.
Lemma lvars_app a b : lvars (a ++ b) = lvars a ++ lvars b.
Proof. apply flat_map_app. Qed.
Lemma pvars_app a b : pvars (a ++ b) = pvars a ++ pvars b.
Proof. apply flat_map_app. Qed.

(* the log of reads *)
Lemma used_advance_wss c : used (advance_wss c) = used c. Proof. reflexivity. Qed.
Lemma used_advance_if_ws c : used (advance_if_ws c) = used c.
Proof. unfold advance_if_ws. destruct (is_ws (cur c)); reflexivity. Qed.
Lemma used_advance c : used (advance c) = used c.
Proof.
  unfold advance. destruct (is_wss (advance_wss c)); [reflexivity|].
  destruct (is_ws (peek (advance_if_ws (advance_wss c)))); simpl; rewrite used_advance_if_ws; reflexivity.
Qed.
Lemma used_push_wss b c : used (push_wss b c) = used c. Proof. reflexivity. Qed.
Lemma used_pop_wss c : used (pop_wss c) = used c.
Proof. unfold pop_wss. destruct (_ && _); [rewrite used_advance|]; reflexivity. Qed.
Lemma used_mark_used n c : used (mark_used n c) = n :: used c. Proof. reflexivity. Qed.
Lemma used_slice_close E c : used (slice_close E c) = used c.
Proof. unfold slice_close. destruct (e_fix_slice E); [reflexivity|apply used_advance]. Qed.
Lemma used_add_err_at e n c : used (add_err_at e n c) = used c. Proof. reflexivity. Qed.
Lemma used_add_err e c : used (add_err e c) = used c. Proof. reflexivity. Qed.
#[local] Hint Rewrite used_advance_wss used_advance_if_ws used_advance used_push_wss used_pop_wss used_mark_used
  used_slice_close used_add_err_at used_add_err : used.
#[local] Hint Rewrite errs_advance_wss errs_advance_if_ws errs_advance errs_push_wss errs_pop_wss errs_mark_used
  errs_slice_close errs_add_err_at errs_add_err : errs.

Lemma multiline_ws_used : forall fuel c c', parse_multiline_ws fuel c = Some c' -> errs c' = [] -> used c' = used c.
Proof.
  induction fuel as [|f IH]; intros c c' H Q; [discriminate|]. cbn [parse_multiline_ws] in H.
  destruct (cur_t c); try (injection H as <-; reflexivity).
  - pose proof (multiline_ws_ne _ _ _ H Q) as Q1. autorewrite with errs in Q1.
    rewrite (IH _ _ H Q). autorewrite with used. rewrite (snd_assert_token_ne _ _ Q1). reflexivity.
  - rewrite (IH _ _ H Q). reflexivity.
  - rewrite (IH _ _ H Q). reflexivity.
Qed.

Lemma parse_type_used : forall fuel c a c', parse_type fuel c = Some (a, c') -> used c' = used c.
Proof.
  induction fuel as [|f IH]; intros c a c' H; [discriminate|]. cbn [parse_type] in H. unfold ret in H.
  destruct (cur_t c); try (injection H as ? ?; subst; autorewrite with used; reflexivity).
  - destruct (cur_t (advance c)); try (injection H as ? ?; subst; autorewrite with used; reflexivity).
    destruct (parse_type f (advance (advance c))) as [[sub c2]|] eqn:P; [|discriminate H].
    injection H as ? ?; subst. rewrite (IH _ _ _ P). autorewrite with used. reflexivity.
  - destruct (cur_t (advance c)); try (injection H as ? ?; subst; autorewrite with used; reflexivity).
    destruct (parse_type f (advance (advance c))) as [[sub c2]|] eqn:P; [|discriminate H].
    injection H as ? ?; subst. rewrite (IH _ _ _ P). autorewrite with used. reflexivity.
Qed.

(* a variable occurrence that lookupVar accepted *)
Definition vis (E : env) (n : str) : Prop := mem_str n (e_vars E) = true /\ str_eqb n (s_ "_"%string) = false.
(* the reads of tree t: logged, in order, and all visible *)
Definition reads (E : env) (c c' : pstate) (vs : list str) : Prop :=
  used c' = rev vs ++ used c /\ Forall (vis E) vs.

Lemma reads_nil E c c' : used c' = used c -> reads E c c' [].
Proof. intro H. split; [exact H|constructor]. Qed.
Lemma reads_app E a b c v1 v2 : reads E a b v1 -> reads E b c v2 -> reads E a c (v1 ++ v2).
Proof.
  intros [U1 F1] [U2 F2]. split; [|apply Forall_app; auto].
  rewrite U2, U1, rev_app_distr, app_assoc. reflexivity.
Qed.
Lemma reads_shift E a a' b b' vs : used a' = used a -> used b' = used b -> reads E a b vs -> reads E a' b' vs.
Proof. intros H1 H2 [U F]. split; [rewrite H2, H1; exact U|exact F]. Qed.

(* ================================================================ *)
(** * "nil for previous error": a nil result comes with a recorded error *)

Ltac sub_ne0 P := first [ apply multiline_ws_ne in P | apply parse_type_ne in P ].
(* like chew2 of ParserRules, parameterised by the conversion of sub-calls *)
Ltac chewk conv H :=
  unfold ret in H;
  repeat (first
    [ discriminate H
    | match type of H with
      | Some (_, _) = Some (_, _) => fail 1
      | (match ?m with _ => _ end) = Some _ =>
          lazymatch m with
          | context[match _ with _ => _ end] => fail
          | _ => let P := fresh "P" in let PE := fresh "PE" in
                 first [ destruct m as [[? ?]|] eqn:P | destruct m eqn:P ]; try (pose proof P as PE; conv P)
          end
      | (if ?b then _ else _) = Some _ => let P := fresh "B" in destruct b eqn:P
      | (let '(_, _) := ?m in _) = Some _ => let P := fresh "A" in destruct m eqn:P
      end ]).

Section ExprNil.
Variable E : env.
Variable pe : nat -> pstate -> res (option tree).
Hypothesis HNE : forall p c a c', pe p c = Some (a, c') -> NE c c'.
Hypothesis HNIL : forall p c c', pe p c = Some (None, c') -> errs c' <> [].

Ltac conv P := first [ apply multiline_ws_ne in P | apply parse_type_ne in P | apply HNE in P
                     | apply (expr_wss_ne pe HNE) in P | apply (expr_list_ne pe HNE) in P
                     | apply (func_call_ne E pe HNE) in P | apply (toplevel_ne E pe HNE) in P
                     | apply (slice_ne E pe HNE) in P | apply (array_elems_ne E pe HNE) in P | apply (map_pairs_ne E pe HNE) in P ].
(* a leaf  Some (None, st) = Some (None, c')  with  Q : errs c' = [] *)
Ltac nil_leaf H Q :=
  injection H as ?; subst; autorewrite with errs in Q; try discriminate Q; back;
  try (exfalso; eauto; fail).

Lemma expr_wss_nil c c' : parse_expr_wss pe c = Some (None, c') -> errs c' <> [].
Proof.
  unfold parse_expr_wss. intros H Q. chewk conv H. injection H as ? ?; subst. autorewrite with errs in Q.
  eapply HNIL; eassumption.
Qed.

Lemma expr_list_nil : forall fuel acc c c', parse_expr_list pe fuel acc c = Some (None, c') -> errs c' <> [].
Proof.
  induction fuel as [|f IH]; intros acc c c' H Q; [discriminate|]. cbn [parse_expr_list] in H.
  assert (D : (if is_at_eol c then ret (Some (rev acc)) c else
            (do (n, st1) <- parse_expr_wss pe c;
             match n with None => ret None st1 | Some t => parse_expr_list pe f (t :: acc) (advance_if_ws st1) end)) = Some (None, c') -> False).
  { intro H1. destruct (is_at_eol c); [discriminate H1|].
    destruct (parse_expr_wss pe c) as [[n st1]|] eqn:P; [|discriminate H1].
    destruct n as [t|]; [exact (IH _ _ _ H1 Q)|].
    unfold ret in H1. injection H1 as ?; subst. exact (expr_wss_nil _ _ P Q). }
  destruct (cur_t c); try exact (D H); discriminate H.
Qed.

Lemma toplevel_nil fuel c c' : parse_toplevel E pe fuel c = Some (None, c') -> errs c' <> [].
Proof.
  unfold parse_toplevel. intros H.
  destruct (cur_t c); try (eapply HNIL; eassumption).
  destruct (func_of E (tlit (cur c))) as [[|]|]; try (eapply HNIL; eassumption).
  unfold parse_func_call in H. destruct (true || negb false); [|discriminate H].
  destruct (parse_expr_list pe fuel [] (advance c)) as [[a s]|]; discriminate H.
Qed.

Lemma lookup_var_nil c c' : lookup_var E c = Some (None, c') -> errs c' <> [].
Proof. unfold lookup_var. intros H Q. chewk conv H; injection H as ?; subst; autorewrite with errs in Q; discriminate Q. Qed.

Lemma ident_expr_nil fuel c c' : parse_ident_expr E pe fuel c = Some (None, c') -> errs c' <> [].
Proof.
  unfold parse_ident_expr. intro H.
  destruct (func_of E _) as [[|]|]; try (eapply lookup_var_nil; eassumption).
  unfold parse_func_call in H. destruct (false || negb true); [destruct (parse_expr_list _ _ _ _) as [[a s]|]|]; discriminate H.
Qed.

Lemma array_elems_nil : forall fuel acc c c', parse_array_elems E pe fuel acc c = Some (None, c') -> errs c' <> [].
Proof.
  induction fuel as [|f IH]; intros acc c c' H Q; [discriminate|]. cbn [parse_array_elems] in H. unfold tyerr in H.
  destruct (cur_t c); try discriminate H;
    (destruct (parse_expr_wss pe c) as [[n st1]|] eqn:P; [|discriminate H];
     destruct n as [t|]; [|unfold ret in H; injection H as ?; subst; exact (expr_wss_nil _ _ P Q)];
     destruct (e_tyerr E _ _ _); [unfold ret in H; injection H as ?; subst; autorewrite with errs in Q; discriminate Q|];
     destruct (parse_multiline_ws (S f) st1) as [st2|]; [|discriminate H];
     exact (IH _ _ _ H Q)).
Qed.

Lemma array_literal_nil fuel c c' : parse_array_literal E pe fuel c = Some (None, c') -> errs c' <> [].
Proof.
  unfold parse_array_literal. intros H Q.
  destruct (parse_multiline_ws fuel (advance c)) as [c2|]; [|discriminate H].
  destruct (parse_array_elems E pe fuel [] c2) as [[els c3]|] eqn:P; [|discriminate H].
  destruct els as [l|]; [|unfold ret in H; injection H as ?; subst; exact (array_elems_nil _ _ _ _ P Q)].
  destruct (assert_token T_RBRACKET c3) as [ok c4] eqn:A. destruct ok; [discriminate H|].
  unfold ret in H. injection H as ?; subst. destruct (assert_token_ne _ _ _ _ A Q) as [X _]. discriminate X.
Qed.

Lemma map_pairs_nil : forall fuel acc c c', parse_map_pairs E pe fuel acc c = Some (None, c') -> errs c' <> [].
Proof.
  induction fuel as [|f IH]; intros acc c c' H Q; [discriminate|]. cbn [parse_map_pairs] in H. unfold tyerr in H.
  destruct (cur_t c); try discriminate H;
    (set (st0 := match ttype (as_ident (cur c)) with T_IDENT => c | _ => add_err E_map_key c end) in H;
     destruct (has_key _ _); [unfold ret in H; injection H as ?; subst; autorewrite with errs in Q; discriminate Q|];
     set (st3 := advance (snd (assert_token T_COLON (advance st0)))) in H;
     destruct (parse_expr_wss pe st3) as [[n st4]|] eqn:P; [|discriminate H];
     destruct n as [t|]; [|unfold ret in H; injection H as ?; subst; exact (expr_wss_nil _ _ P Q)];
     destruct (e_tyerr E _ _ _); [unfold ret in H; injection H as ?; subst; autorewrite with errs in Q; discriminate Q|];
     destruct (parse_multiline_ws (S f) st4) as [st5|]; [|discriminate H];
     exact (IH _ _ _ H Q)).
Qed.

Lemma map_literal_nil fuel c c' : parse_map_literal E pe fuel c = Some (None, c') -> errs c' <> [].
Proof.
  unfold parse_map_literal. intros H Q.
  destruct (parse_multiline_ws fuel (advance (push_wss false c))) as [c2|]; [|discriminate H].
  destruct (parse_map_pairs E pe fuel [] c2) as [[ps c3]|] eqn:P; [|discriminate H].
  destruct ps as [l|]; [|unfold ret in H; injection H as ?; subst; autorewrite with errs in Q; exact (map_pairs_nil _ _ _ _ P Q)].
  destruct (assert_token T_RCURLY c3) as [ok c4] eqn:A. destruct ok; [discriminate H|].
  unfold ret in H. injection H as ?; subst. autorewrite with errs in Q. destruct (assert_token_ne _ _ _ _ A Q) as [X _]. discriminate X.
Qed.

Lemma unary_nil c c' : parse_unary E pe c = Some (None, c') -> errs c' <> [].
Proof.
  unfold parse_unary, tyerr. intros H Q.
  destruct (pe unary_operand_prec _) as [[r st3]|] eqn:P; [|discriminate H].
  destruct r as [x|]; [|unfold ret in H; injection H as ?; subst; exact (HNIL _ _ _ P Q)].
  destruct (e_tyerr E TS_unary _ _); unfold ret in H; [|discriminate H].
  injection H as ?; subst. autorewrite with errs in Q. discriminate Q.
Qed.

Lemma binary_nil left c c' : parse_binary E pe left c = Some (None, c') -> errs c' <> [].
Proof.
  unfold parse_binary, tyerr. intros H Q.
  destruct (pe _ (advance c)) as [[r st2]|] eqn:P; [|discriminate H].
  destruct r as [x|]; [|unfold ret in H; injection H as ?; subst; exact (HNIL _ _ _ P Q)].
  destruct (e_tyerr E TS_binary _ _); unfold ret in H; [|discriminate H].
  injection H as ?; subst. autorewrite with errs in Q. discriminate Q.
Qed.

Lemma grouped_nil fuel c c' : parse_grouped E pe fuel c = Some (None, c') -> errs c' <> [].
Proof.
  unfold parse_grouped. intros H Q.
  destruct (parse_toplevel E pe fuel (advance (push_wss false c))) as [[e st2]|] eqn:P; [|discriminate H].
  destruct (assert_token T_RPAREN st2) as [ok st3] eqn:A.
  destruct ok, e as [x|]; unfold ret in H; try discriminate H; injection H as ?; subst; autorewrite with errs in Q.
  - destruct (assert_token_ne _ _ _ _ A Q) as [_ ->]. exact (toplevel_nil _ _ _ P Q).
  - destruct (assert_token_ne _ _ _ _ A Q) as [X _]. discriminate X.
  - destruct (assert_token_ne _ _ _ _ A Q) as [X _]. discriminate X.
Qed.

Lemma slice_nil fuel tok left start c c' : parse_slice E pe fuel tok left start c = Some (None, c') -> errs c' <> [].
Proof.
  unfold parse_slice, tyerr. intros H Q.
  destruct (e_tyerr E TS_not_sliceable left tok); [unfold ret in H; injection H as ?; subst; autorewrite with errs in Q; discriminate Q|].
  assert (D : (do (e, st1) <- parse_toplevel E pe fuel c;
     match e with
     | None => ret None st1
     | Some x =>
       let '(ok, st2) := assert_token T_RBRACKET st1 in
       if ok then
         let st3 := slice_close E st2 in
         let t := TSlice left start (Some x) in
         if e_tyerr E TS_slice_bounds t tok then ret None (add_err_at (E_type TS_slice_bounds) tok st3) else ret (Some t) st3
       else ret None st2
     end) = Some (None, c') -> False).
  { intro H1. destruct (parse_toplevel E pe fuel c) as [[e st1]|] eqn:P; [|discriminate H1].
    destruct e as [x|]; [|unfold ret in H1; injection H1 as ?; subst; exact (toplevel_nil _ _ _ P Q)].
    destruct (assert_token T_RBRACKET st1) as [ok st2] eqn:A. destruct ok.
    - cbv zeta in H1. destruct (e_tyerr E TS_slice_bounds _ _); unfold ret in H1; [|discriminate H1].
      injection H1 as ?; subst. autorewrite with errs in Q. discriminate Q.
    - unfold ret in H1. injection H1 as ?; subst. destruct (assert_token_ne _ _ _ _ A Q) as [X _]. discriminate X. }
  destruct (cur_t c); try exact (D H).
  cbv zeta in H. destruct (e_tyerr E TS_slice_bounds _ _); unfold ret in H; [|discriminate H].
  injection H as ?; subst. autorewrite with errs in Q. discriminate Q.
Qed.

Lemma index_or_slice_nil fuel allow left c c' : parse_index_or_slice E pe fuel allow left c = Some (None, c') -> errs c' <> [].
Proof.
  unfold parse_index_or_slice, tyerr. intros H Q.
  destruct (is_ws (prev (push_wss false c))); [unfold ret in H; injection H as ?; subst; autorewrite with errs in Q; discriminate Q|].
  destruct (e_tyerr E TS_not_indexable left (here c)); [unfold ret in H; injection H as ?; subst; autorewrite with errs in Q; discriminate Q|].
  destruct (allow && _).
  - destruct (parse_slice E pe fuel (here c) left None _) as [[x s]|] eqn:P; [|discriminate H].
    unfold ret in H. injection H as ? ?; subst. autorewrite with errs in Q. exact (slice_nil _ _ _ _ _ _ P Q).
  - destruct (parse_toplevel E pe fuel _) as [[ix st2]|] eqn:P; [|discriminate H].
    destruct ix as [i|]; [|unfold ret in H; injection H as ?; subst; autorewrite with errs in Q; exact (toplevel_nil _ _ _ P Q)].
    destruct (allow && _).
    + destruct (parse_slice E pe fuel (here c) left (Some i) _) as [[x s]|] eqn:P2; [|discriminate H].
      unfold ret in H. injection H as ? ?; subst. autorewrite with errs in Q. exact (slice_nil _ _ _ _ _ _ P2 Q).
    + destruct (assert_token T_RBRACKET st2) as [ok st3] eqn:A. destruct ok.
      * destruct (e_tyerr E TS_index_type _ _); unfold ret in H; [|discriminate H].
        injection H as ?; subst. autorewrite with errs in Q. discriminate Q.
      * unfold ret in H. injection H as ?; subst. autorewrite with errs in Q. destruct (assert_token_ne _ _ _ _ A Q) as [X _]. discriminate X.
Qed.

Lemma dot_nil left c c' : parse_dot E left c = Some (None, c') -> errs c' <> [].
Proof.
  unfold parse_dot, tyerr. intros H Q.
  destruct (is_ws (prev c)); [unfold ret in H; injection H as ?; subst; autorewrite with errs in Q; discriminate Q|].
  destruct (is_ws (look1 (rest c))); [unfold ret in H; injection H as ?; subst; autorewrite with errs in Q; discriminate Q|].
  destruct (e_tyerr E TS_dot_not_map left (here c)); [unfold ret in H; injection H as ?; subst; autorewrite with errs in Q; discriminate Q|].
  destruct (ttype (as_ident (cur (advance c)))); unfold ret in H; try discriminate H;
    injection H as ?; subst; autorewrite with errs in Q; discriminate Q.
Qed.

Lemma type_assertion_nil fuel left c c' : parse_type_assertion E fuel left c = Some (None, c') -> errs c' <> [].
Proof.
  unfold parse_type_assertion, tyerr. intros H Q.
  destruct (is_ws (prev c)); [unfold ret in H; injection H as ?; subst; autorewrite with errs in Q; discriminate Q|].
  destruct (is_ws (look1 (rest c))); [unfold ret in H; injection H as ?; subst; autorewrite with errs in Q; discriminate Q|].
  destruct (parse_type fuel _) as [[ty c2]|] eqn:P; [|discriminate H].
  destruct ty as [ty|]; [destruct (assert_token T_RPAREN _); discriminate H|].
  destruct (assert_token T_RPAREN (add_err_at E_bad_type (here c) c2)) as [ok c4] eqn:A.
  unfold ret in H. injection H as ?; subst. autorewrite with errs in Q.
  assert (Q4 : errs c4 = []).
  { destruct (e_tyerr E _ _ _); autorewrite with errs in Q; [discriminate Q|]. destruct ok; autorewrite with errs in Q; exact Q. }
  destruct (assert_token_ne _ _ _ _ A Q4) as [_ X]. subst c4. autorewrite with errs in Q4. discriminate Q4.
Qed.

Lemma prefix_nil fuel c c' : parse_prefix E pe fuel c = Some (None, c') -> errs c' <> [].
Proof.
  unfold parse_prefix. intros H Q.
  destruct (cur_t c) eqn:T; unfold ret in H.
  all: try solve [injection H as ?; subst; exact (errs_unexpected_left _ Q)].
  all: try solve [exact (ident_expr_nil _ _ _ H Q)].
  all: try solve [exact (unary_nil _ _ H Q)].
  all: try solve [exact (grouped_nil _ _ _ H Q)].
  all: unfold parse_literal in H; unfold cur_t in T; rewrite T in H; unfold ret in H.
  all: try discriminate H.
  all: try solve [exact (array_literal_nil _ _ _ H Q)].
  all: try solve [exact (map_literal_nil _ _ _ H Q)].
  destruct (num_lit_ok _); [discriminate H|]. injection H as ?; subst. autorewrite with errs in Q. discriminate Q.
Qed.

Lemma infix_nil fuel left c r c' : parse_infix E pe fuel left c = Some r -> r = Some (None, c') -> errs c' <> [].
Proof.
  unfold parse_infix. intros H R.
  destruct (is_binary_op (cur_t c)).
  - injection H as <-. eapply binary_nil; eassumption.
  - destruct (cur_t c); try discriminate H.
    + injection H as <-. eapply index_or_slice_nil; eassumption.
    + destruct (ttype (peek c)); injection H as <-; first [eapply type_assertion_nil; eassumption | eapply dot_nil; eassumption].
Qed.

End ExprNil.

Theorem expr_nil E : forall fuel,
  (forall p c c', parse_expr E fuel p c = Some (None, c') -> errs c' <> []) /\
  (forall p l c c', expr_loop E fuel p l c = Some (None, c') -> errs c' <> []).
Proof.
  induction fuel as [|f [IHe IHl]]; [split; intros; discriminate|].
  pose proof (proj1 (expr_ne E f)) as NEe.
  split.
  - intros p c c' H. rewrite parse_expr_unfold in H.
    destruct (parse_prefix E (parse_expr E f) f c) as [[l c1]|] eqn:P; [|discriminate H].
    destruct l as [lf|]; [eapply IHl; exact H|].
    unfold ret in H. injection H as ?; subst. eapply prefix_nil; try exact P; eauto.
  - intros p l c c' H. rewrite expr_loop_unfold in H. unfold ret in H.
    destruct (is_at_expr_end c); [discriminate H|].
    destruct (loop_continues p (precedences (cur_t c))); [|discriminate H].
    destruct (parse_infix E (parse_expr E f) f l c) as [r|] eqn:PI; [|discriminate H].
    destruct r as [[l1 c1]|] eqn:R; [|discriminate H].
    destruct l1 as [lf|]; [eapply IHl; exact H|].
    injection H as ?; subst. eapply infix_nil; try exact PI; try reflexivity; eauto.
Qed.

(* ================================================================ *)
(** * The reads of an expression are its variable occurrences        *)

Section ExprReads.
Variable E : env.
Variable pe : nat -> pstate -> res (option tree).
Hypothesis HNE : forall p c a c', pe p c = Some (a, c') -> NE c c'.
Hypothesis HNIL : forall p c c', pe p c = Some (None, c') -> errs c' <> [].
Hypothesis HRD : forall p c t c', pe p c = Some (Some t, c') -> errs c' = [] -> reads E c c' (tvars t).

Lemma expr_wss_rd c t c' : parse_expr_wss pe c = Some (Some t, c') -> errs c' = [] -> reads E c c' (tvars t).
Proof.
  unfold parse_expr_wss. intros H Q.
  destruct (pe lowestPrec (push_wss true c)) as [[r st1]|] eqn:P; [|discriminate H].
  unfold ret in H. injection H as ? ?; subst. autorewrite with errs in Q.
  eapply reads_shift; [| |exact (HRD _ _ _ _ P Q)]; autorewrite with used; reflexivity.
Qed.

Lemma expr_list_rd : forall fuel acc c l c', parse_expr_list pe fuel acc c = Some (Some l, c') -> errs c' = [] ->
  exists new, l = rev acc ++ new /\ reads E c c' (lvars new).
Proof.
  induction fuel as [|f IH]; intros acc c l c' H Q; [discriminate|]. cbn [parse_expr_list] in H.
  assert (D1 : ret (Some (rev acc)) c = Some (Some l, c') -> exists new, l = rev acc ++ new /\ reads E c c' (lvars new)).
  { unfold ret. intro H1. injection H1 as ? ?; subst. exists []. rewrite app_nil_r. split; [reflexivity|apply reads_nil; reflexivity]. }
  assert (D : (if is_at_eol c then ret (Some (rev acc)) c else
            (do (n, st1) <- parse_expr_wss pe c;
             match n with None => ret None st1 | Some t => parse_expr_list pe f (t :: acc) (advance_if_ws st1) end)) = Some (Some l, c') ->
            exists new, l = rev acc ++ new /\ reads E c c' (lvars new)).
  { intro H1. destruct (is_at_eol c); [exact (D1 H1)|].
    destruct (parse_expr_wss pe c) as [[n st1]|] eqn:P; [|discriminate H1].
    destruct n as [t|]; [|discriminate H1].
    pose proof (expr_list_ne pe HNE _ _ _ _ _ H1 Q) as Q1. autorewrite with errs in Q1.
    destruct (IH _ _ _ _ H1 Q) as (new & El & Rd).
    exists (t :: new). split; [rewrite El; simpl; rewrite <- app_assoc; reflexivity|].
    simpl. eapply reads_app; [exact (expr_wss_rd _ _ _ P Q1)|].
    eapply reads_shift; [| |exact Rd]; autorewrite with used; reflexivity. }
  destruct (cur_t c); try exact (D H); exact (D1 H).
Qed.

Lemma func_call_rd fuel top nil c t c' :
  parse_func_call E pe fuel top nil c = Some (Some t, c') -> errs c' = [] -> reads E c c' (tvars t).
Proof.
  unfold parse_func_call, tyerr. intros H Q.
  destruct (top || negb nil).
  - destruct (parse_expr_list pe fuel [] (advance c)) as [[args st2]|] eqn:P; [|discriminate H].
    unfold ret in H. injection H as ? ?; subst.
    destruct (arity_wrong E _ _); [autorewrite with errs in Q; discriminate Q|].
    destruct (e_tyerr E TS_call_args _ _); [autorewrite with errs in Q; discriminate Q|].
    destruct args as [l|]; [|exfalso; exact (expr_list_nil pe HNE HNIL _ _ _ _ P Q)].
    destruct (expr_list_rd _ _ _ _ _ P Q) as (new & El & Rd). simpl in El. subst l.
    simpl. rewrite lvars_fix. eapply reads_shift; [| |exact Rd]; autorewrite with used; reflexivity.
  - unfold ret in H. injection H as ? ?; subst. simpl. apply reads_nil. autorewrite with used. reflexivity.
Qed.

Lemma toplevel_rd fuel c t c' : parse_toplevel E pe fuel c = Some (Some t, c') -> errs c' = [] -> reads E c c' (tvars t).
Proof.
  unfold parse_toplevel. intros H Q.
  destruct (cur_t c); try (eapply HRD; eassumption).
  destruct (func_of E (tlit (cur c))) as [[|]|]; try (eapply HRD; eassumption).
  eapply func_call_rd; eassumption.
Qed.

Lemma lookup_var_rd c t c' : lookup_var E c = Some (Some t, c') -> errs c' = [] -> reads E c c' (tvars t).
Proof.
  unfold lookup_var. intros H Q. unfold ret in H.
  destruct (str_eqb _ _) eqn:U; [discriminate H|]. destruct (mem_str _ _) eqn:M; [|destruct (func_of E _); discriminate H].
  injection H as ? ?; subst. simpl. split; [autorewrite with used; reflexivity|]. constructor; [split; assumption|constructor].
Qed.

Lemma ident_expr_rd fuel c t c' : parse_ident_expr E pe fuel c = Some (Some t, c') -> errs c' = [] -> reads E c c' (tvars t).
Proof.
  unfold parse_ident_expr. intros H Q.
  destruct (func_of E _) as [[|]|]; try (eapply lookup_var_rd; eassumption).
  eapply func_call_rd; eassumption.
Qed.

Lemma array_elems_rd : forall fuel acc c l c', parse_array_elems E pe fuel acc c = Some (Some l, c') -> errs c' = [] ->
  exists new, l = rev acc ++ new /\ reads E c c' (lvars new).
Proof.
  induction fuel as [|f IH]; intros acc c l c' H Q; [discriminate|]. cbn [parse_array_elems] in H. unfold tyerr in H.
  assert (D1 : ret (Some (rev acc)) c = Some (Some l, c') -> exists new, l = rev acc ++ new /\ reads E c c' (lvars new)).
  { unfold ret. intro H1. injection H1 as ? ?; subst. exists []. rewrite app_nil_r. split; [reflexivity|apply reads_nil; reflexivity]. }
  destruct (cur_t c); try exact (D1 H);
    (destruct (parse_expr_wss pe c) as [[n st1]|] eqn:P; [|discriminate H];
     destruct n as [t|]; [|discriminate H];
     destruct (e_tyerr E _ _ _); [discriminate H|];
     destruct (parse_multiline_ws (S f) st1) as [st2|] eqn:W; [|discriminate H];
     pose proof (array_elems_ne E pe HNE _ _ _ _ _ H Q) as Q2;
     pose proof (multiline_ws_ne _ _ _ W Q2) as Q1;
     destruct (IH _ _ _ _ H Q) as (new & El & Rd);
     exists (t :: new); (split; [rewrite El; simpl; rewrite <- app_assoc; reflexivity|]);
     simpl; eapply reads_app; [exact (expr_wss_rd _ _ _ P Q1)|];
     eapply reads_shift; [| |exact Rd]; [symmetry; exact (multiline_ws_used _ _ _ W Q2)|reflexivity]).
Qed.

Lemma array_literal_rd fuel c t c' : parse_array_literal E pe fuel c = Some (Some t, c') -> errs c' = [] -> reads E c c' (tvars t).
Proof.
  unfold parse_array_literal. intros H Q.
  destruct (parse_multiline_ws fuel (advance c)) as [c2|] eqn:W; [|discriminate H].
  destruct (parse_array_elems E pe fuel [] c2) as [[els c3]|] eqn:P; [|discriminate H].
  destruct els as [l|]; [|discriminate H].
  destruct (assert_token T_RBRACKET c3) as [ok c4] eqn:A. destruct ok; [|discriminate H].
  unfold ret in H. injection H as ? ?; subst. autorewrite with errs in Q.
  destruct (assert_token_ne _ _ _ _ A Q) as [_ ->].
  destruct (array_elems_rd _ _ _ _ _ P Q) as (new & El & Rd). simpl in El. subst l.
  pose proof (array_elems_ne E pe HNE _ _ _ _ _ P Q) as Q2.
  simpl. rewrite lvars_fix. eapply reads_shift; [| |exact Rd]; autorewrite with used; [|reflexivity].
  rewrite (multiline_ws_used _ _ _ W Q2). autorewrite with used. reflexivity.
Qed.

Lemma map_pairs_rd : forall fuel acc c l c', parse_map_pairs E pe fuel acc c = Some (Some l, c') -> errs c' = [] ->
  exists new, l = rev acc ++ new /\ reads E c c' (pvars new).
Proof.
  induction fuel as [|f IH]; intros acc c l c' H Q; [discriminate|]. cbn [parse_map_pairs] in H. unfold tyerr in H.
  assert (D1 : ret (Some (rev acc)) c = Some (Some l, c') -> exists new, l = rev acc ++ new /\ reads E c c' (pvars new)).
  { unfold ret. intro H1. injection H1 as ? ?; subst. exists []. rewrite app_nil_r. split; [reflexivity|apply reads_nil; reflexivity]. }
  destruct (cur_t c); try exact (D1 H);
    (set (st0 := match ttype (as_ident (cur c)) with T_IDENT => c | _ => add_err E_map_key c end) in H;
     assert (U0 : used st0 = used c) by (unfold st0; destruct (ttype (as_ident (cur c))); reflexivity);
     destruct (has_key _ _); [discriminate H|];
     set (st3 := advance (snd (assert_token T_COLON (advance st0)))) in H;
     assert (U3 : used st3 = used c)
       by (unfold st3; autorewrite with used; unfold assert_token; destruct (toktype_beq _ _); simpl; autorewrite with used; exact U0);
     destruct (parse_expr_wss pe st3) as [[n st4]|] eqn:P; [|discriminate H];
     destruct n as [t|]; [|discriminate H];
     destruct (e_tyerr E _ _ _); [discriminate H|];
     destruct (parse_multiline_ws (S f) st4) as [st5|] eqn:W; [|discriminate H];
     pose proof (map_pairs_ne E pe HNE _ _ _ _ _ H Q) as Q5;
     pose proof (multiline_ws_ne _ _ _ W Q5) as Q4;
     destruct (IH _ _ _ _ H Q) as (new & El & Rd);
     exists ((tlit (as_ident (cur c)), t) :: new); (split; [rewrite El; simpl; rewrite <- app_assoc; reflexivity|]);
     simpl; eapply reads_app;
       [eapply reads_shift; [symmetry; exact U3|reflexivity|exact (expr_wss_rd _ _ _ P Q4)]|];
     eapply reads_shift; [| |exact Rd]; [symmetry; exact (multiline_ws_used _ _ _ W Q5)|reflexivity]).
Qed.

Lemma map_literal_rd fuel c t c' : parse_map_literal E pe fuel c = Some (Some t, c') -> errs c' = [] -> reads E c c' (tvars t).
Proof.
  unfold parse_map_literal. intros H Q.
  destruct (parse_multiline_ws fuel (advance (push_wss false c))) as [c2|] eqn:W; [|discriminate H].
  destruct (parse_map_pairs E pe fuel [] c2) as [[ps c3]|] eqn:P; [|discriminate H].
  destruct ps as [l|]; [|discriminate H].
  destruct (assert_token T_RCURLY c3) as [ok c4] eqn:A. destruct ok; [|discriminate H].
  unfold ret in H. injection H as ? ?; subst. autorewrite with errs in Q.
  destruct (assert_token_ne _ _ _ _ A Q) as [_ ->].
  destruct (map_pairs_rd _ _ _ _ _ P Q) as (new & El & Rd). simpl in El. subst l.
  pose proof (map_pairs_ne E pe HNE _ _ _ _ _ P Q) as Q2.
  simpl. rewrite pvars_fix. eapply reads_shift; [| |exact Rd]; autorewrite with used; [|reflexivity].
  rewrite (multiline_ws_used _ _ _ W Q2). autorewrite with used. reflexivity.
Qed.

Lemma literal_rd fuel c t c' : parse_literal E pe fuel c = Some (Some t, c') -> errs c' = [] -> reads E c c' (tvars t).
Proof.
  unfold parse_literal. intros H Q.
  destruct (ttype (cur c)); unfold ret in H; try discriminate H;
    try (injection H as ? ?; subst; apply reads_nil; autorewrite with used; reflexivity).
  - destruct (num_lit_ok _); [injection H as ? ?; subst; apply reads_nil; autorewrite with used; reflexivity|discriminate H].
  - eapply array_literal_rd; eassumption.
  - eapply map_literal_rd; eassumption.
Qed.

Lemma unary_rd c t c' : parse_unary E pe c = Some (Some t, c') -> errs c' = [] -> reads E c c' (tvars t).
Proof.
  unfold parse_unary, tyerr. intros H Q.
  set (st2 := if is_ws (prev (advance c)) then add_err_at E_ws_after_unary (here c) (advance c) else advance c) in H.
  assert (U2 : used st2 = used c) by (unfold st2; destruct (is_ws _); autorewrite with used; reflexivity).
  destruct (pe unary_operand_prec st2) as [[r st3]|] eqn:P; [|discriminate H].
  destruct r as [x|]; [|discriminate H].
  destruct (e_tyerr E TS_unary _ _); [discriminate H|].
  unfold ret in H. injection H as ? ?; subst. simpl. eapply reads_shift; [symmetry; exact U2|reflexivity|exact (HRD _ _ _ _ P Q)].
Qed.

Lemma binary_rd left c t c' c0 : parse_binary E pe left c = Some (Some t, c') -> errs c' = [] ->
  reads E c0 c (tvars left) -> reads E c0 c' (tvars t).
Proof.
  unfold parse_binary, tyerr. intros H Q Hl.
  destruct (pe _ (advance c)) as [[r st2]|] eqn:P; [|discriminate H].
  destruct r as [x|]; [|discriminate H].
  destruct (e_tyerr E TS_binary _ _); [discriminate H|].
  unfold ret in H. injection H as ? ?; subst. simpl. eapply reads_app; [exact Hl|].
  eapply reads_shift; [| |exact (HRD _ _ _ _ P Q)]; autorewrite with used; reflexivity.
Qed.

Lemma grouped_rd fuel c t c' : parse_grouped E pe fuel c = Some (Some t, c') -> errs c' = [] -> reads E c c' (tvars t).
Proof.
  unfold parse_grouped. intros H Q.
  destruct (parse_toplevel E pe fuel (advance (push_wss false c))) as [[e st2]|] eqn:P; [|discriminate H].
  destruct (assert_token T_RPAREN st2) as [ok st3] eqn:A.
  destruct ok, e as [x|]; unfold ret in H; try discriminate H.
  injection H as ? ?; subst. autorewrite with errs in Q. destruct (assert_token_ne _ _ _ _ A Q) as [_ ->].
  simpl. eapply reads_shift; [| |exact (toplevel_rd _ _ _ _ P Q)]; autorewrite with used; reflexivity.
Qed.

Definition otv (o : option tree) : list str := match o with Some x => tvars x | None => [] end.

Lemma slice_rd fuel tok left start c t c' c0 :
  parse_slice E pe fuel tok left start c = Some (Some t, c') -> errs c' = [] ->
  reads E c0 c (tvars left ++ otv start) -> reads E c0 c' (tvars t).
Proof.
  unfold parse_slice, tyerr. intros H Q Hl.
  destruct (e_tyerr E TS_not_sliceable left tok); [discriminate H|].
  assert (D : (do (e, st1) <- parse_toplevel E pe fuel c;
     match e with
     | None => ret None st1
     | Some x =>
       let '(ok, st2) := assert_token T_RBRACKET st1 in
       if ok then
         let st3 := slice_close E st2 in
         let t := TSlice left start (Some x) in
         if e_tyerr E TS_slice_bounds t tok then ret None (add_err_at (E_type TS_slice_bounds) tok st3) else ret (Some t) st3
       else ret None st2
     end) = Some (Some t, c') -> reads E c0 c' (tvars t)).
  { intro H1. destruct (parse_toplevel E pe fuel c) as [[e st1]|] eqn:P; [|discriminate H1].
    destruct e as [x|]; [|discriminate H1].
    destruct (assert_token T_RBRACKET st1) as [ok st2] eqn:A. destruct ok; [|discriminate H1].
    cbv zeta in H1. destruct (e_tyerr E TS_slice_bounds _ _); [discriminate H1|].
    unfold ret in H1. injection H1 as ? ?; subst. autorewrite with errs in Q. destruct (assert_token_ne _ _ _ _ A Q) as [_ ->].
    simpl. unfold otv in Hl. rewrite app_assoc. eapply reads_app; [exact Hl|].
    eapply reads_shift; [| |exact (toplevel_rd _ _ _ _ P Q)]; autorewrite with used; reflexivity. }
  destruct (cur_t c); try exact (D H).
  cbv zeta in H. destruct (e_tyerr E TS_slice_bounds _ _); [discriminate H|].
  unfold ret in H. injection H as ? ?; subst. simpl. rewrite app_nil_r. unfold otv in Hl.
  eapply reads_shift; [| |exact Hl]; autorewrite with used; reflexivity.
Qed.

Lemma index_or_slice_rd fuel allow left c t c' c0 :
  parse_index_or_slice E pe fuel allow left c = Some (Some t, c') -> errs c' = [] ->
  reads E c0 c (tvars left) -> reads E c0 c' (tvars t).
Proof.
  unfold parse_index_or_slice, tyerr. intros H Q Hl.
  destruct (is_ws (prev (push_wss false c))); [discriminate H|].
  destruct (e_tyerr E TS_not_indexable left (here c)); [discriminate H|].
  destruct (allow && _).
  - destruct (parse_slice E pe fuel (here c) left None _) as [[x s]|] eqn:P; [|discriminate H].
    unfold ret in H. injection H as ? ?; subst. autorewrite with errs in Q.
    eapply reads_shift; [reflexivity| |eapply (slice_rd _ _ _ _ _ _ _ c0 P Q)]; [autorewrite with used; reflexivity|].
    simpl. rewrite app_nil_r. eapply reads_shift; [reflexivity| |exact Hl]. autorewrite with used. reflexivity.
  - destruct (parse_toplevel E pe fuel _) as [[ix st2]|] eqn:P; [|discriminate H].
    destruct ix as [i|]; [|discriminate H].
    destruct (allow && _).
    + destruct (parse_slice E pe fuel (here c) left (Some i) (advance st2)) as [[x s]|] eqn:P2; [|discriminate H].
      unfold ret in H. injection H as ? ?; subst. autorewrite with errs in Q.
      pose proof (slice_ne E pe HNE _ _ _ _ _ _ _ P2 Q) as Q2. autorewrite with errs in Q2.
      eapply reads_shift; [reflexivity| |eapply (slice_rd _ _ _ _ _ _ _ c0 P2 Q)]; [autorewrite with used; reflexivity|].
      simpl. eapply reads_app; [exact Hl|].
      eapply reads_shift; [| |exact (toplevel_rd _ _ _ _ P Q2)]; autorewrite with used; reflexivity.
    + destruct (assert_token T_RBRACKET st2) as [ok st3] eqn:A. destruct ok; [|discriminate H].
      destruct (e_tyerr E TS_index_type _ _); [discriminate H|].
      unfold ret in H. injection H as ? ?; subst. autorewrite with errs in Q. destruct (assert_token_ne _ _ _ _ A Q) as [_ ->].
      simpl. eapply reads_app; [exact Hl|].
      eapply reads_shift; [| |exact (toplevel_rd _ _ _ _ P Q)]; autorewrite with used; reflexivity.
Qed.

Lemma dot_rd left c t c' c0 : parse_dot E left c = Some (Some t, c') -> errs c' = [] ->
  reads E c0 c (tvars left) -> reads E c0 c' (tvars t).
Proof.
  unfold parse_dot, tyerr. intros H Q Hl.
  destruct (is_ws (prev c)); [discriminate H|]. destruct (is_ws (look1 (rest c))); [discriminate H|].
  destruct (e_tyerr E TS_dot_not_map left (here c)); [discriminate H|].
  destruct (ttype (as_ident (cur (advance c)))); unfold ret in H; try discriminate H.
  injection H as ? ?; subst. simpl. eapply reads_shift; [reflexivity| |exact Hl]. autorewrite with used. reflexivity.
Qed.

Lemma type_assertion_rd fuel left c t c' c0 : parse_type_assertion E fuel left c = Some (Some t, c') -> errs c' = [] ->
  reads E c0 c (tvars left) -> reads E c0 c' (tvars t).
Proof.
  unfold parse_type_assertion, tyerr. intros H Q Hl.
  destruct (is_ws (prev c)); [discriminate H|]. destruct (is_ws (look1 (rest c))); [discriminate H|].
  destruct (parse_type fuel _) as [[ty c2]|] eqn:P; [|discriminate H].
  destruct (assert_token T_RPAREN _) as [ok c4] eqn:A.
  destruct ty as [ty|]; [|discriminate H].
  unfold ret in H. injection H as ? ?; subst. simpl.
  eapply reads_shift; [reflexivity| |exact Hl].
  autorewrite with used. destruct (e_tyerr E _ _ _); autorewrite with used;
    (assert (U4 : used c4 = used c2) by (unfold assert_token in A; destruct (toktype_beq _ _); injection A as ? ?; subst; destruct ty; autorewrite with used; reflexivity));
    (destruct ok; autorewrite with used; rewrite U4, (parse_type_used _ _ _ _ P); autorewrite with used; reflexivity).
Qed.

Lemma prefix_rd fuel c t c' : parse_prefix E pe fuel c = Some (Some t, c') -> errs c' = [] -> reads E c c' (tvars t).
Proof.
  unfold parse_prefix. intros H Q.
  destruct (cur_t c); unfold ret in H; try discriminate H;
    first [ eapply ident_expr_rd; eassumption | eapply literal_rd; eassumption | eapply unary_rd; eassumption | eapply grouped_rd; eassumption ].
Qed.

Lemma infix_rd fuel left c r t c' c0 :
  parse_infix E pe fuel left c = Some r -> r = Some (Some t, c') -> errs c' = [] ->
  reads E c0 c (tvars left) -> reads E c0 c' (tvars t).
Proof.
  unfold parse_infix. intros H R Q Hl.
  destruct (is_binary_op (cur_t c)).
  - injection H as <-. eapply binary_rd; eassumption.
  - destruct (cur_t c); try discriminate H.
    + injection H as <-. eapply index_or_slice_rd; eassumption.
    + destruct (ttype (peek c)); injection H as <-; first [eapply type_assertion_rd; eassumption | eapply dot_rd; eassumption].
Qed.

End ExprReads.

Theorem expr_reads E : forall fuel,
  (forall p c t c', parse_expr E fuel p c = Some (Some t, c') -> errs c' = [] -> reads E c c' (tvars t)) /\
  (forall p l c t c' c0, expr_loop E fuel p l c = Some (Some t, c') -> errs c' = [] ->
     reads E c0 c (tvars l) -> reads E c0 c' (tvars t)).
Proof.
  induction fuel as [|f [IHe IHl]]; [split; intros; discriminate|].
  pose proof (proj1 (expr_ne E f)) as NEe. pose proof (proj2 (expr_ne E f)) as NEl.
  pose proof (proj1 (expr_nil E f)) as NILe.
  split.
  - intros p c t c' H Q. rewrite parse_expr_unfold in H.
    destruct (parse_prefix E (parse_expr E f) f c) as [[l c1]|] eqn:P; [|discriminate H].
    destruct l as [lf|]; [|discriminate H].
    pose proof (NEl _ _ _ _ _ H Q) as Q1.
    eapply IHl; [exact H|exact Q|]. eapply prefix_rd; try exact P; eauto.
  - intros p l c t c' c0 H Q Hl. rewrite expr_loop_unfold in H. unfold ret in H.
    destruct (is_at_expr_end c); [injection H as ? ?; subst; exact Hl|].
    destruct (loop_continues p (precedences (cur_t c))); [|injection H as ? ?; subst; exact Hl].
    destruct (parse_infix E (parse_expr E f) f l c) as [r|] eqn:PI; [|injection H as ? ?; subst; exact Hl].
    destruct r as [[l1 c1]|] eqn:R; [|discriminate H].
    destruct l1 as [lf|]; [|discriminate H].
    pose proof (NEl _ _ _ _ _ H Q) as Q1.
    eapply IHl; [exact H|exact Q|].
    eapply infix_rd; try exact PI; try reflexivity; eauto.
Qed.

(* ================================================================ *)
(** * Program-level rules: static expression rules and scoping       *)

(* ---- (e) + typing: static tables ---- *)
Definition mkenv (B : benv) (F : list (str * finfo)) (vs : list str) : env :=
  {| e_funcs := map (fun nf => (fst nf, fi_nil (snd nf))) F; e_vars := vs;
     e_arity := map (fun nf => (fst nf, fi_arity (snd nf))) F; e_tyerr := b_tyerr B; e_fix_slice := true |}.
Lemma env_of_mkenv B s : env_of B s = mkenv B (fns s) (visible (scs s)).
Proof. reflexivity. Qed.

(* the expression satisfies the call rules and the typing oracle was silent (tree_ok for some set of visible variables) *)
Definition expr_sok (B : benv) (F : list (str * finfo)) (t : tree) : Prop := exists vs, tree_ok (mkenv B F vs) t.
Definition silent (B : benv) (site : tsite) (t : tree) : Prop := exists n, b_tyerr B site t n = false.
Definition oexpr_sok B F (o : option tree) : Prop := match o with Some t => expr_sok B F t | None => True end.

Fixpoint stmt_sok (B : benv) (F : list (str * finfo)) (s : stmt) : Prop :=
  match s with
  | SEmpty | SBreak | STypedDecl _ _ => True
  | SInferredDecl _ v => expr_sok B F v /\ silent B TS_decl_none v
  | SAssign t v => expr_sok B F t /\ expr_sok B F v /\ silent B TS_assign_type (TBin T_ASSIGN t v)
  | SCallStmt c => expr_sok B F c
  | SReturn v => match v with Some t => expr_sok B F t /\ silent B TS_return_type t | None => True end
  | SIf brs els =>
      (fix all (l : list (option tree * block)) : Prop :=
         match l with
         | [] => True
         | cb :: r => (match fst cb with Some c => expr_sok B F c /\ silent B TS_condition c | None => True end) /\
                      block_sok B F (snd cb) /\ all r
         end) brs /\
      match els with Some e => block_sok B F e | None => True end
  | SWhile c b => (match c with Some c => expr_sok B F c /\ silent B TS_condition c | None => True end) /\ block_sok B F b
  | SFor _ nodes b =>
      (fix all (l : list tree) : Prop := match l with [] => True | x :: r => expr_sok B F x /\ all r end) nodes /\
      silent B TS_for_range_type (TCall [] nodes) /\ block_sok B F b
  | SFunc _ _ _ b => block_sok B F b
  | SOn _ _ b => block_sok B F b
  end
with block_sok (B : benv) (F : list (str * finfo)) (b : block) : Prop :=
  match b with Block l _ => (fix all (l : list stmt) : Prop := match l with [] => True | x :: r => stmt_sok B F x /\ all r end) l end.

Definition stmts_sok B F (l : list stmt) : Prop := Forall (stmt_sok B F) l.
Lemma stmts_sok_fix B F l :
  (fix all (l : list stmt) : Prop := match l with [] => True | x :: r => stmt_sok B F x /\ all r end) l <-> stmts_sok B F l.
Proof.
  induction l as [|x l IH]; simpl; [split; [constructor|auto]|].
  split; [intros [H1 H2]; constructor; [exact H1|apply IH; exact H2]|].
  intro H. split; [exact (Forall_inv H)|apply IH; exact (Forall_inv_tail H)].
Qed.

(* ---- (f) (g) (h): a scope checker on the tree ---- *)
Definition frame := list (str * bool).          (* declared name, used *)
Definition ctx := list frame.                   (* innermost scope first *)

Fixpoint fhas (n : str) (f : frame) : bool :=
  match f with [] => false | x :: r => str_eqb (fst x) n || fhas n r end.
Fixpoint fmark (n : str) (f : frame) : frame :=
  match f with [] => [] | x :: r => if str_eqb (fst x) n then (fst x, true) :: r else x :: fmark n r end.
(* a read or an assignment uses the innermost declaration of the name *)
Fixpoint cmark (n : str) (G : ctx) : ctx :=
  match G with [] => [] | f :: r => if fhas n f then fmark n f :: r else f :: cmark n r end.
Definition cvisible (n : str) (G : ctx) : bool := negb (str_eqb n (s_ "_"%string)) && existsb (fhas n) G.

(* (f) every variable occurrence is declared in an enclosing scope at that point; it is then marked used *)
Definition use_vars (vs : list str) (G : ctx) : option ctx :=
  if forallb (fun n => cvisible n G) vs then Some (fold_left (fun G n => cmark n G) vs G) else None.

Record tabs := { t_globals : list str; t_funcs : list str; t_events : list (str * nat) }.

(* (g) a declaration: not a builtin variable, not yet declared in THIS scope, not a function name;
   "_" only as a parameter, and it declares nothing *)
Definition declare (T : tabs) (allow_underscore : bool) (n : str) (G : ctx) : option ctx :=
  match G with
  | [] => None
  | f :: r =>
      if mem_str n (t_globals T) || fhas n f || mem_str n (t_funcs T) || (negb allow_underscore && str_eqb n (s_ "_"%string))
      then None
      else Some (if str_eqb n (s_ "_"%string) then G else ((n, false) :: f) :: r)
  end.
Fixpoint declare_all (T : tabs) (ns : list str) (G : ctx) : option ctx :=
  match ns with [] => Some G | n :: r => match declare T true n G with Some G1 => declare_all T r G1 | None => None end end.

(* (h) when a scope ends every name declared in it has been used *)
Definition close_scope (G : ctx) : option ctx :=
  match G with f :: r => if forallb snd f then Some r else None | [] => None end.

Definition obind {A C} (o : option A) (k : A -> option C) : option C := match o with Some a => k a | None => None end.
Definition otv' (o : option tree) : list str := match o with Some x => tvars x | None => [] end.
Fixpoint lookup_evn (n : str) (l : list (str * nat)) : option nat :=
  match l with [] => None | (m, k) :: r => if str_eqb m n then Some k else lookup_evn n r end.

Fixpoint scope_stmt (T : tabs) (s : stmt) (G : ctx) {struct s} : option ctx :=
  match s with
  | SEmpty | SBreak => Some G
  | STypedDecl n t => match t with Some _ => declare T false n G | None => None end
  | SInferredDecl n v => obind (use_vars (tvars v) G) (declare T false n)
  | SAssign t v => obind (use_vars (tvars t) G) (use_vars (tvars v))
  | SCallStmt c => use_vars (tvars c) G
  | SReturn v => use_vars (otv' v) G
  | SIf brs els =>
      obind ((fix go (l : list (option tree * block)) (G : ctx) : option ctx :=
                match l with
                | [] => Some G
                | cb :: r => obind (obind (use_vars (otv' (fst cb)) ([] :: G)) (scope_block T (snd cb))) (go r)
                end) brs G)
            (fun G1 => match els with Some e => scope_block T e ([] :: G1) | None => Some G1 end)
  | SWhile c b => obind (use_vars (otv' c) ([] :: G)) (scope_block T b)
  | SFor v nodes b =>
      obind (match v with Some n => declare T false n ([] :: G) | None => Some ([] :: G) end)
            (fun G1 => obind (use_vars (lvars nodes) G1) (scope_block T b))
  | SFunc _ _ params b => obind (declare_all T params ([] :: G)) (scope_block T b)
  | SOn name params b =>
      match lookup_evn name (t_events T) with
      | None => None
      | Some k =>
          match params with
          | [] => scope_block T b ([] :: G)
          | _ => if Nat.eqb (List.length params) k then obind (declare_all T params ([] :: G)) (scope_block T b) else None
          end
      end
  end
(* the statements of a block in the scope that has just been opened; then the scope is closed *)
with scope_block (T : tabs) (b : block) (G : ctx) {struct b} : option ctx :=
  match b with
  | Block l _ =>
      obind ((fix go (l : list stmt) (G : ctx) : option ctx :=
                match l with [] => Some G | s :: r => obind (scope_stmt T s G) (go r) end) l G)
            close_scope
  end.

Fixpoint scope_stmts (T : tabs) (l : list stmt) (G : ctx) : option ctx :=
  match l with [] => Some G | s :: r => obind (scope_stmt T s G) (scope_stmts T r) end.
Lemma scope_block_eq T l t G : scope_block T (Block l t) G = obind (scope_stmts T l G) close_scope.
Proof.
  simpl. f_equal. revert G. induction l as [|s l IH]; intro G; simpl; [reflexivity|].
  destruct (scope_stmt T s G); simpl; [apply IH|reflexivity].
Qed.

(* a program: the builtin variables form the outermost scope (they count as used) *)
Definition scope_prog (T : tabs) (p : list stmt) : bool :=
  match obind (scope_stmts T p [map (fun n => (n, true)) (t_globals T)]) close_scope with Some _ => true | None => false end.

(* ---- the parser's scope chain, abstractly ---- *)
Definition absf (sc : scope) : frame := map (fun v => (v_name v, v_used v)) (sc_vars sc).
Definition abs (s : pst) : ctx := map absf (scs s).

Lemma fhas_abs n vs : fhas n (map (fun v => (v_name v, v_used v)) vs) = has_var n vs.
Proof. induction vs as [|v vs IH]; simpl; [reflexivity|]. rewrite IH. reflexivity. Qed.
Lemma fmark_abs n vs : fmark n (map (fun v => (v_name v, v_used v)) vs) = map (fun v => (v_name v, v_used v)) (mark_in n vs).
Proof. induction vs as [|v vs IH]; simpl; [reflexivity|]. destruct (str_eqb (v_name v) n); simpl; [reflexivity|]. rewrite IH. reflexivity. Qed.
Lemma abs_mark_scopes n l : map absf (mark_scopes n l) = cmark n (map absf l).
Proof.
  induction l as [|sc l IH]; simpl; [reflexivity|]. unfold absf at 2. rewrite fhas_abs.
  destruct (has_var n (sc_vars sc)); simpl; [unfold absf; simpl; rewrite fmark_abs; reflexivity|]. rewrite IH. reflexivity.
Qed.
Lemma abs_mark n s : abs (mark n s) = cmark n (abs s).
Proof. unfold abs, mark. simpl. apply abs_mark_scopes. Qed.
Lemma abs_upd f s : abs (upd f s) = abs s. Proof. reflexivity. Qed.
Lemma abs_with_cs s c : abs (with_cs s c) = abs s. Proof. reflexivity. Qed.
Lemma abs_adv s : abs (adv s) = abs s. Proof. reflexivity. Qed.
Lemma abs_apnl s : abs (apnl s) = abs s. Proof. reflexivity. Qed.
Lemma abs_serr_at k n s : abs (serr_at k n s) = abs s. Proof. reflexivity. Qed.
Lemma abs_serr k s : abs (serr k s) = abs s. Proof. reflexivity. Qed.
Lemma abs_assert_eol s : abs (assert_eol s) = abs s. Proof. unfold assert_eol. destruct (is_at_eol _); reflexivity. Qed.
Lemma abs_passert t s : abs (snd (passert t s)) = abs s. Proof. unfold passert. destruct (assert_token t (cs s)); reflexivity. Qed.
Lemma abs_ty_err_here site s : abs (ty_err_here site s) = abs s. Proof. reflexivity. Qed.
Lemma abs_push_scope a b c s : abs (push_scope a b c s) = [] :: abs s. Proof. reflexivity. Qed.
Lemma abs_push_inherit b s : abs (push_inherit b s) = [] :: abs s. Proof. reflexivity. Qed.
Lemma abs_pop_scope s : abs (pop_scope s) = tl (abs s).
Proof. unfold abs, pop_scope. simpl. destruct (scs s); reflexivity. Qed.
Lemma abs_fold_serr {X} (f : X -> nat) k (l : list X) : forall s, abs (fold_left (fun s v => serr_at k (f v) s) l s) = abs s.
Proof. induction l as [|x l IH]; intro s; simpl; [reflexivity|]. rewrite IH. reflexivity. Qed.
Lemma abs_validate_scope s : abs (validate_scope s) = abs s.
Proof. unfold validate_scope. destruct (scs s) eqn:Q; [reflexivity|]. apply abs_fold_serr. Qed.
Lemma abs_finish_end s : abs (finish_end s) = abs s.
Proof. unfold finish_end. rewrite abs_apnl, abs_assert_eol, abs_adv, abs_passert. reflexivity. Qed.
Lemma abs_fold_mark l : forall s0, abs (fold_right mark s0 l) = fold_right cmark (abs s0) l.
Proof. induction l as [|x l IH]; intro s0; simpl; [reflexivity|]. rewrite abs_mark, IH. reflexivity. Qed.
Lemma abs_collect s c : abs (collect s c) = fold_right cmark (abs s) (used c).
Proof. unfold collect. rewrite abs_upd, abs_fold_mark. reflexivity. Qed.

#[local] Hint Rewrite abs_upd abs_with_cs abs_adv abs_apnl abs_serr_at abs_serr abs_assert_eol abs_passert abs_ty_err_here
  abs_push_scope abs_push_inherit abs_pop_scope abs_validate_scope abs_finish_end abs_mark : abs.

(* visibility *)
Lemma mem_visible n l : mem_str n (visible l) = existsb (fhas n) (map absf l).
Proof.
  unfold visible. induction l as [|sc l IH]; simpl; [reflexivity|].
  assert (H : forall a b, mem_str n (a ++ b) = mem_str n a || mem_str n b).
  { induction a as [|x a IHa]; intro b; simpl; [reflexivity|]. rewrite IHa. apply orb_assoc. }
  rewrite H, IH. f_equal. unfold absf. rewrite fhas_abs.
  induction (sc_vars sc) as [|v vs IHv]; simpl; [reflexivity|]. rewrite IHv. reflexivity.
Qed.
Lemma scope_get_abs n s : scope_get n s = cvisible n (abs s).
Proof.
  unfold scope_get, cvisible, abs. f_equal.
  induction (scs s) as [|sc l IH]; simpl; [reflexivity|]. rewrite IH. unfold absf. rewrite fhas_abs. reflexivity.
Qed.
Lemma vis_cvisible B s n : vis (env_of B s) n -> cvisible n (abs s) = true.
Proof. intros [H1 H2]. unfold cvisible. rewrite H2. simpl in H1. rewrite mem_visible in H1. exact H1. Qed.

(* the reads logged by an expression call, replayed on the abstract scope chain *)
Lemma use_vars_collect B s c' vs :
  used c' = rev vs -> Forall (vis (env_of B s)) vs ->
  use_vars vs (abs s) = Some (abs (collect s c')).
Proof.
  intros U F. unfold use_vars.
  assert (FB : forallb (fun n => cvisible n (abs s)) vs = true).
  { apply forallb_forall. intros n Hn. rewrite Forall_forall in F. apply (vis_cvisible B). apply F. exact Hn. }
  rewrite FB, abs_collect, U. f_equal. rewrite <- fold_left_rev_right. reflexivity.
Qed.

(* declarations *)
Lemma remove_var_fresh n vs : has_var n vs = false -> remove_var n vs = vs.
Proof.
  induction vs as [|v vs IH]; simpl; [reflexivity|]. intro H. apply orb_false_iff in H as [H1 H2].
  rewrite H1, (IH H2). reflexivity.
Qed.
Definition tabs_of (B : benv) (F : list (str * finfo)) : tabs :=
  {| t_globals := b_globals B; t_funcs := map fst F; t_events := map (fun e => (fst e, List.length (snd e))) (b_events B) |}.
Lemma is_func_tabs n s : is_func n s = mem_str n (map fst (fns s)).
Proof.
  unfold is_func. induction (fns s) as [|[m f] l IH]; simpl; [reflexivity|].
  destruct (str_eqb m n); [reflexivity|exact IH].
Qed.
Lemma in_local_abs n s : in_local n s = match abs s with f :: _ => fhas n f | [] => false end.
Proof. unfold in_local, abs. destruct (scs s) as [|sc r]; simpl; [reflexivity|]. unfold absf. rewrite fhas_abs. reflexivity. Qed.

Lemma declare_sim B n p a s :
  fst (validate_var_decl B n p a s) = true -> scs s <> [] ->
  declare (tabs_of B (fns s)) a n (abs s) = Some (abs (scope_set n p s)).
Proof.
  unfold validate_var_decl, declare. intros H NE.
  destruct (abs s) as [|f r] eqn:A.
  { unfold abs in A. destruct (scs s); [contradiction|discriminate A]. }
  rewrite in_local_abs, is_func_tabs, A in H. simpl.
  destruct (mem_str n (b_globals B)); [discriminate H|].
  destruct (fhas n f) eqn:FH; [discriminate H|].
  destruct (mem_str n (map fst (fns s))); [discriminate H|].
  destruct (negb a && str_eqb n (s_ "_"%string)); [discriminate H|]. simpl.
  unfold scope_set. destruct (str_eqb n (s_ "_"%string)); [rewrite A; reflexivity|].
  unfold abs in *. destruct (scs s) as [|sc rs]; [contradiction|]. simpl in *. injection A as Af Ar. subst f r.
  unfold absf at 1. simpl. rewrite remove_var_fresh; [reflexivity|]. unfold absf in FH. rewrite fhas_abs in FH. exact FH.
Qed.

(* ---- the read log is empty between expression calls ---- *)
Definition sused (s : pst) : list str := used (cs s).
Lemma used_apnl_loop : forall f c, used (apnl_loop f c) = used c.
Proof. induction f as [|f IH]; intro c; simpl; [reflexivity|]. destruct (cur_t c); rewrite ?IH, ?used_advance; reflexivity. Qed.
Lemma sused_adv s : sused (adv s) = sused s. Proof. unfold sused, adv, upd, with_cs. cbn [cs]. apply used_advance. Qed.
Lemma sused_apnl s : sused (apnl s) = sused s. Proof. unfold sused, apnl, upd, with_cs. cbn [cs]. apply used_apnl_loop. Qed.
Lemma sused_serr_at k n s : sused (serr_at k n s) = sused s. Proof. reflexivity. Qed.
Lemma sused_serr k s : sused (serr k s) = sused s. Proof. reflexivity. Qed.
Lemma sused_assert_eol s : sused (assert_eol s) = sused s. Proof. unfold assert_eol. destruct (is_at_eol _); reflexivity. Qed.
Lemma sused_passert t s : sused (snd (passert t s)) = sused s.
Proof. unfold passert, sused, assert_token. destruct (toktype_beq _ _); reflexivity. Qed.
Lemma sused_with_scs s l : sused (with_scs s l) = sused s. Proof. reflexivity. Qed.
Lemma sused_scope_set n p s : sused (scope_set n p s) = sused s.
Proof. unfold scope_set. destruct (str_eqb _ _); [reflexivity|]. destruct (scs s); reflexivity. Qed.
Lemma sused_mark n s : sused (mark n s) = sused s. Proof. reflexivity. Qed.
Lemma sused_push_scope a b c s : sused (push_scope a b c s) = sused s. Proof. reflexivity. Qed.
Lemma sused_push_inherit b s : sused (push_inherit b s) = sused s. Proof. reflexivity. Qed.
Lemma sused_pop_scope s : sused (pop_scope s) = sused s. Proof. reflexivity. Qed.
Lemma sused_ty_err_here site s : sused (ty_err_here site s) = sused s. Proof. reflexivity. Qed.
Lemma sused_fold_serr {X} (f : X -> nat) k (l : list X) : forall s, sused (fold_left (fun s v => serr_at k (f v) s) l s) = sused s.
Proof. induction l as [|x l IH]; intro s; simpl; [reflexivity|]. rewrite IH. reflexivity. Qed.
Lemma sused_validate_scope s : sused (validate_scope s) = sused s.
Proof. unfold validate_scope. destruct (scs s); [reflexivity|]. apply sused_fold_serr. Qed.
Lemma sused_validate_var_decl B n p a s : sused (snd (validate_var_decl B n p a s)) = sused s.
Proof. unfold validate_var_decl. repeat (destruct (_ : bool); try reflexivity). Qed.
Lemma sused_finish_end s : sused (finish_end s) = sused s.
Proof. unfold finish_end. rewrite sused_apnl, sused_assert_eol, sused_adv, sused_passert. reflexivity. Qed.
Lemma sused_collect s c : sused (collect s c) = [].
Proof. reflexivity. Qed.
Lemma sused_upd_err e n s : sused (upd (add_err_at e n) s) = sused s. Proof. reflexivity. Qed.
#[local] Hint Rewrite sused_adv sused_apnl sused_serr_at sused_serr sused_assert_eol sused_passert sused_with_scs sused_scope_set
  sused_mark sused_push_scope sused_push_inherit sused_pop_scope sused_ty_err_here sused_validate_scope sused_validate_var_decl
  sused_finish_end sused_collect sused_upd_err : sused.
#[local] Hint Rewrite serrs_adv serrs_apnl serrs_serr_at serrs_serr serrs_with_scs serrs_scope_set serrs_mark
  serrs_push_scope serrs_push_inherit serrs_pop_scope serrs_ty_err_here serrs_collect : serrs.
#[local] Hint Rewrite fns_upd fns_with_scs fns_with_cs fns_adv fns_apnl fns_serr_at fns_serr fns_assert_eol fns_passert
  fns_scope_set fns_mark fns_push_scope fns_push_inherit fns_pop_scope fns_ty_err_here fns_collect fns_validate_scope
  fns_validate_var_decl fns_finish_end : fns.

(* ---- expression calls: rules, reads replayed on the abstract scope chain, table unchanged ---- *)
Section Calls.
Variable B : benv.

Lemma expr_sok_of s t : tree_ok (env_of B s) t -> expr_sok B (fns s) t.
Proof. intro H. exists (visible (scs s)). exact H. Qed.

Lemma p_toplevel_full s t s' : p_toplevel B s = Ok (Some t) s' -> serrs s' = [] -> sused s = [] ->
  tree_ok (env_of B s) t /\ use_vars (tvars t) (abs s) = Some (abs s') /\ fns s' = fns s /\ sused s' = [].
Proof.
  unfold p_toplevel, expr_call. intros H Q U.
  destruct (parse_toplevel _ _ _ _) as [[a c']|] eqn:P; [|discriminate H].
  apply Ok_inj in H as [E1 E2]; subst. rewrite serrs_collect in Q.
  set (E := env_of B s) in *. set (fu := efuel (cs s)) in *.
  split; [eapply (toplevel_ok E (parse_expr E fu)); [apply (expr_ne E fu)|apply (expr_rules E fu)|exact P|exact Q]|].
  destruct (toplevel_rd E (parse_expr E fu) (proj1 (expr_ne E fu)) (proj1 (expr_nil E fu)) (proj1 (expr_reads E fu)) fu _ _ _ P Q) as [Ru Rf].
  unfold sused in U. rewrite U, app_nil_r in Ru.
  split; [apply (use_vars_collect B); assumption|]. split; [apply fns_collect|reflexivity].
Qed.

Lemma p_expr_list_full s l s' : p_expr_list B s = Ok (Some l) s' -> serrs s' = [] -> sused s = [] ->
  Forall (tree_ok (env_of B s)) l /\ use_vars (lvars l) (abs s) = Some (abs s') /\ fns s' = fns s /\ sused s' = [].
Proof.
  unfold p_expr_list, expr_call. intros H Q U.
  destruct (parse_expr_list _ _ _ _) as [[a c']|] eqn:P; [|discriminate H].
  apply Ok_inj in H as [E1 E2]; subst. rewrite serrs_collect in Q.
  set (E := env_of B s) in *. set (fu := efuel (cs s)) in *.
  split; [eapply (expr_list_ok E (parse_expr E fu)); [apply (expr_ne E fu)|apply (expr_rules E fu)|exact P|exact Q|constructor]|].
  destruct (expr_list_rd E (parse_expr E fu) (proj1 (expr_ne E fu)) (proj1 (expr_reads E fu)) fu _ _ _ _ P Q) as (new & El & Ru & Rf).
  simpl in El. subst l. unfold sused in U. rewrite U, app_nil_r in Ru.
  split; [apply (use_vars_collect B); assumption|]. split; [apply fns_collect|reflexivity].
Qed.

Lemma func_of_env s n fi : lookup_fn n (fns s) = Some fi -> func_of (env_of B s) n = Some (fi_nil fi).
Proof.
  unfold func_of. simpl. induction (fns s) as [|[m f] l IH]; simpl; [discriminate|].
  destruct (str_eqb m n); [intro H; injection H as ->; reflexivity|exact IH].
Qed.

Lemma p_func_call_full nil s t s' : p_func_call B nil s = Ok (Some t) s' -> serrs s' = [] -> sused s = [] ->
  func_of (env_of B s) (tlit (cur (cs s))) = Some nil ->
  tree_ok (env_of B s) t /\ use_vars (tvars t) (abs s) = Some (abs s') /\ fns s' = fns s /\ sused s' = [].
Proof.
  unfold p_func_call, expr_call. intros H Q U Hf.
  destruct (parse_func_call _ _ _ _ _ _) as [[a c']|] eqn:P; [|discriminate H].
  apply Ok_inj in H as [E1 E2]; subst. rewrite serrs_collect in Q.
  set (E := env_of B s) in *. set (fu := efuel (cs s)) in *.
  split; [eapply (func_call_ok E (parse_expr E fu)); [apply (expr_ne E fu)|apply (expr_rules E fu)|exact P|exact Q|exact Hf]|].
  destruct (func_call_rd E (parse_expr E fu) (proj1 (expr_ne E fu)) (proj1 (expr_nil E fu)) (proj1 (expr_reads E fu)) fu _ _ _ _ _ P Q) as [Ru Rf].
  unfold sused in U. rewrite U, app_nil_r in Ru.
  split; [apply (use_vars_collect B); assumption|]. split; [apply fns_collect|reflexivity].
Qed.

(* assignment targets: parseIndexOrSliceExpr(left, allowSlice = false) and parseDotExpr, as deltas *)
Lemma index_noslice_full E fu left c t c' :
  parse_index_or_slice E (parse_expr E fu) fu false left c = Some (Some t, c') -> errs c' = [] -> tree_ok E left ->
  exists i, t = TIndex left i /\ tree_ok E t /\ reads E c c' (tvars i).
Proof.
  unfold parse_index_or_slice, tyerr. intros H Q Hl. cbn [andb] in H.
  destruct (is_ws (prev (push_wss false c))); [discriminate H|].
  destruct (e_tyerr E TS_not_indexable left (here c)) eqn:NI; [discriminate H|].
  destruct (parse_toplevel E (parse_expr E fu) fu _) as [[ix st2]|] eqn:P; [|discriminate H].
  destruct ix as [i|]; [|discriminate H].
  destruct (assert_token T_RBRACKET st2) as [ok st3] eqn:A. destruct ok; [|discriminate H].
  destruct (e_tyerr E TS_index_type _ _) eqn:IT; [discriminate H|].
  unfold ret in H. injection H as ? ?; subst. autorewrite with errs in Q. destruct (assert_token_ne _ _ _ _ A Q) as [_ ->].
  exists i. split; [reflexivity|]. split.
  - simpl. repeat split; auto; try (eexists; eassumption).
    eapply (toplevel_ok E (parse_expr E fu)); [apply (expr_ne E fu)|apply (expr_rules E fu)|exact P|exact Q].
  - eapply reads_shift; [| |exact (toplevel_rd E (parse_expr E fu) (proj1 (expr_ne E fu)) (proj1 (expr_nil E fu)) (proj1 (expr_reads E fu)) fu _ _ _ P Q)];
      autorewrite with used; reflexivity.
Qed.

Lemma dot_full E left c t c' :
  parse_dot E left c = Some (Some t, c') -> errs c' = [] -> tree_ok E left ->
  exists k, t = TDot left k /\ tree_ok E t /\ used c' = used c.
Proof.
  unfold parse_dot, tyerr. intros H Q Hl.
  destruct (is_ws (prev c)); [discriminate H|]. destruct (is_ws (look1 (rest c))); [discriminate H|].
  destruct (e_tyerr E TS_dot_not_map left (here c)) eqn:DM; [discriminate H|].
  destruct (ttype (as_ident (cur (advance c)))); unfold ret in H; try discriminate H.
  injection H as ? ?; subst. eexists. split; [reflexivity|]. split; [simpl; split; [exact Hl|eexists; exact DM]|].
  autorewrite with used. reflexivity.
Qed.

Lemma p_index_full left s t s' : p_index B left s = Ok (Some t) s' -> serrs s' = [] -> sused s = [] ->
  tree_ok (env_of B s) left ->
  exists i, t = TIndex left i /\ tree_ok (env_of B s) t /\ use_vars (tvars i) (abs s) = Some (abs s') /\ fns s' = fns s /\ sused s' = [].
Proof.
  unfold p_index, expr_call. intros H Q U Hl.
  destruct (parse_index_or_slice _ _ _ _ _ _) as [[a c']|] eqn:P; [|discriminate H].
  apply Ok_inj in H as [E1 E2]; subst. rewrite serrs_collect in Q.
  destruct (index_noslice_full _ _ _ _ _ _ P Q Hl) as (i & -> & Ht & Ru & Rf).
  unfold sused in U. rewrite U, app_nil_r in Ru.
  exists i. split; [reflexivity|]. split; [exact Ht|]. split; [apply (use_vars_collect B); assumption|].
  split; [apply fns_collect|reflexivity].
Qed.

Lemma p_dot_full left s t s' : p_dot B left s = Ok (Some t) s' -> serrs s' = [] -> sused s = [] ->
  tree_ok (env_of B s) left ->
  exists k, t = TDot left k /\ tree_ok (env_of B s) t /\ abs s' = abs s /\ fns s' = fns s /\ sused s' = [].
Proof.
  unfold p_dot, expr_call. intros H Q U Hl.
  destruct (parse_dot _ _ _) as [[a c']|] eqn:P; [|discriminate H].
  apply Ok_inj in H as [E1 E2]; subst. rewrite serrs_collect in Q.
  destruct (dot_full _ _ _ _ _ P Q Hl) as (k & -> & Ht & Uc).
  exists k. split; [reflexivity|]. split; [exact Ht|].
  split; [rewrite abs_collect, Uc; unfold sused in U; rewrite U; reflexivity|]. split; [apply fns_collect|reflexivity].
Qed.

Lemma p_type_full s a s' : p_type B s = Ok a s' -> sused s = [] -> abs s' = abs s /\ fns s' = fns s /\ sused s' = [].
Proof.
  unfold p_type, expr_call. intros H U.
  destruct (parse_type _ _) as [[x c']|] eqn:P; [|discriminate H].
  apply Ok_inj in H as [E1 E2]; subst.
  split; [rewrite abs_collect, (parse_type_used _ _ _ _ P); unfold sused in U; rewrite U; reflexivity|].
  split; [apply fns_collect|reflexivity].
Qed.

End Calls.

(* ================================================================ *)
(** * Simulation: statements                                         *)

Section StmtSim.
Variable B : benv.

Definition WF (s : pst) : Prop := scs s <> [] /\ sused s = [].

Definition SIM (s : pst) (r : option stmt) (s' : pst) : Prop :=
  serrs s' = [] -> WF s ->
  sused s' = [] /\ fns s' = fns s /\
  match r with
  | Some st => stmt_sok B (fns s) st /\ scope_stmt (tabs_of B (fns s)) st (abs s) = Some (abs s')
  | None => abs s' = abs s
  end.

Lemma scs_of_frames s s' : frames s' = frames s -> scs s <> [] -> scs s' <> [].
Proof. unfold frames. intros H N E. rewrite E in H. destruct (scs s); [contradiction|discriminate H]. Qed.

#[local] Hint Rewrite frames_with_cs frames_upd frames_adv frames_apnl frames_serr_at frames_serr frames_assert_eol
  frames_passert frames_scope_set frames_mark frames_collect frames_push_scope frames_pop_scope frames_ty_err_here
  frames_validate_scope frames_validate_var_decl : frames.

(* normalise abs / fns / sused of a state built with the cursor-level helpers *)
Ltac norm := autorewrite with abs fns sused serrs in *.

Lemma typed_decl_sim s d s' : parse_typed_decl B s = Ok d s' -> serrs s' = [] -> sused s = [] ->
  abs s' = abs s /\ fns s' = fns s /\ sused s' = [] /\ snd d <> None.
Proof.
  unfold parse_typed_decl. intros H Q U.
  destruct (p_type B (adv (snd (passert T_COLON (adv (snd (passert T_IDENT s))))))) as [t s2| |] eqn:P; try discriminate H.
  destruct (p_type_full B _ _ _ P) as (A & F & U2); [norm; exact U|].
  destruct t; apply Ok_inj in H as [E1 E2]; subst; [|norm; discriminate Q].
  norm. repeat split; auto. discriminate.
Qed.

Lemma typed_decl_stmt_sim s r s' : parse_typed_decl_stmt B s = Ok r s' -> SIM s r s'.
Proof.
  unfold parse_typed_decl_stmt. intros H Q [N U].
  destruct (parse_typed_decl B s) as [[[name dpos] t] s1| |] eqn:P; try discriminate H.
  apply Ok_inj in H as [E1 E2]; subst. norm.
  pose proof (typed_decl_sn B _ _ _ P) as N1.
  destruct t as [ty|].
  - destruct (validate_var_decl B name dpos false s1) as [ok s2] eqn:V.
    destruct ok.
    + norm. destruct (assert_eol_ne _ Q) as [E _]. rewrite E in *. norm.
      destruct (serrs_validate_var_decl _ _ _ _ _ _ _ V Q) as [_ ->].
      destruct (N1 Q) as [Q0 F1].
      destruct (typed_decl_sim _ _ _ P Q U) as (A1 & F & U1 & _).
      split; [exact U1|]. split; [exact F|]. split; [exact I|].
      simpl. rewrite <- A1, <- F. apply declare_sim; [rewrite V; reflexivity|apply (scs_of_frames s); assumption].
    + destruct (serrs_validate_var_decl _ _ _ _ _ _ _ V Q) as [X _]. discriminate X.
  - destruct (typed_decl_sim _ _ _ P Q U) as (_ & _ & _ & X). exfalso. apply X. reflexivity.
Qed.

Lemma inferred_decl_stmt_sim s r s' : parse_inferred_decl_stmt B s = Ok r s' -> SIM s r s'.
Proof.
  unfold parse_inferred_decl_stmt. intros H Q [N U].
  set (s1 := adv (adv (snd (passert T_IDENT s)))) in H.
  destruct (p_toplevel B s1) as [v s2| |] eqn:P; try discriminate H.
  pose proof (p_toplevel_sn B _ _ _ P) as N2.
  destruct v as [t|]; [|apply Ok_inj in H as [E1 E2]; subst; norm; discriminate Q].
  destruct (tyerr_s B TS_decl_none t (pos s2)) eqn:TE; [apply Ok_inj in H as [E1 E2]; subst; norm; discriminate Q|].
  destruct (validate_var_decl B _ _ false s2) as [ok s3] eqn:V.
  destruct ok; apply Ok_inj in H as [E1 E2]; subst; norm.
  - destruct (assert_eol_ne _ Q) as [E _]. rewrite E in *. norm.
    destruct (serrs_validate_var_decl _ _ _ _ _ _ _ V Q) as [_ ->].
    destruct (N2 Q) as [Q1 F2].
    destruct (p_toplevel_full B _ _ _ P Q) as (Tk & Uv & F & U2); [unfold s1; norm; exact U|].
    assert (A1 : abs s1 = abs s) by (unfold s1; norm; reflexivity).
    assert (F1 : fns s1 = fns s) by (unfold s1; norm; reflexivity).
    split; [exact U2|]. split; [congruence|]. split.
    + split; [rewrite <- F1; apply expr_sok_of; exact Tk|eexists; exact TE].
    + simpl. rewrite <- A1, Uv. simpl. rewrite <- F1, <- F. apply declare_sim; [rewrite V; reflexivity|].
      apply (scs_of_frames s1); [exact F2|]. apply (scs_of_frames s); [unfold s1; autorewrite with frames; reflexivity|exact N].
  - destruct (serrs_validate_var_decl _ _ _ _ _ _ _ V Q) as [X _]. discriminate X.
Qed.

Lemma fhas_fmark m n f : fhas m (fmark n f) = fhas m f.
Proof. induction f as [|x f IH]; simpl; [reflexivity|]. destruct (str_eqb (fst x) n); simpl; [reflexivity|]. rewrite IH. reflexivity. Qed.
Lemma existsb_fhas_cmark m n G : existsb (fhas m) (cmark n G) = existsb (fhas m) G.
Proof.
  induction G as [|f G IH]; simpl; [reflexivity|]. destruct (fhas n f); simpl; [rewrite fhas_fmark; reflexivity|]. rewrite IH. reflexivity.
Qed.
Lemma cvisible_cmark m n G : cvisible m (cmark n G) = cvisible m G.
Proof. unfold cvisible. rewrite existsb_fhas_cmark. reflexivity. Qed.
Lemma cvisible_fold m vs : forall G, cvisible m (fold_left (fun G n => cmark n G) vs G) = cvisible m G.
Proof. induction vs as [|v vs IH]; intro G; simpl; [reflexivity|]. rewrite IH. apply cvisible_cmark. Qed.
Lemma use_vars_app a b G : use_vars (a ++ b) G = obind (use_vars a G) (use_vars b).
Proof.
  unfold use_vars. rewrite forallb_app, fold_left_app.
  destruct (forallb (fun n => cvisible n G) a) eqn:FA; simpl; [|reflexivity].
  assert (E : forallb (fun n => cvisible n (fold_left (fun G n => cmark n G) a G)) b = forallb (fun n => cvisible n G) b).
  { induction b as [|x b IHb]; simpl; [reflexivity|]. rewrite cvisible_fold, IHb. reflexivity. }
  rewrite E. reflexivity.
Qed.
Lemma use_vars_nil G : use_vars [] G = Some G.
Proof. reflexivity. Qed.

Lemma visible_mark_scopes n l : visible (mark_scopes n l) = visible l.
Proof.
  unfold visible. induction l as [|sc l IH]; simpl; [reflexivity|].
  destruct (has_var n (sc_vars sc)); simpl; [|rewrite IH; reflexivity].
  f_equal. induction (sc_vars sc) as [|v vs IHv]; simpl; [reflexivity|].
  destruct (str_eqb (v_name v) n); simpl; [reflexivity|]. rewrite IHv. reflexivity.
Qed.
Lemma env_of_mark n s : env_of B (mark n s) = env_of B s.
Proof. unfold env_of, mark. simpl. rewrite visible_mark_scopes. reflexivity. Qed.
Lemma scs_fold_mark l : forall s0, visible (scs (fold_right mark s0 l)) = visible (scs s0).
Proof. induction l as [|x l IH]; intro s0; simpl; [reflexivity|]. rewrite visible_mark_scopes. apply IH. Qed.
Lemma env_of_collect s c : env_of B (collect s c) = env_of B s.
Proof.
  unfold env_of, collect, upd, with_cs. simpl. rewrite scs_fold_mark. simpl.
  assert (F : forall l s0, fns (fold_right mark s0 l) = fns s0) by (induction l; intro; simpl; auto).
  rewrite F. reflexivity.
Qed.
Lemma env_of_cs s f : env_of B (upd f s) = env_of B s. Proof. reflexivity. Qed.

Lemma p_index_env left s a s' : p_index B left s = Ok a s' -> env_of B s' = env_of B s.
Proof. unfold p_index, expr_call. intro H. destruct (parse_index_or_slice _ _ _ _ _ _) as [[x c]|]; [|discriminate H]. apply Ok_inj in H as [_ ->]. apply env_of_collect. Qed.
Lemma p_dot_env left s a s' : p_dot B left s = Ok a s' -> env_of B s' = env_of B s.
Proof. unfold p_dot, expr_call. intro H. destruct (parse_dot _ _ _) as [[x c]|]; [|discriminate H]. apply Ok_inj in H as [_ ->]. apply env_of_collect. Qed.

Lemma assign_target_loop_sim : forall fuel tok n s t s',
  assign_target_loop B fuel tok n s = Ok (Some t) s' -> serrs s' = [] -> sused s = [] -> tree_ok (env_of B s) n ->
  exists extra, tvars t = tvars n ++ extra /\ use_vars extra (abs s) = Some (abs s') /\
                tree_ok (env_of B s) t /\ fns s' = fns s /\ sused s' = [] /\ env_of B s' = env_of B s.
Proof.
  induction fuel as [|f IH]; intros tok n s t s' H Q U Hn; [discriminate|]. cbn [assign_target_loop] in H.
  assert (D : Ok (Some n) s = Ok (Some t) s' -> exists extra, tvars t = tvars n ++ extra /\ use_vars extra (abs s) = Some (abs s') /\
                tree_ok (env_of B s) t /\ fns s' = fns s /\ sused s' = [] /\ env_of B s' = env_of B s).
  { intro E. apply Ok_inj in E as [E1 E2]. injection E1 as <-. subst s'. exists []. rewrite app_nil_r. repeat split; auto. }
  destruct (ct s); try exact (D H).
  - destruct (tyerr_s B _ _ _); [discriminate H|].
    destruct (p_index B n s) as [x s1| |] eqn:P; try discriminate H.
    destruct x as [n'|]; [|discriminate H].
    pose proof (assign_target_loop_sn B _ _ _ _ _ _ H Q) as [Q1 _].
    destruct (p_index_full B _ _ _ _ P Q1 U Hn) as (i & -> & Ht & Uv & F1 & U1).
    pose proof (p_index_env _ _ _ _ P) as E1.
    destruct (IH _ _ _ _ _ H Q U1) as (extra & Ev & Uv2 & Ht2 & F2 & U2 & E2); [rewrite E1; exact Ht|].
    exists (tvars i ++ extra). simpl in Ev. rewrite Ev, <- app_assoc. split; [reflexivity|].
    rewrite use_vars_app, Uv. simpl. split; [exact Uv2|]. rewrite E1 in Ht2, E2. repeat split; auto; congruence.
  - destruct (p_dot B n s) as [x s1| |] eqn:P; try discriminate H.
    destruct x as [n'|]; [|discriminate H].
    pose proof (assign_target_loop_sn B _ _ _ _ _ _ H Q) as [Q1 _].
    destruct (p_dot_full B _ _ _ _ P Q1 U Hn) as (k & -> & Ht & A1 & F1 & U1).
    pose proof (p_dot_env _ _ _ _ P) as E1.
    destruct (IH _ _ _ _ _ H Q U1) as (extra & Ev & Uv2 & Ht2 & F2 & U2 & E2); [rewrite E1; exact Ht|].
    exists extra. simpl in Ev. split; [exact Ev|]. rewrite <- A1. split; [exact Uv2|]. rewrite E1 in Ht2, E2. repeat split; auto; congruence.
Qed.

Lemma assign_stmt_sim s r s' : parse_assign_stmt B s = Ok r s' -> SIM s r s'.
Proof.
  unfold parse_assign_stmt. intros H Q [N U].
  destruct (is_func _ s); [apply Ok_inj in H as [E1 E2]; subst; norm; discriminate Q|].
  destruct (parse_assign_target B s) as [tg s1| |] eqn:PT; try discriminate H.
  destruct tg as [target|]; [|apply Ok_inj in H as [E1 E2]; subst; norm; exfalso].
  2:{ unfold parse_assign_target in PT.
      destruct (str_eqb _ _); [apply Ok_inj in PT as [_ ->]; norm; discriminate Q|].
      destruct (negb _); [apply Ok_inj in PT as [_ ->]; norm; discriminate Q|].
      (* the loop returned nil: an error was recorded by p_index / p_dot *)
      revert PT Q. generalize (S (pos (adv s))) (pos s) (TVar (tlit (cur (cs s)))) (mark (tlit (cur (cs s))) (adv s)).
      induction n as [|f IH]; intros tok n0 s0 PT Q; [discriminate PT|]. cbn [assign_target_loop] in PT.
      destruct (ct s0); try discriminate PT.
      - destruct (tyerr_s B _ _ _); [apply Ok_inj in PT as [_ ->]; norm; discriminate Q|].
        destruct (p_index B n0 s0) as [x s2| |] eqn:P; try discriminate PT.
        destruct x; [exact (IH _ _ _ PT Q)|]. apply Ok_inj in PT as [_ ->].
        unfold p_index, expr_call in P. destruct (parse_index_or_slice _ _ _ _ _ _) as [[a c']|] eqn:PI; [|discriminate P].
        apply Ok_inj in P as [<- ->]. rewrite serrs_collect in Q.
        exact (index_or_slice_nil _ _ (proj1 (expr_nil _ _)) _ _ _ _ _ PI Q).
      - destruct (p_dot B n0 s0) as [x s2| |] eqn:P; try discriminate PT.
        destruct x; [exact (IH _ _ _ PT Q)|]. apply Ok_inj in PT as [_ ->].
        unfold p_dot, expr_call in P. destruct (parse_dot _ _ _) as [[a c']|] eqn:PI; [|discriminate P].
        apply Ok_inj in P as [<- ->]. rewrite serrs_collect in Q. exact (dot_nil _ _ _ _ PI Q). }
  destruct (p_toplevel B (adv (snd (passert T_ASSIGN s1)))) as [v s3| |] eqn:P2; try discriminate H.
  destruct v as [value|]; [|apply Ok_inj in H as [E1 E2]; subst; norm; exfalso].
  2:{ unfold p_toplevel, expr_call in P2. destruct (parse_toplevel _ _ _ _) as [[a c']|] eqn:PI; [|discriminate P2].
      apply Ok_inj in P2 as [<- ->]. rewrite serrs_collect in Q.
      exact (toplevel_nil _ _ (proj1 (expr_nil _ _)) _ _ _ PI Q). }
  apply Ok_inj in H as [E1 E2]; subst. norm.
  destruct (assert_eol_ne _ Q) as [E _]. rewrite E in *.
  destruct (tyerr_s B TS_assign_type _ _) eqn:TE; [norm; discriminate Q|].
  pose proof (p_toplevel_sn B _ _ _ P2 Q) as [Q2 _]. norm.
  destruct (passert T_ASSIGN s1) as [ok sa] eqn:A. simpl in *.
  destruct (passert_ne _ _ _ _ A Q2) as [_ ->].
  (* the target *)
  unfold parse_assign_target in PT.
  destruct (str_eqb _ _) eqn:US; [apply Ok_inj in PT as [_ ->]; norm; discriminate Q2|].
  destruct (scope_get _ (adv s)) eqn:SG; cbn [negb] in PT; [|apply Ok_inj in PT as [_ ->]; norm; discriminate Q2].
  set (name := tlit (cur (cs s))) in *.
  assert (Hn : tree_ok (env_of B (mark name (adv s))) (TVar name)).
  { simpl. rewrite mem_visible. rewrite scope_get_abs in SG. unfold cvisible in SG. apply andb_true_iff in SG as [_ SG].
    change (existsb (fhas name) (abs (mark name (adv s))) = true). norm. rewrite existsb_fhas_cmark. exact SG. }
  destruct (assign_target_loop_sim _ _ _ _ _ _ PT Q2) as (extra & Ev & Uv & Ht & F1 & U1 & E1); [norm; exact U|exact Hn|].
  destruct (p_toplevel_full B _ _ _ P2 Q) as (Tv & Uv2 & F3 & U3); [norm; exact U1|].
  norm.
  split; [exact U3|]. split; [congruence|]. split.
  - split; [|split].
    + rewrite <- (fns_mark name (adv s)) at 1. apply expr_sok_of. exact Ht.
    + rewrite <- F1. apply expr_sok_of. exact Tv.
    + eexists; exact TE.
  - simpl. rewrite Ev. simpl. rewrite (use_vars_app [name] extra).
    assert (U0 : use_vars [name] (abs s) = Some (cmark name (abs s))).
    { unfold use_vars. simpl. rewrite scope_get_abs in SG. norm. rewrite SG. reflexivity. }
    rewrite U0. simpl. rewrite Uv. simpl. exact Uv2.
Qed.

Lemma call_stmt_sim s r s' : parse_call_stmt B s = Ok r s' -> SIM s r s'.
Proof.
  unfold parse_call_stmt. intros H Q [N U].
  destruct (lookup_fn _ (fns s)) as [fi|] eqn:L; [|discriminate H].
  destruct (p_func_call B (fi_nil fi) s) as [x s1| |] eqn:P; try discriminate H.
  destruct x as [c|]; [|discriminate H].
  apply Ok_inj in H as [E1 E2]; subst. norm.
  destruct (assert_eol_ne _ Q) as [E _]. rewrite E in *.
  destruct (p_func_call_full B _ _ _ _ P Q U (func_of_env _ _ _ _ L)) as (T & Uv & F & U1).
  split; [exact U1|]. split; [exact F|]. split; [apply expr_sok_of; exact T|exact Uv].
Qed.

Lemma break_stmt_sim s r s' : parse_break_stmt s = Ok r s' -> SIM s r s'.
Proof.
  unfold parse_break_stmt. intros H Q [N U]. apply Ok_inj in H as [E1 E2]; subst. norm.
  destruct (assert_eol_ne _ Q) as [E _]. rewrite E in *. norm.
  destruct (in_loop s); norm; [|discriminate Q]. repeat split; auto.
Qed.

Lemma empty_stmt_sim s r s' : parse_empty_stmt s = Ok r s' -> SIM s r s'.
Proof.
  unfold parse_empty_stmt. intros H Q [N U].
  destruct (ct s); try discriminate H; apply Ok_inj in H as [E1 E2]; subst; norm; repeat split; auto.
Qed.

Lemma return_stmt_sim s r s' : parse_return_stmt B s = Ok r s' -> SIM s r s'.
Proof.
  unfold parse_return_stmt. intros H Q [N U]. cbv zeta in H.
  destruct (is_at_eol (cs (adv s))) eqn:EOL.
  - apply Ok_inj in H as [E1 E2]; subst. norm.
    destruct (negb (has_ret (adv s))); norm; [discriminate Q|].
    destruct (ret_value (adv s)); norm; [discriminate Q|]. repeat split; auto.
  - destruct (p_toplevel B (adv s)) as [x s2| |] eqn:P; try discriminate H.
    destruct x as [t|]; apply Ok_inj in H as [E1 E2]; subst; norm.
    + destruct (negb (has_ret (assert_eol s2))); norm; [discriminate Q|].
      destruct (tyerr_s B TS_return_type t _) eqn:TE; norm; [discriminate Q|].
      destruct (assert_eol_ne _ Q) as [E _]. rewrite E in *.
      destruct (p_toplevel_full B _ _ _ P Q) as (T & Uv & F & U1); [norm; exact U|]. norm.
      split; [exact U1|]. split; [exact F|]. split; [|exact Uv].
      split; [apply (expr_sok_of B (adv s)); exact T|eexists; exact TE].
    + destruct (negb (has_ret s2)); norm; discriminate Q.
Qed.

Lemma condition_sim s r s' : parse_condition B s = Ok r s' -> serrs s' = [] -> sused s = [] ->
  exists c, r = Some c /\ expr_sok B (fns s) c /\ silent B TS_condition c /\
            use_vars (tvars c) (abs s) = Some (abs s') /\ fns s' = fns s /\ sused s' = [].
Proof.
  unfold parse_condition. intros H Q U.
  destruct (p_toplevel B s) as [c s1| |] eqn:P; try discriminate H.
  destruct c as [c|]; apply Ok_inj in H as [E1 E2]; subst.
  - destruct (tyerr_s B TS_condition c (pos s)) eqn:TE; norm; [discriminate Q|].
    destruct (assert_eol_ne _ Q) as [E _]. rewrite E in *.
    destruct (p_toplevel_full B _ _ _ P Q U) as (T & Uv & F & U1).
    exists c. split; [reflexivity|]. split; [apply expr_sok_of; exact T|]. split; [eexists; exact TE|]. auto.
  - exfalso. unfold p_toplevel, expr_call in P. destruct (parse_toplevel _ _ _ _) as [[a c']|] eqn:PI; [|discriminate P].
    apply Ok_inj in P as [<- ->]. rewrite serrs_collect in Q.
    exact (toplevel_nil _ _ (proj1 (expr_nil _ _)) _ _ _ PI Q).
Qed.

(* validateScope without an error: every variable of the innermost scope is used *)
Lemma insert_by_pos_ne v l : insert_by_pos v l <> [].
Proof. destruct l as [|w r]; simpl; [discriminate|]. destruct (Nat.leb _ _); discriminate. Qed.
Lemma validate_close s : serrs (validate_scope s) = [] -> scs s <> [] -> close_scope (abs s) = Some (tl (abs s)).
Proof.
  unfold validate_scope, abs. intros Q N. destruct (scs s) as [|sc r]; [contradiction|]. simpl.
  assert (F : filter (fun v => negb (v_used v)) (sc_vars sc) = []).
  { destruct (filter _ (sc_vars sc)) as [|v l]; [reflexivity|]. exfalso. simpl in Q.
    destruct (insert_by_pos v (sort_by_pos l)) as [|w m] eqn:I; [exact (insert_by_pos_ne _ _ I)|].
    simpl in Q. apply serrs_fold_serr in Q. discriminate Q. }
  assert (A : forallb snd (absf sc) = true).
  { clear Q. unfold absf. induction (sc_vars sc) as [|v l IH]; simpl; [reflexivity|]. simpl in F.
    destruct (v_used v); simpl in *; [apply IH; exact F|discriminate F]. }
  rewrite A. reflexivity.
Qed.

(* ---- the part that is open in parseStatement ---- *)
Variable ps : pst -> PR (option stmt).
Hypothesis HPS : forall s r s', ps s = Ok r s' -> snd_s s r s'.
Hypothesis HSIM : forall s r s', ps s = Ok r s' -> SIM s r s'.

Lemma block_loop_sim : forall fuel els acc terms s b s', block_loop ps fuel els acc terms s = Ok b s' ->
  serrs s' = [] -> WF s ->
  sused s' = [] /\ fns s' = fns s /\
  exists l t, b = Block (rev acc ++ l) t /\ stmts_sok B (fns s) l /\ scope_stmts (tabs_of B (fns s)) l (abs s) = Some (abs s').
Proof.
  induction fuel as [|f IH]; intros els acc terms s b s' H Q W; [discriminate|]. cbn [block_loop] in H.
  destruct (match ct s with T_END | T_EOF => true | T_ELSE => els | _ => false end).
  - apply Ok_inj in H as [E1 E2]; subst. destruct W. split; [assumption|]. split; [reflexivity|].
    exists [], terms. rewrite app_nil_r. split; [reflexivity|]. split; [constructor|reflexivity].
  - destruct (ps s) as [r s1| |] eqn:P; try discriminate H.
    pose proof (HPS _ _ _ P) as S1. pose proof (HSIM _ _ _ P) as M1.
    assert (Q1 : serrs s1 = []).
    { destruct r as [st|]; [destruct (terms && _)|]; pose proof (block_loop_sn ps HPS _ _ _ _ _ _ _ H Q) as [Q1 _];
        [discriminate Q1|exact Q1|exact Q1]. }
    destruct (S1 Q1) as (_ & F1 & _). destruct (M1 Q1 W) as (U1 & Fn1 & M).
    assert (W1 : WF s1) by (split; [eapply scs_of_frames; [exact F1|apply W]|exact U1]).
    destruct r as [st|].
    + destruct (terms && negb (is_empty_stmt st)).
      * pose proof (block_loop_sn ps HPS _ _ _ _ _ _ _ H Q) as [Q2 _]. discriminate Q2.
      * destruct (IH _ _ _ _ _ _ H Q W1) as (U2 & Fn2 & l & t & Eb & Hl & Hs).
        split; [exact U2|]. split; [congruence|]. exists (st :: l), t. simpl in Eb. rewrite <- app_assoc in Eb. split; [exact Eb|].
        destruct M as [Ms Mc]. rewrite Fn1 in *. split; [constructor; assumption|]. simpl. rewrite Mc. simpl. exact Hs.
    + destruct (IH _ _ _ _ _ _ H Q W1) as (U2 & Fn2 & l & t & Eb & Hl & Hs).
      split; [exact U2|]. split; [congruence|]. exists l, t. rewrite Fn1, M in *. auto.
Qed.

Lemma block_with_sim fuel els s b s' : parse_block_with ps fuel els s = Ok b s' -> serrs s' = [] -> WF s ->
  sused s' = [] /\ fns s' = fns s /\ block_sok B (fns s) b /\
  scope_block (tabs_of B (fns s)) b (abs s) = Some (tl (abs s')).
Proof.
  unfold parse_block_with. intros H Q W.
  destruct (block_loop ps fuel els [] false s) as [b1 s1| |] eqn:P; try discriminate H.
  apply Ok_inj in H as [E1 E2]; subst.
  assert (Q1 : serrs s1 = []).
  { apply serrs_validate_scope in Q. destruct b1 as [[|x l] t]; [discriminate Q|exact Q]. }
  destruct (block_loop_sn ps HPS _ _ _ _ _ _ _ P Q1) as [_ F1].
  destruct (block_loop_sim _ _ _ _ _ _ _ P Q1 W) as (U1 & Fn1 & l & t & Eb & Hl & Hs). simpl in Eb. subst b1.
  assert (E : (match Block l t with Block [] _ => serr_at K_empty_block (pos s) s1 | _ => s1 end) = s1).
  { destruct l; [apply serrs_validate_scope in Q; discriminate Q|reflexivity]. }
  rewrite E in *. norm. split; [exact U1|]. split; [exact Fn1|]. split.
  - simpl. apply stmts_sok_fix. exact Hl.
  - rewrite scope_block_eq, Hs. simpl. apply validate_close; [exact Q|]. eapply scs_of_frames; [exact F1|apply W].
Qed.

Lemma while_stmt_sim fuel s r s' : parse_while_stmt B ps fuel s = Ok r s' -> SIM s r s'.
Proof.
  unfold parse_while_stmt. intros H Q [N U]. cbv zeta in H.
  destruct (parse_condition B (push_inherit true (adv s))) as [c s2| |] eqn:P; try discriminate H.
  destruct (parse_block_with ps fuel false (apnl s2)) as [b s3| |] eqn:PB; try discriminate H.
  apply Ok_inj in H as [E1 E2]; subst. norm.
  destruct (SN_finish_end s3 Q) as [Q3 F3].
  destruct (block_with_sound ps HPS _ _ _ _ _ PB Q3) as (Qb & Fb & _). norm.
  destruct (condition_sn B _ _ _ P Qb) as [_ F2].
  destruct (condition_sim _ _ _ P Qb) as (c0 & -> & Tc & Sc & Uc & Fc & U2); [norm; exact U|]. norm.
  destruct (block_with_sim _ _ _ _ _ PB Q3) as (U3 & Fn3 & Tb & Sb).
  { split; [|norm; exact U2]. eapply (scs_of_frames (push_inherit true (adv s))); [autorewrite with frames; exact F2|discriminate]. }
  norm. rewrite Fc in *.
  split; [exact U3|]. split; [exact Fn3|]. split; [split; [split|]; assumption|].
  simpl. rewrite Uc. simpl. exact Sb.
Qed.

Definition cb_sok (F : list (str * finfo)) (cb : option tree * block) : Prop :=
  (match fst cb with Some c => expr_sok B F c /\ silent B TS_condition c | None => True end) /\ block_sok B F (snd cb).
Lemma brs_sok_fix F l :
  (fix all (l : list (option tree * block)) : Prop :=
     match l with
     | [] => True
     | cb :: r => (match fst cb with Some c => expr_sok B F c /\ silent B TS_condition c | None => True end) /\
                  block_sok B F (snd cb) /\ all r
     end) l <-> Forall (cb_sok F) l.
Proof.
  induction l as [|x l IH]; simpl; [split; [constructor|auto]|].
  split; [intros (H1 & H2 & H3); constructor; [split; assumption|apply IH; exact H3]|].
  intro H. destruct (Forall_inv H) as [H1 H2]. split; [exact H1|]. split; [exact H2|]. apply IH. exact (Forall_inv_tail H).
Qed.
Fixpoint scope_brs (T : tabs) (l : list (option tree * block)) (G : ctx) : option ctx :=
  match l with
  | [] => Some G
  | cb :: r => obind (obind (use_vars (otv' (fst cb)) ([] :: G)) (scope_block T (snd cb))) (scope_brs T r)
  end.
Lemma scope_if_eq T brs els G :
  scope_stmt T (SIf brs els) G =
  obind (scope_brs T brs G) (fun G1 => match els with Some e => scope_block T e ([] :: G1) | None => Some G1 end).
Proof.
  simpl. f_equal. revert G. induction brs as [|cb r IH]; intro G; simpl; [reflexivity|].
  destruct (obind (use_vars (otv' (fst cb)) ([] :: G)) _); simpl; [apply IH|reflexivity].
Qed.
Lemma scope_brs_app T a b G : scope_brs T (a ++ b) G = obind (scope_brs T a G) (scope_brs T b).
Proof.
  revert G. induction a as [|x a IH]; intro G; simpl; [reflexivity|].
  destruct (obind (use_vars (otv' (fst x)) ([] :: G)) _); simpl; [apply IH|reflexivity].
Qed.

Lemma if_cond_block_sim fuel s cb s' : parse_if_cond_block B ps fuel s = Ok cb s' -> serrs s' = [] -> WF s ->
  sused s' = [] /\ fns s' = fns s /\ cb_sok (fns s) cb /\ scope_brs (tabs_of B (fns s)) [cb] (abs s) = Some (abs s').
Proof.
  unfold parse_if_cond_block. intros H Q [N U]. cbv zeta in H.
  destruct (parse_condition B (adv (push_inherit false s))) as [c s2| |] eqn:P; try discriminate H.
  destruct (parse_block_with ps fuel true (apnl s2)) as [b s3| |] eqn:PB; try discriminate H.
  apply Ok_inj in H as [E1 E2]; subst. norm.
  destruct (block_with_sound ps HPS _ _ _ _ _ PB Q) as (Qb & Fb & _). norm.
  destruct (condition_sn B _ _ _ P Qb) as [_ F2].
  destruct (condition_sim _ _ _ P Qb) as (c0 & -> & Tc & Sc & Uc & Fc & U2); [norm; exact U|]. norm.
  destruct (block_with_sim _ _ _ _ _ PB Q) as (U3 & Fn3 & Tb & Sb).
  { split; [|norm; exact U2]. eapply (scs_of_frames (adv (push_inherit false s))); [autorewrite with frames; exact F2|discriminate]. }
  norm. rewrite Fc in *.
  split; [exact U3|]. split; [exact Fn3|]. split; [split; [split|]; assumption|].
  simpl. rewrite Uc. simpl. rewrite Sb. reflexivity.
Qed.

Lemma else_if_loop_sim : forall fuel bfuel acc s r s', else_if_loop B ps fuel bfuel acc s = Ok r s' ->
  serrs s' = [] -> WF s ->
  sused s' = [] /\ fns s' = fns s /\
  exists l, r = rev acc ++ l /\ Forall (cb_sok (fns s)) l /\ scope_brs (tabs_of B (fns s)) l (abs s) = Some (abs s').
Proof.
  induction fuel as [|f IH]; intros bfuel acc s r s' H Q W; [discriminate|]. cbn [else_if_loop] in H.
  assert (D : Ok (rev acc) s = Ok r s' -> sused s' = [] /\ fns s' = fns s /\
    exists l, r = rev acc ++ l /\ Forall (cb_sok (fns s)) l /\ scope_brs (tabs_of B (fns s)) l (abs s) = Some (abs s')).
  { intro E. apply Ok_inj in E as [E1 E2]; subst. destruct W. split; [assumption|]. split; [reflexivity|].
    exists []. rewrite app_nil_r. split; [reflexivity|]. split; [constructor|reflexivity]. }
  destruct (ct s); try exact (D H).
  destruct (ttype (peek (cs s))); try exact (D H).
  destruct (parse_if_cond_block B ps bfuel (adv s)) as [cb s1| |] eqn:P; try discriminate H.
  destruct (else_if_loop_sn B ps HPS _ _ _ _ _ _ H Q) as [Q1 _].
  destruct (if_cond_block_sound B ps HPS _ _ _ _ P Q1) as (_ & F0 & _). autorewrite with frames in F0.
  destruct (if_cond_block_sim _ _ _ _ P Q1) as (U1 & Fn1 & Tc & Sc); [destruct W; split; norm; assumption|]. norm.
  destruct (IH _ _ _ _ _ H Q) as (U2 & Fn2 & l & El & Tl & Sl); [split; [eapply scs_of_frames; [exact F0|apply W]|exact U1]|].
  split; [exact U2|]. split; [congruence|]. exists (cb :: l). simpl in El. rewrite <- app_assoc in El. split; [exact El|].
  rewrite Fn1 in *. split; [constructor; assumption|].
  change (cb :: l) with ([cb] ++ l). rewrite scope_brs_app, Sc. simpl. exact Sl.
Qed.

Lemma if_stmt_sim fuel s r s' : parse_if_stmt B ps fuel s = Ok r s' -> SIM s r s'.
Proof.
  unfold parse_if_stmt. intros H Q W.
  destruct (parse_if_cond_block B ps fuel s) as [cb s1| |] eqn:P1; try discriminate H.
  destruct (else_if_loop B ps (S (pos s1)) fuel [cb] s1) as [brs s2| |] eqn:P2; try discriminate H.
  assert (D : forall els s3, Ok (Some (SIf brs els)) (finish_end s3) = Ok r s' ->
              SN s2 s3 ->
              (serrs s3 = [] -> WF s2 -> sused s3 = [] /\ fns s3 = fns s2 /\
                 match els with
                 | Some e => block_sok B (fns s2) e /\ scope_block (tabs_of B (fns s2)) e ([] :: abs s2) = Some (abs s3)
                 | None => abs s3 = abs s2
                 end) ->
              sused s' = [] /\ fns s' = fns s /\
              match r with
              | Some st => stmt_sok B (fns s) st /\ scope_stmt (tabs_of B (fns s)) st (abs s) = Some (abs s')
              | None => abs s' = abs s
              end).
  { intros els s3 E N3 G3. apply Ok_inj in E as [E1 E2]; subst. norm.
    destruct (SN_finish_end s3 Q) as [Q3 F3]. destruct (N3 Q3) as [Q2 F32].
    destruct (else_if_loop_sn B ps HPS _ _ _ _ _ _ P2 Q2) as [Q1 F21].
    destruct (if_cond_block_sound B ps HPS _ _ _ _ P1 Q1) as (Q0 & F10 & _).
    destruct (if_cond_block_sim _ _ _ _ P1 Q1 W) as (U1 & Fn1 & Tc & Sc).
    assert (W1 : WF s1) by (split; [eapply scs_of_frames; [exact F10|apply W]|exact U1]).
    destruct (else_if_loop_sim _ _ _ _ _ _ P2 Q2 W1) as (U2 & Fn2 & l & El & Tl & Sl). simpl in El. subst brs.
    assert (W2 : WF s2) by (split; [eapply scs_of_frames; [exact F21|apply W1]|exact U2]).
    destruct (G3 Q3 W2) as (U3 & Fn3 & Ge). rewrite Fn2, Fn1 in *.
    split; [exact U3|]. split; [congruence|]. split.
    - simpl. split; [split; [apply Tc|split; [apply Tc|apply brs_sok_fix; exact Tl]]|]. destruct els; [apply Ge|exact I].
    - rewrite scope_if_eq. change (cb :: l) with ([cb] ++ l). rewrite scope_brs_app, Sc. simpl. rewrite Sl. simpl.
      destruct els; [apply Ge|rewrite Ge; reflexivity]. }
  destruct (ct s2) eqn:T; try (apply (D None s2 H); [apply SN_refl|intros _ [_ U2]; auto]).
  cbv zeta in H.
  destruct (parse_block_with ps fuel false (push_inherit false (apnl (assert_eol (adv s2))))) as [b s4| |] eqn:PB; try discriminate H.
  apply (D (Some b) (pop_scope s4) H).
  - intro Q4. autorewrite with serrs in Q4. destruct (block_with_sound ps HPS _ _ _ _ _ PB Q4) as (Qb & Fb & _).
    autorewrite with serrs in Qb. destruct (SN_assert_eol _ Qb) as [Qa _]. autorewrite with serrs in Qa.
    split; [exact Qa|]. autorewrite with frames. rewrite Fb. rewrite frames_push_inherit. simpl. autorewrite with frames. reflexivity.
  - intros Q4 [N2 U2]. autorewrite with serrs in Q4.
    destruct (block_with_sim _ _ _ _ _ PB Q4) as (U3 & Fn3 & Tb & Sb); [split; [discriminate|norm; exact U2]|].
    norm. auto.
Qed.

Lemma nodes_sok_fix F l :
  (fix all (l : list tree) : Prop := match l with [] => True | x :: r => expr_sok B F x /\ all r end) l <-> Forall (expr_sok B F) l.
Proof.
  induction l as [|x l IH]; simpl; [split; [constructor|auto]|].
  split; [intros [H1 H2]; constructor; [exact H1|apply IH; exact H2]|].
  intro H. split; [exact (Forall_inv H)|apply IH; exact (Forall_inv_tail H)].
Qed.

Lemma scope_for_eq T v nodes b G :
  scope_stmt T (SFor v nodes b) G =
  obind (match v with Some n => declare T false n ([] :: G) | None => Some ([] :: G) end)
        (fun G1 => obind (use_vars (lvars nodes) G1) (scope_block T b)).
Proof. reflexivity. Qed.

Lemma for_stmt_sim fuel s r s' : parse_for_stmt B ps fuel s = Ok r s' -> SIM s r s'.
Proof.
  unfold parse_for_stmt. intros H Q [N U]. cbv zeta in H.
  set (s1 := adv (push_inherit true s)) in H.
  assert (A1 : abs s1 = [] :: abs s) by reflexivity.
  assert (Fn1 : fns s1 = fns s) by reflexivity.
  assert (U1 : sused s1 = []) by (unfold s1; norm; exact U).
  assert (N1 : scs s1 <> []) by (unfold s1; simpl; discriminate).
  match type of H with (match ?lv with _ => _ end) = _ => set (LV := lv) in H end.
  assert (NL : serrs (snd LV) = [] ->
               fst LV <> None /\ frames (snd LV) = frames s1 /\ fns (snd LV) = fns s /\ sused (snd LV) = [] /\
               forall v, fst LV = Some v ->
                 match v with Some n => declare (tabs_of B (fns s)) false n ([] :: abs s) | None => Some ([] :: abs s) end = Some (abs (snd LV))).
  { unfold LV. destruct (ct s1); cbn [fst snd];
      try (intro Q0; split; [discriminate|]; split; [reflexivity|]; split; [reflexivity|]; split; [exact U1|]; intros v Ev; injection Ev as <-; rewrite A1; reflexivity).
    destruct (validate_var_decl B _ _ false s1) as [ok s2] eqn:V.
    destruct ok; cbn [fst snd]; intro Q0.
    - autorewrite with serrs in Q0.
      destruct (SN_passert T_DECLARE (adv (scope_set (tlit (cur (cs s1))) (pos s1) s2)) Q0) as [Q3 _]. autorewrite with serrs in Q3.
      destruct (serrs_validate_var_decl _ _ _ _ _ _ _ V Q3) as [_ E2]. subst s2.
      split; [discriminate|]. split; [autorewrite with frames; reflexivity|]. split; [norm; exact Fn1|]. split; [norm; exact U1|].
      intros v Ev. injection Ev as <-.
      pose proof (declare_sim B (tlit (cur (cs s1))) (pos s1) false s1) as D. rewrite V, A1, Fn1 in D. norm. apply D; [reflexivity|exact N1].
    - destruct (serrs_validate_var_decl _ _ _ _ _ _ _ V Q0) as [E _]. discriminate E. }
  destruct LV as [[v|] s4]; cbn [fst snd] in NL.
  2:{ apply Ok_inj in H as [E1 E2]; subst. norm. destruct (NL Q) as (X & _). contradiction. }
  destruct (passert T_RANGE s4) as [ok s5] eqn:A.
  destruct ok; cbn [negb] in H.
  2:{ apply Ok_inj in H as [E1 E2]; subst. norm. destruct (passert_ne _ _ _ _ A Q) as [E _]. discriminate E. }
  destruct (p_expr_list B (adv s5)) as [ns s7| |] eqn:P; try discriminate H.
  destruct ns as [nodes|]; [|apply Ok_inj in H as [E1 E2]; subst; norm; discriminate Q].
  destruct nodes as [|n more] eqn:EN; [apply Ok_inj in H as [E1 E2]; subst; norm; discriminate Q|]. rewrite <- EN in *.
  destruct (_ && _); [apply Ok_inj in H as [E1 E2]; subst; norm; discriminate Q|].
  match type of H with context[parse_block_with ps fuel false ?x] => set (sb := x) in H end.
  destruct (parse_block_with ps fuel false sb) as [b s10| |] eqn:PB; try discriminate H.
  apply Ok_inj in H as [E1 E2]; subst r s'. norm.
  destruct (SN_finish_end s10 Q) as [Q10 F10].
  destruct (block_with_sound ps HPS _ _ _ _ _ PB Q10) as (Qb & Fb & _).
  assert (Qs8 : serrs (assert_eol s7) = [] /\ sb = apnl (assert_eol s7) /\
                tyerr_s B TS_for_range_type (TCall [] nodes) (pos (assert_eol s7)) = false).
  { unfold sb in Qb |- *. autorewrite with serrs in Qb. destruct (tyerr_s B _ _ _); [discriminate Qb|]. auto. }
  destruct Qs8 as (Q8 & Esb & TE). destruct (assert_eol_ne _ Q8) as [E8 _]. rewrite E8 in *.
  destruct (p_expr_list_sn B _ _ _ P Q8) as [Q6 F7]. autorewrite with serrs in Q6.
  destruct (passert_ne _ _ _ _ A Q6) as [_ E5]. subst s5. destruct (NL Q6) as (_ & F4 & Fn4 & U4 & D4).
  specialize (D4 v eq_refl).
  destruct (p_expr_list_full B _ _ _ P Q8) as (Tn & Un & Fn7 & U7); [norm; exact U4|]. norm.
  destruct (block_with_sim _ _ _ _ _ PB Q10) as (U10 & Fn10 & Tb & Sb).
  { rewrite Esb. split; [|norm; exact U7]. change (scs (apnl s7)) with (scs s7).
    eapply (scs_of_frames s1); [|exact N1]. rewrite F7. autorewrite with frames. exact F4. }
  rewrite Esb in *. norm. rewrite Fn7, Fn4 in *.
  split; [exact U10|]. split; [exact Fn10|]. split.
  - simpl. split; [|split; [eexists; exact TE|exact Tb]]. apply nodes_sok_fix.
    rewrite Forall_forall in Tn |- *. intros x Hx. rewrite <- Fn4. apply (expr_sok_of B (adv s4)). apply Tn. exact Hx.
  - rewrite scope_for_eq, D4. cbn [obind]. rewrite Un. cbn [obind]. exact Sb.
Qed.

Lemma sim_none s s' : (serrs s' = [] -> False) -> SIM s None s'.
Proof. intros X Q. destruct (X Q). Qed.

Lemma statement_body_sim fuel s r s' : parse_statement_body B ps fuel s = Ok r s' -> SIM s r s'.
Proof.
  unfold parse_statement_body. intro H.
  destruct (ct s);
    try (apply Ok_inj in H as [E1 E2]; subst; apply sim_none; intro Q; autorewrite with serrs in Q; discriminate Q).
  - apply empty_stmt_sim in H. exact H.
  - destruct (ttype (peek (cs s)));
      try (apply assign_stmt_sim in H; exact H); try (apply typed_decl_stmt_sim in H; exact H);
      try (apply inferred_decl_stmt_sim in H; exact H);
      (destruct (is_func (tlit (cur (cs s))) s); [apply call_stmt_sim in H; exact H|]);
      try (apply assign_stmt_sim in H; exact H);
      (apply Ok_inj in H as [E1 E2]; subst; apply sim_none; intro Q; autorewrite with serrs in Q; discriminate Q).
  - apply Ok_inj in H as [E1 E2]; subst. intros Q [N U]. norm. auto.
  - apply empty_stmt_sim in H. exact H.
  - apply if_stmt_sim in H. exact H.
  - apply return_stmt_sim in H. exact H.
  - apply for_stmt_sim in H. exact H.
  - apply while_stmt_sim in H. exact H.
  - apply break_stmt_sim in H. exact H.
Qed.

End StmtSim.

Section ProgramSim.
Variable B : benv.

Theorem stmt_sim : forall fuel s r s', parse_statement B fuel s = Ok r s' -> SIM B s r s'.
Proof.
  induction fuel as [|f IH]; intros s r s' H; [discriminate|]. cbn [parse_statement] in H.
  apply (statement_body_sim B (parse_statement B f) (stmt_sound B f) IH) in H. exact H.
Qed.

Lemma parse_block_sim fuel s b s' : parse_block B fuel s = Ok b s' -> serrs s' = [] -> WF s ->
  sused s' = [] /\ fns s' = fns s /\ block_sok B (fns s) b /\
  scope_block (tabs_of B (fns s)) b (abs s) = Some (tl (abs s')).
Proof. unfold parse_block. apply block_with_sim; [apply stmt_sound|apply stmt_sim]. Qed.

Lemma abs_rec s b h : abs {| cs := cs s; scs := scs s; fns := fns s; bodies := b; hds := h |} = abs s. Proof. reflexivity. Qed.
Lemma fns_rec s b h : fns {| cs := cs s; scs := scs s; fns := fns s; bodies := b; hds := h |} = fns s. Proof. reflexivity. Qed.
Lemma sused_rec s b h : sused {| cs := cs s; scs := scs s; fns := fns s; bodies := b; hds := h |} = sused s. Proof. reflexivity. Qed.
Lemma serrs_rec s b h : serrs {| cs := cs s; scs := scs s; fns := fns s; bodies := b; hds := h |} = serrs s. Proof. reflexivity. Qed.
Lemma frames_rec s b h : frames {| cs := cs s; scs := scs s; fns := fns s; bodies := b; hds := h |} = frames s. Proof. reflexivity. Qed.

Lemma add_params_sim : forall l s, serrs (add_params B l s) = [] -> scs s <> [] ->
  declare_all (tabs_of B (fns s)) (map fst l) (abs s) = Some (abs (add_params B l s)) /\
  fns (add_params B l s) = fns s /\ sused (add_params B l s) = sused s.
Proof.
  induction l as [|[n p] l IH]; intros s Q N; [simpl; auto|].
  change (add_params B ((n, p) :: l) s) with (add_params B l (scope_set n p (snd (validate_var_decl B n p true s)))) in *.
  destruct (add_params_sn B l _ Q) as [Q1 _]. autorewrite with serrs in Q1.
  destruct (validate_var_decl B n p true s) as [ok s2] eqn:V. cbn [snd] in *.
  destruct (serrs_validate_var_decl _ _ _ _ _ _ _ V Q1) as [E1 E2]. subst ok s2.
  pose proof (declare_sim B n p true s) as D. rewrite V in D. specialize (D eq_refl N).
  destruct (IH _ Q) as (D2 & F2 & U2); [eapply scs_of_frames; [apply frames_scope_set|exact N]|].
  autorewrite with fns sused in *. cbn [map fst declare_all]. rewrite D. auto.
Qed.

Lemma add_event_params_sim : forall ps ex s, List.length ps = List.length ex ->
  serrs (add_event_params B ps ex s) = [] -> scs s <> [] ->
  declare_all (tabs_of B (fns s)) (map (fun d => fst (fst d)) ps) (abs s) = Some (abs (add_event_params B ps ex s)) /\
  fns (add_event_params B ps ex s) = fns s /\ sused (add_event_params B ps ex s) = sused s.
Proof.
  induction ps as [|[[n p] t] ps IH]; intros ex s L Q N; [simpl; auto|].
  destruct ex as [|e ex]; [discriminate L|]. injection L as L. cbn [add_event_params] in *.
  match type of Q with serrs (add_event_params B ps ex (scope_set n p ?x)) = [] => set (s2 := x) in * end.
  destruct (add_event_params_sn B ps ex _ Q) as [Q1 _]. autorewrite with serrs in Q1.
  destruct (validate_var_decl B n p true s) as [ok s1] eqn:V. cbn [snd] in *.
  assert (E : s2 = s1 /\ serrs s1 = []).
  { unfold s2 in *. destruct t as [t'|]; [destruct (ty_eqb t' e); [auto|discriminate Q1]|auto]. }
  destruct E as [E Q0]. rewrite E in *. clear E s2.
  destruct (serrs_validate_var_decl _ _ _ _ _ _ _ V Q0) as [E1 E2]. subst ok s1.
  pose proof (declare_sim B n p true s) as D. rewrite V in D. specialize (D eq_refl N).
  destruct (IH _ _ L Q) as (D2 & F2 & U2); [eapply scs_of_frames; [apply frames_scope_set|exact N]|].
  autorewrite with fns sused in *. cbn [map fst declare_all]. rewrite D. auto.
Qed.

Lemma on_params_loop_sim : forall fuel acc s r s', on_params_loop B fuel acc s = Ok r s' -> serrs s' = [] -> sused s = [] ->
  abs s' = abs s /\ fns s' = fns s /\ sused s' = [].
Proof.
  induction fuel as [|f IH]; intros acc s r s' H Q U; [discriminate|]. cbn [on_params_loop] in H.
  destruct (is_at_eol (cs s)); [apply Ok_inj in H as [E1 E2]; subst; auto|].
  destruct (parse_typed_decl B (snd (passert T_IDENT s))) as [d s1| |] eqn:P; try discriminate H.
  destruct (on_params_loop_sn B _ _ _ _ _ H Q) as [Q1 _].
  destruct (typed_decl_sim B _ _ _ P Q1) as (A1 & F1 & U1 & _); [autorewrite with sused; exact U|].
  destruct (IH _ _ _ _ H Q U1) as (A2 & F2 & U2). autorewrite with abs fns in *. split; [congruence|]. split; [congruence|exact U2].
Qed.

Lemma lookup_evn_of n evs ex : lookup_ev n evs = Some ex ->
  lookup_evn n (map (fun e => (fst e, List.length (snd e))) evs) = Some (List.length ex).
Proof.
  induction evs as [|[m x] l IH]; simpl; [discriminate|].
  destruct (str_eqb m n); [intro H; injection H as ->; reflexivity|exact IH].
Qed.

(* parseFunc.  A nil result without an error: the token after `func` is not an identifier (Go: "already reported by
   parseFuncSignatures"; the body has been parsed in a scope of its own and is dropped) *)
Lemma func_sim' fuel s r s' : parse_func B fuel s = Ok r s' -> serrs s' = [] -> WF s ->
  sused s' = [] /\ fns s' = fns s /\
  match r with
  | Some st => stmt_sok B (fns s) st /\ scope_stmt (tabs_of B (fns s)) st (abs s) = Some (abs s')
  | None => ct (adv s) <> T_IDENT
  end.
Proof.
  unfold parse_func. intros H Q [N U]. cbv zeta in H.
  match type of H with context[if negb ?x then _ else _] => set (isid := x) in * end.
  match type of H with context[add_params B (fi_params ?f)] => set (fi := f) in H end.
  match type of H with context[parse_block B fuel ?x] => set (s3 := x) in H end.
  destruct (parse_block B fuel s3) as [b s4| |] eqn:PB; try discriminate H.
  assert (COMMON : serrs s4 = [] -> sused s4 = [] /\ fns s4 = fns s /\ block_sok B (fns s) b /\
            obind (declare_all (tabs_of B (fns s)) (map fst (fi_params fi)) ([] :: abs s)) (scope_block (tabs_of B (fns s)) b)
            = Some (tl (abs s4))).
  { intro Q5. destruct (parse_block_sound B _ _ _ _ PB Q5) as (Q3 & _ & _).
    set (s2 := push_scope true (fi_ret fi) false (apnl (adv s))) in *.
    assert (N2 : scs s2 <> []) by (unfold s2; simpl; discriminate).
    destruct (add_params_sim (fi_params fi) s2 Q3 N2) as (D3 & F3 & U3).
    assert (W3 : WF s3).
    { split; [|unfold s3; rewrite U3; unfold s2; autorewrite with sused; exact U].
      eapply (scs_of_frames s2); [|exact N2]. destruct (add_params_sn B (fi_params fi) s2 Q3) as [_ F]. exact F. }
    destruct (parse_block_sim _ _ _ _ PB Q5 W3) as (U4 & F4 & Tb & Sb).
    unfold s3 in F4, Tb, Sb. rewrite F3 in F4, Tb, Sb. unfold s2 in F4, Tb, Sb, D3. autorewrite with fns abs in F4, Tb, Sb, D3.
    split; [exact U4|]. split; [exact F4|]. split; [exact Tb|]. rewrite D3. exact Sb. }
  destruct isid eqn:ID; cbn [negb] in H.
  2:{ apply Ok_inj in H as [E1 E2]; subst. autorewrite with serrs in Q. destruct (COMMON Q) as (U4 & F4 & _).
      autorewrite with sused fns. split; [exact U4|]. split; [exact F4|].
      intro X. unfold isid in ID. rewrite X in ID. discriminate ID. }
  destruct (mem_str _ _); [apply Ok_inj in H as [E1 E2]; subst; autorewrite with serrs in Q; discriminate Q|].
  apply Ok_inj in H as [E1 E2]; subst r s'.
  change (serrs (finish_end (if fi_ret fi && negb (block_terms b) then serr K_missing_return s4 else s4)) = []) in Q.
  destruct (SN_finish_end _ Q) as [Q5 _].
  destruct (fi_ret fi && negb (block_terms b)) eqn:MR; [discriminate Q5|].
  destruct (COMMON Q5) as (U4 & F4 & Tb & Sb).
  rewrite sused_pop_scope, fns_pop_scope, abs_pop_scope, sused_rec, fns_rec, abs_rec.
  autorewrite with sused fns abs.
  split; [exact U4|]. split; [exact F4|]. split; [exact Tb|]. exact Sb.
Qed.

Lemma scope_on_eq T name params b G :
  scope_stmt T (SOn name params b) G =
  match lookup_evn name (t_events T) with
  | None => None
  | Some k =>
      match params with
      | [] => scope_block T b ([] :: G)
      | _ => if Nat.eqb (List.length params) k then obind (declare_all T params ([] :: G)) (scope_block T b) else None
      end
  end.
Proof. reflexivity. Qed.

Lemma event_handler_sim fuel s r s' : parse_event_handler B fuel s = Ok r s' -> SIM B s r s'.
Proof.
  unfold parse_event_handler. intros H Q [N U]. cbv zeta in H.
  destruct (passert T_IDENT (adv s)) as [ok s2] eqn:A.
  destruct ok; cbn [negb] in H.
  2:{ apply Ok_inj in H as [E1 E2]; subst. autorewrite with serrs in Q. destruct (passert_ne _ _ _ _ A Q) as [E _]. discriminate E. }
  match type of H with context[on_params_loop B _ [] (adv ?x)] => set (s3 := x) in H end.
  destruct (on_params_loop B (S (pos s3)) [] (adv s3)) as [params s4| |] eqn:PL; try discriminate H.
  match type of H with context[parse_block B fuel ?x] => set (s6 := x) in H end.
  destruct (parse_block B fuel s6) as [b s7| |] eqn:PB; try discriminate H.
  apply Ok_inj in H as [E1 E2]; subst r s'. autorewrite with serrs in Q.
  destruct (SN_finish_end s7 Q) as [Q7 _].
  destruct (parse_block_sound B _ _ _ _ PB Q7) as (Q6 & _ & _).
  set (s5 := push_scope true false false (apnl s4)) in *.
  assert (N5 : scs s5 <> []) by (unfold s5; simpl; discriminate).
  set (name := tlit (cur (cs s2))) in *.
  set (pnames := map (fun d : str * nat * option ty => fst (fst d)) params) in *.
  (* the parameters *)
  assert (P6 : serrs s5 = [] /\ frames s6 = frames s5 /\ fns s6 = fns s5 /\ sused s6 = sused s5 /\
               forall ex, lookup_ev name (b_events B) = Some ex ->
                 match pnames with
                 | [] => Some ([] :: abs s4)
                 | _ => if Nat.eqb (List.length pnames) (List.length ex)
                        then declare_all (tabs_of B (fns s4)) pnames ([] :: abs s4) else None
                 end = Some (abs s6)).
  { unfold s6, pnames. destruct params as [|d ds].
    { split; [exact Q6|]. repeat (split; [reflexivity|]). intros ex _. reflexivity. }
    destruct (lookup_ev name (b_events B)) as [ex|] eqn:EV.
    2:{ split; [exact Q6|]. repeat (split; [reflexivity|]). intros ex X; discriminate X. }
    unfold s6 in Q6.
    destruct (add_event_params_sn B (d :: ds) ex _ Q6) as [Q5 F5].
    rewrite map_length.
    destruct (Nat.eqb (List.length (d :: ds)) (List.length ex)) eqn:LE; [|discriminate Q5].
    apply Nat.eqb_eq in LE.
    destruct (add_event_params_sim (d :: ds) ex s5 LE Q6 N5) as (D & F & U6).
    split; [exact Q5|]. split; [exact F5|]. split; [exact F|]. split; [exact U6|].
    intros ex' X. injection X as <-. cbn [map]. rewrite (proj2 (Nat.eqb_eq _ _) LE). exact D. }
  destruct P6 as (Q5 & F65 & Fn65 & U65 & D6). unfold s5 in Q5. autorewrite with serrs in Q5.
  destruct (on_params_loop_sn B _ _ _ _ _ PL Q5) as [Q3 _]. autorewrite with serrs in Q3.
  assert (E3 : exists ex, lookup_ev name (b_events B) = Some ex /\ serrs s2 = [] /\ abs s3 = abs s2 /\ fns s3 = fns s2 /\ sused s3 = sused s2).
  { unfold s3 in Q3 |- *. destruct (mem_str name (hds s2)); [discriminate Q3|].
    destruct (lookup_ev name (b_events B)) as [ex|]; [|discriminate Q3]. exists ex. repeat split; auto. }
  destruct E3 as (ex & EV & Q2 & A3 & Fn3 & U3).
  destruct (passert_ne _ _ _ _ A Q2) as [_ E2]. subst s2.
  destruct (on_params_loop_sim _ _ _ _ _ PL Q5) as (A4 & Fn4 & U4); [autorewrite with sused; rewrite U3; autorewrite with sused; exact U|].
  autorewrite with abs fns sused in *.
  assert (W6 : WF s6).
  { split; [eapply (scs_of_frames s5); [exact F65|exact N5]|]. rewrite U65. unfold s5. autorewrite with sused. exact U4. }
  destruct (parse_block_sim _ _ _ _ PB Q7 W6) as (U7 & F7 & Tb & Sb).
  rewrite Fn65 in F7, Tb, Sb. unfold s5 in F7, Tb, Sb. autorewrite with fns in F7, Tb, Sb.
  rewrite Fn4, Fn3 in *. autorewrite with fns in *. rewrite A4, A3 in *. autorewrite with abs in *.
  specialize (D6 ex EV).
  split; [exact U7|]. split; [exact F7|]. split; [exact Tb|].
  rewrite scope_on_eq. cbn [t_events tabs_of]. rewrite (lookup_evn_of _ _ _ EV).
  destruct pnames as [|pn pr] eqn:EP.
  - injection D6 as D6. rewrite D6. exact Sb.
  - destruct (Nat.eqb _ _); [|discriminate D6]. rewrite D6. exact Sb.
Qed.

Lemma program_loop_sim : forall fuel acc terms s p s', program_loop B fuel acc terms s = Ok p s' ->
  serrs s' = [] -> WF s -> loop_named B fuel terms s = true ->
  sused s' = [] /\ fns s' = fns s /\
  exists l, p = rev acc ++ l /\ stmts_sok B (fns s) l /\ scope_stmts (tabs_of B (fns s)) l (abs s) = Some (abs s').
Proof.
  induction fuel as [|f IH]; intros acc terms s p s' H Q W LN; [discriminate|]. cbn [program_loop] in H. cbn [loop_named] in LN.
  set (GOAL := sused s' = [] /\ fns s' = fns s /\
    exists l, p = rev acc ++ l /\ stmts_sok B (fns s) l /\ scope_stmts (tabs_of B (fns s)) l (abs s) = Some (abs s')).
  assert (DS : (pdo (r, s1) <- parse_statement B f s;
        match r with
        | None => program_loop B f acc terms s1
        | Some st => if terms then program_loop B f acc terms (serr_at K_unreachable (pos s) s1)
                     else program_loop B f (st :: acc) (always_terms st) s1
        end) = Ok p s' ->
        match parse_statement B f s with
        | Ok None s1 => loop_named B f terms s1
        | Ok (Some st) s1 => if terms then true else loop_named B f (always_terms st) s1
        | _ => true
        end = true -> GOAL).
  { intros H1 L1. destruct (parse_statement B f s) as [r s1| |] eqn:P; try discriminate H1.
    pose proof (stmt_sound B _ _ _ _ P) as S1. pose proof (stmt_sim _ _ _ _ P) as M1.
    assert (Q1 : serrs s1 = []).
    { destruct r as [st|]; [destruct terms|]; pose proof (program_loop_sn B _ _ _ _ _ _ H1 Q) as [Q1 _];
        [discriminate Q1|exact Q1|exact Q1]. }
    destruct (S1 Q1) as (_ & F1 & _). destruct (M1 Q1 W) as (U1 & Fn1 & M).
    assert (W1 : WF s1) by (split; [eapply scs_of_frames; [exact F1|apply W]|exact U1]).
    destruct r as [st|].
    - destruct terms.
      + pose proof (program_loop_sn B _ _ _ _ _ _ H1 Q) as [Q2 _]. discriminate Q2.
      + destruct (IH _ _ _ _ _ H1 Q W1 L1) as (U2 & Fn2 & l & El & Hl & Hs).
        split; [exact U2|]. split; [congruence|]. exists (st :: l). simpl in El. rewrite <- app_assoc in El. split; [exact El|].
        destruct M as [Ms Mc]. rewrite Fn1 in *. split; [constructor; assumption|]. simpl. rewrite Mc. simpl. exact Hs.
    - destruct (IH _ _ _ _ _ H1 Q W1 L1) as (U2 & Fn2 & l & El & Hl & Hs).
      split; [exact U2|]. split; [congruence|]. exists l. rewrite Fn1, M in *. auto. }
  assert (DF : forall r s1,
               (serrs s1 = [] -> frames s1 = frames s /\ sused s1 = [] /\ fns s1 = fns s /\
                  match r with
                  | Some st => stmt_sok B (fns s) st /\ scope_stmt (tabs_of B (fns s)) st (abs s) = Some (abs s1)
                  | None => abs s1 = abs s
                  end) ->
               loop_named B f terms s1 = true ->
               program_loop B f (match r with Some st => st :: acc | None => acc end) terms s1 = Ok p s' -> GOAL).
  { intros r s1 S1 L1 H1. destruct (program_loop_sn B _ _ _ _ _ _ H1 Q) as [Q1 _]. destruct (S1 Q1) as (F1 & U1 & Fn1 & M).
    assert (W1 : WF s1) by (split; [eapply scs_of_frames; [exact F1|apply W]|exact U1]).
    destruct (IH _ _ _ _ _ H1 Q W1 L1) as (U2 & Fn2 & l & El & Hl & Hs).
    split; [exact U2|]. split; [congruence|]. rewrite Fn1 in *.
    destruct r as [st|].
    - exists (st :: l). simpl in El. rewrite <- app_assoc in El. split; [exact El|].
      destruct M as [Ms Mc]. split; [constructor; assumption|]. simpl. rewrite Mc. simpl. exact Hs.
    - exists l. rewrite M in *. auto. }
  destruct (ct s); try exact (DS H LN).
  - apply Ok_inj in H as [E1 E2]; subst. destruct W. split; [assumption|]. split; [reflexivity|].
    exists []. rewrite app_nil_r. split; [reflexivity|]. split; [constructor|reflexivity].
  - apply andb_true_iff in LN as [TI LN].
    assert (TI' : ct (adv s) = T_IDENT) by (destruct (ct (adv s)); try discriminate TI; reflexivity). clear TI. rename TI' into TI.
    destruct (parse_func B f s) as [r s1| |] eqn:P; try discriminate H. apply (DF r s1); [|exact LN|exact H].
    intro Q1. destruct (func_sound B _ _ _ _ P Q1) as (_ & F1 & _). destruct (func_sim' _ _ _ _ P Q1 W) as (U1 & Fn1 & M). split; [exact F1|]. split; [exact U1|]. split; [exact Fn1|].
    destruct r; [exact M|contradiction].
  - destruct (parse_event_handler B f s) as [r s1| |] eqn:P; try discriminate H. apply (DF r s1); [|exact LN|exact H].
    intro Q1. destruct (event_handler_sound B _ _ _ _ P Q1) as (_ & F1 & _). destruct (event_handler_sim _ _ _ _ P Q1 W) as (U1 & Fn1 & M). auto.
Qed.

(* the static part alone does not need [loop_named] *)
Lemma program_loop_static : forall fuel acc terms s p s', program_loop B fuel acc terms s = Ok p s' ->
  serrs s' = [] -> WF s ->
  sused s' = [] /\ fns s' = fns s /\ exists l, p = rev acc ++ l /\ stmts_sok B (fns s) l.
Proof.
  induction fuel as [|f IH]; intros acc terms s p s' H Q W; [discriminate|]. cbn [program_loop] in H.
  set (GOAL := sused s' = [] /\ fns s' = fns s /\ exists l, p = rev acc ++ l /\ stmts_sok B (fns s) l).
  assert (DS : (pdo (r, s1) <- parse_statement B f s;
        match r with
        | None => program_loop B f acc terms s1
        | Some st => if terms then program_loop B f acc terms (serr_at K_unreachable (pos s) s1)
                     else program_loop B f (st :: acc) (always_terms st) s1
        end) = Ok p s' -> GOAL).
  { intros H1. destruct (parse_statement B f s) as [r s1| |] eqn:P; try discriminate H1.
    pose proof (stmt_sound B _ _ _ _ P) as S1. pose proof (stmt_sim _ _ _ _ P) as M1.
    assert (Q1 : serrs s1 = []).
    { destruct r as [st|]; [destruct terms|]; pose proof (program_loop_sn B _ _ _ _ _ _ H1 Q) as [Q1 _];
        [discriminate Q1|exact Q1|exact Q1]. }
    destruct (S1 Q1) as (_ & F1 & _). destruct (M1 Q1 W) as (U1 & Fn1 & M).
    assert (W1 : WF s1) by (split; [eapply scs_of_frames; [exact F1|apply W]|exact U1]).
    destruct r as [st|].
    - destruct terms.
      + pose proof (program_loop_sn B _ _ _ _ _ _ H1 Q) as [Q2 _]. discriminate Q2.
      + destruct (IH _ _ _ _ _ H1 Q W1) as (U2 & Fn2 & l & El & Hl).
        split; [exact U2|]. split; [congruence|]. exists (st :: l). simpl in El. rewrite <- app_assoc in El. split; [exact El|].
        destruct M as [Ms Mc]. rewrite Fn1 in *. constructor; assumption.
    - destruct (IH _ _ _ _ _ H1 Q W1) as (U2 & Fn2 & l & El & Hl).
      split; [exact U2|]. split; [congruence|]. exists l. rewrite Fn1 in *. auto. }
  assert (DF : forall r s1,
               (serrs s1 = [] -> frames s1 = frames s /\ sused s1 = [] /\ fns s1 = fns s /\
                  match r with Some st => stmt_sok B (fns s) st | None => True end) ->
               program_loop B f (match r with Some st => st :: acc | None => acc end) terms s1 = Ok p s' -> GOAL).
  { intros r s1 S1 H1. destruct (program_loop_sn B _ _ _ _ _ _ H1 Q) as [Q1 _]. destruct (S1 Q1) as (F1 & U1 & Fn1 & M).
    assert (W1 : WF s1) by (split; [eapply scs_of_frames; [exact F1|apply W]|exact U1]).
    destruct (IH _ _ _ _ _ H1 Q W1) as (U2 & Fn2 & l & El & Hl).
    split; [exact U2|]. split; [congruence|]. rewrite Fn1 in *.
    destruct r as [st|].
    - exists (st :: l). simpl in El. rewrite <- app_assoc in El. split; [exact El|]. constructor; assumption.
    - exists l. auto. }
  destruct (ct s); try exact (DS H).
  - apply Ok_inj in H as [E1 E2]; subst. destruct W. split; [assumption|]. split; [reflexivity|].
    exists []. rewrite app_nil_r. split; [reflexivity|constructor].
  - destruct (parse_func B f s) as [r s1| |] eqn:P; try discriminate H. apply (DF r s1); [|exact H].
    intro Q1. destruct (func_sound B _ _ _ _ P Q1) as (_ & F1 & _). destruct (func_sim' _ _ _ _ P Q1 W) as (U1 & Fn1 & M).
    split; [exact F1|]. split; [exact U1|]. split; [exact Fn1|]. destruct r; [apply M|exact I].
  - destruct (parse_event_handler B f s) as [r s1| |] eqn:P; try discriminate H. apply (DF r s1); [|exact H].
    intro Q1. destruct (event_handler_sound B _ _ _ _ P Q1) as (_ & F1 & _). destruct (event_handler_sim _ _ _ _ P Q1 W) as (U1 & Fn1 & M).
    split; [exact F1|]. split; [exact U1|]. split; [exact Fn1|]. destruct r; [apply M|exact I].
Qed.

End ProgramSim.

(* ================================================================ *)
(** * Accept implies the static expression rules and the scoping rules *)

Lemma accept_inv B raw eof p : parse B raw eof = Accept p ->
  exists s3, program_loop B (fuel_of (legal_toks raw)) [] false (loop_start_state B raw) = Ok p s3 /\ serrs (validate_scope s3) = [].
Proof.
  unfold parse, loop_start_state, fn_table, legal_toks, newparser_state, globals_scope.
  destruct (signatures B tEOF _ _) as [u s1| |]; try discriminate.
  destruct (_ ++ _) as [|e0 es0]; [|discriminate].
  match goal with |- context[program_loop B ?fu [] false ?s2] => destruct (program_loop B fu [] false s2) as [prog s3| |] eqn:PL end; try discriminate.
  destruct (map _ (rev (errs (cs (validate_scope s3))))) as [|e1 es1] eqn:EM; [|discriminate].
  intro H. injection H as <-. apply map_rev_nil in EM. exists s3. split; [reflexivity|exact EM].
Qed.

Lemma main_state_wf B raw : WF (loop_start_state B raw).
Proof. split; [discriminate|reflexivity]. Qed.
Lemma main_state_abs B raw : abs (loop_start_state B raw) = [map (fun n => (n, true)) (b_globals B)].
Proof. unfold abs, loop_start_state, absf, globals_scope. simpl. rewrite map_map. reflexivity. Qed.

(* (e) + typing oracle, at program level: every expression of an accepted program satisfies the call rules w.r.t. the
   table of the signature pre-pass, and no typing site fired *)
Theorem accept_static B raw eof p : parse B raw eof = Accept p -> stmts_sok B (fn_table B raw) p.
Proof.
  intro H. destruct (accept_inv _ _ _ _ H) as (s3 & PL & Q).
  destruct (program_loop_static B _ _ _ _ _ _ PL (serrs_validate_scope _ Q) (main_state_wf B raw)) as (_ & _ & l & El & Hl).
  simpl in El. subst l. exact Hl.
Qed.

(* (f) (g) (h): the accepted program passes the declarative scope checker *)
Theorem accept_scoped_partial B raw eof p : parse B raw eof = Accept p -> funcs_named B raw = true ->
  scope_prog (tabs_of B (fn_table B raw)) p = true.
Proof.
  intros H LN. destruct (accept_inv _ _ _ _ H) as (s3 & PL & Q).
  pose proof (serrs_validate_scope _ Q) as Q3.
  destruct (program_loop_sim B _ _ _ _ _ _ PL Q3 (main_state_wf B raw) LN) as (_ & _ & l & El & _ & Hs).
  simpl in El. subst l.
  destruct (program_loop_sn B _ _ _ _ _ _ PL Q3) as [_ F3].
  unfold scope_prog. rewrite main_state_abs in Hs. cbn [t_globals tabs_of].
  change (fns (loop_start_state B raw)) with (fn_table B raw) in Hs. rewrite Hs. cbn [obind].
  rewrite (validate_close _ Q); [reflexivity|]. eapply scs_of_frames; [exact F3|discriminate].
Qed.

(* ================================================================ *)
(** * (i) each statement ends at the end of a line                   *)

(* the cursor after the statement is advancePastNL of a cursor that stood on NL, a comment or EOF *)
Definition ends_line (s' : pst) : Prop := exists c1, is_at_eol c1 = true /\ cs s' = apnl_loop (S (here c1)) c1.

Lemma ends_apnl s1 : serrs (apnl (assert_eol s1)) = [] -> ends_line (apnl (assert_eol s1)).
Proof.
  intro Q. autorewrite with serrs in Q. destruct (assert_eol_ne _ Q) as [E L]. rewrite E. exists (cs s1). split; [exact L|reflexivity].
Qed.
Lemma ends_finish_end s : serrs (finish_end s) = [] -> ends_line (finish_end s).
Proof. unfold finish_end. apply ends_apnl. Qed.
Lemma ends_cs s s' : cs s' = cs s -> ends_line s -> ends_line s'.
Proof. intros E (c1 & L & C). exists c1. split; [exact L|congruence]. Qed.

Section Lines.
Variable B : benv.
Variable ps : pst -> PR (option stmt).

Lemma statement_body_ends fuel s st s' : parse_statement_body B ps fuel s = Ok (Some st) s' -> serrs s' = [] ->
  st = SEmpty \/ ends_line s'.
Proof.
  unfold parse_statement_body. intros H Q.
  assert (EMP : parse_empty_stmt s = Ok (Some st) s' -> st = SEmpty \/ ends_line s').
  { unfold parse_empty_stmt. intro H1. destruct (ct s); try discriminate H1; injection H1 as <- _; left; reflexivity. }
  assert (TD : parse_typed_decl_stmt B s = Ok (Some st) s' -> st = SEmpty \/ ends_line s').
  { unfold parse_typed_decl_stmt. intro H1. right.
    destruct (parse_typed_decl B s) as [[[name dpos] t] s1| |] eqn:P; try discriminate H1.
    apply Ok_inj in H1 as [E1 E2]; subst.
    destruct t as [ty|].
    - destruct (validate_var_decl B name dpos false s1) as [ok s2] eqn:V. destruct ok; [apply ends_apnl; exact Q|].
      autorewrite with serrs in Q. destruct (serrs_validate_var_decl _ _ _ _ _ _ _ V Q) as [E _]. discriminate E.
    - exfalso. autorewrite with serrs in Q. unfold parse_typed_decl in P.
      destruct (p_type B _) as [t s2| |]; try discriminate P. destruct t; apply Ok_inj in P as [E3 E4]; [discriminate E3|].
      subst. discriminate Q. }
  assert (ID : parse_inferred_decl_stmt B s = Ok (Some st) s' -> st = SEmpty \/ ends_line s').
  { unfold parse_inferred_decl_stmt. intro H1. right. cbv zeta in H1.
    destruct (p_toplevel B _) as [v s2| |]; try discriminate H1.
    destruct v as [t|]; [|discriminate H1]. destruct (tyerr_s B _ _ _); [discriminate H1|].
    destruct (validate_var_decl B _ _ false s2) as [ok s3]. destruct ok; [|discriminate H1].
    apply Ok_inj in H1 as [E1 E2]; subst. apply ends_apnl; exact Q. }
  assert (AS : parse_assign_stmt B s = Ok (Some st) s' -> st = SEmpty \/ ends_line s').
  { unfold parse_assign_stmt. intro H1. right.
    destruct (is_func _ s); [discriminate H1|].
    destruct (parse_assign_target B s) as [tg s1| |]; try discriminate H1.
    destruct tg as [target|]; [|discriminate H1].
    destruct (p_toplevel B _) as [v s3| |]; try discriminate H1.
    destruct v as [value|]; [|discriminate H1]. cbv zeta in H1.
    apply Ok_inj in H1 as [E1 E2]; subst. apply ends_apnl; exact Q. }
  assert (CA : parse_call_stmt B s = Ok (Some st) s' -> st = SEmpty \/ ends_line s').
  { unfold parse_call_stmt. intro H1. right.
    destruct (lookup_fn _ _); [|discriminate H1]. destruct (p_func_call B _ s) as [x s1| |]; try discriminate H1.
    destruct x; [|discriminate H1]. apply Ok_inj in H1 as [E1 E2]; subst. apply ends_apnl; exact Q. }
  assert (CMP : forall s3 st0, Ok (Some st0) (pop_scope (finish_end s3)) = Ok (Some st) s' -> st = SEmpty \/ ends_line s').
  { intros s3 st0 H1. right. apply Ok_inj in H1 as [E1 E2]; subst. autorewrite with serrs in Q.
    apply (ends_cs (finish_end s3)); [reflexivity|apply ends_finish_end; exact Q]. }
  destruct (ct s); try discriminate H; try exact (EMP H).
  - destruct (ttype (peek (cs s))); try exact (AS H); try exact (TD H); try exact (ID H);
      (destruct (is_func (tlit (cur (cs s))) s); [exact (CA H)|]); try exact (AS H); discriminate H.
  - (* if *) unfold parse_if_stmt in H.
    destruct (parse_if_cond_block B ps fuel s) as [cb s1| |]; try discriminate H.
    destruct (else_if_loop B ps _ fuel [cb] s1) as [brs s2| |]; try discriminate H.
    right. destruct (ct s2);
      try (apply Ok_inj in H as [E1 E2]; subst; apply ends_finish_end; exact Q).
    cbv zeta in H. destruct (parse_block_with ps fuel false _) as [b s4| |]; try discriminate H.
    apply Ok_inj in H as [E1 E2]; subst; apply ends_finish_end; exact Q.
  - (* return *) right. unfold parse_return_stmt in H. cbv zeta in H.
    destruct (is_at_eol (cs (adv s))) eqn:EOL.
    + apply Ok_inj in H as [E1 E2]; subst. autorewrite with serrs in Q.
      destruct (negb (has_ret (adv s))); [discriminate Q|]. destruct (ret_value (adv s)); [discriminate Q|].
      exists (cs (adv s)). split; [exact EOL|reflexivity].
    + destruct (p_toplevel B (adv s)) as [x s2| |]; try discriminate H.
      destruct x as [t|]; apply Ok_inj in H as [E1 E2]; subst; autorewrite with serrs in Q.
      * destruct (negb (has_ret (assert_eol s2))); [discriminate Q|].
        destruct (tyerr_s B TS_return_type t _); [discriminate Q|]. apply ends_apnl. autorewrite with serrs. exact Q.
      * destruct (negb (has_ret s2)); discriminate Q.
  - (* for *) unfold parse_for_stmt in H. cbv zeta in H.
    match type of H with (match ?lv with _ => _ end) = _ => destruct lv as [[v|] s4] end; [|discriminate H].
    destruct (passert T_RANGE s4) as [ok s5]. destruct ok; cbn [negb] in H; [|discriminate H].
    destruct (p_expr_list B (adv s5)) as [ns s7| |]; try discriminate H.
    destruct (match ns with Some l => l | None => [] end) as [|n more]; [discriminate H|].
    destruct (_ && _); [discriminate H|].
    destruct (parse_block_with ps fuel false _) as [b s10| |]; try discriminate H.
    exact (CMP _ _ H).
  - (* while *) unfold parse_while_stmt in H. cbv zeta in H.
    destruct (parse_condition B _) as [c s2| |]; try discriminate H.
    destruct (parse_block_with ps fuel false _) as [b s3| |]; try discriminate H.
    exact (CMP _ _ H).
  - (* break *) right. unfold parse_break_stmt in H. apply Ok_inj in H as [E1 E2]; subst. apply ends_apnl; exact Q.
Qed.

End Lines.

Theorem stmt_ends_line B : forall fuel s st s', parse_statement B fuel s = Ok (Some st) s' -> serrs s' = [] ->
  st = SEmpty \/ ends_line s'.
Proof.
  destruct fuel as [|f]; intros s st s' H Q; [discriminate|]. cbn [parse_statement] in H.
  exact (statement_body_ends B _ _ _ _ _ H Q).
Qed.

Theorem func_ends_line B fuel s st s' : parse_func B fuel s = Ok (Some st) s' -> serrs s' = [] -> ends_line s'.
Proof.
  unfold parse_func. intros H Q. cbv zeta in H.
  destruct (parse_block B fuel _) as [b s4| |]; try discriminate H.
  destruct (negb _); [discriminate H|]. destruct (mem_str _ _); [discriminate H|].
  apply Ok_inj in H as [E1 E2]; subst.
  match type of Q with serrs (pop_scope {| cs := cs (finish_end ?x); scs := _; fns := _; bodies := _; hds := _ |}) = [] =>
    apply (ends_cs (finish_end x)); [reflexivity|apply ends_finish_end; exact Q] end.
Qed.

Theorem on_ends_line B fuel s st s' : parse_event_handler B fuel s = Ok (Some st) s' -> serrs s' = [] -> ends_line s'.
Proof.
  unfold parse_event_handler. intros H Q. cbv zeta in H.
  destruct (passert T_IDENT (adv s)) as [ok s2]. destruct ok; cbn [negb] in H; [|discriminate H].
  destruct (on_params_loop B _ [] _) as [params s4| |]; try discriminate H.
  destruct (parse_block B fuel _) as [b s7| |]; try discriminate H.
  apply Ok_inj in H as [E1 E2]; subst. autorewrite with serrs in Q.
  apply (ends_cs (finish_end s7)); [reflexivity|apply ends_finish_end; exact Q].
Qed.

(* the header of `while`, `if` and `else if`: the condition is followed by the end of the line *)
Lemma condition_eol B s c s' : parse_condition B s = Ok (Some c) s' -> serrs s' = [] -> is_at_eol (cs s') = true.
Proof.
  unfold parse_condition. intros H Q.
  destruct (p_toplevel B s) as [x s1| |]; try discriminate H. destruct x as [t|]; [|discriminate H].
  apply Ok_inj in H as [E1 E2]; subst.
  destruct (tyerr_s B _ _ _); [discriminate Q|]. destruct (assert_eol_ne _ Q) as [E L]. rewrite E. exact L.
Qed.
