(* FormatParseProgProofs.v — C06 round trip, program level, against Parser.parse (parser.Parse):
   the tokens the formatter writes for a program without func / on parse back — through the
   signature pre-pass, parseProgram's loop and the final validateScope — to the program's tree. *)
From Coq Require Import List String NArith ZArith Bool Arith Lia.
From EvyV Require Import Base FmtAst Format FormatProofs Pratt PrattProofs Parser ParserProofs ParserRules ParserScope ParserCursor
  FormatParse FormatParseProofs FormatParseListProofs FormatParseStmtProofs FormatParseBlockProofs FormatParsePlainProofs.
From EvyV.Gen Require Import Prec.
Import ListNotations.
Local Open Scope nat_scope.

Section Prog.
  Variable B : benv.
  Hypothesis BT : forall s t n, b_tyerr B s t n = false.
  Variable fx : fixes.
  Let F := builtin_table B.

  (* ---------- fuel: the size of a statement is bounded by its tokens ---------- *)
  Definition L_sok (fr : frs) (G : ctx) (st : fstmt) : Prop := forall lvl, sz st <= List.length (toks_of_pieces (fmt_stmt fx lvl st)).
  Definition L_coks (fr : frs) (G : ctx) (cbs : list cblock) (Gout : ctx) : Prop := forall lvl, szc cbs <= List.length (elif_toks fx lvl cbs).
  Definition L_boks (fr : frs) (G : ctx) (t e : bool) (body : list fstmt) : Prop := forall L, szb e body <= List.length (body_toks fx L e body).

  Lemma simple_len fr G st lvl : sok B F fr G st -> 1 <= List.length (toks_of_pieces (fmt_stmt fx lvl st)).
  Proof. intro H. destruct (sok_head B fx F fr G st lvl H) as (t0 & ts & -> & _). cbn. lia. Qed.

  Lemma sizes :
    (forall fr G st, sok B F fr G st -> L_sok fr G st) /\
    (forall fr G cbs Gout, coks B F fr G cbs Gout -> L_coks fr G cbs Gout) /\
    (forall fr G t e body, boks B F fr G t e body -> L_boks fr G t e body).
  Proof.
    assert (S1 : forall fr G st, sok B F fr G st -> sz st = 1 -> L_sok fr G st).
    { intros fr G st H E lvl. rewrite E. exact (simple_len fr G st lvl H). }
    assert (Hwhile : forall fr G c body G1, top_ok (envG B F G) c -> body_trees false body <> [] ->
              use_vars (tvars (fexpr_tree c)) ([] :: G) = Some G1 -> boks B F (fr_push true fr) G1 false false body ->
              L_boks (fr_push true fr) G1 false false body -> L_sok fr G (FmtAst.SWhile c [] body [])).
    { intros fr G c body G1 _ _ _ _ IH lvl. rewrite sz_while. specialize (IH (S lvl)).
      pose proof (f_equal (@List.length token) (while_toks fx lvl c body [])) as E. repeat first [rewrite app_length in E | progress cbn [List.length] in E]. lia. }
    assert (Hfor : forall fr G lv r body, L_boks (fr_push true fr) G false false body -> L_sok fr G (FmtAst.SFor lv r [] body [])).
    { intros fr G lv r body IH lvl. rewrite sz_for. specialize (IH (S lvl)).
      pose proof (f_equal (@List.length token) (for_toks fx lvl lv r body [])) as E.
      repeat first [rewrite app_length in E | progress cbn [List.length] in E]. lia. }
    assert (Hif : forall fr G c body elifs G1 Gn Gm (els : option (str * list fstmt)),
              coks B F fr Gn elifs Gm -> L_boks (fr_push false fr) G1 false false body -> L_coks fr Gn elifs Gm ->
              match els with Some (ch, eb) => ch = [] /\ (forall L, szb false eb <= List.length (body_toks fx L false eb)) | None => True end ->
              L_sok fr G (FmtAst.SIf (CBlock c [] body) elifs els [])).
    { intros fr G c body elifs G1 Gn Gm els Hk IHb IHk He lvl. rewrite sz_if. specialize (IHb (S lvl)). specialize (IHk lvl).
      assert (Hc : match els with Some (ch, _) => ch = [] | None => True end) by (destruct els as [[? ?]|]; [exact (proj1 He)|exact I]).
      pose proof (f_equal (@List.length token) (if_toks B fx F lvl fr Gn c body elifs Gm els [] Hk Hc)) as E.
      destruct els as [[ch eb]|]; [destruct He as [-> He]; specialize (He (S lvl))|]; cbn [else_toks] in E;
        repeat first [rewrite app_length in E | progress cbn [List.length] in E]; lia. }
    assert (Hcons : forall fr G c body rest G1 Gn Gout, L_boks (fr_push false fr) G1 false false body -> L_coks fr Gn rest Gout ->
              L_coks fr G (CBlock c [] body :: rest) Gout).
    { intros fr G c body rest G1 Gn Gout IHb IH lvl. specialize (IHb (S lvl)). specialize (IH lvl).
      cbn [szc elif_toks flat_map]. fold (elif_toks fx lvl rest). rewrite !app_length. cbn [List.length]. rewrite !app_length. cbn [List.length]. lia. }
    assert (Hbl : forall fr G t e rest, L_boks fr G t true rest -> L_boks fr G t e (FmtAst.SEmpty [] :: rest)).
    { intros fr G t e rest IH L. rewrite body_toks_blank. cbn [szb is_blank is_empty]. specialize (IH L). rewrite app_length. destruct e; cbn [List.length]; lia. }
    assert (Hbc : forall fr G e st rest G', is_blank st = false -> L_sok fr G st -> L_boks fr G' (always_terms (stmt_tree st)) false rest ->
              L_boks fr G false e (st :: rest)).
    { intros fr G e st rest G' Hb IHs IH L. cbn [szb]. rewrite Hb. specialize (IHs L). specialize (IH L).
      unfold body_toks in *. cbn [map stmts_loop]. rewrite Hb. rewrite !toks_app. rewrite !app_length. cbn [toks_of_pieces flat_map tok_of_piece app List.length]. lia. }
    split; [|split].
    - apply (sok_mind B F L_sok L_coks L_boks); intros; try (apply S1; [econstructor; eassumption | reflexivity]);
        first [ eapply Hwhile; eassumption | eapply Hfor; eassumption | eapply (Hif _ _ _ _ _ _ _ _ None); eauto
              | eapply (Hif _ _ _ _ _ _ _ _ (Some ([], _))); eauto | intro; cbn; lia
              | eapply Hcons; eassumption | intro; cbn; lia | eapply Hbl; eassumption | eapply Hbc; eassumption ].
    - apply (coks_mind B F L_sok L_coks L_boks); intros; try (apply S1; [econstructor; eassumption | reflexivity]);
        first [ eapply Hwhile; eassumption | eapply Hfor; eassumption | eapply (Hif _ _ _ _ _ _ _ _ None); eauto
              | eapply (Hif _ _ _ _ _ _ _ _ (Some ([], _))); eauto | intro; cbn; lia
              | eapply Hcons; eassumption | intro; cbn; lia | eapply Hbl; eassumption | eapply Hbc; eassumption ].
    - apply (boks_mind B F L_sok L_coks L_boks); intros; try (apply S1; [econstructor; eassumption | reflexivity]);
        first [ eapply Hwhile; eassumption | eapply Hfor; eassumption | eapply (Hif _ _ _ _ _ _ _ _ None); eauto
              | eapply (Hif _ _ _ _ _ _ _ _ (Some ([], _))); eauto | intro; cbn; lia
              | eapply Hcons; eassumption | intro; cbn; lia | eapply Hbl; eassumption | eapply Hbc; eassumption ].
  Qed.

  (* ---------- the program ---------- *)
  Definition G0 : ctx := [map (fun n => (n, true)) (b_globals B)].

  Lemma prog_skip1 : forall body G e Gout, poks B F G e body Gout -> skip1 (body_toks fx 0 e body) = body_toks fx 0 e body.
  Proof.
    induction body as [|st rest IH]; intros G e Gout H; [reflexivity|].
    inversion H as [| ? ? ? ? Hr | ? ? ? ? ? ? Hbl Hso Hat Hsc Hnx]; subst.
    - rewrite body_toks_blank. destruct e; cbn [app]; [eapply IH; eassumption | reflexivity].
    - rewrite (body_toks_cons0 fx e st rest Hbl).
      destruct (sok_head B fx F _ _ _ 0 Hso) as (t0 & ts & -> & Hs). cbn [app]. apply skip1_start, Hs.
  Qed.

  Lemma poks_size : forall G e body Gout, poks B F G e body Gout -> szb e body <= List.length (body_toks fx 0 e body).
  Proof.
    induction 1 as [G e | G e rest Gout Hp IH | G e st rest G' Gout Hbl Hso Hat Hsc Hp IH].
    - cbn. lia.
    - rewrite body_toks_blank. cbn [szb is_blank is_empty]. rewrite app_length. destruct e; cbn [List.length]; lia.
    - rewrite (body_toks_cons0 fx e st rest Hbl). cbn [szb]. rewrite Hbl. rewrite app_length. cbn [List.length].
      pose proof (proj1 sizes _ _ _ Hso 0). lia.
  Qed.

  Lemma signatures_nofunc : forall toks pv s, Forall (fun t => ttype t <> T_FUNC) toks -> signatures B pv toks s = Ok tt s.
  Proof.
    induction toks as [|t r IH]; intros pv s H; [reflexivity|]. inversion H; subst. cbn [signatures].
    destruct (ttype t) eqn:E; try apply IH; try assumption. contradiction.
  Qed.

  Lemma map_fst_combine {X Y} : forall (a : list X) (b : list Y), List.length b = List.length a -> map fst (combine a b) = a.
  Proof. induction a as [|x a IH]; intros [|y b] H; try reflexivity; try discriminate H. cbn [combine map fst]. f_equal. apply IH. injection H as H. exact H. Qed.

  Lemma filter_all {X} (f : X -> bool) l : Forall (fun x => f x = true) l -> filter f l = l.
  Proof. induction 1 as [|x l Hx _ IH]; [reflexivity|]. cbn [filter]. rewrite Hx, IH. reflexivity. Qed.
  Lemma filter_none {X} (f : X -> bool) l : Forall (fun x => f x = false) l -> filter f l = [].
  Proof. induction 1 as [|x l Hx _ IH]; [reflexivity|]. cbn [filter]. rewrite Hx. exact IH. Qed.

  Theorem parse_roundtrip p Gout poss eof :
    poks B F G0 false p Gout -> frame_used Gout ->
    List.length poss = List.length (body_toks fx 0 false p) ->
    parse B (combine (body_toks fx 0 false p) poss) eof = Accept (body_trees false p).
  Proof.
    intros Hp Hu Hlen. pose proof (poks_plain fx B F G0 false p Gout Hp) as Hlex. unfold plain_tok in Hlex. set (toks := body_toks fx 0 false p) in *. set (raw := combine toks poss).
    assert (Hill : Forall (fun tp : token * position => is_illegal (fst tp) = false) raw).
    { apply Forall_forall. intros [t q] Hin. apply in_combine_l in Hin. cbn [fst].
      rewrite Forall_forall in Hlex. destruct (Hlex t Hin) as [H _]. unfold is_illegal. destruct (ttype t); try reflexivity. contradiction. }
    assert (F1 : filter (fun tp : token * position => is_illegal (fst tp)) raw = []) by (apply filter_none; exact Hill).
    assert (F2 : filter (fun tp : token * position => negb (is_illegal (fst tp))) raw = raw).
    { apply filter_all. eapply Forall_impl; [|exact Hill]. cbv beta. intros a Ha. rewrite Ha. reflexivity. }
    assert (Hm : map fst raw = toks) by (apply map_fst_combine; exact Hlen).
    unfold parse. cbv zeta. rewrite F1, F2, Hm.
    rewrite signatures_nofunc; [|eapply Forall_impl; [|exact Hlex]; cbv beta; intros a Ha; exact (proj2 Ha)].
    cbn [cs errs state_at rev map app fns].
    set (s2 := {| cs := state_at tEOF toks []; scs := _; fns := _; bodies := []; hds := [] |}).
    assert (HST : ST F s2 (skip1 toks) G0 top_fr).
    { unfold toks. rewrite (prog_skip1 p G0 false Gout Hp). fold toks.
      split; [repeat split|]. split; [reflexivity|]. split; [discriminate|]. split; [reflexivity|].
      split; [unfold abs, G0, s2, absf; cbn [scs map sc_vars]; rewrite map_map; reflexivity|]. split; reflexivity. }
    assert (Hfu : szb false p < fuel_of toks).
    { pose proof (poks_size _ _ _ _ Hp). fold toks in H. unfold fuel_of. lia. }
    destruct (program_loop_roundtrip B BT fx F G0 false p Gout Hp (fuel_of toks) [] s2 Hfu HST) as (s3 & P & HST3).
    rewrite P. cbn [rev app].
    pose proof HST3 as ((_ & _ & E3) & _ & _ & _ & A3 & _).
    rewrite (validate_scope_id s3); [|rewrite A3; exact Hu]. rewrite E3. reflexivity.
  Qed.

  (* ---------- formatProgram writes the statement list like a block at indentation 0 when there is
     no func / on (nlAfter inserts blank lines only around those) ---------- *)
  Definition plain_kind (k : skind) : Prop := k = KEmpty \/ k = KStmt.

  Lemma accs_plain : forall ks last i, Forall plain_kind ks -> Forall (fun a => plain_kind (fst a)) (new_accumulations_loop last i ks).
  Proof.
    induction ks as [|k r IH]; intros last i H; [constructor|]. inversion H; subst. cbn [new_accumulations_loop].
    destruct (negb _ || skind_eqb k KFunc); [constructor; [assumption|]|]; apply IH; assumption.
  Qed.

  Lemma nl_loop_plain fixed : forall accs, Forall (fun a => plain_kind (fst a)) accs -> nl_after_loop fixed accs = [].
  Proof.
    induction accs as [|a accs IH]; intro H; [reflexivity|]. inversion H as [|? ? Ha Hr]; subst.
    destruct accs as [|b rest]; [reflexivity|].
    change (nl_after_loop fixed (a :: b :: rest)) with
      ((match fst a with
        | KEmpty | KComment => []
        | _ => if skind_eqb (fst a) KFunc && skind_eqb (fst b) KStmt then [snd a]
               else if skind_eqb (fst b) KFunc then [(snd b - 1)%nat]
               else if skind_eqb (fst b) KComment && match rest with c :: _ => skind_eqb (fst c) KFunc | [] => false end
                    then [if fixed then (snd b - 1)%nat else snd a]
               else []
        end) ++ nl_after_loop fixed (b :: rest)).
    rewrite (IH Hr). rewrite app_nil_r.
    inversion Hr as [|? ? Hb Hr2]; subst.
    destruct Ha as [Ea|Ea]; rewrite Ea; [reflexivity|]. destruct Hb as [Eb|Eb]; rewrite Eb; reflexivity.
  Qed.

  Lemma nl_after_plain fixed ks : Forall plain_kind ks -> nl_after fixed ks = [].
  Proof. intro H. unfold nl_after, new_accumulations. apply nl_loop_plain, accs_plain, H. Qed.

  Lemma prog_loop_plain : forall l i e,
    prog_loop fx [] i e l = stmts_loop 0 e (map (fun x => (is_blank x, fmt_stmt fx 0 x)) l).
  Proof.
    induction l as [|x l IH]; intros i e; [reflexivity|]. cbn [prog_loop map stmts_loop mem_nat].
    destruct (is_blank x); rewrite IH; reflexivity.
  Qed.

  Lemma poks_kinds : forall G e body Gout, poks B F G e body Gout -> Forall plain_kind (map stmt_kind body).
  Proof.
    induction 1 as [G e | G e rest Gout Hp IH | G e st rest G' Gout Hbl Hso Hat Hsc Hp IH]; cbn [map]; constructor; try assumption.
    - left. reflexivity.
    - right. destruct Hso; reflexivity.
  Qed.

  Lemma fmt_prog_toks p G Gout : p <> [] -> poks B F G false p Gout ->
    toks_of_pieces (fmt_prog fx p) = body_toks fx 0 false p.
  Proof.
    intros Hne Hp. unfold fmt_prog. destruct p as [|x r]; [contradiction|].
    rewrite (nl_after_plain _ _ (poks_kinds _ _ _ _ Hp)). rewrite prog_loop_plain. reflexivity.
  Qed.

  (* the program theorem *)
  Theorem program_roundtrip p Gout poss eof :
    p <> [] -> poks B F G0 false p Gout -> frame_used Gout ->
    List.length poss = List.length (toks_of_pieces (fmt_prog fx p)) ->
    parse B (combine (toks_of_pieces (fmt_prog fx p)) poss) eof = Accept (body_trees false p).
  Proof.
    intros Hne Hp Hu. rewrite (fmt_prog_toks p G0 Gout Hne Hp). apply (parse_roundtrip p Gout); assumption.
  Qed.
End Prog.
