(* SemScope.v — C10: lexical scoping and structured control flow of the
   evaluator model Sem.v.  Proofs only; Sem.v is not modified. *)
From Coq Require Import ZArith NArith List String Bool Floats FMapPositive Lia.
From EvyV Require Import Base Num Ast Omap OmapProofs Sem SemPure.
Import ListNotations.

(* ====================================================================== *)
(* 0. Generic reasoning about the state monad                             *)
(* ====================================================================== *)

(* state-independent partial-correctness postcondition *)
Definition post {A} (m : M A) (Q : A -> Prop) : Prop :=
  forall s a s', m s = (Ok a, s') -> Q a.

Lemma post_ret {A} (a : A) (Q : A -> Prop) : Q a -> post (ret a) Q.
Proof. intros H s a' s' E. unfold ret in E. inversion E; subst; exact H. Qed.

Lemma post_fail {A} e (Q : A -> Prop) : post (fail e) Q.
Proof. intros s a s' E. unfold fail in E. discriminate. Qed.

Lemma post_crash {A} w (Q : A -> Prop) : post (@crash A w) Q.
Proof. apply post_fail. Qed.

Lemma post_internal {A} w (Q : A -> Prop) : post (@internal A w) Q.
Proof. apply post_fail. Qed.

Lemma post_bind {A B} (m : M A) (f : A -> M B) (R : A -> Prop) (Q : B -> Prop) :
  post m R -> (forall a, R a -> post (f a) Q) -> post (bindM m f) Q.
Proof.
  intros Hm Hf s b s' E. unfold bindM in E.
  destruct (m s) as [[a|er] s1] eqn:Em; [|discriminate].
  exact (Hf a (Hm _ _ _ Em) _ _ _ E).
Qed.

Lemma post_bind_any {A B} (m : M A) (f : A -> M B) (Q : B -> Prop) :
  (forall a, post (f a) Q) -> post (bindM m f) Q.
Proof. intro H. apply post_bind with (R := fun _ => True); [intros ? ? ? ?; exact I | intros a _; apply H]. Qed.

Lemma post_weaken {A} (m : M A) (Q R : A -> Prop) : post m Q -> (forall a, Q a -> R a) -> post m R.
Proof. intros H HQ s a s' E. apply HQ. exact (H _ _ _ E). Qed.

(* named float constants, so that property files need not import Floats *)
Definition f_zero : float := 0%float.
Definition f_one : float := 1%float.

(* ====================================================================== *)
(* 1. Scopes                                                              *)
(* ====================================================================== *)

Definition names (f : frame) : list str := map fst f.
Definition shape (e : env) : list (list str) := map names e.

(* [ext e e']: same depth, outer frames have the same names, the innermost
   frame of e' has the names of the innermost frame of e preceded by newly
   declared ones (same relative order). *)
Definition ext (e e' : env) : Prop :=
  match e, e' with
  | [], [] => True
  | f :: t, f' :: t' => (exists added, names f' = added ++ names f) /\ shape t' = shape t
  | _, _ => False
  end.

Lemma ext_refl e : ext e e.
Proof. destruct e; simpl; [exact I|]. split; [exists []; reflexivity | reflexivity]. Qed.

Lemma ext_trans e1 e2 e3 : ext e1 e2 -> ext e2 e3 -> ext e1 e3.
Proof.
  destruct e1, e2, e3; simpl; try tauto.
  intros [[a1 H1] S1] [[a2 H2] S2]. split; [|congruence].
  exists (a2 ++ a1). rewrite H2, H1, app_assoc. reflexivity.
Qed.

Lemma shape_ext e e' : shape e' = shape e -> ext e e'.
Proof.
  destruct e, e'; simpl; try discriminate; [tauto|].
  intro H. inversion H. split; [exists []; simpl; congruence | unfold shape; congruence].
Qed.

Lemma ext_length e e' : ext e e' -> List.length e' = List.length e.
Proof.
  destruct e, e'; simpl; try tauto. intros [_ H].
  f_equal. unfold shape in H. apply (f_equal (@List.length _)) in H. rewrite !map_length in H. exact H.
Qed.

Lemma ext_tl_shape e e' : ext e e' -> shape (tl e') = shape (tl e).
Proof. destruct e, e'; simpl; tauto. Qed.

(* popping the block frame pushed over e *)
Lemma ext_push_pop e e2 : ext ([] :: e) e2 -> shape (tl e2) = shape e.
Proof. intro H. apply ext_tl_shape in H. exact H. Qed.

Lemma frame_replace_names n l f : names (frame_replace n l f) = names f.
Proof.
  induction f as [|[k l'] t IH]; simpl; [reflexivity|].
  destruct (str_eqb k n); simpl; [reflexivity | f_equal; exact IH].
Qed.

Lemma frame_set_names n l f :
  names (frame_set n l f) = names f \/ names (frame_set n l f) = n :: names f.
Proof.
  unfold frame_set. destruct (frame_get n f); [left; apply frame_replace_names | right; reflexivity].
Qed.

Lemma env_update_shape n l e e' : env_update n l e = Some e' -> shape e' = shape e.
Proof.
  revert e'; induction e as [|f t IH]; simpl; intros e' H; [discriminate|].
  destruct (frame_get n f).
  - inversion H; subst. simpl. f_equal. apply frame_replace_names.
  - destruct (env_update n l t) as [t'|]; simpl in H; [|discriminate].
    inversion H; subst. simpl. f_equal. apply IH. reflexivity.
Qed.

Lemma post_set_var n l e : post (set_var n l e) (fun e' => ext e e' /\ tl e' = tl e).
Proof.
  intros s e' s' H. unfold set_var in H.
  destruct (str_eqb n underscore); [inversion H; subst; split; [apply ext_refl|reflexivity]|].
  destruct e as [|f t]; inversion H; subst; simpl; [tauto|].
  split; [|reflexivity]. split; [|reflexivity].
  destruct (frame_set_names n l f) as [E|E]; rewrite E; [exists [] | exists [n]]; reflexivity.
Qed.

Lemma post_update_var n l e : post (update_var n l e) (fun e' => shape e' = shape e).
Proof.
  intros s e' s' H. unfold update_var in H.
  destruct (str_eqb n underscore); [inversion H; subst; reflexivity|].
  destruct (env_update n l e) eqn:E.
  - inversion H; subst. eapply env_update_shape; eassumption.
  - destruct (frame_get n (st_globals s)); inversion H; subst; reflexivity.
Qed.

(* ====================================================================== *)
(* 2. Reformulation of the local fixpoints of Sem.v as named functions     *)
(*    (each proved equal to the original by [reflexivity])                 *)
(* ====================================================================== *)

Section IfGo.
  Variables (f : nat) (P : program) (els : option (list stmt)).
  Fixpoint if_go (cs : list (expr * list stmt)) (e : env) : M (signal * env) :=
    match cs with
    | [] =>
        match els with
        | Some body =>
            let* (sig, e1) := exec_block f P ([] :: e) body in
            ret (sig, tl e1)
        | None => ret (SigNone, e)
        end
    | (c, body) :: t =>
        let* (r, e1) := exec_cond f P e c body in
        match r with
        | Some sig => ret (sig, e1)
        | None => if_go t e1
        end
    end.
End IfGo.

Lemma exec_stmt_if f P e conds els :
  exec_stmt (S f) P e (SIf conds els) = (let* _ := tick in if_go f P els conds e).
Proof. reflexivity. Qed.

Definition range_num (f : nat) (P : program) (e1 : env) (o : option expr) (dflt : float) : M float :=
  let* l := eval_expr f P e1 (match o with Some y => y | None => ENum dflt end) in
  let* v := load l in
  match v with HNum y => ret y | _ => internal "expected number" end.

Definition bind_loopvar (var : option str) (z : M loc) (e1 : env) : M env :=
  match var with
  | Some v => let* l := z in set_var v l e1
  | None => ret e1
  end.

(* newRange / newStepRange: the only place where the range expressions are evaluated *)
Definition for_init (f : nat) (P : program) (e1 : env) (var : option str) (vt : ty) (r : range)
  : M (ranger * env) :=
  match r with
  | RStep start stop step =>
      let* a := range_num f P e1 start 0%float in
      let* b := range_num f P e1 (Some stop) 0%float in
      let* c := range_num f P e1 step 1%float in
      if PrimFloat.eqb c 0 then fail (EPanic PkRangeValue)
      else
        let* e2 := bind_loopvar var (alloc (HNum 0%float)) e1 in
        ret (RgStep a b c, e2)
  | RExpr y =>
      let* l := eval_expr f P e1 y in
      let* v := load l in
      match v with
      | HArr _ => let* e2 := bind_loopvar var (zero_val vt) e1 in ret (RgArr l 0%nat, e2)
      | HStr s => let* e2 := bind_loopvar var (alloc (HStr [])) e1 in ret (RgStr s 0%nat, e2)
      | HMap om => let* e2 := bind_loopvar var (alloc (HStr [])) e1 in ret (RgMap l (order om), e2)
      | _ => internal "bad range type"
      end
  end.

Definition loopvar_name (var : option str) : str := match var with Some v => v | None => underscore end.

Lemma exec_stmt_for f P e var vt r body :
  exec_stmt (S f) P e (SFor var vt r body) =
  (let* _ := tick in
   let* (rg, e2) := for_init f P ([] :: e) var vt r in
   let* (sig, e3) := exec_for f P e2 (loopvar_name var) rg body in
   ret (sig, tl e3)).
Proof. destruct r; reflexivity. Qed.

Section MapNext.
  Variables (m : loc) (om : omap loc).
  Fixpoint map_next (ks : list str) : M (option (loc * ranger)) :=
    match ks with
    | [] => ret None
    | k :: t => if ohas k om then let* l := alloc (HStr k) in ret (Some (l, RgMap m t))
                else map_next t
    end.
End MapNext.

(* ranger.next *)
Definition step_done (cur stop step : float) : bool :=
  (PrimFloat.ltb 0 step && PrimFloat.leb stop cur) || (PrimFloat.ltb step 0 && PrimFloat.leb cur stop).

Definition for_next (rg : ranger) : M (option (loc * ranger)) :=
  match rg with
  | RgStep cur stop step =>
      if step_done cur stop step then ret None
      else let* l := alloc (HNum cur) in ret (Some (l, RgStep (cur + step)%float stop step))
  | RgArr a cur =>
      let* v := load a in
      match v with
      | HArr els => match nth_error els cur with
                    | Some l => ret (Some (l, RgArr a (S cur)))
                    | None => ret None end
      | _ => crash "range over non-array"
      end
  | RgStr s cur =>
      match nth_error s cur with
      | Some c => let* l := alloc (HStr [c]) in ret (Some (l, RgStr s (S cur)))
      | None => ret None
      end
  | RgMap m todo =>
      let* v := load m in
      match v with
      | HMap om => map_next m om todo
      | _ => crash "range over non-map"
      end
  end.

Definition for_iter (f : nat) (P : program) (e : env) (var : str) (body : list stmt)
           (nx : option (loc * ranger)) : M (signal * env) :=
  match nx with
  | None => ret (SigNone, e)
  | Some (l, rg') =>
      let* e1 := update_var var l e in
      (* every iteration runs the body in a scope of its own *)
      let* (sig, e2') := exec_block f P ([] :: e1) body in
      let e2 := tl e2' in
      match sig with
      | SigBreak => ret (SigNone, e2)
      | SigReturn v => ret (SigReturn v, e2)
      | SigNone => exec_for f P e2 var rg' body
      end
  end.

Lemma exec_for_unfold f P e var rg body :
  exec_for (S f) P e var rg body = (let* nx := for_next rg in for_iter f P e var body nx).
Proof. destruct rg; reflexivity. Qed.

Lemma exec_block_unfold f P e l :
  exec_block (S f) P e l = (let* _ := tick in exec_stmts f P e l).
Proof. reflexivity. Qed.

Lemma exec_stmts_nil f P e : exec_stmts (S f) P e [] = ret (SigNone, e).
Proof. reflexivity. Qed.

Lemma exec_stmts_cons f P e s t :
  exec_stmts (S f) P e (s :: t) =
  (let* (sig, e1) := exec_stmt f P e s in
   if is_ctl sig then ret (sig, e1) else exec_stmts f P e1 t).
Proof. reflexivity. Qed.

Lemma exec_cond_unfold f P e c body :
  exec_cond (S f) P e c body =
  (let* l := eval_expr f P ([] :: e) c in
   let* v := load l in
   match v with
   | HBool true => let* (sig, e2) := exec_block f P ([] :: e) body in ret (Some sig, tl e2)
   | HBool false => ret (None, e)
   | _ => internal "conditional not a bool"
   end).
Proof. reflexivity. Qed.

(* C10 item 4 *)
Lemma while_unfold f P e c body :
  exec_while (S f) P e c body =
  (let* (r, e1) := exec_cond f P e c body in
   match r with
   | None => ret (SigNone, e1)
   | Some SigBreak => ret (SigNone, e1)
   | Some (SigReturn v) => ret (SigReturn v, e1)
   | Some SigNone => exec_while f P e1 c body
   end).
Proof. reflexivity. Qed.

(* ====================================================================== *)
(* 3. C10 item 1: blocks restore the scope                                 *)
(* ====================================================================== *)

Definition is_decl (s : stmt) : bool := match s with SDecl _ _ _ => true | _ => false end.

Ltac mstep :=
  match goal with
  | |- post (ret _) _ => apply post_ret
  | |- post (fail _) _ => apply post_fail
  | |- post (crash _) _ => apply post_crash
  | |- post (internal _) _ => apply post_internal
  | |- post (bindM _ _) _ => apply post_bind_any; intro
  | |- post (match ?x with _ => _ end) _ => destruct x
  | |- post (if ?x then _ else _) _ => destruct x
  | |- post (let (_, _) := ?x in _) _ => destruct x
  end.

Definition scope_inv (n : nat) : Prop :=
  (forall P e s, post (exec_stmt n P e s)
     (fun r => ext e (snd r) /\ (is_decl s = false -> shape (snd r) = shape e) /\
               (is_decl s = true -> tl (snd r) = tl e))) /\
  (forall P e l, post (exec_stmts n P e l) (fun r => ext e (snd r))) /\
  (forall P e l, post (exec_block n P e l) (fun r => ext e (snd r))) /\
  (forall P e c body, post (exec_cond n P e c body) (fun r => shape (snd r) = shape e)) /\
  (forall P e c body, post (exec_while n P e c body) (fun r => shape (snd r) = shape e)) /\
  (forall P e var rg body, post (exec_for n P e var rg body) (fun r => shape (snd r) = shape e)).

Lemma same_all e e' (b : bool) :
  e' = e -> ext e e' /\ (b = false -> shape e' = shape e) /\ (b = true -> tl e' = tl e).
Proof. intros ->. split; [apply ext_refl | split; reflexivity]. Qed.

Lemma shape_all e e' (b : bool) :
  b = false -> shape e' = shape e ->
  ext e e' /\ (b = false -> shape e' = shape e) /\ (b = true -> tl e' = tl e).
Proof. intros D H. split; [apply shape_ext; exact H | split; [intro; exact H | congruence]]. Qed.

Lemma if_go_shape f P els :
  (forall e l, post (exec_block f P e l) (fun r => ext e (snd r))) ->
  (forall e c body, post (exec_cond f P e c body) (fun r => shape (snd r) = shape e)) ->
  forall cs e, post (if_go f P els cs e) (fun r => shape (snd r) = shape e).
Proof.
  intros HB HC cs. induction cs as [|[c body] t IH]; intro e; simpl.
  - destruct els as [body|]; [|apply post_ret; reflexivity].
    eapply post_bind; [apply HB|]. intros [sig e1] H; simpl in *.
    apply post_ret; simpl. apply ext_push_pop; exact H.
  - eapply post_bind; [apply HC|]. intros [r e1] H; simpl in *.
    destruct r; [apply post_ret; exact H|].
    eapply post_weaken; [apply IH|]. intros rr Ha; simpl in *. congruence.
Qed.

Lemma bind_loopvar_ext var z e1 : post (bind_loopvar var z e1) (fun e2 => ext e1 e2).
Proof.
  destruct var; simpl; [|apply post_ret; apply ext_refl].
  apply post_bind_any; intro l. eapply post_weaken; [apply post_set_var|]. intros a [H _]; exact H.
Qed.

Lemma for_init_ext f P e1 var vt r : post (for_init f P e1 var vt r) (fun p => ext e1 (snd p)).
Proof.
  destruct r; simpl.
  - do 3 (apply post_bind_any; intro). mstep; [mstep|].
    eapply post_bind; [apply bind_loopvar_ext|]. intros; apply post_ret; assumption.
  - do 2 (apply post_bind_any; intro). mstep; try apply post_internal;
      (eapply post_bind; [apply bind_loopvar_ext|]; intros; apply post_ret; assumption).
Qed.

Theorem scope_inv_all : forall n, scope_inv n.
Proof.
  induction n as [|f IH].
  { unfold scope_inv; repeat apply conj; intros; apply post_fail. }
  destruct IH as (Hs & Hss & Hb & Hc & Hw & Hf).
  unfold scope_inv; repeat apply conj.
  - (* exec_stmt *)
    intros P e s. destruct s.
    + (* SDecl *) simpl. do 4 (apply post_bind_any; intro).
      eapply post_bind; [apply post_set_var|]. intros e' [H1 H2].
      apply post_ret; simpl. repeat split; [exact H1 | discriminate | intros _; exact H2].
    + (* SAssign *) simpl. do 4 (apply post_bind_any; intro).
      destruct target; try (apply post_internal).
      * eapply post_bind; [apply post_update_var|]. intros e' H.
        apply post_ret; simpl. apply shape_all; [reflexivity | exact H].
      * repeat mstep; simpl; apply same_all; reflexivity.
      * repeat mstep; simpl; apply same_all; reflexivity.
    + (* SCallStmt *) simpl. repeat mstep. simpl. apply same_all; reflexivity.
    + (* SReturn *) simpl. apply post_bind_any; intro. destruct e0; repeat mstep; simpl; apply same_all; reflexivity.
    + (* SBreak *) simpl. repeat mstep; simpl; apply same_all; reflexivity.
    + (* SIf *) rewrite exec_stmt_if. apply post_bind_any; intro.
      eapply post_weaken; [apply if_go_shape; [apply Hb | apply Hc]|].
      intros rr Ha; simpl in *. apply shape_all; [reflexivity | exact Ha].
    + (* SWhile *) simpl. apply post_bind_any; intro.
      eapply post_weaken; [apply Hw|]. intros rr Ha; simpl in *. apply shape_all; [reflexivity | exact Ha].
    + (* SFor *) rewrite exec_stmt_for. apply post_bind_any; intro.
      eapply post_bind; [apply for_init_ext|]. intros [rg e2] H2; simpl in H2.
      eapply post_bind; [apply Hf|]. intros [sig e3] H3; simpl in H3.
      apply post_ret; simpl. apply shape_all; [reflexivity|].
      apply ext_push_pop. eapply ext_trans; [exact H2 | apply shape_ext; exact H3].
    + (* SNop *) simpl. repeat mstep; simpl; apply same_all; reflexivity.
  - (* exec_stmts *)
    intros P e l. destruct l as [|s t]; [rewrite exec_stmts_nil; apply post_ret; apply ext_refl|].
    rewrite exec_stmts_cons. eapply post_bind; [apply Hs|]. intros [sig e1] (H1 & _); simpl in H1.
    destruct (is_ctl sig); [apply post_ret; exact H1|].
    eapply post_weaken; [apply Hss|]. intros rr Ha; simpl in *. eapply ext_trans; eassumption.
  - (* exec_block *)
    intros P e l. rewrite exec_block_unfold. apply post_bind_any; intro. apply Hss.
  - (* exec_cond *)
    intros P e c body. rewrite exec_cond_unfold. do 2 (apply post_bind_any; intro).
    destruct a0; try apply post_internal. destruct b; [|apply post_ret; reflexivity].
    eapply post_bind; [apply Hb|]. intros [sig e2] H; simpl in H.
    apply post_ret; simpl. apply ext_push_pop; exact H.
  - (* exec_while *)
    intros P e c body. rewrite while_unfold.
    eapply post_bind; [apply Hc|]. intros [r e1] H; simpl in H.
    destruct r as [[| |v]|]; try (apply post_ret; exact H).
    eapply post_weaken; [apply Hw|]. intros rr Ha; simpl in *; congruence.
  - (* exec_for *)
    intros P e var rg body. rewrite exec_for_unfold. apply post_bind_any; intros [[l rg']|]; simpl;
      [|apply post_ret; reflexivity].
    eapply post_bind; [apply post_update_var|]. intros e1 H1.
    eapply post_bind; [apply Hb|]. intros [sig e2] H2; cbn [snd] in H2.
    assert (E : shape (tl e2) = shape e) by (rewrite (ext_push_pop _ _ H2); exact H1).
    destruct sig; try (apply post_ret; exact E).
    eapply post_weaken; [apply Hf|]. intros rr Ha; simpl in *. congruence.
Qed.

(* the statement of item 1 in direct form *)
Theorem block_restores_scope n P e s st sig e' st' :
  exec_stmt n P e s st = (Ok (sig, e'), st') ->
  List.length e' = List.length e /\
  shape (tl e') = shape (tl e) /\
  (exists added, names (hd [] e') = added ++ names (hd [] e)) /\
  (is_decl s = false -> shape e' = shape e) /\
  (is_decl s = true -> tl e' = tl e).
Proof.
  intro H. destruct (scope_inv_all n) as (Hs & _). apply Hs in H. simpl in H.
  destruct H as (X & Y & Z). repeat split; try assumption.
  - apply ext_length; exact X.
  - apply ext_tl_shape; exact X.
  - destruct e, e'; simpl in *; try tauto. exists []; reflexivity.
Qed.

Theorem stmts_extend_scope n P e l st sig e' st' :
  exec_stmts n P e l st = (Ok (sig, e'), st') -> ext e e'.
Proof. intro H. destruct (scope_inv_all n) as (_ & Hss & _). apply Hss in H. exact H. Qed.

(* a block body run in a fresh frame over e: after popping, e has its shape back *)
Theorem block_pop_restores n P e body st sig e2 st' :
  exec_block n P ([] :: e) body st = (Ok (sig, e2), st') ->
  shape (tl e2) = shape e /\ List.length e2 = S (List.length e).
Proof.
  intro H. destruct (scope_inv_all n) as (_ & _ & Hb & _). apply Hb in H. cbn [snd] in H.
  split; [apply ext_push_pop; exact H | apply ext_length in H; exact H].
Qed.

Theorem cond_restores_scope n P e c body st r e' st' :
  exec_cond n P e c body st = (Ok (r, e'), st') -> shape e' = shape e.
Proof. intro H. destruct (scope_inv_all n) as (_ & _ & _ & Hc & _). apply Hc in H. exact H. Qed.

Theorem while_restores_scope n P e c body st sig e' st' :
  exec_while n P e c body st = (Ok (sig, e'), st') -> shape e' = shape e.
Proof. intro H. destruct (scope_inv_all n) as (_ & _ & _ & _ & Hw & _). apply Hw in H. exact H. Qed.

Theorem for_restores_scope n P e var rg body st sig e' st' :
  exec_for n P e var rg body st = (Ok (sig, e'), st') -> shape e' = shape e.
Proof. intro H. destruct (scope_inv_all n) as (_ & _ & _ & _ & _ & Hf). apply Hf in H. exact H. Qed.

(* top level: no local frame; declarations go to the globals *)
Theorem toplevel_env_stays_empty n P l st sig e' st' :
  exec_stmts n P [] l st = (Ok (sig, e'), st') -> e' = [].
Proof. intro H. apply stmts_extend_scope in H. destruct e'; simpl in H; [reflexivity | contradiction]. Qed.

(* ====================================================================== *)
(* 4. C10 item 3: break / return signalling                                *)
(* ====================================================================== *)

Lemma bindM_ok {A B} (m : M A) (f : A -> M B) s a s1 : m s = (Ok a, s1) -> bindM m f s = f a s1.
Proof. intro H. unfold bindM. rewrite H. reflexivity. Qed.

Lemma bindM_er {A B} (m : M A) (f : A -> M B) s x s1 : m s = (Er x, s1) -> bindM m f s = (Er x, s1).
Proof. intro H. unfold bindM. rewrite H. reflexivity. Qed.

Lemma bindM_inv {A B} (m : M A) (f : A -> M B) s b s' :
  bindM m f s = (Ok b, s') -> exists a s1, m s = (Ok a, s1) /\ f a s1 = (Ok b, s').
Proof.
  unfold bindM. destruct (m s) as [[a|x] s1]; [|discriminate]. intro H. exists a, s1. split; [reflexivity | exact H].
Qed.

(* --- evalStatments stops at the first statement that signals --- *)
Lemma stmts_signal_stops f P e s t st sig e1 st1 :
  exec_stmt f P e s st = (Ok (sig, e1), st1) -> is_ctl sig = true ->
  exec_stmts (S f) P e (s :: t) st = (Ok (sig, e1), st1).
Proof. intros H C. rewrite exec_stmts_cons. rewrite (bindM_ok _ _ _ _ _ H). rewrite C. reflexivity. Qed.

Lemma stmts_no_signal_continues f P e s t st e1 st1 :
  exec_stmt f P e s st = (Ok (SigNone, e1), st1) ->
  exec_stmts (S f) P e (s :: t) st = exec_stmts f P e1 t st1.
Proof. intros H. rewrite exec_stmts_cons. rewrite (bindM_ok _ _ _ _ _ H). reflexivity. Qed.

Inductive stmts_run (P : program) : env -> state -> list stmt -> signal -> env -> state -> Prop :=
| sr_nil e st : stmts_run P e st [] SigNone e st
| sr_ctl k e st s t sig e1 st1 :
    exec_stmt k P e s st = (Ok (sig, e1), st1) -> is_ctl sig = true ->
    stmts_run P e st (s :: t) sig e1 st1           (* [t] is not executed *)
| sr_next k e st s t e1 st1 sig e' st' :
    exec_stmt k P e s st = (Ok (SigNone, e1), st1) ->
    stmts_run P e1 st1 t sig e' st' ->
    stmts_run P e st (s :: t) sig e' st'.

Theorem stmts_stop_at_first_signal n P e l st sig e' st' :
  exec_stmts n P e l st = (Ok (sig, e'), st') -> stmts_run P e st l sig e' st'.
Proof.
  revert e l st. induction n as [|f IH]; intros e l st H; [discriminate|].
  destruct l as [|s t].
  - rewrite exec_stmts_nil in H. inversion H; subst. constructor.
  - rewrite exec_stmts_cons in H. apply bindM_inv in H as ([sg e1] & st1 & H1 & H2).
    destruct sg; simpl in H2.
    + eapply sr_next; [exact H1 | apply IH; exact H2].
    + inversion H2; subst. eapply sr_ctl; [exact H1 | reflexivity].
    + inversion H2; subst. eapply sr_ctl; [exact H1 | reflexivity].
Qed.

(* the statements after the signalling one are irrelevant *)
Corollary stmts_after_signal_irrelevant f P e s t t' st sig e1 st1 :
  exec_stmt f P e s st = (Ok (sig, e1), st1) -> is_ctl sig = true ->
  exec_stmts (S f) P e (s :: t) st = exec_stmts (S f) P e (s :: t') st.
Proof. intros H C. rewrite !(stmts_signal_stops _ _ _ _ _ _ _ _ _ H C). reflexivity. Qed.

(* --- blocks and if pass every signal through unchanged --- *)
Lemma block_passes_signal f P e l st st0 sig e' st' :
  tick st = (Ok tt, st0) -> exec_stmts f P e l st0 = (Ok (sig, e'), st') ->
  exec_block (S f) P e l st = (Ok (sig, e'), st').
Proof. intros T H. rewrite exec_block_unfold, (bindM_ok _ _ _ _ _ T). exact H. Qed.

Lemma block_signal_inv n P e l st sig e' st' :
  exec_block n P e l st = (Ok (sig, e'), st') ->
  exists st0, stmts_run P e st0 l sig e' st'.
Proof.
  destruct n as [|f]; [discriminate|]. rewrite exec_block_unfold. intro H.
  apply bindM_inv in H as (u & st0 & _ & H). exists st0. eapply stmts_stop_at_first_signal; exact H.
Qed.

Lemma cond_passes_signal f P e c body st l st1 st2 sig e2 st' :
  eval_expr f P ([] :: e) c st = (Ok l, st1) -> load l st1 = (Ok (HBool true), st2) ->
  exec_block f P ([] :: e) body st2 = (Ok (sig, e2), st') ->
  exec_cond (S f) P e c body st = (Ok (Some sig, tl e2), st').
Proof.
  intros H1 H2 H3. rewrite exec_cond_unfold, (bindM_ok _ _ _ _ _ H1), (bindM_ok _ _ _ _ _ H2), (bindM_ok _ _ _ _ _ H3).
  reflexivity.
Qed.

Lemma cond_false_skips f P e c body st l st1 st2 :
  eval_expr f P ([] :: e) c st = (Ok l, st1) -> load l st1 = (Ok (HBool false), st2) ->
  exec_cond (S f) P e c body st = (Ok (None, e), st2).
Proof. intros H1 H2. rewrite exec_cond_unfold, (bindM_ok _ _ _ _ _ H1), (bindM_ok _ _ _ _ _ H2). reflexivity. Qed.

Lemma cond_signal_inv n P e c body st sig e' st' :
  exec_cond n P e c body st = (Ok (Some sig, e'), st') ->
  exists k st0 e2, exec_block k P ([] :: e) body st0 = (Ok (sig, e2), st') /\ e' = tl e2.
Proof.
  destruct n as [|f]; [discriminate|]. rewrite exec_cond_unfold. intro H.
  apply bindM_inv in H as (l & st1 & _ & H). apply bindM_inv in H as (v & st2 & _ & H).
  destruct v; try discriminate. destruct b; [|discriminate].
  apply bindM_inv in H as ([sg e2] & st3 & H3 & H). inversion H; subst.
  exists f, st2, e2. split; [exact H3 | reflexivity].
Qed.

Lemma cond_none_inv n P e c body st e' st' :
  exec_cond n P e c body st = (Ok (None, e'), st') -> e' = e.
Proof.
  destruct n as [|f]; [discriminate|]. rewrite exec_cond_unfold. intro H.
  apply bindM_inv in H as (l & st1 & _ & H). apply bindM_inv in H as (v & st2 & _ & H).
  destruct v; try discriminate. destruct b.
  - apply bindM_inv in H as ([sg e2] & st3 & H3 & H). discriminate.
  - inversion H; reflexivity.
Qed.

Lemma if_go_taken f P els c body t e st sig e1 st1 :
  exec_cond f P e c body st = (Ok (Some sig, e1), st1) ->
  if_go f P els ((c, body) :: t) e st = (Ok (sig, e1), st1).
Proof. intro H. simpl. rewrite (bindM_ok _ _ _ _ _ H). reflexivity. Qed.

Lemma if_go_not_taken f P els c body t e st e1 st1 :
  exec_cond f P e c body st = (Ok (None, e1), st1) ->
  if_go f P els ((c, body) :: t) e st = if_go f P els t e1 st1.
Proof. intro H. simpl. rewrite (bindM_ok _ _ _ _ _ H). reflexivity. Qed.

Lemma if_go_else f P body e st sig e1 st1 :
  exec_block f P ([] :: e) body st = (Ok (sig, e1), st1) ->
  if_go f P (Some body) [] e st = (Ok (sig, tl e1), st1).
Proof. intro H. simpl. rewrite (bindM_ok _ _ _ _ _ H). reflexivity. Qed.

Lemma if_go_no_else f P e st : if_go f P None [] e st = (Ok (SigNone, e), st).
Proof. reflexivity. Qed.

Definition if_bodies (conds : list (expr * list stmt)) (els : option (list stmt)) : list (list stmt) :=
  map snd conds ++ match els with Some b => [b] | None => [] end.

(* the signal of an if statement is exactly the signal of the one block it ran
   (or SigNone when it ran none) *)
Lemma if_go_signal_inv f P els cs e st sig e' st' :
  if_go f P els cs e st = (Ok (sig, e'), st') ->
  (sig = SigNone /\ e' = e) \/
  exists body k st0 e2, In body (if_bodies cs els) /\
     exec_block k P ([] :: e) body st0 = (Ok (sig, e2), st') /\ e' = tl e2.
Proof.
  revert e st. induction cs as [|[c body] t IH]; intros e st H.
  - simpl in H. destruct els as [body|].
    + apply bindM_inv in H as ([sg e1] & st1 & H1 & H). inversion H; subst.
      right. exists body, f, st, e1. repeat split; [left; reflexivity | exact H1].
    + inversion H; subst. left; split; reflexivity.
  - simpl in H. apply bindM_inv in H as ([r e1] & st1 & H1 & H). destruct r as [sg|].
    + inversion H; subst. apply cond_signal_inv in H1 as (k & st0 & e2 & H1 & ->).
      right. exists body, k, st0, e2. repeat split; [left; reflexivity | exact H1].
    + apply cond_none_inv in H1 as ->. apply IH in H as [H | (b & k & st0 & e2 & I & H & E)]; [left; exact H|].
      right. exists b, k, st0, e2. repeat split; [right; exact I | exact H | exact E].
Qed.

Theorem if_signal_is_block_signal n P e conds els st sig e' st' :
  exec_stmt n P e (SIf conds els) st = (Ok (sig, e'), st') ->
  (sig = SigNone /\ e' = e) \/
  exists body k st0 e2, In body (if_bodies conds els) /\
     exec_block k P ([] :: e) body st0 = (Ok (sig, e2), st') /\ e' = tl e2.
Proof.
  destruct n as [|f]; [discriminate|]. rewrite exec_stmt_if. intro H.
  apply bindM_inv in H as (u & st0 & _ & H). eapply if_go_signal_inv; exact H.
Qed.

(* --- loops: break ends the loop and is consumed; return passes through --- *)
Lemma while_break_ends_loop f P e c body st e1 st1 :
  exec_cond f P e c body st = (Ok (Some SigBreak, e1), st1) ->
  exec_while (S f) P e c body st = (Ok (SigNone, e1), st1).
Proof. intro H. rewrite while_unfold, (bindM_ok _ _ _ _ _ H). reflexivity. Qed.

Lemma while_return_passes f P e c body st v e1 st1 :
  exec_cond f P e c body st = (Ok (Some (SigReturn v), e1), st1) ->
  exec_while (S f) P e c body st = (Ok (SigReturn v, e1), st1).
Proof. intro H. rewrite while_unfold, (bindM_ok _ _ _ _ _ H). reflexivity. Qed.

Lemma while_iterates f P e c body st e1 st1 :
  exec_cond f P e c body st = (Ok (Some SigNone, e1), st1) ->
  exec_while (S f) P e c body st = exec_while f P e1 c body st1.
Proof. intro H. rewrite while_unfold, (bindM_ok _ _ _ _ _ H). reflexivity. Qed.

Lemma while_false_ends f P e c body st e1 st1 :
  exec_cond f P e c body st = (Ok (None, e1), st1) ->
  exec_while (S f) P e c body st = (Ok (SigNone, e1), st1).
Proof. intro H. rewrite while_unfold, (bindM_ok _ _ _ _ _ H). reflexivity. Qed.

(* while tests its condition before every iteration: the first thing an
   iteration does is evaluate the condition (in a fresh frame); the body is not
   run when it is false *)
Lemma while_tests_first f P e c body st x st1 :
  eval_expr f P ([] :: e) c st = (Er x, st1) ->
  exec_while (S (S f)) P e c body st = (Er x, st1).
Proof.
  intro H. rewrite while_unfold. apply bindM_er. rewrite exec_cond_unfold. apply bindM_er. exact H.
Qed.

Lemma while_false_no_body f P e c body body' st l st1 st2 :
  eval_expr f P ([] :: e) c st = (Ok l, st1) -> load l st1 = (Ok (HBool false), st2) ->
  exec_while (S (S f)) P e c body st = (Ok (SigNone, e), st2) /\
  exec_while (S (S f)) P e c body' st = (Ok (SigNone, e), st2).
Proof.
  intros H1 H2. split; (apply while_false_ends; eapply cond_false_skips; eassumption).
Qed.

Lemma for_break_ends_loop f P e var rg body st l rg' st1 e1 st2 e2 st3 :
  for_next rg st = (Ok (Some (l, rg')), st1) -> update_var var l e st1 = (Ok e1, st2) ->
  exec_block f P ([] :: e1) body st2 = (Ok (SigBreak, e2), st3) ->
  exec_for (S f) P e var rg body st = (Ok (SigNone, tl e2), st3).
Proof.
  intros H1 H2 H3. rewrite exec_for_unfold, (bindM_ok _ _ _ _ _ H1). simpl.
  rewrite (bindM_ok _ _ _ _ _ H2), (bindM_ok _ _ _ _ _ H3). reflexivity.
Qed.

Lemma for_return_passes f P e var rg body st l rg' st1 e1 st2 v e2 st3 :
  for_next rg st = (Ok (Some (l, rg')), st1) -> update_var var l e st1 = (Ok e1, st2) ->
  exec_block f P ([] :: e1) body st2 = (Ok (SigReturn v, e2), st3) ->
  exec_for (S f) P e var rg body st = (Ok (SigReturn v, tl e2), st3).
Proof.
  intros H1 H2 H3. rewrite exec_for_unfold, (bindM_ok _ _ _ _ _ H1). simpl.
  rewrite (bindM_ok _ _ _ _ _ H2), (bindM_ok _ _ _ _ _ H3). reflexivity.
Qed.

Lemma for_iterates f P e var rg body st l rg' st1 e1 st2 e2 st3 :
  for_next rg st = (Ok (Some (l, rg')), st1) -> update_var var l e st1 = (Ok e1, st2) ->
  exec_block f P ([] :: e1) body st2 = (Ok (SigNone, e2), st3) ->
  exec_for (S f) P e var rg body st = exec_for f P (tl e2) var rg' body st3.
Proof.
  intros H1 H2 H3. rewrite exec_for_unfold, (bindM_ok _ _ _ _ _ H1). simpl.
  rewrite (bindM_ok _ _ _ _ _ H2), (bindM_ok _ _ _ _ _ H3). reflexivity.
Qed.

Lemma for_exhausted_ends f P e var rg body st st1 :
  for_next rg st = (Ok None, st1) ->
  exec_for (S f) P e var rg body st = (Ok (SigNone, e), st1).
Proof. intros H1. rewrite exec_for_unfold, (bindM_ok _ _ _ _ _ H1). reflexivity. Qed.

(* --- where a signal can come from (syntactic origin) --- *)
(* a [break] that reaches the enclosing loop is separated from it by if-blocks only *)
Fixpoint break_reachable (s : stmt) : bool :=
  match s with
  | SBreak => true
  | SIf conds els =>
      existsb (fun cb => let '(_, b) := cb in existsb break_reachable b) conds ||
      match els with Some b => existsb break_reachable b | None => false end
  | _ => false
  end.

Fixpoint return_reachable (s : stmt) : bool :=
  match s with
  | SReturn _ => true
  | SIf conds els =>
      existsb (fun cb => let '(_, b) := cb in existsb return_reachable b) conds ||
      match els with Some b => existsb return_reachable b | None => false end
  | SWhile _ b => existsb return_reachable b
  | SFor _ _ _ b => existsb return_reachable b
  | _ => false
  end.

Definition sigQ (sig : signal) (brk rtn : bool) : Prop :=
  (sig = SigBreak -> brk = true) /\ (forall v, sig = SigReturn v -> rtn = true).

Definition signal_inv (n : nat) : Prop :=
  (forall P e s, post (exec_stmt n P e s)
     (fun r => sigQ (fst r) (break_reachable s) (return_reachable s))) /\
  (forall P e l, post (exec_stmts n P e l)
     (fun r => sigQ (fst r) (existsb break_reachable l) (existsb return_reachable l))) /\
  (forall P e l, post (exec_block n P e l)
     (fun r => sigQ (fst r) (existsb break_reachable l) (existsb return_reachable l))) /\
  (forall P e c body, post (exec_cond n P e c body)
     (fun r => forall sig, fst r = Some sig ->
               sigQ sig (existsb break_reachable body) (existsb return_reachable body))) /\
  (forall P e c body, post (exec_while n P e c body)
     (fun r => sigQ (fst r) false (existsb return_reachable body))) /\
  (forall P e var rg body, post (exec_for n P e var rg body)
     (fun r => sigQ (fst r) false (existsb return_reachable body))).

Lemma sigQ_none b r : sigQ SigNone b r.
Proof. split; [discriminate | intros; discriminate]. Qed.

Lemma sigQ_ret v b : sigQ (SigReturn v) b true.
Proof. split; [discriminate | reflexivity]. Qed.

Lemma sigQ_brk r : sigQ SigBreak true r.
Proof. split; [reflexivity | discriminate]. Qed.

Lemma sigQ_mono sig b r b' r' :
  sigQ sig b r -> (b = true -> b' = true) -> (r = true -> r' = true) -> sigQ sig b' r'.
Proof. intros [H1 H2] Hb Hr. split; [intro E; apply Hb, H1, E | intros v E; apply Hr, (H2 v E)]. Qed.

Lemma if_go_signal f P els :
  (forall e l, post (exec_block f P e l)
     (fun r => sigQ (fst r) (existsb break_reachable l) (existsb return_reachable l))) ->
  (forall e c body, post (exec_cond f P e c body)
     (fun r => forall sig, fst r = Some sig ->
               sigQ sig (existsb break_reachable body) (existsb return_reachable body))) ->
  forall cs e, post (if_go f P els cs e)
     (fun r => sigQ (fst r) (break_reachable (SIf cs els)) (return_reachable (SIf cs els))).
Proof.
  intros HB HC cs. induction cs as [|[c body] t IH]; intro e.
  - simpl. destruct els as [body|]; [|apply post_ret; apply sigQ_none].
    eapply post_bind; [apply HB|]. intros [sig e1] H; simpl in H. apply post_ret; exact H.
  - cbn [if_go]. eapply post_bind; [apply HC|]. intros [r e1] H; simpl in H.
    destruct r as [sig|].
    + apply post_ret. cbn [fst]. eapply sigQ_mono; [apply H; reflexivity | |]; simpl; intros ->; reflexivity.
    + eapply post_weaken; [apply IH|]. intros rr Ha; simpl in Ha.
      eapply sigQ_mono; [exact Ha | |]; simpl; intro E;
        rewrite <- orb_assoc, E; apply orb_true_r.
Qed.

Theorem signal_inv_all : forall n, signal_inv n.
Proof.
  induction n as [|f IH].
  { unfold signal_inv; repeat apply conj; intros; apply post_fail. }
  destruct IH as (Hs & Hss & Hb & Hc & Hw & Hf).
  unfold signal_inv; repeat apply conj.
  - intros P e s. destruct s.
    + simpl. repeat mstep; simpl; apply sigQ_none.
    + simpl. do 4 (apply post_bind_any; intro).
      destruct target; try (apply post_internal); repeat mstep; simpl; apply sigQ_none.
    + simpl. repeat mstep; simpl; apply sigQ_none.
    + simpl. apply post_bind_any; intro. destruct e0; repeat mstep; simpl; apply sigQ_ret.
    + simpl. repeat mstep; simpl; apply sigQ_brk.
    + rewrite exec_stmt_if. apply post_bind_any; intro. apply if_go_signal; [apply Hb | apply Hc].
    + simpl. apply post_bind_any; intro. apply Hw.
    + rewrite exec_stmt_for. apply post_bind_any; intro. apply post_bind_any; intros [rg e2].
      eapply post_bind; [apply Hf|]. intros [sig e3] H; simpl in H. apply post_ret; exact H.
    + simpl. repeat mstep; simpl; apply sigQ_none.
  - intros P e l. destruct l as [|s t]; [rewrite exec_stmts_nil; apply post_ret; apply sigQ_none|].
    rewrite exec_stmts_cons. eapply post_bind; [apply Hs|]. intros [sig e1] H; simpl in H.
    destruct (is_ctl sig).
    + apply post_ret. simpl. eapply sigQ_mono; [exact H | |]; intros ->; reflexivity.
    + eapply post_weaken; [apply Hss|]. intros rr Ha; simpl in Ha.
      eapply sigQ_mono; [exact Ha | |]; simpl; intros ->; apply orb_true_r.
  - intros P e l. rewrite exec_block_unfold. apply post_bind_any; intro. apply Hss.
  - intros P e c body. rewrite exec_cond_unfold. do 2 (apply post_bind_any; intro).
    destruct a0; try apply post_internal. destruct b; [|apply post_ret; simpl; discriminate].
    eapply post_bind; [apply Hb|]. intros [sig e2] H; simpl in H.
    apply post_ret; simpl. intros sg E; inversion E; subst. exact H.
  - intros P e c body. rewrite while_unfold.
    eapply post_bind; [apply Hc|]. intros [r e1] H; simpl in H.
    destruct r as [[| |v]|]; try (apply post_ret; apply sigQ_none).
    + apply Hw.
    + apply post_ret. simpl. destruct (H _ eq_refl) as [_ H2]. split; [discriminate | intros w _; exact (H2 v eq_refl)].
  - intros P e var rg body. rewrite exec_for_unfold. apply post_bind_any; intros [[l rg']|]; simpl;
      [|apply post_ret; apply sigQ_none].
    apply post_bind_any; intro e1.
    eapply post_bind; [apply Hb|]. intros [sig e2] H; simpl in H.
    destruct sig; [apply Hf | apply post_ret; apply sigQ_none|].
    apply post_ret. simpl. destruct H as [_ H2]. split; [discriminate | intros w _; exact (H2 v eq_refl)].
Qed.

(* loops never let a break escape *)
Theorem while_consumes_break n P e c body st sig e' st' :
  exec_while n P e c body st = (Ok (sig, e'), st') -> sig <> SigBreak.
Proof.
  intros H E. destruct (signal_inv_all n) as (_ & _ & _ & _ & Hw & _).
  apply Hw in H. destruct H as [H _]. simpl in H. apply H in E. discriminate.
Qed.

Theorem for_consumes_break n P e var rg body st sig e' st' :
  exec_for n P e var rg body st = (Ok (sig, e'), st') -> sig <> SigBreak.
Proof.
  intros H E. destruct (signal_inv_all n) as (_ & _ & _ & _ & _ & Hf).
  apply Hf in H. destruct H as [H _]. simpl in H. apply H in E. discriminate.
Qed.

(* a statement signals break only if it is a [break] under if-blocks only:
   in particular a loop statement never does, whatever its body contains, so a
   break ends exactly the innermost loop around it *)
Theorem break_origin n P e s st e' st' :
  exec_stmt n P e s st = (Ok (SigBreak, e'), st') -> break_reachable s = true.
Proof.
  intros H. destruct (signal_inv_all n) as (Hs & _). apply Hs in H. destruct H as [H _]. exact (H eq_refl).
Qed.

Theorem loop_stmt_never_breaks n P e s st sig e' st' :
  (exists c b, s = SWhile c b) \/ (exists v t r b, s = SFor v t r b) ->
  exec_stmt n P e s st = (Ok (sig, e'), st') -> sig <> SigBreak.
Proof.
  intros K H E. subst sig. apply break_origin in H.
  destruct K as [(c & b & ->) | (v & t & r & b & ->)]; discriminate.
Qed.

Theorem return_origin n P e s st v e' st' :
  exec_stmt n P e s st = (Ok (SigReturn v, e'), st') -> return_reachable s = true.
Proof.
  intros H. destruct (signal_inv_all n) as (Hs & _). apply Hs in H. destruct H as [_ H]. exact (H v eq_refl).
Qed.

(* ====================================================================== *)
(* 5. C10 item 2: a function / handler body sees only parameters, its own  *)
(*    locals and the globals                                               *)
(* ====================================================================== *)

(* the frame a call starts in *)
Definition call_frame (fd : funcdef) (vals : list loc) : M frame :=
  let* (fr, rest) := bind_params (fn_params fd) vals [] in
  match fn_variadic fd with
  | Some (vn, _) => let* a := alloc (HArr vals) in
                    ret (if str_eqb vn underscore then fr else frame_set vn a fr)
  | None => ret fr
  end.

(* the part of evalFunccall after the arguments have been evaluated, for a
   user-defined function: no caller environment anywhere *)
Definition call_user (f : nat) (P : program) (fd : funcdef) (vals : list loc) : M (option loc) :=
  let* fr' := call_frame fd vals in
  let* (sig, _) := exec_block f P [fr'] (fn_body fd) in
  match sig with
  | SigReturn v => ret v
  | _ => let* l := alloc HNone in ret (Some l)
  end.

Definition call_dispatch (f : nat) (P : program) (e : env) (name : str) (vals : list loc) : M (option loc) :=
  if str_eqb name n_test then let* _ := run_test vals in ret None
  else
    match builtin name e vals with
    | Some m => m
    | None =>
        if existsb (str_eqb name) unmodelled_builtins then fail (EUnsupported name)
        else match find_func name (p_funcs P) with
             | None => crash "nil FuncDef"
             | Some fd => call_user f P fd vals
             end
    end.

(* pointwise version (no functional extensionality needed) *)
Lemma eval_call_unfold f P e name args st :
  eval_call (S f) P e name args st =
  (let* vals := eval_exprs f P e args in call_dispatch f P e name vals) st.
Proof.
  cbn [eval_call].
  destruct (eval_exprs f P e args st) as [[vals|x] st1] eqn:E;
    [rewrite !(bindM_ok _ _ _ _ _ E) | rewrite !(bindM_er _ _ _ _ _ E); reflexivity].
  unfold call_dispatch.
  destruct (str_eqb name n_test); [reflexivity|].
  destruct (builtin name e vals); [reflexivity|].
  destruct (existsb (str_eqb name) unmodelled_builtins); [reflexivity|].
  destruct (find_func name (p_funcs P)) as [fd|]; [|reflexivity].
  unfold call_user, call_frame, bindM.
  destruct (bind_params (fn_params fd) vals [] st1) as [[[fr rest]|x] st2]; [|reflexivity].
  destruct (fn_variadic fd) as [[vn vt]|]; reflexivity.
Qed.

(* whether a name is a built-in does not depend on the environment or the
   arguments (one lemma, uniform over the [if name_is ...] chain of [builtin]) *)
Lemma builtin_none_indep name e vals e' vals' :
  builtin name e vals = None -> builtin name e' vals' = None.
Proof.
  unfold builtin.
  repeat match goal with
         | |- (if ?b then Some _ else _) = None -> _ => destruct b; [discriminate|]
         end.
  apply pure_builtin_none_indep.
Qed.

Definition resolves_to (P : program) (name : str) (fd : funcdef) : Prop :=
  str_eqb name n_test = false /\ builtin name [] [] = None /\
  existsb (str_eqb name) unmodelled_builtins = false /\
  find_func name (p_funcs P) = Some fd.

Lemma call_dispatch_user f P e name vals fd :
  resolves_to P name fd -> call_dispatch f P e name vals = call_user f P fd vals.
Proof.
  intros (H1 & H2 & H3 & H4). unfold call_dispatch.
  rewrite H1, (builtin_none_indep _ _ _ e vals H2), H3, H4. reflexivity.
Qed.

(* evalFunccall of a user function = evaluate the arguments in the caller's
   environment, then run [call_user], which does not mention that environment *)
Theorem eval_call_user f P e name args fd st :
  resolves_to P name fd ->
  eval_call (S f) P e name args st =
  (let* vals := eval_exprs f P e args in call_user f P fd vals) st.
Proof.
  intro R. rewrite eval_call_unfold. unfold bindM.
  destruct (eval_exprs f P e args st) as [[vals|x] st1]; [|reflexivity].
  rewrite (call_dispatch_user _ _ _ _ _ _ R). reflexivity.
Qed.

Theorem call_sees_only_params_locals_globals f P name args fd e1 e2 st :
  resolves_to P name fd ->
  eval_exprs f P e1 args st = eval_exprs f P e2 args st ->
  eval_call (S f) P e1 name args st = eval_call (S f) P e2 name args st.
Proof.
  intros R E. rewrite !(eval_call_user _ _ _ _ _ _ _ R). unfold bindM. rewrite E. reflexivity.
Qed.

(* the caller continues in its own environment: a call statement returns it unchanged *)
Theorem call_stmt_keeps_env n P e name args st sig e' st' :
  exec_stmt n P e (SCallStmt name args) st = (Ok (sig, e'), st') -> sig = SigNone /\ e' = e.
Proof.
  destruct n as [|f]; [discriminate|]. cbn [exec_stmt]. intro H.
  apply bindM_inv in H as (u & st0 & _ & H). apply bindM_inv in H as (r & st1 & _ & H).
  inversion H; subst. split; reflexivity.
Qed.

(* return: the call turns SigReturn v into the value v, anything else into a fresh none *)
Lemma call_user_return f P fd vals st fr st1 v e2 st2 :
  call_frame fd vals st = (Ok fr, st1) ->
  exec_block f P [fr] (fn_body fd) st1 = (Ok (SigReturn v, e2), st2) ->
  call_user f P fd vals st = (Ok v, st2).
Proof. intros H1 H2. unfold call_user. rewrite (bindM_ok _ _ _ _ _ H1), (bindM_ok _ _ _ _ _ H2). reflexivity. Qed.

Lemma call_user_no_return f P fd vals st fr st1 sig e2 st2 :
  call_frame fd vals st = (Ok fr, st1) ->
  exec_block f P [fr] (fn_body fd) st1 = (Ok (sig, e2), st2) ->
  (forall v, sig <> SigReturn v) ->
  call_user f P fd vals st = (let* l := alloc HNone in ret (Some l)) st2.
Proof.
  intros H1 H2 N. unfold call_user. rewrite (bindM_ok _ _ _ _ _ H1), (bindM_ok _ _ _ _ _ H2).
  destruct sig; try reflexivity. exfalso; exact (N v eq_refl).
Qed.

(* the initial frame of the body contains parameter names only *)
Lemma bind_params_names ps : forall args fr,
  post (bind_params ps args fr) (fun r => incl (names (fst r)) (map fst ps ++ names fr)).
Proof.
  induction ps as [|[n t] ps IH]; intros args fr; simpl.
  - apply post_ret. simpl. apply incl_refl.
  - destruct args as [|a rest]; [apply post_crash|].
    eapply post_weaken; [apply IH|]. intros r H x Hx. apply H in Hx.
    apply in_app_or in Hx as [Hx|Hx]; [right; apply in_or_app; left; exact Hx|].
    destruct (str_eqb n underscore); [right; apply in_or_app; right; exact Hx|].
    destruct (frame_set_names n a fr) as [E|E]; rewrite E in Hx.
    + right; apply in_or_app; right; exact Hx.
    + destruct Hx as [<-|Hx]; [left; reflexivity | right; apply in_or_app; right; exact Hx].
Qed.

Definition param_names (fd : funcdef) : list str :=
  map fst (fn_params fd) ++ match fn_variadic fd with Some (vn, _) => [vn] | None => [] end.

Theorem call_frame_names fd vals : post (call_frame fd vals) (fun fr => incl (names fr) (param_names fd)).
Proof.
  unfold call_frame, param_names. eapply post_bind; [apply bind_params_names|].
  intros [fr rest] H; simpl in H. rewrite app_nil_r in H.
  destruct (fn_variadic fd) as [[vn vt]|].
  - apply post_bind_any; intro a. apply post_ret.
    destruct (str_eqb vn underscore); [apply incl_appl; exact H|].
    destruct (frame_set_names vn a fr) as [E|E]; rewrite E.
    + apply incl_appl; exact H.
    + intros x [<-|Hx]; [apply in_or_app; right; left; reflexivity | apply in_or_app; left; apply H; exact Hx].
  - apply post_ret. rewrite app_nil_r. exact H.
Qed.

(* event handlers: same structure, no caller environment at all *)
Definition handler_run (fuel : nat) (P : program) (h : handler) (args : list payload) : M unit :=
  let* fr := bind_payload (h_params h) args [] in
  let* _ := exec_block fuel P [fr] (h_body h) in ret tt.

Theorem handle_event_unfold fuel P name args s0 :
  handle_event fuel P name args s0 =
  match find_handler name (p_handlers P) with
  | None => (OErr (EHostCrash (s_ "no event handler")), s0)
  | Some h => match handler_run fuel P h args s0 with
              | (Er e, s1) => (OErr e, s1)
              | (Ok _, s1) => (ODone, s1)
              end
  end.
Proof. reflexivity. Qed.

Lemma bind_payload_names ps : forall args fr,
  post (bind_payload ps args fr) (fun r => incl (names r) (map fst ps ++ names fr)).
Proof.
  induction ps as [|[n t] ps IH]; intros args fr; simpl.
  - apply post_ret. simpl. apply incl_refl.
  - destruct args as [|a rest]; [apply post_crash|].
    apply post_bind_any; intro l.
    eapply post_weaken; [apply IH|]. intros r H x Hx. apply H in Hx.
    apply in_app_or in Hx as [Hx|Hx]; [right; apply in_or_app; left; exact Hx|].
    destruct (str_eqb n underscore); [right; apply in_or_app; right; exact Hx|].
    destruct (frame_set_names n l fr) as [E|E]; rewrite E in Hx.
    + right; apply in_or_app; right; exact Hx.
    + destruct Hx as [<-|Hx]; [left; reflexivity | right; apply in_or_app; right; exact Hx].
Qed.

Theorem handler_frame_names h args :
  post (bind_payload (h_params h) args []) (fun fr => incl (names fr) (map fst (h_params h))).
Proof.
  eapply post_weaken; [apply bind_payload_names|]. intros fr H. simpl in H. rewrite app_nil_r in H. exact H.
Qed.

(* ====================================================================== *)
(* 6. C10 item 5: for ... range                                            *)
(* ====================================================================== *)

(* --- 6.1 the range is evaluated once, at loop entry --- *)
(* [exec_stmt_for] above: a for statement is  tick; for_init; exec_for; pop.
   Only [for_init] contains the range expressions; [exec_for] receives the
   ranger state (three numbers / the array cell / the string / the key
   snapshot) and never sees an expression again. *)

Lemma for_init_step_unfold f P e1 var vt start stop step :
  for_init f P e1 var vt (RStep start stop step) =
  (let* a := range_num f P e1 start 0%float in
   let* b := range_num f P e1 (Some stop) 0%float in
   let* c := range_num f P e1 step 1%float in
   if PrimFloat.eqb c 0 then fail (EPanic PkRangeValue)
   else let* e2 := bind_loopvar var (alloc (HNum 0%float)) e1 in ret (RgStep a b c, e2)).
Proof. reflexivity. Qed.

(* a zero step panics before any iteration: the result state is the state
   right after the three range expressions were evaluated *)
Theorem for_zero_step_panics f P e var vt start stop step body st st0 a st1 b st2 c st3 :
  tick st = (Ok tt, st0) ->
  range_num f P ([] :: e) start 0%float st0 = (Ok a, st1) ->
  range_num f P ([] :: e) (Some stop) 0%float st1 = (Ok b, st2) ->
  range_num f P ([] :: e) step 1%float st2 = (Ok c, st3) ->
  PrimFloat.eqb c 0 = true ->
  exec_stmt (S f) P e (SFor var vt (RStep start stop step) body) st = (Er (EPanic PkRangeValue), st3).
Proof.
  intros T A B C Z. rewrite exec_stmt_for, (bindM_ok _ _ _ _ _ T). apply bindM_er.
  rewrite for_init_step_unfold, (bindM_ok _ _ _ _ _ A), (bindM_ok _ _ _ _ _ B), (bindM_ok _ _ _ _ _ C), Z.
  reflexivity.
Qed.

(* with a non-zero step the loop runs from the ranger (a, b, c) *)
Theorem for_step_enters_loop f P e var vt start stop step body st st0 a st1 b st2 c st3 :
  tick st = (Ok tt, st0) ->
  range_num f P ([] :: e) start 0%float st0 = (Ok a, st1) ->
  range_num f P ([] :: e) (Some stop) 0%float st1 = (Ok b, st2) ->
  range_num f P ([] :: e) step 1%float st2 = (Ok c, st3) ->
  PrimFloat.eqb c 0 = false ->
  exec_stmt (S f) P e (SFor var vt (RStep start stop step) body) st =
  (let* e2 := bind_loopvar var (alloc (HNum 0%float)) ([] :: e) in
   let* (sig, e3) := exec_for f P e2 (loopvar_name var) (RgStep a b c) body in
   ret (sig, tl e3)) st3.
Proof.
  intros T A B C Z. rewrite exec_stmt_for, (bindM_ok _ _ _ _ _ T).
  rewrite for_init_step_unfold. unfold bindM at 1 2 3 4. rewrite A. unfold bindM at 1. rewrite B.
  unfold bindM at 1. rewrite C, Z. unfold bindM, ret.
  destruct (bind_loopvar var (alloc (HNum 0)) ([] :: e) st3) as [[e2|x] st4]; reflexivity.
Qed.

(* --- 6.2 instrumented iteration: the trace of ranger.next() results --- *)
Inductive for_end := FeDone | FeBreak | FeReturn (v : option loc).

Definition for_end_signal (en : for_end) : signal :=
  match en with FeReturn v => SigReturn v | _ => SigNone end.

Record visit := {
  v_rg : ranger;      (* ranger state before next() *)
  v_st : state;       (* program state when next() was called *)
  v_loc : loc;        (* the cell next() bound the loop variable to *)
  v_st1 : state;      (* program state when next() returned *)
  v_env : env         (* environment the body ran in: a fresh frame over the loop's *)
}.

Definition visit_val (v : visit) : option hval := hget (st_heap (v_st1 v)) (v_loc v).

Inductive for_trace (P : program) (var : str) (body : list stmt)
  : ranger -> env -> state -> list visit -> for_end -> env -> state -> Prop :=
| ft_done rg e st st1 :
    for_next rg st = (Ok None, st1) ->
    for_trace P var body rg e st [] FeDone e st1
| ft_break rg e st l rg' st1 e1 st2 k e2 st3 :
    for_next rg st = (Ok (Some (l, rg')), st1) ->
    update_var var l e st1 = (Ok e1, st2) ->
    exec_block k P ([] :: e1) body st2 = (Ok (SigBreak, e2), st3) ->
    for_trace P var body rg e st [Build_visit rg st l st1 ([] :: e1)] FeBreak (tl e2) st3
| ft_return rg e st l rg' st1 e1 st2 k v e2 st3 :
    for_next rg st = (Ok (Some (l, rg')), st1) ->
    update_var var l e st1 = (Ok e1, st2) ->
    exec_block k P ([] :: e1) body st2 = (Ok (SigReturn v, e2), st3) ->
    for_trace P var body rg e st [Build_visit rg st l st1 ([] :: e1)] (FeReturn v) (tl e2) st3
| ft_next rg e st l rg' st1 e1 st2 k e2 st3 tr en e' st' :
    for_next rg st = (Ok (Some (l, rg')), st1) ->
    update_var var l e st1 = (Ok e1, st2) ->
    exec_block k P ([] :: e1) body st2 = (Ok (SigNone, e2), st3) ->
    for_trace P var body rg' (tl e2) st3 tr en e' st' ->
    for_trace P var body rg e st (Build_visit rg st l st1 ([] :: e1) :: tr) en e' st'.

Theorem exec_for_trace n P e var rg body st sig e' st' :
  exec_for n P e var rg body st = (Ok (sig, e'), st') ->
  exists tr en, for_trace P var body rg e st tr en e' st' /\ sig = for_end_signal en.
Proof.
  revert e rg st. induction n as [|f IH]; intros e rg st H; [discriminate|].
  rewrite exec_for_unfold in H. apply bindM_inv in H as (nx & st1 & H1 & H).
  destruct nx as [[l rg']|]; simpl in H.
  - apply bindM_inv in H as (e1 & st2 & H2 & H). apply bindM_inv in H as ([sg e2] & st3 & H3 & H).
    destruct sg.
    + apply IH in H as (tr & en & HT & ->).
      eexists; exists en. split; [eapply ft_next; eassumption | reflexivity].
    + inversion H; subst. eexists; exists FeBreak. split; [eapply ft_break; eassumption | reflexivity].
    + inversion H; subst. eexists; exists (FeReturn v). split; [eapply ft_return; eassumption | reflexivity].
  - inversion H; subst. exists [], FeDone. split; [apply ft_done; exact H1 | reflexivity].
Qed.

(* the loop variable is bound to the cell delivered by next() while the body runs *)
Lemma frame_get_In n f : frame_get n f <> None <-> In n (names f).
Proof.
  induction f as [|[k l] t IH]; simpl; [split; [congruence | tauto]|].
  destruct (str_eqb k n) eqn:E.
  - apply str_eqb_eq in E. split; [intros _; left; exact E | discriminate].
  - apply str_eqb_neq in E. rewrite IH. split; [tauto | intros [H|H]; [contradiction | exact H]].
Qed.

Lemma frame_get_replace n l f : frame_get n f <> None -> frame_get n (frame_replace n l f) = Some l.
Proof.
  induction f as [|[k l'] t IH]; simpl; [congruence|].
  destruct (str_eqb k n) eqn:E; simpl; rewrite E; [reflexivity | exact IH].
Qed.

Lemma update_var_binds var l e st e1 st1 :
  update_var var l e st = (Ok e1, st1) -> str_eqb var underscore = false ->
  In var (names (hd [] e)) ->
  env_get var e1 = Some l /\ In var (names (hd [] e1)).
Proof.
  unfold update_var. intros H U I. rewrite U in H.
  destruct e as [|fr t]; [contradiction|]. simpl in I. apply frame_get_In in I.
  simpl in H. destruct (frame_get var fr) eqn:G; [|congruence].
  inversion H; subst. simpl. rewrite frame_get_replace by congruence.
  split; [reflexivity|]. unfold names. fold (names (frame_replace var l fr)).
  rewrite frame_replace_names. apply frame_get_In. congruence.
Qed.

Lemma ext_keeps_name var e e' : ext e e' -> In var (names (hd [] e)) -> In var (names (hd [] e')).
Proof.
  destruct e, e'; simpl; try tauto. intros [[added ->] _] H. apply in_or_app; right; exact H.
Qed.

Theorem for_trace_binds_var P var body rg e st tr en e' st' :
  for_trace P var body rg e st tr en e' st' ->
  str_eqb var underscore = false -> In var (names (hd [] e)) ->
  Forall (fun v => env_get var (v_env v) = Some (v_loc v)) tr.
Proof.
  intros H U. induction H; intro I.
  - constructor.
  - constructor; [|constructor]. simpl. eapply update_var_binds; eassumption.
  - constructor; [|constructor]. simpl. eapply update_var_binds; eassumption.
  - destruct (update_var_binds _ _ _ _ _ _ H0 U I) as [B I1].
    constructor; [exact B|]. apply IHfor_trace.
    eapply ext_keeps_name; [|exact I1]. apply shape_ext.
    destruct (scope_inv_all k) as (_ & _ & Hb & _). apply Hb in H1. cbn [snd] in H1.
    apply ext_push_pop; exact H1.
Qed.

(* every iteration's body starts in a fresh, empty frame pushed over an
   environment of the shape the loop had at entry: a variable declared by the
   body in one iteration does not exist in the next one, nor after the loop *)
Theorem for_trace_fresh_scope P var body rg e st tr en e' st' :
  for_trace P var body rg e st tr en e' st' ->
  Forall (fun v => shape (v_env v) = [] :: shape e) tr /\ shape e' = shape e.
Proof.
  intro H. induction H.
  - split; [constructor | reflexivity].
  - pose proof (post_update_var _ _ _ _ _ _ H0) as S1. apply block_pop_restores in H1 as [S2 _].
    split; [repeat constructor; simpl; unfold shape in *; simpl; congruence | congruence].
  - pose proof (post_update_var _ _ _ _ _ _ H0) as S1. apply block_pop_restores in H1 as [S2 _].
    split; [repeat constructor; simpl; unfold shape in *; simpl; congruence | congruence].
  - pose proof (post_update_var _ _ _ _ _ _ H0) as S1. apply block_pop_restores in H1 as [S2 _].
    destruct IHfor_trace as [F E]. assert (S3 : shape (tl e2) = shape e) by congruence.
    split; [|congruence]. constructor; [simpl; unfold shape in *; simpl; congruence|].
    eapply Forall_impl; [|exact F]. intros v Hv. simpl in Hv. rewrite Hv, S3. reflexivity.
Qed.

Local Open Scope nat_scope.

(* --- 6.3 numeric ranges --- *)
(* the sequence cur, cur+step, cur+step+step, ... (IEEE additions) up to the
   first value for which stepRange.next()'s stop test holds; [k] bounds the
   length so that the definition is total *)
Fixpoint go_steps (k : nat) (cur stop step : float) : list float :=
  match k with
  | O => []
  | S k' => if step_done cur stop step then [] else cur :: go_steps k' (cur + step)%float stop step
  end.

Lemma hget_alloc h v : hget (snd (halloc h v)) (fst (halloc h v)) = Some v.
Proof. unfold hget, halloc; simpl. apply PositiveMap.gss. Qed.

Lemma alloc_inv v st l st1 : alloc v st = (Ok l, st1) -> hget (st_heap st1) l = Some v.
Proof.
  unfold alloc. destruct (halloc (st_heap st) v) as [l0 h] eqn:E. intro H; inversion H; subst. simpl.
  pose proof (hget_alloc (st_heap st) v) as G. rewrite E in G. exact G.
Qed.

Lemma for_next_step_none cur stop step st st1 :
  for_next (RgStep cur stop step) st = (Ok None, st1) -> step_done cur stop step = true /\ st1 = st.
Proof.
  simpl. destruct (step_done cur stop step).
  - intro H; inversion H; split; reflexivity.
  - intro H. apply bindM_inv in H as (l & s1 & _ & H). discriminate.
Qed.

Lemma for_next_step_some cur stop step st l rg' st1 :
  for_next (RgStep cur stop step) st = (Ok (Some (l, rg')), st1) ->
  step_done cur stop step = false /\ rg' = RgStep (cur + step)%float stop step /\
  hget (st_heap st1) l = Some (HNum cur).
Proof.
  simpl. destruct (step_done cur stop step); [discriminate|].
  intro H. apply bindM_inv in H as (l0 & s1 & A & H). inversion H; subst.
  repeat split. eapply alloc_inv; exact A.
Qed.

Theorem for_num_spec P var body a b c e st tr en e' st' :
  for_trace P var body (RgStep a b c) e st tr en e' st' ->
  map visit_val tr = map (fun x => Some (HNum x)) (go_steps (List.length tr) a b c) /\
  (en = FeDone -> go_steps (S (List.length tr)) a b c = go_steps (List.length tr) a b c).
Proof.
  intro H. remember (RgStep a b c) as rg eqn:R. revert a R.
  induction H; intros a R; subst rg.
  - apply for_next_step_none in H as [D _]. split; [reflexivity|]. intros _. simpl. rewrite D. reflexivity.
  - apply for_next_step_some in H as (D & _ & V). split; [|discriminate].
    simpl. rewrite D. unfold visit_val; simpl. rewrite V. reflexivity.
  - apply for_next_step_some in H as (D & _ & V). split; [|discriminate].
    simpl. rewrite D. unfold visit_val; simpl. rewrite V. reflexivity.
  - apply for_next_step_some in H as (D & -> & V).
    destruct (IHfor_trace _ eq_refl) as [I1 I2]. split.
    + cbn [List.length map go_steps]. rewrite D. cbn [map]. rewrite <- I1. unfold visit_val at 1; simpl. rewrite V. reflexivity.
    + intro E. specialize (I2 E). cbn [List.length]. cbn [go_steps] in *. rewrite D. f_equal. exact I2.
Qed.

(* the sequence of the task statement: continue while
   (step > 0 and cur < stop) or (step < 0 and cur > stop) *)
Definition step_live (cur stop step : float) : bool :=
  (PrimFloat.ltb 0 step && PrimFloat.ltb cur stop) || (PrimFloat.ltb step 0 && PrimFloat.ltb stop cur).

Fixpoint steps (k : nat) (cur stop step : float) : list float :=
  match k with
  | O => []
  | S k' => if step_live cur stop step then cur :: steps k' (cur + step)%float stop step else []
  end.

(* --- 6.4 arrays: the live array is re-read at every iteration --- *)
Lemma load_inv l st v st1 : load l st = (Ok v, st1) -> st1 = st /\ hget (st_heap st) l = Some v.
Proof. unfold load. destruct (hget (st_heap st) l); intro H; inversion H; subst; split; reflexivity. Qed.

Lemma for_next_arr_none a i st st1 :
  for_next (RgArr a i) st = (Ok None, st1) ->
  st1 = st /\ exists els, hget (st_heap st) a = Some (HArr els) /\ List.length els <= i.
Proof.
  simpl. intro H. apply bindM_inv in H as (v & s1 & L & H). apply load_inv in L as [-> L].
  destruct v; try discriminate. destruct (nth_error els i) eqn:N; inversion H; subst.
  split; [reflexivity|]. exists els. split; [exact L | apply nth_error_None; exact N].
Qed.

Lemma for_next_arr_some a i st l rg' st1 :
  for_next (RgArr a i) st = (Ok (Some (l, rg')), st1) ->
  st1 = st /\ rg' = RgArr a (S i) /\
  exists els, hget (st_heap st) a = Some (HArr els) /\ nth_error els i = Some l.
Proof.
  simpl. intro H. apply bindM_inv in H as (v & s1 & L & H). apply load_inv in L as [-> L].
  destruct v; try discriminate. destruct (nth_error els i) eqn:N; inversion H; subst.
  repeat split. exists els. split; [exact L | exact N].
Qed.

Definition arr_visit (a : loc) (i : nat) (v : visit) : Prop :=
  v_rg v = RgArr a i /\ v_st1 v = v_st v /\
  exists els, hget (st_heap (v_st v)) a = Some (HArr els) /\ nth_error els i = Some (v_loc v).

(* iteration number j (from 0) delivers element i0+j of the array as it is
   at that moment; the loop ends normally when the live array has no such element *)
Theorem for_array_spec P var body a i0 e st tr en e' st' :
  for_trace P var body (RgArr a i0) e st tr en e' st' ->
  Forall2 (arr_visit a) (seq i0 (List.length tr)) tr /\
  (en = FeDone -> exists els, hget (st_heap st') a = Some (HArr els) /\
                              List.length els <= i0 + List.length tr).
Proof.
  intro H. remember (RgArr a i0) as rg eqn:R. revert i0 R.
  induction H; intros i0 R; subst rg.
  - apply for_next_arr_none in H as (-> & els & L & N). split; [constructor|].
    intros _. exists els. split; [exact L | simpl; lia].
  - apply for_next_arr_some in H as (-> & _ & els & L & N). split; [|discriminate].
    repeat constructor; simpl. exists els; split; assumption.
  - apply for_next_arr_some in H as (-> & _ & els & L & N). split; [|discriminate].
    repeat constructor; simpl. exists els; split; assumption.
  - apply for_next_arr_some in H as (-> & -> & els & L & N).
    destruct (IHfor_trace _ eq_refl) as [I1 I2]. split.
    + simpl. constructor; [|exact I1]. repeat split; simpl. exists els; split; assumption.
    + intro E. destruct (I2 E) as (els' & L' & N'). exists els'. split; [exact L' | simpl; lia].
Qed.

(* --- 6.5 strings: the code points of the string as it was at loop entry --- *)
Lemma for_next_str_none s i st st1 :
  for_next (RgStr s i) st = (Ok None, st1) -> st1 = st /\ List.length s <= i.
Proof.
  simpl. destruct (nth_error s i) eqn:N.
  - intro H. apply bindM_inv in H as (l & s1 & _ & H). discriminate.
  - intro H; inversion H. split; [reflexivity | apply nth_error_None; exact N].
Qed.

Lemma for_next_str_some s i st l rg' st1 :
  for_next (RgStr s i) st = (Ok (Some (l, rg')), st1) ->
  rg' = RgStr s (S i) /\ exists c, nth_error s i = Some c /\ hget (st_heap st1) l = Some (HStr [c]).
Proof.
  simpl. destruct (nth_error s i) as [c|] eqn:N; [|discriminate].
  intro H. apply bindM_inv in H as (l0 & s1 & A & H). inversion H; subst.
  split; [reflexivity|]. exists c. split; [reflexivity | eapply alloc_inv; exact A].
Qed.

Lemma skipn_nth_cons {A} (l : list A) i c : nth_error l i = Some c -> skipn i l = c :: skipn (S i) l.
Proof.
  revert i; induction l as [|x t IH]; intros [|i] H; simpl in *; try discriminate.
  - inversion H; reflexivity.
  - apply IH; exact H.
Qed.

Theorem for_string_spec P var body s i0 e st tr en e' st' :
  for_trace P var body (RgStr s i0) e st tr en e' st' ->
  map visit_val tr = map (fun c => Some (HStr [c])) (firstn (List.length tr) (skipn i0 s)) /\
  (en = FeDone -> List.length s <= i0 + List.length tr).
Proof.
  intro H. remember (RgStr s i0) as rg eqn:R. revert i0 R.
  induction H; intros i0 R; subst rg.
  - apply for_next_str_none in H as (-> & N). split; [reflexivity | intros _; simpl; lia].
  - apply for_next_str_some in H as (_ & c & N & V). split; [|discriminate].
    simpl. rewrite (skipn_nth_cons _ _ _ N). unfold visit_val; simpl. rewrite V. reflexivity.
  - apply for_next_str_some in H as (_ & c & N & V). split; [|discriminate].
    simpl. rewrite (skipn_nth_cons _ _ _ N). unfold visit_val; simpl. rewrite V. reflexivity.
  - apply for_next_str_some in H as (-> & c & N & V).
    destruct (IHfor_trace _ eq_refl) as [I1 I2]. split.
    + cbn [List.length map]. rewrite (skipn_nth_cons _ _ _ N). cbn [firstn map]. rewrite <- I1.
      unfold visit_val at 1; simpl. rewrite V. reflexivity.
    + intro E. specialize (I2 E). simpl. lia.
Qed.

(* a loop that ends normally from index 0 has visited the whole entry string *)
Corollary for_string_complete P var body s e st tr e' st' :
  for_trace P var body (RgStr s 0) e st tr FeDone e' st' ->
  map visit_val tr = map (fun c => Some (HStr [c])) s.
Proof.
  intro H. pose proof H as H0. apply for_string_spec in H as [H1 H2]. specialize (H2 eq_refl).
  rewrite H1. simpl. rewrite firstn_all2 by (simpl in H2; exact H2). reflexivity.
Qed.

(* --- 6.6 maps: the keys of the entry snapshot that are still present when reached --- *)
Lemma map_next_none m om todo st st1 :
  map_next m om todo st = (Ok None, st1) -> st1 = st /\ Forall (fun k => ohas k om = false) todo.
Proof.
  induction todo as [|k t IH]; simpl.
  - intro H; inversion H. split; [reflexivity | constructor].
  - destruct (ohas k om) eqn:O.
    + intro H. apply bindM_inv in H as (l & s1 & _ & H). discriminate.
    + intro H. apply IH in H as [-> F]. split; [reflexivity | constructor; assumption].
Qed.

Lemma map_next_some m om todo st l rg' st1 :
  map_next m om todo st = (Ok (Some (l, rg')), st1) ->
  exists skipped k rest, todo = skipped ++ k :: rest /\
    Forall (fun x => ohas x om = false) skipped /\ ohas k om = true /\
    rg' = RgMap m rest /\ hget (st_heap st1) l = Some (HStr k).
Proof.
  induction todo as [|k t IH]; simpl; [discriminate|].
  destruct (ohas k om) eqn:O.
  - intro H. apply bindM_inv in H as (l0 & s1 & A & H). inversion H; subst.
    exists [], k, t. repeat split; [constructor | exact O | eapply alloc_inv; exact A].
  - intro H. apply IH in H as (sk & k' & rest & -> & F & O' & R & V).
    exists (k :: sk), k', rest. repeat split; try assumption. constructor; assumption.
Qed.

Inductive map_walk (m : loc) : list str -> list visit -> for_end -> state -> Prop :=
| mw_done todo om stf :
    hget (st_heap stf) m = Some (HMap om) -> Forall (fun k => ohas k om = false) todo ->
    map_walk m todo [] FeDone stf          (* every remaining snapshot key is gone: loop ends *)
| mw_left todo en stf :
    en <> FeDone -> map_walk m todo [] en stf   (* loop left by break/return *)
| mw_visit skipped k rest v tr en stf om :
    v_rg v = RgMap m (skipped ++ k :: rest) ->
    hget (st_heap (v_st v)) m = Some (HMap om) ->       (* the live map when next() runs *)
    Forall (fun x => ohas x om = false) skipped ->      (* deleted meanwhile: skipped *)
    ohas k om = true ->                                 (* still present: visited *)
    visit_val v = Some (HStr k) ->
    map_walk m rest tr en stf ->
    map_walk m (skipped ++ k :: rest) (v :: tr) en stf.

Lemma for_next_map_none m todo st st1 :
  for_next (RgMap m todo) st = (Ok None, st1) ->
  st1 = st /\ exists om, hget (st_heap st) m = Some (HMap om) /\ Forall (fun k => ohas k om = false) todo.
Proof.
  simpl. intro H. apply bindM_inv in H as (v & s1 & L & H). apply load_inv in L as [-> L].
  destruct v; try discriminate. apply map_next_none in H as [-> F].
  split; [reflexivity|]. exists m0. split; assumption.
Qed.

Lemma for_next_map_some m todo st l rg' st1 :
  for_next (RgMap m todo) st = (Ok (Some (l, rg')), st1) ->
  exists om skipped k rest, hget (st_heap st) m = Some (HMap om) /\ todo = skipped ++ k :: rest /\
    Forall (fun x => ohas x om = false) skipped /\ ohas k om = true /\
    rg' = RgMap m rest /\ hget (st_heap st1) l = Some (HStr k).
Proof.
  simpl. intro H. apply bindM_inv in H as (v & s1 & L & H). apply load_inv in L as [-> L].
  destruct v; try discriminate. apply map_next_some in H as (sk & k & rest & E & F & O & R & V).
  exists m0, sk, k, rest. repeat split; assumption.
Qed.

Theorem for_map_spec P var body m todo e st tr en e' st' :
  for_trace P var body (RgMap m todo) e st tr en e' st' -> map_walk m todo tr en st'.
Proof.
  intro H. remember (RgMap m todo) as rg eqn:R. revert todo R.
  induction H; intros todo R; subst rg.
  - apply for_next_map_none in H as (-> & om & L & F). eapply mw_done; eassumption.
  - apply for_next_map_some in H as (om & sk & k' & rest & L & -> & F & O & _ & V).
    eapply mw_visit; try eassumption; try reflexivity. apply mw_left; discriminate.
  - apply for_next_map_some in H as (om & sk & k' & rest & L & -> & F & O & _ & V).
    eapply mw_visit; try eassumption; try reflexivity. apply mw_left; discriminate.
  - apply for_next_map_some in H as (om & sk & k' & rest & L & -> & F & O & -> & V).
    eapply mw_visit; try eassumption; try reflexivity. apply IHfor_trace; reflexivity.
Qed.

(* visited keys, in order, form a subsequence of the entry snapshot *)
Lemma subseq_nil_l {A} (l : list A) : subseq [] l.
Proof. induction l; constructor; assumption. Qed.

Lemma subseq_skip_app {A} (sk l1 l2 : list A) : subseq l1 l2 -> subseq l1 (sk ++ l2).
Proof. induction sk; simpl; [tauto | intro H; constructor; apply IHsk; exact H]. Qed.

Corollary map_walk_subseq m todo tr en stf :
  map_walk m todo tr en stf ->
  exists ks, map visit_val tr = map (fun k => Some (HStr k)) ks /\ subseq ks todo.
Proof.
  induction 1.
  - exists []. split; [reflexivity | apply subseq_nil_l].
  - exists []. split; [reflexivity | apply subseq_nil_l].
  - destruct IHmap_walk as (ks & E & S). exists (k :: ks). split.
    + simpl. rewrite H3, E. reflexivity.
    + apply subseq_skip_app. apply sub_take. exact S.
Qed.

(* ====================================================================== *)
(* 7. C10 item 1, bindings: shadowing restores the outer variable          *)
(* ====================================================================== *)

(* [assigns x s]: s contains a variable assignment [x = ...] (at any depth;
   declarations [x := ...] and loop variables named x do not count) *)
Fixpoint assigns (x : str) (s : stmt) : bool :=
  match s with
  | SAssign (EVar n _) _ => str_eqb n x
  | SIf conds els =>
      existsb (fun cb => let '(_, b) := cb in existsb (assigns x) b) conds ||
      match els with Some b => existsb (assigns x) b | None => false end
  | SWhile _ b => existsb (assigns x) b
  | SFor _ _ _ b => existsb (assigns x) b
  | _ => false
  end.

(* the cell bound to x in each frame *)
Definition bindings (x : str) (e : env) : list (option loc) := map (frame_get x) e.

Lemma bindings_tl x e : bindings x (tl e) = tl (bindings x e).
Proof. destruct e; reflexivity. Qed.

Lemma frame_get_replace_other x y l f : str_eqb y x = false -> frame_get x (frame_replace y l f) = frame_get x f.
Proof.
  intro N. induction f as [|[k l'] t IH]; simpl; [reflexivity|].
  destruct (str_eqb k y) eqn:E; simpl.
  - apply str_eqb_eq in E; subst k. rewrite N. reflexivity.
  - rewrite IH. reflexivity.
Qed.

Lemma env_update_other x y l e e' :
  env_update y l e = Some e' -> str_eqb y x = false -> bindings x e' = bindings x e.
Proof.
  intros H N. revert e' H. induction e as [|f t IH]; simpl; intros e' H; [discriminate|].
  destruct (frame_get y f).
  - inversion H; subst. simpl. rewrite frame_get_replace_other by exact N. reflexivity.
  - destruct (env_update y l t) as [t'|]; simpl in H; [|discriminate].
    inversion H; subst. simpl. f_equal. apply IH. reflexivity.
Qed.

Lemma post_update_var_other x y l e :
  post (update_var y l e) (fun e' => str_eqb y x = false -> bindings x e' = bindings x e).
Proof.
  intros s e' s' H N. unfold update_var in H.
  destruct (str_eqb y underscore); [inversion H; subst; reflexivity|].
  destruct (env_update y l e) eqn:E.
  - inversion H; subst. eapply env_update_other; eassumption.
  - destruct (frame_get y (st_globals s)); inversion H; subst; reflexivity.
Qed.

Definition var_in_top (var : str) (e : env) : Prop :=
  str_eqb var underscore = true \/ In var (names (hd [] e)).

Lemma post_update_var_top var l e :
  post (update_var var l e) (fun e' => var_in_top var e -> tl e' = tl e /\ var_in_top var e').
Proof.
  intros s e' s' H [U|I]; unfold update_var in H.
  - rewrite U in H. inversion H; subst. split; [reflexivity | left; exact U].
  - destruct (str_eqb var underscore) eqn:U; [inversion H; subst; split; [reflexivity | right; exact I]|].
    destruct e as [|f t]; [contradiction|]. simpl in I. pose proof I as I'. apply frame_get_In in I.
    simpl in H. destruct (frame_get var f); [|congruence]. inversion H; subst.
    split; [reflexivity|]. right. simpl. fold (names (frame_replace var l f)). rewrite frame_replace_names. exact I'.
Qed.

Lemma var_in_top_ext var e e' : ext e e' -> var_in_top var e -> var_in_top var e'.
Proof. intros X [U|I]; [left; exact U | right; eapply ext_keeps_name; eassumption]. Qed.

Section Shadow.
  Variable x : str.

  Definition keeps (e e' : env) : Prop := bindings x e' = bindings x e.
  Definition keeps_tl (e e' : env) : Prop := bindings x (tl e') = bindings x (tl e).

  Lemma keeps_tl_of e e' : keeps e e' -> keeps_tl e e'.
  Proof. unfold keeps, keeps_tl. rewrite !bindings_tl. intros ->. reflexivity. Qed.

  Definition shadow_inv (n : nat) : Prop :=
    (forall P e s, post (exec_stmt n P e s)
       (fun r => assigns x s = false ->
                 keeps_tl e (snd r) /\ (is_decl s = false -> keeps e (snd r)))) /\
    (forall P e l, post (exec_stmts n P e l)
       (fun r => existsb (assigns x) l = false -> keeps_tl e (snd r))) /\
    (forall P e l, post (exec_block n P e l)
       (fun r => existsb (assigns x) l = false -> keeps_tl e (snd r))) /\
    (forall P e c body, post (exec_cond n P e c body)
       (fun r => existsb (assigns x) body = false -> keeps e (snd r))) /\
    (forall P e c body, post (exec_while n P e c body)
       (fun r => existsb (assigns x) body = false -> keeps e (snd r))) /\
    (forall P e var rg body, post (exec_for n P e var rg body)
       (fun r => var_in_top var e -> existsb (assigns x) body = false -> keeps_tl e (snd r))).

  Lemma keep_same e (b : bool) : keeps_tl e e /\ (b = false -> keeps e e).
  Proof. split; [|intro]; reflexivity. Qed.

  Lemma keep_all e e' (b : bool) : keeps e e' -> keeps_tl e e' /\ (b = false -> keeps e e').
  Proof. intro H. split; [apply keeps_tl_of; exact H | intro; exact H]. Qed.

  Lemma keeps_push_pop e e2 : keeps_tl ([] :: e) e2 -> keeps e (tl e2).
  Proof. unfold keeps_tl, keeps. simpl. tauto. Qed.

  Lemma if_go_keeps f P els :
    (forall e l, post (exec_block f P e l)
       (fun r => existsb (assigns x) l = false -> keeps_tl e (snd r))) ->
    (forall e c body, post (exec_cond f P e c body)
       (fun r => existsb (assigns x) body = false -> keeps e (snd r))) ->
    forall cs e, post (if_go f P els cs e)
       (fun r => assigns x (SIf cs els) = false -> keeps e (snd r)).
  Proof.
    intros HB HC cs. induction cs as [|[c body] t IH]; intro e.
    - simpl. destruct els as [body|]; [|apply post_ret; intros _; reflexivity].
      eapply post_bind; [apply HB|]. intros [sig e1] H; simpl in H.
      apply post_ret; simpl. intro A. apply keeps_push_pop. apply H. exact A.
    - cbn [if_go]. eapply post_bind; [apply HC|]. intros [r e1] H; simpl in H.
      destruct r as [sig|].
      + apply post_ret; simpl. intro A. apply H.
        apply orb_false_iff in A as [A _]. apply orb_false_iff in A as [A _]. exact A.
      + eapply post_weaken; [apply IH|]. intros rr Ha; simpl in Ha. simpl. intro A.
        apply orb_false_iff in A as [A A2]. apply orb_false_iff in A as [A0 A1].
        unfold keeps in *. rewrite Ha; [apply H; exact A0|]. simpl. rewrite A1, A2. reflexivity.
  Qed.

  Lemma frame_set_has v l f1 : In v (names (frame_set v l f1)).
  Proof.
    unfold frame_set. destruct (frame_get v f1) eqn:G.
    - rewrite frame_replace_names. apply frame_get_In. congruence.
    - left; reflexivity.
  Qed.

  Lemma bind_loopvar_top var z f1 t :
    post (bind_loopvar var z (f1 :: t))
         (fun e2 => tl e2 = t /\ var_in_top (loopvar_name var) e2).
  Proof.
    destruct var as [v|]; simpl; [|apply post_ret; split; [reflexivity | left; reflexivity]].
    apply post_bind_any; intro l. intros s e2 s' H. unfold set_var in H.
    destruct (str_eqb v underscore) eqn:U; [inversion H; subst; split; [reflexivity | left; exact U]|].
    inversion H; subst. split; [reflexivity|]. right. simpl. apply frame_set_has.
  Qed.

  Lemma for_init_top f P f1 t var vt r :
    post (for_init f P (f1 :: t) var vt r)
         (fun p => tl (snd p) = t /\ var_in_top (loopvar_name var) (snd p)).
  Proof.
    destruct r; simpl.
    - do 3 (apply post_bind_any; intro). mstep; [mstep|].
      eapply post_bind; [apply bind_loopvar_top|]. intros; apply post_ret; assumption.
    - do 2 (apply post_bind_any; intro). mstep; try apply post_internal;
        (eapply post_bind; [apply bind_loopvar_top|]; intros; apply post_ret; assumption).
  Qed.

  Theorem shadow_inv_all : forall n, shadow_inv n.
  Proof.
    induction n as [|f IH].
    { unfold shadow_inv; repeat apply conj; intros; apply post_fail. }
    destruct IH as (Hs & Hss & Hb & Hc & Hw & Hf).
    unfold shadow_inv; repeat apply conj.
    - intros P e s. destruct s.
      + simpl. do 4 (apply post_bind_any; intro).
        eapply post_bind; [apply post_set_var|]. intros e' [_ H2].
        apply post_ret; simpl. intros _. split; [unfold keeps_tl; rewrite H2; reflexivity | discriminate].
      + simpl. do 4 (apply post_bind_any; intro).
        destruct target; try (apply post_internal).
        * eapply post_bind; [apply (post_update_var_other x)|]. intros e' H.
          apply post_ret; simpl. intro A. apply keep_all. apply H. exact A.
        * repeat mstep; simpl; intros _; apply keep_same.
        * repeat mstep; simpl; intros _; apply keep_same.
      + simpl. repeat mstep. simpl. intros _; apply keep_same.
      + simpl. apply post_bind_any; intro. destruct e0; repeat mstep; simpl; intros _; apply keep_same.
      + simpl. repeat mstep; simpl; intros _; apply keep_same.
      + rewrite exec_stmt_if. apply post_bind_any; intro.
        eapply post_weaken; [apply if_go_keeps; [apply Hb | apply Hc]|].
        intros rr Ha A. apply keep_all. apply Ha. exact A.
      + simpl. apply post_bind_any; intro.
        eapply post_weaken; [apply Hw|]. intros rr Ha A. apply keep_all. apply Ha. exact A.
      + rewrite exec_stmt_for. apply post_bind_any; intro.
        eapply post_bind; [apply for_init_top|]. intros [rg e2] [T V]; simpl in T, V.
        eapply post_bind; [apply Hf|]. intros [sig e3] H3; simpl in H3.
        apply post_ret; simpl. intro A. apply keep_all.
        specialize (H3 V A). unfold keeps_tl in H3. rewrite T in H3. exact H3.
      + simpl. repeat mstep; simpl; intros _; apply keep_same.
    - intros P e l. destruct l as [|s t]; [rewrite exec_stmts_nil; apply post_ret; intros _; reflexivity|].
      rewrite exec_stmts_cons. eapply post_bind; [apply Hs|]. intros [sig e1] H; simpl in H.
      destruct (is_ctl sig).
      + apply post_ret. simpl. intro A. apply orb_false_iff in A as [A _]. apply H; exact A.
      + eapply post_weaken; [apply Hss|]. intros rr Ha; simpl in Ha. simpl. intro A.
        apply orb_false_iff in A as [A1 A2]. unfold keeps_tl in *. rewrite (Ha A2). apply H; exact A1.
    - intros P e l. rewrite exec_block_unfold. apply post_bind_any; intro. apply Hss.
    - intros P e c body. rewrite exec_cond_unfold. do 2 (apply post_bind_any; intro).
      destruct a0; try apply post_internal. destruct b; [|apply post_ret; intros _; reflexivity].
      eapply post_bind; [apply Hb|]. intros [sig e2] H; simpl in H.
      apply post_ret; simpl. intro A. apply keeps_push_pop. apply H; exact A.
    - intros P e c body. rewrite while_unfold.
      eapply post_bind; [apply Hc|]. intros [r e1] H; simpl in H.
      destruct r as [[| |v]|]; try (apply post_ret; exact H).
      eapply post_weaken; [apply Hw|]. intros rr Ha; simpl in Ha. simpl. intro A.
      unfold keeps in *. rewrite (Ha A). apply H; exact A.
    - intros P e var rg body. rewrite exec_for_unfold. apply post_bind_any; intros [[l rg']|]; simpl;
        [|apply post_ret; intros _ _; reflexivity].
      eapply post_bind; [apply post_update_var_top|]. intros e1 H1.
      intros s r s' H V A. destruct (H1 V) as [T1 V1].
      apply bindM_inv in H as ([sig e2] & s2 & H2 & H).
      pose proof H2 as H2'. apply Hb in H2'. simpl in H2'. specialize (H2' A).
      assert (V2 : var_in_top var (tl e2)).
      { eapply var_in_top_ext; [|exact V1]. apply shape_ext. apply ext_push_pop.
        destruct (scope_inv_all f) as (_ & _ & Hbs & _). apply Hbs in H2. exact H2. }
      assert (K : keeps_tl e (tl e2)).
      { unfold keeps_tl in *. cbn [tl] in H2'. rewrite (bindings_tl x (tl e2)), H2', <- bindings_tl, T1. reflexivity. }
      destruct sig; try (inversion H; subst; exact K).
      apply Hf in H. simpl in H. specialize (H V2 A). unfold keeps_tl in *. rewrite H. exact K.
  Qed.
End Shadow.

(* A block that contains no assignment [x = ...] leaves x bound, in every
   frame of the enclosing environment, to the cell it was bound to before —
   whatever it declares (shadowing x at any depth), loops over, or calls. *)
Theorem shadowing_restores_outer x n P e body st sig e2 st' :
  exec_block n P ([] :: e) body st = (Ok (sig, e2), st') ->
  existsb (assigns x) body = false ->
  bindings x (tl e2) = bindings x e.
Proof.
  intros H A. destruct (shadow_inv_all x n) as (_ & _ & Hb & _). apply Hb in H. exact (H A).
Qed.

Theorem compound_keeps_bindings x n P e s st sig e' st' :
  exec_stmt n P e s st = (Ok (sig, e'), st') ->
  assigns x s = false ->
  bindings x (tl e') = bindings x (tl e) /\ (is_decl s = false -> bindings x e' = bindings x e).
Proof.
  intros H A. destruct (shadow_inv_all x n) as (Hs & _). apply Hs in H. exact (H A).
Qed.

(* ====================================================================== *)
(* 8. for statements as a whole; the numeric sequence of the task statement *)
(* ====================================================================== *)

Theorem for_stmt_trace n P e var vt r body st sig e' st' :
  exec_stmt n P e (SFor var vt r body) st = (Ok (sig, e'), st') ->
  exists f st0 rg e2 st1 tr en e3,
    for_init f P ([] :: e) var vt r st0 = (Ok (rg, e2), st1) /\     (* range evaluated once, here *)
    tl e2 = e /\ var_in_top (loopvar_name var) e2 /\
    for_trace P (loopvar_name var) body rg e2 st1 tr en e3 st' /\
    sig = for_end_signal en /\ e' = tl e3.
Proof.
  destruct n as [|f]; [discriminate|]. rewrite exec_stmt_for. intro H.
  apply bindM_inv in H as (u & st0 & _ & H). apply bindM_inv in H as ([rg e2] & st1 & HI & H).
  apply bindM_inv in H as ([sg e3] & st2 & HF & H). inversion H; subst.
  apply exec_for_trace in HF as (tr & en & HT & ->).
  pose proof (for_init_top f P [] e var vt r _ _ _ HI) as [T V]. simpl in T, V.
  exists f, st0, rg, e2, st1, tr, en, e3. repeat split; assumption.
Qed.

Lemma range_num_inv f P e1 o d st a st1 :
  range_num f P e1 o d st = (Ok a, st1) ->
  exists l, eval_expr f P e1 (match o with Some y => y | None => ENum d end) st = (Ok l, st1) /\
            hget (st_heap st1) l = Some (HNum a).
Proof.
  unfold range_num. intro H. apply bindM_inv in H as (l & s1 & HE & H).
  apply bindM_inv in H as (v & s2 & L & H). apply load_inv in L as [-> L].
  destruct v; try discriminate. inversion H; subst. exists l. split; assumption.
Qed.

(* numeric range: the ranger is built from the three numbers obtained by
   evaluating start / stop / step (defaults 0 and 1) once, in this order *)
Theorem for_init_step_inv f P e1 var vt start stop step st rg e2 st' :
  for_init f P e1 var vt (RStep start stop step) st = (Ok (rg, e2), st') ->
  exists a st1 b st2 c st3,
    range_num f P e1 start 0%float st = (Ok a, st1) /\
    range_num f P e1 (Some stop) 0%float st1 = (Ok b, st2) /\
    range_num f P e1 step 1%float st2 = (Ok c, st3) /\
    PrimFloat.eqb c 0 = false /\ rg = RgStep a b c.
Proof.
  rewrite for_init_step_unfold. intro H.
  apply bindM_inv in H as (a & st1 & A & H). apply bindM_inv in H as (b & st2 & B & H).
  apply bindM_inv in H as (c & st3 & C & H). destruct (PrimFloat.eqb c 0) eqn:Z; [discriminate|].
  apply bindM_inv in H as (e2' & st4 & _ & H). inversion H; subst.
  exists a, st1, b, st2, c, st3. repeat split; assumption.
Qed.

(* array / string / map range: the ranger holds the array CELL (re-read at each
   step), the STRING VALUE at loop entry, the map cell and the KEY ORDER at loop entry *)
Theorem for_init_expr_inv f P e1 var vt y st rg e2 st' :
  for_init f P e1 var vt (RExpr y) st = (Ok (rg, e2), st') ->
  exists l st1, eval_expr f P e1 y st = (Ok l, st1) /\
    match hget (st_heap st1) l with
    | Some (HArr _) => rg = RgArr l 0
    | Some (HStr s) => rg = RgStr s 0
    | Some (HMap om) => rg = RgMap l (order om)
    | _ => False
    end.
Proof.
  simpl. intro H. apply bindM_inv in H as (l & st1 & E & H).
  apply bindM_inv in H as (v & s2 & L & H). apply load_inv in L as [-> L].
  exists l, st1. split; [exact E|]. rewrite L.
  destruct v; try discriminate; apply bindM_inv in H as (e2' & st4 & _ & H); inversion H; reflexivity.
Qed.

(* --- the task's [steps] agrees with Go's stop test when no NaN is involved --- *)
Import SpecFloat.

Lemma SFcompare_antisym x y : SFcompare y x = option_map CompOpp (SFcompare x y).
Proof.
  destruct x as [sx|sx| |sx mx ex], y as [sy|sy| |sy my ey]; simpl; try reflexivity;
    try (destruct sx; reflexivity); try (destruct sy; reflexivity); try (destruct sx, sy; reflexivity).
  change (Pos.compare_cont Eq my mx) with (Pos.compare my mx).
  change (Pos.compare_cont Eq mx my) with (Pos.compare mx my).
  rewrite (Z.compare_antisym ex ey), (Pos.compare_antisym mx my).
  destruct sx, sy; try reflexivity; destruct (ex ?= ey)%Z; simpl; try reflexivity.
Qed.

Lemma not_nan_compare x y : is_nan x = false -> is_nan y = false ->
  exists c, SFcompare (Prim2SF x) (Prim2SF y) = Some c.
Proof.
  unfold is_nan. rewrite !FloatAxioms.eqb_spec. unfold SFeqb. intros Hx Hy.
  destruct (Prim2SF x) as [sx|sx| |sx mx ex], (Prim2SF y) as [sy|sy| |sy my ey]; simpl in *;
    try discriminate; eexists; reflexivity.
Qed.

Lemma leb_negb_ltb x y : is_nan x = false -> is_nan y = false ->
  PrimFloat.leb y x = negb (PrimFloat.ltb x y).
Proof.
  intros Hx Hy. rewrite FloatAxioms.leb_spec, FloatAxioms.ltb_spec. unfold SFleb, SFltb.
  rewrite SFcompare_antisym. destruct (not_nan_compare x y Hx Hy) as [c ->]. destruct c; reflexivity.
Qed.

Lemma ltb_asym x y : PrimFloat.ltb x y = true -> PrimFloat.ltb y x = false.
Proof.
  rewrite !FloatAxioms.ltb_spec. unfold SFltb. rewrite (SFcompare_antisym (Prim2SF x) (Prim2SF y)).
  destruct (SFcompare (Prim2SF x) (Prim2SF y)) as [[]|]; simpl; congruence.
Qed.

Lemma nonzero_sign s : is_nan s = false -> PrimFloat.eqb s 0 = false ->
  PrimFloat.ltb 0 s = true \/ PrimFloat.ltb s 0 = true.
Proof.
  intros Hs Hz. assert (H0 : is_nan 0 = false) by reflexivity.
  destruct (not_nan_compare s 0%float Hs H0) as [c Hc].
  rewrite FloatAxioms.eqb_spec in Hz. rewrite !FloatAxioms.ltb_spec. unfold SFeqb, SFltb in *.
  rewrite (SFcompare_antisym (Prim2SF s) (Prim2SF 0)), Hc in *. destruct c; simpl in *; auto; discriminate.
Qed.

Lemma step_live_done cur stop step :
  is_nan cur = false -> is_nan stop = false -> is_nan step = false -> PrimFloat.eqb step 0 = false ->
  step_live cur stop step = negb (step_done cur stop step).
Proof.
  intros Hc Hs Ht Hz. unfold step_live, step_done.
  rewrite (leb_negb_ltb cur stop Hc Hs), (leb_negb_ltb stop cur Hs Hc).
  destruct (nonzero_sign step Ht Hz) as [Q|Q]; rewrite Q, (ltb_asym _ _ Q); simpl;
    rewrite ?orb_false_r, negb_involutive; reflexivity.
Qed.

Fixpoint iter_add (j : nat) (cur step : float) : float :=
  match j with O => cur | S j' => iter_add j' (cur + step)%float step end.

Lemma steps_agree k : forall cur stop step,
  is_nan stop = false -> is_nan step = false -> PrimFloat.eqb step 0 = false ->
  (forall j, j < k -> is_nan (iter_add j cur step) = false) ->
  steps k cur stop step = go_steps k cur stop step.
Proof.
  induction k as [|k IH]; intros cur stop step Hs Ht Hz Hn; [reflexivity|].
  simpl. rewrite step_live_done; try assumption; [|apply (Hn 0); lia].
  destruct (step_done cur stop step); simpl; [reflexivity|]. f_equal.
  apply IH; try assumption. intros j Hj. apply (Hn (S j)). lia.
Qed.

(* for_num_spec with the sequence as defined in the property text, valid
   whenever no NaN is involved *)
Theorem for_num_spec_steps P var body a b c e st tr en e' st' :
  for_trace P var body (RgStep a b c) e st tr en e' st' ->
  is_nan b = false -> is_nan c = false -> PrimFloat.eqb c 0 = false ->
  (forall j, j <= List.length tr -> is_nan (iter_add j a c) = false) ->
  map visit_val tr = map (fun x => Some (HNum x)) (steps (List.length tr) a b c) /\
  (en = FeDone -> steps (S (List.length tr)) a b c = steps (List.length tr) a b c).
Proof.
  intros H Hb Hc Hz Hn. apply for_num_spec in H as [H1 H2].
  rewrite !steps_agree; try assumption; [split; assumption | |]; intros j Hj; apply Hn; lia.
Qed.

(* ... and refuted when the start value is NaN: the sequence of the property
   text is empty, the loop (in the model as in ranger.go, whose stop test is
   "step > 0 && cur >= stop") never ends *)
Definition f_nan : float := Eval vm_compute in (0 / 0)%float.

Lemma nan_loop_never_ends : forall n P e st r st',
  exec_for n P e underscore (RgStep f_nan 1 1) [] st <> (Ok r, st').
Proof.
  induction n as [|f IH]; intros P e st r st' H; [discriminate|].
  rewrite exec_for_unfold in H. apply bindM_inv in H as (nx & st1 & H1 & H).
  simpl in H1. change (step_done f_nan 1 1) with false in H1. cbv iota in H1.
  apply bindM_inv in H1 as (l & s1 & _ & H1). inversion H1; subst. simpl in H.
  change (f_nan + 1)%float with f_nan in H.
  apply bindM_inv in H as (e1 & st2 & U & H). unfold update_var in U. simpl in U. inversion U; subst.
  apply bindM_inv in H as ([sg e2] & st3 & B & H).
  destruct f as [|f']; [discriminate|]. rewrite exec_block_unfold in B.
  apply bindM_inv in B as (u & st4 & _ & B). destruct f' as [|f'']; [discriminate|].
  rewrite exec_stmts_nil in B. inversion B; subst. exact (IH _ _ _ _ _ H).
Qed.

Theorem for_num_spec_nan_refuted :
  exists a b c, PrimFloat.eqb c 0 = false /\ steps 5 a b c = [] /\
    go_steps 5 a b c = [a; a; a; a; a] /\
    forall n P e st r st', exec_for n P e underscore (RgStep a b c) [] st <> (Ok r, st').
Proof.
  exists f_nan, 1%float, 1%float.
  split; [vm_compute; reflexivity|]. split; [vm_compute; reflexivity|]. split; [vm_compute; reflexivity|].
  apply nan_loop_never_ends.
Qed.

(* the unrestricted statement with the property text's sequence is false *)
Definition for_num_spec_full : Prop :=
  forall P var body a b c e st tr en e' st',
    for_trace P var body (RgStep a b c) e st tr en e' st' ->
    PrimFloat.eqb c 0 = false ->
    map visit_val tr = map (fun x => Some (HNum x)) (steps (List.length tr) a b c) /\
    (en = FeDone -> steps (S (List.length tr)) a b c = steps (List.length tr) a b c).

Definition empty_prog : program := {| p_funcs := []; p_handlers := []; p_stmts := [] |}.

Theorem for_num_spec_full_refuted : ~ for_num_spec_full.
Proof.
  intro F.
  assert (T : exists v e' st', for_trace empty_prog underscore [SBreak] (RgStep f_nan 1 1) []
                 (init_state None [] false false) [v] FeBreak e' st').
  { eexists; eexists; eexists. eapply ft_break with (k := 3%nat); reflexivity. }
  destruct T as (v & e' & st' & T). destruct (F _ _ _ _ _ _ _ _ _ _ _ _ T eq_refl) as [T' _]. clear T; rename T' into T.
  simpl in T. change (step_live f_nan 1 1) with false in T. discriminate.
Qed.

(* ====================================================================== *)
(* 9. The named statements of the property, assembled                      *)
(* ====================================================================== *)

Theorem break_leaves_innermost_loop :
  (* a break signal arriving from the body ends the while loop, which reports no signal *)
  (forall f P e c body st e1 st1,
     exec_cond f P e c body st = (Ok (Some SigBreak, e1), st1) ->
     exec_while (S f) P e c body st = (Ok (SigNone, e1), st1)) /\
  (* the same for every kind of for loop *)
  (forall f P e var rg body st l rg' st1 e1 st2 e2 st3,
     for_next rg st = (Ok (Some (l, rg')), st1) -> update_var var l e st1 = (Ok e1, st2) ->
     exec_block f P ([] :: e1) body st2 = (Ok (SigBreak, e2), st3) ->
     exec_for (S f) P e var rg body st = (Ok (SigNone, tl e2), st3)) /\
  (* no loop ever reports a break to its surroundings, whatever its body is *)
  (forall n P e c body st sig e' st',
     exec_while n P e c body st = (Ok (sig, e'), st') -> sig <> SigBreak) /\
  (forall n P e var rg body st sig e' st',
     exec_for n P e var rg body st = (Ok (sig, e'), st') -> sig <> SigBreak) /\
  (* a statement reports a break only if it is a break nested in if-blocks only *)
  (forall n P e s st e' st',
     exec_stmt n P e s st = (Ok (SigBreak, e'), st') -> break_reachable s = true) /\
  (* on the way out: a statement list stops at the signalling statement, and an
     if statement reports exactly the signal of the block it ran *)
  (forall f P e s t st sig e1 st1,
     exec_stmt f P e s st = (Ok (sig, e1), st1) -> is_ctl sig = true ->
     exec_stmts (S f) P e (s :: t) st = (Ok (sig, e1), st1)) /\
  (forall n P e conds els st sig e' st',
     exec_stmt n P e (SIf conds els) st = (Ok (sig, e'), st') ->
     (sig = SigNone /\ e' = e) \/
     exists body k st0 e2, In body (if_bodies conds els) /\
       exec_block k P ([] :: e) body st0 = (Ok (sig, e2), st') /\ e' = tl e2).
Proof.
  repeat apply conj.
  - exact while_break_ends_loop.
  - exact for_break_ends_loop.
  - exact while_consumes_break.
  - exact for_consumes_break.
  - exact break_origin.
  - exact stmts_signal_stops.
  - exact if_signal_is_block_signal.
Qed.

Theorem return_leaves_call :
  (* every enclosing construct passes SigReturn v on unchanged ... *)
  (forall f P e s t st v e1 st1,
     exec_stmt f P e s st = (Ok (SigReturn v, e1), st1) ->
     exec_stmts (S f) P e (s :: t) st = (Ok (SigReturn v, e1), st1)) /\
  (forall f P e l st st0 sig e' st',
     tick st = (Ok tt, st0) -> exec_stmts f P e l st0 = (Ok (sig, e'), st') ->
     exec_block (S f) P e l st = (Ok (sig, e'), st')) /\
  (forall f P e c body st l st1 st2 sig e2 st',
     eval_expr f P ([] :: e) c st = (Ok l, st1) -> load l st1 = (Ok (HBool true), st2) ->
     exec_block f P ([] :: e) body st2 = (Ok (sig, e2), st') ->
     exec_cond (S f) P e c body st = (Ok (Some sig, tl e2), st')) /\
  (forall f P els c body t e st sig e1 st1,
     exec_cond f P e c body st = (Ok (Some sig, e1), st1) ->
     if_go f P els ((c, body) :: t) e st = (Ok (sig, e1), st1)) /\
  (forall f P e c body st v e1 st1,
     exec_cond f P e c body st = (Ok (Some (SigReturn v), e1), st1) ->
     exec_while (S f) P e c body st = (Ok (SigReturn v, e1), st1)) /\
  (forall f P e var rg body st l rg' st1 e1 st2 v e2 st3,
     for_next rg st = (Ok (Some (l, rg')), st1) -> update_var var l e st1 = (Ok e1, st2) ->
     exec_block f P ([] :: e1) body st2 = (Ok (SigReturn v, e2), st3) ->
     exec_for (S f) P e var rg body st = (Ok (SigReturn v, tl e2), st3)) /\
  (* ... and the call consumes it: SigReturn v becomes the call's value, the
     callee environment is dropped *)
  (forall f P fd vals st fr st1 v e2 st2,
     call_frame fd vals st = (Ok fr, st1) ->
     exec_block f P [fr] (fn_body fd) st1 = (Ok (SigReturn v, e2), st2) ->
     call_user f P fd vals st = (Ok v, st2)) /\
  (forall f P fd vals st fr st1 sig e2 st2,
     call_frame fd vals st = (Ok fr, st1) ->
     exec_block f P [fr] (fn_body fd) st1 = (Ok (sig, e2), st2) ->
     (forall v, sig <> SigReturn v) ->
     call_user f P fd vals st = (let* l := alloc HNone in ret (Some l)) st2) /\
  (* a return signal originates from a return statement under if/while/for blocks *)
  (forall n P e s st v e' st',
     exec_stmt n P e s st = (Ok (SigReturn v, e'), st') -> return_reachable s = true).
Proof.
  repeat apply conj.
  - intros. eapply stmts_signal_stops; [eassumption | reflexivity].
  - exact block_passes_signal.
  - exact cond_passes_signal.
  - exact if_go_taken.
  - exact while_return_passes.
  - exact for_return_passes.
  - exact call_user_return.
  - exact call_user_no_return.
  - exact return_origin.
Qed.
