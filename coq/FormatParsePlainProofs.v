(* FormatParsePlainProofs.v — C06: no token the formatter writes for a statement of the round-trip
   fragment is ILLEGAL or the keyword func.  (Parser.parse drops ILLEGAL tokens and its signature
   pre-pass reacts to every `func` token of the raw list; this lemma is what lets the program
   theorem do without a lexical hypothesis.) *)
From Coq Require Import List String NArith ZArith Bool Arith Lia.
From EvyV Require Import Base FmtAst Format FormatProofs Pratt PrattProofs Parser ParserProofs ParserRules ParserScope
  FormatParse FormatParseProofs FormatParseListProofs FormatParseStmtProofs FormatParseTargetProofs FormatParseBlockProofs.
From EvyV.Gen Require Import Prec.
Import ListNotations.
Local Open Scope nat_scope.

Definition plainp (p : piece) : bool := match p with T s => tok_plain s | _ => true end.
Definition plain_tok (t : token) : Prop := ttype t <> T_ILLEGAL /\ ttype t <> T_FUNC.
Notation allp ps := (forallb plainp ps = true).

Lemma plain_toks ps : allp ps -> Forall plain_tok (toks_of_pieces ps).
Proof.
  induction ps as [|p r IH]; intro H; [constructor|]. cbn [forallb] in H. apply andb_true_iff in H as [Hp Hr].
  unfold toks_of_pieces. cbn [flat_map]. apply Forall_app. split; [|exact (IH Hr)].
  destruct p as [s|q|c| | |n]; cbn [tok_of_piece]; try (repeat constructor; discriminate).
  - constructor; [|constructor]. cbn [plainp] in Hp. unfold tok_plain in Hp. unfold plain_tok.
    destruct (ttype (tok_of_text s)); try discriminate Hp; split; discriminate.
  - destruct n; repeat constructor; discriminate.
Qed.

Lemma allp_app a b : allp a -> allp b -> allp (a ++ b).
Proof. intros Ha Hb. rewrite forallb_app, Ha, Hb. reflexivity. Qed.
Lemma allp_cons p a : plainp p = true -> allp a -> allp (p :: a).
Proof. intros Hp Ha. cbn [forallb]. rewrite Hp, Ha. reflexivity. Qed.

Lemma ident_plain s : ident_text s = true -> tok_plain s = true.
Proof. intro H. unfold tok_plain. rewrite (ident_text_spec s H). reflexivity. Qed.
Lemma num_plain s : num_text s = true -> tok_plain s = true.
Proof. intro H. destruct (num_text_spec s H) as [Ht _]. unfold tok_plain. rewrite Ht. reflexivity. Qed.
Lemma op_plain o : tok_plain (op_str o) = true.
Proof. destruct o; vm_compute; reflexivity. Qed.
Lemma key_plain k : key_text k = true -> tok_plain k = true.
Proof. unfold key_text. intro H. apply andb_true_iff in H as [_ H]. exact H. Qed.

Lemma fmt_type_plain : forall t, allp (fmt_type t).
Proof.
  fix IH 1. intros [n sub]. cbn [fmt_type]. apply allp_app; [destruct n; reflexivity|]. destruct sub as [s|]; [apply IH|reflexivity].
Qed.

Lemma raw_item_plain m : allp (raw_item m).
Proof. unfold raw_item. destruct (item_is_nl m); [reflexivity|]. destruct (ends_with_nl m); reflexivity. Qed.

Lemma arr_loop_plain l multi : forall els, Forall (fun e => allp e) els -> allp (arr_loop l multi els).
Proof.
  induction multi as [|m r IH]; intros els H; [reflexivity|]. cbn [arr_loop]. destruct (item_is_el m).
  - destruct els as [|e els']; [reflexivity|]. inversion H; subst.
    apply allp_app; [assumption|]. apply allp_app; [destruct (next_not_nl r); reflexivity | apply IH; assumption].
  - apply allp_app; [apply raw_item_plain|]. apply allp_app; [destruct (next_not_nl r); reflexivity | apply IH; assumption].
Qed.

Lemma lookup_pieces_plain k : forall kvs, Forall (fun kv => allp (snd kv)) kvs -> allp (lookup_pieces k kvs).
Proof.
  induction kvs as [|[k' v] r IH]; intro H; [reflexivity|]. inversion H; subst. cbn [lookup_pieces].
  destruct (str_eqb k' k); [assumption | apply IH; assumption].
Qed.

Lemma map_loop_plain l kvs : Forall (fun kv => allp (snd kv)) kvs -> forall multi,
  Forall (fun m => item_is_key m = true -> tok_plain m = true) multi -> allp (map_loop l multi kvs).
Proof.
  intros Hk. induction multi as [|m r IH]; intro H; [reflexivity|]. inversion H as [|? ? Hm Hr]; subst. cbn [map_loop].
  destruct (item_is_key m) eqn:E.
  - cbn [app]. apply allp_cons; [exact (Hm eq_refl)|]. apply allp_cons; [reflexivity|].
    apply allp_app; [apply lookup_pieces_plain, Hk|]. apply allp_app; [destruct (next_not_nl r); reflexivity | exact (IH Hr)].
  - apply allp_app; [apply raw_item_plain|]. apply allp_app; [destruct (next_not_nl r); reflexivity | exact (IH Hr)].
Qed.

Section Plain.
  Variable fx : fixes.

  (* the layered fragment *)
  Lemma base_plain : forall e lvl, frag e = true -> prec_ok e = true -> lex_ok e = true -> allp (fmt_expr fx lvl e).
  Proof.
    induction e as [n|b t|v q|b|e IH|items els IH|items keys vals IH|n args IH|op r IH|op w l r IHl IHr|l i IHl IHi|l s e IHl IHs IHe|l k IHl|l t IHl|e IH] using fexpr_ind';
      intros lvl Hf Hp Hl; cbn [frag prec_ok lex_ok] in Hf, Hp, Hl; try discriminate Hf; cbn [fmt_expr].
    - cbn [forallb plainp]. rewrite (ident_plain n Hl). reflexivity.
    - cbn [forallb plainp]. rewrite (num_plain t Hl). reflexivity.
    - reflexivity.
    - destruct b; reflexivity.
    - apply IH; assumption.
    - apply andb_true_iff in Hp as [_ Hp]. apply allp_cons; [apply op_plain | apply IH; assumption].
    - apply andb_true_iff in Hf as [Hf1 Hf2]. apply andb_true_iff in Hl as [Hl1 Hl2].
      destruct (binop_rank op); [|discriminate Hp]. repeat (apply andb_true_iff in Hp as [Hp ?]).
      apply allp_app; [apply IHl; assumption|]. apply allp_app; [destruct w; reflexivity|]. apply allp_app; [cbn [forallb plainp]; rewrite op_plain; reflexivity|].
      apply allp_app; [destruct w; reflexivity | apply IHr; assumption].
    - apply andb_true_iff in Hf as [Hf1 Hf2]. apply andb_true_iff in Hl as [Hl1 Hl2]. repeat (apply andb_true_iff in Hp as [Hp ?]).
      apply allp_app; [apply IHl; assumption|]. apply allp_app; [reflexivity|]. apply allp_app; [apply IHi; assumption | reflexivity].
    - repeat (apply andb_true_iff in Hf as [Hf ?]). repeat (apply andb_true_iff in Hl as [Hl ?]). repeat (apply andb_true_iff in Hp as [Hp ?]).
      apply allp_app; [apply IHl; assumption|]. apply allp_app; [reflexivity|].
      apply allp_app; [destruct s as [x|]; [apply (IHs x eq_refl); assumption | reflexivity]|].
      apply allp_app; [reflexivity|]. apply allp_app; [destruct e as [x|]; [apply (IHe x eq_refl); assumption | reflexivity] | reflexivity].
    - apply andb_true_iff in Hf as [Hf1 Hf2]. apply andb_true_iff in Hp as [_ Hp].
      apply allp_app; [apply IHl; assumption|]. cbn [forallb plainp]. rewrite (ident_plain k Hf2). reflexivity.
    - apply andb_true_iff in Hl as [Hl1 _]. apply andb_true_iff in Hp as [_ Hp].
      apply allp_app; [apply IHl; assumption|]. apply allp_app; [reflexivity|]. apply allp_app; [apply fmt_type_plain | reflexivity].
    - apply allp_cons; [reflexivity|]. apply allp_app; [apply IH; assumption | reflexivity].
  Qed.

  (* the list-level closure: literals, parenthesised calls, bare niladic calls *)
  Lemma args_plain lvl args : Forall (fun a => allp (fmt_expr fx lvl a)) args -> allp (flat_map (fun a => Sp :: fmt_expr fx lvl a) args).
  Proof. induction 1 as [|a r Ha _ IH]; [reflexivity|]. cbn [flat_map]. apply allp_cons; [reflexivity|]. apply allp_app; assumption. Qed.

  Definition IP E (e : fexpr) : Prop := forall w lvl, item_ok E w e -> allp (fmt_expr fx lvl e).
  Lemma item_plain_gen E : forall e,
    IP E e /\ match e with FCall _ args => Forall (IP E) args | _ => True end.
  Proof.
    induction e as [n|b t|v q|b|e IH|items els IH|items keys vals IH|n args IH|op r IH|op w0 l r IHl IHr|l i IHl IHi|l s e IHl IHs IHe|l k IHl|l t IHl|e IH] using fexpr_ind';
      (split; [|try exact I]); try (intros w lvl H; cbn [item_ok] in H);
      try (destruct H as (Hf & Hp & Hl & _); apply base_plain; assumption).
    - cbn [fmt_expr]. apply (proj1 IH w lvl H).
    - (* array *)
      destruct H as [_ Hall]. apply all_Forall in Hall. cbn [fmt_expr]. unfold fmt_array.
      destruct (format_multiline items) as [|m0 multi] eqn:Em; [reflexivity|].
      apply allp_cons; [reflexivity|]. apply allp_app; [destruct (first_is_comment _); reflexivity|].
      apply allp_app; [|apply allp_app; [destruct (if fix_br fx then _ else _); reflexivity | reflexivity]].
      apply arr_loop_plain. apply Forall_map. rewrite Forall_forall in *. intros a Ha. exact (proj1 (IH a Ha) true (S lvl) (Hall a Ha)).
    - (* map *)
      destruct H as (Hwf & Hk & Hall). apply all_Forall in Hall. cbn [fmt_expr]. unfold fmt_map.
      destruct (format_multiline items) as [|m0 multi] eqn:Em; [reflexivity|].
      apply allp_cons; [reflexivity|]. apply allp_app; [destruct (first_is_comment _); reflexivity|].
      apply allp_app; [|apply allp_app; [destruct (if fix_br fx then _ else _); reflexivity | reflexivity]].
      apply map_loop_plain.
      + assert (Hv : Forall (fun v => allp v) (map (fmt_expr fx (S lvl)) vals)).
        { apply Forall_map. rewrite Forall_forall in *. intros a Ha. exact (proj1 (IH a Ha) true (S lvl) (Hall a Ha)). }
        clear - Hv. revert keys. induction Hv as [|v r Hv _ IHv]; intros [|k keys]; cbn [combine]; constructor; [exact Hv | apply IHv].
      + cbn [wf_expr] in Hwf. repeat (apply andb_true_iff in Hwf as [Hwf ?]).
        destruct (list_eq_dec str_eq_dec (filter item_is_key items) keys) as [Ek|]; [|discriminate].
        assert (Ef : filter item_is_key (m0 :: multi) = keys).
        { rewrite <- Em. unfold format_multiline. rewrite fm_loop_filter by apply item_nl_not_key. exact Ek. }
        apply Forall_forall. intros m Hm Hkey. apply key_plain. rewrite forallb_forall in Hk. apply Hk.
        rewrite <- Ef. apply filter_In. split; assumption.
    - (* a bare niladic call *)
      destruct args as [|a r]; [|destruct H as (Hf & _); discriminate Hf]. destruct H as [Hn _]. cbn [fmt_expr flat_map forallb plainp].
      rewrite (ident_plain n Hn). reflexivity.
    - (* the arguments of a call *)
      rewrite Forall_forall in *. intros a Ha. exact (proj1 (IH a Ha)).
    - (* group *)
      destruct e as [| | | | | | |n args| | | | | | |]; try (destruct H as (Hf & Hp & Hl & _); apply base_plain; assumption).
      destruct H as (Hn & _ & _ & Hall). apply all_Forall in Hall. cbn [fmt_expr]. apply allp_cons; [reflexivity|].
      apply allp_app; [|reflexivity]. apply allp_cons; [apply ident_plain, Hn|]. apply args_plain.
      destruct IH as [_ IHa]. rewrite Forall_forall in *. intros a Ha. exact (IHa a Ha true lvl (Hall a Ha)).
  Qed.

  Lemma item_plain E e w lvl : item_ok E w e -> allp (fmt_expr fx lvl e).
  Proof. exact (proj1 (item_plain_gen E e) w lvl). Qed.

  Lemma top_plain E v lvl : top_ok E v -> allp (fmt_expr fx lvl v).
  Proof.
    intros [H|(n & args & -> & Hn & _ & _ & Hall)]; [exact (item_plain E v false lvl H)|].
    cbn [fmt_expr]. apply allp_cons; [apply ident_plain, Hn|]. apply args_plain.
    rewrite Forall_forall in *. intros a Ha. exact (item_plain E a true lvl (Hall a Ha)).
  Qed.

  (* ---------- statements ---------- *)
  Variable B : benv.
  Variable F : list (str * finfo).

  Definition PL_sok (fr : frs) (G : ctx) (st : fstmt) : Prop := forall lvl, allp (fmt_stmt fx lvl st).
  Definition elif_pieces (lvl : nat) (cbs : list cblock) : list piece :=
    flat_map (fun cb => match cb with
                        | CBlock cond c body =>
                            [Ind lvl; T k_else; Sp; T k_if; Sp] ++ fmt_expr fx lvl cond ++ write_comment c ++ [NL]
                            ++ stmts_loop (S lvl) false (map (fun x => (is_blank x, fmt_stmt fx (S lvl) x)) body)
                        end) cbs.
  Definition PL_coks (fr : frs) (G : ctx) (cbs : list cblock) (Gout : ctx) : Prop := forall lvl, allp (elif_pieces lvl cbs).
  Definition PL_boks (fr : frs) (G : ctx) (t e : bool) (body : list fstmt) : Prop :=
    forall L e', allp (stmts_loop L e' (map (fun x => (is_blank x, fmt_stmt fx L x)) body)).

  Ltac pl := repeat first [reflexivity | assumption | apply allp_cons | apply allp_app].

  Lemma range_plain E lvl r : Forall (item_ok E true) (range_exprs r) -> allp (fmt_range fx lvl r).
  Proof.
    intro H. destruct r as [[a|] b [c|]|e]; cbn [range_exprs app] in H; cbn [fmt_range];
      repeat match goal with H : Forall _ (_ :: _) |- _ => inversion H; clear H; subst end;
      pl; eapply item_plain; eassumption.
  Qed.

  Lemma sok_plain :
    (forall fr G st, sok B F fr G st -> PL_sok fr G st) /\
    (forall fr G cbs Gout, coks B F fr G cbs Gout -> PL_coks fr G cbs Gout) /\
    (forall fr G t e body, boks B F fr G t e body -> PL_boks fr G t e body).
  Proof.
    assert (C1 : forall fr G x t ty, ident_text x = true -> fty_ty t = Some ty -> declare (tabs_of B F) false x G <> None -> PL_sok fr G (FmtAst.STypedDecl x t [])).
    { intros fr G x t ty Hx _ _ lvl. cbn [fmt_stmt]. unfold write_decl, write_comment. cbn [is_empty]. pl; [apply ident_plain, Hx | apply fmt_type_plain]. }
    assert (C2 : forall fr G x v, ident_text x = true -> declare (tabs_of B F) false x G <> None -> top_ok (envG B F G) v -> PL_sok fr G (FmtAst.SInferredDecl x v [])).
    { intros fr G x v Hx _ Hv lvl. cbn [fmt_stmt]. unfold write_comment. cbn [is_empty]. pl; [apply ident_plain, Hx | eapply top_plain; eassumption]. }
    assert (Ctgt : forall G t x steps lvl, tgt_split t = Some (x, steps) -> ident_text x = true -> Forall (step_ok (envG B F G)) steps ->
                 allp (fmt_expr fx lvl t)).
    { intros G. induction t; intros x steps lvl Hsp Hx Hst; cbn [tgt_split] in Hsp; try discriminate Hsp.
      - injection Hsp as <- <-. cbn [fmt_expr forallb plainp]. rewrite (ident_plain _ Hx). reflexivity.
      - destruct (tgt_split t1) as [[x' st']|] eqn:E1; [|discriminate Hsp]. injection Hsp as <- <-.
        apply Forall_app in Hst as [Hst1 Hst2]. inversion Hst2 as [|? ? Hi _]; subst. cbn [step_ok] in Hi. cbn [fmt_expr].
        pl; [eapply IHt1; eauto | eapply top_plain; eassumption].
      - destruct (tgt_split t) as [[x' st']|] eqn:E1; [|discriminate Hsp]. injection Hsp as <- <-.
        apply Forall_app in Hst as [Hst1 Hst2]. inversion Hst2 as [|? ? Hk _]; subst. cbn [step_ok] in Hk. cbn [fmt_expr].
        pl; [eapply IHt; eauto | apply key_plain, Hk]. }
    assert (C3 : forall fr G t x steps v, tgt_split t = Some (x, steps) -> ident_text x = true -> mem_str x (map fst F) = false -> cvisible x G = true ->
                 Forall (step_ok (envG B F G)) steps -> top_ok (envG B F G) v -> PL_sok fr G (FmtAst.SAssign t v [])).
    { intros fr G t x steps v Hsp Hx _ _ Hst Hv lvl. cbn [fmt_stmt]. unfold write_comment. cbn [is_empty]. pl; [eapply Ctgt; eassumption | eapply top_plain; eassumption]. }
    assert (C4 : forall fr G n args fi, ident_text n = true -> lookup_fn n F = Some fi -> arity_wrong (envG B F G) n (List.length args) = false ->
                 Forall (item_ok (envG B F G) true) args -> PL_sok fr G (FmtAst.SCall n args [])).
    { intros fr G n args fi Hn _ _ Hall lvl. cbn [fmt_stmt]. unfold write_comment, fmt_call. cbn [is_empty]. pl; [apply ident_plain, Hn|].
      apply args_plain. rewrite Forall_forall in *. intros a Ha. eapply item_plain. exact (Hall a Ha). }
    assert (C5 : forall fr G v, fr_ret fr = true -> top_ok (envG B F G) v -> PL_sok fr G (FmtAst.SReturn (Some v) [])).
    { intros fr G v _ Hv lvl. cbn [fmt_stmt]. unfold write_comment. cbn [is_empty]. pl. eapply top_plain; eassumption. }
    assert (Cblock : forall (fr : frs) G t e body lvl, PL_boks fr G t e body ->
              allp (stmts_loop (S lvl) false (map (fun x => (is_blank x, fmt_stmt fx (S lvl) x)) body) ++ [Ind lvl; T k_end] ++ write_comment [])).
    { intros fr G t e body lvl IH. unfold write_comment. cbn [is_empty]. pl. apply IH. }
    assert (C6 : forall fr G c body G1, top_ok (envG B F G) c -> body_trees false body <> [] ->
                 use_vars (tvars (fexpr_tree c)) ([] :: G) = Some G1 -> boks B F (fr_push true fr) G1 false false body ->
                 PL_boks (fr_push true fr) G1 false false body -> PL_sok fr G (FmtAst.SWhile c [] body [])).
    { intros fr G c body G1 Hc _ _ _ IH lvl. cbn [fmt_stmt]. unfold write_comment at 1. cbn [is_empty].
      pl; [eapply top_plain; eassumption | apply IH]. }
    assert (C7 : forall fr G lv r body Gd G1,
                 match lv with Some x => ident_text x = true /\ declare (tabs_of B F) false x ([] :: G) = Some Gd | None => Gd = [] :: G end ->
                 Forall (item_ok (envG B F Gd) true) (range_exprs r) ->
                 PL_boks (fr_push true fr) G1 false false body -> PL_sok fr G (FmtAst.SFor lv r [] body [])).
    { intros fr G lv r body Gd G1 Hlv Hall IH lvl. cbn [fmt_stmt]. unfold write_comment at 1. cbn [is_empty].
      pl; [destruct lv as [x|]; [destruct Hlv as [Hx _]; pl; apply ident_plain, Hx | reflexivity]
          | eapply range_plain; eassumption | apply IH]. }
    assert (Cif : forall fr G c body elifs G1 Gn Gm (els : option (str * list fstmt)), top_ok (envG B F G) c ->
                 PL_boks (fr_push false fr) G1 false false body -> PL_coks fr Gn elifs Gm ->
                 match els with Some (ch, eb) => ch = [] /\ PL_boks (fr_push false fr) ([] :: Gm) false false eb | None => True end ->
                 PL_sok fr G (FmtAst.SIf (CBlock c [] body) elifs els [])).
    { intros fr G c body elifs G1 Gn Gm els Hc IHb IHk He lvl. cbn [fmt_stmt]. unfold write_comment at 1 3. cbn [is_empty].
      pl; [eapply top_plain; eassumption | apply IHb | apply (IHk lvl) |].
      destruct els as [[ch eb]|]; [|reflexivity]. destruct He as [-> He]. unfold write_comment. cbn [is_empty]. pl. apply He. }
    assert (Ck : forall fr G c body rest G1 Gn Gout, top_ok (envG B F G) c -> PL_boks (fr_push false fr) G1 false false body ->
                 PL_coks fr Gn rest Gout -> PL_coks fr G (CBlock c [] body :: rest) Gout).
    { intros fr G c body rest G1 Gn Gout Hc IHb IH lvl. unfold elif_pieces. cbn [flat_map]. fold (elif_pieces lvl rest). unfold write_comment. cbn [is_empty].
      pl; [eapply top_plain; eassumption | apply IHb | apply IH]. }
    assert (Cb1 : forall fr G t e rest, PL_boks fr G t true rest -> PL_boks fr G t e (FmtAst.SEmpty [] :: rest)).
    { intros fr G t e rest IH L e'. cbn [map is_blank is_empty stmts_loop]. pl; [destruct e'; reflexivity | apply IH]. }
    assert (Cb2 : forall fr G e st rest G', is_blank st = false -> PL_sok fr G st -> PL_boks fr G' (always_terms (stmt_tree st)) false rest ->
                 PL_boks fr G false e (st :: rest)).
    { intros fr G e st rest G' Hb IHs IH L e'. cbn [map stmts_loop]. rewrite Hb. pl; [apply IHs | apply IH]. }
    split; [|split];
      [apply (sok_mind B F PL_sok PL_coks PL_boks) | apply (coks_mind B F PL_sok PL_coks PL_boks) | apply (boks_mind B F PL_sok PL_coks PL_boks)];
      intros;
      first [ eapply C1; eassumption | eapply C2; eassumption | eapply C3; eassumption | eapply C4; eassumption | eapply C5; eassumption
            | intro; reflexivity
            | eapply C6; eassumption | eapply C7; eassumption
            | eapply (Cif _ _ _ _ _ _ _ _ None); eauto | eapply (Cif _ _ _ _ _ _ _ _ (Some ([], _))); eauto
            | intro; reflexivity | eapply Ck; eassumption | intros ? ?; reflexivity | eapply Cb1; eassumption | eapply Cb2; eassumption ].
  Qed.

  Lemma poks_plain G e body Gout : poks B F G e body Gout -> Forall plain_tok (body_toks fx 0 e body).
  Proof.
    intro H. unfold body_toks. apply plain_toks. induction H as [G e | G e rest Gout Hp IH | G e st rest G' Gout Hbl Hso Hat Hsc Hp IH].
    - reflexivity.
    - cbn [map is_blank is_empty stmts_loop]. apply allp_app; [destruct e; reflexivity | exact IH].
    - cbn [map stmts_loop]. rewrite Hbl. pl. apply (proj1 sok_plain _ _ _ Hso 0).
  Qed.
End Plain.
