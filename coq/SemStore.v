(* SemStore.v — the store discipline of Sem.v through the whole evaluator
   (property C09); vocabulary and primitive lemmas are in SemStoreBase.v. *)
From Coq Require Import ZArith NArith PArith List String Bool Floats FMapPositive Lia.
From EvyV Require Import Base Num Ast Omap Sem SemStoreBase.
Import ListNotations.
Local Open Scope positive_scope.

(* ====================================================================== *)
(* 1. Programs that do not declare a variable named err / errmsg           *)
(*    (the parser rejects such declarations as redeclaration of a builtin *)
(*    variable); globalErr looks the names up from the calling scope, so  *)
(*    this is what makes it reach the global cells.                        *)
(* ====================================================================== *)
Fixpoint stmt_ok (s : stmt) : bool :=
  match s with
  | SDecl n _ _ => name_ok n
  | SIf conds els =>
      forallb (fun cb => forallb stmt_ok (snd cb)) conds &&
      match els with Some b => forallb stmt_ok b | None => true end
  | SWhile _ b => forallb stmt_ok b
  | SFor var _ _ b => match var with Some v => name_ok v | None => true end && forallb stmt_ok b
  | _ => true
  end.
Definition stmts_ok (l : list stmt) : bool := forallb stmt_ok l.
Definition params_ok (ps : list (str * ty)) : bool := forallb (fun p => name_ok (fst p)) ps.
Definition func_ok (fd : funcdef) : bool :=
  params_ok (fn_params fd) &&
  match fn_variadic fd with Some (vn, _) => name_ok vn | None => true end &&
  stmts_ok (fn_body fd).
Definition handler_ok (h : handler) : bool := params_ok (h_params h) && stmts_ok (h_body h).
Definition no_err_decl (P : program) : bool :=
  forallb func_ok (p_funcs P) && forallb handler_ok (p_handlers P) && stmts_ok (p_stmts P).

Lemma find_func_ok n fs fd : forallb func_ok fs = true -> find_func n fs = Some fd -> func_ok fd = true.
Proof.
  induction fs as [|f t IH]; simpl; [discriminate|]. rewrite andb_true_iff. intros [A B].
  destruct (str_eqb (fn_name f) n); [intro E; inversion E; subst; auto | auto].
Qed.
Lemma find_handler_ok n hs h : forallb handler_ok hs = true -> find_handler n hs = Some h -> handler_ok h = true.
Proof.
  induction hs as [|f t IH]; simpl; [discriminate|]. rewrite andb_true_iff. intros [A B].
  destruct (str_eqb (h_name f) n); [intro E; inversion E; subst; auto | auto].
Qed.

(* ====================================================================== *)
(* 2. Named forms of the local fixpoints of Sem.v (proved equal)           *)
(* ====================================================================== *)
Section EmapGo.
  Variables (ev : expr -> M loc) (d : nat).
  Fixpoint emap_go (ps : list (str * expr)) : M (list (str * loc)) :=
    match ps with
    | [] => ret []
    | (k, a) :: t =>
        let* l := ev a in
        let* c := copy_or_ref d l in
        let* r := emap_go t in ret ((k, c) :: r)
    end.
End EmapGo.

Lemma eval_expr_EMap f P e t ps :
  eval_expr (S f) P e (EMap t ps) =
  (let* _ := tick in
   let* d := depth_fuel in
   let* vals := emap_go (eval_expr f P e) d ps in
   alloc (HMap {| pairs := vals; order := map fst ps |})).
Proof. reflexivity. Qed.

Section IfGo.
  Variables (ec : env -> expr -> list stmt -> M (option signal * env))
            (eb : env -> list stmt -> M (signal * env)) (els : option (list stmt)).
  Fixpoint if_go (cs : list (expr * list stmt)) (e : env) : M (signal * env) :=
    match cs with
    | [] =>
        match els with
        | Some body => let* (sig, e1) := eb ([] :: e) body in ret (sig, tl e1)
        | None => ret (SigNone, e)
        end
    | (c, body) :: t =>
        let* (r, e1) := ec e c body in
        match r with
        | Some sig => ret (sig, e1)
        | None => if_go t e1
        end
    end.
End IfGo.

Lemma exec_stmt_SIf f P e conds els :
  exec_stmt (S f) P e (SIf conds els) =
  (let* _ := tick in if_go (exec_cond f P) (exec_block f P) els conds e).
Proof. reflexivity. Qed.

Section MapNext.
  Variables (om : omap loc) (m : loc).
  Fixpoint map_next (ks : list str) : M (option (loc * ranger)) :=
    match ks with
    | [] => ret None
    | k :: t => if ohas k om then let* l := alloc (HStr k) in ret (Some (l, RgMap m t))
                else map_next t
    end.
End MapNext.

Definition ranger_next (rg : ranger) : M (option (loc * ranger)) :=
  match rg with
  | RgStep cur stop step =>
      if (PrimFloat.ltb 0 step && PrimFloat.leb stop cur) || (PrimFloat.ltb step 0 && PrimFloat.leb cur stop)
      then ret None
      else let* l := alloc (HNum cur) in ret (Some (l, RgStep (cur + step)%float stop step))
  | RgArr a cur =>
      let* v := load a in
      match v with
      | HArr els => match nth_error els cur with
                    | Some l => ret (Some (l, RgArr a (S cur)))
                    | None => ret None end
      | _ => crash "range over non-array"
      end
  | RgStr s cur =>
      match nth_error s cur with
      | Some c => let* l := alloc (HStr [c]) in ret (Some (l, RgStr s (S cur)))
      | None => ret None
      end
  | RgMap m todo =>
      let* v := load m in
      match v with
      | HMap om => map_next om m todo
      | _ => crash "range over non-map"
      end
  end.

Lemma exec_for_S f P e var rg body :
  exec_for (S f) P e var rg body =
  (let* nx := ranger_next rg in
   match nx with
   | None => ret (SigNone, e)
   | Some (l, rg') =>
       let* e1 := update_var var l e in
       let* (sig, e2') := exec_block f P ([] :: e1) body in
       let e2 := tl e2' in
       match sig with
       | SigBreak => ret (SigNone, e2)
       | SigReturn v => ret (SigReturn v, e2)
       | SigNone => exec_for f P e2 var rg' body
       end
   end).
Proof. reflexivity. Qed.

Lemma SpecI_map_next om m ks : SpecI (map_next om m ks).
Proof. induction ks as [|k t IH]; simpl; spi. Qed.
Lemma SpecI_ranger_next rg : SpecI (ranger_next rg).
Proof. destruct rg; simpl; spi; apply SpecI_map_next. Qed.

(* ====================================================================== *)
(* 3. A2 — the nine-way induction                                          *)
(* ====================================================================== *)
Definition SpecE {B} (m : M (B * env)) : Prop :=
  forall s r s', m s = (r, s') -> Inv s s' /\ forall b e', r = Ok (b, e') -> good_env e'.

Lemma stmts_ok_cons s l : stmts_ok (s :: l) = true -> stmt_ok s = true /\ stmts_ok l = true.
Proof. unfold stmts_ok; simpl. apply andb_true_iff. Qed.

Section Step.
  Variable P : program.
  Hypothesis HP : forallb func_ok (p_funcs P) = true.
  Variable f : nat.
  Hypothesis IHexpr : forall e x, good_env e -> SpecI (eval_expr f P e x).
  Hypothesis IHexprs : forall e l, good_env e -> SpecI (eval_exprs f P e l).
  Hypothesis IHcall : forall e name args, good_env e -> SpecI (eval_call f P e name args).
  Hypothesis IHstmt : forall e st, good_env e -> stmt_ok st = true -> SpecE (exec_stmt f P e st).
  Hypothesis IHstmts : forall e l, good_env e -> stmts_ok l = true -> SpecE (exec_stmts f P e l).
  Hypothesis IHblock : forall e l, good_env e -> stmts_ok l = true -> SpecE (exec_block f P e l).
  Hypothesis IHcond : forall e c body, good_env e -> stmts_ok body = true -> SpecE (exec_cond f P e c body).
  Hypothesis IHwhile : forall e c body, good_env e -> stmts_ok body = true -> SpecE (exec_while f P e c body).
  Hypothesis IHfor : forall e var rg body, good_env e -> name_ok var = true -> stmts_ok body = true ->
                                           SpecE (exec_for f P e var rg body).

  Lemma emap_go_spec e d ps : good_env e -> SpecI (emap_go (eval_expr f P e) d ps).
  Proof.
    intro G. induction ps as [|[k a] t IH]; simpl; spi.
    - apply IHexpr; auto.
    - apply SpecI_copy_or_ref.
  Qed.

  Ltac ih1 :=
    match goal with
    | H : eval_expr f P _ _ _ = (_, _) |- _ => apply IHexpr in H; [|solve [auto with genv]]
    | H : emap_go (eval_expr f P _) _ _ _ = (_, _) |- _ => apply emap_go_spec in H; [|solve [auto with genv]]
    | H : eval_exprs f P _ _ _ = (_, _) |- _ => apply IHexprs in H; [|solve [auto with genv]]
    | H : eval_call f P _ _ _ _ = (_, _) |- _ => apply IHcall in H; [|solve [auto with genv]]
    | H : exec_block f P _ _ _ = (_, _) |- _ =>
        apply IHblock in H; [destruct H as [? H]|solve [auto with genv]|solve [auto]]
    | H : exec_cond f P _ _ _ _ = (_, _) |- _ =>
        apply IHcond in H; [destruct H as [? H]|solve [auto with genv]|solve [auto]]
    | H : exec_stmt f P _ _ _ = (_, _) |- _ =>
        apply IHstmt in H; [destruct H as [? H]|solve [auto with genv]|solve [auto]]
    | H : exec_stmts f P _ _ _ = (_, _) |- _ =>
        apply IHstmts in H; [destruct H as [? H]|solve [auto with genv]|solve [auto]]
    | H : exec_while f P _ _ _ _ = (_, _) |- _ =>
        apply IHwhile in H; [destruct H as [? H]|solve [auto with genv]|solve [auto]]
    | H : exec_for f P _ _ _ _ _ = (_, _) |- _ =>
        apply IHfor in H; [destruct H as [? H]|solve [auto with genv]|solve [auto]|solve [auto]]
    | H : forall b e', Ok (?x, ?y) = Ok (b, e') -> good_env e' |- _ =>
        specialize (H _ _ eq_refl)
    | H : forall b e', Er _ = Ok (b, e') -> good_env e' |- _ => clear H
    | x : (_ * _)%type |- _ => destruct x
    | H : lookup _ _ _ = (_, _) |- _ => apply ro_lookup in H; subst
    end.

  Ltac go := repeat first [fwd1 | prim1 | ih1].

  Lemma step_expr e x : good_env e -> SpecI (eval_expr (S f) P e x).
  Proof.
    intros G s r s' H. destruct x.
    7: { rewrite eval_expr_EMap in H. go; inv_chain. }
    all: cbn [eval_expr] in H; go; inv_chain.
  Qed.

  Lemma step_exprs e l : good_env e -> SpecI (eval_exprs (S f) P e l).
  Proof.
    intros G s r s' H. cbn [eval_exprs] in H. destruct l; go; inv_chain.
  Qed.

  Ltac fin :=
    split; [inv_chain | intros ? ? E; try (inversion E; subst); eauto with genv].

  Lemma step_call e name args : good_env e -> SpecI (eval_call (S f) P e name args).
  Proof.
    intros G s r s' H. cbn [eval_call] in H.
    apply bind_inv in H. destruct H as [(vals & s1 & H1 & H) | (x & H1 & ->)];
      apply IHexprs in H1; auto.
    eapply Inv_trans; [exact H1|]. clear H1 s.
    destruct (str_eqb name n_test).
    { go; match goal with H : run_test _ _ = _ |- _ => apply run_test_heap in H; destruct H end;
        apply Inv_same; auto. }
    destruct (builtin name e vals) as [m|] eqn:B.
    { eapply SpecI_builtin; eauto. }
    destruct (existsb (str_eqb name) unmodelled_builtins); [go; inv_chain|].
    destruct (find_func name (p_funcs P)) as [fd|] eqn:F; [|go; inv_chain].
    pose proof (find_func_ok _ _ _ HP F) as OK. unfold func_ok in OK.
    apply andb_true_iff in OK. destruct OK as [OK O3]. apply andb_true_iff in OK. destruct OK as [O1 O2].
    apply bind_inv in H. destruct H as [([fr rest] & s2 & H1 & H) | (x & H1 & ->)];
      apply bind_params_spec in H1; destruct H1 as [-> H1]; [|apply Inv_refl].
    specialize (H1 _ _ eq_refl O1 frame_ok_nil).
    apply bind_inv in H. destruct H as [(fr' & s2 & H2 & H) | (x & H2 & ->)].
    2: { destruct (fn_variadic fd) as [[vn vt]|]; go; inv_chain. }
    assert (Inv s1 s2 /\ frame_ok fr') as [I2 F2].
    { clear H. destruct (fn_variadic fd) as [[vn vt]|]; go; (split; [inv_chain|]); auto.
      destruct (str_eqb vn underscore); auto. apply frame_ok_set; auto. }
    eapply Inv_trans; [exact I2|]. clear I2.
    go; inv_chain.
  Qed.

  Lemma map_set_key_fwd m k v s r s' : map_set_key m k v s = (r, s') -> Inv s s'.
  Proof.
    unfold map_set_key. intro H. go; try apply Inv_refl.
    match goal with H : store _ _ _ = _ |- _ => apply store_inv in H; destruct H as [? ->] end.
    eapply Inv_store_composite; eauto. exact I.
  Qed.

  Lemma store_composite_fwd l v s r s' v0 :
    store l v s = (r, s') -> hget (st_heap s) l = Some v0 -> is_basic v0 = false -> same_kind v0 v ->
    Inv s s' /\ r = Ok tt.
  Proof.
    intros H Hg Hb K. apply store_inv in H. destruct H as [-> ->]. split; auto.
    eapply Inv_store_composite; eauto.
  Qed.

  Ltac sv1 :=
    match goal with
    | H : set_var _ _ _ _ = (_, _) |- _ =>
        apply set_var_fwd in H; [destruct H as [? H]|solve [auto]|solve [auto with genv]]
    | H : update_var _ _ _ _ = (_, _) |- _ =>
        apply update_var_fwd in H; [destruct H as [? H]|solve [auto]|solve [auto with genv]]
    | H : forall e', Ok ?x = Ok e' -> good_env e' |- _ => specialize (H _ eq_refl)
    | H : forall e', Er _ = Ok e' -> good_env e' |- _ => clear H
    | H : map_set_key _ _ _ _ = (_, _) |- _ => apply map_set_key_fwd in H
    | H : store ?l ?v ?s = (_, _), Hg : hget (st_heap ?s) ?l = Some _ |- _ =>
        eapply store_composite_fwd in H; [|exact Hg|reflexivity|exact I]; destruct H as [H ?]
    | H : ranger_next _ _ = (_, _) |- _ => apply SpecI_ranger_next in H
    end.
  Ltac go2 := repeat first [fwd1 | prim1 | ih1 | sv1].

  Lemma if_go_spec els conds : forall e,
    good_env e -> forallb (fun cb => stmts_ok (snd cb)) conds = true ->
    match els with Some b => stmts_ok b | None => true end = true ->
    SpecE (if_go (exec_cond f P) (exec_block f P) els conds e).
  Proof.
    induction conds as [|[c body] t IH]; intros e G Hc He s r s' H; simpl in H.
    - destruct els; go2; fin.
    - simpl in Hc. apply andb_true_iff in Hc. destruct Hc as [Hc1 Hc2].
      apply bind_inv in H. destruct H as [([o e1] & s1 & H1 & H) | (x & H1 & ->)];
        apply IHcond in H1; auto; destruct H1 as [I1 G1]; [|split; [auto|discriminate]].
      specialize (G1 _ _ eq_refl). destruct o.
      + go2; fin.
      + apply IH in H; auto. destruct H as [I2 G2]. split; [eapply Inv_trans; eauto | auto].
  Qed.

  Lemma step_stmt e st : good_env e -> stmt_ok st = true -> SpecE (exec_stmt (S f) P e st).
  Proof.
    intros G OK s r s' H. destruct st.
    6: { rewrite exec_stmt_SIf in H. simpl in OK. apply andb_true_iff in OK. destruct OK as [O1 O2].
         apply bind_inv in H. destruct H as [(u & s1 & H1 & H) | (x & H1 & ->)];
           apply SpecI_tick in H1; [|split; [auto|discriminate]].
         apply if_go_spec in H; auto. destruct H as [I2 G2]. split; [eapply Inv_trans; eauto | auto]. }
    all: cbn [exec_stmt] in H; simpl in OK.
    - go2; fin.
    - apply bind_inv in H. destruct H as [(u & s1 & H1 & H) | (x & H1 & ->)];
        apply SpecI_tick in H1; [|split; [auto|discriminate]].
      apply bind_inv in H. destruct H as [(v0 & s2 & H2 & H) | (x & H2 & ->)];
        apply IHexpr in H2; auto; [|split; [inv_chain|discriminate]].
      apply bind_inv in H. destruct H as [(d & s3 & H3 & H) | (x & H3 & ->)];
        apply depth_fuel_inv in H3; destruct H3 as [? ->]; [|split; [inv_chain|discriminate]].
      apply bind_inv in H. destruct H as [(v & s3 & H3 & H) | (x & H3 & ->)];
        [|apply SpecI_copy_or_ref in H3; split; [inv_chain|discriminate]].
      destruct target; try solve [go2; fin].
      apply bind_inv in H. destruct H as [(e' & s4 & H4 & H) | (x & H4 & ->)];
        destruct (assign_var_fwd _ _ _ _ _ _ _ _ _ H3 H4 G) as [I4 G4].
      + go2. fin.
      + split; [inv_chain|discriminate].
    - go2; fin.
    - destruct e0; go2; fin.
    - go2; fin.
    - go2; fin.
    - apply andb_true_iff in OK. destruct OK as [O1 O2].
      assert (name_ok (match var with Some v => v | None => underscore end) = true)
        by (destruct var; auto).
      go2; fin.
    - go2; fin.
  Qed.

  Lemma step_stmts e l : good_env e -> stmts_ok l = true -> SpecE (exec_stmts (S f) P e l).
  Proof.
    intros G OK s r s' H. cbn [exec_stmts] in H. destruct l as [|st t].
    - go2; fin.
    - apply stmts_ok_cons in OK. destruct OK as [O1 O2]. go2; fin.
  Qed.

  Lemma step_block e l : good_env e -> stmts_ok l = true -> SpecE (exec_block (S f) P e l).
  Proof. intros G OK s r s' H. cbn [exec_block] in H. go2; fin. Qed.

  Lemma step_cond e c body : good_env e -> stmts_ok body = true -> SpecE (exec_cond (S f) P e c body).
  Proof. intros G OK s r s' H. cbn [exec_cond] in H. go2; fin. Qed.

  Lemma step_while e c body : good_env e -> stmts_ok body = true -> SpecE (exec_while (S f) P e c body).
  Proof. intros G OK s r s' H. cbn [exec_while] in H. go2; fin. Qed.

  Lemma step_for e var rg body :
    good_env e -> name_ok var = true -> stmts_ok body = true -> SpecE (exec_for (S f) P e var rg body).
  Proof. intros G N OK s r s' H. rewrite exec_for_S in H. cbv zeta in H. go2; fin. Qed.
End Step.

(* A2, for all nine functions at once *)
Theorem evaluator_store_inv P (HP : forallb func_ok (p_funcs P) = true) : forall n,
  (forall e x, good_env e -> SpecI (eval_expr n P e x)) /\
  (forall e l, good_env e -> SpecI (eval_exprs n P e l)) /\
  (forall e name args, good_env e -> SpecI (eval_call n P e name args)) /\
  (forall e st, good_env e -> stmt_ok st = true -> SpecE (exec_stmt n P e st)) /\
  (forall e l, good_env e -> stmts_ok l = true -> SpecE (exec_stmts n P e l)) /\
  (forall e l, good_env e -> stmts_ok l = true -> SpecE (exec_block n P e l)) /\
  (forall e c body, good_env e -> stmts_ok body = true -> SpecE (exec_cond n P e c body)) /\
  (forall e c body, good_env e -> stmts_ok body = true -> SpecE (exec_while n P e c body)) /\
  (forall e var rg body, good_env e -> name_ok var = true -> stmts_ok body = true ->
                         SpecE (exec_for n P e var rg body)).
Proof.
  induction n as [|n IH].
  - repeat apply conj; intros; intros zs zr zs' ZH; simpl in ZH; apply fail_inv in ZH; destruct ZH as [-> ->];
      try apply Inv_refl; (split; [apply Inv_refl | discriminate]).
  - destruct IH as (I1 & I2 & I3 & I4 & I5 & I6 & I7 & I8 & I9).
    repeat apply conj; intros.
    + apply step_expr; auto.
    + apply step_exprs; auto.
    + apply step_call; auto.
    + apply step_stmt; auto.
    + apply step_stmts; auto.
    + apply step_block; auto.
    + apply step_cond; auto.
    + apply step_while; auto.
    + apply step_for; auto.
Qed.

(* ====================================================================== *)
(* 4. A2 — statements for whole runs, events and single statements         *)
(* ====================================================================== *)
Lemma no_err_decl_funcs P : no_err_decl P = true -> forallb func_ok (p_funcs P) = true.
Proof. unfold no_err_decl. rewrite !andb_true_iff. tauto. Qed.
Lemma no_err_decl_stmts P : no_err_decl P = true -> stmts_ok (p_stmts P) = true.
Proof. unfold no_err_decl. rewrite !andb_true_iff. tauto. Qed.
Lemma no_err_decl_handlers P : no_err_decl P = true -> forallb handler_ok (p_handlers P) = true.
Proof. unfold no_err_decl. rewrite !andb_true_iff. tauto. Qed.

Lemma wf_init stop input ff ay : wf (init_state stop input ff ay).
Proof.
  unfold wf.
  change (st_heap (init_state stop input ff ay)) with
    (snd (halloc (snd (halloc (snd (halloc hempty (HBool false))) (HStr []))) (HNum (float_of_bits pi_bits)))).
  repeat apply fresh_ok_halloc. intros l _. apply PositiveMap.gempty.
Qed.

Lemma test_report_heap s : st_heap (test_report s) = st_heap s /\ st_globals (test_report s) = st_globals s.
Proof. unfold test_report. destruct (Nat.eqb _ _); simpl; auto. Qed.

(* Evaluator.Eval *)
Lemma run_program_inv fuel P s0 o s1 :
  no_err_decl P = true -> run_program fuel P s0 = (o, s1) -> Inv s0 s1.
Proof.
  intros OK H. unfold run_program in H.
  match type of H with (let '(r, s1) := ?m s0 in _) = _ => destruct (m s0) as [r s2] eqn:E end.
  assert (I1 : Inv s0 s2).
  { apply bind_inv in E. destruct E as [(u & s3 & H1 & E) | (x & H1 & ->)];
      apply SpecI_tick in H1; auto.
    eapply Inv_trans; [exact H1|].
    apply bind_inv in E. destruct E as [(u' & s4 & H2 & E) | (x & H2 & ->)].
    - apply ret_inv in E. destruct E as [_ ->].
      eapply (proj1 (proj2 (proj2 (proj2 (proj2 (evaluator_store_inv P (no_err_decl_funcs P OK) fuel)))))); eauto.
      + apply good_env_nil.
      + apply no_err_decl_stmts; auto.
    - eapply (proj1 (proj2 (proj2 (proj2 (proj2 (evaluator_store_inv P (no_err_decl_funcs P OK) fuel)))))); eauto.
      + apply good_env_nil.
      + apply no_err_decl_stmts; auto. }
  eapply Inv_trans; [exact I1|].
  assert (st_heap s1 = st_heap s2 /\ st_globals s1 = st_globals s2) as [A B].
  { destruct r as [u|er].
    - destruct (Nat.ltb 0 _); inversion H; subst; apply test_report_heap.
    - inversion H; subst. destruct er; auto using test_report_heap. }
  apply Inv_same; auto.
Qed.

Lemma bind_payload_spec ps : forall args fr s r s',
  bind_payload ps args fr s = (r, s') ->
  Inv s s' /\ forall fr', r = Ok fr' -> params_ok ps = true -> frame_ok fr -> frame_ok fr'.
Proof.
  induction ps as [|[n t] ps IH]; intros args fr s r s' H; simpl in H.
  - apply ret_inv in H; destruct H as [-> ->]. split; [apply Inv_refl|]. intros ? E; inversion E; subst; auto.
  - destruct args as [|a rest].
    { apply crash_inv in H; destruct H as [-> ->]; split; [apply Inv_refl|discriminate]. }
    apply bind_inv in H. destruct H as [(l & s1 & H1 & H) | (x & H1 & ->)].
    + assert (I1 : Inv s s1) by (destruct t, a; fwd; repeat prim1; inv_chain).
      apply IH in H. destruct H as [I2 F]. split; [eapply Inv_trans; eauto|].
      intros fr' E Hn Fr. unfold params_ok in Hn. simpl in Hn. apply andb_true_iff in Hn. destruct Hn.
      eapply F; eauto. destruct (str_eqb n underscore); auto. apply frame_ok_set; auto.
    + split; [|discriminate]. destruct t, a; fwd; repeat prim1; inv_chain.
Qed.

(* Evaluator.HandleEvent *)
Lemma handle_event_inv fuel P name args s0 o s1 :
  no_err_decl P = true -> handle_event fuel P name args s0 = (o, s1) -> Inv s0 s1.
Proof.
  intros OK H. unfold handle_event in H.
  destruct (find_handler name (p_handlers P)) as [h|] eqn:F; [|inversion H; subst; apply Inv_refl].
  pose proof (find_handler_ok _ _ _ (no_err_decl_handlers P OK) F) as HO.
  unfold handler_ok in HO. apply andb_true_iff in HO. destruct HO as [O1 O2].
  match type of H with (match ?m s0 with _ => _ end) = _ => destruct (m s0) as [r s2] eqn:E end.
  assert (s1 = s2) by (destruct r; inversion H; auto). subst s2. clear H.
  apply bind_inv in E. destruct E as [(fr & s3 & H1 & E) | (x & H1 & ->)];
    apply bind_payload_spec in H1; destruct H1 as [I1 F1]; auto.
  specialize (F1 _ eq_refl O1 frame_ok_nil).
  eapply Inv_trans; [exact I1|].
  apply bind_inv in E. destruct E as [(u' & s4 & H2 & E) | (x & H2 & ->)].
  - apply ret_inv in E. destruct E as [_ ->].
    eapply (proj1 (proj2 (proj2 (proj2 (proj2 (proj2 (evaluator_store_inv P (no_err_decl_funcs P OK) fuel))))))); eauto.
    apply good_env_single; auto.
  - eapply (proj1 (proj2 (proj2 (proj2 (proj2 (proj2 (evaluator_store_inv P (no_err_decl_funcs P OK) fuel))))))); eauto.
    apply good_env_single; auto.
Qed.

(* A2: in every run and every event, a basic cell other than the two cells bound
   to err / errmsg keeps its content *)
Theorem in_place_only_err_run fuel P s0 o s1 :
  no_err_decl P = true -> wf s0 -> run_program fuel P s0 = (o, s1) ->
  wf s1 /\ basic_cells_stable s0 s1.
Proof.
  intros OK W H. destruct (run_program_inv _ _ _ _ _ OK H W) as [W1 R1]. split; [auto | apply R1].
Qed.

Theorem in_place_only_err_event fuel P name args s0 o s1 :
  no_err_decl P = true -> wf s0 -> handle_event fuel P name args s0 = (o, s1) ->
  wf s1 /\ basic_cells_stable s0 s1.
Proof.
  intros OK W H. destruct (handle_event_inv _ _ _ _ _ _ _ OK H W) as [W1 R1]. split; [auto | apply R1].
Qed.

(* the statement for each of the nine evaluator functions *)
Theorem in_place_only_err P n :
  forallb func_ok (p_funcs P) = true ->
  (forall e x s r s', good_env e -> wf s -> eval_expr n P e x s = (r, s') -> basic_cells_stable s s') /\
  (forall e l s r s', good_env e -> wf s -> eval_exprs n P e l s = (r, s') -> basic_cells_stable s s') /\
  (forall e nm args s r s', good_env e -> wf s -> eval_call n P e nm args s = (r, s') -> basic_cells_stable s s') /\
  (forall e st s r s', good_env e -> stmt_ok st = true -> wf s ->
                       exec_stmt n P e st s = (r, s') -> basic_cells_stable s s') /\
  (forall e l s r s', good_env e -> stmts_ok l = true -> wf s ->
                      exec_stmts n P e l s = (r, s') -> basic_cells_stable s s') /\
  (forall e l s r s', good_env e -> stmts_ok l = true -> wf s ->
                      exec_block n P e l s = (r, s') -> basic_cells_stable s s') /\
  (forall e c b s r s', good_env e -> stmts_ok b = true -> wf s ->
                        exec_cond n P e c b s = (r, s') -> basic_cells_stable s s') /\
  (forall e c b s r s', good_env e -> stmts_ok b = true -> wf s ->
                        exec_while n P e c b s = (r, s') -> basic_cells_stable s s') /\
  (forall e var rg b s r s', good_env e -> name_ok var = true -> stmts_ok b = true -> wf s ->
                             exec_for n P e var rg b s = (r, s') -> basic_cells_stable s s').
Proof.
  intro HP. destruct (evaluator_store_inv P HP n) as (I1 & I2 & I3 & I4 & I5 & I6 & I7 & I8 & I9).
  repeat apply conj; intros.
  - eapply I1; eauto.
  - eapply I2; eauto.
  - eapply I3; eauto.
  - match goal with H : exec_stmt _ _ _ _ _ = _ |- _ => eapply I4 in H; eauto; destruct H as [H _]; apply H; auto end.
  - match goal with H : exec_stmts _ _ _ _ _ = _ |- _ => eapply I5 in H; eauto; destruct H as [H _]; apply H; auto end.
  - match goal with H : exec_block _ _ _ _ _ = _ |- _ => eapply I6 in H; eauto; destruct H as [H _]; apply H; auto end.
  - match goal with H : exec_cond _ _ _ _ _ _ = _ |- _ => eapply I7 in H; eauto; destruct H as [H _]; apply H; auto end.
  - match goal with H : exec_while _ _ _ _ _ _ = _ |- _ => eapply I8 in H; eauto; destruct H as [H _]; apply H; auto end.
  - match goal with H : exec_for _ _ _ _ _ _ _ = _ |- _ => eapply I9 in H; eauto; destruct H as [H _]; apply H; auto end.
Qed.

(* consequence: an assignment (to a variable, an element or a field) never changes the content
   of any basic cell other than the err cells — whatever runs inside its right-hand side *)
Theorem basic_noninterference_partial P n e target x s r s' :
  forallb func_ok (p_funcs P) = true -> good_env e -> wf s ->
  exec_stmt n P e (SAssign target x) s = (r, s') ->
  forall l v, hget (st_heap s) l = Some v -> is_basic v = true -> ~ err_loc (st_globals s) l ->
              hget (st_heap s') l = Some v.
Proof.
  intros HP G W H. destruct (in_place_only_err P n HP) as (_ & _ & _ & I4 & _).
  exact (I4 e (SAssign target x) s r s' G eq_refl W H).
Qed.
