(* FormatParseBlockProofs.v — C06 round trip, block level, against Parser.v (parser.go):
   the tokens the formatter writes for a statement — a one-line statement or a while / if /
   for statement with its nested blocks — parse back, through parseStatement, to the statement's
   tree.  The scoping side conditions of the one-line theorems (FormatParseStmtProofs.v) are no
   longer hypotheses on parser states: they are read off the declarative scope checker of
   ParserScope.v (scope_stmt on the TREE) — after each statement the round trip gives an
   error-free parse, and b-pratt's simulation theorem (stmt_sim) then says that the parser's scope
   chain is the checker's context, which is where the next statement's conditions are stated. *)
From Coq Require Import List String NArith ZArith Bool Arith Lia.
From EvyV Require Import Base FmtAst Format FormatProofs Pratt PrattProofs Parser ParserProofs ParserRules ParserScope
  FormatParse FormatParseProofs FormatParseListProofs FormatParseStmtProofs FormatParseTargetProofs.
From EvyV.Gen Require Import Prec.
Import ListNotations.
Local Open Scope nat_scope.

(* ---------- the tree of a formatter statement (comments dropped; blank lines as the formatter
   squeezes them: a run of blank statements is one empty statement) ---------- *)
Definition blk_of (l : list stmt) : block := Block l (existsb always_terms l).

Definition range_trees (r : frange) : list tree :=
  match r with
  | RStep a b c => (match a with Some x => [fexpr_tree x] | None => [] end) ++ [fexpr_tree b]
                   ++ (match c with Some x => [fexpr_tree x] | None => [] end)
  | RExpr e => [fexpr_tree e]
  end.

Fixpoint stmt_tree (st : fstmt) : stmt :=
  let body := fix body (emp : bool) (l : list fstmt) : list stmt :=
    match l with
    | [] => []
    | x :: t => if is_blank x then (if emp then body true t else Parser.SEmpty :: body true t)
                else stmt_tree x :: body false t
    end in
  match st with
  | FmtAst.SEmpty _ => Parser.SEmpty
  | FmtAst.STypedDecl n t _ => Parser.STypedDecl n (fty_ty t)
  | FmtAst.SInferredDecl n v _ => Parser.SInferredDecl n (fexpr_tree v)
  | FmtAst.SAssign t v _ => Parser.SAssign (fexpr_tree t) (fexpr_tree v)
  | FmtAst.SCall n args _ => Parser.SCallStmt (TCall n (map fexpr_tree args))
  | FmtAst.SReturn v _ => Parser.SReturn (match v with Some e => Some (fexpr_tree e) | None => None end)
  | FmtAst.SBreak _ => Parser.SBreak
  | FmtAst.SIf (CBlock c _ b) elifs els _ =>
      Parser.SIf ((Some (fexpr_tree c), blk_of (body false b))
                  :: (fix go (l : list cblock) : list (option tree * block) :=
                        match l with
                        | [] => []
                        | CBlock c _ b :: r => (Some (fexpr_tree c), blk_of (body false b)) :: go r
                        end) elifs)
                 (match els with Some (_, b) => Some (blk_of (body false b)) | None => None end)
  | FmtAst.SWhile c _ b _ => Parser.SWhile (Some (fexpr_tree c)) (blk_of (body false b))
  | FmtAst.SFor lv r _ b _ => Parser.SFor lv (range_trees r) (blk_of (body false b))
  | FmtAst.SFunc n rt ps v _ b _ =>
      Parser.SFunc n (match rt with Some _ => true | None => false end)
                   (map fst ps ++ match v with Some p => [fst p] | None => [] end) (blk_of (body false b))
  | FmtAst.SOn n ps _ b _ => Parser.SOn n (map fst ps) (blk_of (body false b))
  end.

Fixpoint body_trees (emp : bool) (l : list fstmt) : list stmt :=
  match l with
  | [] => []
  | x :: t => if is_blank x then (if emp then body_trees true t else Parser.SEmpty :: body_trees true t)
              else stmt_tree x :: body_trees false t
  end.

Definition cb_tree (cb : cblock) : option tree * block :=
  match cb with CBlock c _ b => (Some (fexpr_tree c), blk_of (body_trees false b)) end.

(* fuel: parseStatement at fuel f handles a statement of size <= f.  A blank statement that the
   formatter squeezes away costs nothing (it produces no token and no turn of a parser loop). *)
Fixpoint sz (st : fstmt) : nat :=
  let szb := fix szb (e : bool) (l : list fstmt) : nat :=
    match l with
    | [] => 0
    | x :: t => if is_blank x then (if e then szb true t else S (szb true t)) else S (sz x + szb false t)
    end in
  match st with
  | FmtAst.SIf (CBlock _ _ b) elifs els _ =>
      S (S (szb false b + (fix go (l : list cblock) : nat := match l with [] => 0 | CBlock _ _ b :: r => S (szb false b + go r) end) elifs
            + match els with Some (_, b) => S (szb false b) | None => 0 end))
  | FmtAst.SWhile _ _ b _ | FmtAst.SFor _ _ _ b _ | FmtAst.SFunc _ _ _ _ _ b _ | FmtAst.SOn _ _ _ b _ => S (S (szb false b))
  | _ => 1
  end.
Fixpoint szb (e : bool) (l : list fstmt) : nat :=
  match l with
  | [] => 0
  | x :: t => if is_blank x then (if e then szb true t else S (szb true t)) else S (sz x + szb false t)
  end.
Notation szl := (szb false).

Lemma stmt_tree_while c ch b ce : stmt_tree (FmtAst.SWhile c ch b ce) = Parser.SWhile (Some (fexpr_tree c)) (blk_of (body_trees false b)).
Proof. reflexivity. Qed.
Lemma sz_while c ch b ce : sz (FmtAst.SWhile c ch b ce) = S (S (szl b)).
Proof. reflexivity. Qed.

Definition range_exprs (r : frange) : list fexpr :=
  match r with
  | RStep a b c => (match a with Some x => [x] | None => [] end) ++ [b] ++ (match c with Some x => [x] | None => [] end)
  | RExpr e => [e]
  end.
Lemma range_trees_eq r : range_trees r = map fexpr_tree (range_exprs r).
Proof. destruct r as [[a|] b [c|]|e]; reflexivity. Qed.
Lemma stmt_tree_for lv r ch b ce : stmt_tree (FmtAst.SFor lv r ch b ce) = Parser.SFor lv (range_trees r) (blk_of (body_trees false b)).
Proof. reflexivity. Qed.
Lemma sz_for lv r ch b ce : sz (FmtAst.SFor lv r ch b ce) = S (S (szl b)).
Proof. reflexivity. Qed.

(* ---------- contexts ---------- *)
Definition frs := list (bool * bool * bool).           (* ParserRules.frames: (returns, returns a value, loop) *)
Definition fr_ret (fr : frs) : bool := match fr with (r, _, _) :: _ => r | [] => false end.
Definition fr_retv (fr : frs) : bool := match fr with (_, v, _) :: _ => v | [] => false end.
Definition fr_push (loop : bool) (fr : frs) : frs := (fr_ret fr, fr_retv fr, loop) :: fr.

Lemma visible_abs l : visible l = flat_map (map fst) (map absf l).
Proof.
  unfold visible. induction l as [|sc r IH]; [reflexivity|]. cbn [flat_map map]. rewrite IH. f_equal.
  unfold absf. rewrite map_map. reflexivity.
Qed.

Section Blocks.
  Variable B : benv.
  Hypothesis BT : forall s t n, b_tyerr B s t n = false.
  Variable fx : fixes.
  Variable F : list (str * finfo).          (* p.funcs: fixed by the signature pre-pass *)
  Let TB := tabs_of B F.

  (* the expression parser's environment as a function of the checker's context *)
  Definition envG (G : ctx) : env := mkenv B F (flat_map (map fst) G).
  Lemma env_of_abs s : fns s = F -> env_of B s = envG (abs s).
  Proof. intro H. rewrite env_of_mkenv, H. unfold envG, abs. rewrite visible_abs. reflexivity. Qed.

  (* the first token of an expression that parses is not  = . : :=  (parsePrefix has no case for them):
     a call statement's first argument cannot be mistaken for the rest of a declaration / assignment *)
  Lemma rt_head_not_assign E w toks t t0 ts : RT E w toks t -> toks = t0 :: ts ->
    match ttype t0 with T_ASSIGN | T_DOT | T_COLON | T_DECLARE => False | _ => True end.
  Proof.
    intros H ->. 
    destruct (H {| prev := tEOF; rest := (t0 :: ts) ++ [mk T_NL]; peek := tEOF; wss := [w]; errs := []; used := [] |}
                [mk T_NL] (S (2 * List.length (t0 :: ts))) eq_refl eq_refl (fun _ => eq_refl)
                (or_intror (or_introl eq_refl)) ltac:(lia)) as (st' & P & _).
    rewrite parse_expr_unfold in P. unfold parse_prefix in P. unfold cur_t, cur in P. cbn [rest app look0 hd] in P.
    destruct (ttype t0); try exact I; discriminate P.
  Qed.

  (* ---------- the side conditions, on the checker's context ---------- *)
  Inductive sok : frs -> ctx -> fstmt -> Prop :=
  | sok_typed fr G x t ty : ident_text x = true -> fty_ty t = Some ty -> declare TB false x G <> None ->
      sok fr G (FmtAst.STypedDecl x t [])
  | sok_decl fr G x v : ident_text x = true -> declare TB false x G <> None -> top_ok (envG G) v ->
      sok fr G (FmtAst.SInferredDecl x v [])
  | sok_assign fr G t x steps v : tgt_split t = Some (x, steps) ->
      ident_text x = true -> mem_str x (map fst F) = false -> cvisible x G = true ->
      Forall (step_ok (envG G)) steps -> top_ok (envG G) v ->
      sok fr G (FmtAst.SAssign t v [])
  | sok_call fr G n args fi : ident_text n = true -> lookup_fn n F = Some fi ->
      arity_wrong (envG G) n (List.length args) = false -> Forall (item_ok (envG G) true) args ->
      sok fr G (FmtAst.SCall n args [])
  | sok_retv fr G v : fr_ret fr = true -> top_ok (envG G) v -> sok fr G (FmtAst.SReturn (Some v) [])
  | sok_ret fr G : fr_ret fr = true -> fr_retv fr = false -> sok fr G (FmtAst.SReturn None [])
  | sok_break fr G : fr_loop fr = true -> sok fr G (FmtAst.SBreak [])
  | sok_while fr G c body G1 : top_ok (envG G) c -> body_trees false body <> [] ->
      use_vars (tvars (fexpr_tree c)) ([] :: G) = Some G1 -> boks (fr_push true fr) G1 false false body ->
      sok fr G (FmtAst.SWhile c [] body [])
  | sok_for fr G lv r body Gd G1 :
      match lv with Some x => ident_text x = true /\ declare TB false x ([] :: G) = Some Gd | None => Gd = [] :: G end ->
      Forall (item_ok (envG Gd) true) (range_exprs r) ->
      use_vars (lvars (map fexpr_tree (range_exprs r))) Gd = Some G1 ->
      body_trees false body <> [] -> boks (fr_push true fr) G1 false false body ->
      sok fr G (FmtAst.SFor lv r [] body [])
  | sok_if fr G c body elifs G1 Gn Gm : top_ok (envG G) c -> body_trees false body <> [] ->
      use_vars (tvars (fexpr_tree c)) ([] :: G) = Some G1 -> boks (fr_push false fr) G1 false false body ->
      scope_block TB (blk_of (body_trees false body)) G1 = Some Gn -> coks fr Gn elifs Gm ->
      sok fr G (FmtAst.SIf (CBlock c [] body) elifs None [])
  | sok_if_else fr G c body elifs G1 Gn Gm eb : top_ok (envG G) c -> body_trees false body <> [] ->
      use_vars (tvars (fexpr_tree c)) ([] :: G) = Some G1 -> boks (fr_push false fr) G1 false false body ->
      scope_block TB (blk_of (body_trees false body)) G1 = Some Gn -> coks fr Gn elifs Gm ->
      body_trees false eb <> [] -> boks (fr_push false fr) ([] :: Gm) false false eb ->
      sok fr G (FmtAst.SIf (CBlock c [] body) elifs (Some ([], eb)) [])
  (* the "else if" branches: the context after each branch is the one the scope checker computes *)
  with coks : frs -> ctx -> list cblock -> ctx -> Prop :=
  | coks_nil fr G : coks fr G [] G
  | coks_cons fr G c body rest G1 Gn Gout : top_ok (envG G) c -> body_trees false body <> [] ->
      use_vars (tvars (fexpr_tree c)) ([] :: G) = Some G1 -> boks (fr_push false fr) G1 false false body ->
      scope_block TB (blk_of (body_trees false body)) G1 = Some Gn -> coks fr Gn rest Gout ->
      coks fr G (CBlock c [] body :: rest) Gout
  (* the statements of a block: [terms] = a statement before always terminates, [emp] = the formatter
     has just written a blank line *)
  with boks : frs -> ctx -> bool -> bool -> list fstmt -> Prop :=
  | boks_nil fr G t e : match G with f :: _ => forallb snd f = true | [] => False end -> boks fr G t e []
  | boks_blank fr G t e rest : boks fr G t true rest -> boks fr G t e (FmtAst.SEmpty [] :: rest)
  | boks_cons fr G e st rest G' : is_blank st = false -> sok fr G st ->
      scope_stmt TB (stmt_tree st) G = Some G' -> boks fr G' (always_terms (stmt_tree st)) false rest ->
      boks fr G false e (st :: rest).

  Scheme sok_mind := Minimality for sok Sort Prop
  with coks_mind := Minimality for coks Sort Prop
  with boks_mind := Minimality for boks Sort Prop.

  (* ---------- the parser state between statements ---------- *)
  Definition ST (s : pst) (q : list token) (G : ctx) (fr : frs) : Prop :=
    at_toks s q [] /\ peek_ok s q /\ scs s <> [] /\ sused s = [] /\ abs s = G /\ frames s = fr /\ fns s = F.

  Lemma ST_at s q G fr : ST s q G fr -> at_toks s q []. Proof. intros (H & _). exact H. Qed.

  Lemma ST_ct s t q G fr : ST s (t :: q) G fr -> ct s = ttype t.
  Proof. intros ((Hr & _) & _). unfold ct, cur_t, cur. rewrite Hr. reflexivity. Qed.

  Lemma ST_cur s t q G fr : ST s (t :: q) G fr -> cur (cs s) = t.
  Proof. intros ((Hr & _) & _). unfold cur. rewrite Hr. reflexivity. Qed.

  Lemma ST_env s q G fr : ST s q G fr -> env_of B s = envG G.
  Proof. intros (_ & _ & _ & _ & A & _ & Fn). rewrite <- A. apply env_of_abs, Fn. Qed.

  (* what an error-free parseStatement leaves (b-pratt's stmt_sound + stmt_sim) *)
  Lemma ST_post f s q G fr st s' q' :
    ST s q G fr -> parse_statement B f s = Ok (Some st) s' -> at_toks s' q' [] -> peek_ok s' q' ->
    exists G', scope_stmt TB st G = Some G' /\ ST s' q' G' fr.
  Proof.
    intros (A0 & _ & N & U & A & Fr & Fn) P A1 P1.
    assert (Q : serrs s' = []) by (destruct A1 as (_ & _ & E); exact E).
    destruct (stmt_sound B f s (Some st) s' P Q) as (_ & Fr' & _).
    destruct (stmt_sim B f s (Some st) s' P Q (conj N U)) as (U' & Fn' & _ & Sc).
    exists (abs s'). rewrite Fn, A in Sc. split; [exact Sc|].
    repeat split; try (destruct A1 as (R1 & W1 & E1); assumption); auto.
    - eapply scs_of_frames; [exact Fr' | exact N].
    - rewrite Fr'. exact Fr.
    - rewrite Fn'. exact Fn.
  Qed.

  Lemma declare_decl_ok x s G : abs s = G -> fns s = F -> declare TB false x G <> None -> decl_ok B x s.
  Proof.
    intros A Fn H. unfold declare in H. destruct G as [|f r]; [contradiction|].
    destruct (mem_str x (t_globals TB)) eqn:E1; [contradiction|].
    destruct (fhas x f) eqn:E2; [contradiction|].
    destruct (mem_str x (t_funcs TB)) eqn:E3; [contradiction|].
    cbn [negb andb orb] in H. destruct (str_eqb x (s_ "_"%string)) eqn:E4; [contradiction|].
    unfold decl_ok. repeat split; auto.
    - rewrite in_local_abs, A. exact E2.
    - rewrite is_func_tabs, Fn. exact E3.
  Qed.

  (* ---------- one statement ---------- *)
  Definition P_sok (fr : frs) (G : ctx) (st : fstmt) : Prop :=
    forall lvl f s r, sz st <= f ->
      ST s (toks_of_pieces (fmt_stmt fx lvl st) ++ mk T_NL :: r) G fr -> is_ws (look0 (skip1 r)) = false ->
      exists s', parse_statement B f s = Ok (Some (stmt_tree st)) s' /\ at_toks s' (skip1 r) [] /\ peek_ok s' (skip1 r).

  Lemma is_func_F s n : fns s = F -> is_func n s = mem_str n (map fst F).
  Proof. intro H. rewrite is_func_tabs, H. reflexivity. Qed.

  Lemma lookup_is_func s n fi : fns s = F -> lookup_fn n F = Some fi -> is_func n s = true.
  Proof. intros H L. unfold is_func. rewrite H, L. reflexivity. Qed.

  Lemma P_typed fr G x t ty : ident_text x = true -> fty_ty t = Some ty -> declare TB false x G <> None ->
    P_sok fr G (FmtAst.STypedDecl x t []).
  Proof.
    intros Hx Hty Hd lvl f s r Hf HST Hn. destruct f as [|f]; [cbn in Hf; lia|].
    pose proof HST as (Hat & Hpk & N & U & A & Fr & Fn).
    destruct (typed_decl_roundtrip B fx lvl s x t ty r [] Hx Hty (declare_decl_ok x s G A Fn Hd) Hat Hn) as (s' & P & A1 & P1).
    exists s'. split; [|split; assumption]. cbn [stmt_tree]. rewrite Hty, <- P.
    cbn [fmt_stmt] in HST. unfold write_comment, write_decl in HST. cbn [is_empty] in HST. rewrite app_nil_r in HST.
    rewrite toks_app in HST. cbn [toks_of_pieces flat_map tok_of_piece app] in HST. rewrite (ident_text_spec x Hx) in HST.
    change (tok_of_text k_colon) with (mk T_COLON) in HST.
    cbn [parse_statement]. unfold parse_statement_body. rewrite (ST_ct _ _ _ _ _ HST). cbn [ident_tok ttype].
    destruct HST as (_ & Hp & _). unfold peek_ok in Hp. rewrite Hp. reflexivity.
  Qed.

  Lemma P_decl fr G x v : ident_text x = true -> declare TB false x G <> None -> top_ok (envG G) v ->
    P_sok fr G (FmtAst.SInferredDecl x v []).
  Proof.
    intros Hx Hd Hv lvl f s r Hf HST Hn. destruct f as [|f]; [cbn in Hf; lia|].
    pose proof HST as (Hat & Hpk & N & U & A & Fr & Fn).
    rewrite <- (ST_env _ _ _ _ HST) in Hv.
    destruct (inferred_decl_roundtrip B BT fx lvl s x v r [] Hx (declare_decl_ok x s G A Fn Hd) Hv Hat Hn) as (s' & P & A1 & P1).
    exists s'. split; [|split; assumption]. cbn [stmt_tree]. rewrite <- P.
    cbn [fmt_stmt] in HST.
    change (T x :: Sp :: T k_declare :: Sp :: fmt_expr fx lvl v ++ write_comment []) with ([T x; Sp; T k_declare; Sp] ++ fmt_expr fx lvl v ++ write_comment []) in HST.
    rewrite toks_app in HST. cbn [toks_of_pieces flat_map tok_of_piece app] in HST. rewrite (ident_text_spec x Hx) in HST.
    change (tok_of_text k_declare) with (mk T_DECLARE) in HST.
    cbn [parse_statement]. unfold parse_statement_body. rewrite (ST_ct _ _ _ _ _ HST). cbn [ident_tok ttype].
    destruct HST as (_ & Hp & _). unfold peek_ok in Hp. rewrite Hp. reflexivity.
  Qed.

  Lemma P_assign fr G t x steps v : tgt_split t = Some (x, steps) ->
    ident_text x = true -> mem_str x (map fst F) = false -> cvisible x G = true ->
    Forall (step_ok (envG G)) steps -> top_ok (envG G) v ->
    P_sok fr G (FmtAst.SAssign t v []).
  Proof.
    intros Hsp Hx Hnf Hvis Hst Hv lvl f s r Hf HST Hn. destruct f as [|f]; [cbn in Hf; lia|].
    pose proof HST as (Hat & Hpk & N & U & A & Fr & Fn).
    rewrite <- (ST_env _ _ _ _ HST) in Hv, Hst.
    assert (H1 : is_func x s = false) by (rewrite (is_func_F s x Fn); exact Hnf).
    assert (H2 : scope_get x s = true) by (rewrite scope_get_abs, A; exact Hvis).
    destruct (assign_target_roundtrip B BT fx lvl s t x steps v r [] Hsp Hx H1 H2 Hst Hv Hat Hn) as (s' & P & A1 & P1).
    exists s'. split; [|split; assumption]. cbn [stmt_tree]. rewrite <- P.
    cbn [fmt_stmt] in HST. rewrite toks_app in HST. rewrite (tgt_toks fx lvl t x steps Hsp), (ident_text_spec x Hx) in HST.
    cbn [app] in HST. rewrite !tp_cons in HST. cbn [tok_of_piece app] in HST. change (tok_of_text k_assign) with (mk T_ASSIGN) in HST.
    cbn [parse_statement]. unfold parse_statement_body. cbn [app] in HST. rewrite (ST_ct _ _ _ _ _ HST), (ST_cur _ _ _ _ _ HST). cbn [ident_tok ttype tlit].
    rewrite H1. destruct HST as (_ & Hp & _). unfold peek_ok in Hp. rewrite Hp. clear Hp.
    destruct steps as [|[i|k] r0]; cbn [flat_map step_toks app]; reflexivity.
  Qed.

  Lemma P_retv fr G v : fr_ret fr = true -> top_ok (envG G) v -> P_sok fr G (FmtAst.SReturn (Some v) []).
  Proof.
    intros Hret Hv lvl f s r Hf HST Hn. destruct f as [|f]; [cbn in Hf; lia|].
    pose proof HST as (Hat & Hpk & N & U & A & Fr & Fn).
    rewrite <- (ST_env _ _ _ _ HST) in Hv.
    assert (H1 : has_ret s = true).
    { unfold has_ret. unfold frames in Fr. destruct (scs s) as [|sc l]; [contradiction|]. rewrite <- Fr in Hret. exact Hret. }
    destruct (return_value_roundtrip B BT fx lvl s v r [] H1 Hv Hat Hn) as (s' & P & A1 & P1).
    exists s'. split; [|split; assumption]. cbn [stmt_tree]. rewrite <- P.
    cbn [fmt_stmt app] in HST. cbn [toks_of_pieces flat_map tok_of_piece app] in HST.
    change (tok_of_text k_return) with (mk T_RETURN) in HST.
    cbn [parse_statement]. unfold parse_statement_body. rewrite (ST_ct _ _ _ _ _ HST). reflexivity.
  Qed.

  Lemma P_ret fr G : fr_ret fr = true -> fr_retv fr = false -> P_sok fr G (FmtAst.SReturn None []).
  Proof.
    intros Hret Hrv lvl f s r Hf HST Hn. destruct f as [|f]; [cbn in Hf; lia|].
    pose proof HST as (Hat & Hpk & N & U & A & Fr & Fn).
    assert (H1 : has_ret s = true /\ ret_value s = false).
    { unfold has_ret, ret_value. unfold frames in Fr. destruct (scs s) as [|sc l]; [contradiction|]. rewrite <- Fr in Hret, Hrv. split; assumption. }
    destruct (return_bare_roundtrip B fx lvl s r [] (proj1 H1) (proj2 H1) Hat Hn) as (s' & P & A1 & P1).
    exists s'. split; [|split; assumption]. cbn [stmt_tree]. rewrite <- P.
    change (toks_of_pieces (fmt_stmt fx lvl (FmtAst.SReturn None [])) ++ mk T_NL :: r) with (mk T_RETURN :: mk T_NL :: r) in HST.
    cbn [parse_statement]. unfold parse_statement_body. rewrite (ST_ct _ _ _ _ _ HST). reflexivity.
  Qed.

  Lemma P_break fr G : fr_loop fr = true -> P_sok fr G (FmtAst.SBreak []).
  Proof.
    intros Hl lvl f s r Hf HST Hn. destruct f as [|f]; [cbn in Hf; lia|].
    pose proof HST as (Hat & Hpk & N & U & A & Fr & Fn).
    assert (H1 : in_loop s = true) by (rewrite in_loop_frames, Fr; exact Hl).
    destruct (break_roundtrip fx lvl s r [] H1 Hat Hn) as (s' & P & A1 & P1).
    exists s'. split; [|split; assumption]. cbn [stmt_tree]. rewrite <- P.
    change (toks_of_pieces (fmt_stmt fx lvl (FmtAst.SBreak [])) ++ mk T_NL :: r) with (mk T_BREAK :: mk T_NL :: r) in HST.
    cbn [parse_statement]. unfold parse_statement_body. rewrite (ST_ct _ _ _ _ _ HST). reflexivity.
  Qed.

  Lemma P_call fr G n args fi : ident_text n = true -> lookup_fn n F = Some fi ->
    arity_wrong (envG G) n (List.length args) = false -> Forall (item_ok (envG G) true) args ->
    P_sok fr G (FmtAst.SCall n args []).
  Proof.
    intros Hx Hfi Har Hall lvl f s r Hf HST Hn. destruct f as [|f]; [cbn in Hf; lia|].
    pose proof HST as (Hat & Hpk & N & U & A & Fr & Fn).
    rewrite <- (ST_env _ _ _ _ HST) in Har, Hall.
    assert (Hfi' : lookup_fn n (fns s) = Some fi) by (rewrite Fn; exact Hfi).
    destruct (call_stmt_roundtrip B BT fx lvl s n args fi r [] Hx Hfi' Har Hall Hat Hn) as (s' & P & A1 & P1).
    exists s'. split; [|split; assumption]. cbn [stmt_tree]. rewrite <- P.
    cbn [fmt_stmt] in HST. unfold write_comment in HST. cbn [is_empty] in HST. rewrite app_nil_r in HST.
    change (fmt_call fx lvl n args) with (fmt_expr fx lvl (FCall n args)) in HST.
    rewrite (toks_call fx lvl n args Hx) in HST.
    cbn [parse_statement]. unfold parse_statement_body. cbn [app] in HST. rewrite (ST_ct _ _ _ _ _ HST), (ST_cur _ _ _ _ _ HST). cbn [ident_tok ttype tlit].
    rewrite (lookup_is_func s n fi Fn Hfi).
    destruct HST as (_ & Hp & _). unfold peek_ok in Hp. rewrite Hp. clear Hp.
    destruct args as [|a args']; [reflexivity|].
    inversion Hall as [|? ? Ha _]; subst.
    destruct (item_rt (env_of B s) (env_no_tyerr B BT s) eq_refl fx true lvl a Ha) as [Hrt Hh].
    cbn [map more_args flat_map app]. destruct (toks_of_pieces (fmt_expr fx lvl a)) as [|t0 ts] eqn:Eh; [contradiction|].
    pose proof (rt_head_not_assign _ _ _ _ t0 ts Hrt eq_refl) as Hhd.
    cbn [app]. unfold peek_of. cbn [look1 look2 tl hd is_ws ttype mk].
    destruct (ttype t0); try contradiction; reflexivity.
  Qed.

  (* ---------- the statements of a block ---------- *)
  Definition body_toks (L : nat) (e : bool) (body : list fstmt) : list token :=
    toks_of_pieces (stmts_loop L e (map (fun x => (is_blank x, fmt_stmt fx L x)) body)).

  Lemma body_toks_blank L e rest :
    body_toks L e (FmtAst.SEmpty [] :: rest) = (if e then [] else [mk T_NL]) ++ body_toks L true rest.
  Proof. unfold body_toks. cbn [map is_blank is_empty stmts_loop]. rewrite toks_app. destruct e; reflexivity. Qed.

  Lemma body_toks_cons L e st rest : is_blank st = false ->
    body_toks (S L) e (st :: rest) = mk T_WS :: toks_of_pieces (fmt_stmt fx (S L) st) ++ mk T_NL :: body_toks (S L) false rest.
  Proof.
    intro Hb. unfold body_toks. cbn [map stmts_loop]. rewrite Hb.
    rewrite !toks_app. cbn [toks_of_pieces flat_map tok_of_piece app]. reflexivity.
  Qed.

  Definition start_tok (t : token) : Prop :=
    match ttype t with T_IDENT | T_RETURN | T_BREAK | T_WHILE | T_IF | T_FOR => True | _ => False end.

  Lemma sok_head fr G st lvl : sok fr G st -> exists t0 ts, toks_of_pieces (fmt_stmt fx lvl st) = t0 :: ts /\ start_tok t0.
  Proof.
    intro H. destruct H;
      try (cbn [fmt_stmt]; rewrite toks_app, (tgt_toks fx lvl _ _ _ H), (ident_text_spec _ H0); eexists; eexists; (split; [reflexivity|exact I]));
      cbn [fmt_stmt fmt_expr fmt_call write_decl app]; cbn [toks_of_pieces flat_map tok_of_piece app];
      try rewrite (ident_text_spec _ H); eexists; eexists; (split; [reflexivity|exact I]).
  Qed.

  Lemma body_no_ws lvl endq : is_ws (look0 (skip1 endq)) = false ->
    forall body fr G t e, boks fr G t e body -> is_ws (look0 (skip1 (body_toks (S lvl) e body ++ endq))) = false.
  Proof.
    intro He. induction body as [|st rest IH]; intros fr G t e H; [exact He|].
    inversion H as [| ? ? ? ? ? Hr | ? ? ? ? ? ? Hbl Hso Hsc Hnx]; subst.
    - rewrite body_toks_blank. destruct e; cbn [app]; [eapply IH; eassumption | reflexivity].
    - rewrite (body_toks_cons lvl e st rest Hbl). cbn [app skip1 is_ws ttype mk].
      destruct (sok_head _ _ _ (S lvl) Hso) as (t0 & ts & -> & Hs). cbn [app look0 hd].
      unfold start_tok in Hs. unfold is_ws. destruct (ttype t0); try contradiction; reflexivity.
  Qed.

  Definition frame_used (G : ctx) : Prop := match G with f :: _ => forallb snd f = true | [] => False end.
  Definition at_end (els : bool) (t : toktype) : bool := match t with T_END | T_EOF => true | T_ELSE => els | _ => false end.

  Definition P_boks (fr : frs) (G : ctx) (t e : bool) (body : list fstmt) : Prop :=
    forall lvl f fuel els acc s endq tk r',
      szb e body <= f -> szb e body < fuel ->
      skip1 endq = tk :: r' -> at_end els (ttype tk) = true ->
      ST s (skip1 (body_toks (S lvl) e body ++ endq)) G fr ->
      exists s' G', block_loop (parse_statement B f) fuel els acc t s
                    = Ok (Block (rev acc ++ body_trees e body) (t || existsb always_terms (body_trees e body))) s'
                    /\ ST s' (tk :: r') G' fr /\ frame_used G'.

  Lemma ST_adv s t q G fr : ST s (t :: q) G fr -> is_ws (look0 (skip1 q)) = false -> ST (adv s) (skip1 q) G fr.
  Proof.
    intros (Hat & Hp & N & U & A & Fr & Fn) Hn.
    split; [exact (adv_at s t q [] Hat Hn)|]. split; [exact (adv_peek s t q [] Hat)|].
    repeat split; auto. rewrite sused_adv. exact U.
  Qed.

  Lemma P_boks_nil fr G t e : frame_used G -> P_boks fr G t e [].
  Proof.
    intros Hu lvl f fuel els acc s endq tk r' Hf Hfu Hend Hat HST. destruct fuel as [|fuel]; [cbn in Hfu; lia|].
    change (body_toks (S lvl) e [] ++ endq) with endq in HST. rewrite Hend in HST.
    exists s, G. cbn [block_loop body_trees existsb]. rewrite (ST_ct _ _ _ _ _ HST). fold (at_end els (ttype tk)). rewrite Hat.
    rewrite app_nil_r, orb_false_r. auto.
  Qed.

  Lemma at_end_is_ws els tk : at_end els (ttype tk) = true -> is_ws tk = false.
  Proof. unfold is_ws, at_end. destruct (ttype tk); try discriminate; reflexivity. Qed.

  Lemma parse_statement_nl f s : 1 <= f -> ct s = T_NL -> parse_statement B f s = Ok (Some Parser.SEmpty) (adv s).
  Proof.
    intros Hf Hc. destruct f as [|f]; [lia|]. cbn [parse_statement]. unfold parse_statement_body. rewrite Hc.
    unfold parse_empty_stmt. rewrite Hc. reflexivity.
  Qed.

  Lemma P_boks_blank fr G t e rest : boks fr G t true rest -> P_boks fr G t true rest -> P_boks fr G t e (FmtAst.SEmpty [] :: rest).
  Proof.
    intros Hb IH lvl f fuel els acc s endq tk r' Hf Hfu Hend Hat HST.
    rewrite body_toks_blank in HST. cbn [szb is_blank is_empty] in Hf, Hfu.
    destruct e.
    - (* the formatter writes nothing *)
      cbn [app] in HST. cbn [body_trees is_blank is_empty].
      destruct (IH lvl f fuel els acc s endq tk r' Hf Hfu Hend Hat HST) as (s' & G' & P & Q). exists s', G'. split; [exact P|exact Q].
    - cbn [app skip1 is_ws ttype mk] in HST. cbn [body_trees is_blank is_empty].
      destruct fuel as [|fuel]; [lia|].
      cbn [block_loop]. rewrite (ST_ct _ _ _ _ _ HST). cbn [ttype mk].
      rewrite (parse_statement_nl f s ltac:(lia) (ST_ct _ _ _ _ _ HST)). cbn [is_empty_stmt negb andb].
      rewrite andb_false_r.
      assert (Hn : is_ws (look0 (skip1 (body_toks (S lvl) true rest ++ endq))) = false).
      { apply (body_no_ws lvl endq) with (fr := fr) (G := G) (t := t); [|exact Hb]. rewrite Hend. exact (at_end_is_ws els tk Hat). }
      pose proof (ST_adv _ _ _ _ _ HST Hn) as HST'.
      destruct (IH lvl f fuel els (Parser.SEmpty :: acc) (adv s) endq tk r' ltac:(lia) ltac:(lia) Hend Hat HST') as (s' & G' & P & Q).
      exists s', G'. split; [|exact Q]. cbn [always_terms]. rewrite orb_false_r. rewrite P. cbn [rev existsb always_terms orb].
      rewrite <- app_assoc. reflexivity.
  Qed.

  Lemma P_boks_cons fr G e st rest G' : is_blank st = false -> sok fr G st -> P_sok fr G st ->
    scope_stmt TB (stmt_tree st) G = Some G' -> boks fr G' (always_terms (stmt_tree st)) false rest ->
    P_boks fr G' (always_terms (stmt_tree st)) false rest ->
    P_boks fr G false e (st :: rest).
  Proof.
    intros Hbl Hso Hst Hsc Hb IH lvl f fuel els acc s endq tk r' Hf Hfu Hend Hat HST.
    rewrite (body_toks_cons lvl e st rest Hbl) in HST. cbn [app skip1 is_ws ttype mk] in HST.
    rewrite <- app_assoc in HST. cbn [app] in HST.
    cbn [szb] in Hf, Hfu. rewrite Hbl in Hf, Hfu.
    set (X' := body_toks (S lvl) false rest ++ endq) in *.
    assert (Hn : is_ws (look0 (skip1 X')) = false).
    { apply (body_no_ws lvl endq) with (fr := fr) (G := G') (t := always_terms (stmt_tree st)); [|exact Hb]. rewrite Hend. exact (at_end_is_ws els tk Hat). }
    destruct (Hst (S lvl) f s X' ltac:(lia) HST Hn) as (s1 & P & A1 & P1).
    destruct (ST_post f s _ G fr (stmt_tree st) s1 (skip1 X') HST P A1 P1) as (G'' & Hsc' & HST1).
    rewrite Hsc in Hsc'. injection Hsc' as <-.
    destruct fuel as [|fuel]; [lia|]. cbn [block_loop].
    destruct (sok_head fr G st (S lvl) Hso) as (t0 & ts & Ht & Hs). rewrite Ht in HST. cbn [app] in HST.
    rewrite (ST_ct _ _ _ _ _ HST).
    assert (Hne : match ttype t0 with T_END | T_EOF => true | T_ELSE => els | _ => false end = false).
    { unfold start_tok in Hs. destruct (ttype t0); try contradiction; reflexivity. }
    rewrite Hne. rewrite P. cbn [andb orb].
    destruct (IH lvl f fuel els (stmt_tree st :: acc) s1 endq tk r' ltac:(lia) ltac:(lia) Hend Hat HST1) as (s' & G2 & P2 & Q).
    exists s', G2. split; [|exact Q]. rewrite P2. cbn [body_trees]. rewrite Hbl. cbn [rev existsb]. rewrite <- app_assoc. reflexivity.
  Qed.

  (* ---------- conditions, blocks, "end" ---------- *)
  Lemma cond_rt lvl s1 c q G fr :
    at_toks s1 (toks_of_pieces (fmt_expr fx lvl c) ++ mk T_NL :: q) [] -> scs s1 <> [] -> sused s1 = [] ->
    abs s1 = G -> frames s1 = fr -> fns s1 = F -> top_ok (envG G) c ->
    exists s2, parse_condition B s1 = Ok (Some (fexpr_tree c)) s2 /\ at_toks s2 (mk T_NL :: q) [] /\ scs s2 <> [] /\ sused s2 = [] /\
               use_vars (tvars (fexpr_tree c)) G = Some (abs s2) /\ frames s2 = fr /\ fns s2 = F.
  Proof.
    intros Hat N U A Fr Fn Hv.
    assert (Hv' : top_ok (env_of B s1) c) by (rewrite (env_of_abs s1 Fn), A; exact Hv).
    destruct (p_toplevel_value B BT fx lvl s1 c q [] Hv' Hat) as (s2 & P & A3 & _ & _).
    assert (PC : parse_condition B s1 = Ok (Some (fexpr_tree c)) s2).
    { unfold parse_condition. rewrite P. cbn. rewrite (assert_eol_nl s2 q [] A3). unfold tyerr_s. rewrite BT. reflexivity. }
    assert (Q : serrs s2 = []) by (destruct A3 as (_ & _ & E); exact E).
    destruct (condition_sim B s1 _ s2 PC Q U) as (c' & Ec & _ & _ & Hu & Fn' & U').
    injection Ec as <-.
    destruct (condition_sn B s1 _ s2 PC Q) as (_ & Fr').
    exists s2. split; [exact PC|]. split; [exact A3|]. split; [eapply scs_of_frames; [exact Fr'|exact N]|]. split; [exact U'|].
    split; [rewrite <- A; exact Hu|]. split; [rewrite Fr'; exact Fr | rewrite Fn'; exact Fn].
  Qed.

  Lemma filter_unused_nil vars : forallb snd (map (fun v => (v_name v, v_used v)) vars) = true -> filter (fun v => negb (v_used v)) vars = [].
  Proof.
    induction vars as [|v r IH]; [reflexivity|]. cbn [map forallb snd filter]. intro H. apply andb_true_iff in H as [H1 H2].
    rewrite H1. cbn [negb]. exact (IH H2).
  Qed.

  Lemma validate_scope_id s : frame_used (abs s) -> validate_scope s = s.
  Proof.
    unfold frame_used, abs, validate_scope. destruct (scs s) as [|sc l]; [contradiction|]. cbn [map]. unfold absf.
    intro H. rewrite (filter_unused_nil _ H). reflexivity.
  Qed.

  Lemma block_rt lvl f els s body endq tk r' G fr :
    boks fr G false false body -> P_boks fr G false false body -> body_trees false body <> [] ->
    S (szl body) <= f -> skip1 endq = tk :: r' -> at_end els (ttype tk) = true ->
    ST s (skip1 (body_toks (S lvl) false body ++ endq)) G fr ->
    exists s3 G', parse_block_with (parse_statement B f) f els s = Ok (blk_of (body_trees false body)) s3 /\
                  ST s3 (tk :: r') G' fr /\ frame_used G'.
  Proof.
    intros Hb IH Hne Hf Hend Hat HST.
    destruct (IH lvl f f els [] s endq tk r' ltac:(lia) ltac:(lia) Hend Hat HST) as (s3 & G' & P & HST3 & Hu).
    exists s3, G'. unfold parse_block_with. rewrite P. cbn [rev app orb].
    destruct (body_trees false body) as [|t0 ts] eqn:Et; [contradiction|].
    pose proof HST3 as (_ & _ & _ & _ & A3 & _). rewrite <- A3 in Hu. rewrite (validate_scope_id s3 Hu).
    split; [reflexivity|]. split; [exact HST3 | rewrite A3 in Hu; exact Hu].
  Qed.

  Lemma finish_end_rt s r G fr : ST s (mk T_END :: mk T_NL :: r) G fr -> is_ws (look0 (skip1 r)) = false ->
    at_toks (finish_end s) (skip1 r) [] /\ peek_ok (finish_end s) (skip1 r).
  Proof.
    intros HST Hn. unfold finish_end. rewrite (passert_ok T_END s (ST_ct _ _ _ _ _ HST)). cbn [snd].
    pose proof (ST_adv s (mk T_END) (mk T_NL :: r) G fr HST eq_refl) as H1. cbn [skip1 is_ws ttype mk] in H1.
    pose proof (ST_at _ _ _ _ H1) as A1. rewrite (assert_eol_nl (adv s) r [] A1).
    split; [apply apnl_nl; assumption | eapply apnl_peek; eassumption].
  Qed.

  Lemma end_toks lvl r : skip1 (toks_of_pieces [Ind lvl] ++ mk T_END :: r) = mk T_END :: r.
  Proof. destruct lvl; reflexivity. Qed.

  Lemma frames_push_inherit_fr l s : frames (push_inherit l s) = fr_push l (frames s).
  Proof. unfold push_inherit, push_scope, frames, fr_push, fr_ret, fr_retv. cbn [with_scs scs map frame_of sc_ret sc_retval sc_loop]. destruct (scs s) as [|sc t]; reflexivity. Qed.

  Lemma toks_cons p l : toks_of_pieces (p :: l) = tok_of_piece p ++ toks_of_pieces l.
  Proof. reflexivity. Qed.

  Lemma while_toks lvl c body r :
    toks_of_pieces (fmt_stmt fx lvl (FmtAst.SWhile c [] body [])) ++ mk T_NL :: r
    = mk T_WHILE :: mk T_WS :: toks_of_pieces (fmt_expr fx lvl c) ++ mk T_NL :: body_toks (S lvl) false body
      ++ toks_of_pieces [Ind lvl] ++ mk T_END :: mk T_NL :: r.
  Proof.
    cbn [fmt_stmt]. unfold write_comment. cbn [is_empty app]. unfold body_toks.
    repeat (rewrite toks_cons || rewrite toks_app). cbn [tok_of_piece app toks_of_pieces flat_map].
    change (tok_of_text k_while) with (mk T_WHILE). change (tok_of_text k_end) with (mk T_END).
    rewrite <- ?app_assoc. cbn [app]. rewrite <- ?app_assoc. cbn [app]. rewrite ?app_nil_r. destruct lvl; reflexivity.
  Qed.

  Lemma top_head lvl E c : no_tyerr E -> e_fix_slice E = true -> top_ok E c ->
    exists t0 ts, toks_of_pieces (fmt_expr fx lvl c) = t0 :: ts /\ is_ws t0 = false.
  Proof.
    intros NT FS [Hit|(n & args & -> & Hn' & _)].
    - destruct (item_rt E NT FS fx false lvl c Hit) as [_ Hhd].
      destruct (toks_of_pieces (fmt_expr fx lvl c)) as [|t0 ts]; [contradiction|]. exists t0, ts. split; [reflexivity|].
      cbn [head_ok] in Hhd. unfold is_ws. destruct (ttype t0); try contradiction; reflexivity.
    - rewrite (toks_call fx lvl n args Hn'). eexists; eexists. split; reflexivity.
  Qed.

  Lemma envG_no_tyerr G : no_tyerr (envG G).
  Proof. intros a b c. apply BT. Qed.

  (* while c ... end *)
  Lemma P_while fr G c body G1 : top_ok (envG G) c -> body_trees false body <> [] ->
    use_vars (tvars (fexpr_tree c)) ([] :: G) = Some G1 -> boks (fr_push true fr) G1 false false body ->
    P_boks (fr_push true fr) G1 false false body ->
    P_sok fr G (FmtAst.SWhile c [] body []).
  Proof.
    intros Hc Hne Hu Hb IH lvl f s r Hf HST Hn. rewrite sz_while in Hf. destruct f as [|f]; [lia|].
    rewrite while_toks in HST. rewrite stmt_tree_while.
    pose proof HST as (Hat & Hpk & N & U & A & Fr & Fn).
    cbn [parse_statement]. unfold parse_statement_body. rewrite (ST_ct _ _ _ _ _ HST). cbn [ttype mk].
    unfold parse_while_stmt.
    destruct (top_head lvl _ c (envG_no_tyerr G) eq_refl Hc) as (t0 & ts & Ht & Hw0).
    set (q := body_toks (S lvl) false body ++ toks_of_pieces [Ind lvl] ++ mk T_END :: mk T_NL :: r) in *.
    assert (A1 : at_toks (adv s) (toks_of_pieces (fmt_expr fx lvl c) ++ mk T_NL :: q) []).
    { apply (adv_at s (mk T_WHILE) (mk T_WS :: toks_of_pieces (fmt_expr fx lvl c) ++ mk T_NL :: q) [] Hat).
      cbn [skip1 is_ws ttype mk]. rewrite Ht. exact Hw0. }
    set (s1 := push_inherit true (adv s)).
    assert (A1' : at_toks s1 (toks_of_pieces (fmt_expr fx lvl c) ++ mk T_NL :: q) []) by exact A1.
    destruct (cond_rt lvl s1 c q ([] :: G) (fr_push true fr) A1') as (s2 & PC & A2 & N2 & U2 & Hu2 & Fr2 & Fn2).
    { unfold s1, push_inherit, push_scope. cbn [with_scs scs]. discriminate. }
    { unfold s1. rewrite sused_push_inherit, sused_adv. exact U. }
    { unfold s1. rewrite abs_push_inherit, abs_adv, A. reflexivity. }
    { unfold s1. rewrite frames_push_inherit_fr, frames_adv, Fr. reflexivity. }
    { unfold s1. rewrite fns_push_inherit, fns_adv. exact Fn. }
    { exact Hc. }
    rewrite PC. cbv beta iota. rewrite Hu in Hu2. injection Hu2 as HG1.
    (* the block *)
    assert (Hq : is_ws (look0 (skip1 q)) = false).
    { unfold q. apply (body_no_ws lvl) with (fr := fr_push true fr) (G := G1) (t := false); [|exact Hb]. rewrite end_toks. reflexivity. }
    assert (HST2 : ST (apnl s2) (skip1 q) G1 (fr_push true fr)).
    { split; [apply apnl_nl; assumption|]. split; [eapply apnl_peek; eassumption|].
      split; [exact N2|]. split; [rewrite sused_apnl; exact U2|]. split; [rewrite abs_apnl; symmetry; exact HG1|].
      split; [rewrite frames_apnl; exact Fr2 | rewrite fns_apnl; exact Fn2]. }
    destruct (block_rt lvl f false (apnl s2) body (toks_of_pieces [Ind lvl] ++ mk T_END :: mk T_NL :: r) (mk T_END) (mk T_NL :: r) G1 (fr_push true fr)
                Hb IH Hne ltac:(lia) (end_toks lvl _) eq_refl HST2) as (s3 & G' & PB & HST3 & _).
    rewrite PB. cbv beta iota.
    destruct (finish_end_rt s3 r G' _ HST3 Hn) as (A4 & P4).
    eexists. split; [reflexivity|]. split; [exact A4 | exact P4].
  Qed.

  (* ---------- if / else if / else ---------- *)
  Lemma ST_fr_ne s q G fr : ST s q G fr -> fr <> [].
  Proof. intros (_ & _ & N & _ & _ & Fr & _) E. subst fr. unfold frames in E. destruct (scs s); [contradiction|discriminate]. Qed.

  Lemma ST_pop s q G x fr : ST s q G (x :: fr) -> fr <> [] -> ST (pop_scope s) q (tl G) fr.
  Proof.
    intros (Hat & Hp & N & U & A & Fr & Fn) Hne.
    assert (Fr' : frames (pop_scope s) = fr) by (rewrite frames_pop_scope, Fr; reflexivity).
    split; [exact Hat|]. split; [exact Hp|]. split.
    { intro E. unfold frames in Fr'. rewrite E in Fr'. cbn in Fr'. symmetry in Fr'. contradiction. }
    split; [exact U|]. split; [rewrite abs_pop_scope, A; reflexivity|]. split; [exact Fr' | exact Fn].
  Qed.

  Lemma ind_skip lvl t r : is_ws t = false -> skip1 (toks_of_pieces [Ind lvl] ++ t :: r) = t :: r.
  Proof. intro H. destruct lvl; cbn [toks_of_pieces flat_map tok_of_piece app skip1]; [rewrite H|]; reflexivity. Qed.

  (* one branch: "if" condition, block, up to (not including) else / end *)
  Lemma cond_block_rt lvl f s c body endq tk r' G fr G1 Gn :
    top_ok (envG G) c -> body_trees false body <> [] ->
    use_vars (tvars (fexpr_tree c)) ([] :: G) = Some G1 -> boks (fr_push false fr) G1 false false body ->
    P_boks (fr_push false fr) G1 false false body ->
    scope_block TB (blk_of (body_trees false body)) G1 = Some Gn ->
    S (szl body) <= f -> skip1 endq = tk :: r' -> at_end true (ttype tk) = true ->
    ST s (mk T_IF :: mk T_WS :: toks_of_pieces (fmt_expr fx lvl c) ++ mk T_NL :: body_toks (S lvl) false body ++ endq) G fr ->
    exists s3, parse_if_cond_block B (parse_statement B f) f s = Ok (Some (fexpr_tree c), blk_of (body_trees false body)) s3 /\
               ST s3 (tk :: r') Gn fr.
  Proof.
    intros Hc Hne Hu Hb IH Hsb Hf Hend Hat HST.
    pose proof HST as (Hat0 & Hpk & N & U & A & Fr & Fn).
    unfold parse_if_cond_block.
    destruct (top_head lvl _ c (envG_no_tyerr G) eq_refl Hc) as (t0 & ts & Ht & Hw0).
    set (q := body_toks (S lvl) false body ++ endq) in *.
    set (s0 := push_inherit false s).
    assert (A0 : at_toks s0 (mk T_IF :: mk T_WS :: toks_of_pieces (fmt_expr fx lvl c) ++ mk T_NL :: q) []) by exact Hat0.
    assert (A1 : at_toks (adv s0) (toks_of_pieces (fmt_expr fx lvl c) ++ mk T_NL :: q) []).
    { apply (adv_at s0 (mk T_IF) (mk T_WS :: toks_of_pieces (fmt_expr fx lvl c) ++ mk T_NL :: q) [] A0).
      cbn [skip1 is_ws ttype mk]. rewrite Ht. exact Hw0. }
    destruct (cond_rt lvl (adv s0) c q ([] :: G) (fr_push false fr) A1) as (s2 & PC & A2 & N2 & U2 & Hu2 & Fr2 & Fn2).
    { unfold s0, push_inherit, push_scope. cbn [adv upd with_cs with_scs scs]. discriminate. }
    { unfold s0. rewrite sused_adv, sused_push_inherit. exact U. }
    { unfold s0. rewrite abs_adv, abs_push_inherit, A. reflexivity. }
    { unfold s0. rewrite frames_adv, frames_push_inherit_fr, Fr. reflexivity. }
    { unfold s0. rewrite fns_adv, fns_push_inherit. exact Fn. }
    { exact Hc. }
    rewrite PC. cbv beta iota. rewrite Hu in Hu2. injection Hu2 as HG1.
    assert (Hq : is_ws (look0 (skip1 q)) = false).
    { unfold q. apply (body_no_ws lvl) with (fr := fr_push false fr) (G := G1) (t := false); [|exact Hb]. rewrite Hend. exact (at_end_is_ws true tk Hat). }
    assert (HST2 : ST (apnl s2) (skip1 q) G1 (fr_push false fr)).
    { split; [apply apnl_nl; assumption|]. split; [eapply apnl_peek; eassumption|].
      split; [exact N2|]. split; [rewrite sused_apnl; exact U2|]. split; [rewrite abs_apnl; symmetry; exact HG1|].
      split; [rewrite frames_apnl; exact Fr2 | rewrite fns_apnl; exact Fn2]. }
    destruct (block_rt lvl f true (apnl s2) body endq tk r' G1 (fr_push false fr) Hb IH Hne Hf Hend Hat HST2) as (s3 & G' & PB & HST3 & _).
    rewrite PB. cbv beta iota.
    (* the context after the block is the checker's *)
    pose proof HST2 as (_ & _ & N2' & U2' & A2' & _ & Fn2').
    pose proof HST3 as ((_ & _ & E3) & _ & _ & _ & A3 & _).
    destruct (block_with_sim B (parse_statement B f) (stmt_sound B f) (stmt_sim B f) f true (apnl s2) _ s3 PB E3 (conj N2' U2')) as (_ & _ & _ & Hs).
    rewrite Fn2', A2', A3 in Hs. fold TB in Hs. rewrite Hsb in Hs. injection Hs as ->.
    eexists. split; [reflexivity|]. apply (ST_pop s3 _ G' _ fr HST3 (ST_fr_ne _ _ _ _ HST)).
  Qed.

  Definition elif_toks (lvl : nat) (cbs : list cblock) : list token :=
    flat_map (fun cb => match cb with
                        | CBlock c _ body => toks_of_pieces [Ind lvl] ++ mk T_ELSE :: mk T_WS :: mk T_IF :: mk T_WS
                                             :: toks_of_pieces (fmt_expr fx lvl c) ++ mk T_NL :: body_toks (S lvl) false body
                        end) cbs.

  Fixpoint szc (cbs : list cblock) : nat :=
    match cbs with [] => 0 | CBlock _ _ b :: r => S (szl b + szc r) end.

  Lemma elif_next lvl rest endq tk r' : skip1 endq = tk :: r' -> at_end true (ttype tk) = true ->
    exists tk' r'', skip1 (elif_toks lvl rest ++ endq) = tk' :: r'' /\ at_end true (ttype tk') = true.
  Proof.
    intros He Ha. destruct rest as [|[c ch body] rest]; [exists tk, r'; auto|].
    cbn [elif_toks flat_map]. rewrite <- !app_assoc. cbn [app]. rewrite (ind_skip lvl (mk T_ELSE) _ eq_refl).
    eexists; eexists. split; reflexivity.
  Qed.

  Definition P_coks (fr : frs) (G : ctx) (cbs : list cblock) (Gout : ctx) : Prop :=
    forall lvl f fuel acc s endq tk r',
      S (szc cbs) <= f -> List.length cbs < fuel ->
      skip1 endq = tk :: r' -> at_end true (ttype tk) = true ->
      (ttype tk = T_ELSE -> ttype (peek_of (tk :: r')) <> T_IF) ->
      ST s (skip1 (elif_toks lvl cbs ++ endq)) G fr ->
      exists s', else_if_loop B (parse_statement B f) fuel f acc s = Ok (rev acc ++ map cb_tree cbs) s' /\ ST s' (tk :: r') Gout fr.

  Lemma P_coks_nil fr G : P_coks fr G [] G.
  Proof.
    intros lvl f fuel acc s endq tk r' Hf Hfu Hend Hat Hnif HST. destruct fuel as [|fuel]; [cbn in Hfu; lia|].
    cbn [elif_toks flat_map app] in HST. rewrite Hend in HST.
    exists s. cbn [else_if_loop map]. rewrite app_nil_r. split; [|exact HST].
    rewrite (ST_ct _ _ _ _ _ HST). destruct HST as (_ & Hp & _). unfold peek_ok in Hp. rewrite Hp.
    destruct (ttype tk) eqn:Et; try reflexivity.
    specialize (Hnif eq_refl). destruct (ttype (peek_of (tk :: r'))); try reflexivity. contradiction.
  Qed.

  Lemma P_coks_cons fr G c body rest G1 Gn Gout : top_ok (envG G) c -> body_trees false body <> [] ->
    use_vars (tvars (fexpr_tree c)) ([] :: G) = Some G1 -> boks (fr_push false fr) G1 false false body ->
    P_boks (fr_push false fr) G1 false false body ->
    scope_block TB (blk_of (body_trees false body)) G1 = Some Gn -> coks fr Gn rest Gout -> P_coks fr Gn rest Gout ->
    P_coks fr G (CBlock c [] body :: rest) Gout.
  Proof.
    intros Hc Hne Hu Hb IHb Hsb _ IH lvl f fuel acc s endq tk r' Hf Hfu Hend Hat Hnif HST.
    destruct fuel as [|fuel]; [cbn in Hfu; lia|]. cbn [szc] in Hf. cbn [List.length] in Hfu.
    cbn [elif_toks flat_map] in HST. fold (elif_toks lvl rest) in HST. rewrite <- !app_assoc in HST. cbn [app] in HST.
    rewrite (ind_skip lvl (mk T_ELSE) _ eq_refl) in HST. rewrite <- app_assoc in HST. cbn [app] in HST.
    cbn [else_if_loop]. rewrite (ST_ct _ _ _ _ _ HST).
    pose proof HST as (_ & Hp & _). unfold peek_ok in Hp. rewrite Hp. cbn [ttype mk peek_of look1 look2 tl hd is_ws].
    pose proof (ST_adv _ _ _ _ _ HST eq_refl) as HST1. cbn [skip1 is_ws ttype mk] in HST1.
    destruct (elif_next lvl rest endq tk r' Hend Hat) as (tk' & r'' & Hn1 & Hn2).
    destruct (cond_block_rt lvl f (adv s) c body (elif_toks lvl rest ++ endq) tk' r'' G fr G1 Gn Hc Hne Hu Hb IHb Hsb ltac:(lia) Hn1 Hn2 HST1) as (s3 & PB & HST3).
    rewrite PB. cbv beta iota. rewrite <- Hn1 in HST3.
    destruct (IH lvl f fuel (cb_tree (CBlock c [] body) :: acc) s3 endq tk r' ltac:(lia) ltac:(lia) Hend Hat Hnif HST3) as (s' & P & Q).
    exists s'. split; [|exact Q]. cbn [cb_tree] in P. rewrite P. cbn [rev map cb_tree]. rewrite <- app_assoc. reflexivity.
  Qed.

  Lemma elifs_toks lvl fr G elifs Gm : coks fr G elifs Gm ->
    toks_of_pieces (flat_map (fun cb => match cb with
                               | CBlock cond c body =>
                                   [Ind lvl; T k_else; Sp; T k_if; Sp] ++ fmt_expr fx lvl cond ++ write_comment c ++ [NL]
                                   ++ stmts_loop (S lvl) false (map (fun x => (is_blank x, fmt_stmt fx (S lvl) x)) body)
                               end) elifs) = elif_toks lvl elifs.
  Proof.
    induction 1 as [|fr G c body rest G1 Gn Gout _ _ _ _ _ _ IH]; [reflexivity|].
    cbn [flat_map elif_toks]. rewrite toks_app, IH. f_equal.
    unfold write_comment. cbn [is_empty app]. unfold body_toks.
    repeat (rewrite toks_cons || rewrite toks_app). cbn [tok_of_piece app toks_of_pieces flat_map].
    change (tok_of_text k_else) with (mk T_ELSE). change (tok_of_text k_if) with (mk T_IF).
    rewrite <- ?app_assoc. cbn [app]. rewrite ?app_nil_r. destruct lvl; reflexivity.
  Qed.

  Definition else_toks (lvl : nat) (els : option (str * list fstmt)) : list token :=
    match els with
    | Some (_, eb) => toks_of_pieces [Ind lvl] ++ mk T_ELSE :: mk T_NL :: body_toks (S lvl) false eb
    | None => []
    end.

  Lemma if_toks lvl fr G c body elifs Gm (els : option (str * list fstmt)) r : coks fr G elifs Gm ->
    match els with Some (ch, _) => ch = [] | None => True end ->
    toks_of_pieces (fmt_stmt fx lvl (FmtAst.SIf (CBlock c [] body) elifs els [])) ++ mk T_NL :: r
    = mk T_IF :: mk T_WS :: toks_of_pieces (fmt_expr fx lvl c) ++ mk T_NL :: body_toks (S lvl) false body
      ++ (elif_toks lvl elifs ++ else_toks lvl els ++ toks_of_pieces [Ind lvl] ++ mk T_END :: mk T_NL :: r).
  Proof.
    intros Hk He. cbn [fmt_stmt]. unfold body_toks.
    repeat (rewrite toks_cons || rewrite toks_app). rewrite (elifs_toks lvl fr G elifs Gm Hk).
    cbn [tok_of_piece]. change (tok_of_text k_if) with (mk T_IF).
    destruct els as [[ch eb]|]; [subst ch|]; unfold write_comment; cbn [is_empty else_toks app]; unfold body_toks;
      repeat (rewrite toks_cons || rewrite toks_app); cbn [tok_of_piece app toks_of_pieces flat_map];
      change (tok_of_text k_else) with (mk T_ELSE); change (tok_of_text k_end) with (mk T_END);
      rewrite <- ?app_assoc; cbn [app]; rewrite <- ?app_assoc; cbn [app]; rewrite ?app_nil_r; destruct lvl; reflexivity.
  Qed.

  Lemma stmt_tree_if c ch b elifs els ce :
    stmt_tree (FmtAst.SIf (CBlock c ch b) elifs els ce)
    = Parser.SIf (cb_tree (CBlock c ch b) :: map cb_tree elifs)
                 (match els with Some (_, eb) => Some (blk_of (body_trees false eb)) | None => None end).
  Proof.
    cbn [stmt_tree cb_tree]. f_equal. f_equal.
    induction elifs as [|[c' ch' b'] rest IH]; [reflexivity|]. cbn [map cb_tree]. rewrite <- IH. reflexivity.
  Qed.

  Lemma sz_if c ch b elifs els ce :
    sz (FmtAst.SIf (CBlock c ch b) elifs els ce) = S (S (szl b + szc elifs + match els with Some (_, eb) => S (szl eb) | None => 0 end)).
  Proof.
    assert (H : (fix go (l : list cblock) : nat := match l with [] => 0 | CBlock _ _ b0 :: r => S (szl b0 + go r) end) elifs = szc elifs).
    { induction elifs as [|[c' ch' b'] rest IH]; [reflexivity|]. cbn [szc]. rewrite <- IH. reflexivity. }
    rewrite <- H. destruct els as [[? ?]|]; reflexivity.
  Qed.

  Lemma elif_len lvl cbs : 2 * List.length cbs <= List.length (elif_toks lvl cbs).
  Proof.
    induction cbs as [|[c ch b] rest IH]; [cbn; lia|]. cbn [elif_toks flat_map List.length]. fold (elif_toks lvl rest).
    rewrite !app_length. cbn [List.length]. lia.
  Qed.

  Lemma skip1_len l : List.length l <= S (List.length (skip1 l)).
  Proof. destruct l as [|t r]; [cbn; lia|]. cbn [skip1]. destruct (is_ws t); cbn [List.length]; lia. Qed.

  (* the common part: the if branch and the else-if branches *)
  Lemma if_head lvl f s c body elifs endq tk r' fr G G1 Gn Gm :
    top_ok (envG G) c -> body_trees false body <> [] ->
    use_vars (tvars (fexpr_tree c)) ([] :: G) = Some G1 -> boks (fr_push false fr) G1 false false body ->
    P_boks (fr_push false fr) G1 false false body ->
    scope_block TB (blk_of (body_trees false body)) G1 = Some Gn -> coks fr Gn elifs Gm -> P_coks fr Gn elifs Gm ->
    S (szl body + szc elifs) <= f ->
    skip1 endq = tk :: r' -> at_end true (ttype tk) = true -> (ttype tk = T_ELSE -> ttype (peek_of (tk :: r')) <> T_IF) ->
    ST s (mk T_IF :: mk T_WS :: toks_of_pieces (fmt_expr fx lvl c) ++ mk T_NL :: body_toks (S lvl) false body ++ (elif_toks lvl elifs ++ endq)) G fr ->
    exists s1 s2, parse_if_cond_block B (parse_statement B f) f s = Ok (cb_tree (CBlock c [] body)) s1 /\
                  else_if_loop B (parse_statement B f) (S (pos s1)) f [cb_tree (CBlock c [] body)] s1
                  = Ok (cb_tree (CBlock c [] body) :: map cb_tree elifs) s2 /\ ST s2 (tk :: r') Gm fr.
  Proof.
    intros Hc Hne Hu Hb IHb Hsb Hk IHk Hf Hend Hat Hnif HST.
    destruct (elif_next lvl elifs endq tk r' Hend Hat) as (tk' & r'' & Hn1 & Hn2).
    destruct (cond_block_rt lvl f s c body (elif_toks lvl elifs ++ endq) tk' r'' G fr G1 Gn Hc Hne Hu Hb IHb Hsb ltac:(lia) Hn1 Hn2 HST) as (s1 & PB & HST1).
    rewrite <- Hn1 in HST1.
    assert (Hfu : List.length elifs < S (pos s1)).
    { destruct HST1 as ((R1 & _) & _). unfold pos, here. rewrite R1.
      pose proof (skip1_len (elif_toks lvl elifs ++ endq)). pose proof (elif_len lvl elifs). rewrite app_length in H.
      assert (1 <= List.length endq). { destruct endq; [discriminate Hend|cbn; lia]. } lia. }
    destruct (IHk lvl f (S (pos s1)) [cb_tree (CBlock c [] body)] s1 endq tk r' ltac:(lia) Hfu Hend Hat Hnif HST1) as (s2 & P2 & HST2).
    exists s1, s2. split; [exact PB|]. split; [|exact HST2]. rewrite P2. reflexivity.
  Qed.

  Lemma P_if fr G c body elifs G1 Gn Gm : top_ok (envG G) c -> body_trees false body <> [] ->
    use_vars (tvars (fexpr_tree c)) ([] :: G) = Some G1 -> boks (fr_push false fr) G1 false false body ->
    P_boks (fr_push false fr) G1 false false body ->
    scope_block TB (blk_of (body_trees false body)) G1 = Some Gn -> coks fr Gn elifs Gm -> P_coks fr Gn elifs Gm ->
    P_sok fr G (FmtAst.SIf (CBlock c [] body) elifs None []).
  Proof.
    intros Hc Hne Hu Hb IHb Hsb Hk IHk lvl f s r Hf HST Hn. rewrite sz_if in Hf. destruct f as [|f]; [lia|].
    rewrite (if_toks lvl fr Gn c body elifs Gm None r Hk I) in HST. rewrite stmt_tree_if.
    cbn [parse_statement]. unfold parse_statement_body. rewrite (ST_ct _ _ _ _ _ HST). cbn [ttype mk].
    unfold parse_if_stmt. cbn [else_toks app] in HST.
    destruct (if_head lvl f s c body elifs (toks_of_pieces [Ind lvl] ++ mk T_END :: mk T_NL :: r) (mk T_END) (mk T_NL :: r) fr G G1 Gn Gm
                Hc Hne Hu Hb IHb Hsb Hk IHk ltac:(lia) (end_toks lvl _) eq_refl ltac:(discriminate) HST) as (s1 & s2 & P1 & P2 & HST2).
    rewrite P1. cbv beta iota. rewrite P2. cbv beta iota. rewrite (ST_ct _ _ _ _ _ HST2). cbn [ttype mk]. cbv beta iota.
    destruct (finish_end_rt s2 r Gm _ HST2 Hn) as (A4 & P4).
    eexists. split; [reflexivity|]. split; [exact A4 | exact P4].
  Qed.

  Lemma P_if_else fr G c body elifs G1 Gn Gm eb : top_ok (envG G) c -> body_trees false body <> [] ->
    use_vars (tvars (fexpr_tree c)) ([] :: G) = Some G1 -> boks (fr_push false fr) G1 false false body ->
    P_boks (fr_push false fr) G1 false false body ->
    scope_block TB (blk_of (body_trees false body)) G1 = Some Gn -> coks fr Gn elifs Gm -> P_coks fr Gn elifs Gm ->
    body_trees false eb <> [] -> boks (fr_push false fr) ([] :: Gm) false false eb ->
    P_boks (fr_push false fr) ([] :: Gm) false false eb ->
    P_sok fr G (FmtAst.SIf (CBlock c [] body) elifs (Some ([], eb)) []).
  Proof.
    intros Hc Hne Hu Hb IHb Hsb Hk IHk Hnee Hbe IHe lvl f s r Hf HST Hn. rewrite sz_if in Hf. destruct f as [|f]; [lia|].
    rewrite (if_toks lvl fr Gn c body elifs Gm (Some ([], eb)) r Hk eq_refl) in HST. rewrite stmt_tree_if.
    cbn [parse_statement]. unfold parse_statement_body. rewrite (ST_ct _ _ _ _ _ HST). cbn [ttype mk].
    unfold parse_if_stmt. cbn [else_toks] in HST.
    set (endq2 := toks_of_pieces [Ind lvl] ++ mk T_END :: mk T_NL :: r) in *.
    set (q := body_toks (S lvl) false eb ++ endq2) in *.
    destruct (if_head lvl f s c body elifs ((toks_of_pieces [Ind lvl] ++ mk T_ELSE :: mk T_NL :: body_toks (S lvl) false eb) ++ endq2)
                (mk T_ELSE) (mk T_NL :: q) fr G G1 Gn Gm
                Hc Hne Hu Hb IHb Hsb Hk IHk ltac:(lia)) as (s1 & s2 & P1 & P2 & HST2).
    { rewrite <- app_assoc. cbn [app]. rewrite (ind_skip lvl (mk T_ELSE) _ eq_refl). reflexivity. }
    { reflexivity. }
    { intros _. cbn. discriminate. }
    { exact HST. }
    rewrite P1. cbv beta iota. rewrite P2. cbv beta iota. rewrite (ST_ct _ _ _ _ _ HST2). cbn [ttype mk]. cbv beta iota.
    (* else: NL, then the block in a new scope *)
    pose proof (ST_adv s2 (mk T_ELSE) (mk T_NL :: q) Gm fr HST2 eq_refl) as H1. cbn [skip1 is_ws ttype mk] in H1.
    rewrite (assert_eol_nl (adv s2) q [] (ST_at _ _ _ _ H1)).
    assert (Hq : is_ws (look0 (skip1 q)) = false).
    { unfold q. apply (body_no_ws lvl) with (fr := fr_push false fr) (G := [] :: Gm) (t := false); [|exact Hbe]. unfold endq2. rewrite end_toks. reflexivity. }
    pose proof H1 as (Hat1 & _ & N1 & U1 & A1 & Fr1 & Fn1).
    set (s3 := push_inherit false (apnl (adv s2))).
    assert (HST3 : ST s3 (skip1 q) ([] :: Gm) (fr_push false fr)).
    { split; [exact (apnl_nl (adv s2) q [] Hat1 Hq)|]. split; [exact (apnl_peek (adv s2) q [] Hat1)|].
      split; [unfold s3, push_inherit, push_scope; cbn [with_scs scs]; discriminate|].
      split; [unfold s3; rewrite sused_push_inherit, sused_apnl; exact U1|].
      split; [unfold s3; rewrite abs_push_inherit, abs_apnl, A1; reflexivity|].
      split; [unfold s3; rewrite frames_push_inherit_fr, frames_apnl, Fr1; reflexivity|].
      unfold s3. rewrite fns_push_inherit, fns_apnl. exact Fn1. }
    destruct (block_rt lvl f false s3 eb endq2 (mk T_END) (mk T_NL :: r) ([] :: Gm) (fr_push false fr) Hbe IHe Hnee ltac:(lia) (end_toks lvl _) eq_refl HST3)
      as (s4 & G' & PB & HST4 & _).
    rewrite PB. cbv beta iota.
    pose proof (ST_pop s4 _ G' _ fr HST4 (ST_fr_ne _ _ _ _ HST)) as HST5.
    destruct (finish_end_rt (pop_scope s4) r (tl G') _ HST5 Hn) as (A4 & P4).
    eexists. split; [reflexivity|]. split; [exact A4 | exact P4].
  Qed.

  (* ---------- for ---------- *)
  Definition list_toks (lvl : nat) (es : list fexpr) : list token :=
    match map (fun a => toks_of_pieces (fmt_expr fx lvl a)) es with [] => [] | a :: r => a ++ more_args r end.

  Lemma range_toks lvl r : toks_of_pieces (fmt_range fx lvl r) = list_toks lvl (range_exprs r).
  Proof.
    destruct r as [[a|] b [c|]|e]; unfold list_toks; cbn [fmt_range range_exprs app map more_args flat_map];
      repeat (rewrite toks_cons || rewrite toks_app); cbn [tok_of_piece toks_of_pieces flat_map app]; rewrite ?app_nil_r; rewrite <- ?app_assoc; reflexivity.
  Qed.

  (* parseExprList on the formatted range expressions, up to the end of the line *)
  Lemma p_expr_list_value lvl s es r e :
    es <> [] -> Forall (item_ok (env_of B s) true) es ->
    at_toks s (list_toks lvl es ++ mk T_NL :: r) e ->
    exists s', p_expr_list B s = Ok (Some (map fexpr_tree es)) s' /\ at_toks s' (mk T_NL :: r) e.
  Proof.
    intros Hne Hall (Hr & Hw & He). unfold p_expr_list, expr_call.
    set (E := env_of B s). set (fuel := efuel (cs s)). unfold list_toks in Hr.
    set (ats := map (fun a => toks_of_pieces (fmt_expr fx lvl a)) es) in *.
    assert (H2 : Forall2 (fun a t => RT E true a t /\ head_ok a) ats (map fexpr_tree es)).
    { unfold ats. clear - Hall BT. induction es as [|a r0 IH]; [constructor|]. inversion Hall; subst. cbn [map].
      constructor; [apply (item_rt E (env_no_tyerr B BT s) eq_refl fx true lvl a); assumption | apply IH; assumption]. }
    assert (Hlen : forall a, In a ats -> List.length a <= List.length (match ats with [] => [] | a :: r => a ++ more_args r end)).
    { clear. destruct ats as [|x r0]; [contradiction|]. intros a [<-|H]; [rewrite app_length; lia|]. rewrite app_length.
      assert (List.length a <= List.length (more_args r0)); [|lia]. clear x. induction r0 as [|y r1 IH]; [contradiction|].
      cbn [more_args flat_map]. fold (more_args r1). simpl. rewrite app_length. destruct H as [->|H]; [lia|]. specialize (IH H). lia. }
    assert (Hnn : List.length ats <= S (List.length (match ats with [] => [] | a :: r => a ++ more_args r end))).
    { clear. destruct ats as [|x r0]; [simpl; lia|]. rewrite app_length. cbn [List.length].
      assert (List.length r0 <= List.length (more_args r0)); [|lia]. induction r0 as [|y r1 IH]; [simpl; lia|].
      cbn [more_args flat_map]. fold (more_args r1). simpl. rewrite app_length. lia. }
    assert (Hfu : 2 * S (List.length (match ats with [] => [] | a :: r => a ++ more_args r end)) <= fuel).
    { unfold fuel, efuel, here. rewrite Hr, app_length. cbn [List.length]. lia. }
    destruct (expr_list_loop E fuel ats (map fexpr_tree es) [] (cs s) (mk T_NL :: r) fuel [] H2 Hr Hw I) as (c & P & Q1 & Q2 & Q3).
    { intros a Ha. specialize (Hlen a Ha). lia. }
    { lia. }
    rewrite P. cbn [rev app]. eexists. split; [reflexivity|]. apply collect_at; auto; [rewrite Q2; exact Hw | rewrite Q3; exact He].
  Qed.

  Lemma for_toks lvl lv r body q :
    toks_of_pieces (fmt_stmt fx lvl (FmtAst.SFor lv r [] body [])) ++ mk T_NL :: q
    = mk T_FOR :: mk T_WS :: (match lv with Some n => [tok_of_text n; mk T_WS; mk T_DECLARE; mk T_WS] | None => [] end)
      ++ mk T_RANGE :: mk T_WS :: list_toks lvl (range_exprs r) ++ mk T_NL :: body_toks (S lvl) false body
      ++ toks_of_pieces [Ind lvl] ++ mk T_END :: mk T_NL :: q.
  Proof.
    cbn [fmt_stmt]. unfold write_comment. cbn [is_empty]. unfold body_toks. rewrite <- range_toks.
    destruct lv as [n|]; repeat (rewrite toks_cons || rewrite toks_app); cbn [tok_of_piece app toks_of_pieces flat_map];
      change (tok_of_text k_for) with (mk T_FOR); change (tok_of_text k_range) with (mk T_RANGE);
      change (tok_of_text k_declare) with (mk T_DECLARE); change (tok_of_text k_end) with (mk T_END);
      rewrite <- ?app_assoc; cbn [app]; rewrite <- ?app_assoc; cbn [app]; rewrite ?app_nil_r; destruct lvl; reflexivity.
  Qed.

  Lemma list_head lvl E es : no_tyerr E -> e_fix_slice E = true -> es <> [] -> Forall (item_ok E true) es ->
    exists t0 ts, list_toks lvl es = t0 :: ts /\ is_ws t0 = false.
  Proof.
    intros NT FS Hne Hall. destruct es as [|a r]; [contradiction|]. inversion Hall; subst.
    destruct (item_rt E NT FS fx true lvl a H1) as [_ Hhd]. unfold list_toks. cbn [map].
    destruct (toks_of_pieces (fmt_expr fx lvl a)) as [|t0 ts]; [contradiction|]. exists t0. eexists. split; [reflexivity|].
    cbn [head_ok] in Hhd. unfold is_ws. destruct (ttype t0); try contradiction; reflexivity.
  Qed.

  Lemma range_exprs_ne r : range_exprs r <> [].
  Proof. destruct r as [[a|] b [c|]|e]; discriminate. Qed.

  Lemma P_for fr G lv r body Gd G1 :
    match lv with Some x => ident_text x = true /\ declare TB false x ([] :: G) = Some Gd | None => Gd = [] :: G end ->
    Forall (item_ok (envG Gd) true) (range_exprs r) ->
    use_vars (lvars (map fexpr_tree (range_exprs r))) Gd = Some G1 ->
    body_trees false body <> [] -> boks (fr_push true fr) G1 false false body ->
    P_boks (fr_push true fr) G1 false false body ->
    P_sok fr G (FmtAst.SFor lv r [] body []).
  Proof.
    intros Hlv Hall Hu Hne Hb IH lvl f s r0 Hf HST Hn. rewrite sz_for in Hf. destruct f as [|f]; [lia|].
    rewrite for_toks in HST. rewrite stmt_tree_for, range_trees_eq.
    pose proof HST as (Hat & Hpk & N & U & A & Fr & Fn).
    cbn [parse_statement]. unfold parse_statement_body. rewrite (ST_ct _ _ _ _ _ HST). cbn [ttype mk].
    unfold parse_for_stmt.
    destruct (list_head lvl _ (range_exprs r) (envG_no_tyerr Gd) eq_refl (range_exprs_ne r) Hall) as (t0 & ts & Ht & Hw0).
    set (q := body_toks (S lvl) false body ++ toks_of_pieces [Ind lvl] ++ mk T_END :: mk T_NL :: r0) in *.
    set (rt := list_toks lvl (range_exprs r)) in *.
    set (s0 := push_inherit true s).
    assert (N0 : scs s0 <> []) by (unfold s0, push_inherit, push_scope; cbn [with_scs scs]; discriminate).
    assert (A0 : abs s0 = [] :: G) by (unfold s0; rewrite abs_push_inherit, A; reflexivity).
    assert (Fr0 : frames s0 = fr_push true fr) by (unfold s0; rewrite frames_push_inherit_fr, Fr; reflexivity).
    (* the state that stands on "range", with the loop variable declared *)
    assert (H4 : exists s4, (let s1 := adv s0 in
                  match ct s1 with
                  | T_IDENT =>
                      let name := tlit (cur (cs s1)) in
                      let '(ok, s2) := validate_var_decl B name (pos s1) false s1 in
                      if ok then (Some (Some name), adv (snd (passert T_DECLARE (adv (scope_set name (pos s1) s2)))))
                      else (None, s2)
                  | _ => (Some None, s1)
                  end) = (Some lv, s4) /\
                at_toks s4 (mk T_RANGE :: mk T_WS :: rt ++ mk T_NL :: q) [] /\ scs s4 <> [] /\ sused s4 = [] /\ abs s4 = Gd /\
                frames s4 = fr_push true fr /\ fns s4 = F).
    { destruct lv as [x|].
      - destruct Hlv as [Hx Hd]. rewrite (ident_text_spec x Hx) in HST. cbn [app] in HST.
        destruct HST as (Hat' & _).
        assert (A1 : at_toks (adv s0) (ident_tok x :: mk T_WS :: mk T_DECLARE :: mk T_WS :: mk T_RANGE :: mk T_WS :: rt ++ mk T_NL :: q) []).
        { apply (adv_at s0 (mk T_FOR) (mk T_WS :: ident_tok x :: mk T_WS :: mk T_DECLARE :: mk T_WS :: mk T_RANGE :: mk T_WS :: rt ++ mk T_NL :: q) [] Hat'). reflexivity. }
        set (s1 := adv s0) in *. cbv zeta.
        assert (C1 : ct s1 = T_IDENT) by (destruct A1 as (R1 & _); unfold ct, cur_t, cur; rewrite R1; reflexivity).
        assert (Cu : tlit (cur (cs s1)) = x) by (destruct A1 as (R1 & _); unfold cur; rewrite R1; reflexivity).
        rewrite C1, Cu.
        assert (Ab1 : abs s1 = [] :: G) by (unfold s1; rewrite abs_adv; exact A0).
        assert (Fn1 : fns s1 = F) by (unfold s1, s0; rewrite fns_adv, fns_push_inherit; exact Fn).
        assert (Hdne : declare TB false x ([] :: G) <> None) by (rewrite Hd; discriminate).
        destruct (declare_decl_ok x s1 ([] :: G) Ab1 Fn1 Hdne) as (D1 & D2 & D3 & D4).
        assert (Hvd : validate_var_decl B x (pos s1) false s1 = (true, s1)).
        { unfold validate_var_decl. rewrite D1, D2, D3. cbn [negb andb]. rewrite D4. reflexivity. }
        rewrite Hvd.
        assert (N1 : scs s1 <> []) by exact N0.
        pose proof (declare_sim B x (pos s1) false s1 ltac:(rewrite Hvd; reflexivity) N1) as Hds.
        rewrite Fn1, Ab1 in Hds. fold TB in Hds. rewrite Hd in Hds. injection Hds as Hds.
        set (s2 := scope_set x (pos s1) s1) in *.
        assert (A2 : at_toks s2 (ident_tok x :: mk T_WS :: mk T_DECLARE :: mk T_WS :: mk T_RANGE :: mk T_WS :: rt ++ mk T_NL :: q) []).
        { unfold s2, scope_set. rewrite D4. destruct (scs s1); [exact A1|]. exact A1. }
        assert (A3 : at_toks (adv s2) (mk T_DECLARE :: mk T_WS :: mk T_RANGE :: mk T_WS :: rt ++ mk T_NL :: q) []).
        { apply (adv_at s2 _ _ [] A2). reflexivity. }
        rewrite (passert_ok T_DECLARE (adv s2)); [|destruct A3 as (R3 & _); unfold ct, cur_t, cur; rewrite R3; reflexivity]. cbn [snd].
        eexists. split; [reflexivity|]. split; [apply (adv_at (adv s2) _ _ [] A3); reflexivity|].
        split; [unfold s2; eapply scs_of_frames; [|exact N1]; unfold adv, upd; rewrite !frames_with_cs, frames_scope_set; reflexivity|].
        split; [rewrite !sused_adv; unfold s2; rewrite sused_scope_set; unfold s1, s0; rewrite sused_adv, sused_push_inherit; exact U|].
        split; [rewrite !abs_adv; symmetry; exact Hds|].
        split; [rewrite !frames_adv; unfold s2; rewrite frames_scope_set; unfold s1; rewrite frames_adv; exact Fr0|].
        rewrite !fns_adv. unfold s2. rewrite fns_scope_set. exact Fn1.
      - subst Gd. cbn [app] in HST. destruct HST as (Hat' & _).
        assert (A1 : at_toks (adv s0) (mk T_RANGE :: mk T_WS :: rt ++ mk T_NL :: q) []).
        { apply (adv_at s0 (mk T_FOR) (mk T_WS :: mk T_RANGE :: mk T_WS :: rt ++ mk T_NL :: q) [] Hat'). reflexivity. }
        cbv zeta. assert (C1 : ct (adv s0) = T_RANGE) by (destruct A1 as (R1 & _); unfold ct, cur_t, cur; rewrite R1; reflexivity).
        rewrite C1. eexists. split; [reflexivity|]. split; [exact A1|]. split; [exact N0|].
        split; [rewrite sused_adv; unfold s0; rewrite sused_push_inherit; exact U|]. split; [rewrite abs_adv; exact A0|].
        split; [rewrite frames_adv; exact Fr0 | unfold s0; rewrite fns_adv, fns_push_inherit; exact Fn]. }
    destruct H4 as (s4 & E4 & A4 & N4 & U4 & Ab4 & Fr4 & Fn4).
    change (adv (push_inherit true s)) with (adv s0). cbv zeta in E4. rewrite E4. cbv beta iota.
    rewrite (passert_ok T_RANGE s4); [|destruct A4 as (R4 & _); unfold ct, cur_t, cur; rewrite R4; reflexivity]. cbv beta iota. cbn [negb].
    assert (A6 : at_toks (adv s4) (rt ++ mk T_NL :: q) []).
    { apply (adv_at s4 _ _ [] A4). cbn [skip1 is_ws ttype mk]. rewrite Ht. exact Hw0. }
    assert (Hall' : Forall (item_ok (env_of B (adv s4)) true) (range_exprs r)).
    { rewrite (env_of_abs (adv s4)); [|rewrite fns_adv; exact Fn4]. rewrite abs_adv, Ab4. exact Hall. }
    destruct (p_expr_list_value lvl (adv s4) (range_exprs r) q [] (range_exprs_ne r) Hall' A6) as (s7 & PL & A7).
    rewrite PL. cbv beta iota.
    assert (Q7 : serrs s7 = []) by (destruct A7 as (_ & _ & E7); exact E7).
    destruct (p_expr_list_full B (adv s4) _ s7 PL Q7 ltac:(rewrite sused_adv; exact U4)) as (_ & Hu7 & Fn7 & U7).
    destruct (p_expr_list_sn B (adv s4) _ s7 PL Q7) as (_ & Fr7).
    rewrite abs_adv, Ab4, Hu in Hu7. injection Hu7 as HG1.
    destruct (map fexpr_tree (range_exprs r)) as [|n more] eqn:En.
    { exfalso. destruct (range_exprs r) eqn:Er; [exact (range_exprs_ne r Er)|discriminate En]. }
    unfold tyerr_s. rewrite !BT. rewrite andb_false_r. rewrite (assert_eol_nl s7 q [] A7).
    assert (Hq : is_ws (look0 (skip1 q)) = false).
    { unfold q. apply (body_no_ws lvl) with (fr := fr_push true fr) (G := G1) (t := false); [|exact Hb]. rewrite end_toks. reflexivity. }
    assert (HST2 : ST (apnl s7) (skip1 q) G1 (fr_push true fr)).
    { split; [apply apnl_nl; assumption|]. split; [eapply apnl_peek; eassumption|].
      split; [eapply scs_of_frames; [exact Fr7|]; unfold adv, upd; cbn [with_cs scs]; exact N4|]. split; [rewrite sused_apnl; exact U7|].
      split; [rewrite abs_apnl; symmetry; exact HG1|].
      split; [rewrite frames_apnl, Fr7, frames_adv; exact Fr4 | rewrite fns_apnl, Fn7, fns_adv; exact Fn4]. }
    destruct (block_rt lvl f false (apnl s7) body (toks_of_pieces [Ind lvl] ++ mk T_END :: mk T_NL :: r0) (mk T_END) (mk T_NL :: r0) G1 (fr_push true fr)
                Hb IH Hne ltac:(lia) (end_toks lvl _) eq_refl HST2) as (s3 & G' & PB & HST3 & _).
    rewrite PB. cbv beta iota.
    destruct (finish_end_rt s3 r0 G' _ HST3 Hn) as (A9 & P9).
    eexists. split; [reflexivity|]. split; [exact A9 | exact P9].
  Qed.

  (* ---------- the statement theorem ---------- *)
  Ltac cases :=
    first [ intros; eapply P_typed; eassumption | intros; eapply P_decl; eassumption | intros; eapply P_assign; eassumption
          | intros; eapply P_call; eassumption | intros; eapply P_retv; eassumption | intros; eapply P_ret; eassumption
          | intros; eapply P_break; eassumption | intros; eapply P_while; eassumption | intros; eapply P_for; eassumption
          | intros; eapply P_if; eassumption | intros; eapply P_if_else; eassumption
          | intros; eapply P_coks_nil | intros; eapply P_coks_cons; eassumption
          | intros; eapply P_boks_nil; eassumption | intros; eapply P_boks_blank; eassumption
          | intros; eapply P_boks_cons; eassumption ].

  Theorem stmt_roundtrip : forall fr G st, sok fr G st -> P_sok fr G st.
  Proof. apply (sok_mind P_sok P_coks P_boks); cases. Qed.

  Theorem branches_roundtrip : forall fr G cbs Gout, coks fr G cbs Gout -> P_coks fr G cbs Gout.
  Proof. apply (coks_mind P_sok P_coks P_boks); cases. Qed.

  Theorem body_roundtrip : forall fr G t e body, boks fr G t e body -> P_boks fr G t e body.
  Proof. apply (boks_mind P_sok P_coks P_boks); cases. Qed.
  (* ---------- the statements of a program (parseProgram's loop), without func / on ---------- *)
  Definition top_fr : frs := [(false, false, false)].

  (* like boks, at indentation 0 and with parseProgram's stricter rule: nothing at all may follow a
     statement that always terminates, so no top-level statement does *)
  Inductive poks : ctx -> bool -> list fstmt -> ctx -> Prop :=
  | poks_nil G e : poks G e [] G
  | poks_blank G e rest Gout : poks G true rest Gout -> poks G e (FmtAst.SEmpty [] :: rest) Gout
  | poks_cons G e st rest G' Gout : is_blank st = false -> sok top_fr G st -> always_terms (stmt_tree st) = false ->
      scope_stmt TB (stmt_tree st) G = Some G' -> poks G' false rest Gout -> poks G e (st :: rest) Gout.

  Lemma body_toks_cons0 e st rest : is_blank st = false ->
    body_toks 0 e (st :: rest) = toks_of_pieces (fmt_stmt fx 0 st) ++ mk T_NL :: body_toks 0 false rest.
  Proof.
    intro Hb. unfold body_toks. cbn [map stmts_loop]. rewrite Hb.
    rewrite !toks_app. cbn [toks_of_pieces flat_map tok_of_piece app]. reflexivity.
  Qed.

  Lemma prog_no_ws : forall body G e Gout, poks G e body Gout -> is_ws (look0 (skip1 (body_toks 0 e body))) = false.
  Proof.
    induction body as [|st rest IH]; intros G e Gout H; [reflexivity|].
    inversion H as [| ? ? ? ? Hr | ? ? ? ? ? ? Hbl Hso Hat Hsc Hnx]; subst.
    - rewrite body_toks_blank. destruct e; cbn [app]; [eapply IH; eassumption | reflexivity].
    - rewrite (body_toks_cons0 e st rest Hbl).
      destruct (sok_head _ _ _ 0 Hso) as (t0 & ts & -> & Hs). cbn [app skip1].
      assert (W : is_ws t0 = false) by (unfold start_tok in Hs; unfold is_ws; destruct (ttype t0); try contradiction; reflexivity).
      rewrite W. cbn [look0 hd]. exact W.
  Qed.

  Lemma skip1_start t l : start_tok t -> skip1 (t :: l) = t :: l.
  Proof. intro Hs. cbn [skip1]. unfold start_tok in Hs. unfold is_ws. destruct (ttype t); try contradiction; reflexivity. Qed.

  Theorem program_loop_roundtrip : forall G e body Gout, poks G e body Gout ->
    forall fuel acc s, szb e body < fuel -> ST s (skip1 (body_toks 0 e body)) G top_fr ->
    exists s', program_loop B fuel acc false s = Ok (rev acc ++ body_trees e body) s' /\ ST s' [] Gout top_fr.
  Proof.
    induction 1 as [G e | G e rest Gout Hp IH | G e st rest G' Gout Hbl Hso Hat Hsc Hp IH]; intros fuel acc s Hfu HST.
    - destruct fuel as [|fuel]; [lia|]. cbn [body_toks stmts_loop map toks_of_pieces flat_map skip1] in HST.
      exists s. cbn [program_loop body_trees]. rewrite app_nil_r.
      assert (Hc : ct s = T_EOF) by (destruct HST as ((Hr & _) & _); unfold ct, cur_t, cur; rewrite Hr; reflexivity).
      rewrite Hc. split; [reflexivity|exact HST].
    - rewrite body_toks_blank in HST. cbn [szb is_blank is_empty] in Hfu. destruct e.
      + cbn [app] in HST. cbn [body_trees is_blank is_empty]. exact (IH fuel acc s Hfu HST).
      + cbn [app skip1 is_ws ttype mk] in HST. cbn [body_trees is_blank is_empty].
        destruct fuel as [|fuel]; [lia|]. cbn [program_loop]. rewrite (ST_ct _ _ _ _ _ HST). cbn [ttype mk].
        destruct fuel as [|fuel]; [lia|].
        rewrite (parse_statement_nl (S fuel) s ltac:(lia) (ST_ct _ _ _ _ _ HST)).
        pose proof (ST_adv _ _ _ _ _ HST (prog_no_ws rest G true Gout Hp)) as HST'.
        destruct (IH (S fuel) (Parser.SEmpty :: acc) (adv s) ltac:(lia) HST') as (s' & P & Q).
        exists s'. split; [|exact Q]. cbn [always_terms]. rewrite P. cbn [rev]. rewrite <- app_assoc. reflexivity.
    - rewrite (body_toks_cons0 e st rest Hbl) in HST.
      destruct (sok_head top_fr G st 0 Hso) as (t0 & ts & Ht & Hs). rewrite Ht in HST. cbn [app] in HST.
      rewrite (skip1_start t0 _ Hs) in HST.
      cbn [szb] in Hfu. rewrite Hbl in Hfu. destruct fuel as [|fuel]; [lia|].
      pose proof (stmt_roundtrip top_fr G st Hso) as Hst.
      assert (HST0 : ST s (toks_of_pieces (fmt_stmt fx 0 st) ++ mk T_NL :: body_toks 0 false rest) G top_fr) by (rewrite Ht; exact HST).
      destruct (Hst 0 fuel s (body_toks 0 false rest) ltac:(lia) HST0 (prog_no_ws rest G' false Gout Hp)) as (s1 & P & A1 & P1).
      destruct (ST_post fuel s _ G top_fr (stmt_tree st) s1 _ HST0 P A1 P1) as (G'' & Hsc' & HST1).
      rewrite Hsc in Hsc'. injection Hsc' as <-.
      cbn [program_loop]. rewrite (ST_ct _ _ _ _ _ HST).
      assert (Hd : forall X Y Z : PR (list stmt), match ttype t0 with T_EOF => X | T_FUNC => Y | T_ON => Z | _ =>
                     pdo (r, s1) <- parse_statement B fuel s;
                     match r with
                     | None => program_loop B fuel acc false s1
                     | Some st0 => if false then program_loop B fuel acc false (serr_at K_unreachable (pos s) s1)
                                   else program_loop B fuel (st0 :: acc) (always_terms st0) s1
                     end end =
                     pdo (r, s1) <- parse_statement B fuel s;
                     match r with
                     | None => program_loop B fuel acc false s1
                     | Some st0 => program_loop B fuel (st0 :: acc) (always_terms st0) s1
                     end).
      { intros X Y Z. unfold start_tok in Hs. destruct (ttype t0); try contradiction; reflexivity. }
      rewrite Hd. rewrite P. cbv beta iota. rewrite Hat.
      destruct (IH fuel (stmt_tree st :: acc) s1 ltac:(lia) HST1) as (s' & P2 & Q).
      exists s'. split; [|exact Q]. rewrite P2. cbn [body_trees]. rewrite Hbl. cbn [rev]. rewrite <- app_assoc. reflexivity.
  Qed.

End Blocks.
