(* SemEvents.v — C15: events run their handlers in order, isolated, on shared
   globals.  Lemmas and proofs about [bind_payload], [handle_event], the event
   fold of [sem_case], and the comparison of event delivery with a call of a
   user procedure ([bind_params], user branch of [eval_call]).
   Statements are re-exported in Props/C15.v. *)
From Coq Require Import ZArith NArith PArith List String Bool Floats FMapPositive Lia.
From EvyV Require Import Base Num Ast Omap Sem SemPure.
Import ListNotations.

(* ====================================================================== *)
(* 0. state and heap basics                                               *)
(* ====================================================================== *)
Lemma upd_heap_id s : upd_heap (st_heap s) s = s.
Proof. destruct s; reflexivity. Qed.

Lemma hget_halloc_same h v : hget (snd (halloc h v)) (hnext h) = Some v.
Proof. unfold hget, halloc; cbn. apply PositiveMap.gss. Qed.

Lemma hget_halloc_other h v l : l <> hnext h -> hget (snd (halloc h v)) l = hget h l.
Proof. intro H; unfold hget, halloc; cbn. apply PositiveMap.gso. exact H. Qed.

(* [n] consecutive addresses from [p] *)
Fixpoint loc_seq (p : positive) (n : nat) : list loc :=
  match n with O => [] | S k => p :: loc_seq (Pos.succ p) k end.

(* allocating a list of values one after the other *)
Fixpoint halloc_list (h : heap) (vs : list hval) : heap :=
  match vs with [] => h | v :: t => halloc_list (snd (halloc h v)) t end.

Lemma loc_seq_length p n : List.length (loc_seq p n) = n.
Proof. revert p; induction n as [|n IH]; intro p; cbn; [reflexivity | now rewrite IH]. Qed.

Lemma loc_seq_ge p n l : In l (loc_seq p n) -> (p <= l)%positive.
Proof.
  revert p; induction n as [|n IH]; intros p H; cbn in H; [contradiction|].
  destruct H as [<- | H]; [lia|]. apply IH in H. lia.
Qed.

Lemma loc_seq_NoDup p n : NoDup (loc_seq p n).
Proof.
  revert p; induction n as [|n IH]; intro p; cbn; constructor; [|apply IH].
  intro H. apply loc_seq_ge in H. lia.
Qed.

Lemma hnext_halloc_list h vs :
  loc_seq (hnext h) (List.length vs) ++ [hnext (halloc_list h vs)] = loc_seq (hnext h) (S (List.length vs)).
Proof.
  revert h; induction vs as [|v t IH]; intro h; [reflexivity|].
  cbn [List.length halloc_list]. change (loc_seq (hnext h) (S (List.length t)))
    with (hnext h :: loc_seq (hnext (snd (halloc h v))) (List.length t)).
  rewrite <- app_comm_cons, IH. reflexivity.
Qed.

Lemma hnext_halloc_list_le h vs : (hnext h <= hnext (halloc_list h vs))%positive.
Proof.
  revert h; induction vs as [|v t IH]; intro h; cbn [halloc_list]; [lia|].
  specialize (IH (snd (halloc h v))).
  change (hnext (snd (halloc h v))) with (Pos.succ (hnext h)) in IH. lia.
Qed.

(* cells that existed before keep their content *)
Lemma halloc_list_old h vs l : (l < hnext h)%positive -> hget (halloc_list h vs) l = hget h l.
Proof.
  revert h; induction vs as [|v t IH]; intros h Hl; cbn [halloc_list]; [reflexivity|].
  rewrite IH; [apply hget_halloc_other; lia |].
  change (hnext (snd (halloc h v))) with (Pos.succ (hnext h)). lia.
Qed.

(* the new cells are the consecutive addresses from [hnext] and hold the values *)
Lemma halloc_list_new h vs :
  Forall2 (fun l v => hget (halloc_list h vs) l = Some v) (loc_seq (hnext h) (List.length vs)) vs.
Proof.
  revert h; induction vs as [|v t IH]; intro h; cbn [List.length loc_seq halloc_list]; constructor.
  - rewrite halloc_list_old; [apply hget_halloc_same |].
    change (hnext (snd (halloc h v))) with (Pos.succ (hnext h)). lia.
  - exact (IH (snd (halloc h v))).
Qed.

(* ====================================================================== *)
(* 1. frames                                                               *)
(* ====================================================================== *)
(* what both [bind_payload] and [bind_params] do to the frame: parameters in
   order, "_" binds nothing, a repeated name replaces (scope.set is a map
   assignment) *)
Fixpoint bind_frame (ps : list (str * ty)) (ls : list loc) (fr : frame) : frame :=
  match ps, ls with
  | (n, _) :: ps', l :: ls' => bind_frame ps' ls' (if str_eqb n underscore then fr else frame_set n l fr)
  | _, _ => fr
  end.

Lemma frame_replace_names n l f : map fst (frame_replace n l f) = map fst f.
Proof.
  induction f as [|[k l'] t IH]; [reflexivity|]. cbn [frame_replace].
  destruct (str_eqb k n); cbn; [reflexivity | now rewrite IH].
Qed.

Lemma frame_get_None n f : frame_get n f = None <-> ~ In n (map fst f).
Proof.
  induction f as [|[k l] t IH]; cbn; [tauto|].
  destruct (str_eqb k n) eqn:E.
  - apply str_eqb_eq in E. split; [discriminate | intro H; exfalso; apply H; left; exact E].
  - apply str_eqb_neq in E. rewrite IH. tauto.
Qed.

Lemma frame_set_names n l f :
  map fst (frame_set n l f) = if mem_str n (map fst f) then map fst f else n :: map fst f.
Proof.
  unfold frame_set. destruct (frame_get n f) eqn:E.
  - rewrite frame_replace_names.
    destruct (mem_str n (map fst f)) eqn:M; [reflexivity|].
    assert (frame_get n f = None) as X; [|congruence].
    apply frame_get_None. intro H. apply mem_str_In in H. congruence.
  - apply frame_get_None in E. destruct (mem_str n (map fst f)) eqn:M; [|reflexivity].
    apply mem_str_In in M. contradiction.
Qed.

(* the names of a frame built by binding come from the frame it started from or
   from the named parameters *)
Lemma bind_frame_names ps : forall ls fr n,
  In n (map fst (bind_frame ps ls fr)) ->
  In n (map fst fr) \/ (In n (map fst ps) /\ n <> underscore).
Proof.
  induction ps as [|[k t] ps IH]; intros ls fr n H; cbn [bind_frame] in H; [left; exact H|].
  destruct ls as [|l ls]; [left; exact H|].
  apply IH in H. destruct H as [H | [H U]]; [|right; split; [right; exact H | exact U]].
  destruct (str_eqb k underscore) eqn:E; [left; exact H|].
  rewrite frame_set_names in H. destruct (mem_str k (map fst fr)); [left; exact H|].
  destruct H as [<- | H]; [|left; exact H].
  right; split; [left; reflexivity | apply str_eqb_neq; exact E].
Qed.

(* two frames with the same names in the same order whose cells are related *)
Definition frame_sim (R : loc -> loc -> Prop) (f1 f2 : frame) : Prop :=
  Forall2 (fun x y => fst x = fst y /\ R (snd x) (snd y)) f1 f2.

Lemma frame_sim_names R f1 f2 : frame_sim R f1 f2 -> map fst f1 = map fst f2.
Proof. induction 1 as [|x y f1 f2 [E _] _ IH]; cbn; [reflexivity | now rewrite E, IH]. Qed.

Lemma frame_sim_get R f1 f2 n : frame_sim R f1 f2 ->
  match frame_get n f1, frame_get n f2 with
  | Some l1, Some l2 => R l1 l2
  | None, None => True
  | _, _ => False
  end.
Proof.
  induction 1 as [|[k1 l1] [k2 l2] f1 f2 [E HR] _ IH]; cbn; [exact I|].
  cbn in E, HR. subst k2. destruct (str_eqb k1 n); [exact HR | exact IH].
Qed.

Lemma frame_sim_replace R f1 f2 n l1 l2 : frame_sim R f1 f2 -> R l1 l2 ->
  frame_sim R (frame_replace n l1 f1) (frame_replace n l2 f2).
Proof.
  intros H HR. induction H as [|[k1 a1] [k2 a2] f1 f2 [E Ha] Ht IH]; cbn; [constructor|].
  cbn in E, Ha. subst k2. destruct (str_eqb k1 n); constructor; cbn; auto.
Qed.

Lemma frame_sim_set R f1 f2 n l1 l2 : frame_sim R f1 f2 -> R l1 l2 ->
  frame_sim R (frame_set n l1 f1) (frame_set n l2 f2).
Proof.
  intros H HR. unfold frame_set. pose proof (frame_sim_get R f1 f2 n H) as G.
  destruct (frame_get n f1), (frame_get n f2); try contradiction.
  - apply frame_sim_replace; assumption.
  - constructor; [split; [reflexivity | exact HR] | exact H].
Qed.

Lemma bind_frame_sim R ps : forall ls1 ls2 f1 f2,
  frame_sim R f1 f2 ->
  Forall2 R (firstn (List.length ps) ls1) (firstn (List.length ps) ls2) ->
  frame_sim R (bind_frame ps ls1 f1) (bind_frame ps ls2 f2).
Proof.
  induction ps as [|[n t] ps IH]; intros ls1 ls2 f1 f2 Hf Hl; cbn [bind_frame]; [exact Hf|].
  destruct ls1 as [|a1 ls1], ls2 as [|a2 ls2]; cbn in Hl; try (inversion Hl; fail); [exact Hf|].
  inversion Hl; subst. apply IH; [|assumption].
  destruct (str_eqb n underscore); [exact Hf | apply frame_sim_set; assumption].
Qed.

(* ====================================================================== *)
(* 2. bind_payload, exactly                                                *)
(* ====================================================================== *)
Definition hval_of_payload (a : payload) : hval :=
  match a with PvNum x => HNum x | PvStr x => HStr x | PvBool x => HBool x end.
Definition payload_ty (a : payload) : ty :=
  match a with PvNum _ => TNum | PvStr _ => TStr | PvBool _ => TBool end.

(* valueFromAny *)
Definition payload_hval (t : ty) (a : payload) : option hval :=
  match t, a with
  | TNum, PvNum x => Some (HNum x)
  | TStr, PvStr x => Some (HStr x)
  | TBool, PvBool x => Some (HBool x)
  | _, _ => None
  end.

Lemma payload_hval_spec t a :
  payload_hval t a = if ty_eqb t (payload_ty a) then Some (hval_of_payload a) else None.
Proof. destruct t, a; reflexivity. Qed.

(* the values allocated while binding, and how binding ends *)
Inductive pv_result :=
| PvOk (vs : list hval)            (* every declared parameter received a value of its kind *)
| PvMissing (vs : list hval)       (* the payload ran out; vs were allocated before *)
| PvMismatch (vs : list hval).     (* a value of the wrong kind; vs were allocated before *)

Definition pv_cons (v : hval) (r : pv_result) : pv_result :=
  match r with
  | PvOk vs => PvOk (v :: vs) | PvMissing vs => PvMissing (v :: vs) | PvMismatch vs => PvMismatch (v :: vs)
  end.

Fixpoint payload_vals (ps : list (str * ty)) (args : list payload) : pv_result :=
  match ps with
  | [] => PvOk []
  | (_, t) :: rest =>
      match args with
      | [] => PvMissing []
      | a :: more => match payload_hval t a with
                     | None => PvMismatch []
                     | Some v => pv_cons v (payload_vals rest more)
                     end
      end
  end.

Definition err_missing_payload : err := EHostCrash (s_ "not enough arguments for event").

Definition bind_payload_result (ps : list (str * ty)) (args : list payload) (fr : frame) (s : state)
  : res frame * state :=
  match payload_vals ps args with
  | PvOk vs => (Ok (bind_frame ps (loc_seq (hnext (st_heap s)) (List.length vs)) fr),
                upd_heap (halloc_list (st_heap s) vs) s)
  | PvMissing vs => (Er err_missing_payload, upd_heap (halloc_list (st_heap s) vs) s)
  | PvMismatch vs => (Er (EPanic PkAnyConversion), upd_heap (halloc_list (st_heap s) vs) s)
  end.

Lemma bind_payload_cons n t rest a more fr s :
  bind_payload ((n, t) :: rest) (a :: more) fr s =
  match payload_hval t a with
  | Some v => bind_payload rest more (if str_eqb n underscore then fr else frame_set n (hnext (st_heap s)) fr)
                           (upd_heap (snd (halloc (st_heap s) v)) s)
  | None => (Er (EPanic PkAnyConversion), s)
  end.
Proof. destruct t, a; reflexivity. Qed.

Theorem bind_payload_exact ps : forall args fr s,
  bind_payload ps args fr s = bind_payload_result ps args fr s.
Proof.
  induction ps as [|[n t] rest IH]; intros args fr s.
  - unfold bind_payload_result; cbn. unfold ret. now rewrite upd_heap_id.
  - destruct args as [|a more].
    + unfold bind_payload_result; cbn. now rewrite upd_heap_id.
    + rewrite bind_payload_cons. unfold bind_payload_result. cbn [payload_vals].
      destruct (payload_hval t a) as [v|]; [|cbn; now rewrite upd_heap_id].
      rewrite IH. unfold bind_payload_result.
      destruct (payload_vals rest more); reflexivity.
Qed.

Lemma payload_vals_ok ps : forall args vs, payload_vals ps args = PvOk vs ->
  vs = map hval_of_payload (firstn (List.length ps) args) /\
  (List.length ps <= List.length args)%nat /\
  Forall2 (fun p a => snd p = payload_ty a) ps (firstn (List.length ps) args).
Proof.
  induction ps as [|[n t] rest IH]; intros args vs H; cbn in H.
  - inversion H; subst. cbn. repeat split; [lia | constructor].
  - destruct args as [|a more]; [discriminate|].
    rewrite payload_hval_spec in H. destruct (ty_eqb t (payload_ty a)) eqn:E; [|discriminate].
    destruct (payload_vals rest more) as [vs'| |] eqn:E'; try discriminate.
    cbn in H. inversion H; subst. destruct (IH _ _ E') as (-> & L & F).
    cbn. repeat split; [lia|]. constructor; [|exact F].
    cbn. destruct t, a; cbn in E; try discriminate; reflexivity.
Qed.

Lemma payload_vals_length ps args vs : payload_vals ps args = PvOk vs -> List.length vs = List.length ps.
Proof.
  intro H. apply payload_vals_ok in H as (-> & L & _).
  rewrite map_length, firstn_length. lia.
Qed.

(* conversely: enough values of the declared kinds always bind *)
Lemma payload_vals_typed ps : forall args,
  (List.length ps <= List.length args)%nat ->
  Forall2 (fun p a => snd p = payload_ty a) ps (firstn (List.length ps) args) ->
  payload_vals ps args = PvOk (map hval_of_payload (firstn (List.length ps) args)).
Proof.
  induction ps as [|[n t] rest IH]; intros args L F; [reflexivity|].
  destruct args as [|a more]; [cbn in L; lia|]. cbn in F. inversion F; subst.
  cbn [payload_vals]. rewrite payload_hval_spec. cbn in H2. subst t.
  replace (ty_eqb (payload_ty a) (payload_ty a)) with true by (destruct a; reflexivity).
  rewrite IH; [reflexivity | cbn in L; lia | assumption].
Qed.

Theorem payload_binds_iff_typed ps args :
  (exists vs, payload_vals ps args = PvOk vs) <->
  ((List.length ps <= List.length args)%nat /\
   Forall2 (fun p a => snd p = payload_ty a) ps (firstn (List.length ps) args)).
Proof.
  split.
  - intros [vs H]. apply payload_vals_ok in H as (_ & L & F). exact (conj L F).
  - intros [L F]. eexists. exact (payload_vals_typed ps args L F).
Qed.

(* the payload beyond the declared parameters is never looked at *)
Lemma payload_vals_firstn ps : forall args,
  payload_vals ps args = payload_vals ps (firstn (List.length ps) args).
Proof.
  induction ps as [|[n t] rest IH]; intro args; [reflexivity|].
  destruct args as [|a more]; [reflexivity|]. cbn. destruct (payload_hval t a); [|reflexivity].
  now rewrite <- IH.
Qed.

Theorem bind_payload_firstn ps args fr s :
  bind_payload ps args fr s = bind_payload ps (firstn (List.length ps) args) fr s.
Proof. rewrite !bind_payload_exact. unfold bind_payload_result. now rewrite <- payload_vals_firstn. Qed.

Theorem bind_payload_extra_ignored ps args extra fr s :
  (List.length ps <= List.length args)%nat ->
  bind_payload ps (args ++ extra) fr s = bind_payload ps args fr s.
Proof.
  intro L. rewrite (bind_payload_firstn ps (args ++ extra)), (bind_payload_firstn ps args).
  rewrite firstn_app. replace (List.length ps - List.length args)%nat with 0%nat by lia.
  cbn. now rewrite app_nil_r.
Qed.

(* a handler without parameters ignores the whole payload *)
Lemma bind_payload_no_params args fr s : bind_payload [] args fr s = (Ok fr, s).
Proof. reflexivity. Qed.

(* "_" takes (and converts) its payload value, allocates it, and binds nothing *)
Lemma bind_payload_underscore t rest a more fr s :
  bind_payload ((underscore, t) :: rest) (a :: more) fr s =
  match payload_hval t a with
  | Some v => bind_payload rest more fr (upd_heap (snd (halloc (st_heap s) v)) s)
  | None => (Er (EPanic PkAnyConversion), s)
  end.
Proof. rewrite bind_payload_cons. reflexivity. Qed.

(* what a successful binding leaves behind *)
Theorem bind_payload_ok ps args fr s fr1 s1 :
  bind_payload ps args fr s = (Ok fr1, s1) ->
  let vs := map hval_of_payload (firstn (List.length ps) args) in
  let ls := loc_seq (hnext (st_heap s)) (List.length ps) in
  payload_vals ps args = PvOk vs /\
  fr1 = bind_frame ps ls fr /\
  s1 = upd_heap (halloc_list (st_heap s) vs) s /\
  st_globals s1 = st_globals s /\ st_trace s1 = st_trace s /\ st_yields s1 = st_yields s /\
  Forall2 (fun l v => hget (st_heap s1) l = Some v) ls vs /\
  (forall l, (l < hnext (st_heap s))%positive -> hget (st_heap s1) l = hget (st_heap s) l).
Proof.
  rewrite bind_payload_exact. unfold bind_payload_result.
  destruct (payload_vals ps args) as [vs'| |] eqn:E; intro H; inversion H; subst; clear H.
  pose proof (payload_vals_length _ _ _ E) as L.
  apply payload_vals_ok in E as E2. destruct E2 as (-> & _ & _).
  cbv zeta. rewrite L. repeat split; try reflexivity.
  - cbn [st_heap upd_heap].
    pose proof (halloc_list_new (st_heap s) (map hval_of_payload (firstn (List.length ps) args))) as X.
    rewrite L in X. exact X.
  - intros l Hl. cbn [st_heap upd_heap]. apply halloc_list_old; exact Hl.
Qed.

(* ====================================================================== *)
(* 3. handle_event                                                         *)
(* ====================================================================== *)
(* how HandleEvent reports the result of the body: signal and final
   environment of the handler are dropped *)
Definition event_outcome (r : res (signal * env) * state) : outcome * state :=
  match r with
  | (Ok _, s1) => (ODone, s1)
  | (Er e, s1) => (OErr e, s1)
  end.

Definition err_no_handler : err := EHostCrash (s_ "no event handler").

(* C1: the unfolding equation.  One [exec_block] of the body, from the frame
   that binds only the declared parameters, in the state that differs from the
   incoming one only by the freshly allocated payload cells. *)
Theorem handle_event_unfold fuel P name args s :
  handle_event fuel P name args s =
  match find_handler name (p_handlers P) with
  | None => (OErr err_no_handler, s)
  | Some h =>
      match payload_vals (h_params h) args with
      | PvOk vs =>
          event_outcome
            (exec_block fuel P [bind_frame (h_params h) (loc_seq (hnext (st_heap s)) (List.length vs)) []]
                        (h_body h) (upd_heap (halloc_list (st_heap s) vs) s))
      | PvMissing vs => (OErr err_missing_payload, upd_heap (halloc_list (st_heap s) vs) s)
      | PvMismatch vs => (OErr (EPanic PkAnyConversion), upd_heap (halloc_list (st_heap s) vs) s)
      end
  end.
Proof.
  unfold handle_event. destruct (find_handler name (p_handlers P)) as [h|]; [|reflexivity].
  unfold bindM. rewrite bind_payload_exact. unfold bind_payload_result.
  destruct (payload_vals (h_params h) args) as [vs|vs|vs]; try reflexivity.
  unfold event_outcome.
  destruct (exec_block fuel P _ (h_body h) _) as [[[sig e]|er] s1]; reflexivity.
Qed.

(* the same equation in terms of bind_payload itself *)
Lemma handle_event_bind fuel P name args s h :
  find_handler name (p_handlers P) = Some h ->
  handle_event fuel P name args s =
  match bind_payload (h_params h) args [] s with
  | (Ok fr, s1) => event_outcome (exec_block fuel P [fr] (h_body h) s1)
  | (Er e, s1) => (OErr e, s1)
  end.
Proof.
  intro H. unfold handle_event. rewrite H. unfold bindM.
  destruct (bind_payload (h_params h) args [] s) as [[fr|e] s1]; [|reflexivity].
  unfold event_outcome. destruct (exec_block fuel P [fr] (h_body h) s1) as [[[sig e]|er] s2]; reflexivity.
Qed.

Lemma handle_event_no_handler fuel P name args s :
  find_handler name (p_handlers P) = None ->
  handle_event fuel P name args s = (OErr err_no_handler, s).
Proof. intro H. unfold handle_event. now rewrite H. Qed.

(* the payload beyond the declared parameters does not matter *)
Theorem handle_event_extra_ignored fuel P name args extra s h :
  find_handler name (p_handlers P) = Some h ->
  (List.length (h_params h) <= List.length args)%nat ->
  handle_event fuel P name (args ++ extra) s = handle_event fuel P name args s.
Proof.
  intros H L. rewrite !(handle_event_bind _ _ _ _ _ _ H).
  now rewrite bind_payload_extra_ignored.
Qed.

Theorem handle_event_no_params fuel P name args s h :
  find_handler name (p_handlers P) = Some h -> h_params h = [] ->
  handle_event fuel P name args s = event_outcome (exec_block fuel P [[]] (h_body h) s).
Proof. intros H E. rewrite (handle_event_bind _ _ _ _ _ _ H), E. reflexivity. Qed.

(* handler_locals_do_not_survive, part 1: the environment the body starts in
   names nothing but the handler's own named parameters *)
Theorem handler_scope_is_fresh ps ls n :
  In n (map fst (bind_frame ps ls [])) -> In n (map fst ps) /\ n <> underscore.
Proof. intro H. apply bind_frame_names in H. destruct H as [[]|H]; exact H. Qed.

(* ====================================================================== *)
(* 4. sequences of events                                                  *)
(* ====================================================================== *)
Definition ev := (str * list payload)%type.

(* outcomes of the events in order, and the final state *)
Fixpoint handle_events (fuel : nat) (P : program) (es : list ev) (s : state) : list outcome * state :=
  match es with
  | [] => ([], s)
  | e :: t =>
      let '(o, s1) := handle_event fuel P (fst e) (snd e) s in
      let '(os, s2) := handle_events fuel P t s1 in
      (o :: os, s2)
  end.

(* (state before, outcome, state after) of each event *)
Fixpoint event_runs (fuel : nat) (P : program) (es : list ev) (s : state) : list (state * outcome * state) :=
  match es with
  | [] => []
  | e :: t =>
      let '(o, s1) := handle_event fuel P (fst e) (snd e) s in
      (s, o, s1) :: event_runs fuel P t s1
  end.

Lemma handle_events_cons fuel P e es s :
  handle_events fuel P (e :: es) s =
  let '(o, s1) := handle_event fuel P (fst e) (snd e) s in
  let '(os, s2) := handle_events fuel P es s1 in (o :: os, s2).
Proof. reflexivity. Qed.

Theorem handle_events_app fuel P es1 : forall es2 s,
  handle_events fuel P (es1 ++ es2) s =
  let '(os1, s1) := handle_events fuel P es1 s in
  let '(os2, s2) := handle_events fuel P es2 s1 in (os1 ++ os2, s2).
Proof.
  induction es1 as [|e t IH]; intros es2 s; cbn [app handle_events].
  - destruct (handle_events fuel P es2 s); reflexivity.
  - destruct (handle_event fuel P (fst e) (snd e) s) as [o s1]. rewrite IH.
    destruct (handle_events fuel P t s1) as [os1 s2].
    destruct (handle_events fuel P es2 s2) as [os2 s3]. reflexivity.
Qed.

Lemma event_runs_app fuel P es1 : forall es2 s,
  event_runs fuel P (es1 ++ es2) s =
  event_runs fuel P es1 s ++ event_runs fuel P es2 (snd (handle_events fuel P es1 s)).
Proof.
  induction es1 as [|e t IH]; intros es2 s; cbn [app event_runs handle_events]; [reflexivity|].
  destruct (handle_event fuel P (fst e) (snd e) s) as [o s1]. rewrite IH.
  destruct (handle_events fuel P t s1) as [os s2]. reflexivity.
Qed.

Lemma event_runs_outcomes fuel P es : forall s,
  map (fun r => snd (fst r)) (event_runs fuel P es s) = fst (handle_events fuel P es s).
Proof.
  induction es as [|e t IH]; intro s; cbn [event_runs handle_events]; [reflexivity|].
  destruct (handle_event fuel P (fst e) (snd e) s) as [o s1]. specialize (IH s1).
  destruct (handle_events fuel P t s1) as [os s2]. cbn in *. now rewrite IH.
Qed.

(* globals_persist: each event starts in exactly the state (heap, globals,
   trace, ...) the previous one ended in; the first starts in the given state *)
Fixpoint chained (s : state) (rs : list (state * outcome * state)) (final : state) : Prop :=
  match rs with
  | [] => final = s
  | (b, _, a) :: t => b = s /\ chained a t final
  end.

Theorem globals_persist fuel P es : forall s,
  chained s (event_runs fuel P es s) (snd (handle_events fuel P es s)) /\
  Forall2 (fun e r => handle_event fuel P (fst e) (snd e) (fst (fst r)) = (snd (fst r), snd r))
          es (event_runs fuel P es s).
Proof.
  induction es as [|e t IH]; intro s; cbn [event_runs handle_events].
  - split; [reflexivity | constructor].
  - destruct (handle_event fuel P (fst e) (snd e) s) as [o s1] eqn:E. destruct (IH s1) as [C F].
    destruct (handle_events fuel P t s1) as [os s2]. cbn [chained snd] in *.
    split; [split; [reflexivity | exact C] | constructor; [exact E | exact F]].
Qed.

(* the fold of [sem_case] is this sequence *)
Definition sem_step (fl : nat) (P : program) (acc : list sx * state) (e : ev) : list sx * state :=
  let '(rs, s) := acc in
  let '(o', s') := handle_event fl P (fst e) (snd e) s in
  (rs ++ [enc_result o' s' (List.length (st_trace s))], s').

Definition enc_run (r : state * outcome * state) : sx :=
  enc_result (snd (fst r)) (snd r) (List.length (st_trace (fst (fst r)))).

Lemma sem_fold_runs fl P es : forall rs s,
  fold_left (sem_step fl P) es (rs, s) =
  (rs ++ map enc_run (event_runs fl P es s), snd (handle_events fl P es s)).
Proof.
  induction es as [|e t IH]; intros rs s; cbn [fold_left event_runs handle_events].
  - cbn. now rewrite app_nil_r.
  - unfold sem_step at 2. destruct (handle_event fl P (fst e) (snd e) s) as [o s1]. rewrite IH.
    destruct (handle_events fl P t s1) as [os s2]. cbn [map snd]. rewrite <- app_assoc. reflexivity.
Qed.

Theorem sem_case_events p stop inp ff ay fuel evs P input events :
  dec_program p = Some P -> dec_strs inp = Some input -> dec_list dec_event evs = Some events ->
  sem_case (Lst [p; stop; Lst inp; Sym ff; Sym ay; Int fuel; Lst evs]) =
  let stop_at := match stop with Int k => Some (Z.to_nat k) | _ => None end in
  let fl := Z.to_nat fuel in
  let s0 := init_state stop_at input (str_eqb ff sy_true) (str_eqb ay sy_true) in
  let '(o, s1) := run_program fl P s0 in
  Lst (enc_result o s1 0 :: map enc_run (event_runs fl P events s1)).
Proof.
  intros H1 H2 H3. unfold sem_case. rewrite H1, H2, H3. cbv zeta.
  destruct (run_program _ P _) as [o s1].
  change (fold_left _ events ([], s1)) with (fold_left (sem_step (Z.to_nat fuel) P) events ([], s1)).
  rewrite sem_fold_runs. reflexivity.
Qed.

(* ====================================================================== *)
(* 5. events and calls                                                     *)
(* ====================================================================== *)
Definition err_missing_arg : err := EHostCrash (s_ "index out of range: missing argument").

(* bind_params, exactly: no allocation, no state change; the cells of the
   arguments themselves are bound *)
Theorem bind_params_exact ps : forall vals fr s,
  bind_params ps vals fr s =
  if Nat.leb (List.length ps) (List.length vals)
  then (Ok (bind_frame ps vals fr, skipn (List.length ps) vals), s)
  else (Er err_missing_arg, s).
Proof.
  induction ps as [|[n t] ps IH]; intros vals fr s; [reflexivity|].
  destruct vals as [|a rest]; [reflexivity|].
  cbn [bind_params List.length skipn bind_frame]. rewrite IH. reflexivity.
Qed.

(* the part of evalFunccall after the arguments have been evaluated and copied,
   for a user-defined function [fd] *)
Definition call_user (f : nat) (P : program) (fd : funcdef) (vals : list loc) : M (option loc) :=
  let* (fr, rest) := bind_params (fn_params fd) vals [] in
  let* fr' := match fn_variadic fd with
              | Some (vn, _) => let* a := alloc (HArr vals) in
                                ret (if str_eqb vn underscore then fr else frame_set vn a fr)
              | None => ret fr
              end in
  let* (sig, _) := exec_block f P [fr'] (fn_body fd) in
  match sig with
  | SigReturn v => ret v
  | _ => let* l := alloc HNone in ret (Some l)
  end.

Lemma eval_call_S f P e name args :
  eval_call (S f) P e name args =
  (let* vals := eval_exprs f P e args in
   if str_eqb name n_test then let* _ := run_test vals in ret None
   else match builtin name e vals with
        | Some m => m
        | None =>
            if existsb (str_eqb name) unmodelled_builtins then fail (EUnsupported name)
            else match find_func name (p_funcs P) with
                 | None => crash "nil FuncDef"
                 | Some fd => call_user f P fd vals
                 end
        end).
Proof. reflexivity. Qed.

(* whether a name is one of the modelled built-ins depends on the name only:
   ONE lemma, by a uniform walk over the [if name_is ...] chain *)
Lemma builtin_none_name name e vals e' vals' :
  builtin name e vals = None -> builtin name e' vals' = None.
Proof.
  unfold builtin.
  repeat match goal with
         | |- context [if ?c then Some _ else _] =>
             destruct c; [let X := fresh in intro X; discriminate X|]
         end.
  apply pure_builtin_none_indep.
Qed.

(* names that reach the user-function branch of evalFunccall *)
Definition user_fn_name (name : str) : Prop :=
  str_eqb name n_test = false /\ builtin name [] [] = None /\
  existsb (str_eqb name) unmodelled_builtins = false.

(* the unfolding of eval_call for a user function *)
Theorem eval_call_user_unfold f P e name args fd s :
  user_fn_name name -> find_func name (p_funcs P) = Some fd ->
  eval_call (S f) P e name args s =
  match eval_exprs f P e args s with
  | (Ok vals, s') => call_user f P fd vals s'
  | (Er er, s') => (Er er, s')
  end.
Proof.
  intros (Ht & Hb & Hu) Hf. rewrite eval_call_S. unfold bindM at 1.
  destruct (eval_exprs f P e args s) as [[vals|er] s']; [|reflexivity].
  rewrite Ht, (builtin_none_name _ _ _ e vals Hb), Hu, Hf. reflexivity.
Qed.

(* how evalFunccall reports the result of the body *)
Definition call_outcome (r : res (signal * env) * state) : res (option loc) * state :=
  match r with
  | (Ok (SigReturn v, _), s1) => (Ok v, s1)
  | (Ok (_, _), s1) => (Ok (Some (hnext (st_heap s1))), upd_heap (snd (halloc (st_heap s1) HNone)) s1)
  | (Er e, s1) => (Er e, s1)
  end.

(* ... for a non-variadic procedure with enough arguments: the body runs once,
   from the frame binding the parameters to the argument cells, in the
   unchanged state *)
Theorem call_user_unfold f P fd vals s :
  fn_variadic fd = None ->
  call_user f P fd vals s =
  if Nat.leb (List.length (fn_params fd)) (List.length vals)
  then call_outcome (exec_block f P [bind_frame (fn_params fd) vals []] (fn_body fd) s)
  else (Er err_missing_arg, s).
Proof.
  intro Hv. unfold call_user. unfold bindM at 1. rewrite bind_params_exact.
  destruct (Nat.leb _ _); [|reflexivity].
  rewrite Hv. unfold bindM, ret, call_outcome.
  destruct (exec_block f P _ (fn_body fd) s) as [[[sig e1]|er] s1]; [|reflexivity].
  destruct sig; reflexivity.
Qed.

Lemma Forall2_len {A B} (R : A -> B -> Prop) l1 l2 : Forall2 R l1 l2 -> List.length l1 = List.length l2.
Proof. induction 1; cbn; congruence. Qed.

(* an argument cell holds the payload value *)
Definition holds (h : heap) (l : loc) (a : payload) : Prop := hget h l = Some (hval_of_payload a).

(* cells of the two frames hold equal values *)
Definition same_value (h1 h2 : heap) (l1 l2 : loc) : Prop :=
  exists v, hget h1 l1 = Some v /\ hget h2 l2 = Some v.

Lemma payload_cells_sim h1 h2 ps : forall args vs vals ls,
  payload_vals ps args = PvOk vs ->
  Forall2 (holds h2) vals args ->
  Forall2 (fun l v => hget h1 l = Some v) ls vs ->
  Forall2 (same_value h1 h2) (firstn (List.length ps) ls) (firstn (List.length ps) vals).
Proof.
  induction ps as [|[n t] ps IH]; intros args vs vals ls Hp Hv Hl; [constructor|].
  cbn [payload_vals] in Hp. destruct args as [|a more]; [discriminate|].
  rewrite payload_hval_spec in Hp. destruct (ty_eqb t (payload_ty a)); [|discriminate].
  destruct (payload_vals ps more) as [vs'| |] eqn:E; try discriminate.
  cbn in Hp. inversion Hp; subst vs; clear Hp.
  inversion Hv as [|v a' vals' more' Hva Hv']; subst.
  inversion Hl as [|l v0 ls' vs0 Hlv Hl']; subst.
  cbn [List.length firstn]. constructor; [|eapply IH; eassumption].
  exists (hval_of_payload a). split; [exact Hlv | exact Hva].
Qed.

(* C2 (a)+(b): delivering an event (from state s) and calling a procedure with
   the same parameter list (from any state s' whose argument cells hold the
   payload values) build frames with the same names in the same order whose
   cells hold equal values; the event allocates one fresh cell per declared
   parameter and changes nothing else, binding the call changes nothing *)
Theorem event_and_call_frames ps args vals s s' fr1 s1 :
  bind_payload ps args [] s = (Ok fr1, s1) ->
  Forall2 (holds (st_heap s')) vals args ->
  exists fr2,
    bind_params ps vals [] s' = (Ok (fr2, skipn (List.length ps) vals), s') /\
    fr1 = bind_frame ps (loc_seq (hnext (st_heap s)) (List.length ps)) [] /\
    fr2 = bind_frame ps vals [] /\
    frame_sim (same_value (st_heap s1) (st_heap s')) fr1 fr2 /\
    map fst fr1 = map fst fr2 /\
    (forall n l1, frame_get n fr1 = Some l1 ->
       exists l2 v, frame_get n fr2 = Some l2 /\ hget (st_heap s1) l1 = Some v /\ hget (st_heap s') l2 = Some v) /\
    st_globals s1 = st_globals s /\ st_trace s1 = st_trace s /\ st_yields s1 = st_yields s /\
    (forall l, (l < hnext (st_heap s))%positive -> hget (st_heap s1) l = hget (st_heap s) l).
Proof.
  intros Hb Hv. apply bind_payload_ok in Hb. cbv zeta in Hb.
  destruct Hb as (Hp & Hfr & Hs & Hg & Ht & Hy & Hnew & Hold).
  pose proof (payload_vals_ok _ _ _ Hp) as (_ & Hlen & _).
  assert (List.length vals = List.length args) as Lv by (eapply Forall2_len; eassumption).
  exists (bind_frame ps vals []).
  assert (frame_sim (same_value (st_heap s1) (st_heap s')) fr1 (bind_frame ps vals [])) as Sim.
  { rewrite Hfr. apply bind_frame_sim; [constructor|].
    eapply payload_cells_sim; eassumption. }
  repeat split; try assumption.
  - rewrite bind_params_exact. rewrite Lv.
    destruct (Nat.leb (List.length ps) (List.length args)) eqn:E; [reflexivity|].
    apply Nat.leb_gt in E. lia.
  - eapply frame_sim_names; exact Sim.
  - intros n l1 G. pose proof (frame_sim_get _ _ _ n Sim) as X. rewrite G in X.
    destruct (frame_get n (bind_frame ps vals [])) as [l2|]; [|contradiction].
    destruct X as (v & X1 & X2). exists l2, v. repeat split; assumption.
Qed.

(* C2 (c): from those frames both continue with exactly one exec_block of the
   same body *)
Theorem events_as_calls_partial fuel P name args s s' h fname fd vals fr1 s1 :
  find_handler name (p_handlers P) = Some h ->
  find_func fname (p_funcs P) = Some fd ->
  fn_params fd = h_params h -> fn_variadic fd = None -> fn_body fd = h_body h ->
  bind_payload (h_params h) args [] s = (Ok fr1, s1) ->
  Forall2 (holds (st_heap s')) vals args ->
  let fr2 := bind_frame (h_params h) vals [] in
  handle_event fuel P name args s = event_outcome (exec_block fuel P [fr1] (h_body h) s1) /\
  call_user fuel P fd vals s' = call_outcome (exec_block fuel P [fr2] (h_body h) s') /\
  frame_sim (same_value (st_heap s1) (st_heap s')) fr1 fr2 /\
  st_globals s1 = st_globals s /\ st_trace s1 = st_trace s /\ st_yields s1 = st_yields s /\
  (forall l, (l < hnext (st_heap s))%positive -> hget (st_heap s1) l = hget (st_heap s) l).
Proof.
  intros Hh Hf Hps Hvar Hbody Hb Hv fr2.
  destruct (event_and_call_frames _ _ _ _ _ _ _ Hb Hv) as (fr2' & Hbp & _ & E2 & Sim & _ & _ & Hg & Ht & Hy & Hold).
  subst fr2'. repeat split; try assumption.
  - rewrite (handle_event_bind _ _ _ _ _ _ Hh), Hb. reflexivity.
  - rewrite (call_user_unfold _ _ _ _ _ Hvar), Hps, Hbody.
    rewrite bind_params_exact in Hbp.
    destruct (Nat.leb (List.length (h_params h)) (List.length vals)); [reflexivity | discriminate].
Qed.

(* C2, exact form: delivering an event IS calling the procedure on freshly
   allocated cells holding the payload prefix.  Both sides run the same
   [exec_block] from the same environment and the same state, so outcome,
   trace, yields, globals and heap agree literally; the only difference is the
   [HNone] result cell the call allocates when the body ends without [return]. *)
Definition outcome_of_call {A} (r : res A) : outcome :=
  match r with Ok _ => ODone | Er e => OErr e end.

Theorem event_is_call_on_fresh_cells fuel P name args s h fname fd vs :
  find_handler name (p_handlers P) = Some h ->
  find_func fname (p_funcs P) = Some fd ->
  fn_params fd = h_params h -> fn_variadic fd = None -> fn_body fd = h_body h ->
  payload_vals (h_params h) args = PvOk vs ->
  let s1 := upd_heap (halloc_list (st_heap s) vs) s in
  let ls := loc_seq (hnext (st_heap s)) (List.length vs) in
  let fr := bind_frame (h_params h) ls [] in
  handle_event fuel P name args s = event_outcome (exec_block fuel P [fr] (h_body h) s1) /\
  call_user fuel P fd ls s1 = call_outcome (exec_block fuel P [fr] (h_body h) s1) /\
  (let '(o, s') := handle_event fuel P name args s in
   let '(r, s'') := call_user fuel P fd ls s1 in
   o = outcome_of_call r /\
   (s'' = s' \/ s'' = upd_heap (snd (halloc (st_heap s') HNone)) s')).
Proof.
  intros Hh Hf Hps Hvar Hbody Hp s1 ls fr.
  assert (handle_event fuel P name args s = event_outcome (exec_block fuel P [fr] (h_body h) s1)) as E1.
  { rewrite handle_event_unfold, Hh, Hp. reflexivity. }
  assert (call_user fuel P fd ls s1 = call_outcome (exec_block fuel P [fr] (h_body h) s1)) as E2.
  { rewrite (call_user_unfold _ _ _ _ _ Hvar), Hps, Hbody.
    replace (Nat.leb (List.length (h_params h)) (List.length ls)) with true; [reflexivity|].
    unfold ls. rewrite loc_seq_length, (payload_vals_length _ _ _ Hp). symmetry; apply Nat.leb_refl. }
  split; [exact E1|]. split; [exact E2|]. rewrite E1, E2.
  unfold event_outcome, call_outcome.
  destruct (exec_block fuel P [fr] (h_body h) s1) as [[[sig e1]|er] s2].
  - destruct sig; cbn; auto.
  - cbn; auto.
Qed.

(* ---------- the full statement (NOT proved) ---------- *)
(* the call an event corresponds to: payload prefix as literals *)
Definition payload_expr (a : payload) : expr :=
  match a with PvNum x => ENum x | PvStr x => EStr x | PvBool x => EBool x end.

Definition call_event (fuel : nat) (P : program) (pn : str -> str) (e : ev) (s : state) : outcome * state :=
  let k := match find_handler (fst e) (p_handlers P) with
           | Some h => List.length (h_params h) | None => 0%nat end in
  match eval_call (S fuel) P [] (pn (fst e)) (map payload_expr (firstn k (snd e))) s with
  | (r, s1) => (outcome_of_call r, s1)
  end.

Fixpoint call_events (fuel : nat) (P : program) (pn : str -> str) (es : list ev) (s : state)
  : list outcome * state :=
  match es with
  | [] => ([], s)
  | e :: t =>
      let '(o, s1) := call_event fuel P pn e s in
      let '(os, s2) := call_events fuel P pn t s1 in
      (o :: os, s2)
  end.

(* every handler [on e params body] has a twin procedure [pn e] *)
Definition procs_mirror_handlers (P : program) (pn : str -> str) : Prop :=
  forall h, In h (p_handlers P) ->
    user_fn_name (pn (h_name h)) /\
    exists fd, find_func (pn (h_name h)) (p_funcs P) = Some fd /\
               fn_params fd = h_params h /\ fn_variadic fd = None /\ fn_body fd = h_body h.

(* what the platform and the verif hooks can see, except the yield count
   (evaluating the argument literals of a call yields, delivering an event does
   not) *)
Definition same_observables (s1 s2 : state) : Prop :=
  st_trace s1 = st_trace s2 /\ st_input s1 = st_input s2 /\
  st_total s1 = st_total s2 /\ st_fails s1 = st_fails s2 /\
  dump_globals s1 = dump_globals s2.      (* globals equal up to a renaming of cells *)

Definition events_as_calls_full : Prop :=
  forall fuel P pn (es : list ev) s,
    procs_mirror_handlers P pn ->
    st_stop_at s = None -> st_stopped s = false ->
    (forall e, In e es -> exists h vs, find_handler (fst e) (p_handlers P) = Some h /\
                                       payload_vals (h_params h) (snd e) = PvOk vs) ->
    let '(os1, s1) := handle_events fuel P es s in
    let '(os2, s2) := call_events fuel P pn es s in
    ~ In (OErr EOutOfFuel) os1 -> ~ In (OErr EOutOfFuel) os2 ->
    os1 = os2 /\ same_observables s1 s2.

(* ---------- the call with literal arguments, evaluated ---------- *)
(* no stop request pending: every yield succeeds *)
Definition tick_ok (s : state) : Prop := st_stopped s = false /\ st_stop_at s = None.

Lemma tick_run s : tick_ok s -> tick s = (Ok tt, upd_yield (S (st_yields s)) false s).
Proof. intros [H1 H2]. unfold tick. rewrite H1, H2. reflexivity. Qed.

Lemma bindM_ok {A B} (m : M A) (k : A -> M B) s a s' : m s = (Ok a, s') -> bindM m k s = k a s'.
Proof. intro H. unfold bindM. now rewrite H. Qed.

(* the heap after evaluating one literal argument: the literal's cell, then its
   copy (copyOrRef) *)
Definition lit_heap (a : payload) (h : heap) : heap :=
  snd (halloc (snd (halloc h (hval_of_payload a))) (hval_of_payload a)).
Definition lit_state (a : payload) (s : state) : state :=
  upd_heap (lit_heap a (st_heap s)) (upd_yield (S (st_yields s)) false s).

Lemma lit_heap_copy a h : hget (lit_heap a h) (Pos.succ (hnext h)) = Some (hval_of_payload a).
Proof. exact (hget_halloc_same (snd (halloc h (hval_of_payload a))) (hval_of_payload a)). Qed.

Lemma lit_heap_old a h l : (l < hnext h)%positive -> hget (lit_heap a h) l = hget h l.
Proof.
  intro H. unfold lit_heap. rewrite hget_halloc_other.
  - apply hget_halloc_other. lia.
  - change (hnext (snd (halloc h (hval_of_payload a)))) with (Pos.succ (hnext h)). lia.
Qed.

Lemma eval_expr_literal f P e a s : tick_ok s ->
  eval_expr (S f) P e (payload_expr a) s =
  (Ok (hnext (st_heap s)),
   upd_heap (snd (halloc (st_heap s) (hval_of_payload a))) (upd_yield (S (st_yields s)) false s)).
Proof.
  intro T. destruct a; cbn [eval_expr payload_expr];
    (erewrite bindM_ok by (apply tick_run; exact T)); reflexivity.
Qed.

Lemma copy_basic d l a s : hget (st_heap s) l = Some (hval_of_payload a) ->
  copy_or_ref (S d) l s =
  (Ok (hnext (st_heap s)), upd_heap (snd (halloc (st_heap s) (hval_of_payload a))) s).
Proof.
  intro H. cbn [copy_or_ref]. erewrite bindM_ok by (unfold load; rewrite H; reflexivity).
  destruct a; reflexivity.
Qed.

Lemma value_depth_S : exists d, value_depth = S d.
Proof. exists (Nat.pred value_depth). vm_compute. reflexivity. Qed.

Lemma eval_exprs_S f P e x t :
  eval_exprs (S f) P e (x :: t) =
  (let* v := eval_expr f P e x in
   let* d := depth_fuel in
   let* c := copy_or_ref d v in
   let* r := eval_exprs f P e t in
   ret (c :: r)).
Proof. reflexivity. Qed.

Lemma eval_exprs_lit_cons f P e a rest s : tick_ok s ->
  eval_exprs (S (S f)) P e (payload_expr a :: rest) s =
  match eval_exprs (S f) P e rest (lit_state a s) with
  | (Ok r, s2) => (Ok (Pos.succ (hnext (st_heap s)) :: r), s2)
  | (Er er, s2) => (Er er, s2)
  end.
Proof.
  intro T. rewrite eval_exprs_S.
  erewrite bindM_ok by (apply eval_expr_literal; exact T).
  erewrite bindM_ok by (unfold depth_fuel; reflexivity).
  destruct value_depth_S as [d Hd]. rewrite Hd.
  erewrite bindM_ok by (apply copy_basic with (a := a); cbn [st_heap upd_heap]; apply hget_halloc_same).
  unfold bindM, ret. reflexivity.
Qed.

(* cells of the evaluated literal arguments, and the state afterwards *)
Fixpoint lit_run (args : list payload) (s : state) : list loc * state :=
  match args with
  | [] => ([], s)
  | a :: t => let '(ls, s2) := lit_run t (lit_state a s) in (Pos.succ (hnext (st_heap s)) :: ls, s2)
  end.

Lemma tick_ok_lit_state a s : tick_ok s -> tick_ok (lit_state a s).
Proof. intros [H1 H2]; split; [reflexivity | exact H2]. Qed.

Theorem eval_exprs_literals P e args : forall f s,
  tick_ok s -> (List.length args < f)%nat ->
  eval_exprs f P e (map payload_expr args) s = (Ok (fst (lit_run args s)), snd (lit_run args s)).
Proof.
  induction args as [|a t IH]; intros f s T L.
  - destruct f as [|f]; [cbn in L; lia | reflexivity].
  - destruct f as [|[|f]]; try (cbn in L; lia). cbn [map].
    rewrite eval_exprs_lit_cons by exact T.
    rewrite IH; [|apply tick_ok_lit_state; exact T | cbn in L; lia].
    cbn [lit_run]. destruct (lit_run t (lit_state a s)); reflexivity.
Qed.

Lemma lit_run_props args : forall s ls s2, lit_run args s = (ls, s2) ->
  Forall2 (holds (st_heap s2)) ls args /\
  st_globals s2 = st_globals s /\ st_trace s2 = st_trace s /\
  st_yields s2 = (st_yields s + List.length args)%nat /\
  st_input s2 = st_input s /\ st_total s2 = st_total s /\ st_fails s2 = st_fails s /\
  (hnext (st_heap s) <= hnext (st_heap s2))%positive /\
  (forall l, (l < hnext (st_heap s))%positive -> hget (st_heap s2) l = hget (st_heap s) l) /\
  Forall (fun l => (hnext (st_heap s) <= l)%positive) ls.
Proof.
  induction args as [|a t IH]; intros s ls s2 H; cbn [lit_run] in H.
  - inversion H; subst. cbn. rewrite Nat.add_0_r. repeat split; try constructor. lia.
  - destruct (lit_run t (lit_state a s)) as [ls' s2'] eqn:E. inversion H; subst; clear H.
    destruct (IH _ _ _ E) as (F & G & Tr & Y & I & To & Fa & N & O & Fr).
    change (st_heap (lit_state a s)) with (lit_heap a (st_heap s)) in *.
    change (hnext (lit_heap a (st_heap s))) with (Pos.succ (Pos.succ (hnext (st_heap s)))) in *.
    repeat split; try assumption.
    + constructor; [|exact F]. unfold holds. rewrite O by lia. apply lit_heap_copy.
    + rewrite Y. cbn. lia.
    + lia.
    + intros l Hl. rewrite O by lia. apply lit_heap_old. exact Hl.
    + constructor; [lia|]. eapply Forall_impl; [|exact Fr]. cbn. intros; lia.
Qed.

(* C2 with the call written as evy source would: `fname lit1 lit2 ...`.
   Event and call reduce to one exec_block of the same body with the same fuel,
   from frames with the same names and equal values, in states with the same
   globals and trace and the same old cells; the call has yielded once per
   argument and allocated two cells per argument instead of one per parameter. *)
Theorem event_vs_literal_call fuel P e name args s h fname fd vs :
  find_handler name (p_handlers P) = Some h ->
  user_fn_name fname -> find_func fname (p_funcs P) = Some fd ->
  fn_params fd = h_params h -> fn_variadic fd = None -> fn_body fd = h_body h ->
  payload_vals (h_params h) args = PvOk vs ->
  tick_ok s -> (List.length args < fuel)%nat ->
  let s1 := upd_heap (halloc_list (st_heap s) vs) s in
  let fr1 := bind_frame (h_params h) (loc_seq (hnext (st_heap s)) (List.length vs)) [] in
  let vals := fst (lit_run args s) in
  let s2 := snd (lit_run args s) in
  let fr2 := bind_frame (h_params h) vals [] in
  handle_event fuel P name args s = event_outcome (exec_block fuel P [fr1] (h_body h) s1) /\
  eval_call (S fuel) P e fname (map payload_expr args) s = call_outcome (exec_block fuel P [fr2] (h_body h) s2) /\
  frame_sim (same_value (st_heap s1) (st_heap s2)) fr1 fr2 /\
  st_globals s1 = st_globals s2 /\ st_trace s1 = st_trace s2 /\
  st_yields s2 = (st_yields s1 + List.length args)%nat /\
  (forall l, (l < hnext (st_heap s))%positive -> hget (st_heap s1) l = hget (st_heap s2) l).
Proof.
  intros Hh Hu Hf Hps Hvar Hbody Hp T L s1 fr1 vals s2 fr2.
  assert (bind_payload (h_params h) args [] s = (Ok fr1, s1)) as Hb.
  { rewrite bind_payload_exact. unfold bind_payload_result. rewrite Hp. reflexivity. }
  destruct (lit_run args s) as [vals' s2'] eqn:E. cbn [fst snd] in vals, s2. subst vals s2.
  destruct (lit_run_props _ _ _ _ E) as (F & G & Tr & Y & _ & _ & _ & _ & O & _).
  destruct (events_as_calls_partial fuel P name args s s2' h fname fd vals' fr1 s1 Hh Hf Hps Hvar Hbody Hb F)
    as (E1 & E2 & Sim & G1 & T1 & Y1 & O1).
  split; [exact E1|]. split.
  - rewrite (eval_call_user_unfold _ _ _ _ _ _ _ Hu Hf).
    rewrite eval_exprs_literals by assumption. rewrite E. cbn [fst snd]. exact E2.
  - split; [exact Sim|]. repeat split.
    + congruence.
    + congruence.
    + rewrite Y, Y1. reflexivity.
    + intros l Hl. rewrite O1, O by exact Hl. reflexivity.
Qed.

(* ---------- sequences: every event of a sequence is such a call ---------- *)
Lemma find_handler_In n hs h : find_handler n hs = Some h -> In h hs /\ h_name h = n.
Proof.
  induction hs as [|x t IH]; cbn; [discriminate|].
  destruct (str_eqb (h_name x) n) eqn:E.
  - intro H; inversion H; subst. split; [left; reflexivity | apply str_eqb_eq; exact E].
  - intro H. destruct (IH H). split; [right|]; assumption.
Qed.

(* for each delivered event (b = state before, o = outcome, a = state after):
   the twin procedure called from b on fresh cells holding the payload ends
   with the same outcome in the state a, up to the HNone result cell *)
Definition run_is_call (fuel : nat) (P : program) (pn : str -> str) (e : ev) (r : state * outcome * state) : Prop :=
  let '(b, o, a) := r in
  exists h fd vs,
    find_handler (fst e) (p_handlers P) = Some h /\
    find_func (pn (fst e)) (p_funcs P) = Some fd /\
    payload_vals (h_params h) (snd e) = PvOk vs /\
    let '(rc, a') := call_user fuel P fd (loc_seq (hnext (st_heap b)) (List.length vs))
                               (upd_heap (halloc_list (st_heap b) vs) b) in
    o = outcome_of_call rc /\ (a' = a \/ a' = upd_heap (snd (halloc (st_heap a) HNone)) a).

Theorem event_runs_are_calls fuel P pn es : forall s,
  procs_mirror_handlers P pn ->
  (forall e, In e es -> exists h vs, find_handler (fst e) (p_handlers P) = Some h /\
                                     payload_vals (h_params h) (snd e) = PvOk vs) ->
  Forall2 (run_is_call fuel P pn) es (event_runs fuel P es s).
Proof.
  induction es as [|e t IH]; intros s M W; cbn [event_runs]; [constructor|].
  destruct (handle_event fuel P (fst e) (snd e) s) as [o s1] eqn:E.
  constructor; [|apply IH; [exact M | intros e' He'; apply W; right; exact He']].
  destruct (W e (or_introl eq_refl)) as (h & vs & Hh & Hp).
  destruct (find_handler_In _ _ _ Hh) as [Hin Hname].
  destruct (M h Hin) as (_ & fd & Hf & Hps & Hvar & Hbody). rewrite Hname in Hf.
  unfold run_is_call. exists h, fd, vs. repeat split; try assumption.
  pose proof (event_is_call_on_fresh_cells fuel P (fst e) (snd e) s h _ fd vs Hh Hf Hps Hvar Hbody Hp) as X.
  cbv zeta in X. destruct X as (_ & _ & X). rewrite E in X. exact X.
Qed.

(* ---------- differences between events and calls visible in the model ---------- *)
(* a missing value is a host crash in both, with different messages *)
Lemma missing_payload_vs_missing_arg :
  err_missing_payload <> err_missing_arg.
Proof. intro H. vm_compute in H. discriminate H. Qed.

(* calls do not look at the declared parameter types, events convert
   (valueFromAny) and fail on another kind, also for "_" and also for types
   other than num/string/bool *)
Lemma payload_vals_other_type n t rest a more :
  t <> TNum -> t <> TStr -> t <> TBool ->
  payload_vals ((n, t) :: rest) (a :: more) = PvMismatch [].
Proof. intros; destruct t, a; cbn; congruence. Qed.

(* MODEL vs GO: HandleEvent tests len(args) < len(params) BEFORE converting any
   value; bind_payload converts parameter by parameter, so a short payload
   whose early value has the wrong kind ends as PkAnyConversion in the model
   where Go panics "not enough arguments" *)
Lemma short_payload_with_wrong_kind_is_mismatch n1 n2 x :
  payload_vals [(n1, TNum); (n2, TNum)] [PvStr x] = PvMismatch [].
Proof. reflexivity. Qed.

(* ====================================================================== *)
(* 6. example programs (used by the Examples of Props/C15.v)               *)
(* ====================================================================== *)
Definition x_print (a : expr) : stmt := SCallStmt (s_ "print") [a].
Definition x_n : expr := EVar (s_ "n") TNum.

(* n := 0
   on down x:num y:num
     n = n + 1
     print n x y
   end *)
Definition ex_counter : program :=
  {| p_funcs := [];
     p_handlers :=
       [{| h_name := s_ "down"; h_params := [(s_ "x", TNum); (s_ "y", TNum)];
           h_body := [SAssign x_n (EBin BPlus TNum x_n (ENum 1%float));
                      SCallStmt (s_ "print") [x_n; EVar (s_ "x") TNum; EVar (s_ "y") TNum]] |}];
     p_stmts := [SDecl (s_ "n") TNum (ENum 0%float)] |}.

(* on down x:num
     t := 7
     print t x
   end
   on up
     print t          // the local of the previous event
   end
   on key k:string
     print x          // the parameter of another handler
   end
   on move _:num y:num
     print y
   end
   on input s:string
     return           // ignored
   end *)
Definition ex_locals : program :=
  {| p_funcs := [];
     p_handlers :=
       [{| h_name := s_ "down"; h_params := [(s_ "x", TNum)];
           h_body := [SDecl (s_ "t") TNum (ENum 7%float);
                      SCallStmt (s_ "print") [EVar (s_ "t") TNum; EVar (s_ "x") TNum]] |};
        {| h_name := s_ "up"; h_params := [];
           h_body := [x_print (EVar (s_ "t") TNum)] |};
        {| h_name := s_ "key"; h_params := [(s_ "k", TStr)];
           h_body := [x_print (EVar (s_ "x") TNum)] |};
        {| h_name := s_ "move"; h_params := [(underscore, TNum); (s_ "y", TNum)];
           h_body := [x_print (EVar (s_ "y") TNum)] |};
        {| h_name := s_ "input"; h_params := [(s_ "s", TStr)];
           h_body := [SReturn None] |}];
     p_stmts := [] |}.

(* n := 0
   func down_ x:num s:string      // twin of the handler
     n = n + 1
     print n x s
   end
   on down x:num s:string
     n = n + 1
     print n x s
   end *)
Definition ex_twin_body : list stmt :=
  [SAssign x_n (EBin BPlus TNum x_n (ENum 1%float));
   SCallStmt (s_ "print") [x_n; EVar (s_ "x") TNum; EVar (s_ "s") TStr]].
Definition ex_twin_params : list (str * ty) := [(s_ "x", TNum); (s_ "s", TStr)].
Definition ex_twin_fd : funcdef :=
  {| fn_name := s_ "down_"; fn_params := ex_twin_params; fn_variadic := None; fn_ret := TNone;
     fn_body := ex_twin_body |}.
Definition ex_twin_h : handler :=
  {| h_name := s_ "down"; h_params := ex_twin_params; h_body := ex_twin_body |}.
Definition ex_twin : program :=
  {| p_funcs := [ex_twin_fd]; p_handlers := [ex_twin_h];
     p_stmts := [SDecl (s_ "n") TNum (ENum 0%float)] |}.

Definition ex_s0 : state := init_state None [] false false.
Definition ex_after (P : program) : state := snd (run_program 100 P ex_s0).
Definition nl : piece := PStr [10%N].
