(* PrattProofs.v — the precedence / layout part of property C01.

   Specification side (written from docs/spec.md, independently of the code):
     binop / unop / rank    the operator table and the list of §Precedence
     lexp                   derivations of the stratified, left-associative
                            expression grammar WITH their layout (which optional
                            whitespace is present), explicit Group nodes
     Lay n l                "l is derivable at layer n" — one layer per level
     tight_ok               layouts allowed in call arguments / array elements /
                            map values (§Horizontal Whitespace rules 3-7)
     render / tree_of       token rendering and the tree the grammar prescribes
   Theorems about the model Pratt.v (which takes its binding powers from the
   regenerated Gen/Prec.v):
     prec_table_spec_holds, pratt_layered, left_assoc, layout_irrelevant. *)
From Coq Require Import List NArith ZArith Bool Arith Lia String.
From EvyV Require Import Base Pratt.
From EvyV.Gen Require Import Prec.
Import ListNotations.
Local Open Scope nat_scope.

(* ================================================================ *)
(** * The specification: operators, levels, layered grammar          *)

(* docs/spec.md §Operators and Expressions, table *)
Inductive binop := BOr | BAnd | BEq | BNe | BLt | BLe | BGt | BGe | BAdd | BSub | BMul | BDiv | BMod.
Inductive unop := UNeg | UNot.

(* docs/spec.md §Precedence: "1. indexing, dot, grouped  2. unary  3. binary:
   3.1 * / %  3.2 + -  3.3 < <= > >=  3.4 == !=  3.5 and  3.6 or".
   rank = how tightly the level binds (larger = tighter). *)
Definition rank (o : binop) : nat :=
  match o with
  | BOr => 1
  | BAnd => 2
  | BEq | BNe => 3
  | BLt | BLe | BGt | BGe => 4
  | BAdd | BSub => 5
  | BMul | BDiv | BMod => 6
  end.
Definition rank_unary : nat := 7.
Definition rank_primary : nat := 8.

(* the lexical tokens of the operators (docs/spec.md grammar: LOGICAL_OP, COMPARISON_OP, ADD_OP, MUL_OP, UNARY_OP) *)
Definition binop_tok (o : binop) : toktype :=
  match o with
  | BOr => T_OR | BAnd => T_AND | BEq => T_EQ | BNe => T_NOT_EQ
  | BLt => T_LT | BLe => T_LTEQ | BGt => T_GT | BGe => T_GTEQ
  | BAdd => T_PLUS | BSub => T_MINUS | BMul => T_ASTERISK | BDiv => T_SLASH | BMod => T_PERCENT
  end.
Definition unop_tok (o : unop) : toktype := match o with UNeg => T_MINUS | UNot => T_BANG end.

Definition all_binops : list binop := [BOr; BAnd; BEq; BNe; BLt; BLe; BGt; BGe; BAdd; BSub; BMul; BDiv; BMod].

(* atoms: operand := literal | ident *)
Inductive atom := ANum (lit : str) | AStr (lit : str) | ABool (b : bool) | AVar (name : str).

Definition atom_tok (a : atom) : token :=
  match a with
  | ANum l => {| ttype := T_NUM_LIT; tlit := l |}
  | AStr l => {| ttype := T_STRING_LIT; tlit := l |}
  | ABool true => mk T_TRUE
  | ABool false => mk T_FALSE
  | AVar n => {| ttype := T_IDENT; tlit := n |}
  end.
Definition atom_tree (a : atom) : tree :=
  match a with ANum l => TNum l | AStr l => TStr l | ABool b => TBool b | AVar n => TVar n end.

(* derivations with layout: every token the parser consumes with p.advance()
   carries a flag "followed by whitespace"; unary operators have none (rule 3). *)
Inductive lexp :=
| LAtom (a : atom) (ws : bool)
| LGroup (ws1 : bool) (e : lexp) (ws2 : bool)     (* "(" ws1 e ")" ws2 *)
| LUn (o : unop) (e : lexp)
| LBin (o : binop) (l : lexp) (ws : bool) (r : lexp).  (* l op ws r ; whitespace before op is l's trailing flag *)

(* the level at which the outermost production of l sits *)
Definition toprank (l : lexp) : nat :=
  match l with
  | LAtom _ _ | LGroup _ _ _ => rank_primary
  | LUn _ _ => rank_unary
  | LBin o _ _ _ => rank o
  end.

(* the layered grammar: Lay n l = "l is derivable from the nonterminal of layer n"
     E_n     ::= E_(n+1)                              (Lay_up)
     E_n     ::= E_n op E_(n+1)      rank op = n      (Lay_bin: left recursion = left associativity)
     E_unary ::= unop E_unary                         (Lay_un)
     E_prim  ::= atom | "(" E_0 ")"                   (Lay_atom, Lay_group) *)
Inductive Lay : nat -> lexp -> Prop :=
| Lay_up n l : Lay (S n) l -> Lay n l
| Lay_bin o l ws r : Lay (rank o) l -> Lay (S (rank o)) r -> Lay (rank o) (LBin o l ws r)
| Lay_un o e : Lay rank_unary e -> Lay rank_unary (LUn o e)
| Lay_atom a ws : Lay rank_primary (LAtom a ws)
| Lay_group w1 e w2 : Lay 0 e -> Lay rank_primary (LGroup w1 e w2).

(* the tree the grammar prescribes *)
Fixpoint tree_of (l : lexp) : tree :=
  match l with
  | LAtom a _ => atom_tree a
  | LGroup _ e _ => TGroup (tree_of e)
  | LUn o e => TUn (unop_tok o) (tree_of e)
  | LBin o a _ b => TBin (binop_tok o) (tree_of a) (tree_of b)
  end.

(* derivations without layout *)
Inductive sexp := SAtom (a : atom) | SGroup (e : sexp) | SUn (o : unop) (e : sexp) | SBin (o : binop) (l r : sexp).
Fixpoint erase (l : lexp) : sexp :=
  match l with
  | LAtom a _ => SAtom a
  | LGroup _ e _ => SGroup (erase e)
  | LUn o e => SUn o (erase e)
  | LBin o a _ b => SBin o (erase a) (erase b)
  end.
Fixpoint stree (s : sexp) : tree :=
  match s with
  | SAtom a => atom_tree a
  | SGroup e => TGroup (stree e)
  | SUn o e => TUn (unop_tok o) (stree e)
  | SBin o a b => TBin (binop_tok o) (stree a) (stree b)
  end.

(* token rendering; one WS token stands for any run of blanks (the lexer merges them) *)
Definition wsl (b : bool) : list token := if b then [mk T_WS] else [].
Fixpoint render (l : lexp) : list token :=
  match l with
  | LAtom a ws => atom_tok a :: wsl ws
  | LGroup w1 e w2 => mk T_LPAREN :: wsl w1 ++ render e ++ mk T_RPAREN :: wsl w2
  | LUn o e => mk (unop_tok o) :: render e
  | LBin o a ws b => render a ++ mk (binop_tok o) :: wsl ws ++ render b
  end.

(* layouts legal in a whitespace-sensitive ("tight") context: no whitespace
   outside parentheses (rules 4-7 of §Horizontal Whitespace) *)
Fixpoint tight_ok (l : lexp) : bool :=
  match l with
  | LAtom _ ws => negb ws
  | LGroup _ _ w2 => negb w2
  | LUn _ e => tight_ok e
  | LBin _ a ws b => negb ws && tight_ok a && tight_ok b
  end.

(* side conditions on atoms: number literals are well formed, variables are
   declared, not "_", and not function names *)
Fixpoint atoms_ok (E : env) (l : lexp) : Prop :=
  match l with
  | LAtom (ANum lit) _ => num_lit_ok lit = true
  | LAtom (AVar n) _ => str_eqb n (s_ "_"%string) = false /\ mem_str n (e_vars E) = true /\ func_of E n = None
  | LAtom _ _ => True
  | LGroup _ e _ => atoms_ok E e
  | LUn _ e => atoms_ok E e
  | LBin _ a _ b => atoms_ok E a /\ atoms_ok E b
  end.

(* ================================================================ *)
(** * The binding-power table is the specification's order          *)

Definition prec_table_spec : Prop :=
  (* the binary levels are ordered as in §Precedence, operators of one level have equal power *)
  (forall a b, Nat.compare (precedences (binop_tok a)) (precedences (binop_tok b)) = Nat.compare (rank a) (rank b)) /\
  (* every binary operator binds tighter than "no operator" and looser than a unary operator *)
  (forall a, lowestPrec < precedences (binop_tok a) /\ precedences (binop_tok a) < unary_operand_prec) /\
  (* indexing and dot bind tighter than unary operators *)
  unary_operand_prec < precedences T_LBRACKET /\ precedences T_DOT = precedences T_LBRACKET /\
  (* the tokens treated as binary operators are exactly the operators of the table *)
  (forall t, is_binary_op t = true <-> exists o, t = binop_tok o) /\
  (* nothing else has a binding power *)
  (forall t, is_binary_op t = false -> t <> T_LBRACKET -> t <> T_DOT -> precedences t = lowestPrec) /\
  (* the right operand of a binary operator is parsed at the operator's own power and the
     loop continues only on strictly greater power: left associativity *)
  (forall p, binary_operand_prec p = p) /\
  (forall p b, loop_continues p b = true <-> p < b).

Lemma prec_table_spec_holds : prec_table_spec.
Proof.
  unfold prec_table_spec. repeat split.
  - intros a b; destruct a, b; reflexivity.
  - destruct a; vm_compute; lia.
  - destruct a; vm_compute; lia.
  - vm_compute; lia.
  - intro H. destruct t; try discriminate H;
      first [ now (exists BOr) | now (exists BAnd) | now (exists BEq) | now (exists BNe) | now (exists BLt) | now (exists BLe)
            | now (exists BGt) | now (exists BGe) | now (exists BAdd) | now (exists BSub) | now (exists BMul) | now (exists BDiv) | now (exists BMod) ].
  - intros [o ->]. destruct o; reflexivity.
  - intros t Hb H1 H2. destruct t; try reflexivity; try discriminate Hb; congruence.
  - unfold loop_continues. intro H. apply Nat.ltb_lt. exact H.
  - unfold loop_continues. intro H. apply Nat.ltb_lt. exact H.
Qed.

(* the facts the Pratt argument uses, extracted once; below this point the
   table is opaque *)
Definition bp (o : binop) : nat := precedences (binop_tok o).

Lemma bp_rank_lt a b : rank a < rank b <-> bp a < bp b.
Proof.
  destruct prec_table_spec_holds as [H _]. specialize (H a b). unfold bp.
  rewrite <- !Nat.compare_lt_iff. rewrite H. tauto.
Qed.
Lemma bp_rank_le a b : rank a <= rank b <-> bp a <= bp b.
Proof.
  destruct prec_table_spec_holds as [H _]. specialize (H a b). unfold bp.
  rewrite <- !Nat.compare_le_iff. rewrite H. tauto.
Qed.
Lemma bp_lt_unary a : bp a < unary_operand_prec.
Proof. destruct prec_table_spec_holds as (_ & H & _). apply H. Qed.
Lemma bp_pos a : lowestPrec < bp a.
Proof. destruct prec_table_spec_holds as (_ & H & _). apply H. Qed.
Lemma unary_lt_index : unary_operand_prec < precedences T_LBRACKET.
Proof. destruct prec_table_spec_holds as (_ & _ & H & _). exact H. Qed.
Lemma binop_tok_is_binary o : is_binary_op (binop_tok o) = true.
Proof. destruct prec_table_spec_holds as (_ & _ & _ & _ & H & _). apply H. eauto. Qed.
Lemma binary_operand_prec_id p : binary_operand_prec p = p.
Proof. destruct prec_table_spec_holds as (_ & _ & _ & _ & _ & _ & H & _). apply H. Qed.
Lemma loop_continues_lt p b : loop_continues p b = true <-> p < b.
Proof. destruct prec_table_spec_holds as (_ & _ & _ & _ & _ & _ & _ & H). apply H. Qed.
Lemma loop_continues_false p b : b <= p -> loop_continues p b = false.
Proof.
  intro H. destruct (loop_continues p b) eqn:E; [|reflexivity]. apply loop_continues_lt in E. lia.
Qed.
Lemma rank_bounds o : 1 <= rank o <= 6.
Proof. destruct o; simpl; lia. Qed.
Lemma lowest_zero : lowestPrec = 0.
Proof. reflexivity. Qed.
Lemma rparen_lowest : precedences T_RPAREN = lowestPrec.
Proof. reflexivity. Qed.

(* from here on the table is used only through the lemmas above *)
Local Opaque precedences unary_operand_prec binary_operand_prec loop_continues lowestPrec.

(* ================================================================ *)
(** * Cursor lemmas                                                  *)

(* the parser state after the tokens of l have been consumed, written with the
   model's own cursor primitives (so prev / peek are whatever the code makes them) *)
Fixpoint consume (l : lexp) (st : pstate) : pstate :=
  match l with
  | LAtom _ _ => advance st
  | LGroup _ e _ => pop_wss (advance_wss (consume e (advance (push_wss false st))))
  | LUn _ e => consume e (advance st)
  | LBin _ a _ b => consume b (advance (consume a st))
  end.

Fixpoint first_tok (l : lexp) : token :=
  match l with
  | LAtom a _ => atom_tok a
  | LGroup _ _ _ => mk T_LPAREN
  | LUn o _ => mk (unop_tok o)
  | LBin _ a _ _ => first_tok a
  end.

Lemma atom_tok_not_ws a : is_ws (atom_tok a) = false.
Proof. destruct a as [| |[]|]; reflexivity. Qed.

Lemma render_first l : exists r, render l = first_tok l :: r.
Proof.
  induction l as [a ws|w1 e IH w2|o e IH|o a IHa ws b IHb]; simpl; eauto.
  destruct IHa as [r ->]. simpl. eauto.
Qed.

Lemma first_tok_not_ws l : is_ws (first_tok l) = false.
Proof. induction l; simpl; auto using atom_tok_not_ws. destruct o; reflexivity. Qed.

Lemma render_head_not_ws l r : is_ws (look0 (render l ++ r)) = false.
Proof. destruct (render_first l) as [x ->]. simpl. apply first_tok_not_ws. Qed.

Lemma advance_tok st t ws rest0 :
  rest st = t :: wsl ws ++ rest0 ->
  (is_wss st = true -> ws = false) ->
  (is_wss st = false -> is_ws (look0 rest0) = false) ->
  rest (advance st) = rest0 /\ wss (advance st) = wss st /\ errs (advance st) = errs st /\
  prev (advance st) = (if ws then mk T_WS else t).
Proof.
  intros Hr Ht Hf. destruct st as [pv rs pk w er]. simpl in *. subst rs.
  unfold advance, advance_wss, advance_if_ws, is_wss, cur, look0 in *; simpl in *.
  destruct (hd false w) eqn:W.
  - rewrite (Ht eq_refl). simpl. auto.
  - specialize (Hf eq_refl). destruct ws; simpl.
    + match goal with |- context[if ?c then _ else _] => destruct c end; simpl; auto.
    + rewrite Hf. match goal with |- context[if ?c then _ else _] => destruct c end; simpl; auto.
Qed.

Lemma pop_wss_spec st w2 rest0 b w :
  rest st = wsl w2 ++ rest0 -> wss st = b :: w ->
  (hd false w = true -> w2 = false) ->
  (hd false w = false -> is_ws (look0 rest0) = false) ->
  rest (pop_wss st) = rest0 /\ wss (pop_wss st) = w /\ errs (pop_wss st) = errs st.
Proof.
  intros Hr Hw Ht Hf. unfold pop_wss.
  set (st1 := {| prev := prev st; rest := rest st; peek := peek st; wss := tl (wss st); errs := errs st |}).
  assert (W1 : wss st1 = w) by (unfold st1; simpl; rewrite Hw; reflexivity).
  assert (I1 : is_wss st1 = hd false w) by (unfold is_wss; rewrite W1; reflexivity).
  rewrite I1. destruct (hd false w) eqn:W.
  - simpl. rewrite (Ht eq_refl) in Hr. simpl in Hr. unfold st1; simpl. rewrite Hw. auto.
  - specialize (Hf eq_refl). simpl. destruct w2; simpl in Hr.
    + assert (C : is_ws (cur st1) = true) by (unfold cur, st1; simpl; rewrite Hr; reflexivity).
      rewrite C.
      destruct (advance_tok st1 (mk T_WS) false rest0) as (A & B & C' & _); auto.
      rewrite A, B, C'. auto.
    + assert (C : is_ws (cur st1) = false) by (unfold cur, st1; simpl; rewrite Hr; exact Hf).
      rewrite C. unfold st1; simpl. rewrite Hw. auto.
Qed.

Lemma app_cons_assoc {A} (l1 : list A) x l2 l3 : (l1 ++ x :: l2) ++ l3 = l1 ++ x :: l2 ++ l3.
Proof. rewrite <- app_assoc. reflexivity. Qed.

Lemma consume_spec : forall l st rest0,
  rest st = render l ++ rest0 ->
  (is_wss st = true -> tight_ok l = true) ->
  (is_wss st = false -> is_ws (look0 rest0) = false) ->
  rest (consume l st) = rest0 /\ wss (consume l st) = wss st /\ errs (consume l st) = errs st.
Proof.
  induction l as [a ws|w1 e IH w2|o e IH|o a IHa ws b IHb]; intros st rest0 Hr Ht Hf; simpl in *.
  - destruct (advance_tok st (atom_tok a) ws rest0) as (A & B & C & _); auto.
    intro W. specialize (Ht W). destruct ws; [discriminate|reflexivity].
  - (* group *)
    set (st0 := push_wss false st).
    assert (Hr0 : rest st0 = mk T_LPAREN :: wsl w1 ++ (render e ++ mk T_RPAREN :: wsl w2 ++ rest0)).
    { unfold st0; simpl. rewrite Hr. simpl. rewrite <- !app_assoc. reflexivity. }
    destruct (advance_tok st0 _ _ _ Hr0) as (A1 & B1 & C1 & _).
    { intro W; discriminate W. } { intros _. apply render_head_not_ws. }
    destruct (IH (advance st0) (mk T_RPAREN :: wsl w2 ++ rest0)) as (A2 & B2 & C2); auto.
    { unfold is_wss. rewrite B1. simpl. discriminate. }
    set (st2 := consume e (advance st0)) in *.
    destruct (pop_wss_spec (advance_wss st2) w2 rest0 false (wss st)) as (A3 & B3 & C3).
    { simpl. rewrite A2. reflexivity. }
    { simpl. rewrite B2, B1. reflexivity. }
    { intro W. specialize (Ht W). destruct w2; [discriminate|reflexivity]. }
    { exact Hf. }
    rewrite A3, B3, C3. simpl. rewrite C2, C1. auto.
  - (* unary *)
    destruct (advance_tok st (mk (unop_tok o)) false (render e ++ rest0)) as (A & B & C & _); auto.
    { intros _. apply render_head_not_ws. }
    destruct (IH (advance st) rest0) as (A2 & B2 & C2); auto.
    { unfold is_wss in *. rewrite B. exact Ht. }
    { unfold is_wss in *. rewrite B. exact Hf. }
    rewrite A2, B2, C2. auto.
  - (* binary *)
    rewrite app_cons_assoc, <- app_assoc in Hr.
    destruct (IHa st (mk (binop_tok o) :: wsl ws ++ render b ++ rest0)) as (A1 & B1 & C1); auto.
    { intro W. specialize (Ht W). apply andb_true_iff in Ht as [Ht _]. apply andb_true_iff in Ht as [_ Ht]. exact Ht. }
    { intros _. destruct o; reflexivity. }
    set (sa := consume a st) in *.
    assert (Wa : is_wss sa = is_wss st) by (unfold is_wss; rewrite B1; reflexivity).
    destruct (advance_tok sa _ _ _ A1) as (A2 & B2 & C2 & _).
    { rewrite Wa. intro W. specialize (Ht W). apply andb_true_iff in Ht as [Ht _]. apply andb_true_iff in Ht as [Ht _].
      destruct ws; [discriminate|reflexivity]. }
    { intros _. apply render_head_not_ws. }
    destruct (IHb (advance sa) rest0) as (A3 & B3 & C3); auto.
    { unfold is_wss in *. rewrite B2, B1. intro W. specialize (Ht W). apply andb_true_iff in Ht as [_ Ht]. exact Ht. }
    { unfold is_wss in *. rewrite B2, B1. exact Hf. }
    rewrite A3, B3, C3, B2, C2. auto.
Qed.

(* ================================================================ *)
(** * The Pratt argument                                             *)

(* well-layered, by structural recursion (equivalent to Lay, see Lay_wl) *)
Fixpoint wl (l : lexp) : Prop :=
  match l with
  | LAtom _ _ => True
  | LGroup _ e _ => wl e
  | LUn _ e => wl e /\ rank_unary <= toprank e
  | LBin o a _ b => wl a /\ wl b /\ rank o <= toprank a /\ rank o < toprank b
  end.

Lemma Lay_wl n l : Lay n l -> wl l /\ n <= toprank l.
Proof.
  induction 1 as [n l _ [IH1 IH2]|o l ws r _ [IHl1 IHl2] _ [IHr1 IHr2]|o e _ [IH1 IH2]|a ws|w1 e w2 _ [IH1 IH2]]; simpl.
  - split; [assumption|lia].
  - repeat split; auto.
  - repeat split; auto.
  - auto.
  - auto.
Qed.

(* binding power (from the generated table) of the outermost production *)
Definition top_bp (l : lexp) : nat :=
  match l with
  | LBin o _ _ _ => bp o
  | LUn _ _ => unary_operand_prec
  | _ => precedences T_LBRACKET
  end.

(* the minimum binding power a caller may pass when the tokens of l follow *)
Definition p_ok (p : nat) (l : lexp) : Prop :=
  match l with LBin o _ _ _ => p < bp o | _ => True end.

(* loop iterations needed to assemble l from its leftmost operand *)
Fixpoint spine (l : lexp) : nat :=
  match l with LBin _ a _ _ => S (spine a) | _ => 0 end.

(* fuel the callees need below the loop that assembles l *)
Fixpoint need (l : lexp) : nat :=
  match l with
  | LAtom _ _ => 0
  | LGroup _ e _ => S (spine e + Nat.max 1 (need e))
  | LUn _ e => S (spine e + Nat.max 1 (need e))
  | LBin _ a _ b => Nat.max (need a) (S (spine b + Nat.max 1 (need b)))
  end.

(* the token after the expression lets a loop running at power p stop *)
Definition stop_tok (tight : bool) (p : nat) (t : token) : Prop :=
  (tight = true /\ is_ws t = true) \/ is_eol (ttype t) = true \/ precedences (ttype t) <= p.

Lemma stop_tok_mono tight p q t : p <= q -> stop_tok tight p t -> stop_tok tight q t.
Proof. unfold stop_tok. intros H [A|[A|A]]; auto. right; right; lia. Qed.

Lemma rank_le_top_bp o a : rank o <= toprank a -> bp o <= top_bp a.
Proof.
  destruct a; simpl; intro H.
  - pose proof (bp_lt_unary o). pose proof unary_lt_index. lia.
  - pose proof (bp_lt_unary o). pose proof unary_lt_index. lia.
  - pose proof (bp_lt_unary o). lia.
  - apply bp_rank_le. exact H.
Qed.
Lemma rank_lt_p_ok o b : rank o < toprank b -> p_ok (bp o) b.
Proof. destruct b; simpl; auto. intro H. apply bp_rank_lt. exact H. Qed.
Lemma unary_le_top_bp e : rank_unary <= toprank e -> unary_operand_prec <= top_bp e /\ p_ok unary_operand_prec e.
Proof.
  destruct e; simpl; intro H.
  - pose proof unary_lt_index. split; [lia|exact I].
  - pose proof unary_lt_index. split; [lia|exact I].
  - split; [lia|exact I].
  - pose proof (rank_bounds o). unfold rank_unary in H. lia.
Qed.
Lemma p_ok_left p o a : p < bp o -> rank o <= toprank a -> p_ok p a.
Proof. destruct a; simpl; auto. intros H1 H2. apply bp_rank_le in H2. lia. Qed.
Lemma p_ok_lowest e : p_ok lowestPrec e.
Proof. destruct e; simpl; auto. apply bp_pos. Qed.

(* unfolding equations of the two mutually recursive functions *)
Lemma parse_expr_S E f p st :
  parse_expr E (S f) p st =
  match parse_prefix E (parse_expr E f) f st with
  | None => None
  | Some (l, st1) => match l with None => ret None st1 | Some lf => expr_loop E f p lf st1 end
  end.
Proof. reflexivity. Qed.

Lemma expr_loop_S E f p left st :
  expr_loop E (S f) p left st =
  if is_at_expr_end st then ret (Some left) st
  else if loop_continues p (precedences (cur_t st)) then
    match parse_infix E (parse_expr E f) f left st with
    | None => ret (Some left) st
    | Some r => match r with
                | None => None
                | Some (l, st1) => match l with None => ret None st1 | Some left' => expr_loop E f p left' st1 end
                end
    end
  else ret (Some left) st.
Proof. reflexivity. Qed.

Lemma expr_loop_stop E k p left st :
  stop_tok (is_wss st) p (cur st) -> expr_loop E (S k) p left st = Some (Some left, st).
Proof.
  intro H. rewrite expr_loop_S. unfold is_at_expr_end, is_at_eol, cur_t.
  destruct H as [[A B]|[A|A]].
  - rewrite A, B. reflexivity.
  - rewrite A. destruct (is_wss st && is_ws (cur st)); reflexivity.
  - destruct (is_wss st && is_ws (cur st)); [reflexivity|].
    destruct (is_eol (ttype (cur st))); [reflexivity|].
    rewrite loop_continues_false by exact A. reflexivity.
Qed.

(* the prefix switch on the first token of an atom / unary / group *)
Lemma prefix_atom E pe f st a r :
  atoms_ok E (LAtom a false) -> rest st = atom_tok a :: r ->
  parse_prefix E pe f st = Some (Some (atom_tree a), advance st).
Proof.
  intros Ha Hr. unfold parse_prefix, cur_t, cur. rewrite Hr.
  destruct a as [lit|lit|[]|n]; simpl in *.
  - unfold parse_literal, cur. rewrite Hr. simpl. rewrite Ha. reflexivity.
  - unfold parse_literal, cur. rewrite Hr. reflexivity.
  - unfold parse_literal, cur. rewrite Hr. reflexivity.
  - unfold parse_literal, cur. rewrite Hr. reflexivity.
  - destruct Ha as (H1 & H2 & H3).
    unfold parse_ident_expr, cur. rewrite Hr. simpl. rewrite H3.
    unfold lookup_var, cur. rewrite Hr. simpl. rewrite H1, H2. reflexivity.
Qed.

Lemma prefix_un E pe f st o r :
  rest st = mk (unop_tok o) :: r -> parse_prefix E pe f st = parse_unary pe st.
Proof. intro Hr. unfold parse_prefix, cur_t, cur. rewrite Hr. destruct o; reflexivity. Qed.

Lemma prefix_group E pe f st r :
  rest st = mk T_LPAREN :: r -> parse_prefix E pe f st = parse_grouped E pe f st.
Proof. intro Hr. unfold parse_prefix, cur_t, cur. rewrite Hr. reflexivity. Qed.

Lemma first_tok_not_call E e :
  atoms_ok E e -> ttype (first_tok e) = T_IDENT -> func_of E (tlit (first_tok e)) = None.
Proof.
  induction e as [a ws|w1 e IH w2|o e IH|o a IHa ws b IHb]; simpl; intros Ha Ht.
  - destruct a as [| |[]|n]; try discriminate Ht. simpl. apply Ha.
  - discriminate Ht.
  - destruct o; discriminate Ht.
  - apply IHa; tauto.
Qed.

Lemma toplevel_is_expr E pe f st e r :
  atoms_ok E e -> rest st = render e ++ r -> parse_toplevel E pe f st = pe lowestPrec st.
Proof.
  intros Ha Hr. destruct (render_first e) as [x Hx]. rewrite Hx in Hr. simpl in Hr.
  unfold parse_toplevel, cur_t, cur. rewrite Hr. simpl.
  destruct (ttype (first_tok e)) eqn:T; try reflexivity.
  rewrite (first_tok_not_call E e Ha T). reflexivity.
Qed.

Lemma atoms_ok_ws E a ws : atoms_ok E (LAtom a ws) -> atoms_ok E (LAtom a false).
Proof. destruct a; auto. Qed.

(* The general statement: parsing the tokens of l at minimum power p leaves the
   parser in its loop with left = tree_of l, at the state after l's tokens. *)
Lemma pratt_general E : forall l st rest0 p k,
  wl l -> atoms_ok E l ->
  rest st = render l ++ rest0 ->
  (is_wss st = true -> tight_ok l = true) ->
  (is_wss st = false -> is_ws (look0 rest0) = false) ->
  stop_tok (is_wss st) (top_bp l) (look0 rest0) ->
  p_ok p l ->
  need l <= k ->
  parse_expr E (S (spine l + k)) p st = expr_loop E k p (tree_of l) (consume l st).
Proof.
  induction l as [a ws|w1 e IH w2|o e IH|o a IHa ws b IHb];
    intros st rest0 p k Hwl Hat Hr Ht Hf Hstop Hp Hk.
  - (* atom *)
    simpl spine. simpl plus. rewrite parse_expr_S.
    simpl in Hr. rewrite (prefix_atom E _ _ st a _ (atoms_ok_ws _ _ _ Hat) Hr). reflexivity.
  - (* group *)
    simpl spine. simpl plus. rewrite parse_expr_S.
    simpl in Hr. rewrite (prefix_group E _ _ st _ Hr). unfold parse_grouped.
    set (st0 := push_wss false st).
    assert (Hr0 : rest st0 = mk T_LPAREN :: wsl w1 ++ (render e ++ mk T_RPAREN :: wsl w2 ++ rest0)).
    { unfold st0; simpl. rewrite Hr. rewrite <- !app_assoc. reflexivity. }
    destruct (advance_tok st0 _ _ _ Hr0) as (A1 & B1 & C1 & _).
    { intro W; discriminate W. } { intros _. apply render_head_not_ws. }
    set (st1 := advance st0) in *.
    assert (W1 : is_wss st1 = false) by (unfold is_wss; rewrite B1; reflexivity).
    simpl in Hwl, Hat. cbn [need] in Hk.
    assert (Hex : exists k', k = S (spine e + S k') /\ need e <= S k') by (exists (k - S (spine e) - 1); lia).
    destruct Hex as (k' & -> & Hk').
    rewrite (toplevel_is_expr E _ _ st1 e _ Hat A1).
    rewrite (IH st1 (mk T_RPAREN :: wsl w2 ++ rest0) lowestPrec (S k')); auto.
    + destruct (consume_spec e st1 (mk T_RPAREN :: wsl w2 ++ rest0)) as (A2 & B2 & C2); auto.
      { rewrite W1. discriminate. }
      set (st2 := consume e st1) in *.
      rewrite expr_loop_stop.
      2:{ right; right. unfold cur. rewrite A2. simpl. rewrite rparen_lowest. lia. }
      unfold assert_token, cur_t, cur. rewrite A2. simpl. reflexivity.
    + rewrite W1. discriminate.
    + rewrite W1. right; right. simpl. rewrite rparen_lowest, lowest_zero. lia.
    + apply p_ok_lowest.
  - (* unary *)
    simpl spine. simpl plus. rewrite parse_expr_S.
    simpl in Hr. rewrite (prefix_un E _ _ st o _ Hr). unfold parse_unary.
    destruct (advance_tok st (mk (unop_tok o)) false (render e ++ rest0)) as (A1 & B1 & C1 & D1); auto.
    { intros _. apply render_head_not_ws. }
    set (st1 := advance st) in *.
    assert (W1 : is_wss st1 = is_wss st) by (unfold is_wss; rewrite B1; reflexivity).
    rewrite D1. replace (is_ws (mk (unop_tok o))) with false by (destruct o; reflexivity).
    simpl in Hwl, Hat, Hstop, Ht. cbn [need] in Hk. destruct Hwl as [Hwl Hrk].
    destruct (unary_le_top_bp e Hrk) as [Hle Hpe].
    assert (Hex : exists k', k = S (spine e + S k') /\ need e <= S k') by (exists (k - S (spine e) - 1); lia).
    destruct Hex as (k' & -> & Hk').
    rewrite (IH st1 rest0 unary_operand_prec (S k')); auto.
    + destruct (consume_spec e st1 rest0) as (A2 & B2 & C2); auto.
      { rewrite W1. exact Ht. } { rewrite W1. exact Hf. }
      set (st2 := consume e st1) in *.
      rewrite expr_loop_stop.
      2:{ unfold cur. rewrite A2. unfold is_wss. rewrite B2. fold (is_wss st1). rewrite W1. exact Hstop. }
      replace (cur_t st) with (unop_tok o) by (unfold cur_t, cur; rewrite Hr; reflexivity).
      reflexivity.
    + rewrite W1. exact Ht.
    + rewrite W1. exact Hf.
    + rewrite W1. eapply stop_tok_mono; [exact Hle|exact Hstop].
  - (* binary *)
    simpl in Hwl, Hat, Hstop, Hp, Ht, Hr. cbn [need] in Hk.
    destruct Hwl as (Hwa & Hwb & Hra & Hrb). destruct Hat as [Haa Hab].
    assert (Hex : exists k', k = S (spine b + S k') /\ need b <= S k' /\ need a <= S (S (spine b + S k')))
      by (exists (k - S (spine b) - 1); lia).
    destruct Hex as (k' & -> & Hkb & Hka).
    rewrite app_cons_assoc, <- app_assoc in Hr.
    assert (Hta : is_wss st = true -> tight_ok a = true).
    { intro W. specialize (Ht W). apply andb_true_iff in Ht as [Ht _]. apply andb_true_iff in Ht as [_ Ht]. exact Ht. }
    assert (Htb : is_wss st = true -> tight_ok b = true).
    { intro W. specialize (Ht W). apply andb_true_iff in Ht as [_ Ht]. exact Ht. }
    assert (Htw : is_wss st = true -> ws = false).
    { intro W. specialize (Ht W). apply andb_true_iff in Ht as [Ht _]. apply andb_true_iff in Ht as [Ht _].
      destruct ws; [discriminate|reflexivity]. }
    simpl spine.
    replace (S (S (spine a) + S (spine b + S k'))) with (S (spine a + S (S (spine b + S k')))) by lia.
    rewrite (IHa st (mk (binop_tok o) :: wsl ws ++ render b ++ rest0) p (S (S (spine b + S k')))); auto.
    2:{ intros _. destruct o; reflexivity. }
    2:{ right; right. simpl. apply rank_le_top_bp. exact Hra. }
    2:{ eapply p_ok_left; eauto. }
    destruct (consume_spec a st (mk (binop_tok o) :: wsl ws ++ render b ++ rest0)) as (A1 & B1 & C1); auto.
    { intros _. destruct o; reflexivity. }
    set (sa := consume a st) in *.
    assert (Wa : is_wss sa = is_wss st) by (unfold is_wss; rewrite B1; reflexivity).
    rewrite expr_loop_S.
    assert (Ca : cur sa = mk (binop_tok o)) by (unfold cur; rewrite A1; reflexivity).
    unfold is_at_expr_end, is_at_eol, cur_t. rewrite Ca.
    replace (is_ws (mk (binop_tok o))) with false by (destruct o; reflexivity).
    rewrite andb_false_r.
    replace (is_eol (ttype (mk (binop_tok o)))) with false by (destruct o; reflexivity).
    simpl ttype. fold (bp o).
    replace (loop_continues p (bp o)) with true by (symmetry; apply loop_continues_lt; exact Hp).
    unfold parse_infix, cur_t. rewrite Ca. simpl ttype. rewrite binop_tok_is_binary.
    unfold parse_binary, cur_t. rewrite Ca. simpl ttype. fold (bp o). rewrite binary_operand_prec_id.
    destruct (advance_tok sa _ _ _ A1) as (A2 & B2 & C2 & _).
    { rewrite Wa. exact Htw. } { intros _. apply render_head_not_ws. }
    set (s1 := advance sa) in *.
    assert (W1 : is_wss s1 = is_wss st) by (unfold is_wss; rewrite B2, B1; reflexivity).
    rewrite (IHb s1 rest0 (bp o) (S k')); auto.
    + destruct (consume_spec b s1 rest0) as (A3 & B3 & C3); auto.
      { rewrite W1. exact Htb. } { rewrite W1. exact Hf. }
      set (sb := consume b s1) in *.
      rewrite expr_loop_stop.
      2:{ unfold cur. rewrite A3. unfold is_wss. rewrite B3. fold (is_wss s1). rewrite W1. exact Hstop. }
      reflexivity.
    + rewrite W1. exact Htb.
    + rewrite W1. exact Hf.
    + rewrite W1. eapply stop_tok_mono; [|exact Hstop]. apply rank_le_top_bp. lia.
    + apply rank_lt_p_ok. exact Hrb.
Qed.

(* ================================================================ *)
(** * Theorems                                                       *)

(* enough fuel: the model's entry point runs with 2 * (number of tokens) + 10 *)
Lemma fuel_bound l : spine l + need l + 2 <= 2 * List.length (render l).
Proof.
  induction l as [a ws|w1 e IH w2|o e IH|o a IHa ws b IHb]; cbn [spine need render].
  - simpl. lia.
  - simpl List.length. rewrite !app_length. simpl List.length. lia.
  - simpl List.length. lia.
  - rewrite !app_length. simpl List.length. rewrite !app_length. lia.
Qed.

Theorem pratt_layered E l st rest0 fuel :
  Lay 0 l -> atoms_ok E l ->
  rest st = render l ++ rest0 ->
  (is_wss st = true -> tight_ok l = true) ->
  (is_wss st = false -> is_ws (look0 rest0) = false) ->
  stop_tok (is_wss st) lowestPrec (look0 rest0) ->
  2 * List.length (render l) <= fuel ->
  parse_expr E fuel lowestPrec st = Some (Some (tree_of l), consume l st) /\
  rest (consume l st) = rest0 /\ wss (consume l st) = wss st /\ errs (consume l st) = errs st.
Proof.
  intros HL Hat Hr Ht Hf Hstop Hfuel.
  destruct (Lay_wl _ _ HL) as [Hwl _].
  pose proof (fuel_bound l) as Hb.
  destruct (consume_spec l st rest0 Hr Ht Hf) as (A & B & C).
  split; [|auto].
  assert (Hex : exists k, fuel = S (spine l + S k) /\ need l <= S k) by (exists (fuel - spine l - 2); lia).
  destruct Hex as (k & -> & Hk).
  rewrite (pratt_general E l st rest0 lowestPrec (S k)); auto.
  - rewrite expr_loop_stop; [reflexivity|].
    unfold cur. rewrite A. unfold is_wss. rewrite B. exact Hstop.
  - eapply stop_tok_mono; [|exact Hstop]. rewrite lowest_zero. lia.
  - apply p_ok_lowest.
Qed.

(* the tree depends on the derivation only, not on its layout *)
Lemma tree_of_erase l : tree_of l = stree (erase l).
Proof. induction l; simpl; congruence. Qed.

Theorem layout_irrelevant E l1 l2 st1 st2 r1 r2 fuel1 fuel2 :
  erase l1 = erase l2 ->
  Lay 0 l1 -> Lay 0 l2 -> atoms_ok E l1 -> atoms_ok E l2 ->
  rest st1 = render l1 ++ r1 -> rest st2 = render l2 ++ r2 ->
  (is_wss st1 = true -> tight_ok l1 = true) -> (is_wss st2 = true -> tight_ok l2 = true) ->
  (is_wss st1 = false -> is_ws (look0 r1) = false) -> (is_wss st2 = false -> is_ws (look0 r2) = false) ->
  stop_tok (is_wss st1) lowestPrec (look0 r1) -> stop_tok (is_wss st2) lowestPrec (look0 r2) ->
  2 * List.length (render l1) <= fuel1 -> 2 * List.length (render l2) <= fuel2 ->
  exists t s1 s2,
    parse_expr E fuel1 lowestPrec st1 = Some (Some t, s1) /\ rest s1 = r1 /\
    parse_expr E fuel2 lowestPrec st2 = Some (Some t, s2) /\ rest s2 = r2 /\ t = stree (erase l1).
Proof.
  intros He L1 L2 A1 A2 R1 R2 T1 T2 F1 F2 S1 S2 U1 U2.
  destruct (pratt_layered E l1 st1 r1 fuel1) as (P1 & Q1 & _); auto.
  destruct (pratt_layered E l2 st2 r2 fuel2) as (P2 & Q2 & _); auto.
  exists (tree_of l1), (consume l1 st1), (consume l2 st2).
  rewrite P1, P2. repeat split; auto.
  - rewrite !tree_of_erase, He. reflexivity.
  - apply tree_of_erase.
Qed.

(* left associativity at every level, and precedence between levels *)
Lemma Lay_0_of n l : Lay n l -> Lay 0 l.
Proof. induction n; auto. intro H. apply IHn. apply Lay_up. exact H. Qed.

Lemma Lay_le n m l : n <= m -> Lay m l -> Lay n l.
Proof. induction 1 as [|m Hle IH]; auto. intro HL. apply IH. apply Lay_up. exact HL. Qed.

Lemma Lay_atom_any n a ws : n <= rank_primary -> Lay n (LAtom a ws).
Proof. intro H. eapply Lay_le; [exact H|apply Lay_atom]. Qed.

Lemma Lay_left_assoc o1 o2 a b c w1 w2 wa wb wc :
  rank o1 = rank o2 ->
  Lay 0 (LBin o2 (LBin o1 (LAtom a wa) w1 (LAtom b wb)) w2 (LAtom c wc)).
Proof.
  intro H. pose proof (rank_bounds o1). pose proof (rank_bounds o2).
  apply (Lay_0_of (rank o2)). apply Lay_bin.
  - rewrite <- H. apply Lay_bin; apply Lay_atom_any; unfold rank_primary; lia.
  - apply Lay_atom_any; unfold rank_primary; lia.
Qed.

Lemma Lay_tighter_right o1 o2 a b c w1 w2 wa wb wc :
  rank o1 < rank o2 ->
  Lay 0 (LBin o1 (LAtom a wa) w1 (LBin o2 (LAtom b wb) w2 (LAtom c wc))).
Proof.
  intro H. pose proof (rank_bounds o1). pose proof (rank_bounds o2).
  apply (Lay_0_of (rank o1)). apply Lay_bin.
  - apply Lay_atom_any; unfold rank_primary; lia.
  - apply (Lay_le _ (rank o2)); [lia|]. apply Lay_bin; apply Lay_atom_any; unfold rank_primary; lia.
Qed.

Theorem left_assoc E o1 o2 a b c w1 w2 wa wb wc st rest0 fuel :
  rank o1 = rank o2 ->
  let l := LBin o2 (LBin o1 (LAtom a wa) w1 (LAtom b wb)) w2 (LAtom c wc) in
  atoms_ok E l ->
  rest st = render l ++ rest0 ->
  (is_wss st = true -> tight_ok l = true) ->
  (is_wss st = false -> is_ws (look0 rest0) = false) ->
  stop_tok (is_wss st) lowestPrec (look0 rest0) ->
  2 * List.length (render l) <= fuel ->
  exists st', parse_expr E fuel lowestPrec st =
    Some (Some (TBin (binop_tok o2) (TBin (binop_tok o1) (atom_tree a) (atom_tree b)) (atom_tree c)), st')
    /\ rest st' = rest0.
Proof.
  intros H l Hat Hr Ht Hf Hs Hfu.
  destruct (pratt_layered E l st rest0 fuel) as (P & Q & _); auto.
  { apply Lay_left_assoc. exact H. }
  exists (consume l st). split; [exact P|exact Q].
Qed.

Theorem tighter_binds_first E o1 o2 a b c w1 w2 wa wb wc st rest0 fuel :
  rank o1 < rank o2 ->
  let l := LBin o1 (LAtom a wa) w1 (LBin o2 (LAtom b wb) w2 (LAtom c wc)) in
  atoms_ok E l ->
  rest st = render l ++ rest0 ->
  (is_wss st = true -> tight_ok l = true) ->
  (is_wss st = false -> is_ws (look0 rest0) = false) ->
  stop_tok (is_wss st) lowestPrec (look0 rest0) ->
  2 * List.length (render l) <= fuel ->
  exists st', parse_expr E fuel lowestPrec st =
    Some (Some (TBin (binop_tok o1) (atom_tree a) (TBin (binop_tok o2) (atom_tree b) (atom_tree c))), st')
    /\ rest st' = rest0.
Proof.
  intros H l Hat Hr Ht Hf Hs Hfu.
  destruct (pratt_layered E l st rest0 fuel) as (P & Q & _); auto.
  { apply Lay_tighter_right. exact H. }
  exists (consume l st). split; [exact P|exact Q].
Qed.

(* ================================================================ *)
(** * End to end: an inferred declaration  x := e  NL                *)

Theorem decl_stmt_parses E x w0 w1 l fuel :
  Lay 0 l -> atoms_ok E l ->
  let toks := {| ttype := T_IDENT; tlit := x |} :: wsl w0 ++ mk T_DECLARE :: wsl w1 ++ render l ++ [mk T_NL] in
  2 * List.length toks <= fuel ->
  exists st', parse_stmt_expr E fuel 2 toks = Some (Some (tree_of l), st') /\
              rest st' = [mk T_NL] /\ is_at_eol st' = true /\ errs st' = [].
Proof.
  intros HL Hat toks Hfu. unfold parse_stmt_expr. simpl Nat.iter.
  set (s0 := init_state toks).
  assert (W0 : is_wss s0 = false) by reflexivity.
  destruct (advance_tok s0 {| ttype := T_IDENT; tlit := x |} w0 (mk T_DECLARE :: wsl w1 ++ render l ++ [mk T_NL]))
    as (A1 & B1 & C1 & _); try reflexivity.
  { rewrite W0. discriminate. }
  set (s1 := advance s0) in *.
  destruct (advance_tok s1 (mk T_DECLARE) w1 (render l ++ [mk T_NL])) as (A2 & B2 & C2 & _); auto.
  { unfold is_wss. rewrite B1. discriminate. }
  { intros _. apply render_head_not_ws. }
  set (s2 := advance s1) in *.
  assert (W2 : is_wss s2 = false) by (unfold is_wss; rewrite B2, B1; reflexivity).
  rewrite (toplevel_is_expr E _ _ s2 l _ Hat A2).
  destruct (pratt_layered E l s2 [mk T_NL] fuel) as (P & Q & R & S); auto.
  - rewrite W2. discriminate.
  - right; left. reflexivity.
  - unfold toks in Hfu. simpl List.length in Hfu. rewrite !app_length in Hfu. simpl List.length in Hfu.
    rewrite !app_length in Hfu. lia.
  - exists (consume l s2). rewrite P. repeat split; auto.
    + unfold is_at_eol, cur_t, cur. rewrite Q. reflexivity.
    + rewrite S, C2, C1. reflexivity.
Qed.

(* ================================================================ *)
(** * The parseSlice defect and its correction                       *)

(* with the proposed fix the closing bracket of a slice is consumed without
   skipping whitespace, exactly like the closing bracket of an index expression *)
Lemma slice_close_fixed E st : e_fix_slice E = true -> slice_close E st = advance_wss st.
Proof. unfold slice_close. intros ->. reflexivity. Qed.

Lemma slice_close_fixed_keeps_ws E st t r :
  e_fix_slice E = true -> rest st = t :: mk T_WS :: r -> cur (slice_close E st) = mk T_WS.
Proof. intros H Hr. rewrite slice_close_fixed by exact H. unfold cur, advance_wss; simpl. rewrite Hr. reflexivity. Qed.

(* as the code is: inside the pushed "not whitespace sensitive" context the whitespace is swallowed *)
Lemma slice_close_swallows_ws E st t t2 r b w :
  e_fix_slice E = false -> rest st = t :: mk T_WS :: t2 :: r -> wss st = false :: b :: w -> is_ws t2 = false ->
  cur (slice_close E st) = t2.
Proof.
  intros H Hr Hw Ht2. unfold slice_close. rewrite H.
  destruct (advance_tok st t true (t2 :: r)) as (A & _); auto.
  - unfold is_wss. rewrite Hw. discriminate.
  - unfold cur. rewrite A. reflexivity.
Qed.
