(* PrattProofs.v — the precedence / layout part of property C01.

   Specification side (written from docs/spec.md, independently of the code):
     binop / unop / rank    the operator table and the list of §Precedence
     lexp                   derivations of the stratified, left-associative
                            expression grammar WITH their layout (which optional
                            whitespace is present), explicit Group nodes
     Lay n l                "l is derivable at layer n" — one layer per level
     tight_ok               layouts allowed in call arguments / array elements /
                            map values (§Horizontal Whitespace rules 3-7)
     render / tree_of       token rendering and the tree the grammar prescribes
   Theorems about the model Pratt.v (which takes its binding powers from the
   regenerated Gen/Prec.v):
     prec_table_spec_holds, pratt_layered, left_assoc, layout_irrelevant. *)
From Coq Require Import List NArith ZArith Bool Arith Lia String.
From EvyV Require Import Base Pratt.
From EvyV.Gen Require Import Prec.
Import ListNotations.
Local Open Scope nat_scope.

(* ================================================================ *)
(** * The specification: operators, levels, layered grammar          *)

(* docs/spec.md §Operators and Expressions, table *)
Inductive binop := BOr | BAnd | BEq | BNe | BLt | BLe | BGt | BGe | BAdd | BSub | BMul | BDiv | BMod.
Inductive unop := UNeg | UNot.

(* docs/spec.md §Precedence: "1. indexing, dot, grouped  2. unary  3. binary:
   3.1 * / %  3.2 + -  3.3 < <= > >=  3.4 == !=  3.5 and  3.6 or".
   rank = how tightly the level binds (larger = tighter). *)
Definition rank (o : binop) : nat :=
  match o with
  | BOr => 1
  | BAnd => 2
  | BEq | BNe => 3
  | BLt | BLe | BGt | BGe => 4
  | BAdd | BSub => 5
  | BMul | BDiv | BMod => 6
  end.
Definition rank_unary : nat := 7.
Definition rank_primary : nat := 8.

(* the lexical tokens of the operators (docs/spec.md grammar: LOGICAL_OP, COMPARISON_OP, ADD_OP, MUL_OP, UNARY_OP) *)
Definition binop_tok (o : binop) : toktype :=
  match o with
  | BOr => T_OR | BAnd => T_AND | BEq => T_EQ | BNe => T_NOT_EQ
  | BLt => T_LT | BLe => T_LTEQ | BGt => T_GT | BGe => T_GTEQ
  | BAdd => T_PLUS | BSub => T_MINUS | BMul => T_ASTERISK | BDiv => T_SLASH | BMod => T_PERCENT
  end.
Definition unop_tok (o : unop) : toktype := match o with UNeg => T_MINUS | UNot => T_BANG end.

Definition all_binops : list binop := [BOr; BAnd; BEq; BNe; BLt; BLe; BGt; BGe; BAdd; BSub; BMul; BDiv; BMod].

(* atoms: operand := literal | ident *)
Inductive atom := ANum (lit : str) | AStr (lit : str) | ABool (b : bool) | AVar (name : str).

Definition atom_tok (a : atom) : token :=
  match a with
  | ANum l => {| ttype := T_NUM_LIT; tlit := l |}
  | AStr l => {| ttype := T_STRING_LIT; tlit := l |}
  | ABool true => mk T_TRUE
  | ABool false => mk T_FALSE
  | AVar n => {| ttype := T_IDENT; tlit := n |}
  end.
Definition atom_tree (a : atom) : tree :=
  match a with ANum l => TNum l | AStr l => TStr l | ABool b => TBool b | AVar n => TVar n end.

(* derivations with layout: every token the parser consumes with p.advance()
   carries a flag "followed by whitespace"; unary operators, "." and the token
   before "[" / "." have none (§Horizontal Whitespace rules 1-3). *)
Inductive lexp :=
| LAtom (a : atom) (ws : bool)
| LGroup (ws1 : bool) (e : lexp) (ws2 : bool)     (* "(" ws1 e ")" ws2 *)
| LUn (o : unop) (e : lexp)
| LBin (o : binop) (l : lexp) (ws : bool) (r : lexp)  (* l op ws r ; whitespace before op is l's trailing flag *)
| LIndex (e : lexp) (w1 : bool) (i : lexp) (w2 : bool)                                  (* e "[" w1 i "]" w2 *)
| LSlice (e : lexp) (w1 : bool) (s : option lexp) (w2 : bool) (t : option lexp) (w3 : bool)  (* e "[" w1 [s] ":" w2 [t] "]" w3 *)
| LDot (e : lexp) (key : str) (w : bool)                                                (* e "." key w *)
| LAssert (e : lexp) (w1 : bool) (t : ty) (w2 w3 : bool)                                (* e "." "(" w1 type w2 ")" w3 *)
(* "(" w1 f WS a1 WS ... WS an wl ")" w2 : a call in parentheses; every argument is preceded by
   whitespace, the last one may be followed by whitespace (wl); the arguments are rendered tight *)
| LCall (w1 : bool) (f : str) (args : list lexp) (wl w2 : bool)
(* "[" w1 e1 WS ... WS en wl "]" w2 : an array literal (elements on one line, separated by whitespace, rendered tight) *)
| LArr (w1 : bool) (elems : list lexp) (wl w2 : bool)
(* "{" w1 k1 ":" c1 v1 WS ... WS kn ":" cn vn wl "}" w2 : a map literal on one line; a pair is
   (key, whitespace after the colon, value); values are rendered tight *)
| LMap (w1 : bool) (pairs : list (str * bool * lexp)) (wl w2 : bool).

(* generic helpers for the argument / element lists nested in lexp *)
Definition allP {A} (P : A -> Prop) : list A -> Prop :=
  fix go (l : list A) : Prop := match l with [] => True | a :: t => P a /\ go t end.
Definition max_over {A} (f : A -> nat) : list A -> nat :=
  fix go (l : list A) : nat := match l with [] => 0 | a :: t => Nat.max (f a) (go t) end.
(* is the token before the remaining arguments t followed by whitespace *)
Definition seq_flag {A} (t : list A) (wl : bool) : bool := match t with [] => wl | _ => true end.

(* induction principle that reaches the optional slice bounds *)
Section LexpInd.
  Variable P : lexp -> Prop.
  Definition optP (o : option lexp) : Prop := match o with Some x => P x | None => True end.
  Hypothesis H_atom : forall a ws, P (LAtom a ws).
  Hypothesis H_group : forall w1 e w2, P e -> P (LGroup w1 e w2).
  Hypothesis H_un : forall o e, P e -> P (LUn o e).
  Hypothesis H_bin : forall o a ws b, P a -> P b -> P (LBin o a ws b).
  Hypothesis H_index : forall e w1 i w2, P e -> P i -> P (LIndex e w1 i w2).
  Hypothesis H_slice : forall e w1 s w2 t w3, P e -> optP s -> optP t -> P (LSlice e w1 s w2 t w3).
  Hypothesis H_dot : forall e k w, P e -> P (LDot e k w).
  Hypothesis H_assert : forall e w1 t w2 w3, P e -> P (LAssert e w1 t w2 w3).
  Hypothesis H_call : forall w1 f args wl w2, Forall P args -> P (LCall w1 f args wl w2).
  Hypothesis H_arr : forall w1 elems wl w2, Forall P elems -> P (LArr w1 elems wl w2).
  Hypothesis H_map : forall w1 pairs wl w2, Forall (fun p => P (snd p)) pairs -> P (LMap w1 pairs wl w2).
  Fixpoint lexp_ind' (l : lexp) : P l :=
    match l with
    | LAtom a ws => H_atom a ws
    | LGroup w1 e w2 => H_group w1 e w2 (lexp_ind' e)
    | LUn o e => H_un o e (lexp_ind' e)
    | LBin o a ws b => H_bin o a ws b (lexp_ind' a) (lexp_ind' b)
    | LIndex e w1 i w2 => H_index e w1 i w2 (lexp_ind' e) (lexp_ind' i)
    | LSlice e w1 s w2 t w3 =>
        H_slice e w1 s w2 t w3 (lexp_ind' e)
          (match s return optP s with Some x => lexp_ind' x | None => I end)
          (match t return optP t with Some x => lexp_ind' x | None => I end)
    | LDot e k w => H_dot e k w (lexp_ind' e)
    | LAssert e w1 t w2 w3 => H_assert e w1 t w2 w3 (lexp_ind' e)
    | LCall w1 f args wl w2 =>
        H_call w1 f args wl w2
          ((fix go (l : list lexp) : Forall P l :=
              match l with [] => Forall_nil P | a :: t => Forall_cons a (lexp_ind' a) (go t) end) args)
    | LArr w1 elems wl w2 =>
        H_arr w1 elems wl w2
          ((fix go (l : list lexp) : Forall P l :=
              match l with [] => Forall_nil P | a :: t => Forall_cons a (lexp_ind' a) (go t) end) elems)
    | LMap w1 pairs wl w2 =>
        H_map w1 pairs wl w2
          ((fix go (l : list (str * bool * lexp)) : Forall (fun p => P (snd p)) l :=
              match l with
              | [] => Forall_nil _
              | p :: t => Forall_cons (P := fun p => P (snd p)) p (match p with (_, v) => lexp_ind' v end) (go t)
              end) pairs)
    end.
End LexpInd.

(* the level at which the outermost production of l sits *)
Definition toprank (l : lexp) : nat :=
  match l with
  | LUn _ _ => rank_unary
  | LBin o _ _ _ => rank o
  | _ => rank_primary
  end.

(* the layered grammar: Lay n l = "l is derivable from the nonterminal of layer n"
     E_n     ::= E_(n+1)                              (Lay_up)
     E_n     ::= E_n op E_(n+1)      rank op = n      (Lay_bin: left recursion = left associativity)
     E_unary ::= unop E_unary                         (Lay_un)
     E_prim  ::= atom | "(" E_0 ")"                   (Lay_atom, Lay_group)
               | E_prim "[" E_0 "]"                   (Lay_index)
               | E_prim "[" [E_0] ":" [E_0] "]"       (Lay_slice)
               | E_prim "." ident | E_prim ".(" type ")"   (Lay_dot, Lay_assert)
               | "(" fname E_0 ... E_0 ")"                (Lay_call; arguments separated by whitespace)
               | "[" E_0 ... E_0 "]"                      (Lay_arr; elements separated by whitespace)
               | "{" ident ":" E_0 ... ident ":" E_0 "}"  (Lay_map; pairs separated by whitespace) *)
Inductive Lay : nat -> lexp -> Prop :=
| Lay_up n l : Lay (S n) l -> Lay n l
| Lay_bin o l ws r : Lay (rank o) l -> Lay (S (rank o)) r -> Lay (rank o) (LBin o l ws r)
| Lay_un o e : Lay rank_unary e -> Lay rank_unary (LUn o e)
| Lay_atom a ws : Lay rank_primary (LAtom a ws)
| Lay_group w1 e w2 : Lay 0 e -> Lay rank_primary (LGroup w1 e w2)
| Lay_index e w1 i w2 : Lay rank_primary e -> Lay 0 i -> Lay rank_primary (LIndex e w1 i w2)
| Lay_slice e w1 s w2 t w3 :
    Lay rank_primary e -> (forall x, s = Some x -> Lay 0 x) -> (forall x, t = Some x -> Lay 0 x) ->
    Lay rank_primary (LSlice e w1 s w2 t w3)
| Lay_dot e k w : Lay rank_primary e -> Lay rank_primary (LDot e k w)
| Lay_assert e w1 t w2 w3 : Lay rank_primary e -> Lay rank_primary (LAssert e w1 t w2 w3)
| Lay_call w1 f args wl w2 : (forall a, In a args -> Lay 0 a) -> Lay rank_primary (LCall w1 f args wl w2)
| Lay_arr w1 elems wl w2 : (forall a, In a elems -> Lay 0 a) -> Lay rank_primary (LArr w1 elems wl w2)
| Lay_map w1 pairs wl w2 : (forall p, In p pairs -> Lay 0 (snd p)) -> Lay rank_primary (LMap w1 pairs wl w2).

(* the tree the grammar prescribes *)
Fixpoint tree_of (l : lexp) : tree :=
  match l with
  | LAtom a _ => atom_tree a
  | LGroup _ e _ => TGroup (tree_of e)
  | LUn o e => TUn (unop_tok o) (tree_of e)
  | LBin o a _ b => TBin (binop_tok o) (tree_of a) (tree_of b)
  | LIndex e _ i _ => TIndex (tree_of e) (tree_of i)
  | LSlice e _ s _ t _ =>
      TSlice (tree_of e) (match s with Some x => Some (tree_of x) | None => None end)
                         (match t with Some x => Some (tree_of x) | None => None end)
  | LDot e k _ => TDot (tree_of e) k
  | LAssert e _ t _ _ => TAssert (tree_of e) (Some t)
  | LCall _ f args _ _ => TGroup (TCall f (map tree_of args))     (* parseGroupedExpr wraps the call *)
  | LArr _ elems _ _ => TArr (map tree_of elems)
  | LMap _ pairs _ _ => TMap (map (fun p => match p with (k, _, v) => (k, tree_of v) end) pairs)
  end.

(* derivations without layout *)
Inductive sexp :=
| SAtom (a : atom) | SGroup (e : sexp) | SUn (o : unop) (e : sexp) | SBin (o : binop) (l r : sexp)
| SIndex (e i : sexp) | SSlice (e : sexp) (s t : option sexp) | SDot (e : sexp) (k : str) | SAssert (e : sexp) (t : ty)
| SCall (f : str) (args : list sexp) | SArr (elems : list sexp) | SMap (pairs : list (str * sexp)).
Fixpoint erase (l : lexp) : sexp :=
  match l with
  | LAtom a _ => SAtom a
  | LGroup _ e _ => SGroup (erase e)
  | LUn o e => SUn o (erase e)
  | LBin o a _ b => SBin o (erase a) (erase b)
  | LIndex e _ i _ => SIndex (erase e) (erase i)
  | LSlice e _ s _ t _ =>
      SSlice (erase e) (match s with Some x => Some (erase x) | None => None end)
                       (match t with Some x => Some (erase x) | None => None end)
  | LDot e k _ => SDot (erase e) k
  | LAssert e _ t _ _ => SAssert (erase e) t
  | LCall _ f args _ _ => SCall f (map erase args)
  | LArr _ elems _ _ => SArr (map erase elems)
  | LMap _ pairs _ _ => SMap (map (fun p => match p with (k, _, v) => (k, erase v) end) pairs)
  end.
Fixpoint stree (s : sexp) : tree :=
  match s with
  | SAtom a => atom_tree a
  | SGroup e => TGroup (stree e)
  | SUn o e => TUn (unop_tok o) (stree e)
  | SBin o a b => TBin (binop_tok o) (stree a) (stree b)
  | SIndex e i => TIndex (stree e) (stree i)
  | SSlice e s t =>
      TSlice (stree e) (match s with Some x => Some (stree x) | None => None end)
                       (match t with Some x => Some (stree x) | None => None end)
  | SDot e k => TDot (stree e) k
  | SAssert e t => TAssert (stree e) (Some t)
  | SCall f args => TGroup (TCall f (map stree args))
  | SArr elems => TArr (map stree elems)
  | SMap pairs => TMap (map (fun p => match p with (k, v) => (k, stree v) end) pairs)
  end.

(* token rendering; one WS token stands for any run of blanks (the lexer merges them) *)
Definition wsl (b : bool) : list token := if b then [mk T_WS] else [].
Fixpoint render_ty (t : ty) : list token :=
  match t with
  | TyNum => [mk T_NUM] | TyStr => [mk T_STRING] | TyBool => [mk T_BOOL] | TyAny => [mk T_ANY]
  | TyArr s => mk T_LBRACKET :: mk T_RBRACKET :: render_ty s
  | TyMap s => mk T_LCURLY :: mk T_RCURLY :: render_ty s
  end.
Definition ident_tok (k : str) : token := {| ttype := T_IDENT; tlit := k |}.
(* a whitespace-separated sequence: each item is followed by whitespace, the last one by wl *)
Definition render_seq (r : lexp -> list token) : list lexp -> bool -> list token :=
  fix go (args : list lexp) (wl : bool) : list token :=
    match args with [] => [] | a :: t => r a ++ wsl (seq_flag t wl) ++ go t wl end.
Lemma render_seq_nil r wl : render_seq r [] wl = [].
Proof. reflexivity. Qed.
Lemma render_seq_cons r a t wl : render_seq r (a :: t) wl = r a ++ wsl (seq_flag t wl) ++ render_seq r t wl.
Proof. reflexivity. Qed.
Lemma max_over_cons {A} (f : A -> nat) a t : max_over f (a :: t) = Nat.max (f a) (max_over f t).
Proof. reflexivity. Qed.
Lemma allP_In {A} (P : A -> Prop) l : (forall a, In a l -> P a) -> allP P l.
Proof. induction l as [|a t IH]; simpl; intro H; [exact I|]. split; [apply H; auto|apply IH; intros b Hb; apply H; auto]. Qed.
Arguments render_seq r args wl : simpl never.
(* the pairs of a map literal *)
Definition render_pairs (r : lexp -> list token) : list (str * bool * lexp) -> bool -> list token :=
  fix go (ps : list (str * bool * lexp)) (wl : bool) : list token :=
    match ps with
    | [] => []
    | (k, wc, v) :: t => ident_tok k :: mk T_COLON :: wsl wc ++ r v ++ wsl (seq_flag t wl) ++ go t wl
    end.
Lemma render_pairs_nil r wl : render_pairs r [] wl = [].
Proof. reflexivity. Qed.
Lemma render_pairs_cons r k wc v t wl :
  render_pairs r ((k, wc, v) :: t) wl = ident_tok k :: mk T_COLON :: wsl wc ++ r v ++ wsl (seq_flag t wl) ++ render_pairs r t wl.
Proof. reflexivity. Qed.
Arguments render_pairs r ps wl : simpl never.
Fixpoint render (l : lexp) : list token :=
  match l with
  | LAtom a ws => atom_tok a :: wsl ws
  | LGroup w1 e w2 => mk T_LPAREN :: wsl w1 ++ render e ++ mk T_RPAREN :: wsl w2
  | LUn o e => mk (unop_tok o) :: render e
  | LBin o a ws b => render a ++ mk (binop_tok o) :: wsl ws ++ render b
  | LIndex e w1 i w2 => render e ++ mk T_LBRACKET :: wsl w1 ++ render i ++ mk T_RBRACKET :: wsl w2
  | LSlice e w1 s w2 t w3 =>
      render e ++ mk T_LBRACKET :: wsl w1 ++ (match s with Some x => render x | None => [] end) ++
      mk T_COLON :: wsl w2 ++ (match t with Some x => render x | None => [] end) ++ mk T_RBRACKET :: wsl w3
  | LDot e k w => render e ++ mk T_DOT :: ident_tok k :: wsl w
  | LAssert e w1 t w2 w3 => render e ++ mk T_DOT :: mk T_LPAREN :: wsl w1 ++ render_ty t ++ wsl w2 ++ mk T_RPAREN :: wsl w3
  | LCall w1 f args wl w2 =>
      mk T_LPAREN :: wsl w1 ++ ident_tok f :: wsl (seq_flag args wl) ++ render_seq render args wl ++ mk T_RPAREN :: wsl w2
  | LArr w1 elems wl w2 =>
      mk T_LBRACKET :: wsl w1 ++ render_seq render elems wl ++ mk T_RBRACKET :: wsl w2
  | LMap w1 pairs wl w2 =>
      mk T_LCURLY :: wsl w1 ++ render_pairs render pairs wl ++ mk T_RCURLY :: wsl w2
  end.

(* is the last token of l followed by whitespace *)
Fixpoint last_ws (l : lexp) : bool :=
  match l with
  | LAtom _ ws => ws
  | LGroup _ _ w2 => w2
  | LUn _ e => last_ws e
  | LBin _ _ _ b => last_ws b
  | LIndex _ _ _ w2 => w2
  | LSlice _ _ _ _ _ w3 => w3
  | LDot _ _ w => w
  | LAssert _ _ _ _ w3 => w3
  | LCall _ _ _ _ w2 => w2
  | LArr _ _ _ w2 => w2
  | LMap _ _ _ w2 => w2
  end.

(* layouts legal in a whitespace-sensitive ("tight") context: no whitespace
   outside parentheses / brackets (rules 4-9 of §Horizontal Whitespace) *)
Fixpoint tight_ok (l : lexp) : bool :=
  match l with
  | LAtom _ ws => negb ws
  | LGroup _ _ w2 => negb w2
  | LUn _ e => tight_ok e
  | LBin _ a ws b => negb ws && tight_ok a && tight_ok b
  | LIndex e _ _ w2 => negb w2 && tight_ok e
  | LSlice e _ _ _ _ w3 => negb w3 && tight_ok e
  | LDot e _ w => negb w && tight_ok e
  | LAssert e _ _ _ w3 => negb w3 && tight_ok e
  | LCall _ _ _ _ w2 => negb w2
  | LArr _ _ _ w2 => negb w2      (* whitespace just inside the brackets is legal everywhere *)
  | LMap _ _ _ w2 => negb w2
  end.

(* layouts legal in every context: no whitespace before "[" and around "." (rules 1, 2) *)
Fixpoint layout_ok (l : lexp) : bool :=
  match l with
  | LAtom _ _ => true
  | LGroup _ e _ => layout_ok e
  | LUn _ e => layout_ok e
  | LBin _ a _ b => layout_ok a && layout_ok b
  | LIndex e _ i _ => negb (last_ws e) && layout_ok e && layout_ok i
  | LSlice e _ s _ t _ =>
      negb (last_ws e) && layout_ok e && (match s with Some x => layout_ok x | None => true end) &&
      (match t with Some x => layout_ok x | None => true end)
  | LDot e _ _ => negb (last_ws e) && layout_ok e
  | LAssert e _ _ _ _ => negb (last_ws e) && layout_ok e
  | LCall _ _ args _ _ => forallb (fun a => layout_ok a && tight_ok a) args
  | LArr _ elems _ _ => forallb (fun a => layout_ok a && tight_ok a) elems
  | LMap _ pairs _ _ => forallb (fun p => layout_ok (snd p) && tight_ok (snd p)) pairs
  end.


(* the last token of l is the closing bracket of a slice (the site of the parseSlice defect) *)
Fixpoint ends_with_slice (l : lexp) : bool :=
  match l with
  | LSlice _ _ _ _ _ _ => true
  | LUn _ e => ends_with_slice e
  | LBin _ _ _ b => ends_with_slice b
  | _ => false
  end.

(* side conditions on atoms: number literals are well formed, variables are
   declared, not "_", and not function names; asserted types are not "any" *)
(* side conditions on an argument list: [ok] of every argument, and — as parseSlice is written
   (e_fix_slice = false) — an argument ending in a slice is not followed by whitespace *)
Definition args_ok (E : env) (ok : lexp -> Prop) (wl : bool) : list lexp -> Prop :=
  fix go (l : list lexp) : Prop :=
    match l with
    | [] => True
    | a :: t => (ok a /\ (e_fix_slice E = false -> ends_with_slice a = true -> seq_flag t wl = false)) /\ go t
    end.

Definition pairs_ok (E : env) (ok : lexp -> Prop) (wl : bool) : list (str * bool * lexp) -> Prop :=
  fix go (l : list (str * bool * lexp)) : Prop :=
    match l with
    | [] => True
    | p :: t => (ok (snd p) /\ (e_fix_slice E = false -> ends_with_slice (snd p) = true -> seq_flag t wl = false)) /\ go t
    end.
(* parseMapPairs rejects a key that occurred before *)
Fixpoint keys_fresh (seen : list str) (ks : list str) : Prop :=
  match ks with
  | [] => True
  | k :: t => existsb (fun k' => str_eqb k' k) seen = false /\ keys_fresh (k :: seen) t
  end.
Definition pair_key (p : str * bool * lexp) : str := fst (fst p).

Fixpoint atoms_ok (E : env) (l : lexp) : Prop :=
  match l with
  | LAtom (ANum lit) _ => num_lit_ok lit = true
  | LAtom (AVar n) _ => str_eqb n (s_ "_"%string) = false /\ mem_str n (e_vars E) = true /\ func_of E n = None
  | LAtom _ _ => True
  | LGroup _ e _ => atoms_ok E e
  | LUn _ e => atoms_ok E e
  | LBin _ a _ b => atoms_ok E a /\ atoms_ok E b
  | LIndex e _ i _ => atoms_ok E e /\ atoms_ok E i
  | LSlice e _ s _ t _ =>
      atoms_ok E e /\ (match s with Some x => atoms_ok E x | None => True end) /\
      (match t with Some x => atoms_ok E x | None => True end)
  | LDot e _ _ => atoms_ok E e
  | LAssert e _ t _ _ => atoms_ok E e /\ t <> TyAny
  | LCall _ f args wl _ =>
      (* f is a function with parameters, called with the right number of arguments; as parseSlice is
         written (e_fix_slice = false) an argument ending in a slice must not be followed by whitespace *)
      func_of E f = Some false /\ arity_wrong E f (List.length args) = false /\ args_ok E (atoms_ok E) wl args
  | LArr _ elems wl _ => args_ok E (atoms_ok E) wl elems
  | LMap _ pairs wl _ => keys_fresh [] (map pair_key pairs) /\ pairs_ok E (atoms_ok E) wl pairs
  end.

(* ================================================================ *)
(** * The binding-power table is the specification's order          *)

Definition prec_table_spec : Prop :=
  (* the binary levels are ordered as in §Precedence, operators of one level have equal power *)
  (forall a b, Nat.compare (precedences (binop_tok a)) (precedences (binop_tok b)) = Nat.compare (rank a) (rank b)) /\
  (* every binary operator binds tighter than "no operator" and looser than a unary operator *)
  (forall a, lowestPrec < precedences (binop_tok a) /\ precedences (binop_tok a) < unary_operand_prec) /\
  (* indexing and dot bind tighter than unary operators *)
  unary_operand_prec < precedences T_LBRACKET /\ precedences T_DOT = precedences T_LBRACKET /\
  (* the tokens treated as binary operators are exactly the operators of the table *)
  (forall t, is_binary_op t = true <-> exists o, t = binop_tok o) /\
  (* nothing else has a binding power *)
  (forall t, is_binary_op t = false -> t <> T_LBRACKET -> t <> T_DOT -> precedences t = lowestPrec) /\
  (* the right operand of a binary operator is parsed at the operator's own power and the
     loop continues only on strictly greater power: left associativity *)
  (forall p, binary_operand_prec p = p) /\
  (forall p b, loop_continues p b = true <-> p < b).

Lemma prec_table_spec_holds : prec_table_spec.
Proof.
  unfold prec_table_spec.
  split; [|split; [|split; [|split; [|split; [|split; [|split]]]]]].
  - (* order of the binary levels *) intros a b; destruct a, b; reflexivity.
  - (* lowest < binary < unary *) intro a; split; destruct a; vm_compute; lia.
  - (* unary < index *) vm_compute; lia.
  - (* dot = index *) reflexivity.
  - (* is_binary_op = the operator table *)
    intro t; split.
    + intro H. destruct t; try discriminate H;
        first [ now (exists BOr) | now (exists BAnd) | now (exists BEq) | now (exists BNe) | now (exists BLt) | now (exists BLe)
              | now (exists BGt) | now (exists BGe) | now (exists BAdd) | now (exists BSub) | now (exists BMul) | now (exists BDiv) | now (exists BMod) ].
    + intros [o ->]. destruct o; reflexivity.
  - (* no other token has a power *)
    intros t Hb H1 H2. destruct t; try reflexivity; try discriminate Hb; congruence.
  - (* right operand parsed at the operator's own power *) intro p; reflexivity.
  - (* loop continues on strictly greater power only *)
    intros p b; unfold loop_continues; apply Nat.ltb_lt.
Qed.

(* the facts the Pratt argument uses, extracted once; below this point the
   table is opaque *)
Definition bp (o : binop) : nat := precedences (binop_tok o).

Lemma bp_rank_lt a b : rank a < rank b <-> bp a < bp b.
Proof.
  destruct prec_table_spec_holds as [H _]. specialize (H a b). unfold bp.
  rewrite <- !Nat.compare_lt_iff. rewrite H. tauto.
Qed.
Lemma bp_rank_le a b : rank a <= rank b <-> bp a <= bp b.
Proof.
  destruct prec_table_spec_holds as [H _]. specialize (H a b). unfold bp.
  rewrite <- !Nat.compare_le_iff. rewrite H. tauto.
Qed.
Lemma bp_lt_unary a : bp a < unary_operand_prec.
Proof. destruct prec_table_spec_holds as (_ & H & _). apply H. Qed.
Lemma bp_pos a : lowestPrec < bp a.
Proof. destruct prec_table_spec_holds as (_ & H & _). apply H. Qed.
Lemma unary_lt_index : unary_operand_prec < precedences T_LBRACKET.
Proof. destruct prec_table_spec_holds as (_ & _ & H & _). exact H. Qed.
Lemma binop_tok_is_binary o : is_binary_op (binop_tok o) = true.
Proof. destruct prec_table_spec_holds as (_ & _ & _ & _ & H & _). apply H. eauto. Qed.
Lemma binary_operand_prec_id p : binary_operand_prec p = p.
Proof. destruct prec_table_spec_holds as (_ & _ & _ & _ & _ & _ & H & _). apply H. Qed.
Lemma loop_continues_lt p b : loop_continues p b = true <-> p < b.
Proof. destruct prec_table_spec_holds as (_ & _ & _ & _ & _ & _ & _ & H). apply H. Qed.
Lemma loop_continues_false p b : b <= p -> loop_continues p b = false.
Proof.
  intro H. destruct (loop_continues p b) eqn:E; [|reflexivity]. apply loop_continues_lt in E. lia.
Qed.
Lemma rank_bounds o : 1 <= rank o <= 6.
Proof. destruct o; simpl; lia. Qed.
Lemma lowest_zero : lowestPrec = 0.
Proof. reflexivity. Qed.
Lemma rparen_lowest : precedences T_RPAREN = lowestPrec.
Proof. reflexivity. Qed.
Lemma rbracket_lowest : precedences T_RBRACKET = lowestPrec.
Proof. reflexivity. Qed.
Lemma rcurly_lowest : precedences T_RCURLY = lowestPrec.
Proof. reflexivity. Qed.
Lemma colon_lowest : precedences T_COLON = lowestPrec.
Proof. reflexivity. Qed.
Lemma dot_index : precedences T_DOT = precedences T_LBRACKET.
Proof. destruct prec_table_spec_holds as (_ & _ & _ & H & _). exact H. Qed.

(* from here on the table is used only through the lemmas above *)
Local Opaque precedences unary_operand_prec binary_operand_prec loop_continues lowestPrec.

(* ================================================================ *)
(** * Cursor lemmas                                                  *)

(* the parser state after the tokens of l have been consumed, written with the
   model's own cursor primitives (so prev / peek are whatever the code makes them) *)
Definition consume_ty (t : ty) (st : pstate) : pstate := fold_left (fun s _ => advance s) (render_ty t) st.

(* lookupVar records that the variable has been read *)
Definition atom_mark (a : atom) (st : pstate) : pstate :=
  match a with AVar n => mark_used n st | _ => st end.

(* parseExprList: every argument is parsed by parseExprWSS, then advanceIfWS *)
Definition consume_args (c : lexp -> pstate -> pstate) : list lexp -> pstate -> pstate :=
  fix go (args : list lexp) (st : pstate) : pstate :=
    match args with [] => st | a :: t => go t (advance_if_ws (pop_wss (c a (push_wss true st)))) end.
Lemma consume_args_nil c st : consume_args c [] st = st.
Proof. reflexivity. Qed.
Lemma consume_args_cons c a t st :
  consume_args c (a :: t) st = consume_args c t (advance_if_ws (pop_wss (c a (push_wss true st)))).
Proof. reflexivity. Qed.
Arguments consume_args c args st : simpl never.

(* parseMapPairs: key with advance, ":" with advance, the value with parseExprWSS, parseMulitlineWS *)
Definition consume_pairs (c : lexp -> pstate -> pstate) : list (str * bool * lexp) -> pstate -> pstate :=
  fix go (ps : list (str * bool * lexp)) (st : pstate) : pstate :=
    match ps with
    | [] => st
    | p :: t => go t (advance_if_ws (pop_wss (c (snd p) (push_wss true (advance (advance st))))))
    end.
Lemma consume_pairs_nil c st : consume_pairs c [] st = st.
Proof. reflexivity. Qed.
Lemma consume_pairs_cons c p t st :
  consume_pairs c (p :: t) st = consume_pairs c t (advance_if_ws (pop_wss (c (snd p) (push_wss true (advance (advance st)))))).
Proof. reflexivity. Qed.
Arguments consume_pairs c ps st : simpl never.

Fixpoint consume (E : env) (l : lexp) (st : pstate) : pstate :=
  match l with
  | LAtom a _ => atom_mark a (advance st)
  | LGroup _ e _ => pop_wss (advance_wss (consume E e (advance (push_wss false st))))
  | LUn _ e => consume E e (advance st)
  | LBin _ a _ b => consume E b (advance (consume E a st))
  | LIndex e _ i _ => pop_wss (advance_wss (consume E i (advance (push_wss false (consume E e st)))))
  | LSlice e _ s _ t _ =>
      let st1 := advance (push_wss false (consume E e st)) in
      let st2 := match s with Some x => consume E x st1 | None => st1 end in
      let st3 := advance st2 in
      let st4 := match t with Some x => consume E x st3 | None => st3 end in
      pop_wss (slice_close E st4)
  | LDot e _ _ => advance (advance (consume E e st))
  | LAssert e _ t _ _ =>
      pop_wss (advance_wss (consume_ty t (advance (advance (push_wss false (consume E e st))))))
  | LCall _ _ args _ _ =>
      pop_wss (advance_wss (consume_args (consume E) args (advance (advance (push_wss false st)))))
  | LArr _ elems _ _ =>
      (* "[" with advance, parseMulitlineWS, the elements (parseExprWSS + parseMulitlineWS each), "]" with advance *)
      advance (consume_args (consume E) elems (advance_if_ws (advance st)))
  | LMap _ pairs _ _ =>
      pop_wss (advance_wss (consume_pairs (consume E) pairs (advance_if_ws (advance (push_wss false st)))))
  end.

Fixpoint first_tok (l : lexp) : token :=
  match l with
  | LAtom a _ => atom_tok a
  | LGroup _ _ _ => mk T_LPAREN
  | LUn o _ => mk (unop_tok o)
  | LBin _ a _ _ => first_tok a
  | LIndex e _ _ _ => first_tok e
  | LSlice e _ _ _ _ _ => first_tok e
  | LDot e _ _ => first_tok e
  | LAssert e _ _ _ _ => first_tok e
  | LCall _ _ _ _ _ => mk T_LPAREN
  | LArr _ _ _ _ => mk T_LBRACKET
  | LMap _ _ _ _ => mk T_LCURLY
  end.

Lemma atom_tok_not_ws a : is_ws (atom_tok a) = false.
Proof. destruct a as [| |[]|]; reflexivity. Qed.

Lemma render_first l : exists r, render l = first_tok l :: r.
Proof.
  induction l as [a ws|w1 e w2 IH|o e IH|o a ws b IHa IHb|e w1 i w2 IHe IHi|e w1 s w2 t w3 IHe IHs IHt|e k w IHe|e w1 t w2 w3 IHe|w1 f args wz w2 IHargs|w1 args wz w2 IHargs|w1 pairs wz w2 IHpairs]
    using lexp_ind'; simpl; eauto;
  destruct IHe as [r ->] || destruct IHa as [r ->]; simpl; eauto.
Qed.

(* the first token of an expression is one of the eight prefix tokens *)
Definition prefix_tt (t : toktype) : Prop :=
  t = T_NUM_LIT \/ t = T_STRING_LIT \/ t = T_TRUE \/ t = T_FALSE \/ t = T_IDENT \/ t = T_LPAREN \/ t = T_MINUS \/ t = T_BANG \/
  t = T_LBRACKET \/ t = T_LCURLY.

Lemma first_tok_prefix l : prefix_tt (ttype (first_tok l)).
Proof.
  unfold prefix_tt.
  induction l as [a ws|w1 e w2 IH|o e IH|o a ws b IHa IHb|e w1 i w2 IHe IHi|e w1 s w2 t w3 IHe IHs IHt|e k w IHe|e w1 t w2 w3 IHe|w1 f args wz w2 IHargs|w1 args wz w2 IHargs|w1 pairs wz w2 IHpairs]
    using lexp_ind'; simpl; auto.
  - destruct a as [| |[]|]; simpl; tauto.
  - tauto.
  - destruct o; simpl; tauto.
  - tauto.
  - tauto.
  - tauto.
Qed.

Lemma first_tok_not_ws l : is_ws (first_tok l) = false.
Proof. unfold is_ws. destruct (first_tok_prefix l) as [H|[H|[H|[H|[H|[H|[H|[H|[H|H]]]]]]]]]; rewrite H; reflexivity. Qed.

Lemma render_head_not_ws l r : is_ws (look0 (render l ++ r)) = false.
Proof. destruct (render_first l) as [x ->]. simpl. apply first_tok_not_ws. Qed.

Lemma advance_tok st t ws rest0 :
  rest st = t :: wsl ws ++ rest0 ->
  (is_wss st = true -> ws = false) ->
  (is_wss st = false -> is_ws (look0 rest0) = false) ->
  rest (advance st) = rest0 /\ wss (advance st) = wss st /\ errs (advance st) = errs st /\
  prev (advance st) = (if ws then mk T_WS else t) /\
  (is_ws (look1 rest0) = false -> peek (advance st) = look1 rest0).
Proof.
  intros Hr Ht Hf. unfold advance.
  set (s1 := advance_wss st).
  assert (R1 : rest s1 = wsl ws ++ rest0) by (unfold s1; simpl; rewrite Hr; reflexivity).
  assert (P1 : prev s1 = t) by (unfold s1; simpl; unfold cur; rewrite Hr; reflexivity).
  assert (K1 : peek s1 = look1 (rest s1)) by reflexivity.
  assert (W1 : is_wss s1 = is_wss st) by reflexivity.
  rewrite W1. destruct (is_wss st) eqn:W.
  - rewrite (Ht eq_refl) in *. change (rest s1 = rest0) in R1. rewrite R1 in K1. repeat split; auto.
  - specialize (Hf eq_refl). unfold advance_if_ws. destruct ws.
    + assert (C : is_ws (cur s1) = true) by (unfold cur; rewrite R1; reflexivity).
      rewrite C. set (s2 := advance_wss s1).
      assert (R2 : rest s2 = rest0) by (unfold s2, advance_wss; cbn [rest]; rewrite R1; reflexivity).
      assert (P2 : prev s2 = mk T_WS) by (unfold s2, advance_wss, cur; cbn [prev]; rewrite R1; reflexivity).
      assert (K2 : peek s2 = look1 rest0) by (unfold s2, advance_wss; cbn [peek]; rewrite R1; reflexivity).
      destruct (is_ws (peek s2)) eqn:Q; simpl; repeat split; auto.
      intro Q'. rewrite K2, Q' in Q. discriminate Q.
    + assert (C : is_ws (cur s1) = false) by (unfold cur; rewrite R1; exact Hf).
      rewrite C. change (rest s1 = rest0) in R1. rewrite R1 in K1.
      destruct (is_ws (peek s1)) eqn:Q; simpl; repeat split; auto.
      intro Q'. rewrite K1 in Q. unfold look1 in *. rewrite Q' in Q. discriminate Q.
Qed.

Lemma pop_wss_spec st w2 rest0 b w :
  rest st = wsl w2 ++ rest0 -> wss st = b :: w ->
  (hd false w = true -> w2 = false) ->
  (hd false w = false -> is_ws (look0 rest0) = false) ->
  rest (pop_wss st) = rest0 /\ wss (pop_wss st) = w /\ errs (pop_wss st) = errs st /\
  (w2 = false -> prev (pop_wss st) = prev st) /\
  (is_ws (look1 rest0) = false -> (w2 = false -> peek st = look1 rest0) -> peek (pop_wss st) = look1 rest0).
Proof.
  intros Hr Hw Ht Hf. unfold pop_wss.
  set (st1 := {| prev := prev st; rest := rest st; peek := peek st; wss := tl (wss st); errs := errs st; used := used st |}).
  assert (W1 : wss st1 = w) by (unfold st1; simpl; rewrite Hw; reflexivity).
  assert (I1 : is_wss st1 = hd false w) by (unfold is_wss; rewrite W1; reflexivity).
  rewrite I1. destruct (hd false w) eqn:W.
  - simpl. rewrite (Ht eq_refl) in *. simpl in Hr. unfold st1; simpl. rewrite Hw. auto 6.
  - specialize (Hf eq_refl). simpl. destruct w2; simpl in Hr.
    + assert (C : is_ws (cur st1) = true) by (unfold cur, st1; simpl; rewrite Hr; reflexivity).
      rewrite C.
      destruct (advance_tok st1 (mk T_WS) false rest0) as (A & B & C' & _ & P); auto.
      rewrite A, B, C'. repeat split; auto. discriminate.
    + assert (C : is_ws (cur st1) = false) by (unfold cur, st1; simpl; rewrite Hr; exact Hf).
      rewrite C. unfold st1; simpl. rewrite Hw. auto 6.
Qed.

Lemma app_cons_assoc {A} (l1 : list A) x l2 l3 : (l1 ++ x :: l2) ++ l3 = l1 ++ x :: l2 ++ l3.
Proof. rewrite <- app_assoc. reflexivity. Qed.

Lemma tight_ok_last_ws l : tight_ok l = true -> last_ws l = false.
Proof.
  induction l as [a ws|w1 e w2 IH|o e IH|o a ws b IHa IHb|e w1 i w2 IHe IHi|e w1 s w2 t w3 IHe IHs IHt|e k w IHe|e w1 t w2 w3 IHe|w1 f args wz w2 IHargs|w1 args wz w2 IHargs|w1 pairs wz w2 IHpairs]
    using lexp_ind'; simpl; intro Ht; auto;
    repeat (apply andb_true_iff in Ht; destruct Ht as [Ht ?]); auto;
    match goal with |- ?b = false => destruct b; simpl in *; congruence end.
Qed.

(* consuming the tokens of a type inside the parentheses of an assertion (free context) *)
Lemma consume_ty_spec t : forall st w rest0,
  rest st = render_ty t ++ wsl w ++ rest0 -> is_wss st = false -> is_ws (look0 rest0) = false ->
  rest (consume_ty t st) = rest0 /\ wss (consume_ty t st) = wss st /\ errs (consume_ty t st) = errs st.
Proof.
  unfold consume_ty.
  induction t; intros st w rest0 Hr Hw Hf; simpl in *;
    try (destruct (advance_tok st _ w rest0 Hr) as (A & B & C & _); auto; rewrite Hw; discriminate).
  - (* array *)
    destruct (advance_tok st (mk T_LBRACKET) false (mk T_RBRACKET :: render_ty t ++ wsl w ++ rest0) Hr) as (A & B & C & _); auto.
    destruct (advance_tok (advance st) (mk T_RBRACKET) false (render_ty t ++ wsl w ++ rest0) A) as (A2 & B2 & C2 & _); auto.
    { intros _. destruct t; reflexivity. }
    destruct (IHt (advance (advance st)) w rest0 A2) as (A3 & B3 & C3); auto.
    { unfold is_wss in *. rewrite B2, B. exact Hw. }
    rewrite A3, B3, C3, B2, C2. auto.
  - destruct (advance_tok st (mk T_LCURLY) false (mk T_RCURLY :: render_ty t ++ wsl w ++ rest0) Hr) as (A & B & C & _); auto.
    destruct (advance_tok (advance st) (mk T_RCURLY) false (render_ty t ++ wsl w ++ rest0) A) as (A2 & B2 & C2 & _); auto.
    { intros _. destruct t; reflexivity. }
    destruct (IHt (advance (advance st)) w rest0 A2) as (A3 & B3 & C3); auto.
    { unfold is_wss in *. rewrite B2, B. exact Hw. }
    rewrite A3, B3, C3, B2, C2. auto.
Qed.

(* what is known about the state st' reached from st after the tokens of an
   expression whose last token has trailing-whitespace flag lw, with rest0 left *)
Definition after (st st' : pstate) (lw : bool) (rest0 : list token) : Prop :=
  rest st' = rest0 /\ wss st' = wss st /\ errs st' = errs st /\
  (lw = false -> is_ws (prev st') = false) /\
  (is_ws (look1 rest0) = false -> peek st' = look1 rest0).

Lemma is_wss_eq s s' : wss s' = wss s -> is_wss s' = is_wss s.
Proof. unfold is_wss. intros ->. reflexivity. Qed.

Lemma is_wss_pushed s s' b : wss s' = wss (push_wss b s) -> is_wss s' = b.
Proof. unfold is_wss. intros ->. reflexivity. Qed.

Lemma render_ty_head_not_ws t r : is_ws (look0 (render_ty t ++ r)) = false.
Proof. destruct t; reflexivity. Qed.

Ltac norm_app H := repeat (rewrite <- app_assoc in H || rewrite <- app_comm_cons in H); simpl in H.

Definition consume_stmt (E : env) (l : lexp) : Prop := forall st rest0,
  rest st = render l ++ rest0 ->
  layout_ok l = true ->
  (is_wss st = true -> tight_ok l = true) ->
  (is_wss st = false -> is_ws (look0 rest0) = false) ->
  (e_fix_slice E = false -> ends_with_slice l = true -> is_ws (look0 rest0) = false) ->
  atoms_ok E l ->      (* only for the slice guard on call arguments it contains *)
  after st (consume E l st) (last_ws l) rest0.

Lemma render_seq_head_not_ws args wz r :
  is_ws (look0 r) = false -> is_ws (look0 (render_seq render args wz ++ r)) = false.
Proof.
  intro H. destruct args as [|a t]; [rewrite render_seq_nil; exact H|].
  rewrite render_seq_cons, <- app_assoc. apply render_head_not_ws.
Qed.

(* popWSS, then skipping one whitespace token if it is still there: in a free outer context popWSS
   itself skips it, in a whitespace-sensitive one advanceIfWS / parseMulitlineWS does *)
Lemma pop_then_skip s1 w rest1 b ws0 :
  rest s1 = wsl w ++ rest1 -> wss s1 = b :: ws0 -> is_ws (look0 rest1) = false ->
  rest (advance_if_ws (pop_wss s1)) = rest1 /\ wss (advance_if_ws (pop_wss s1)) = ws0 /\
  errs (advance_if_ws (pop_wss s1)) = errs s1.
Proof.
  intros Hr Hw Hn. destruct (hd false ws0) eqn:W.
  - assert (P : pop_wss s1 = {| prev := prev s1; rest := rest s1; peek := peek s1; wss := ws0; errs := errs s1; used := used s1 |}).
    { unfold pop_wss, is_wss. simpl. rewrite Hw. simpl. rewrite W. reflexivity. }
    rewrite P. unfold advance_if_ws, cur. simpl. rewrite Hr. destruct w; simpl.
    + auto.
    + rewrite Hn. simpl. auto.
  - destruct (pop_wss_spec s1 w rest1 b ws0 Hr Hw) as (A & B & C & _).
    { intro X. rewrite X in W. discriminate. } { intros _. exact Hn. }
    assert (I : advance_if_ws (pop_wss s1) = pop_wss s1) by (unfold advance_if_ws, cur; rewrite A, Hn; reflexivity).
    rewrite I. auto.
Qed.

(* the opening bracket of an array literal: advance, then parseMulitlineWS *)
Lemma open_spec st t w r : rest st = t :: wsl w ++ r -> is_ws (look0 r) = false ->
  rest (advance_if_ws (advance st)) = r /\ wss (advance_if_ws (advance st)) = wss st /\
  errs (advance_if_ws (advance st)) = errs st.
Proof.
  intros Hr Hn. destruct (is_wss st) eqn:W.
  - assert (A : advance st = advance_wss st).
    { unfold advance. change (is_wss (advance_wss st)) with (is_wss st). rewrite W. reflexivity. }
    rewrite A. unfold advance_if_ws, cur. simpl. rewrite Hr. simpl. destruct w; simpl.
    + rewrite Hr. simpl. auto.
    + rewrite Hn. simpl. rewrite Hr. auto.
  - destruct (advance_tok st t w r Hr) as (A & B & C & _).
    { rewrite W; discriminate. } { intros _; exact Hn. }
    assert (I : advance_if_ws (advance st) = advance st) by (unfold advance_if_ws, cur; rewrite A, Hn; reflexivity).
    rewrite I. auto.
Qed.

(* one argument of a call / element of an array literal: parseExprWSS, then advanceIfWS / parseMulitlineWS *)
Lemma arg_step E a : consume_stmt E a -> forall st w rest1,
  rest st = render a ++ wsl w ++ rest1 -> is_ws (look0 rest1) = false ->
  layout_ok a = true -> tight_ok a = true ->
  (e_fix_slice E = false -> ends_with_slice a = true -> w = false) -> atoms_ok E a ->
  rest (consume E a (push_wss true st)) = wsl w ++ rest1 /\
  wss (consume E a (push_wss true st)) = true :: wss st /\
  rest (advance_if_ws (pop_wss (consume E a (push_wss true st)))) = rest1 /\
  wss (advance_if_ws (pop_wss (consume E a (push_wss true st)))) = wss st /\
  errs (advance_if_ws (pop_wss (consume E a (push_wss true st)))) = errs st.
Proof.
  intros IH st w rest1 Hr Hn Hl Ht Hg Ha.
  destruct (IH (push_wss true st) (wsl w ++ rest1) Hr Hl (fun _ => Ht)) as (A & B & C & _); auto.
  { intro W. discriminate W. }
  { intros F S. rewrite (Hg F S). exact Hn. }
  set (s1 := consume E a (push_wss true st)) in *.
  destruct (pop_then_skip s1 w rest1 true (wss st) A B Hn) as (A2 & B2 & C2).
  repeat split; auto. rewrite C2. exact C.
Qed.

Lemma consume_args_spec E ok args : Forall (consume_stmt E) args -> forall st wz rest0,
  rest st = render_seq render args wz ++ rest0 -> is_ws (look0 rest0) = false ->
  forallb (fun a => layout_ok a && tight_ok a) args = true ->
  args_ok E ok wz args -> (forall a, ok a -> atoms_ok E a) ->
  rest (consume_args (consume E) args st) = rest0 /\
  wss (consume_args (consume E) args st) = wss st /\ errs (consume_args (consume E) args st) = errs st.
Proof.
  induction 1 as [|a t Ha Ht IH]; intros st wz rest0 Hr Hn Hl Hg Hok.
  - rewrite consume_args_nil. rewrite render_seq_nil in Hr. auto.
  - rewrite render_seq_cons in Hr. rewrite <- !app_assoc in Hr. rewrite consume_args_cons.
    simpl in Hl. apply andb_true_iff in Hl as [Hla Hlt]. apply andb_true_iff in Hla as [Hla Hta].
    destruct Hg as [[Hoa Hga] Hgt].
    destruct (arg_step E a Ha st (seq_flag t wz) (render_seq render t wz ++ rest0) Hr) as (_ & _ & A & B & C); auto.
    { apply render_seq_head_not_ws. exact Hn. }
    destruct (IH (advance_if_ws (pop_wss (consume E a (push_wss true st)))) wz rest0 A) as (A2 & B2 & C2); auto.
    rewrite A2, B2, C2, B, C. auto.
Qed.

Lemma render_pairs_head_not_ws ps wz r :
  is_ws (look0 r) = false -> is_ws (look0 (render_pairs render ps wz ++ r)) = false.
Proof.
  intro H. destruct ps as [|[[k wc] v] t]; [rewrite render_pairs_nil; exact H|]. rewrite render_pairs_cons. reflexivity.
Qed.

(* one pair of a map literal, in the free context of the braces *)
Lemma pair_step E v : consume_stmt E v -> forall st k wc w rest1,
  rest st = ident_tok k :: mk T_COLON :: wsl wc ++ render v ++ wsl w ++ rest1 ->
  is_wss st = false -> is_ws (look0 rest1) = false ->
  layout_ok v = true -> tight_ok v = true ->
  (e_fix_slice E = false -> ends_with_slice v = true -> w = false) -> atoms_ok E v ->
  rest (advance (advance st)) = render v ++ wsl w ++ rest1 /\
  rest (advance st) = mk T_COLON :: wsl wc ++ render v ++ wsl w ++ rest1 /\
  rest (advance_if_ws (pop_wss (consume E v (push_wss true (advance (advance st)))))) = rest1 /\
  wss (advance_if_ws (pop_wss (consume E v (push_wss true (advance (advance st)))))) = wss st /\
  errs (advance_if_ws (pop_wss (consume E v (push_wss true (advance (advance st)))))) = errs st.
Proof.
  intros IH st k wc w rest1 Hr Hs Hn Hl Ht Hg Ha.
  destruct (advance_tok st (ident_tok k) false (mk T_COLON :: wsl wc ++ render v ++ wsl w ++ rest1) Hr) as (A1 & B1 & C1 & _); auto.
  destruct (advance_tok (advance st) (mk T_COLON) wc (render v ++ wsl w ++ rest1) A1) as (A2 & B2 & C2 & _).
  { rewrite (is_wss_eq _ _ B1), Hs. discriminate. } { intros _. apply render_head_not_ws. }
  destruct (arg_step E v IH (advance (advance st)) w rest1 A2 Hn Hl Ht Hg Ha) as (_ & _ & A & B & C).
  rewrite A, B, C, B2, C2, B1, C1. auto 10.
Qed.

Lemma consume_pairs_spec E ok ps : Forall (fun p => consume_stmt E (snd p)) ps -> forall st wz rest0,
  rest st = render_pairs render ps wz ++ rest0 -> is_wss st = false -> is_ws (look0 rest0) = false ->
  forallb (fun p => layout_ok (snd p) && tight_ok (snd p)) ps = true ->
  pairs_ok E ok wz ps -> (forall a, ok a -> atoms_ok E a) ->
  rest (consume_pairs (consume E) ps st) = rest0 /\
  wss (consume_pairs (consume E) ps st) = wss st /\ errs (consume_pairs (consume E) ps st) = errs st.
Proof.
  induction 1 as [|[[k wc] v] t Hv Ht IH]; intros st wz rest0 Hr Hs Hn Hl Hg Hok.
  - rewrite consume_pairs_nil. rewrite render_pairs_nil in Hr. auto.
  - rewrite render_pairs_cons in Hr. norm_app Hr. rewrite consume_pairs_cons. cbn [snd] in *.
    simpl in Hl. apply andb_true_iff in Hl as [Hla Hlt]. apply andb_true_iff in Hla as [Hla Hta].
    destruct Hg as [[Hoa Hga] Hgt]. cbn [snd] in Hoa, Hga.
    destruct (pair_step E v Hv st k wc (seq_flag t wz) (render_pairs render t wz ++ rest0) Hr Hs) as (_ & _ & A & B & C); auto.
    { apply render_pairs_head_not_ws. exact Hn. }
    destruct (IH _ wz rest0 A) as (A2 & B2 & C2); auto.
    { unfold is_wss. rewrite B. exact Hs. }
    rewrite A2, B2, C2, B, C. auto.
Qed.

Lemma consume_spec E : forall l, consume_stmt E l.
Proof.
  induction l as [a ws|w1 e w2 IH|o e IH|o a ws b IHa IHb|e w1 i w2 IHe IHi|e w1 s w2 t w3 IHe IHs IHt|e k w IHe|e w1 t w2 w3 IHe|w1 f args wz w2 IHargs|w1 args wz w2 IHargs|w1 pairs wz w2 IHpairs]
    using lexp_ind'; intros st rest0 Hr Hl Ht Hf Hg Hat; unfold after; cbn [consume last_ws]; simpl in Hr, Hl, Hat.
  - (* atom *)
    destruct (advance_tok st (atom_tok a) ws rest0) as (A & B & C & D & P); auto.
    { intro W. specialize (Ht W). simpl in Ht. destruct ws; [discriminate|reflexivity]. }
    assert (Hm : forall s, rest (atom_mark a s) = rest s /\ wss (atom_mark a s) = wss s /\ errs (atom_mark a s) = errs s /\
                           prev (atom_mark a s) = prev s /\ peek (atom_mark a s) = peek s) by (intro s; destruct a; simpl; auto).
    destruct (Hm (advance st)) as (M1 & M2 & M3 & M4 & M5). rewrite M1, M2, M3, M4, M5.
    repeat split; auto. intros ->. rewrite D. apply atom_tok_not_ws.
  - (* group *)
    set (st0 := push_wss false st).
    assert (Hr0 : rest st0 = mk T_LPAREN :: wsl w1 ++ (render e ++ mk T_RPAREN :: wsl w2 ++ rest0)).
    { unfold st0; simpl. rewrite Hr. simpl. rewrite <- !app_assoc. reflexivity. }
    destruct (advance_tok st0 _ _ _ Hr0) as (A1 & B1 & C1 & _).
    { intro W; discriminate W. } { intros _. apply render_head_not_ws. }
    destruct (IH (advance st0) (mk T_RPAREN :: wsl w2 ++ rest0)) as (A2 & B2 & C2 & _); auto.
    { rewrite (is_wss_pushed st _ false B1). discriminate. }
    set (st2 := consume E e (advance st0)) in *.
    destruct (pop_wss_spec (advance_wss st2) w2 rest0 false (wss st)) as (A3 & B3 & C3 & D3 & P3).
    { simpl. rewrite A2. reflexivity. }
    { simpl. rewrite B2, B1. reflexivity. }
    { intro W. specialize (Ht W). simpl in Ht. destruct w2; [discriminate|reflexivity]. }
    { exact Hf. }
    rewrite A3, B3, C3. simpl. rewrite C2, C1. repeat split; auto.
    + intro W. rewrite (D3 W). simpl. unfold cur. rewrite A2. reflexivity.
    + intro Q. apply P3; auto. intros ->. simpl. rewrite A2. reflexivity.
  - (* unary *)
    destruct (advance_tok st (mk (unop_tok o)) false (render e ++ rest0)) as (A & B & C & _); auto.
    { intros _. apply render_head_not_ws. }
    destruct (IH (advance st) rest0) as (A2 & B2 & C2 & D2 & P2); auto.
    { rewrite (is_wss_eq _ _ B). exact Ht. }
    { rewrite (is_wss_eq _ _ B). exact Hf. }
    rewrite A2, B2, C2. repeat split; auto.
  - (* binary *)
    destruct Hat as [Haa Hab].
    rewrite app_cons_assoc, <- app_assoc in Hr. apply andb_true_iff in Hl as [Hla Hlb].
    assert (Hta : is_wss st = true -> tight_ok a = true).
    { intro W. specialize (Ht W). simpl in Ht. apply andb_true_iff in Ht as [Ht _]. apply andb_true_iff in Ht as [_ Ht]. exact Ht. }
    assert (Htb : is_wss st = true -> tight_ok b = true).
    { intro W. specialize (Ht W). simpl in Ht. apply andb_true_iff in Ht as [_ Ht]. exact Ht. }
    assert (Htw : is_wss st = true -> ws = false).
    { intro W. specialize (Ht W). simpl in Ht. apply andb_true_iff in Ht as [Ht _]. apply andb_true_iff in Ht as [Ht _].
      destruct ws; [discriminate|reflexivity]. }
    destruct (IHa st (mk (binop_tok o) :: wsl ws ++ render b ++ rest0)) as (A1 & B1 & C1 & _); auto.
    { intros _. destruct o; reflexivity. } { intros _ _. destruct o; reflexivity. }
    set (sa := consume E a st) in *.
    destruct (advance_tok sa _ _ _ A1) as (A2 & B2 & C2 & _).
    { rewrite (is_wss_eq _ _ B1). exact Htw. } { intros _. apply render_head_not_ws. }
    destruct (IHb (advance sa) rest0) as (A3 & B3 & C3 & D3 & P3); auto.
    { rewrite (is_wss_eq _ _ B2), (is_wss_eq _ _ B1). exact Htb. }
    { rewrite (is_wss_eq _ _ B2), (is_wss_eq _ _ B1). exact Hf. }
    rewrite A3, B3, C3, B2, C2. repeat split; auto.
  - (* index *)
    destruct Hat as [Hae Hai].
    norm_app Hr.
    apply andb_true_iff in Hl as [Hl Hli]. apply andb_true_iff in Hl as [Hlw Hle].
    destruct (IHe st (mk T_LBRACKET :: wsl w1 ++ render i ++ mk T_RBRACKET :: wsl w2 ++ rest0)) as (A1 & B1 & C1 & _); auto.
    { intro W. specialize (Ht W). simpl in Ht. apply andb_true_iff in Ht as [_ Ht]. exact Ht. }
    set (se := consume E e st) in *. set (s0 := push_wss false se).
    assert (Hr0 : rest s0 = mk T_LBRACKET :: wsl w1 ++ (render i ++ mk T_RBRACKET :: wsl w2 ++ rest0)) by exact A1.
    destruct (advance_tok s0 _ _ _ Hr0) as (A2 & B2 & C2 & _).
    { intro W; discriminate W. } { intros _. apply render_head_not_ws. }
    destruct (IHi (advance s0) (mk T_RBRACKET :: wsl w2 ++ rest0)) as (A3 & B3 & C3 & _); auto.
    { rewrite (is_wss_pushed se _ false B2). discriminate. }
    set (si := consume E i (advance s0)) in *.
    destruct (pop_wss_spec (advance_wss si) w2 rest0 false (wss st)) as (A4 & B4 & C4 & D4 & P4).
    { simpl. rewrite A3. reflexivity. }
    { simpl. rewrite B3, B2. simpl. rewrite B1. reflexivity. }
    { intro W. specialize (Ht W). simpl in Ht. apply andb_true_iff in Ht as [Ht _]. destruct w2; [discriminate|reflexivity]. }
    { exact Hf. }
    rewrite A4, B4, C4. simpl. rewrite C3, C2. simpl. rewrite C1. repeat split; auto.
    + intro W. rewrite (D4 W). simpl. unfold cur. rewrite A3. reflexivity.
    + intro Q. apply P4; auto. intros ->. simpl. rewrite A3. reflexivity.
  - (* slice *)
    destruct Hat as (Hae & Has & Hat').
    norm_app Hr.
    apply andb_true_iff in Hl as [Hl Hlt]. apply andb_true_iff in Hl as [Hl Hls]. apply andb_true_iff in Hl as [Hlw Hle].
    set (rt := (match t with Some x => render x | None => [] end) ++ mk T_RBRACKET :: wsl w3 ++ rest0) in *.
    set (rs := (match s with Some x => render x | None => [] end) ++ mk T_COLON :: wsl w2 ++ rt) in *.
    destruct (IHe st (mk T_LBRACKET :: wsl w1 ++ rs)) as (A1 & B1 & C1 & _); auto.
    { intro W. specialize (Ht W). simpl in Ht. apply andb_true_iff in Ht as [_ Ht]. exact Ht. }
    set (se := consume E e st) in *. set (s0 := push_wss false se).
    assert (Hr0 : rest s0 = mk T_LBRACKET :: wsl w1 ++ rs) by exact A1.
    assert (Hrs : is_ws (look0 rs) = false).
    { unfold rs. destruct s; [apply render_head_not_ws|reflexivity]. }
    assert (Hrt : is_ws (look0 rt) = false).
    { unfold rt. destruct t; [apply render_head_not_ws|reflexivity]. }
    destruct (advance_tok s0 _ _ _ Hr0) as (A2 & B2 & C2 & _).
    { intro W; discriminate W. } { intros _. exact Hrs. }
    set (s1 := advance s0) in *.
    assert (W1 : is_wss s1 = false) by (apply (is_wss_pushed se _ false B2)).
    (* optional start *)
    set (s2 := match s with Some x => consume E x s1 | None => s1 end).
    assert (S2 : rest s2 = mk T_COLON :: wsl w2 ++ rt /\ wss s2 = wss s1 /\ errs s2 = errs s1).
    { unfold s2. destruct s as [x|]; [|auto].
      destruct (IHs s1 (mk T_COLON :: wsl w2 ++ rt)) as (A & B & C & _); auto.
      rewrite W1; discriminate. }
    destruct S2 as (A3 & B3 & C3).
    destruct (advance_tok s2 _ _ _ A3) as (A4 & B4 & C4 & _).
    { rewrite (is_wss_eq _ _ B3), W1. discriminate. } { intros _. exact Hrt. }
    set (s3 := advance s2) in *.
    assert (W3 : is_wss s3 = false) by (rewrite (is_wss_eq _ _ B4), (is_wss_eq _ _ B3); exact W1).
    (* optional end *)
    set (s4 := match t with Some x => consume E x s3 | None => s3 end).
    assert (S4 : rest s4 = mk T_RBRACKET :: wsl w3 ++ rest0 /\ wss s4 = wss s3 /\ errs s4 = errs s3).
    { unfold s4. destruct t as [x|]; [|auto].
      destruct (IHt s3 (mk T_RBRACKET :: wsl w3 ++ rest0)) as (A & B & C & _); auto.
      rewrite W3; discriminate. }
    destruct S4 as (A5 & B5 & C5).
    assert (W4 : wss s4 = false :: wss st) by (rewrite B5, B4, B3, B2; simpl; rewrite B1; reflexivity).
    assert (E4 : errs s4 = errs st) by (rewrite C5, C4, C3, C2; simpl; exact C1).
    assert (Htw : is_wss st = true -> w3 = false).
    { intro W. specialize (Ht W). simpl in Ht. apply andb_true_iff in Ht as [Ht _]. destruct w3; [discriminate|reflexivity]. }
    unfold slice_close. destruct (e_fix_slice E) eqn:FX.
    + (* with the fix: advanceWSS *)
      destruct (pop_wss_spec (advance_wss s4) w3 rest0 false (wss st)) as (A6 & B6 & C6 & D6 & P6).
      { simpl. rewrite A5. reflexivity. } { simpl. exact W4. } { exact Htw. } { exact Hf. }
      rewrite A6, B6, C6. simpl. repeat split; auto.
      * intro W. rewrite (D6 W). simpl. unfold cur. rewrite A5. reflexivity.
      * intro Q. apply P6; auto. intros ->. simpl. rewrite A5. reflexivity.
    + (* the code as it is: advance, inside the pushed free context *)
      assert (Hns : is_ws (look0 rest0) = false).
      { destruct (is_wss st) eqn:W; [apply Hg; reflexivity|apply Hf; reflexivity]. }
      destruct (advance_tok s4 _ _ _ A5) as (A6 & B6 & C6 & D6 & P6).
      { unfold is_wss. rewrite W4. discriminate. } { intros _. exact Hns. }
      destruct (pop_wss_spec (advance s4) false rest0 false (wss st)) as (A7 & B7 & C7 & D7 & P7); auto.
      { rewrite B6. exact W4. }
      rewrite A7, B7, C7, C6. repeat split; auto.
      * intros ->. rewrite (D7 eq_refl), D6. reflexivity.
  - (* dot *)
    norm_app Hr.
    apply andb_true_iff in Hl as [Hlw Hle].
    destruct (IHe st (mk T_DOT :: ident_tok k :: wsl w ++ rest0)) as (A1 & B1 & C1 & _); auto.
    { intro W. specialize (Ht W). simpl in Ht. apply andb_true_iff in Ht as [_ Ht]. exact Ht. }
    set (se := consume E e st) in *.
    destruct (advance_tok se (mk T_DOT) false (ident_tok k :: wsl w ++ rest0)) as (A2 & B2 & C2 & _); auto.
    destruct (advance_tok (advance se) (ident_tok k) w rest0) as (A3 & B3 & C3 & D3 & P3); auto.
    { rewrite (is_wss_eq _ _ B2), (is_wss_eq _ _ B1). intro W. specialize (Ht W). simpl in Ht.
      apply andb_true_iff in Ht as [Ht _]. destruct w; [discriminate|reflexivity]. }
    { rewrite (is_wss_eq _ _ B2), (is_wss_eq _ _ B1). exact Hf. }
    rewrite A3, B3, C3, B2, C2. repeat split; auto. intros ->. rewrite D3. reflexivity.
  - (* type assertion *)
    destruct Hat as [Hae _].
    norm_app Hr.
    apply andb_true_iff in Hl as [Hlw Hle].
    destruct (IHe st (mk T_DOT :: mk T_LPAREN :: wsl w1 ++ render_ty t ++ wsl w2 ++ mk T_RPAREN :: wsl w3 ++ rest0))
      as (A1 & B1 & C1 & _); auto.
    { intro W. specialize (Ht W). simpl in Ht. apply andb_true_iff in Ht as [_ Ht]. exact Ht. }
    set (se := consume E e st) in *. set (s0 := push_wss false se).
    destruct (advance_tok s0 (mk T_DOT) false (mk T_LPAREN :: wsl w1 ++ render_ty t ++ wsl w2 ++ mk T_RPAREN :: wsl w3 ++ rest0))
      as (A2 & B2 & C2 & _); auto.
    set (s1 := advance s0) in *.
    assert (W1 : is_wss s1 = false) by (apply (is_wss_pushed se _ false B2)).
    destruct (advance_tok s1 (mk T_LPAREN) w1 (render_ty t ++ wsl w2 ++ mk T_RPAREN :: wsl w3 ++ rest0)) as (A3 & B3 & C3 & _); auto.
    { rewrite W1. discriminate. } { intros _. apply render_ty_head_not_ws. }
    set (s2 := advance s1) in *.
    destruct (consume_ty_spec t s2 w2 (mk T_RPAREN :: wsl w3 ++ rest0)) as (A4 & B4 & C4); auto.
    { rewrite (is_wss_eq _ _ B3). exact W1. }
    set (s3 := consume_ty t s2) in *.
    destruct (pop_wss_spec (advance_wss s3) w3 rest0 false (wss st)) as (A5 & B5 & C5 & D5 & P5).
    { simpl. rewrite A4. reflexivity. }
    { simpl. rewrite B4, B3, B2. simpl. rewrite B1. reflexivity. }
    { intro W. specialize (Ht W). simpl in Ht. apply andb_true_iff in Ht as [Ht _]. destruct w3; [discriminate|reflexivity]. }
    { exact Hf. }
    rewrite A5, B5, C5. simpl. rewrite C4, C3, C2. simpl. rewrite C1. repeat split; auto.
    + intro W. rewrite (D5 W). simpl. unfold cur. rewrite A4. reflexivity.
    + intro Q. apply P5; auto. intros ->. simpl. rewrite A4. reflexivity.
  - (* call in parentheses *)
    norm_app Hr. destruct Hat as (_ & _ & Hargs).
    set (st0 := push_wss false st).
    set (r2 := mk T_RPAREN :: wsl w2 ++ rest0) in *.
    set (r1 := render_seq render args wz ++ r2) in *.
    assert (Hr0 : rest st0 = mk T_LPAREN :: wsl w1 ++ (ident_tok f :: wsl (seq_flag args wz) ++ r1)) by exact Hr.
    destruct (advance_tok st0 _ _ _ Hr0) as (A1 & B1 & C1 & _).
    { intro W; discriminate W. } { intros _. reflexivity. }
    set (st1 := advance st0) in *.
    assert (W1 : is_wss st1 = false) by (apply (is_wss_pushed st _ false B1)).
    assert (Hr1h : is_ws (look0 r1) = false) by (unfold r1; apply render_seq_head_not_ws; reflexivity).
    destruct (advance_tok st1 _ _ _ A1) as (A2 & B2 & C2 & _).
    { rewrite W1. discriminate. } { intros _. exact Hr1h. }
    set (st2 := advance st1) in *.
    assert (W2 : is_wss st2 = false) by (rewrite (is_wss_eq _ _ B2); exact W1).
    destruct (consume_args_spec E (atoms_ok E) args IHargs st2 wz r2 A2) as (A3 & B3 & C3); auto.
    set (st3 := consume_args (consume E) args st2) in *.
    destruct (pop_wss_spec (advance_wss st3) w2 rest0 false (wss st)) as (A4 & B4 & C4 & D4 & P4).
    { simpl. rewrite A3. reflexivity. }
    { simpl. rewrite B3, B2, B1. reflexivity. }
    { intro W. specialize (Ht W). simpl in Ht. destruct w2; [discriminate|reflexivity]. }
    { exact Hf. }
    rewrite A4, B4, C4. simpl. rewrite C3, C2, C1. repeat split; auto.
    + intro W. rewrite (D4 W). simpl. unfold cur. rewrite A3. reflexivity.
    + intro Q. apply P4; auto. intros ->. simpl. rewrite A3. reflexivity.
  - (* array literal *)
    norm_app Hr.
    set (r2 := mk T_RBRACKET :: wsl w2 ++ rest0) in *.
    assert (Hh : is_ws (look0 (render_seq render args wz ++ r2)) = false) by (apply render_seq_head_not_ws; reflexivity).
    destruct (open_spec st _ _ _ Hr Hh) as (A1 & B1 & C1).
    set (st1 := advance_if_ws (advance st)) in *.
    destruct (consume_args_spec E (atoms_ok E) args IHargs st1 wz r2 A1) as (A2 & B2 & C2); auto.
    set (st2 := consume_args (consume E) args st1) in *.
    destruct (advance_tok st2 _ _ _ A2) as (A3 & B3 & C3 & D3 & P3).
    { rewrite (is_wss_eq _ _ B2), (is_wss_eq _ _ B1). intro W. specialize (Ht W). simpl in Ht. destruct w2; [discriminate|reflexivity]. }
    { rewrite (is_wss_eq _ _ B2), (is_wss_eq _ _ B1). exact Hf. }
    rewrite A3, B3, C3, B2, C2, B1, C1. repeat split; auto. intros ->. rewrite D3. reflexivity.
  - (* map literal *)
    norm_app Hr. destruct Hat as [_ Hps].
    set (st0 := push_wss false st).
    set (r2 := mk T_RCURLY :: wsl w2 ++ rest0) in *.
    assert (Hh : is_ws (look0 (render_pairs render pairs wz ++ r2)) = false) by (apply render_pairs_head_not_ws; reflexivity).
    assert (Hr0 : rest st0 = mk T_LCURLY :: wsl w1 ++ (render_pairs render pairs wz ++ r2)) by exact Hr.
    destruct (open_spec st0 _ _ _ Hr0 Hh) as (A1 & B1 & C1).
    set (st1 := advance_if_ws (advance st0)) in *.
    assert (W1 : is_wss st1 = false) by (apply (is_wss_pushed st _ false B1)).
    destruct (consume_pairs_spec E (atoms_ok E) pairs IHpairs st1 wz r2 A1 W1) as (A2 & B2 & C2); auto.
    set (st2 := consume_pairs (consume E) pairs st1) in *.
    destruct (pop_wss_spec (advance_wss st2) w2 rest0 false (wss st)) as (A4 & B4 & C4 & D4 & P4).
    { simpl. rewrite A2. reflexivity. }
    { simpl. rewrite B2, B1. reflexivity. }
    { intro W. specialize (Ht W). simpl in Ht. destruct w2; [discriminate|reflexivity]. }
    { exact Hf. }
    rewrite A4, B4, C4. simpl. rewrite C2, C1. repeat split; auto.
    + intro W. rewrite (D4 W). simpl. unfold cur. rewrite A2. reflexivity.
    + intro Q. apply P4; auto. intros ->. simpl. rewrite A2. reflexivity.
Qed.

(* ================================================================ *)
(** * The Pratt argument                                             *)

(* well-layered, by structural recursion (equivalent to Lay, see Lay_wl) *)
Fixpoint wl (l : lexp) : Prop :=
  match l with
  | LAtom _ _ => True
  | LGroup _ e _ => wl e
  | LUn _ e => wl e /\ rank_unary <= toprank e
  | LBin o a _ b => wl a /\ wl b /\ rank o <= toprank a /\ rank o < toprank b
  | LIndex e _ i _ => wl e /\ wl i /\ rank_primary <= toprank e
  | LSlice e _ s _ t _ =>
      wl e /\ (match s with Some x => wl x | None => True end) /\
      (match t with Some x => wl x | None => True end) /\ rank_primary <= toprank e
  | LDot e _ _ => wl e /\ rank_primary <= toprank e
  | LAssert e _ _ _ _ => wl e /\ rank_primary <= toprank e
  | LCall _ _ args _ _ => allP wl args
  | LArr _ elems _ _ => allP wl elems
  | LMap _ pairs _ _ => allP (fun p => wl (snd p)) pairs
  end.

Lemma Lay_wl n l : Lay n l -> wl l /\ n <= toprank l.
Proof.
  induction 1 as [n l _ [IH1 IH2]|o l ws r _ [IHl1 IHl2] _ [IHr1 IHr2]|o e _ [IH1 IH2]|a ws|w1 e w2 _ [IH1 IH2]
                 |e w1 i w2 _ [IHe1 IHe2] _ [IHi1 IHi2]|e w1 s w2 t w3 _ [IHe1 IHe2] _ IHs _ IHt|e k w _ [IH1 IH2]|e w1 t w2 w3 _ [IH1 IH2]
                 |w1 f args wz w2 _ IHc|w1 args wz w2 _ IHc|w1 pairs wz w2 _ IHc];
    simpl; auto.
  - split; [assumption|lia].
  - repeat split; auto.
    + destruct s as [x|]; [|exact I]. exact (proj1 (IHs x eq_refl)).
    + destruct t as [x|]; [|exact I]. exact (proj1 (IHt x eq_refl)).
  - split; [|apply Nat.le_refl]. apply allP_In. intros a Ha. exact (proj1 (IHc a Ha)).
  - split; [|apply Nat.le_refl]. apply allP_In. intros a Ha. exact (proj1 (IHc a Ha)).
  - split; [|apply Nat.le_refl]. apply allP_In. intros a Ha. exact (proj1 (IHc a Ha)).
Qed.

(* binding power (from the generated table) of the outermost production *)
Definition idx : nat := precedences T_LBRACKET.
Definition top_bp (l : lexp) : nat :=
  match l with
  | LBin o _ _ _ => bp o
  | LUn _ _ => unary_operand_prec
  | _ => idx
  end.

(* the minimum binding power a caller may pass when the tokens of l follow *)
Definition p_ok (p : nat) (l : lexp) : Prop :=
  match l with
  | LBin o _ _ _ => p < bp o
  | LIndex _ _ _ _ | LSlice _ _ _ _ _ _ | LDot _ _ _ | LAssert _ _ _ _ _ => p < idx
  | _ => True
  end.

(* loop iterations needed to assemble l from its leftmost operand *)
Fixpoint spine (l : lexp) : nat :=
  match l with
  | LBin _ a _ _ => S (spine a)
  | LIndex e _ _ _ | LSlice e _ _ _ _ _ | LDot e _ _ | LAssert e _ _ _ _ => S (spine e)
  | _ => 0
  end.

Fixpoint ty_size (t : ty) : nat :=
  match t with TyArr s | TyMap s => S (ty_size s) | _ => 1 end.

(* fuel the callees need below the loop that assembles l *)
Fixpoint need (l : lexp) : nat :=
  match l with
  | LAtom _ _ => 0
  | LGroup _ e _ => S (spine e + Nat.max 1 (need e))
  | LUn _ e => S (spine e + Nat.max 1 (need e))
  | LBin _ a _ b => Nat.max (need a) (S (spine b + Nat.max 1 (need b)))
  | LIndex e _ i _ => Nat.max (need e) (S (spine i + Nat.max 1 (need i)))
  | LSlice e _ s _ t _ =>
      Nat.max (need e)
        (Nat.max (match s with Some x => S (spine x + Nat.max 1 (need x)) | None => 0 end)
                 (match t with Some x => S (spine x + Nat.max 1 (need x)) | None => 0 end))
  | LDot e _ _ => need e
  | LAssert e _ t _ _ => Nat.max (need e) (ty_size t)
  | LCall _ _ args _ _ =>
      Nat.max (S (List.length args)) (max_over (fun a => S (spine a + Nat.max 1 (need a))) args)
  | LArr _ elems _ _ =>
      Nat.max (S (S (List.length elems))) (max_over (fun a => S (spine a + Nat.max 1 (need a))) elems)
  | LMap _ pairs _ _ =>
      Nat.max (S (S (List.length pairs))) (max_over (fun p => S (spine (snd p) + Nat.max 1 (need (snd p)))) pairs)
  end.

(* the token after the expression lets a loop running at power p stop *)
Definition stop_tok (tight : bool) (p : nat) (t : token) : Prop :=
  (tight = true /\ is_ws t = true) \/ is_eol (ttype t) = true \/ precedences (ttype t) <= p.

Lemma stop_tok_mono tight p q t : p <= q -> stop_tok tight p t -> stop_tok tight q t.
Proof. unfold stop_tok. intros H [A|[A|A]]; auto. right; right; lia. Qed.

Lemma rank_le_top_bp o a : rank o <= toprank a -> bp o <= top_bp a.
Proof.
  pose proof (bp_lt_unary o). pose proof unary_lt_index.
  destruct a; cbn [top_bp toprank]; unfold idx; intro Hr; try lia.
  apply bp_rank_le. exact Hr.
Qed.
Lemma rank_lt_p_ok o b : rank o < toprank b -> p_ok (bp o) b.
Proof.
  pose proof (bp_lt_unary o). pose proof unary_lt_index.
  destruct b; cbn [p_ok toprank]; unfold idx; auto; try lia. intro Hr. apply bp_rank_lt. exact Hr.
Qed.
Lemma unary_le_top_bp e : rank_unary <= toprank e -> unary_operand_prec <= top_bp e /\ p_ok unary_operand_prec e.
Proof.
  pose proof unary_lt_index.
  destruct e; cbn [p_ok top_bp toprank]; unfold idx; intro Hr; try (split; [lia|auto; lia]).
  pose proof (rank_bounds o). unfold rank_unary in Hr. lia.
Qed.
Lemma p_ok_left p o a : p < bp o -> rank o <= toprank a -> p_ok p a.
Proof.
  pose proof (bp_lt_unary o). pose proof unary_lt_index.
  destruct a; cbn [p_ok toprank]; unfold idx; auto; try lia. intros H1 H2. apply bp_rank_le in H2. lia.
Qed.
Lemma p_ok_lowest e : p_ok lowestPrec e.
Proof.
  pose proof unary_lt_index. rewrite lowest_zero.
  destruct e; cbn [p_ok]; unfold idx; auto; try lia. rewrite <- lowest_zero. apply bp_pos.
Qed.
Lemma primary_top e p : rank_primary <= toprank e -> top_bp e = idx /\ (p < idx -> p_ok p e).
Proof.
  destruct e; cbn [p_ok top_bp toprank]; unfold rank_primary, rank_unary; intro Hr; auto; try lia.
  pose proof (rank_bounds o). lia.
Qed.

(* the theorems below are about programs the type checker accepts: the typing oracle never objects *)
Definition no_tyerr (E : env) : Prop := forall s t n, e_tyerr E s t n = false.
Lemma tyerr_false E s t st : no_tyerr E -> tyerr E s t st = false.
Proof. intro H. apply H. Qed.

(* unfolding equations of the two mutually recursive functions *)
Lemma parse_expr_S E f p st :
  parse_expr E (S f) p st =
  match parse_prefix E (parse_expr E f) f st with
  | None => None
  | Some (l, st1) => match l with None => ret None st1 | Some lf => expr_loop E f p lf st1 end
  end.
Proof. reflexivity. Qed.

Lemma expr_loop_S E f p left st :
  expr_loop E (S f) p left st =
  if is_at_expr_end st then ret (Some left) st
  else if loop_continues p (precedences (cur_t st)) then
    match parse_infix E (parse_expr E f) f left st with
    | None => ret (Some left) st
    | Some r => match r with
                | None => None
                | Some (l, st1) => match l with None => ret None st1 | Some left' => expr_loop E f p left' st1 end
                end
    end
  else ret (Some left) st.
Proof. reflexivity. Qed.

Lemma expr_loop_stop E k p left st :
  stop_tok (is_wss st) p (cur st) -> expr_loop E (S k) p left st = Some (Some left, st).
Proof.
  intro H. rewrite expr_loop_S. unfold is_at_expr_end, is_at_eol, cur_t.
  destruct H as [[A B]|[A|A]].
  - rewrite A, B. reflexivity.
  - rewrite A. destruct (is_wss st && is_ws (cur st)); reflexivity.
  - destruct (is_wss st && is_ws (cur st)); [reflexivity|].
    destruct (is_eol (ttype (cur st))); [reflexivity|].
    rewrite loop_continues_false by exact A. reflexivity.
Qed.

(* one turn of the loop on an infix / postfix token *)
Lemma expr_loop_turn E k p left st t :
  cur st = mk t -> is_ws (mk t) = false -> is_eol t = false -> p < precedences t ->
  expr_loop E (S k) p left st =
  match parse_infix E (parse_expr E k) k left st with
  | None => ret (Some left) st
  | Some r => match r with
              | None => None
              | Some (l, st1) => match l with None => ret None st1 | Some left' => expr_loop E k p left' st1 end
              end
  end.
Proof.
  intros Hc Hw He Hp. rewrite expr_loop_S. unfold is_at_expr_end, is_at_eol, cur_t. rewrite Hc. simpl ttype.
  rewrite Hw, andb_false_r, He.
  replace (loop_continues p (precedences t)) with true by (symmetry; apply loop_continues_lt; exact Hp).
  reflexivity.
Qed.

(* the prefix switch on the first token of an atom / unary / group *)
Lemma prefix_atom E pe f st a r :
  atoms_ok E (LAtom a false) -> rest st = atom_tok a :: r ->
  parse_prefix E pe f st = Some (Some (atom_tree a), atom_mark a (advance st)).
Proof.
  intros Ha Hr. unfold parse_prefix, cur_t, cur. rewrite Hr.
  destruct a as [lit|lit|[]|n]; simpl in *.
  - unfold parse_literal, cur. rewrite Hr. simpl. rewrite Ha. reflexivity.
  - unfold parse_literal, cur. rewrite Hr. reflexivity.
  - unfold parse_literal, cur. rewrite Hr. reflexivity.
  - unfold parse_literal, cur. rewrite Hr. reflexivity.
  - destruct Ha as (H1 & H2 & H3).
    unfold parse_ident_expr, cur. rewrite Hr. simpl. rewrite H3.
    unfold lookup_var, cur. rewrite Hr. simpl. rewrite H1, H2. reflexivity.
Qed.

Lemma prefix_un E pe f st o r :
  rest st = mk (unop_tok o) :: r -> parse_prefix E pe f st = parse_unary E pe st.
Proof. intro Hr. unfold parse_prefix, cur_t, cur. rewrite Hr. destruct o; reflexivity. Qed.

Lemma prefix_group E pe f st r :
  rest st = mk T_LPAREN :: r -> parse_prefix E pe f st = parse_grouped E pe f st.
Proof. intro Hr. unfold parse_prefix, cur_t, cur. rewrite Hr. reflexivity. Qed.

Lemma first_tok_not_call E e :
  atoms_ok E e -> ttype (first_tok e) = T_IDENT -> func_of E (tlit (first_tok e)) = None.
Proof.
  induction e as [a ws|w1 e w2 IH|o e IH|o a ws b IHa IHb|e w1 i w2 IHe IHi|e w1 s w2 t w3 IHe IHs IHt|e k w IHe|e w1 t w2 w3 IHe|w1 f args wz w2 IHargs|w1 args wz w2 IHargs|w1 pairs wz w2 IHpairs]
    using lexp_ind'; simpl; intros Ha Ht; try (apply IHe; tauto).
  - destruct a as [| |[]|n]; try discriminate Ht. simpl. apply Ha.
  - discriminate Ht.
  - destruct o; discriminate Ht.
  - apply IHa; tauto.
  - discriminate Ht.
  - discriminate Ht.
  - discriminate Ht.
Qed.

Lemma toplevel_is_expr E pe f st e r :
  atoms_ok E e -> rest st = render e ++ r -> parse_toplevel E pe f st = pe lowestPrec st.
Proof.
  intros Ha Hr. destruct (render_first e) as [x Hx]. rewrite Hx in Hr. simpl in Hr.
  unfold parse_toplevel, cur_t, cur. rewrite Hr. simpl.
  destruct (ttype (first_tok e)) eqn:T; try reflexivity.
  rewrite (first_tok_not_call E e Ha T). reflexivity.
Qed.

Lemma atoms_ok_ws E a ws : atoms_ok E (LAtom a ws) -> atoms_ok E (LAtom a false).
Proof. destruct a; auto. Qed.

Lemma not_colon_branch {A} (t : toktype) (x y : A) :
  t <> T_COLON -> match t with T_COLON => x | _ => y end = y.
Proof. destruct t; congruence. Qed.
Lemma not_rbracket_branch {A} (t : toktype) (x y : A) :
  t <> T_RBRACKET -> match t with T_RBRACKET => x | _ => y end = y.
Proof. destruct t; congruence. Qed.

Lemma cur_t_first l st r : rest st = render l ++ r -> cur_t st = ttype (first_tok l).
Proof. intro H. destruct (render_first l) as [x Hx]. rewrite Hx in H. unfold cur_t, cur. rewrite H. reflexivity. Qed.

Lemma first_not_colon l : ttype (first_tok l) <> T_COLON.
Proof. destruct (first_tok_prefix l) as [H|[H|[H|[H|[H|[H|[H|[H|[H|H]]]]]]]]]; rewrite H; discriminate. Qed.
Lemma first_not_rbracket l : ttype (first_tok l) <> T_RBRACKET.
Proof. destruct (first_tok_prefix l) as [H|[H|[H|[H|[H|[H|[H|[H|[H|H]]]]]]]]]; rewrite H; discriminate. Qed.

(* parseType on the tokens of a type, in the free context of an assertion's parentheses *)
Lemma parse_type_spec t : forall st w rest0 f,
  rest st = render_ty t ++ wsl w ++ rest0 -> is_wss st = false -> is_ws (look0 rest0) = false ->
  ty_size t <= f ->
  parse_type f st = Some (Some t, consume_ty t st).
Proof.
  induction t; intros st w rest0 f Hr Hw Hf Hs; (destruct f as [|f]; [simpl in Hs; lia|]);
    simpl in Hr; cbn [parse_type]; unfold cur_t, cur; rewrite Hr; simpl; try reflexivity.
  - destruct (advance_tok st (mk T_LBRACKET) false (mk T_RBRACKET :: render_ty t ++ wsl w ++ rest0) Hr) as (A & B & C & _); auto.
    unfold cur_t, cur. rewrite A. simpl.
    destruct (advance_tok (advance st) (mk T_RBRACKET) false (render_ty t ++ wsl w ++ rest0) A) as (A2 & B2 & C2 & _); auto.
    { intros _. apply render_ty_head_not_ws. }
    rewrite (IHt (advance (advance st)) w rest0 f A2); auto.
    + rewrite (is_wss_eq _ _ B2), (is_wss_eq _ _ B). exact Hw.
    + simpl in Hs. lia.
  - destruct (advance_tok st (mk T_LCURLY) false (mk T_RCURLY :: render_ty t ++ wsl w ++ rest0) Hr) as (A & B & C & _); auto.
    unfold cur_t, cur. rewrite A. simpl.
    destruct (advance_tok (advance st) (mk T_RCURLY) false (render_ty t ++ wsl w ++ rest0) A) as (A2 & B2 & C2 & _); auto.
    { intros _. apply render_ty_head_not_ws. }
    rewrite (IHt (advance (advance st)) w rest0 f A2); auto.
    + rewrite (is_wss_eq _ _ B2), (is_wss_eq _ _ B). exact Hw.
    + simpl in Hs. lia.
Qed.

(* The general statement: parsing the tokens of l at minimum power p leaves the
   parser in its loop with left = tree_of l, at the state after l's tokens. *)
Definition pratt_stmt (E : env) (l : lexp) : Prop := forall st rest0 p k,
  wl l -> atoms_ok E l -> layout_ok l = true ->
  rest st = render l ++ rest0 ->
  (is_wss st = true -> tight_ok l = true) ->
  (is_wss st = false -> is_ws (look0 rest0) = false) ->
  (e_fix_slice E = false -> ends_with_slice l = true -> is_ws (look0 rest0) = false) ->
  stop_tok (is_wss st) (top_bp l) (look0 rest0) ->
  p_ok p l ->
  need l <= k ->
  parse_expr E (S (spine l + k)) p st = expr_loop E k p (tree_of l) (consume E l st).

(* a complete sub-expression in a free context (inside brackets), followed by a token without binding power *)
Lemma sub_expr E x : pratt_stmt E x ->
  forall st rest0 k,
  wl x -> atoms_ok E x -> layout_ok x = true ->
  rest st = render x ++ rest0 -> is_wss st = false ->
  is_ws (look0 rest0) = false -> precedences (ttype (look0 rest0)) = lowestPrec ->
  S (spine x + Nat.max 1 (need x)) <= k ->
  parse_expr E k lowestPrec st = Some (Some (tree_of x), consume E x st).
Proof.
  intros IH st rest0 k Hw Ha Hl Hr Hs Hn Hb Hk.
  assert (Hex : exists k', k = S (spine x + S k') /\ need x <= S k') by (exists (k - S (spine x) - 1); lia).
  destruct Hex as (k' & -> & Hk').
  rewrite (IH st rest0 lowestPrec (S k')); auto.
  - destruct (consume_spec E x st rest0) as (A & B & C & _); auto.
    { rewrite Hs. discriminate. }
    rewrite expr_loop_stop; [reflexivity|].
    right; right. unfold cur. rewrite A, Hb. apply Nat.le_refl.
  - rewrite Hs. discriminate.
  - rewrite Hs. right; right. rewrite Hb, lowest_zero. lia.
  - apply p_ok_lowest.
Qed.

(* a complete sub-expression in any context, followed by a token that ends it *)
Lemma sub_expr_gen E x : pratt_stmt E x ->
  forall st rest0 k,
  wl x -> atoms_ok E x -> layout_ok x = true ->
  rest st = render x ++ rest0 ->
  (is_wss st = true -> tight_ok x = true) ->
  (is_wss st = false -> is_ws (look0 rest0) = false) ->
  (e_fix_slice E = false -> ends_with_slice x = true -> is_ws (look0 rest0) = false) ->
  stop_tok (is_wss st) lowestPrec (look0 rest0) ->
  S (spine x + Nat.max 1 (need x)) <= k ->
  parse_expr E k lowestPrec st = Some (Some (tree_of x), consume E x st).
Proof.
  intros IH st rest0 k Hw Ha Hl Hr Ht Hf Hg Hstop Hk.
  assert (Hex : exists k', k = S (spine x + S k') /\ need x <= S k') by (exists (k - S (spine x) - 1); lia).
  destruct Hex as (k' & -> & Hk').
  rewrite (IH st rest0 lowestPrec (S k')); auto.
  - destruct (consume_spec E x st rest0) as (A & B & C & _); auto.
    rewrite expr_loop_stop; [reflexivity|].
    unfold cur. rewrite A, (is_wss_eq _ _ B). exact Hstop.
  - eapply stop_tok_mono; [|exact Hstop]. rewrite lowest_zero. lia.
  - apply p_ok_lowest.
Qed.

(* "(" f ... : parseTopLevelExpr takes the call branch *)
Lemma toplevel_call E pe k st f r :
  rest st = ident_tok f :: r -> func_of E f = Some false ->
  parse_toplevel E pe k st = parse_func_call E pe k true false st.
Proof. intros Hr Hf. unfold parse_toplevel, cur_t, cur. rewrite Hr. simpl. rewrite Hf. reflexivity. Qed.

(* parseExprList on the first token of an argument *)
Lemma expr_list_step pe f acc st : prefix_tt (cur_t st) ->
  parse_expr_list pe (S f) acc st =
  match parse_expr_wss pe st with
  | None => None
  | Some (n, st1) =>
      match n with None => ret None st1 | Some t => parse_expr_list pe f (t :: acc) (advance_if_ws st1) end
  end.
Proof.
  intro H. cbn [parse_expr_list]. unfold is_at_eol.
  destruct H as [H|[H|[H|[H|[H|[H|[H|[H|[H|H]]]]]]]]]; rewrite H; reflexivity.
Qed.

(* the token after an argument ends a whitespace-sensitive expression *)
Lemma seq_stop (t : list lexp) wz c r : is_eol (ttype c) = true \/ precedences (ttype c) <= lowestPrec ->
  stop_tok true lowestPrec (look0 (wsl (seq_flag t wz) ++ render_seq render t wz ++ c :: r)).
Proof.
  intro H. destruct t as [|b t]; [destruct wz|]; simpl.
  - left. split; reflexivity.
  - rewrite ?render_seq_nil. right. exact H.
  - left. split; reflexivity.
Qed.

(* the tokens that end an argument list: ")" of a call in parentheses, the end of line of a call statement *)
Definition list_end (c : token) : Prop := ttype c = T_RPAREN \/ is_eol (ttype c) = true.
Lemma list_end_not_ws c : list_end c -> is_ws c = false.
Proof.
  unfold is_ws. intros [H|H]; [rewrite H; reflexivity|]. destruct (ttype c); try discriminate H; reflexivity.
Qed.
Lemma list_end_stop c : list_end c -> is_eol (ttype c) = true \/ precedences (ttype c) <= lowestPrec.
Proof. intros [H|H]; [right; rewrite H, rparen_lowest; apply Nat.le_refl|left; exact H]. Qed.

(* parseExprList on a whitespace-separated list of tight arguments, up to the closing parenthesis / the end of line *)
Lemma expr_list_spec E : no_tyerr E -> forall k args, Forall (pratt_stmt E) args -> forall f st wz c r acc,
  list_end c ->
  allP wl args -> args_ok E (atoms_ok E) wz args ->
  forallb (fun a => layout_ok a && tight_ok a) args = true ->
  rest st = render_seq render args wz ++ c :: r -> is_wss st = false ->
  List.length args < f ->
  max_over (fun a => S (spine a + Nat.max 1 (need a))) args <= k ->
  parse_expr_list (parse_expr E k) f acc st =
    Some (Some (rev acc ++ map tree_of args), consume_args (consume E) args st).
Proof.
  intros NT k args HF. induction HF as [|a t Ha Ht IH]; intros f st wz c r acc Hc Hwl Hat Hl Hr Hs Hf Hk.
  - rewrite render_seq_nil in Hr. simpl in Hr. destruct f as [|f]; [simpl in Hf; lia|].
    rewrite consume_args_nil. change (map tree_of []) with (@nil tree). rewrite app_nil_r.
    cbn [parse_expr_list]. unfold is_at_eol, cur_t, cur. rewrite Hr. cbn [look0 hd].
    destruct Hc as [H|H]; [rewrite H; reflexivity|]. destruct (ttype c); try discriminate H; reflexivity.
  - destruct f as [|f]; [simpl in Hf; lia|].
    rewrite render_seq_cons in Hr. rewrite <- !app_assoc in Hr.
    destruct Hwl as [Hwa Hwt]. destruct Hat as [[Haa Hga] Hat].
    simpl in Hl. apply andb_true_iff in Hl as [Hla Hlt]. apply andb_true_iff in Hla as [Hla Hta].
    rewrite max_over_cons in Hk. apply Nat.max_lub_iff in Hk as [Hka Hkt].
    rewrite expr_list_step by (rewrite (cur_t_first a st _ Hr); apply first_tok_prefix).
    unfold parse_expr_wss.
    set (rest1 := render_seq render t wz ++ c :: r) in *.
    assert (Hn : is_ws (look0 rest1) = false) by (apply render_seq_head_not_ws; exact (list_end_not_ws c Hc)).
    destruct (arg_step E a (consume_spec E a) st (seq_flag t wz) rest1 Hr Hn Hla Hta Hga Haa) as (A0 & B0 & A & B & C).
    rewrite (sub_expr_gen E a Ha (push_wss true st) (wsl (seq_flag t wz) ++ rest1) k Hwa Haa Hla Hr (fun _ => Hta)).
    + unfold ret. rewrite consume_args_cons.
      rewrite (IH f _ wz c r (tree_of a :: acc)); auto.
      * simpl. rewrite <- app_assoc. reflexivity.
      * unfold is_wss. rewrite B. exact Hs.
      * simpl in Hf. lia.
    + intro W. discriminate W.
    + intros F S. rewrite (Hga F S). exact Hn.
    + apply seq_stop. apply list_end_stop. exact Hc.
    + exact Hka.
Qed.

(* ---- array literals ---- *)
Lemma prefix_arr E pe f st r :
  rest st = mk T_LBRACKET :: r -> parse_prefix E pe f st = parse_array_literal E pe f st.
Proof. intro Hr. unfold parse_prefix, parse_literal, cur_t, cur. rewrite Hr. reflexivity. Qed.

Definition nonblank (t : toktype) : Prop := t <> T_NL /\ t <> T_WS /\ t <> T_COMMENT.

Lemma ml_S f st :
  parse_multiline_ws (S f) st =
  match cur_t st with
  | T_NL | T_WS => parse_multiline_ws f (advance_wss st)
  | T_COMMENT => parse_multiline_ws f (advance_wss (snd (assert_token T_NL (advance_wss st))))
  | _ => Some st
  end.
Proof. reflexivity. Qed.

Lemma ml_stop f s : nonblank (cur_t s) -> parse_multiline_ws (S f) s = Some s.
Proof. intros (N1 & N2 & N3). rewrite ml_S. destruct (cur_t s); try reflexivity; congruence. Qed.

(* parseMulitlineWS where at most one whitespace token precedes the next element / the closing bracket *)
Lemma ml_skip_gen n s : 2 <= n -> nonblank (cur_t (advance_if_ws s)) ->
  parse_multiline_ws n s = Some (advance_if_ws s).
Proof.
  intros Hn N. destruct n as [|[|n]]; try lia. revert N. unfold advance_if_ws.
  destruct (is_ws (cur s)) eqn:W; intro N.
  - assert (C : cur_t s = T_WS).
    { unfold is_ws in W. unfold cur_t. destruct (ttype (cur s)); try discriminate W. reflexivity. }
    rewrite ml_S, C. apply ml_stop. exact N.
  - apply ml_stop. exact N.
Qed.

Lemma seq_head_nonblank (t : list lexp) wz r :
  nonblank (ttype (look0 (render_seq render t wz ++ mk T_RBRACKET :: r))).
Proof.
  destruct t as [|a t].
  - rewrite render_seq_nil. simpl. repeat split; discriminate.
  - rewrite render_seq_cons, <- app_assoc. destruct (render_first a) as [x ->]. simpl.
    destruct (first_tok_prefix a) as [H|[H|[H|[H|[H|[H|[H|[H|[H|H]]]]]]]]]; rewrite H; repeat split; discriminate.
Qed.

Lemma array_elems_step E pe f acc st : prefix_tt (cur_t st) ->
  parse_array_elems E pe (S f) acc st =
  match parse_expr_wss pe st with
  | None => None
  | Some (n, st1) =>
      match n with
      | None => ret None st1
      | Some t =>
          if tyerr E TS_array_elem_none t (here st) then ret None (add_err_at (E_type TS_array_elem_none) (here st) st1) else
          match parse_multiline_ws (S f) st1 with
          | None => None
          | Some st2 => parse_array_elems E pe f (t :: acc) st2
          end
      end
  end.
Proof.
  intro H. cbn [parse_array_elems].
  destruct H as [H|[H|[H|[H|[H|[H|[H|[H|[H|H]]]]]]]]]; rewrite H; reflexivity.
Qed.

Lemma seq_stop_rbracket (t : list lexp) wz r :
  stop_tok true lowestPrec (look0 (wsl (seq_flag t wz) ++ render_seq render t wz ++ mk T_RBRACKET :: r)).
Proof. apply seq_stop. right. change (precedences T_RBRACKET <= lowestPrec). rewrite rbracket_lowest. apply Nat.le_refl. Qed.

(* the element loop of parseArrayLiteral on a whitespace-separated list of tight elements *)
Lemma array_elems_spec E : no_tyerr E -> forall k args, Forall (pratt_stmt E) args -> forall f st wz r acc,
  allP wl args -> args_ok E (atoms_ok E) wz args ->
  forallb (fun a => layout_ok a && tight_ok a) args = true ->
  rest st = render_seq render args wz ++ mk T_RBRACKET :: r ->
  S (List.length args) < f ->
  max_over (fun a => S (spine a + Nat.max 1 (need a))) args <= k ->
  parse_array_elems E (parse_expr E k) f acc st =
    Some (Some (rev acc ++ map tree_of args), consume_args (consume E) args st).
Proof.
  intros NT k args HF. induction HF as [|a t Ha Ht IH]; intros f st wz r acc Hwl Hat Hl Hr Hf Hk.
  - rewrite render_seq_nil in Hr. simpl in Hr. destruct f as [|f]; [simpl in Hf; lia|].
    rewrite consume_args_nil. cbn [parse_array_elems]. unfold cur_t, cur. rewrite Hr. simpl.
    rewrite app_nil_r. reflexivity.
  - destruct f as [|f]; [simpl in Hf; lia|].
    rewrite render_seq_cons in Hr. rewrite <- !app_assoc in Hr.
    destruct Hwl as [Hwa Hwt]. destruct Hat as [[Haa Hga] Hat].
    simpl in Hl. apply andb_true_iff in Hl as [Hla Hlt]. apply andb_true_iff in Hla as [Hla Hta].
    rewrite max_over_cons in Hk. apply Nat.max_lub_iff in Hk as [Hka Hkt].
    rewrite array_elems_step by (rewrite (cur_t_first a st _ Hr); apply first_tok_prefix).
    unfold parse_expr_wss.
    set (rest1 := render_seq render t wz ++ mk T_RBRACKET :: r) in *.
    assert (Hn : is_ws (look0 rest1) = false) by (apply render_seq_head_not_ws; reflexivity).
    destruct (arg_step E a (consume_spec E a) st (seq_flag t wz) rest1 Hr Hn Hla Hta Hga Haa) as (A0 & B0 & A & B & C).
    rewrite (sub_expr_gen E a Ha (push_wss true st) (wsl (seq_flag t wz) ++ rest1) k Hwa Haa Hla Hr (fun _ => Hta)).
    + unfold ret. rewrite (tyerr_false E) by exact NT. rewrite consume_args_cons.
      rewrite (ml_skip_gen (S f) (pop_wss (consume E a (push_wss true st)))).
      * rewrite (IH f _ wz r (tree_of a :: acc)); auto.
        -- simpl. rewrite <- app_assoc. reflexivity.
        -- simpl in Hf. lia.
      * simpl in Hf. lia.
      * unfold cur_t, cur. rewrite A. apply seq_head_nonblank.
    + intro W. discriminate W.
    + intros F S. rewrite (Hga F S). exact Hn.
    + apply seq_stop_rbracket.
    + exact Hka.
Qed.

(* ---- map literals ---- *)
Lemma prefix_map E pe f st r :
  rest st = mk T_LCURLY :: r -> parse_prefix E pe f st = parse_map_literal E pe f st.
Proof. intro Hr. unfold parse_prefix, parse_literal, cur_t, cur. rewrite Hr. reflexivity. Qed.

Lemma has_key_keys k acc : has_key k acc = existsb (fun k' => str_eqb k' k) (map fst acc).
Proof. induction acc as [|[k' t] acc IH]; simpl; [reflexivity|]. rewrite IH. reflexivity. Qed.

Lemma map_pairs_step E pe f acc st k r :
  rest st = ident_tok k :: mk T_COLON :: r -> has_key k acc = false ->
  parse_map_pairs E pe (S f) acc st =
  match parse_expr_wss pe (advance (advance st)) with
  | None => None
  | Some (n, st4) =>
      match n with
      | None => ret None st4
      | Some t =>
          if tyerr E TS_map_value_none t (here (advance (advance st)))
          then ret None (add_err_at (E_type TS_map_value_none) (here (advance (advance st))) st4) else
          match parse_multiline_ws (S f) st4 with
          | None => None
          | Some st5 => parse_map_pairs E pe f ((k, t) :: acc) st5
          end
      end
  end.
Proof.
  intros Hr Hk. cbn [parse_map_pairs].
  assert (C : cur st = ident_tok k) by (unfold cur; rewrite Hr; reflexivity).
  unfold cur_t. rewrite C. change (as_ident (ident_tok k)) with (ident_tok k). cbn [ident_tok ttype tlit]. rewrite Hk.
  destruct (advance_tok st (ident_tok k) false (mk T_COLON :: r) Hr) as (A & _); auto.
  unfold assert_token, cur_t, cur. rewrite A. reflexivity.
Qed.

Lemma pairs_head_nonblank (t : list (str * bool * lexp)) wz r :
  nonblank (ttype (look0 (render_pairs render t wz ++ mk T_RCURLY :: r))).
Proof.
  destruct t as [|[[k wc] v] t]; [rewrite render_pairs_nil|rewrite render_pairs_cons]; simpl; repeat split; discriminate.
Qed.

Lemma pairs_stop (t : list (str * bool * lexp)) wz r :
  stop_tok true lowestPrec (look0 (wsl (seq_flag t wz) ++ render_pairs render t wz ++ mk T_RCURLY :: r)).
Proof.
  destruct t as [|[[k wc] v] t]; [destruct wz|]; simpl.
  - left. split; reflexivity.
  - rewrite ?render_pairs_nil. right; right. change (precedences T_RCURLY <= lowestPrec). rewrite rcurly_lowest. apply Nat.le_refl.
  - left. split; reflexivity.
Qed.

(* parseMapPairs on a whitespace-separated list of key:value pairs with tight values and distinct keys *)
Lemma map_pairs_spec E : no_tyerr E -> forall k ps, Forall (fun p => pratt_stmt E (snd p)) ps -> forall f st wz r acc,
  allP (fun p => wl (snd p)) ps -> pairs_ok E (atoms_ok E) wz ps ->
  keys_fresh (map fst acc) (map pair_key ps) ->
  forallb (fun p => layout_ok (snd p) && tight_ok (snd p)) ps = true ->
  rest st = render_pairs render ps wz ++ mk T_RCURLY :: r -> is_wss st = false ->
  S (List.length ps) < f ->
  max_over (fun p => S (spine (snd p) + Nat.max 1 (need (snd p)))) ps <= k ->
  parse_map_pairs E (parse_expr E k) f acc st =
    Some (Some (rev acc ++ map (fun p => match p with (k, _, v) => (k, tree_of v) end) ps), consume_pairs (consume E) ps st).
Proof.
  intros NT k ps HF. induction HF as [|[[key wc] v] t Hv Ht IH]; intros f st wz r acc Hwl Hat Hfr Hl Hr Hs Hf Hk.
  - rewrite render_pairs_nil in Hr. simpl in Hr. destruct f as [|f]; [simpl in Hf; lia|].
    rewrite consume_pairs_nil. cbn [parse_map_pairs]. unfold cur_t, cur. rewrite Hr. simpl.
    rewrite app_nil_r. reflexivity.
  - destruct f as [|f]; [simpl in Hf; lia|].
    rewrite render_pairs_cons in Hr. norm_app Hr. cbn [snd] in Hv.
    destruct Hwl as [Hwa Hwt]. destruct Hat as [[Haa Hga] Hat]. cbn [snd] in Hwa, Haa, Hga.
    simpl in Hfr. destruct Hfr as [Hfk Hfr].
    simpl in Hl. apply andb_true_iff in Hl as [Hla Hlt]. apply andb_true_iff in Hla as [Hla Hta].
    rewrite max_over_cons in Hk. cbn [snd] in Hk. apply Nat.max_lub_iff in Hk as [Hka Hkt].
    rewrite (map_pairs_step E _ f acc st key _ Hr) by (rewrite has_key_keys; exact Hfk).
    set (rest1 := render_pairs render t wz ++ mk T_RCURLY :: r) in *.
    assert (Hn : is_ws (look0 rest1) = false) by (apply render_pairs_head_not_ws; reflexivity).
    destruct (pair_step E v (consume_spec E v) st key wc (seq_flag t wz) rest1 Hr Hs Hn Hla Hta Hga Haa) as (A0 & _ & A & B & C).
    unfold parse_expr_wss.
    rewrite (sub_expr_gen E v Hv (push_wss true (advance (advance st))) (wsl (seq_flag t wz) ++ rest1) k Hwa Haa Hla A0 (fun _ => Hta)).
    + unfold ret. rewrite (tyerr_false E) by exact NT. rewrite consume_pairs_cons. cbn [snd].
      rewrite (ml_skip_gen (S f) (pop_wss (consume E v (push_wss true (advance (advance st)))))).
      * rewrite (IH f _ wz r ((key, tree_of v) :: acc)); auto.
        -- simpl. rewrite <- app_assoc. reflexivity.
        -- unfold is_wss. rewrite B. exact Hs.
        -- simpl in Hf. lia.
      * simpl in Hf. lia.
      * unfold cur_t, cur. rewrite A. apply pairs_head_nonblank.
    + intro W. discriminate W.
    + intros F S. rewrite (Hga F S). exact Hn.
    + apply pairs_stop.
    + exact Hka.
Qed.

(* parseSlice after the colon *)
Lemma parse_slice_spec E t : no_tyerr E -> optP (pratt_stmt E) t ->
  forall st w3 rest0 k tok left start,
  (match t with Some y => wl y /\ atoms_ok E y /\ layout_ok y = true | None => True end) ->
  rest st = (match t with Some y => render y | None => [] end) ++ mk T_RBRACKET :: wsl w3 ++ rest0 ->
  is_wss st = false ->
  (match t with Some y => S (spine y + Nat.max 1 (need y)) | None => 0 end) <= k ->
  parse_slice E (parse_expr E k) k tok left start st =
    Some (Some (TSlice left start (match t with Some y => Some (tree_of y) | None => None end)),
          slice_close E (match t with Some y => consume E y st | None => st end)).
Proof.
  intros NT IH st w3 rest0 k tok left start Ht Hr Hs Hk. unfold parse_slice. repeat (rewrite (tyerr_false E) by exact NT). destruct t as [y|].
  - destruct Ht as (Hw & Ha & Hl). simpl in IH.
    rewrite not_rbracket_branch by (rewrite (cur_t_first y st _ Hr); apply first_not_rbracket).
    rewrite (toplevel_is_expr E _ _ st y _ Ha Hr).
    rewrite (sub_expr E y IH st (mk T_RBRACKET :: wsl w3 ++ rest0) k); auto.
    destruct (consume_spec E y st (mk T_RBRACKET :: wsl w3 ++ rest0)) as (A & _); auto.
    { rewrite Hs. discriminate. }
    unfold assert_token, cur_t, cur. rewrite A. simpl. repeat (rewrite (tyerr_false E) by exact NT). reflexivity.
  - simpl in Hr. unfold cur_t, cur. rewrite Hr. simpl. repeat (rewrite (tyerr_false E) by exact NT). reflexivity.
Qed.

Lemma pratt_general E : no_tyerr E -> forall l, pratt_stmt E l.
Proof.
  intro NT.
  induction l as [a ws|w1 e w2 IH|o e IH|o a ws b IHa IHb|e w1 i w2 IHe IHi|e w1 s w2 t w3 IHe IHs IHt|e k0 w IHe|e w1 t w2 w3 IHe|w1 f args wz w2 IHargs|w1 args wz w2 IHargs|w1 pairs wz w2 IHpairs]
    using lexp_ind'; intros st rest0 p k Hwl Hat Hl Hr Ht Hf Hg Hstop Hp Hk.
  - (* atom *)
    simpl spine. simpl plus. rewrite parse_expr_S.
    simpl in Hr. rewrite (prefix_atom E _ _ st a _ (atoms_ok_ws _ _ _ Hat) Hr). reflexivity.
  - (* group *)
    simpl spine. simpl plus. rewrite parse_expr_S.
    simpl in Hr. rewrite (prefix_group E _ _ st _ Hr). unfold parse_grouped.
    set (st0 := push_wss false st).
    assert (Hr0 : rest st0 = mk T_LPAREN :: wsl w1 ++ (render e ++ mk T_RPAREN :: wsl w2 ++ rest0)).
    { unfold st0; simpl. rewrite Hr. rewrite <- !app_assoc. reflexivity. }
    destruct (advance_tok st0 _ _ _ Hr0) as (A1 & B1 & C1 & _).
    { intro W; discriminate W. } { intros _. apply render_head_not_ws. }
    set (st1 := advance st0) in *.
    assert (W1 : is_wss st1 = false) by (apply (is_wss_pushed st _ false B1)).
    simpl in Hwl, Hat, Hl. cbn [need] in Hk.
    assert (Hex : exists k', k = S (spine e + S k') /\ need e <= S k') by (exists (k - S (spine e) - 1); lia).
    destruct Hex as (k' & -> & Hk').
    rewrite (toplevel_is_expr E _ _ st1 e _ Hat A1).
    rewrite (IH st1 (mk T_RPAREN :: wsl w2 ++ rest0) lowestPrec (S k')); auto.
    + destruct (consume_spec E e st1 (mk T_RPAREN :: wsl w2 ++ rest0)) as (A2 & B2 & C2 & _); auto.
      { rewrite W1. discriminate. }
      set (st2 := consume E e st1) in *.
      rewrite expr_loop_stop.
      2:{ right; right. unfold cur. rewrite A2. simpl. rewrite rparen_lowest. lia. }
      unfold assert_token, cur_t, cur. rewrite A2. simpl. reflexivity.
    + rewrite W1. discriminate.
    + rewrite W1. right; right. simpl. rewrite rparen_lowest, lowest_zero. lia.
    + apply p_ok_lowest.
  - (* unary *)
    simpl spine. simpl plus. rewrite parse_expr_S.
    simpl in Hr. rewrite (prefix_un E _ _ st o _ Hr). unfold parse_unary.
    destruct (advance_tok st (mk (unop_tok o)) false (render e ++ rest0)) as (A1 & B1 & C1 & D1 & _); auto.
    { intros _. apply render_head_not_ws. }
    set (st1 := advance st) in *.
    assert (W1 : is_wss st1 = is_wss st) by (apply is_wss_eq; exact B1).
    rewrite D1. replace (is_ws (mk (unop_tok o))) with false by (destruct o; reflexivity).
    simpl in Hwl, Hat, Hstop, Ht, Hl, Hg. cbn [need] in Hk. destruct Hwl as [Hwl Hrk].
    destruct (unary_le_top_bp e Hrk) as [Hle Hpe].
    assert (Hex : exists k', k = S (spine e + S k') /\ need e <= S k') by (exists (k - S (spine e) - 1); lia).
    destruct Hex as (k' & -> & Hk').
    rewrite (IH st1 rest0 unary_operand_prec (S k')); auto.
    + destruct (consume_spec E e st1 rest0) as (A2 & B2 & C2 & _); auto.
      { rewrite W1. exact Ht. } { rewrite W1. exact Hf. }
      set (st2 := consume E e st1) in *.
      rewrite expr_loop_stop.
      2:{ unfold cur. rewrite A2. rewrite (is_wss_eq _ _ B2), W1. exact Hstop. }
      replace (cur_t st) with (unop_tok o) by (unfold cur_t, cur; rewrite Hr; reflexivity).
      repeat (rewrite (tyerr_false E) by exact NT). reflexivity.
    + rewrite W1. exact Ht.
    + rewrite W1. exact Hf.
    + rewrite W1. eapply stop_tok_mono; [exact Hle|exact Hstop].
  - (* binary *)
    simpl in Hwl, Hat, Hstop, Hp, Ht, Hr, Hl, Hg. cbn [need] in Hk.
    destruct Hwl as (Hwa & Hwb & Hra & Hrb). destruct Hat as [Haa Hab]. apply andb_true_iff in Hl as [Hla Hlb].
    assert (Hex : exists k', k = S (spine b + S k') /\ need b <= S k' /\ need a <= S (S (spine b + S k')))
      by (exists (k - S (spine b) - 1); lia).
    destruct Hex as (k' & -> & Hkb & Hka).
    rewrite app_cons_assoc, <- app_assoc in Hr.
    assert (Hta : is_wss st = true -> tight_ok a = true).
    { intro W. specialize (Ht W). apply andb_true_iff in Ht as [Ht _]. apply andb_true_iff in Ht as [_ Ht]. exact Ht. }
    assert (Htb : is_wss st = true -> tight_ok b = true).
    { intro W. specialize (Ht W). apply andb_true_iff in Ht as [_ Ht]. exact Ht. }
    assert (Htw : is_wss st = true -> ws = false).
    { intro W. specialize (Ht W). apply andb_true_iff in Ht as [Ht _]. apply andb_true_iff in Ht as [Ht _].
      destruct ws; [discriminate|reflexivity]. }
    assert (Hop : is_ws (look0 (mk (binop_tok o) :: wsl ws ++ render b ++ rest0)) = false) by (destruct o; reflexivity).
    simpl spine.
    replace (S (S (spine a) + S (spine b + S k'))) with (S (spine a + S (S (spine b + S k')))) by lia.
    rewrite (IHa st (mk (binop_tok o) :: wsl ws ++ render b ++ rest0) p (S (S (spine b + S k')))); auto.
    2:{ right; right. simpl. apply rank_le_top_bp. exact Hra. }
    2:{ eapply p_ok_left; eauto. }
    destruct (consume_spec E a st (mk (binop_tok o) :: wsl ws ++ render b ++ rest0)) as (A1 & B1 & C1 & _); auto.
    set (sa := consume E a st) in *.
    assert (Wa : is_wss sa = is_wss st) by (apply is_wss_eq; exact B1).
    assert (Ca : cur sa = mk (binop_tok o)) by (unfold cur; rewrite A1; reflexivity).
    rewrite (expr_loop_turn E _ p _ sa (binop_tok o) Ca); [|destruct o; reflexivity|destruct o; reflexivity|exact Hp].
    unfold parse_infix, cur_t. rewrite Ca. simpl ttype. rewrite binop_tok_is_binary.
    unfold parse_binary, cur_t. rewrite Ca. simpl ttype. fold (bp o). rewrite binary_operand_prec_id.
    destruct (advance_tok sa _ _ _ A1) as (A2 & B2 & C2 & _).
    { rewrite Wa. exact Htw. } { intros _. apply render_head_not_ws. }
    set (s1 := advance sa) in *.
    assert (W1 : is_wss s1 = is_wss st) by (rewrite (is_wss_eq _ _ B2); exact Wa).
    rewrite (IHb s1 rest0 (bp o) (S k')); auto.
    + destruct (consume_spec E b s1 rest0) as (A3 & B3 & C3 & _); auto.
      { rewrite W1. exact Htb. } { rewrite W1. exact Hf. }
      set (sb := consume E b s1) in *.
      rewrite expr_loop_stop.
      2:{ unfold cur. rewrite A3. rewrite (is_wss_eq _ _ B3), W1. exact Hstop. }
      repeat (rewrite (tyerr_false E) by exact NT). reflexivity.
    + rewrite W1. exact Htb.
    + rewrite W1. exact Hf.
    + rewrite W1. eapply stop_tok_mono; [|exact Hstop]. apply rank_le_top_bp. lia.
    + apply rank_lt_p_ok. exact Hrb.
  - (* index *)
    simpl in Hwl, Hat, Hstop, Hp, Hr, Hl, Hg. cbn [need] in Hk. norm_app Hr.
    destruct Hwl as (Hwe & Hwi & Hre). destruct Hat as [Hae Hai].
    apply andb_true_iff in Hl as [Hl Hli]. apply andb_true_iff in Hl as [Hlw Hle].
    destruct (primary_top e p Hre) as [Htop Hpe].
    assert (Hex : exists k', k = S (spine i + S k') /\ need i <= S k' /\ need e <= S (S (spine i + S k')))
      by (exists (k - S (spine i) - 1); lia).
    destruct Hex as (k' & -> & Hki & Hke).
    assert (Hte : is_wss st = true -> tight_ok e = true).
    { intro W. specialize (Ht W). simpl in Ht. apply andb_true_iff in Ht as [_ Ht]. exact Ht. }
    set (re := mk T_LBRACKET :: wsl w1 ++ render i ++ mk T_RBRACKET :: wsl w2 ++ rest0) in *.
    simpl spine.
    replace (S (S (spine e) + S (spine i + S k'))) with (S (spine e + S (S (spine i + S k')))) by lia.
    rewrite (IHe st re p (S (S (spine i + S k')))); auto.
    2:{ right; right. rewrite Htop. apply Nat.le_refl. }
    destruct (consume_spec E e st re) as (A1 & B1 & C1 & D1 & _); auto.
    set (se := consume E e st) in *.
    assert (Ce : cur se = mk T_LBRACKET) by (unfold cur; rewrite A1; reflexivity).
    rewrite (expr_loop_turn E _ p _ se T_LBRACKET Ce); [|reflexivity|reflexivity|exact Hp].
    unfold parse_infix, cur_t. rewrite Ce. simpl.
    unfold parse_index_or_slice.
    set (s0 := push_wss false se).
    assert (Pv : is_ws (prev s0) = false).
    { simpl. apply D1. destruct (last_ws e); [discriminate|reflexivity]. }
    rewrite Pv.
    assert (Hr0 : rest s0 = mk T_LBRACKET :: wsl w1 ++ (render i ++ mk T_RBRACKET :: wsl w2 ++ rest0)) by exact A1.
    destruct (advance_tok s0 _ _ _ Hr0) as (A2 & B2 & C2 & _).
    { intro W; discriminate W. } { intros _. apply render_head_not_ws. }
    set (s1 := advance s0) in *.
    assert (W1 : is_wss s1 = false) by (apply (is_wss_pushed se _ false B2)).
    repeat (rewrite (tyerr_false E) by exact NT).
    rewrite not_colon_branch by (rewrite (cur_t_first i s1 _ A2); apply first_not_colon).
    cbn [andb].
    rewrite (toplevel_is_expr E _ _ s1 i _ Hai A2).
    rewrite (IHi s1 (mk T_RBRACKET :: wsl w2 ++ rest0) lowestPrec (S k')); auto.
    + destruct (consume_spec E i s1 (mk T_RBRACKET :: wsl w2 ++ rest0)) as (A3 & B3 & C3 & _); auto.
      { rewrite W1. discriminate. }
      set (si := consume E i s1) in *.
      rewrite expr_loop_stop.
      2:{ right; right. unfold cur. rewrite A3. simpl. rewrite rbracket_lowest. lia. }
      unfold assert_token, cur_t, cur. rewrite A3. simpl. repeat (rewrite (tyerr_false E) by exact NT). reflexivity.
    + rewrite W1. discriminate.
    + rewrite W1. right; right. simpl. rewrite rbracket_lowest, lowest_zero. lia.
    + apply p_ok_lowest.
  - (* slice *)
    simpl in Hwl, Hat, Hstop, Hp, Hr, Hl. cbn [need] in Hk. norm_app Hr.
    destruct Hwl as (Hwe & Hws & Hwt & Hre). destruct Hat as (Hae & Has & Hat').
    apply andb_true_iff in Hl as [Hl Hlt]. apply andb_true_iff in Hl as [Hl Hls]. apply andb_true_iff in Hl as [Hlw Hle].
    destruct (primary_top e p Hre) as [Htop Hpe].
    assert (Hte : is_wss st = true -> tight_ok e = true).
    { intro W. specialize (Ht W). simpl in Ht. apply andb_true_iff in Ht as [_ Ht]. exact Ht. }
    set (rt := (match t with Some x => render x | None => [] end) ++ mk T_RBRACKET :: wsl w3 ++ rest0) in *.
    set (rs := (match s with Some x => render x | None => [] end) ++ mk T_COLON :: wsl w2 ++ rt) in *.
    set (re := mk T_LBRACKET :: wsl w1 ++ rs) in *.
    assert (Hrs : is_ws (look0 rs) = false).
    { unfold rs. destruct s; [apply render_head_not_ws|reflexivity]. }
    assert (Hrt : is_ws (look0 rt) = false).
    { unfold rt. destruct t; [apply render_head_not_ws|reflexivity]. }
    simpl spine.
    replace (S (S (spine e) + k)) with (S (spine e + S k)) by lia.
    rewrite (IHe st re p (S k)); auto; [|right; right; rewrite Htop; apply Nat.le_refl|lia].
    destruct (consume_spec E e st re) as (A1 & B1 & C1 & D1 & _); auto.
    set (se := consume E e st) in *.
    assert (Ce : cur se = mk T_LBRACKET) by (unfold cur; rewrite A1; reflexivity).
    rewrite (expr_loop_turn E _ p _ se T_LBRACKET Ce); [|reflexivity|reflexivity|exact Hp].
    unfold parse_infix, cur_t. rewrite Ce. simpl.
    unfold parse_index_or_slice.
    set (s0 := push_wss false se).
    assert (Pv : is_ws (prev s0) = false).
    { simpl. apply D1. destruct (last_ws e); [discriminate|reflexivity]. }
    rewrite Pv.
    assert (Hr0 : rest s0 = mk T_LBRACKET :: wsl w1 ++ rs) by exact A1.
    destruct (advance_tok s0 _ _ _ Hr0) as (A2 & B2 & C2 & _).
    { intro W; discriminate W. } { intros _. exact Hrs. }
    set (s1 := advance s0) in *.
    assert (W1 : is_wss s1 = false) by (apply (is_wss_pushed se _ false B2)).
    repeat (rewrite (tyerr_false E) by exact NT).
    destruct s as [x|].
    + (* start index present *)
      simpl in IHs. unfold rs in A2.
      rewrite not_colon_branch by (rewrite (cur_t_first x s1 _ A2); apply first_not_colon).
      cbn [andb].
      rewrite (toplevel_is_expr E _ _ s1 x _ Has A2).
      rewrite (sub_expr E x IHs s1 (mk T_COLON :: wsl w2 ++ rt) k); auto; [|lia].
      destruct (consume_spec E x s1 (mk T_COLON :: wsl w2 ++ rt)) as (A3 & B3 & C3 & _); auto.
      { rewrite W1. discriminate. }
      set (s2 := consume E x s1) in *.
      unfold cur_t at 1, cur at 1. rewrite A3. simpl.
      destruct (advance_tok s2 _ _ _ A3) as (A4 & B4 & C4 & _).
      { rewrite (is_wss_eq _ _ B3), W1. discriminate. } { intros _. exact Hrt. }
      rewrite (parse_slice_spec E t NT IHt (advance s2) w3 rest0 k); auto.
      * destruct t; auto.
      * rewrite (is_wss_eq _ _ B4), (is_wss_eq _ _ B3). exact W1.
      * destruct t; lia.
    + (* no start index *)
      unfold rs in A2. simpl in A2.
      unfold cur_t at 1, cur at 1. rewrite A2. simpl.
      destruct (advance_tok s1 _ _ _ A2) as (A4 & B4 & C4 & _).
      { rewrite W1. discriminate. } { intros _. exact Hrt. }
      rewrite (parse_slice_spec E t NT IHt (advance s1) w3 rest0 k); auto.
      * destruct t; auto.
      * rewrite (is_wss_eq _ _ B4). exact W1.
      * destruct t; lia.
  - (* dot *)
    simpl in Hwl, Hat, Hstop, Hp, Hr, Hl, Hg. cbn [need] in Hk. norm_app Hr.
    destruct Hwl as (Hwe & Hre).
    apply andb_true_iff in Hl as [Hlw Hle].
    destruct (primary_top e p Hre) as [Htop Hpe].
    assert (Hte : is_wss st = true -> tight_ok e = true).
    { intro W. specialize (Ht W). simpl in Ht. apply andb_true_iff in Ht as [_ Ht]. exact Ht. }
    assert (Htw : is_wss st = true -> w = false).
    { intro W. specialize (Ht W). simpl in Ht. apply andb_true_iff in Ht as [Ht _]. destruct w; [discriminate|reflexivity]. }
    set (re := mk T_DOT :: ident_tok k0 :: wsl w ++ rest0) in *.
    simpl spine.
    replace (S (S (spine e) + k)) with (S (spine e + S k)) by lia.
    rewrite (IHe st re p (S k)); auto.
    2:{ right; right. rewrite Htop. simpl. rewrite dot_index. apply Nat.le_refl. }
    destruct (consume_spec E e st re) as (A1 & B1 & C1 & D1 & P1); auto.
    set (se := consume E e st) in *.
    assert (Ce : cur se = mk T_DOT) by (unfold cur; rewrite A1; reflexivity).
    rewrite (expr_loop_turn E _ p _ se T_DOT Ce); [|reflexivity|reflexivity|rewrite dot_index; exact Hp].
    unfold parse_infix, cur_t. rewrite Ce. simpl.
    rewrite (P1 eq_refl). simpl.
    unfold parse_dot.
    replace (is_ws (prev se)) with false by (symmetry; apply D1; destruct (last_ws e); [discriminate|reflexivity]).
    rewrite A1. simpl. repeat (rewrite (tyerr_false E) by exact NT).
    destruct (advance_tok se (mk T_DOT) false (ident_tok k0 :: wsl w ++ rest0)) as (A2 & B2 & C2 & _); auto.
    unfold cur. rewrite A2. simpl. reflexivity.
  - (* type assertion *)
    simpl in Hwl, Hat, Hstop, Hp, Hr, Hl, Hg. cbn [need] in Hk. norm_app Hr.
    destruct Hwl as (Hwe & Hre). destruct Hat as [Hae Hany].
    apply andb_true_iff in Hl as [Hlw Hle].
    destruct (primary_top e p Hre) as [Htop Hpe].
    assert (Hte : is_wss st = true -> tight_ok e = true).
    { intro W. specialize (Ht W). simpl in Ht. apply andb_true_iff in Ht as [_ Ht]. exact Ht. }
    set (r2 := mk T_RPAREN :: wsl w3 ++ rest0) in *.
    set (re := mk T_DOT :: mk T_LPAREN :: wsl w1 ++ render_ty t ++ wsl w2 ++ r2) in *.
    simpl spine.
    replace (S (S (spine e) + k)) with (S (spine e + S k)) by lia.
    rewrite (IHe st re p (S k)); auto; [|right; right; rewrite Htop; simpl; rewrite dot_index; apply Nat.le_refl|lia].
    destruct (consume_spec E e st re) as (A1 & B1 & C1 & D1 & P1); auto.
    set (se := consume E e st) in *.
    assert (Ce : cur se = mk T_DOT) by (unfold cur; rewrite A1; reflexivity).
    rewrite (expr_loop_turn E _ p _ se T_DOT Ce); [|reflexivity|reflexivity|rewrite dot_index; exact Hp].
    unfold parse_infix, cur_t. rewrite Ce. simpl.
    rewrite (P1 eq_refl). simpl.
    unfold parse_type_assertion.
    replace (is_ws (prev se)) with false by (symmetry; apply D1; destruct (last_ws e); [discriminate|reflexivity]).
    rewrite A1. simpl.
    set (s0 := push_wss false se).
    destruct (advance_tok s0 (mk T_DOT) false (mk T_LPAREN :: wsl w1 ++ render_ty t ++ wsl w2 ++ r2)) as (A2 & B2 & C2 & _); auto.
    set (s1 := advance s0) in *.
    assert (W1 : is_wss s1 = false) by (apply (is_wss_pushed se _ false B2)).
    destruct (advance_tok s1 (mk T_LPAREN) w1 (render_ty t ++ wsl w2 ++ r2)) as (A3 & B3 & C3 & _); auto.
    { rewrite W1. discriminate. } { intros _. apply render_ty_head_not_ws. }
    set (s2 := advance s1) in *.
    assert (W2 : is_wss s2 = false) by (rewrite (is_wss_eq _ _ B3); exact W1).
    rewrite (parse_type_spec t s2 w2 r2 k A3 W2); [|reflexivity|lia].
    destruct (consume_ty_spec t s2 w2 r2 A3 W2) as (A4 & B4 & C4); [reflexivity|].
    set (s3 := consume_ty t s2) in *.
    replace (match t with TyAny => add_err_at E_assert_any (here se) s3 | _ => s3 end) with s3 by (destruct t; congruence).
    unfold assert_token, cur_t, cur. rewrite A4. simpl. repeat (rewrite (tyerr_false E) by exact NT). reflexivity.
  - (* call in parentheses *)
    simpl spine. simpl plus. rewrite parse_expr_S.
    simpl in Hr. norm_app Hr. rewrite (prefix_group E _ _ st _ Hr). unfold parse_grouped.
    set (st0 := push_wss false st).
    set (r2 := wsl w2 ++ rest0) in *.
    set (r1 := render_seq render args wz ++ mk T_RPAREN :: r2) in *.
    assert (Hr0 : rest st0 = mk T_LPAREN :: wsl w1 ++ (ident_tok f :: wsl (seq_flag args wz) ++ r1)) by exact Hr.
    destruct (advance_tok st0 _ _ _ Hr0) as (A1 & B1 & C1 & _).
    { intro W; discriminate W. } { intros _. reflexivity. }
    set (st1 := advance st0) in *.
    assert (W1 : is_wss st1 = false) by (apply (is_wss_pushed st _ false B1)).
    simpl in Hwl, Hat, Hl. cbn [need] in Hk. destruct Hat as (Hfn & Har & Hargs).
    apply Nat.max_lub_iff in Hk as [Hk1 Hk2].
    rewrite (toplevel_call E _ _ st1 f _ A1 Hfn).
    unfold parse_func_call.
    replace (tlit (cur st1)) with f by (unfold cur; rewrite A1; reflexivity).
    cbn [orb negb].
    assert (Hr1h : is_ws (look0 r1) = false) by (unfold r1; apply render_seq_head_not_ws; reflexivity).
    destruct (advance_tok st1 _ _ _ A1) as (A2 & B2 & C2 & _).
    { rewrite W1. discriminate. } { intros _. exact Hr1h. }
    set (st2 := advance st1) in *.
    assert (W2 : is_wss st2 = false) by (rewrite (is_wss_eq _ _ B2); exact W1).
    rewrite (expr_list_spec E NT k args IHargs k st2 wz (mk T_RPAREN) r2 [] (or_introl eq_refl) Hwl Hargs Hl A2 W2 Hk1 Hk2).
    assert (HC : Forall (consume_stmt E) args) by (apply Forall_forall; intros a _; apply consume_spec).
    destruct (consume_args_spec E (atoms_ok E) args HC st2 wz (mk T_RPAREN :: r2) A2) as (A3 & B3 & C3); auto.
    set (st3 := consume_args (consume E) args st2) in *.
    change (rev [] ++ map tree_of args) with (map tree_of args).
    cbv beta iota zeta. rewrite map_length, Har. rewrite (tyerr_false E) by exact NT. unfold ret. cbv beta iota.
    unfold assert_token, cur_t, cur. rewrite A3. simpl. reflexivity.
  - (* array literal *)
    simpl spine. simpl plus. rewrite parse_expr_S.
    simpl in Hr. norm_app Hr. rewrite (prefix_arr E _ _ st _ Hr). unfold parse_array_literal.
    set (r2 := wsl w2 ++ rest0) in *.
    assert (Hh : is_ws (look0 (render_seq render args wz ++ mk T_RBRACKET :: r2)) = false)
      by (apply render_seq_head_not_ws; reflexivity).
    destruct (open_spec st _ _ _ Hr Hh) as (A1 & B1 & C1).
    simpl in Hwl, Hat, Hl. cbn [need] in Hk. apply Nat.max_lub_iff in Hk as [Hk1 Hk2].
    rewrite (ml_skip_gen k (advance st)).
    2:{ lia. }
    2:{ unfold cur_t, cur. rewrite A1. apply seq_head_nonblank. }
    set (st1 := advance_if_ws (advance st)) in *.
    assert (Hk1' : S (List.length args) < k) by lia.
    rewrite (array_elems_spec E NT k args IHargs k st1 wz r2 [] Hwl Hat Hl A1 Hk1' Hk2).
    assert (HC : Forall (consume_stmt E) args) by (apply Forall_forall; intros a _; apply consume_spec).
    destruct (consume_args_spec E (atoms_ok E) args HC st1 wz (mk T_RBRACKET :: r2) A1) as (A2 & B2 & C2); auto.
    set (st2 := consume_args (consume E) args st1) in *.
    change (rev [] ++ map tree_of args) with (map tree_of args).
    cbv beta iota. unfold assert_token, cur_t, cur. rewrite A2. simpl. reflexivity.
  - (* map literal *)
    simpl spine. simpl plus. rewrite parse_expr_S.
    simpl in Hr. norm_app Hr. rewrite (prefix_map E _ _ st _ Hr). unfold parse_map_literal. cbv zeta.
    set (st0 := push_wss false st).
    set (r2 := wsl w2 ++ rest0) in *.
    assert (Hh : is_ws (look0 (render_pairs render pairs wz ++ mk T_RCURLY :: r2)) = false)
      by (apply render_pairs_head_not_ws; reflexivity).
    assert (Hr0 : rest st0 = mk T_LCURLY :: wsl w1 ++ (render_pairs render pairs wz ++ mk T_RCURLY :: r2)) by exact Hr.
    destruct (open_spec st0 _ _ _ Hr0 Hh) as (A1 & B1 & C1).
    simpl in Hwl, Hat, Hl. cbn [need] in Hk. destruct Hat as [Hfr Hps]. apply Nat.max_lub_iff in Hk as [Hk1 Hk2].
    rewrite (ml_skip_gen k (advance st0)).
    2:{ lia. }
    2:{ unfold cur_t, cur. rewrite A1. apply pairs_head_nonblank. }
    set (st1 := advance_if_ws (advance st0)) in *.
    assert (W1 : is_wss st1 = false) by (apply (is_wss_pushed st _ false B1)).
    assert (Hk1' : S (List.length pairs) < k) by lia.
    rewrite (map_pairs_spec E NT k pairs IHpairs k st1 wz r2 [] Hwl Hps Hfr Hl A1 W1 Hk1' Hk2).
    assert (HC : Forall (fun p => consume_stmt E (snd p)) pairs) by (apply Forall_forall; intros a _; apply consume_spec).
    destruct (consume_pairs_spec E (atoms_ok E) pairs HC st1 wz (mk T_RCURLY :: r2) A1 W1) as (A2 & B2 & C2); auto.
    set (st2 := consume_pairs (consume E) pairs st1) in *.
    cbn [rev app].
    cbv beta iota. unfold assert_token, cur_t, cur. rewrite A2. simpl. reflexivity.
Qed.

(* ================================================================ *)
(** * Theorems                                                       *)

Lemma ty_size_le t : ty_size t <= List.length (render_ty t).
Proof. induction t; simpl; lia. Qed.

Lemma seq_fuel args wz : Forall (fun l => spine l + need l + 2 <= 2 * List.length (render l)) args ->
  List.length args <= List.length (render_seq render args wz) /\
  max_over (fun a => S (spine a + Nat.max 1 (need a))) args <= 2 * List.length (render_seq render args wz) + 2.
Proof.
  induction 1 as [|a t Ha Ht [IH1 IH2]].
  - rewrite render_seq_nil. simpl. lia.
  - rewrite render_seq_cons, max_over_cons, !app_length. simpl List.length. lia.
Qed.

Lemma pairs_fuel ps wz : Forall (fun p => spine (snd p) + need (snd p) + 2 <= 2 * List.length (render (snd p))) ps ->
  List.length ps <= List.length (render_pairs render ps wz) /\
  max_over (fun p => S (spine (snd p) + Nat.max 1 (need (snd p)))) ps <= 2 * List.length (render_pairs render ps wz) + 2.
Proof.
  induction 1 as [|[[k wc] v] t Hv Ht [IH1 IH2]].
  - rewrite render_pairs_nil. simpl. lia.
  - rewrite render_pairs_cons, max_over_cons. cbn [snd] in *. simpl List.length. rewrite !app_length. simpl List.length. lia.
Qed.

(* enough fuel: the model's entry point runs with 2 * (number of tokens) + 10 *)
Lemma fuel_bound l : spine l + need l + 2 <= 2 * List.length (render l).
Proof.
  induction l as [a ws|w1 e w2 IH|o e IH|o a ws b IHa IHb|e w1 i w2 IHe IHi|e w1 s w2 t w3 IHe IHs IHt|e k w IHe|e w1 t w2 w3 IHe|w1 f args wz w2 IHargs|w1 args wz w2 IHargs|w1 pairs wz w2 IHpairs]
    using lexp_ind'; cbn [spine need render];
    try pose proof (ty_size_le t);
    repeat (rewrite app_length || (progress simpl List.length)); try lia.
  - destruct s as [x|], t as [y|]; simpl in IHs, IHt; simpl List.length; lia.
  - destruct (seq_fuel args wz IHargs) as [H1 H2]. lia.
  - destruct (seq_fuel args wz IHargs) as [H1 H2]. lia.
  - destruct (pairs_fuel pairs wz IHpairs) as [H1 H2]. lia.
Qed.

(* The guard that excludes exactly the class on which parseSlice is defective:
   as the code is, a slice that ends a whitespace-sensitive expression must not
   be followed by whitespace (the separator of the next argument / element). *)
Definition slice_guard (E : env) (l : lexp) (rest0 : list token) : Prop :=
  e_fix_slice E = false -> ends_with_slice l = true -> is_ws (look0 rest0) = false.

Theorem pratt_layered E l st rest0 fuel :
  no_tyerr E -> Lay 0 l -> atoms_ok E l -> layout_ok l = true ->
  rest st = render l ++ rest0 ->
  (is_wss st = true -> tight_ok l = true) ->
  (is_wss st = false -> is_ws (look0 rest0) = false) ->
  slice_guard E l rest0 ->
  stop_tok (is_wss st) lowestPrec (look0 rest0) ->
  2 * List.length (render l) <= fuel ->
  parse_expr E fuel lowestPrec st = Some (Some (tree_of l), consume E l st) /\
  rest (consume E l st) = rest0 /\ wss (consume E l st) = wss st /\ errs (consume E l st) = errs st.
Proof.
  intros NT HL Hat Hlo Hr Ht Hf Hg Hstop Hfuel.
  destruct (Lay_wl _ _ HL) as [Hwl _].
  pose proof (fuel_bound l) as Hb.
  destruct (consume_spec E l st rest0 Hr Hlo Ht Hf Hg Hat) as (A & B & C & _).
  split; [|auto].
  assert (Hex : exists k, fuel = S (spine l + S k) /\ need l <= S k) by (exists (fuel - spine l - 2); lia).
  destruct Hex as (k & -> & Hk).
  rewrite (pratt_general E NT l st rest0 lowestPrec (S k)); auto.
  - rewrite expr_loop_stop; [reflexivity|].
    unfold cur. rewrite A. rewrite (is_wss_eq _ _ B). exact Hstop.
  - eapply stop_tok_mono; [|exact Hstop]. rewrite lowest_zero. lia.
  - apply p_ok_lowest.
Qed.

(* with the corrected parseSlice no guard is needed *)
Theorem pratt_layered_fixed E l st rest0 fuel :
  e_fix_slice E = true ->
  no_tyerr E -> Lay 0 l -> atoms_ok E l -> layout_ok l = true ->
  rest st = render l ++ rest0 ->
  (is_wss st = true -> tight_ok l = true) ->
  (is_wss st = false -> is_ws (look0 rest0) = false) ->
  stop_tok (is_wss st) lowestPrec (look0 rest0) ->
  2 * List.length (render l) <= fuel ->
  parse_expr E fuel lowestPrec st = Some (Some (tree_of l), consume E l st) /\
  rest (consume E l st) = rest0 /\ wss (consume E l st) = wss st /\ errs (consume E l st) = errs st.
Proof.
  intros Hfix NT HL Hat Hlo Hr Ht Hf Hstop Hfuel. apply pratt_layered; auto.
  intros Hc _. rewrite Hfix in Hc. discriminate Hc.
Qed.

(* the tree depends on the derivation only, not on its layout *)
Lemma tree_of_erase l : tree_of l = stree (erase l).
Proof.
  induction l as [a ws|w1 e w2 IH|o e IH|o a ws b IHa IHb|e w1 i w2 IHe IHi|e w1 s w2 t w3 IHe IHs IHt|e k w IHe|e w1 t w2 w3 IHe|w1 f args wz w2 IHargs|w1 args wz w2 IHargs|w1 pairs wz w2 IHpairs]
    using lexp_ind'; simpl; try congruence.
  - destruct s, t; simpl in *; congruence.
  - f_equal. f_equal. rewrite map_map. induction IHargs as [|a t Ha _ IH]; simpl; [reflexivity|]. rewrite Ha, IH. reflexivity.
  - f_equal. rewrite map_map. induction IHargs as [|a t Ha _ IH]; simpl; [reflexivity|]. rewrite Ha, IH. reflexivity.
  - f_equal. rewrite map_map. induction IHpairs as [|[[k wc] v] t Hv _ IH]; simpl; [reflexivity|].
    simpl in Hv. rewrite Hv, IH. reflexivity.
Qed.

Theorem layout_irrelevant E l1 l2 st1 st2 r1 r2 fuel1 fuel2 :
  erase l1 = erase l2 ->
  no_tyerr E -> Lay 0 l1 -> Lay 0 l2 -> atoms_ok E l1 -> atoms_ok E l2 -> layout_ok l1 = true -> layout_ok l2 = true ->
  rest st1 = render l1 ++ r1 -> rest st2 = render l2 ++ r2 ->
  (is_wss st1 = true -> tight_ok l1 = true) -> (is_wss st2 = true -> tight_ok l2 = true) ->
  (is_wss st1 = false -> is_ws (look0 r1) = false) -> (is_wss st2 = false -> is_ws (look0 r2) = false) ->
  slice_guard E l1 r1 -> slice_guard E l2 r2 ->
  stop_tok (is_wss st1) lowestPrec (look0 r1) -> stop_tok (is_wss st2) lowestPrec (look0 r2) ->
  2 * List.length (render l1) <= fuel1 -> 2 * List.length (render l2) <= fuel2 ->
  exists t s1 s2,
    parse_expr E fuel1 lowestPrec st1 = Some (Some t, s1) /\ rest s1 = r1 /\
    parse_expr E fuel2 lowestPrec st2 = Some (Some t, s2) /\ rest s2 = r2 /\ t = stree (erase l1).
Proof.
  intros He NT L1 L2 A1 A2 O1 O2 R1 R2 T1 T2 F1 F2 G1 G2 S1 S2 U1 U2.
  destruct (pratt_layered E l1 st1 r1 fuel1) as (P1 & Q1 & _); auto.
  destruct (pratt_layered E l2 st2 r2 fuel2) as (P2 & Q2 & _); auto.
  exists (tree_of l1), (consume E l1 st1), (consume E l2 st2).
  rewrite P1, P2. repeat split; auto.
  - rewrite !tree_of_erase, He. reflexivity.
  - apply tree_of_erase.
Qed.

(* left associativity at every level, and precedence between levels *)
Lemma Lay_0_of n l : Lay n l -> Lay 0 l.
Proof. induction n; auto. intro H. apply IHn. apply Lay_up. exact H. Qed.

Lemma Lay_le n m l : n <= m -> Lay m l -> Lay n l.
Proof. induction 1 as [|m Hle IH]; auto. intro HL. apply IH. apply Lay_up. exact HL. Qed.

Lemma Lay_atom_any n a ws : n <= rank_primary -> Lay n (LAtom a ws).
Proof. intro H. eapply Lay_le; [exact H|apply Lay_atom]. Qed.

Lemma Lay_left_assoc o1 o2 a b c w1 w2 wa wb wc :
  rank o1 = rank o2 ->
  Lay 0 (LBin o2 (LBin o1 (LAtom a wa) w1 (LAtom b wb)) w2 (LAtom c wc)).
Proof.
  intro H. pose proof (rank_bounds o1). pose proof (rank_bounds o2).
  apply (Lay_0_of (rank o2)). apply Lay_bin.
  - rewrite <- H. apply Lay_bin; apply Lay_atom_any; unfold rank_primary; lia.
  - apply Lay_atom_any; unfold rank_primary; lia.
Qed.

Lemma Lay_tighter_right o1 o2 a b c w1 w2 wa wb wc :
  rank o1 < rank o2 ->
  Lay 0 (LBin o1 (LAtom a wa) w1 (LBin o2 (LAtom b wb) w2 (LAtom c wc))).
Proof.
  intro H. pose proof (rank_bounds o1). pose proof (rank_bounds o2).
  apply (Lay_0_of (rank o1)). apply Lay_bin.
  - apply Lay_atom_any; unfold rank_primary; lia.
  - apply (Lay_le _ (rank o2)); [lia|]. apply Lay_bin; apply Lay_atom_any; unfold rank_primary; lia.
Qed.

Theorem left_assoc E o1 o2 a b c w1 w2 wa wb wc st rest0 fuel :
  rank o1 = rank o2 ->
  let l := LBin o2 (LBin o1 (LAtom a wa) w1 (LAtom b wb)) w2 (LAtom c wc) in
  no_tyerr E -> atoms_ok E l ->
  rest st = render l ++ rest0 ->
  (is_wss st = true -> tight_ok l = true) ->
  (is_wss st = false -> is_ws (look0 rest0) = false) ->
  stop_tok (is_wss st) lowestPrec (look0 rest0) ->
  2 * List.length (render l) <= fuel ->
  exists st', parse_expr E fuel lowestPrec st =
    Some (Some (TBin (binop_tok o2) (TBin (binop_tok o1) (atom_tree a) (atom_tree b)) (atom_tree c)), st')
    /\ rest st' = rest0.
Proof.
  intros H l NT Hat Hr Ht Hf Hs Hfu.
  destruct (pratt_layered E l st rest0 fuel) as (P & Q & _); auto.
  { apply Lay_left_assoc. exact H. } { intros _ Hc. discriminate Hc. }
  exists (consume E l st). split; [exact P|exact Q].
Qed.

Theorem tighter_binds_first E o1 o2 a b c w1 w2 wa wb wc st rest0 fuel :
  rank o1 < rank o2 ->
  let l := LBin o1 (LAtom a wa) w1 (LBin o2 (LAtom b wb) w2 (LAtom c wc)) in
  no_tyerr E -> atoms_ok E l ->
  rest st = render l ++ rest0 ->
  (is_wss st = true -> tight_ok l = true) ->
  (is_wss st = false -> is_ws (look0 rest0) = false) ->
  stop_tok (is_wss st) lowestPrec (look0 rest0) ->
  2 * List.length (render l) <= fuel ->
  exists st', parse_expr E fuel lowestPrec st =
    Some (Some (TBin (binop_tok o1) (atom_tree a) (TBin (binop_tok o2) (atom_tree b) (atom_tree c))), st')
    /\ rest st' = rest0.
Proof.
  intros H l NT Hat Hr Ht Hf Hs Hfu.
  destruct (pratt_layered E l st rest0 fuel) as (P & Q & _); auto.
  { apply Lay_tighter_right. exact H. } { intros _ Hc. discriminate Hc. }
  exists (consume E l st). split; [exact P|exact Q].
Qed.

(* unary operators bind tighter than every binary operator and looser than the
   postfix forms:  -a[i] op b  is  (-(a[i])) op b *)
Theorem unary_between E u o a i b w1 w2 w3 wi wb st rest0 fuel :
  let l := LBin o (LUn u (LIndex (LAtom a false) w1 (LAtom i wi) w2)) w3 (LAtom b wb) in
  no_tyerr E -> atoms_ok E l ->
  rest st = render l ++ rest0 ->
  (is_wss st = true -> tight_ok l = true) ->
  (is_wss st = false -> is_ws (look0 rest0) = false) ->
  stop_tok (is_wss st) lowestPrec (look0 rest0) ->
  2 * List.length (render l) <= fuel ->
  exists st', parse_expr E fuel lowestPrec st =
    Some (Some (TBin (binop_tok o) (TUn (unop_tok u) (TIndex (atom_tree a) (atom_tree i))) (atom_tree b)), st')
    /\ rest st' = rest0.
Proof.
  intros l NT Hat Hr Ht Hf Hs Hfu.
  destruct (pratt_layered E l st rest0 fuel) as (P & Q & _); auto.
  { pose proof (rank_bounds o). apply (Lay_0_of (rank o)). apply Lay_bin.
    - apply (Lay_le _ rank_unary); [unfold rank_unary; lia|]. apply Lay_un.
      apply (Lay_le _ rank_primary); [unfold rank_unary, rank_primary; lia|].
      apply Lay_index; [apply Lay_atom|apply Lay_atom_any; unfold rank_primary; lia].
    - apply Lay_atom_any; unfold rank_primary; lia. }
  { intros _ Hc. discriminate Hc. }
  exists (consume E l st). split; [exact P|exact Q].
Qed.

(* ================================================================ *)
(** * End to end: an inferred declaration  x := e  NL                *)

Theorem decl_stmt_parses E x w0 w1 l fuel :
  no_tyerr E -> Lay 0 l -> atoms_ok E l -> layout_ok l = true ->
  let toks := {| ttype := T_IDENT; tlit := x |} :: wsl w0 ++ mk T_DECLARE :: wsl w1 ++ render l ++ [mk T_NL] in
  2 * List.length toks <= fuel ->
  exists st', parse_stmt_expr E fuel 2 toks = Some (Some (tree_of l), st') /\
              rest st' = [mk T_NL] /\ is_at_eol st' = true /\ errs st' = [].
Proof.
  intros NT HL Hat Hlo toks Hfu. unfold parse_stmt_expr. simpl Nat.iter.
  set (s0 := init_state toks).
  assert (W0 : is_wss s0 = false) by reflexivity.
  destruct (advance_tok s0 {| ttype := T_IDENT; tlit := x |} w0 (mk T_DECLARE :: wsl w1 ++ render l ++ [mk T_NL]))
    as (A1 & B1 & C1 & _); try reflexivity.
  { rewrite W0. discriminate. }
  set (s1 := advance s0) in *.
  destruct (advance_tok s1 (mk T_DECLARE) w1 (render l ++ [mk T_NL])) as (A2 & B2 & C2 & _); auto.
  { rewrite (is_wss_eq _ _ B1). discriminate. }
  { intros _. apply render_head_not_ws. }
  set (s2 := advance s1) in *.
  assert (W2 : is_wss s2 = false) by (rewrite (is_wss_eq _ _ B2), (is_wss_eq _ _ B1); reflexivity).
  rewrite (toplevel_is_expr E _ _ s2 l _ Hat A2).
  destruct (pratt_layered E l s2 [mk T_NL] fuel) as (P & Q & R & S); auto.
  - rewrite W2. discriminate.
  - intros _ _. reflexivity.
  - right; left. reflexivity.
  - unfold toks in Hfu. simpl List.length in Hfu. rewrite !app_length in Hfu. simpl List.length in Hfu.
    rewrite !app_length in Hfu. lia.
  - exists (consume E l s2). rewrite P. repeat split; auto.
    + unfold is_at_eol, cur_t, cur. rewrite Q. reflexivity.
    + rewrite S, C2, C1. reflexivity.
Qed.

(* a call statement  f a1 ... an NL  (parseTopLevelExpr at statement level, no parentheses): the
   arguments are derivations of the grammar, separated by whitespace, each rendered tight *)
Theorem call_stmt_parses E f args wz fuel :
  no_tyerr E -> func_of E f = Some false -> arity_wrong E f (List.length args) = false ->
  (forall a, In a args -> Lay 0 a) -> args_ok E (atoms_ok E) wz args ->
  forallb (fun a => layout_ok a && tight_ok a) args = true ->
  let toks := ident_tok f :: wsl (seq_flag args wz) ++ render_seq render args wz ++ [mk T_NL] in
  2 * List.length toks <= fuel ->
  exists st', parse_stmt_expr E fuel 0 toks = Some (Some (TCall f (map tree_of args)), st') /\
              rest st' = [mk T_NL] /\ is_at_eol st' = true /\ errs st' = [].
Proof.
  intros NT Hfn Har HL Hargs Hl toks Hfu. unfold parse_stmt_expr. simpl Nat.iter.
  set (s0 := init_state toks).
  assert (W0 : is_wss s0 = false) by reflexivity.
  assert (R0 : rest s0 = ident_tok f :: wsl (seq_flag args wz) ++ (render_seq render args wz ++ [mk T_NL])) by reflexivity.
  rewrite (toplevel_call E _ _ s0 f _ R0 Hfn). unfold parse_func_call.
  replace (tlit (cur s0)) with f by reflexivity.
  cbn [orb negb].
  assert (Hh : is_ws (look0 (render_seq render args wz ++ [mk T_NL])) = false) by (apply render_seq_head_not_ws; reflexivity).
  destruct (advance_tok s0 _ _ _ R0) as (A1 & B1 & C1 & _).
  { rewrite W0. discriminate. } { intros _. exact Hh. }
  set (s1 := advance s0) in *.
  assert (W1 : is_wss s1 = false) by (rewrite (is_wss_eq _ _ B1); exact W0).
  assert (HP : Forall (pratt_stmt E) args) by (apply Forall_forall; intros a _; apply pratt_general; exact NT).
  assert (HC : Forall (consume_stmt E) args) by (apply Forall_forall; intros a _; apply consume_spec).
  assert (Hwl : allP wl args) by (apply allP_In; intros a Ha; exact (proj1 (Lay_wl _ _ (HL a Ha)))).
  assert (HB : Forall (fun l => spine l + need l + 2 <= 2 * List.length (render l)) args)
    by (apply Forall_forall; intros a _; apply fuel_bound).
  destruct (seq_fuel args wz HB) as [F1 F2].
  assert (Hlen : List.length toks = S (List.length (wsl (seq_flag args wz)) + (List.length (render_seq render args wz) + 1))).
  { unfold toks. simpl List.length. rewrite !app_length. reflexivity. }
  assert (Hf1 : List.length args < fuel) by lia.
  assert (Hf2 : max_over (fun a => S (spine a + Nat.max 1 (need a))) args <= fuel) by lia.
  rewrite (expr_list_spec E NT fuel args HP fuel s1 wz (mk T_NL) [] [] (or_intror eq_refl) Hwl Hargs Hl A1 W1 Hf1 Hf2).
  destruct (consume_args_spec E (atoms_ok E) args HC s1 wz [mk T_NL] A1) as (A2 & B2 & C2); auto.
  change (rev [] ++ map tree_of args) with (map tree_of args).
  cbv beta iota zeta. rewrite map_length, Har. rewrite (tyerr_false E) by exact NT.
  eexists. split; [reflexivity|]. repeat split.
  - exact A2.
  - unfold is_at_eol, cur_t, cur. rewrite A2. reflexivity.
  - rewrite C2, C1. reflexivity.
Qed.

(* ================================================================ *)
(** * The parseSlice defect and its correction                       *)

(* with the proposed fix the closing bracket of a slice is consumed without
   skipping whitespace, exactly like the closing bracket of an index expression *)
Lemma slice_close_fixed E st : e_fix_slice E = true -> slice_close E st = advance_wss st.
Proof. unfold slice_close. intros ->. reflexivity. Qed.

Lemma slice_close_fixed_keeps_ws E st t r :
  e_fix_slice E = true -> rest st = t :: mk T_WS :: r -> cur (slice_close E st) = mk T_WS.
Proof. intros H Hr. rewrite slice_close_fixed by exact H. unfold cur, advance_wss; simpl. rewrite Hr. reflexivity. Qed.

(* as the code is: inside the pushed "not whitespace sensitive" context the whitespace is swallowed *)
Lemma slice_close_swallows_ws E st t t2 r b w :
  e_fix_slice E = false -> rest st = t :: mk T_WS :: t2 :: r -> wss st = false :: b :: w -> is_ws t2 = false ->
  cur (slice_close E st) = t2.
Proof.
  intros H Hr Hw Ht2. unfold slice_close. rewrite H.
  destruct (advance_tok st t true (t2 :: r)) as (A & _); auto.
  - unfold is_wss. rewrite Hw. discriminate.
  - unfold cur. rewrite A. reflexivity.
Qed.
