(* VmHeapProofs.v — the safety theorem of VmProofs.v for the VM with the store
   (VmHeap.v): a well-formed program never drives it into a stack underflow,
   an out-of-range constant/global/local access or a bad fetch, whatever the
   element stores do to the heap. *)
From Coq Require Import ZArith NArith PArith List Bool Lia ZifyBool ZifyNat ZifyN Floats FMapPositive.
From EvyV Require Import Base Bytecode BytecodeProofs Vm VmProofs VmHeap.
Require Import EvyV.Gen.Opcodes.
Import ListNotations.
Open Scope N_scope.

(* the crashes a well-formed program can still produce: the type-directed one,
   and the unbounded recursion of Equals / deepCopy through a cyclic heap *)
Definition hcrash_ok (c : crash) : Prop := c = CType \/ c = CHost.

Lemma hindex_crash h l i c : hindex h l i = RCrash c -> c = CType.
Proof.
  unfold hindex. intro H.
  repeat match type of H with
         | context [match ?x with _ => _ end] => destruct x; try discriminate
         end; inversion H; reflexivity.
Qed.

Lemma hslice_crash h l a b c : hslice h l a b = RCrash c -> c = CType.
Proof.
  unfold hslice. intro H.
  destruct l; try (inversion H; reflexivity);
    match type of H with context [hslice_bounds ?x ?y ?z] => destruct (hslice_bounds x y z) as [[[?|?] [?|?]]|] end;
    try discriminate; try (inversion H; reflexivity);
    match type of H with context [if ?c then _ else _] => destruct c end; try discriminate.
  all: try (unfold halloc in H; discriminate).
Qed.

Lemma hnum2_crash h args f c :
  (forall l r c', f l r = PCrash c' -> c' = CType) -> hnum2 h args f = RCrash c -> c = CType.
Proof.
  intros Hf H. unfold hnum2 in H.
  destruct args as [|[] [|[] [|]]]; try (inversion H; reflexivity).
  destruct (f f1 f0) as [[]| |] eqn:E; try discriminate; try (inversion H; reflexivity).
  inversion H; subst. eapply Hf; eauto.
Qed.

Lemma hstr2_crash h args f c : hstr2 h args f = RCrash c -> c = CType.
Proof.
  intro H. unfold hstr2 in H.
  destruct args as [|[] [|[] [|]]]; try (inversion H; reflexivity); discriminate.
Qed.

Lemma harr_repeat_crash r l h c : harr_repeat r l h = RCrash c -> c = CHost.
Proof.
  unfold harr_repeat. destruct (go_int_exact r) as [n|]; [|discriminate]. destruct (n <? 0)%Z; [discriminate|].
  destruct (repeat_too_large _ n); [discriminate|].
  destruct (arr_at h l); [unfold halloc; discriminate|].
  destruct (hrepeat _ _ _ _) as [[res h1]|]; [unfold halloc; discriminate|].
  intro H; inversion H; reflexivity.
Qed.

Lemma hpure_sem_crash o arg cs ls gs h args c :
  hpure_sem o arg cs ls gs h args = RCrash c ->
  hcrash_ok c \/
  (c = COperand /\
   ((o = Constant /\ nth_error cs (N.to_nat arg) = None) \/
    (o = GetGlobal /\ nth_error gs (N.to_nat arg) = None) \/
    (o = GetLocal /\ nth_error ls (N.to_nat arg) = None))).
Proof.
  intro H. destruct o; simpl in H;
    try (left; left; inversion H; reflexivity);
    try discriminate;
    try (left; left; eapply hstr2_crash; eassumption);
    try (left; left; eapply hnum2_crash; [|eassumption]; intros l r c' Hc; cbv beta in Hc;
         repeat match type of Hc with context [if ?b then _ else _] => destruct b end; discriminate).
  - destruct (nth_error cs (N.to_nat arg)) eqn:E; [discriminate|]. inversion H. right. split; auto.
  - destruct (nth_error gs (N.to_nat arg)) eqn:E; [discriminate|]. inversion H. right. split; auto.
  - destruct (nth_error ls (N.to_nat arg)) eqn:E; [discriminate|]. inversion H. right. split; auto.
  - left. left. destruct args as [|[] [|]]; try discriminate; inversion H; reflexivity.
  - left. left. destruct args as [|[] [|]]; try discriminate; inversion H; reflexivity.
  - left. destruct args as [|r [|l [|]]]; try (left; inversion H; reflexivity).
    destruct (heq_top h l r); [discriminate|left; inversion H; reflexivity|right; inversion H; reflexivity].
  - left. destruct args as [|r [|l [|]]]; try (left; inversion H; reflexivity).
    destruct (heq_top h l r); [discriminate|left; inversion H; reflexivity|right; inversion H; reflexivity].
  - left. left. destruct args as [|[] [|[] [|]]]; try discriminate; inversion H; reflexivity.
  - left. destruct args as [|[] [|[] [|]]]; try (left; inversion H; reflexivity).
    right. apply (harr_repeat_crash _ _ _ _ H).
  - left. left. destruct (hmap_pairs args []); [discriminate|inversion H; reflexivity].
  - left. left. destruct args as [|i [|l [|]]]; try (inversion H; reflexivity). eapply hindex_crash; eauto.
  - left. left. destruct args as [|b [|a [|l [|]]]]; try (inversion H; reflexivity). eapply hslice_crash; eauto.
Qed.

Lemma hset_index_crash h args c : hset_index h args = SCrash c -> c = CType.
Proof.
  unfold hset_index. intro H.
  destruct args as [|i [|l [|v [|]]]]; try discriminate.
  all: destruct l; try discriminate; destruct i; try discriminate; try (inversion H; reflexivity);
    match type of H with context [normalize_index ?f ?n ?b] => destruct (normalize_index f n b) end; discriminate.
Qed.

Lemma inject_list_length l : forall h, List.length (fst (inject_list l h)) = List.length l.
Proof.
  induction l as [|x t IH]; intro h; simpl; [reflexivity|].
  destruct (inject x h) as [x' h1]. specialize (IH h1). destruct (inject_list t h1) as [t' h2]. simpl in *. congruence.
Qed.

Lemma hfirstn_one {A} (l : list A) : (1 <= List.length l)%nat -> exists x, firstn 1 l = [x].
Proof. destruct l; simpl; [lia|eauto]. Qed.

(* ---------- the invariant ---------- *)
Section Safe.
  Variable p : program.
  Let bc := info_of p.
  Let lc := plcount p.
  Variable instrs : list (N * instr).
  Variable h : N -> option ast.
  Hypothesis HD : decode_all (pcode p) = Some instrs.
  Hypothesis HS : forall pc i, In (pc, i) instrs -> operand_ok bc i = true.
  Hypothesis HF : forall pc a, h pc = Some a ->
       exists i succs, In (pc, i) instrs /\ xfer lc pc i a = Some succs /\
         forall t a', In (t, a') succs ->
           (t = codelen bc /\ a' = AH lc) \/ (t < codelen bc /\ h t = Some a').

  Definition hamatch (a : ast) (stk : list hval) : Prop :=
    match a with
    | AH k => lc + N.of_nat (List.length stk) = k
    | ACond k => exists b rest, stk = HBool b :: rest /\
                                lc + N.of_nat (List.length rest) = (if b then k + 1 else k)
    end.

  Definition hframe_ok (s : hstate) : Prop :=
    N.of_nat (List.length (hlocals s)) = lc /\ N.of_nat (List.length (hglobals s)) = pgcount p /\
    List.length (hconsts s) = List.length (pconsts p).

  Definition hvinv (s : hstate) : Prop :=
    hframe_ok s /\
    ((hip s = codelen bc /\ hstack s = []) \/
     (hip s < codelen bc /\ exists a, h (hip s) = Some a /\ hamatch a (hstack s))).

  Definition hsucc_cond (t : N) (a' : ast) : Prop :=
    (t = codelen bc /\ a' = AH lc) \/ (t < codelen bc /\ h t = Some a').

  Definition hgood (out : houtcome) : Prop :=
    match out with
    | HRunning s' => hvinv s'
    | HHalted _ => False
    | HFailed _ => True
    | HCrashed c => hcrash_ok c
    end.

  Lemma hmk_inv t a' s' : hsucc_cond t a' -> hip s' = t -> hframe_ok s' -> hamatch a' (hstack s') -> hvinv s'.
  Proof.
    intros [[Ht Ha]|[Ht Ha]] Hip Hfr Hm; split; auto.
    - left. subst a'. simpl in Hm. split; [congruence|]. destruct (hstack s'); [reflexivity|simpl in Hm; lia].
    - right. split; [congruence|]. exists a'. split; [congruence|exact Hm].
  Qed.

  Lemma hwith_good s next stk hp a' :
    hframe_ok s -> hsucc_cond next a' -> hamatch a' stk -> hgood (hwith s next stk hp).
  Proof.
    intros Hfr Hs Hm. unfold hwith. destruct (StackSize <? _); [exact I|].
    simpl. eapply hmk_inv; eauto.
  Qed.

  Lemma hexec_good s a i succs o :
    hframe_ok s -> hamatch a (hstack s) -> operand_ok bc i = true -> opc_of_N (iop i) = Some o ->
    xfer lc (hip s) i a = Some succs -> (forall t a', In (t, a') succs -> hsucc_cond t a') ->
    hgood (hexec s o (arg0 i) (hip s + ilen i)).
  Proof.
    intros Hfr Hm Hop Ho Hx Hsucc. pose proof Hfr as (HL & HG & HC).
    unfold xfer in Hx. rewrite Ho in Hx. unfold operand_ok in Hop. rewrite Ho in Hop.
    set (arg := arg0 i) in *. set (next := hip s + ilen i) in *.
    assert (SIMPLE : forall pn q k, a = AH k -> simple_effect o arg = Some (pn, q) ->
              lc + pn <= k -> hsucc_cond next (AH (k - pn + q)) ->
              o <> Jump -> o <> JumpOnFalse -> o <> StepRange -> o <> IterRange ->
              hgood (hexec s o arg next)).
    { intros pn q k -> HE Hk Hsc N1 N2 N3 N4. simpl in Hm.
      assert (Hlen : (N.to_nat pn <= List.length (hstack s))%nat) by lia.
      assert (Hrest : N.of_nat (List.length (skipn (N.to_nat pn) (hstack s))) = k - pn - lc)
        by (rewrite skipn_length; lia).
      unfold hexec. rewrite HE.
      destruct (List.length (hstack s) <? N.to_nat pn)%nat eqn:EU; [apply Nat.ltb_lt in EU; lia|].
      destruct o; try congruence; simpl in HE; inversion HE; subst pn q; clear HE;
        try (match goal with
             | |- hgood (match hpure_sem ?o ?a ?c ?l ?g ?hp ?x with _ => _ end) =>
                 destruct (hpure_sem o a c l g hp x) as [v hp'|e|c0] eqn:EP;
                 [ eapply hwith_good; [exact Hfr|exact Hsc|cbn [hamatch List.length]; lia]
                 | exact I
                 | apply hpure_sem_crash in EP; destruct EP as [EP|[-> EP]]; [exact EP|exfalso];
                   destruct EP as [[E1 E2]|[[E1 E2]|[E1 E2]]]; try discriminate E1;
                   apply nth_error_None in E2; unfold bc, info_of in Hop; simpl in Hop; lia ]
             end).
      - (* SetGlobal *)
        destruct (hfirstn_one (hstack s)) as [x Hx1]; [change (N.to_nat 1) with 1%nat in Hlen; lia|]. change (N.to_nat 1) with 1%nat. rewrite Hx1.
        unfold set_nth_opt. destruct (N.to_nat arg <? List.length (hglobals s))%nat eqn:EB.
        + eapply hmk_inv; [exact Hsc|reflexivity| |simpl; simpl in Hrest; rewrite Hrest; lia].
          repeat split; simpl; [exact HL|rewrite set_nth_length; exact HG|exact HC].
        + apply Nat.ltb_ge in EB. unfold bc, info_of in Hop. simpl in Hop. lia.
      - (* Drop *)
        eapply hmk_inv; [exact Hsc|reflexivity|exact Hfr|cbn [hamatch hstack hmk]; lia].
      - (* SetLocal *)
        destruct (hfirstn_one (hstack s)) as [x Hx1]; [change (N.to_nat 1) with 1%nat in Hlen; lia|]. change (N.to_nat 1) with 1%nat. rewrite Hx1.
        unfold set_nth_opt. destruct (N.to_nat arg <? List.length (hlocals s))%nat eqn:EB.
        + eapply hmk_inv; [exact Hsc|reflexivity| |simpl; simpl in Hrest; rewrite Hrest; lia].
          repeat split; simpl; [rewrite set_nth_length; exact HL|exact HG|exact HC].
        + apply Nat.ltb_ge in EB. unfold bc, info_of in Hop. simpl in Hop. fold lc in Hop. lia.
      - (* SetIndex: the store changes the heap only *)
        destruct (hset_index _ _) as [hp'|e|c0] eqn:ES.
        + eapply hmk_inv; [exact Hsc|reflexivity|exact Hfr|cbn [hamatch hstack]; lia].
        + exact I.
        + apply hset_index_crash in ES. left. exact ES. }
    destruct a as [k|k].
    - simpl in Hm.
      destruct o;
        try (cbn [simple_effect] in Hx;
             match type of Hx with (if ?c then _ else _) = _ => destruct c eqn:EK; [|discriminate] end;
             inversion Hx; subst succs; clear Hx;
             eapply SIMPLE; [reflexivity|reflexivity|lia|apply Hsucc; left; reflexivity|discriminate..]).
      + (* Jump *)
        inversion Hx; subst succs; clear Hx. simpl.
        eapply hmk_inv; [apply Hsucc; left; reflexivity|reflexivity|exact Hfr|simpl; exact Hm].
      + (* JumpOnFalse *)
        destruct (lc + 1 <=? k) eqn:EK; [|discriminate]. inversion Hx; subst succs; clear Hx. simpl.
        destruct (hstack s) as [|v rest] eqn:ES; [simpl in Hm; lia|].
        destruct v; try (left; reflexivity). simpl in Hm.
        destruct b.
        * eapply hmk_inv; [apply Hsucc; left; reflexivity|reflexivity|exact Hfr|simpl; lia].
        * eapply hmk_inv; [apply Hsucc; right; left; reflexivity|reflexivity|exact Hfr|simpl; lia].
      + (* StepRange *)
        destruct (lc + 3 <=? k) eqn:EK; [|discriminate]. inversion Hx; subst succs; clear Hx. simpl.
        destruct (List.length (hstack s) <? 3)%nat eqn:EU; [apply Nat.ltb_lt in EU; lia|].
        destruct (hzero_step (hstack s)); [exact I|].
        destruct (hstep_range arg (hstack s)) as [stk|] eqn:ER; [|left; reflexivity].
        unfold hstep_range in ER.
        destruct (hstack s) as [|[] [|[] [|[] rest]]]; try discriminate. inversion ER; subst stk; clear ER.
        eapply hwith_good; [exact Hfr|apply Hsucc; left; reflexivity|].
        simpl in Hm. destruct (arg =? 0) eqn:EA; simpl.
        * rewrite andb_false_r. simpl. lia.
        * rewrite andb_true_r. eexists _, _. split; [reflexivity|].
          match goal with |- context [if ?g then _ else _] => destruct g end; simpl; lia.
      + (* IterRange *)
        destruct (lc + 2 <=? k) eqn:EK; [|discriminate]. inversion Hx; subst succs; clear Hx. simpl.
        destruct (List.length (hstack s) <? 2)%nat eqn:EU; [apply Nat.ltb_lt in EU; lia|].
        destruct (hiter_range arg (hheap s) (hstack s)) as [stk|] eqn:ER; [|left; reflexivity].
        unfold hiter_range in ER.
        destruct (hstack s) as [|[] [|it rest]]; try discriminate.
        destruct (float_to_Z f) as [z|]; [|discriminate]. destruct (z <? 0)%Z; [discriminate|].
        inversion ER; subst stk; clear ER.
        eapply hwith_good; [exact Hfr|apply Hsucc; left; reflexivity|].
        simpl in Hm.
        match goal with |- context [match ?v with Some _ => _ | None => _ end] => destruct v end;
          destruct (arg =? 0) eqn:EA; simpl; try lia;
          eexists _, _; (split; [reflexivity|]); simpl; lia.
    - destruct o; try discriminate. inversion Hx; subst succs; clear Hx. simpl.
      destruct Hm as (b & rest & ES & Hh). rewrite ES. destruct b.
      + eapply hmk_inv; [apply Hsucc; left; reflexivity|reflexivity|exact Hfr|simpl; lia].
      + eapply hmk_inv; [apply Hsucc; right; left; reflexivity|reflexivity|exact Hfr|simpl; lia].
  Qed.

  Lemma hstep_good s : hvinv s ->
    match hvm_step p s with
    | HRunning s' => hvinv s'
    | HHalted s' => s' = s /\ hip s = codelen bc /\ hstack s = []
    | HFailed _ => True
    | HCrashed c => hcrash_ok c
    end.
  Proof.
    intros [Hfr [[Hip Hst]|[Hip (a & Ha & Hm)]]].
    - unfold hvm_step. rewrite Hip. unfold bc, codelen, info_of; simpl. rewrite Nat2N.id, skipn_all. auto.
    - destruct (HF _ _ Ha) as (i & succs & HI & Hx & Hsucc).
      destruct (decode_all_fetch _ _ _ _ HD HI) as (rest & HD1 & Hend).
      pose proof Hx as Hx'. unfold xfer in Hx'.
      destruct (opc_of_N (iop i)) as [o|] eqn:Ho; [|discriminate]. clear Hx'.
      pose proof (decode1_opc _ _ _ _ HD1 Ho) as [Hlen Hshape].
      pose proof (hexec_good s a i succs o Hfr Hm (HS _ _ HI) Ho Hx Hsucc) as G.
      unfold hvm_step.
      destruct (has_operand o) eqn:EH.
      + destruct Hshape as (hi & lo & -> & Hargs). rewrite Ho, has_operand_vm, EH. rewrite Hlen in G.
        unfold arg0 in G. rewrite Hargs in G. simpl in G.
        destruct (hexec s o (hi * 256 + lo) (hip s + 3)); simpl in *; auto; contradiction.
      + destruct Hshape as (-> & Hargs). rewrite Ho, has_operand_vm, EH. rewrite Hlen in G.
        unfold arg0 in G. rewrite Hargs in G. simpl in G.
        destruct (hexec s o 0 (hip s + 1)); simpl in *; auto; contradiction.
  Qed.

End Safe.

Lemma hvm_init_fields p :
  hip (hvm_init p) = 0 /\ hstack (hvm_init p) = [] /\
  hlocals (hvm_init p) = repeat HNil (N.to_nat (plcount p)) /\
  hglobals (hvm_init p) = repeat HNil (N.to_nat (pgcount p)) /\
  List.length (hconsts (hvm_init p)) = List.length (pconsts p).
Proof.
  unfold hvm_init. pose proof (inject_list_length (pconsts p) heap_empty) as L.
  destruct (inject_list (pconsts p) heap_empty) as [cs hp]. simpl in *. auto.
Qed.

Lemma hreachable_inv p instrs h :
  decode_all (pcode p) = Some instrs ->
  (forall pc i, In (pc, i) instrs -> operand_ok (info_of p) i = true) ->
  (instrs <> [] -> h 0 = Some (AH (plcount p))) ->
  (forall pc a, h pc = Some a ->
       exists i succs, In (pc, i) instrs /\ xfer (plcount p) pc i a = Some succs /\
         forall t a', In (t, a') succs ->
           (t = codelen (info_of p) /\ a' = AH (plcount p)) \/ (t < codelen (info_of p) /\ h t = Some a')) ->
  forall s, hreachable p s -> hvinv p h s.
Proof.
  intros HD HS' HE HF s HR.
  induction HR as [|s s' HR IH Hstep].
  - destruct (hvm_init_fields p) as (F1 & F2 & F3 & F4 & F5).
    split; [repeat split; [rewrite F3, repeat_length; lia|rewrite F4, repeat_length; lia|exact F5]|].
    rewrite F1, F2.
    destruct (pcode p) as [|b t] eqn:EC.
    + left. split; [unfold codelen; simpl; rewrite EC; reflexivity|reflexivity].
    + right. split; [unfold codelen; simpl; rewrite EC; simpl; lia|].
      exists (AH (plcount p)). split; [|simpl; lia].
      apply HE. eapply decode_all_nonempty; [exact HD|discriminate].
  - pose proof (hstep_good p instrs h HD HS' HF s IH) as G. rewrite Hstep in G. exact G.
Qed.

(* VM safety with the store: element stores, aliasing, insertion of map keys
   are all performed by hvm_step.  Partial: the type-directed crash CType (an
   unchecked type assertion; needs the typed simulation of C16) and CHost (the
   recursion of Equals / deepCopy through a CYCLIC heap, which a well-formed
   but ill-typed program can build: a[0] = a) are not excluded. *)
Theorem wf_hvm_safe_store_partial : forall (p : program), WF (info_of p) ->
  forall s, hreachable p s ->
    plcount p <= hsp_of s /\
    match hvm_step p s with
    | HRunning _ | HFailed _ => True
    | HHalted s' => hip s' = N.of_nat (List.length (pcode p)) /\ hsp_of s' = plcount p
    | HCrashed c => c = CType \/ c = CHost
    end.
Proof.
  intros p (instrs & h & HD & HS & HE & HF) s HR.
  assert (HS' : forall pc i, In (pc, i) instrs -> operand_ok (info_of p) i = true)
    by (intros pc i HI; apply (HS pc i HI)).
  assert (INV : hvinv p h s) by (eapply hreachable_inv; eauto).
  split.
  - destruct INV as [(HL & _ & _) [[_ Hst]|[_ (a & _ & Hm)]]]; unfold hsp_of; rewrite HL.
    + lia.
    + destruct a as [k|k]; simpl in Hm; [lia|].
      destruct Hm as (b & rest & -> & Hh). simpl. destruct b; lia.
  - pose proof (hstep_good p instrs h HD HS' HF s INV) as G.
    destruct (hvm_step p s); auto.
    destruct G as (-> & Hip & Hst). split; [exact Hip|].
    destruct INV as [(HL & _ & _) _]. unfold hsp_of. rewrite HL, Hst. simpl. lia.
Qed.

(* ---------- what OpSetIndex does to the heap: the store is seen through every
   reference to the same cell, and nothing else changes ---------- *)
Lemma find_hset_same l c h : PositiveMap.find l (hcells (hset l c h)) = Some c.
Proof. unfold hset; simpl. apply PositiveMap.gss. Qed.
Lemma find_hset_other l l' c h : l' <> l -> PositiveMap.find l' (hcells (hset l c h)) = PositiveMap.find l' (hcells h).
Proof. intro N. unfold hset; simpl. apply PositiveMap.gso. exact N. Qed.

Lemma hset_frame l c h l' : l' <> l ->
  arr_at (hset l c h) l' = arr_at h l' /\ map_at (hset l c h) l' = map_at h l'.
Proof. intro N. unfold arr_at, map_at. rewrite (find_hset_other l l' c h N). split; reflexivity. Qed.

Lemma hnorm_idx_lt f n i : normalize_index f n false = IOk i -> (i < n)%nat.
Proof.
  unfold normalize_index. destruct (go_int_exact f) as [z|]; [|discriminate].
  destruct ((z <? - Z.of_nat n) || (Z.of_nat n - 1 <? z))%Z eqn:Q; [discriminate|].
  apply orb_false_iff in Q as [Q1 Q2]. apply Z.ltb_ge in Q1, Q2.
  destruct (z <? 0)%Z eqn:Q3; intro H; inversion H; subst.
  - apply Z.ltb_lt in Q3. lia.
  - apply Z.ltb_ge in Q3. lia.
Qed.

Lemma hnth_set_nth_same {A} n (x : A) : forall l, (n < List.length l)%nat -> nth_error (set_nth n x l) n = Some x.
Proof. induction n as [|n IH]; intros [|y t] H; simpl in *; try lia; [reflexivity|apply IH; lia]. Qed.

Lemma hnth_set_nth_other {A} n m (x : A) : forall l, n <> m -> nth_error (set_nth n x l) m = nth_error l m.
Proof.
  revert m. induction n as [|n IH]; intros m [|y t] H; simpl; try reflexivity.
  - destruct m; [congruence|reflexivity].
  - destruct m; [reflexivity|]. simpl. apply IH. congruence.
Qed.

(* a[i] = v through one reference [HArr l]: a read of index i through ANY value
   referring to the cell l (another global, local, stack slot, an element of
   another array, a map value) gives v; the other elements, the length, every
   other cell and the allocation pointer are unchanged *)
Theorem store_array_visible : forall h l f v h',
  hset_index h [HNum f; HArr l; v] = SOk h' ->
  hindex h' (HArr l) (HNum f) = ROk v h' /\
  (exists i, normalize_index f (List.length (arr_at h l)) false = IOk i /\
             arr_at h' l = set_nth i v (arr_at h l) /\
             forall j, j <> i -> nth_error (arr_at h' l) j = nth_error (arr_at h l) j) /\
  List.length (arr_at h' l) = List.length (arr_at h l) /\
  (forall l', l' <> l -> arr_at h' l' = arr_at h l' /\ map_at h' l' = map_at h l') /\
  hnext h' = hnext h.
Proof.
  intros h l f v h' H. unfold hset_index in H.
  destruct (normalize_index f (List.length (arr_at h l)) false) as [i|e] eqn:EN; [|discriminate].
  inversion H; subst h'; clear H.
  assert (A : arr_at (hset l (CArr (set_nth i v (arr_at h l))) h) l = set_nth i v (arr_at h l))
    by (unfold arr_at at 1; rewrite find_hset_same; reflexivity).
  pose proof (hnorm_idx_lt _ _ _ EN) as Hlt.
  split; [|split; [|split; [|split]]].
  - unfold hindex. rewrite A, set_nth_length, EN, hnth_set_nth_same by exact Hlt. reflexivity.
  - exists i. split; [reflexivity|]. split; [exact A|]. intros j Hj. rewrite A. apply hnth_set_nth_other. congruence.
  - rewrite A. apply set_nth_length.
  - intros l' N. apply hset_frame. exact N.
  - reflexivity.
Qed.

Lemma hlookup_set_same k v : forall m, hlookup k (hmap_set k v m) = Some v.
Proof.
  induction m as [|[k' v'] r IH]; simpl.
  - rewrite str_eqb_refl. reflexivity.
  - destruct (str_eqb k' k) eqn:E; simpl; rewrite E; [reflexivity|exact IH].
Qed.

Lemma hlookup_set_other k k2 v : str_eqb k2 k = false -> forall m, hlookup k2 (hmap_set k v m) = hlookup k2 m.
Proof.
  intros N m. induction m as [|[k' v'] r IH]; simpl.
  - destruct (str_eqb k k2) eqn:E; [|reflexivity].
    apply str_eqb_eq in E. subst. rewrite str_eqb_refl in N. discriminate.
  - destruct (str_eqb k' k) eqn:E; simpl.
    + apply str_eqb_eq in E. subst k'. destruct (str_eqb k k2) eqn:E2; [|reflexivity].
      apply str_eqb_eq in E2. subst. rewrite str_eqb_refl in N. discriminate.
    + destruct (str_eqb k' k2); [reflexivity|exact IH].
Qed.

(* m[k] = v through one map value [HMap order l]: a read of key k through ANY
   map value that refers to the cell l — whatever `order` that copy carries —
   gives v (also when k is new: the insertion is in the shared Go map); the
   other keys, every other cell and the allocation pointer are unchanged.  No
   `order` changes: it lives in the values, and hset_index returns only a heap
   (the recorded divergence vm-map-insert-lost, exactly as on the real VM). *)
Theorem store_map_visible : forall h order l k v h',
  hset_index h [HStr k; HMap order l; v] = SOk h' ->
  (forall order', hindex h' (HMap order' l) (HStr k) = ROk v h') /\
  (forall k2, str_eqb k2 k = false -> hlookup k2 (map_at h' l) = hlookup k2 (map_at h l)) /\
  (forall l', l' <> l -> arr_at h' l' = arr_at h l' /\ map_at h' l' = map_at h l') /\
  hnext h' = hnext h.
Proof.
  intros h order l k v h' H. unfold hset_index in H. inversion H; subst h'; clear H.
  assert (A : map_at (hset l (CMap (hmap_set k v (map_at h l))) h) l = hmap_set k v (map_at h l))
    by (unfold map_at at 1; rewrite find_hset_same; reflexivity).
  split; [|split; [|split]].
  - intro order'. unfold hindex. rewrite A, hlookup_set_same. reflexivity.
  - intros k2 N. rewrite A. apply hlookup_set_other. exact N.
  - intros l' N. apply hset_frame. exact N.
  - reflexivity.
Qed.

(* without OpSetIndex no existing cell ever changes (allocation only): the
   instructions other than OpSetIndex leave every cell below the allocation
   pointer as it is *)
Definition heap_extends (h h' : heap) : Prop :=
  (hnext h <= hnext h')%positive /\
  forall l, (l < hnext h)%positive -> PositiveMap.find l (hcells h') = PositiveMap.find l (hcells h).

Lemma heap_extends_refl h : heap_extends h h.
Proof. split; [apply Pos.le_refl|auto]. Qed.
Lemma heap_extends_trans a b c : heap_extends a b -> heap_extends b c -> heap_extends a c.
Proof.
  intros [L1 F1] [L2 F2]. split; [eapply Pos.le_trans; eauto|].
  intros l Hl. rewrite F2 by lia. apply F1. exact Hl.
Qed.

Lemma halloc_extends c h l h' : halloc c h = (l, h') -> heap_extends h h'.
Proof.
  unfold halloc. intro H. inversion H; subst. split; simpl; [lia|].
  intros l0 Hl. apply PositiveMap.gso. lia.
Qed.

Lemma halloc_extends' c h :
  heap_extends h {| hnext := Pos.succ (hnext h); hcells := PositiveMap.add (hnext h) c (hcells h) |}.
Proof. eapply (halloc_extends c h). reflexivity. Qed.

Lemma copy_els_extends cp :
  (forall v h v' h', cp v h = Some (v', h') -> heap_extends h h') ->
  forall els h r h', copy_els cp els h = Some (r, h') -> heap_extends h h'.
Proof.
  intros Hcp. induction els as [|x t IH]; simpl; intros h r h' H.
  - inversion H. apply heap_extends_refl.
  - destruct (cp x h) as [[x' h1]|] eqn:E1; [|discriminate].
    destruct (copy_els cp t h1) as [[t' h2]|] eqn:E2; [|discriminate]. inversion H; subst.
    eapply heap_extends_trans; [eapply Hcp; eauto|eapply IH; eauto].
Qed.

Lemma copy_pairs_extends cp :
  (forall v h v' h', cp v h = Some (v', h') -> heap_extends h h') ->
  forall m h r h', copy_pairs cp m h = Some (r, h') -> heap_extends h h'.
Proof.
  intros Hcp. induction m as [|[k x] t IH]; simpl; intros h r h' H.
  - inversion H. apply heap_extends_refl.
  - destruct (cp x h) as [[x' h1]|] eqn:E1; [|discriminate].
    destruct (copy_pairs cp t h1) as [[t' h2]|] eqn:E2; [|discriminate]. inversion H; subst.
    eapply heap_extends_trans; [eapply Hcp; eauto|eapply IH; eauto].
Qed.

Lemma hcopy_extends : forall fuel v h v' h', hcopy fuel v h = Some (v', h') -> heap_extends h h'.
Proof.
  induction fuel as [|fuel IH]; intros v h v' h' H; simpl in H; [discriminate|].
  destruct v; try (inversion H; subst; apply heap_extends_refl).
  - destruct (copy_els (hcopy fuel) (arr_at h l) h) as [[els' h1]|] eqn:E; [|discriminate].
    unfold halloc in H. inversion H; subst.
    eapply heap_extends_trans; [eapply copy_els_extends; [exact IH|exact E]|apply halloc_extends'].
  - destruct (copy_pairs (hcopy fuel) (map_at h l) h) as [[m' h1]|] eqn:E; [|discriminate].
    unfold halloc in H. inversion H; subst.
    eapply heap_extends_trans; [eapply copy_pairs_extends; [exact IH|exact E]|apply halloc_extends'].
Qed.

Lemma hrepeat_extends fuel els : forall n h r h', hrepeat fuel n els h = Some (r, h') -> heap_extends h h'.
Proof.
  induction n as [|n IH]; simpl; intros h r h' H.
  - inversion H. apply heap_extends_refl.
  - destruct (hcopy_list fuel els h) as [[c h1]|] eqn:E1; [|discriminate].
    destruct (hrepeat fuel n els h1) as [[r2 h2]|] eqn:E2; [|discriminate]. inversion H; subst.
    eapply heap_extends_trans; [|eapply IH; eauto].
    unfold hcopy_list in E1. eapply copy_els_extends; [apply hcopy_extends|exact E1].
Qed.

Lemma harr_repeat_extends r l h v h' : harr_repeat r l h = ROk v h' -> heap_extends h h'.
Proof.
  unfold harr_repeat, halloc. destruct (go_int_exact r) as [n|]; [|discriminate]. destruct (n <? 0)%Z; [discriminate|].
  destruct (repeat_too_large _ n); [discriminate|].
  destruct (arr_at h l) as [|x t].
  - intro H; inversion H; subst. apply halloc_extends'.
  - destruct (hrepeat _ _ _ _) as [[res h1]|] eqn:ER; [|discriminate].
    intro H; inversion H; subst.
    eapply heap_extends_trans; [eapply hrepeat_extends; eauto|apply halloc_extends'].
Qed.

Lemma hindex_same h a b v h' : hindex h a b = ROk v h' -> h' = h.
Proof.
  unfold hindex. intro H.
  repeat match type of H with
         | context [match ?x with _ => _ end] => destruct x; try discriminate
         end; inversion H; reflexivity.
Qed.

Lemma hslice_extends h a b c v h' : hslice h a b c = ROk v h' -> heap_extends h h'.
Proof.
  unfold hslice, halloc. intro H.
  destruct a; try discriminate;
    match type of H with context [hslice_bounds ?x ?y ?z] => destruct (hslice_bounds x y z) as [[[?|?] [?|?]]|] end;
    try discriminate;
    match type of H with context [if ?c then _ else _] => destruct c end; try discriminate.
  - inversion H; subst. apply heap_extends_refl.
  - inversion H; subst. apply halloc_extends'.
Qed.

Lemma hnum2_same h args f v h' : hnum2 h args f = ROk v h' -> h' = h.
Proof.
  unfold hnum2. intro H. destruct args as [|[] [|[] [|]]]; try discriminate.
  destruct (f f1 f0) as [[]| |]; try discriminate; inversion H; reflexivity.
Qed.
Lemma hstr2_same h args f v h' : hstr2 h args f = ROk v h' -> h' = h.
Proof.
  unfold hstr2. intro H. destruct args as [|[] [|[] [|]]]; try discriminate. inversion H; reflexivity.
Qed.

Lemma hpure_sem_extends o arg cs ls gs h args v h' :
  hpure_sem o arg cs ls gs h args = ROk v h' -> heap_extends h h'.
Proof.
  intro H. destruct o; simpl in H; try discriminate;
    try (apply hnum2_same in H; subst; apply heap_extends_refl);
    try (apply hstr2_same in H; subst; apply heap_extends_refl);
    try (inversion H; subst; apply heap_extends_refl; fail).
  - destruct (nth_error cs (N.to_nat arg)); [|discriminate]. inversion H; subst. apply heap_extends_refl.
  - destruct (nth_error gs (N.to_nat arg)); [|discriminate]. inversion H; subst. apply heap_extends_refl.
  - destruct (nth_error ls (N.to_nat arg)); [|discriminate]. inversion H; subst. apply heap_extends_refl.
  - destruct args as [|[] [|]]; try discriminate. inversion H; subst. apply heap_extends_refl.
  - destruct args as [|[] [|]]; try discriminate. inversion H; subst. apply heap_extends_refl.
  - destruct args as [|r [|l [|]]]; try discriminate.
    destruct (heq_top h l r); try discriminate. inversion H; subst. apply heap_extends_refl.
  - destruct args as [|r [|l [|]]]; try discriminate.
    destruct (heq_top h l r); try discriminate. inversion H; subst. apply heap_extends_refl.
  - unfold halloc in H. inversion H; subst. apply halloc_extends'.
  - destruct args as [|[] [|[] [|]]]; try discriminate.
    unfold halloc in H. inversion H; subst. apply halloc_extends'.
  - destruct args as [|[] [|[] [|]]]; try discriminate. eapply harr_repeat_extends; eauto.
  - destruct (hmap_pairs args []) as [ps|]; [|discriminate].
    unfold halloc in H. inversion H; subst. apply halloc_extends'.
  - destruct args as [|i [|l [|]]]; try discriminate. apply hindex_same in H; subst. apply heap_extends_refl.
  - destruct args as [|b [|a [|l [|]]]]; try discriminate. eapply hslice_extends; eauto.
Qed.

Lemma hwith_heap s next stk hp s' : hwith s next stk hp = HRunning s' -> hheap s' = hp.
Proof. unfold hwith. destruct (StackSize <? _); [discriminate|]. intro H; inversion H; reflexivity. Qed.

(* every instruction other than OpSetIndex only allocates *)
Lemma hexec_extends s o arg next s' :
  o <> SetIndex -> hexec s o arg next = HRunning s' -> heap_extends (hheap s) (hheap s').
Proof.
  intros NS H. unfold hexec in H.
  destruct o; try congruence;
    try (destruct (simple_effect _ arg) as [[pn q]|]; [|discriminate];
         destruct (List.length (hstack s) <? N.to_nat pn)%nat; [discriminate|]);
    try (match type of H with
         | context [hpure_sem ?o ?a ?c ?l ?g ?hp ?x] =>
             destruct (hpure_sem o a c l g hp x) as [v hp'|e|c0] eqn:EP; try discriminate;
             apply hwith_heap in H; rewrite H; eapply hpure_sem_extends; exact EP
         end).
  - (* SetGlobal *)
    destruct (firstn (N.to_nat pn) (hstack s)) as [|x [|]]; try discriminate.
    destruct (set_nth_opt _ _ _); [|discriminate]. inversion H; subst. apply heap_extends_refl.
  - (* Drop *) inversion H; subst. apply heap_extends_refl.
  - (* SetLocal *)
    destruct (firstn (N.to_nat pn) (hstack s)) as [|x [|]]; try discriminate.
    destruct (set_nth_opt _ _ _); [|discriminate]. inversion H; subst. apply heap_extends_refl.
  - (* Jump *) inversion H; subst. apply heap_extends_refl.
  - (* JumpOnFalse *)
    destruct (hstack s) as [|[] rest]; try discriminate. inversion H; subst. apply heap_extends_refl.
  - (* StepRange *)
    destruct (List.length (hstack s) <? 3)%nat; [discriminate|]. destruct (hzero_step _); [discriminate|].
    destruct (hstep_range _ _); [|discriminate]. apply hwith_heap in H. rewrite H. apply heap_extends_refl.
  - (* IterRange *)
    destruct (List.length (hstack s) <? 2)%nat; [discriminate|].
    destruct (hiter_range _ _ _); [|discriminate]. apply hwith_heap in H. rewrite H. apply heap_extends_refl.
Qed.

(* the code of p has no OpSetIndex opcode byte at an instruction the VM fetches:
   stated on the fetch, as hvm_step performs it *)
Definition fetches_setindex (p : program) (s : hstate) : Prop :=
  exists b rest, skipn (N.to_nat (hip s)) (pcode p) = b :: rest /\ opc_of_N b = Some SetIndex.

Theorem hvm_step_allocates_only : forall p s s',
  hvm_step p s = HRunning s' -> ~ fetches_setindex p s -> heap_extends (hheap s) (hheap s').
Proof.
  intros p s s' H NS. unfold hvm_step in H.
  destruct (skipn (N.to_nat (hip s)) (pcode p)) as [|b rest] eqn:EF; [discriminate|].
  destruct (opc_of_N b) as [o|] eqn:EO.
  - assert (No : o <> SetIndex) by (intro; subst o; apply NS; exists b, rest; split; [exact EF|exact EO]).
    destruct (vm_has_operand o).
    + destruct rest as [|hi [|lo rest']]; try discriminate. eapply hexec_extends; eauto.
    + eapply hexec_extends; eauto.
  - inversion H; subst. apply heap_extends_refl.
Qed.
